package wire

import (
	"bufio"
	"bytes"
	"encoding/binary"
	"fmt"
	"math"
	"math/rand"
	"sort"
	"strconv"
	"strings"

	"github.com/ipfs/go-cid"
	"github.com/ipfs/go-graphsync"
	"github.com/ipld/go-ipld-prime/node/basicnode"
	"github.com/ipld/go-ipld-prime/traversal/selector"
	selbuilder "github.com/ipld/go-ipld-prime/traversal/selector/builder"
	"github.com/libp2p/go-libp2p/core/peer"
	mh "github.com/multiformats/go-multihash"
	mhcore "github.com/multiformats/go-multihash/core"
)

// ---------------------------------------------------------------- random parts

var edgeUints = []uint64{0, 1, 23, 24, 255, 256, 65535, 65536, 1<<32 - 1, 1 << 32, 1<<63 - 1, 1 << 63, 1<<64 - 1}
var edgeLens = []int{0, 1, 23, 24, 255, 256}
var keyPool = []string{"", "a", "b", "B", "aa", "ab", "z", "\xff", "\x00", "id", "type", "req", "gs2", "long-key-with-more-than-23-bytes", "é"}

var extNames = []string{"graphsync/do-not-send-cids", "graphsync/dedup-by-key", "graphsync/do-not-send-first-blocks",
	"graphsync/response-metadata", "", "x", "\xff\xfe", "a-fairly-long-extension-name/with/slashes"}

// "any defined status": the status codes and link actions are taken from the Go constants of the
// repository under test (graphsync.ResponseCodeToName lists every ResponseStatusCode constant).
var statusCodes = definedStatusCodes()
var actions = []string{string(graphsync.LinkActionPresent), string(graphsync.LinkActionDuplicateNotSent),
	string(graphsync.LinkActionMissing), string(graphsync.LinkActionDuplicateDAGSkipped)}

func definedStatusCodes() []int {
	var cs []int
	for c := range graphsync.ResponseCodeToName {
		cs = append(cs, int(c))
	}
	cs = append(cs, int(graphsync.RequestAcknowledged), int(graphsync.AdditionalPeers), int(graphsync.NotEnoughGas),
		int(graphsync.OtherProtocol), int(graphsync.PartialResponse), int(graphsync.RequestPaused),
		int(graphsync.RequestCompletedFull), int(graphsync.RequestCompletedPartial), int(graphsync.RequestRejected),
		int(graphsync.RequestFailedBusy), int(graphsync.RequestFailedUnknown), int(graphsync.RequestFailedLegal),
		int(graphsync.RequestFailedContentNotFound), int(graphsync.RequestCancelled))
	sort.Ints(cs)
	out := cs[:0]
	for i, c := range cs {
		if i == 0 || c != cs[i-1] {
			out = append(out, c)
		}
	}
	return out
}

type hashChoice struct {
	code   uint64
	length int // -1 = default
}

var blockHashes = []hashChoice{
	{mh.SHA2_256, -1}, {mh.SHA2_256, -1}, {mh.SHA2_256, -1}, {mh.IDENTITY, -1}, {mh.IDENTITY, -1},
	{mh.SHA2_256, 20}, {mh.SHA2_256, 0}, {mh.SHA2_512, -1}, {mh.SHA2_512, 32}, {mh.SHA1, -1}, {mh.SHA3_256, -1},
	{mh.BLAKE2B_MIN + 31, -1}, {mh.BLAKE3, -1}, {mh.BLAKE3, 64}, {mh.MURMUR3X64_64, -1}, {mh.DBL_SHA2_256, -1}, {mh.KECCAK_256, -1},
}
var codecs = []uint64{0x55, 0x70, 0x71, 0x0129, 0x72, 1 << 40, 1<<63 - 1}

func rndBytes(r *rand.Rand, n int) []byte {
	b := make([]byte, n)
	r.Read(b)
	return b
}

func rndLen(r *rand.Rand) int {
	switch r.Intn(4) {
	case 0:
		return edgeLens[r.Intn(len(edgeLens))]
	case 1:
		return r.Intn(300)
	default:
		return r.Intn(12)
	}
}

// a valid CID for `data` (so that a block keyed by it is well-formed)
func cidFor(r *rand.Rand, data []byte) cid.Cid {
	for {
		h := blockHashes[r.Intn(len(blockHashes))]
		p := cid.Prefix{Version: 1, Codec: codecs[r.Intn(len(codecs))], MhType: h.code, MhLength: h.length}
		if r.Intn(5) == 0 && h.code == mh.SHA2_256 && h.length == -1 {
			p.Version = 0
			p.Codec = cid.DagProtobuf
		}
		c, err := p.Sum(data)
		if err == nil {
			return c
		}
	}
}

// an arbitrary valid CID (for links / roots / metadata)
func rndCid(r *rand.Rand) cid.Cid {
	if r.Intn(6) == 0 {
		// arbitrary multihash code and digest, not a hash of anything
		code := []uint64{0x12, 0x00, 0x7f, 0xb240, 1<<63 - 1, 0x1e}[r.Intn(6)]
		dig := rndBytes(r, []int{0, 1, 20, 32, 64, 127, 128, 200}[r.Intn(8)])
		m, _ := mh.Encode(dig, code)
		return cid.NewCidV1(codecs[r.Intn(len(codecs))], m)
	}
	return cidFor(r, rndBytes(r, r.Intn(40)))
}

func rndFloatBits(r *rand.Rand) uint64 {
	for {
		var f uint64
		switch r.Intn(6) {
		case 0:
			f = []uint64{0, 1 << 63, math.Float64bits(1.5), math.Float64bits(-1), math.Float64bits(math.MaxFloat64), 1, math.Float64bits(math.SmallestNonzeroFloat64), 0x7fefffffffffffff}[r.Intn(8)]
		default:
			f = r.Uint64()
		}
		if (f>>52)&0x7ff != 0x7ff {
			return f
		}
	}
}

func rndScalar(r *rand.Rand) *V {
	switch r.Intn(12) {
	case 0:
		return U(edgeUints[r.Intn(len(edgeUints))])
	case 1:
		return U(uint64(r.Intn(1000)))
	case 2:
		n := edgeUints[r.Intn(len(edgeUints))]
		if n > 1<<63-1 {
			n = 1<<63 - 1
		}
		return I(n)
	case 3:
		return I(uint64(r.Intn(1000)))
	case 4, 5:
		return Bs(rndBytes(r, rndLen(r)))
	case 6:
		return &V{K: 't', B: rndBytes(r, rndLen(r))}
	case 7:
		return Tx([]string{"", "a", "hello", "R", "a>", "é", "graphsync"}[r.Intn(7)])
	case 8:
		return Lk(rndCid(r).Bytes())
	case 9:
		return Bo(r.Intn(2) == 0)
	case 10:
		return Nl()
	default:
		return Fl(rndFloatBits(r))
	}
}

// random well-formed value (unique keys, finite floats, valid links)
func rndVal(r *rand.Rand, depth int) *V {
	if depth <= 0 || r.Intn(3) > 0 {
		return rndScalar(r)
	}
	if r.Intn(2) == 0 {
		n := r.Intn(5)
		if r.Intn(10) == 0 {
			n = 24 + r.Intn(3)
		}
		v := &V{K: 'a'}
		for i := 0; i < n; i++ {
			v.A = append(v.A, rndVal(r, depth-1))
		}
		return v
	}
	n := r.Intn(5)
	v := &V{K: 'm'}
	seen := map[string]bool{}
	for i := 0; i < n; i++ {
		var k string
		if r.Intn(3) == 0 {
			k = string(rndBytes(r, r.Intn(4)))
		} else {
			k = keyPool[r.Intn(len(keyPool))]
		}
		if seen[k] {
			continue
		}
		seen[k] = true
		v.M = append(v.M, KV{&V{K: 't', B: []byte(k)}, rndVal(r, depth-1)})
	}
	return v
}

func nested(n int, leaf *V) *V {
	v := leaf
	for i := 0; i < n; i++ {
		v = Ar(v)
	}
	return v
}

// a real selector built with go-ipld-prime's builder, as a value tree
func realSelector(r *rand.Rand) *V {
	ssb := selbuilder.NewSelectorSpecBuilder(basicnode.Prototype.Any)
	var spec selbuilder.SelectorSpec
	switch r.Intn(4) {
	case 0:
		spec = ssb.ExploreRecursive(selector.RecursionLimitNone(), ssb.ExploreAll(ssb.ExploreRecursiveEdge()))
	case 1:
		spec = ssb.ExploreRecursive(selector.RecursionLimitDepth(int64(r.Intn(100))), ssb.ExploreAll(ssb.ExploreRecursiveEdge()))
	case 2:
		spec = ssb.ExploreFields(func(efsb selbuilder.ExploreFieldsSpecBuilder) {
			efsb.Insert("Links", ssb.ExploreIndex(int64(r.Intn(5)), ssb.Matcher()))
			efsb.Insert("a", ssb.ExploreRange(1, 5, ssb.Matcher()))
		})
	default:
		spec = ssb.Matcher()
	}
	var buf bytes.Buffer
	n := spec.Node()
	if err := encodeNode(n, &buf); err != nil {
		return Mp(kv(".", Mp()))
	}
	v, _ := parseTree(buf.Bytes())
	if v == nil {
		return Mp(kv(".", Mp()))
	}
	return v
}

// ---------------------------------------------------------------- message descriptions

type gExt struct {
	name []byte
	val  *V // nil = Go nil
}
type gReq struct {
	id   []byte
	ty   string
	pri  int32
	root []byte // nil = cid.Undef
	sel  *V
	exts []gExt
}
type gMd struct {
	cid    []byte
	action string
}
type gRsp struct {
	id     []byte
	status int
	mds    []gMd
	exts   []gExt
}
type gBlk struct {
	cid  []byte
	data []byte
}
type gMsg struct {
	reqs []gReq
	rsps []gRsp
	blks []gBlk
}

func optToks(v *V) []string {
	if v == nil {
		return []string{"N"}
	}
	return append([]string{"S"}, v.toks()...)
}

func extToks(es []gExt) []string {
	out := []string{strconv.Itoa(len(es))}
	for _, e := range es {
		out = append(out, hx(e.name))
		out = append(out, optToks(e.val)...)
	}
	return out
}

func (m *gMsg) toks() []string {
	var out []string
	for _, q := range m.reqs {
		root := "-"
		if q.root != nil {
			root = hx(q.root)
		}
		out = append(out, "req", hx(q.id), q.ty, strconv.Itoa(int(q.pri)), root)
		out = append(out, optToks(q.sel)...)
		out = append(out, extToks(q.exts)...)
	}
	for _, s := range m.rsps {
		out = append(out, "rsp", hx(s.id), strconv.Itoa(s.status), strconv.Itoa(len(s.mds)))
		for _, d := range s.mds {
			out = append(out, hx(d.cid), hx([]byte(d.action)))
		}
		out = append(out, extToks(s.exts)...)
	}
	for _, b := range m.blks {
		out = append(out, "blk", hx(b.cid), hx(b.data))
	}
	return out
}

func rndExts(r *rand.Rand, max int) []gExt {
	n := r.Intn(max + 1)
	var es []gExt
	seen := map[string]bool{}
	for i := 0; i < n; i++ {
		name := extNames[r.Intn(len(extNames))]
		if r.Intn(5) == 0 {
			name = string(rndBytes(r, r.Intn(30)))
		}
		if seen[name] {
			continue
		}
		seen[name] = true
		var v *V
		switch r.Intn(8) {
		case 0:
			v = nil
		case 1:
			v = Nl() // the null node: travels as null, comes back as nil
		case 2:
			// do-not-send-cids payload
			v = &V{K: 'a'}
			for j := r.Intn(4); j > 0; j-- {
				v.A = append(v.A, Lk(rndCid(r).Bytes()))
			}
		case 3:
			v = Tx("dedup-key-" + strconv.Itoa(r.Intn(100)))
		case 4:
			v = U(uint64(r.Intn(1 << 20)))
		default:
			v = rndVal(r, 3)
		}
		es = append(es, gExt{[]byte(name), v})
	}
	return es
}

func rndPri(r *rand.Rand) int32 {
	switch r.Intn(8) {
	case 0:
		return 0
	case 1:
		return math.MaxInt32
	case 2:
		return math.MinInt32
	case 3:
		return -1
	case 4:
		return int32(r.Uint32())
	default:
		return int32(r.Intn(100))
	}
}

func rndReq(r *rand.Rand) gReq {
	q := gReq{id: rndBytes(r, 16)}
	switch r.Intn(6) {
	case 0:
		q.ty = "c"
	case 1:
		q.ty = "u"
		q.exts = rndExts(r, 3)
	default:
		q.ty = "n"
		q.pri = rndPri(r)
		if r.Intn(8) > 0 {
			q.root = rndCid(r).Bytes()
		}
		switch r.Intn(6) {
		case 0:
			q.sel = nil
		case 1, 2:
			q.sel = realSelector(r)
		default:
			q.sel = rndVal(r, 3)
			if q.sel.K == 'z' {
				q.sel = Mp()
			}
		}
		q.exts = rndExts(r, 3)
	}
	return q
}

func rndRsp(r *rand.Rand) gRsp {
	s := gRsp{id: rndBytes(r, 16), status: statusCodes[r.Intn(len(statusCodes))]}
	for i := r.Intn(5); i > 0; i-- {
		s.mds = append(s.mds, gMd{rndCid(r).Bytes(), actions[r.Intn(len(actions))]})
	}
	s.exts = rndExts(r, 2)
	return s
}

func rndBlk(r *rand.Rand) gBlk {
	var data []byte
	switch r.Intn(5) {
	case 0:
		data = nil
	case 1:
		data = rndBytes(r, 200+r.Intn(2000))
	default:
		data = rndBytes(r, r.Intn(64))
	}
	return gBlk{cidFor(r, data).Bytes(), data}
}

func rndMsg(r *rand.Rand, maxEach int) *gMsg {
	m := &gMsg{}
	for i := r.Intn(maxEach + 1); i > 0; i-- {
		m.reqs = append(m.reqs, rndReq(r))
	}
	for i := r.Intn(maxEach + 1); i > 0; i-- {
		m.rsps = append(m.rsps, rndRsp(r))
	}
	seen := map[string]bool{}
	for i := r.Intn(maxEach + 1); i > 0; i-- {
		b := rndBlk(r)
		if !seen[string(b.cid)] {
			seen[string(b.cid)] = true
			m.blks = append(m.blks, b)
		}
	}
	if maxEach > 1 && r.Intn(3) == 0 {
		// blocks whose CID prefixes agree in version, codec and hash function and differ only in the
		// digest length (and blocks that share the whole prefix)
		codec := codecs[r.Intn(len(codecs))]
		code := []uint64{mh.SHA2_256, mh.SHA2_512, mh.BLAKE3}[r.Intn(3)]
		for _, ln := range [][]int{{-1, 20}, {20, -1}, {16, 20, -1}, {-1, -1}}[r.Intn(4)] {
			data := rndBytes(r, 1+r.Intn(40))
			c, err := cid.Prefix{Version: 1, Codec: codec, MhType: code, MhLength: ln}.Sum(data)
			if err == nil && !seen[string(c.Bytes())] {
				seen[string(c.Bytes())] = true
				m.blks = append(m.blks, gBlk{c.Bytes(), data})
			}
		}
	}
	return m
}

// ---------------------------------------------------------------- hash hints

func hintLine(code uint64, length int, data []byte) string {
	out := "none"
	func() {
		defer func() { recover() }()
		h, err := mhcore.GetVariableHasher(code, length)
		if err != nil {
			return
		}
		h.Write(data)
		out = hx(h.Sum(nil))
	}()
	return fmt.Sprintf("hash %d %d %s %s", code, length, hx(data), out)
}

// hints for the blocks of a message description (what the model's well-formedness check and decoder
// ask the hash parameter)
func (m *gMsg) hints() []string {
	var out []string
	for _, b := range m.blks {
		c, err := cid.Cast(b.cid)
		if err != nil {
			continue
		}
		p := c.Prefix()
		if p.MhType != mh.IDENTITY && p.MhType != mh.SHA2_256 {
			out = append(out, hintLine(p.MhType, p.MhLength, b.data))
		}
	}
	return out
}

// hints for arbitrary (possibly mutated) frame bytes: scan leniently for gs2.blk entries
func hintsForBytes(frame []byte) []string {
	_, n := binary.Uvarint(frame)
	if n <= 0 || n > len(frame) {
		return nil
	}
	return hintsForTree(scanTree(frame[n:]))
}

func hintsForTree(t *V) []string {
	var out []string
	inner := t.get("gs2")
	blk := inner.get("blk")
	if blk == nil || blk.K != 'a' {
		return nil
	}
	for _, e := range blk.A {
		if e.K != 'a' || len(e.A) < 2 || e.A[0].K != 'b' || e.A[1].K != 'b' {
			continue
		}
		pb := e.A[0].B
		var f [4]uint64
		ok := true
		for i := 0; i < 4 && ok; i++ {
			v, n := binary.Uvarint(pb)
			if n <= 0 {
				ok = false
				break
			}
			f[i], pb = v, pb[n:]
		}
		if !ok || f[2] == mh.IDENTITY || f[2] == mh.SHA2_256 || f[3] > 1<<20 {
			continue
		}
		out = append(out, hintLine(f[2], int(f[3]), e.A[1].B))
	}
	return out
}

// scanTree: like parseTree but tolerant of the mutations this package produces where possible
func scanTree(b []byte) *V {
	v, _ := parseTree(b)
	return v
}

// ---------------------------------------------------------------- the real encoder at generation time

// goBytes builds the described message with the real constructors and returns ToNet's output
// (nil if the description cannot be built or encoded).
func goBytes(desc []string, builder bool) (out []byte) {
	defer func() {
		if recover() != nil {
			out = nil
		}
	}()
	m, err := buildMsg(&toks{t: desc}, builder)
	if err != nil {
		return nil
	}
	var buf bytes.Buffer
	if err := handler.ToNet(peer.ID("p"), m, &buf); err != nil {
		return nil
	}
	return buf.Bytes()
}

func frameOf(payload []byte) []byte {
	l := make([]byte, binary.MaxVarintLen64)
	n := binary.PutUvarint(l, uint64(len(payload)))
	return append(l[:n:n], payload...)
}

// ---------------------------------------------------------------- component "wire": generator

type caseW struct {
	w  *bufio.Writer
	id string
}

func emit(w *bufio.Writer, format string, a ...interface{}) {
	fmt.Fprintf(w, format, a...)
	w.WriteByte('\n')
}

func isBuilderCase(header string) bool { return strings.Contains(header, " builder") }

func startCase(w *bufio.Writer, r *rand.Rand, id string) bool {
	b := r.Intn(2) == 0
	if b {
		emit(w, "case %s builder", id)
	} else {
		emit(w, "case %s", id)
	}
	return b
}

func genFullMessage(r *rand.Rand, w *bufio.Writer, id string, maxEach int) {
	b := startCase(w, r, id)
	m := rndMsg(r, maxEach)
	d := m.toks()
	for _, h := range m.hints() {
		emit(w, "%s", h)
	}
	emit(w, "enc %s", strings.Join(d, " "))
	emit(w, "rt %s", strings.Join(d, " "))
	if gb := goBytes(d, b); gb != nil {
		emit(w, "dec %s", hx(gb))
	}
}

func genStream(r *rand.Rand, w *bufio.Writer, id string) {
	b := startCase(w, r, id)
	k := 1 + r.Intn(5)
	var descs []string
	var all []byte
	for i := 0; i < k; i++ {
		m := rndMsg(r, 2)
		for _, h := range m.hints() {
			emit(w, "%s", h)
		}
		d := m.toks()
		descs = append(descs, strings.Join(d, " "))
		all = append(all, goBytes(d, b)...)
	}
	emit(w, "streamrt %s", strings.Join(descs, " ; "))
	emit(w, "stream %s", hx(all))
	// the same stream cut short / with a bad tail
	if len(all) > 2 {
		cut := 1 + r.Intn(len(all)-1)
		emit(w, "stream %s", hx(all[:cut]))
		emit(w, "stream %s", hx(append(append([]byte{}, all...), rndBytes(r, 1+r.Intn(4))...)))
	}
}

func genExtCodecs(r *rand.Rand, w *bufio.Writer, id string) {
	emit(w, "case %s", id)
	// do-not-send-cids: the set is a set of FULL CIDs -- members may share the multihash and differ only
	// in version (CIDv0 / CIDv1) or codec (raw / dag-pb / dag-cbor over the same bytes); duplicates,
	// the empty set and large sets are generated too
	n := r.Intn(6)
	switch r.Intn(8) {
	case 0:
		n = 0
	case 1:
		n = 40 + r.Intn(200)
	}
	var cs []string
	var pool []cid.Cid
	for i := 0; i < n; i++ {
		if len(pool) > 0 && r.Intn(5) == 0 {
			cs = append(cs, hx(pool[r.Intn(len(pool))].Bytes())) // duplicate
			continue
		}
		var c cid.Cid
		if len(pool) > 0 && r.Intn(3) == 0 {
			// same multihash as a member already in the set, other version / codec
			base := pool[r.Intn(len(pool))]
			dec, err := mh.Decode(base.Hash())
			if err == nil && dec.Code == mh.SHA2_256 && dec.Length == 32 && r.Intn(3) == 0 {
				c = cid.NewCidV0(base.Hash())
			} else {
				c = cid.NewCidV1(codecs[r.Intn(len(codecs))], base.Hash())
			}
		} else if r.Intn(3) == 0 {
			sum, _ := mh.Sum(rndBytes(r, 8), mh.SHA2_256, -1)
			c = cid.NewCidV0(sum)
		} else {
			c = rndCid(r)
		}
		pool = append(pool, c)
		cs = append(cs, hx(c.Bytes()))
	}
	emit(w, "cidset %d %s", len(cs), strings.Join(cs, " "))
	{
		// always: the four spellings of one block in one set
		sum, _ := mh.Sum(rndBytes(r, 8), mh.SHA2_256, -1)
		four := []cid.Cid{cid.NewCidV0(sum), cid.NewCidV1(cid.DagProtobuf, sum), cid.NewCidV1(cid.Raw, sum), cid.NewCidV1(cid.DagCBOR, sum)}
		var hs []string
		for _, c := range four[:2+r.Intn(3)] {
			hs = append(hs, hx(c.Bytes()))
		}
		emit(w, "cidset %d %s", len(hs), strings.Join(hs, " "))
	}
	var dv *V
	switch r.Intn(4) {
	case 0:
		dv = rndVal(r, 2)
	case 1:
		dv = Ar(Lk(rndCid(r).Bytes()), rndScalar(r))
	default:
		dv = &V{K: 'a'}
		for i := r.Intn(5); i > 0; i-- {
			if len(pool) > 0 && r.Intn(2) == 0 {
				dv.A = append(dv.A, Lk(pool[r.Intn(len(pool))].Bytes()))
			} else {
				dv.A = append(dv.A, Lk(rndCid(r).Bytes()))
			}
		}
	}
	emit(w, "cidsetdec %s", strings.Join(dv.toks(), " "))
	// dedup-by-key
	emit(w, "dedup %s", hx(rndBytes(r, rndLen(r))))
	emit(w, "dedup %s", hx([]byte([]string{"", "key", "é", "a b"}[r.Intn(4)])))
	emit(w, "dedupdec %s", strings.Join(rndScalar(r).toks(), " "))
	// do-not-send-first-blocks
	fbs := []int64{0, 1, -1, 23, 24, 255, 256, math.MaxInt64, math.MinInt64, math.MaxInt32, int64(r.Uint64())}
	emit(w, "fb %d", fbs[r.Intn(len(fbs))])
	emit(w, "fbdec %s", strings.Join(rndScalar(r).toks(), " "))
	emit(w, "fbdec u %d", edgeUints[r.Intn(len(edgeUints))])
}

func genCborPlain(r *rand.Rand, w *bufio.Writer, id string) {
	emit(w, "case %s", id)
	for i := 0; i < 3; i++ {
		v := rndVal(r, 4)
		emit(w, "cborenc %s", strings.Join(v.toks(), " "))
		emit(w, "cbor %s", hx(v.enc(nil)))
	}
	// a few hand-bent encodings
	v := rndVal(r, 3)
	mutateTree(r, v)
	emit(w, "cbor %s", hx(v.enc(nil)))
	emit(w, "cbor %s", hx(rndBytes(r, 1+r.Intn(12))))
}

// messages that are deliberately NOT well-formed: both sides must still agree on what happens
func genNotWF(r *rand.Rand, w *bufio.Writer, id string) {
	b := startCase(w, r, id)
	_ = b
	m := rndMsg(r, 1)
	if len(m.reqs) == 0 {
		m.reqs = append(m.reqs, rndReq(r))
	}
	if len(m.rsps) == 0 {
		m.rsps = append(m.rsps, rndRsp(r))
	}
	switch r.Intn(8) {
	case 0: // undefined status code
		m.rsps[0].status = []int{0, 1, 16, 19, 22, 36, 99, -1, math.MaxInt32, math.MinInt32}[r.Intn(10)]
	case 1: // unknown link action
		m.rsps[0].mds = append(m.rsps[0].mds, gMd{rndCid(r).Bytes(), []string{"p", "Bogus", "", "present"}[r.Intn(4)]})
	case 2: // null selector node
		m.reqs[0].ty, m.reqs[0].sel = "n", Nl()
	case 3: // NaN / Inf in extension data
		bits := []uint64{0x7ff8000000000001, 0x7ff0000000000000, 0xfff0000000000000, 0xffffffffffffffff}[r.Intn(4)]
		m.reqs[0].ty = "n"
		m.reqs[0].exts = []gExt{{[]byte("f"), Ar(Fl(bits))}}
	case 4: // block stored under a CID that is not the hash of its data
		data := rndBytes(r, 10)
		m.blks = []gBlk{{cidFor(r, rndBytes(r, 11)).Bytes(), data}}
	case 5: // cancel carrying extensions (ReplaceExtensions on a cancel request)
		m.reqs[0] = gReq{id: rndBytes(r, 16), ty: "c", exts: []gExt{{[]byte("x"), U(1)}}}
	case 6: // duplicate extension names: the constructor keeps the last
		m.rsps[0].exts = []gExt{{[]byte("dup"), U(1)}, {[]byte("dup"), U(2)}}
	case 7: // selector nested too deep for the decoder
		m.reqs[0].ty, m.reqs[0].sel = "n", nested(1018+r.Intn(6), U(0))
	}
	d := m.toks()
	for _, h := range m.hints() {
		emit(w, "%s", h)
	}
	emit(w, "enc %s", strings.Join(d, " "))
	emit(w, "rtx %s", strings.Join(d, " "))
}

// one block sized so that the payload is exactly `target` bytes
func sizedMessage(r *rand.Rand, target int) *gMsg {
	mk := func(n int) *gMsg {
		data := make([]byte, n)
		for i := range data {
			data[i] = byte(i * 7)
		}
		c, _ := cid.Prefix{Version: 1, Codec: 0x55, MhType: mh.SHA2_256, MhLength: -1}.Sum(data)
		return &gMsg{blks: []gBlk{{c.Bytes(), data}}}
	}
	n := target - 64
	for i := 0; i < 4; i++ {
		m := mk(n)
		fb := goBytes(m.toks(), false)
		_, hl := binary.Uvarint(fb)
		got := len(fb) - hl
		if got == target {
			return m
		}
		n += target - got
	}
	return mk(n)
}

func genSizeBoundary(r *rand.Rand, w *bufio.Writer, id string, target int) {
	emit(w, "case %s", id)
	m := sizedMessage(r, target)
	d := strings.Join(m.toks(), " ")
	if target <= 1<<22 {
		emit(w, "rt %s", d)
	} else {
		emit(w, "rtx %s", d)
	}
}

// GenWire: well-formed traffic (plus a small share of deliberately ill-formed descriptions).
func GenWire(seed int64, n int, tier string, w *bufio.Writer) {
	r := rand.New(rand.NewSource(seed))
	// frame-size boundary: payload of exactly 4 MiB round-trips, one byte more does not
	genSizeBoundary(r, w, "size-max", 1<<22)
	genSizeBoundary(r, w, "size-over", 1<<22+1)
	for i := 0; i < n; i++ {
		id := fmt.Sprintf("w%d", i)
		switch k := r.Intn(100); {
		case k < 40:
			genFullMessage(r, w, id, 3)
		case k < 55:
			genFullMessage(r, w, id, 1)
		case k < 65:
			genStream(r, w, id)
		case k < 75:
			genExtCodecs(r, w, id)
		case k < 88:
			genCborPlain(r, w, id)
		default:
			genNotWF(r, w, id)
		}
	}
	if tier == "thorough" {
		// every half-precision float, every single-byte item, every status number in a window
		for base := 0; base < 65536; base += 512 {
			emit(w, "case f16-%d", base)
			for h := base; h < base+512; h++ {
				emit(w, "cbor %s", hx([]byte{0xf9, byte(h >> 8), byte(h)}))
			}
		}
		emit(w, "case first-bytes")
		for b := 0; b < 256; b++ {
			emit(w, "cbor %s", hx([]byte{byte(b)}))
			emit(w, "cbor %s", hx([]byte{byte(b), 0x18, 0x61, 0x61, 0x00}))
		}
		emit(w, "case all-status")
		for s := -3; s < 70; s++ {
			m := &gMsg{rsps: []gRsp{{id: rndBytes(r, 16), status: s}}}
			emit(w, "rtx %s", strings.Join(m.toks(), " "))
		}
	}
}

// ---------------------------------------------------------------- component "wiremut": mutations

// mutateTree bends one place of a value tree into something the real encoder never emits.
func mutateTree(r *rand.Rand, root *V) string {
	sl := root.slots(nil)
	sl = append(sl, slot{func() *V { return root }, func(x *V) { *root = *x }})
	s := sl[r.Intn(len(sl))]
	v := s.get()
	switch k := r.Intn(22); k {
	case 0:
		v.Width = []int{1, 2, 4, 8}[r.Intn(4)]
		return "nonminimal"
	case 1:
		if v.K == 'a' || v.K == 'm' || v.K == 'b' || v.K == 't' {
			v.Indef = true
			return "indefinite"
		}
		s.set(Raw([]byte{0xff}))
		return "break"
	case 2:
		v.Tags = append(v.Tags, []uint64{0, 1, 5, 24, 42, 42, 1<<63 - 1, 1 << 63}[r.Intn(8)])
		return "tag"
	case 3:
		v.Tags = append(v.Tags, 42, 42)
		return "double-tag"
	case 4:
		if v.K == 'm' && len(v.M) > 0 {
			e := v.M[r.Intn(len(v.M))]
			v.M = append(v.M, KV{e.K, rndScalar(r)})
			return "dup-key"
		}
		s.set(Mp(kv("a", U(1)), kv("a", U(2))))
		return "dup-key"
	case 5:
		if v.K == 'm' && len(v.M) > 1 {
			shuffleKVs(r, v.M)
			return "unsorted"
		}
		s.set(Mp(kv("bb", U(1)), kv("a", U(2))))
		return "unsorted"
	case 6:
		if v.K == 'm' && len(v.M) > 0 {
			v.M[r.Intn(len(v.M))].K = []*V{U(1), Bs([]byte("id")), Nl(), Ar(), I(0)}[r.Intn(5)]
			return "nonstring-key"
		}
		s.set(Mp(KV{U(1), U(1)}))
		return "nonstring-key"
	case 7:
		s.set(&V{K: 'h', N: uint64(r.Intn(65536))})
		return "float16"
	case 8:
		s.set(&V{K: 'g', N: uint64(r.Uint32())})
		return "float32"
	case 9:
		s.set(Fl([]uint64{0x7ff8000000000000, 0x7ff0000000000000, 0xfff0000000000000, 0x7ff0000000000001}[r.Intn(4)]))
		return "nan-inf"
	case 10:
		s.set(&V{K: 's', N: uint64([]byte{0xf7, 0xe0, 0xf3, 0xf8, 0xfc, 0xfd, 0xfe, 0x1c, 0x1f, 0x3f, 0x5c, 0xdc, 0xdf}[r.Intn(13)])})
		return "simple"
	case 11:
		s.set(I([]uint64{1<<64 - 1, 1 << 63, 1<<63 - 1}[r.Intn(3)]))
		return "negint-edge"
	case 12:
		s.set(U([]uint64{1<<64 - 1, 1 << 63, 1 << 32, 1 << 31, 1<<31 - 1}[r.Intn(5)]))
		return "uint-edge"
	case 13:
		s.set(nested([]int{5, 500, 1015, 1018, 1019, 1020, 1021, 1024, 1030, 3000}[r.Intn(10)], U(0)))
		return "nesting"
	case 14:
		if v.K == 'a' || v.K == 'm' {
			v.LenAdj = []int{1, -1, 2, 1 << 20, 1 << 40}[r.Intn(5)]
			if len(v.A)+len(v.M)+v.LenAdj < 0 {
				v.LenAdj = 1
			}
			return "length-lie"
		}
		s.set(Raw(headW(2, uint64([]int{1 << 20, 33554432, 33554433, 1 << 40}[r.Intn(4)]), 0)))
		return "huge-string-head"
	case 15:
		// bad link payloads
		c := rndCid(r).Bytes()
		var p []byte
		switch r.Intn(7) {
		case 0:
			p = c // no multibase prefix
		case 1:
			p = append([]byte{0}, c[:len(c)-1]...) // truncated
		case 2:
			p = append(append([]byte{0}, c...), 0) // trailing byte
		case 3:
			p = []byte{0}
		case 4:
			p = nil
		case 5:
			p = append([]byte{0, 2}, c[1:]...) // version 2
		default:
			p = append([]byte{1}, c...) // wrong multibase
		}
		s.set(&V{K: 'b', B: p, Tags: []uint64{42}})
		return "bad-link"
	case 16:
		s.set(Nl())
		return "null"
	case 17:
		s.set(rndScalar(r))
		return "wrong-kind"
	case 18:
		s.set(rndVal(r, 2))
		return "wrong-kind"
	case 19:
		if v.K == 'a' && len(v.A) > 0 {
			i := r.Intn(len(v.A))
			if r.Intn(2) == 0 {
				v.A = append(v.A[:i], v.A[i+1:]...)
				return "tuple-short"
			}
			v.A = append(v.A, v.A[i])
			return "tuple-long"
		}
		s.set(Ar())
		return "wrong-kind"
	case 20:
		if v.K == 't' {
			v.B = []byte([]string{"New", "Cancel", "Update", "Present", "Missing", "DuplicateNotSent", "DuplicateDAGSkipped", "n", "c", "u", "p", "d", "m", "s", "x", "", "N", "new"}[r.Intn(18)])
			return "enum-string"
		}
		s.set(Tx([]string{"New", "Cancel", "x"}[r.Intn(3)]))
		return "enum-string"
	default:
		if v.K == 'b' {
			switch r.Intn(4) {
			case 0:
				v.B = v.B[:len(v.B)/2]
			case 1:
				v.B = append(v.B, 0)
			case 2:
				v.B = nil
			default:
				v.K = 't'
			}
			return "bytes-length"
		}
		s.set(Bs(rndBytes(r, []int{0, 15, 16, 17}[r.Intn(4)])))
		return "bytes-length"
	}
}

// mutations that know where things are in a message
func mutateMessageTree(r *rand.Rand, root *V) string {
	inner := root.get("gs2")
	if inner == nil {
		return mutateTree(r, root)
	}
	pick := func(list *V) *V {
		if list == nil || list.K != 'a' || len(list.A) == 0 {
			return nil
		}
		return list.A[r.Intn(len(list.A))]
	}
	setKey := func(m *V, key string, val *V) {
		for i := range m.M {
			if string(m.M[i].K.B) == key {
				m.M[i].V = val
				return
			}
		}
		m.M = append(m.M, kv(key, val))
	}
	switch r.Intn(16) {
	case 0: // request id of a wrong length
		if q := pick(inner.get("req")); q != nil {
			setKey(q, "id", Bs(rndBytes(r, []int{0, 1, 15, 17, 32}[r.Intn(5)])))
			return "id-length"
		}
	case 1:
		if q := pick(inner.get("rsp")); q != nil {
			setKey(q, "reqid", Bs(rndBytes(r, []int{0, 1, 15, 17, 32}[r.Intn(5)])))
			return "id-length"
		}
	case 2: // status outside the enum / of a wrong kind
		if q := pick(inner.get("rsp")); q != nil {
			setKey(q, "stat", []*V{U(0), U(16), U(99), I(0), U(1 << 40), U(1 << 63), Tx("20"), Fl(math.Float64bits(20)), U(20), U(35)}[r.Intn(10)])
			return "status"
		}
	case 3: // priority out of the int32 range (bindnode truncates)
		if q := pick(inner.get("req")); q != nil {
			setKey(q, "type", Tx("n"))
			setKey(q, "pri", []*V{U(1 << 31), U(1<<32 + 5), U(1 << 63), U(1<<64 - 1), I(1 << 31), I(1<<63 - 1), I(1<<64 - 1), U(0), Fl(0), Tx("1")}[r.Intn(10)])
			return "priority"
		}
	case 4: // request type strings
		if q := pick(inner.get("req")); q != nil {
			setKey(q, "type", Tx([]string{"New", "Cancel", "Update", "c", "u", "n", "x", "", "Restart", "r"}[r.Intn(10)]))
			return "request-type"
		}
	case 5: // unknown / renamed keys
		if q := pick(inner.get([]string{"req", "rsp"}[r.Intn(2)])); q != nil && q.K == 'm' {
			if r.Intn(2) == 0 && len(q.M) > 0 {
				q.M[r.Intn(len(q.M))].K = Tx([]string{"requestType", "priority", "extensions", "status", "metadata", "ID", "zz"}[r.Intn(7)])
			} else {
				q.M = append(q.M, kv([]string{"zz", "reqid", "stat", "meta", "blk"}[r.Intn(5)], rndScalar(r)))
			}
			return "unknown-key"
		}
	case 6: // missing required field
		if q := pick(inner.get([]string{"req", "rsp"}[r.Intn(2)])); q != nil && q.K == 'm' && len(q.M) > 0 {
			i := r.Intn(len(q.M))
			q.M = append(q.M[:i], q.M[i+1:]...)
			return "missing-field"
		}
	case 7: // explicit null for an optional field
		if q := pick(inner.get([]string{"req", "rsp"}[r.Intn(2)])); q != nil && q.K == 'm' {
			setKey(q, []string{"pri", "root", "sel", "ext", "meta"}[r.Intn(5)], Nl())
			return "null-optional"
		}
	case 8: // block prefixes
		if b := pick(inner.get("blk")); b != nil && b.K == 'a' && len(b.A) == 2 {
			ver := []uint64{0, 1, 1, 1, 2, 1 << 62}[r.Intn(6)]
			codec := codecs[r.Intn(len(codecs))]
			code := []uint64{0x12, 0x12, 0x00, 0x13, 0x11, 0x16, 0x1e, 0x22, 0x56, 0x7f, 0xb220, 0xb240, 0x1b, 1<<63 - 1}[r.Intn(14)]
			ln := []uint64{0, 1, 20, 32, 32, 33, 64, 65, 128, 129, 1 << 31, 1<<63 - 1}[r.Intn(12)]
			var p []byte
			for _, x := range []uint64{ver, codec, code, ln} {
				p = binary.AppendUvarint(p, x)
			}
			switch r.Intn(8) {
			case 0:
				p = p[:len(p)-1]
			case 1:
				p = append(p, rndBytes(r, 1+r.Intn(3))...)
			case 2:
				p = append([]byte{0x80}, p...) // non-minimal / shifted
			case 3:
				p = bytes.Repeat([]byte{0xff}, 10)
			}
			b.A[0] = Bs(p)
			return "block-prefix"
		}
	case 9: // block tuple arity / kinds
		if b := pick(inner.get("blk")); b != nil && b.K == 'a' {
			switch r.Intn(4) {
			case 0:
				b.A = b.A[:1]
			case 1:
				b.A = append(b.A, Bs(nil))
			case 2:
				b.A[len(b.A)-1] = Tx("data")
			default:
				b.A = nil
			}
			return "block-tuple"
		}
	case 10: // metadata entries
		if q := pick(inner.get("rsp")); q != nil {
			c := Lk(rndCid(r).Bytes())
			setKey(q, "meta", Ar([]*V{Ar(c), Ar(c, Tx("p"), U(1)), Ar(c, Tx("x")), Ar(c, Tx("Present")), Ar(Bs(c.B), Tx("p")), Mp(kv("link", c), kv("action", Tx("p"))), Ar(Tx("p"), c), Ar(c, Tx("s"))}[r.Intn(8)]))
			return "metadata"
		}
	case 11: // extension maps
		if q := pick(inner.get([]string{"req", "rsp"}[r.Intn(2)])); q != nil {
			setKey(q, "type", Tx("n"))
			setKey(q, "ext", []*V{Mp(), Mp(kv("a", Nl())), Mp(kv("bb", U(1)), kv("a", U(2))), Ar(), Mp(kv("a", U(1)), kv("a", U(1))), Mp(KV{U(1), U(1)}), Mp(kv("n", nested(1019, U(0)))), Mp(kv("n", nested(1020, U(0))))}[r.Intn(8)])
			return "extensions"
		}
	case 12: // duplicate request ids: the later entry wins
		if l := inner.get("req"); l != nil && l.K == 'a' && len(l.A) > 0 {
			q := l.A[r.Intn(len(l.A))]
			var id *V
			if id = q.get("id"); id == nil {
				break
			}
			l.A = append(l.A, Mp(kv("id", id), kv("type", Tx("n")), kv("pri", U(uint64(r.Intn(9))))))
			return "dup-request"
		}
	case 13: // duplicate blocks
		if l := inner.get("blk"); l != nil && l.K == 'a' && len(l.A) > 0 {
			l.A = append(l.A, l.A[r.Intn(len(l.A))])
			return "dup-block"
		}
	case 14: // root union
		switch r.Intn(5) {
		case 0:
			root.M = append(root.M, kv("gs3", Mp()))
		case 1:
			root.M[0].K = Tx([]string{"gs1", "gs3", "", "GS2"}[r.Intn(4)])
		case 2:
			root.M = nil
		case 3:
			root.M[0].V = Nl()
		default:
			inner.M = append(inner.M, kv([]string{"zzz", "requests", "req"}[r.Intn(3)], Ar()))
		}
		return "root"
	case 15: // cancel / update carrying fields they must not deliver
		if q := pick(inner.get("req")); q != nil {
			setKey(q, "type", Tx([]string{"c", "u"}[r.Intn(2)]))
			setKey(q, "pri", U(7))
			setKey(q, "root", Lk(rndCid(r).Bytes()))
			setKey(q, "sel", rndVal(r, 2))
			setKey(q, "ext", Mp(kv("k", rndVal(r, 1)), kv("nil", Nl())))
			if q.get("sel").K == 'z' {
				setKey(q, "sel", U(1))
			}
			return "cancel-update-fields"
		}
	}
	return mutateTree(r, root)
}

func mutateFrameBytes(r *rand.Rand, frame []byte) ([]byte, string) {
	_, hl := binary.Uvarint(frame)
	payload := frame[hl:]
	switch r.Intn(12) {
	case 0:
		if len(frame) > 1 {
			return frame[:1+r.Intn(len(frame)-1)], "truncate"
		}
		return nil, "truncate"
	case 1:
		return frame[:hl], "header-only"
	case 2:
		out := append([]byte{}, frame...)
		out[r.Intn(len(out))] ^= byte(1 << r.Intn(8))
		return out, "bitflip"
	case 3:
		out := append([]byte{}, frame...)
		out[r.Intn(len(out))] = []byte{0x00, 0xff, 0x1f, 0x18, 0x19, 0x1a, 0x1b, 0x5f, 0x7f, 0x9f, 0xbf, 0xf6, 0xf7, 0xc0, 0xd8, 0xa0, 0x80, 0x40, 0x60}[r.Intn(19)]
		return out, "byte-set"
	case 4:
		i := r.Intn(len(frame) + 1)
		out := append(append(append([]byte{}, frame[:i]...), rndBytes(r, 1)...), frame[i:]...)
		return out, "insert"
	case 5:
		i := r.Intn(len(frame))
		return append(append([]byte{}, frame[:i]...), frame[i+1:]...), "delete"
	case 6: // declared length off by a little
		d := []int{-1, 1, 2, -2}[r.Intn(4)]
		n := len(payload) + d
		if n < 0 {
			n = 0
		}
		return append(binary.AppendUvarint(nil, uint64(n)), payload...), "length-off"
	case 7: // non-minimal / overlong varint
		switch r.Intn(4) {
		case 0:
			return append([]byte{byte(len(payload)&0x7f) | 0x80, byte(len(payload) >> 7), 0x80, 0x00}[:2+2*r.Intn(2)], payload...), "varint-nonminimal"
		case 1:
			return append(bytes.Repeat([]byte{0x80}, 9+r.Intn(3)), payload...), "varint-overlong"
		case 2:
			return append([]byte{0xff, 0xff, 0xff, 0xff, 0xff, 0xff, 0xff, 0xff, 0x7f}, payload...), "varint-huge"
		default:
			return []byte{0x80}, "varint-cut"
		}
	case 8: // size limit
		n := []int{1 << 22, 1<<22 + 1, 1 << 23, 1 << 30}[r.Intn(4)]
		return append(binary.AppendUvarint(nil, uint64(n)), payload...), "oversize-header"
	case 9:
		return append([]byte{0}, frame...), "zero-length-frame"
	case 10:
		return frameOf(append(append([]byte{}, payload...), rndBytes(r, 1+r.Intn(3))...)), "trailing-bytes"
	default:
		return frameOf(rndBytes(r, r.Intn(20))), "random-payload"
	}
}

func smallMsg(r *rand.Rand) *gMsg {
	m := rndMsg(r, 2)
	if len(m.reqs)+len(m.rsps)+len(m.blks) == 0 {
		m.reqs = append(m.reqs, rndReq(r))
	}
	for i := range m.blks {
		if len(m.blks[i].data) > 80 {
			data := m.blks[i].data[:80]
			m.blks[i] = gBlk{cidFor(r, data).Bytes(), data}
		}
	}
	return m
}

// GenMut: the malformed stream. Every case starts from bytes the real encoder produced.
func GenMut(seed int64, n int, tier string, w *bufio.Writer) {
	r := rand.New(rand.NewSource(seed ^ 0x5eed))
	for i := 0; i < n; i++ {
		var frame []byte
		var m *gMsg
		for frame == nil {
			m = smallMsg(r)
			frame = goBytes(m.toks(), r.Intn(2) == 0)
		}
		_, hl := binary.Uvarint(frame)
		var lines []string
		var kinds []string
		for j := 0; j < 4; j++ {
			var out []byte
			var kind string
			switch r.Intn(10) {
			case 0, 1, 2:
				out, kind = mutateFrameBytes(r, frame)
			default:
				t, _ := parseTree(frame[hl:])
				if t == nil {
					out, kind = mutateFrameBytes(r, frame)
					break
				}
				if r.Intn(3) == 0 {
					kind = mutateTree(r, t)
				} else {
					kind = mutateMessageTree(r, t)
				}
				if r.Intn(6) == 0 {
					kind += "+" + mutateTree(r, t)
				}
				payload := t.enc(nil)
				out = frameOf(payload)
				lines = append(lines, hintsForTree(t)...)
				if r.Intn(4) == 0 {
					lines = append(lines, "cbor "+hx(payload))
				}
			}
			if len(out) > 1<<20 {
				out = out[:1<<20]
			}
			kinds = append(kinds, kind)
			lines = append(lines, hintsForBytes(out)...)
			if r.Intn(5) == 0 {
				// inside a stream, after a good frame
				lines = append(lines, "stream "+hx(append(append([]byte{}, frame...), out...)))
			} else {
				lines = append(lines, "dec "+hx(out))
			}
		}
		if r.Intn(3) == 0 {
			// malformed BY CONSTRUCTION (CBOR is prefix-free, the frame must hold exactly one item): a
			// complete valid message followed, inside the same frame, by a zero byte / garbage / a whole
			// second message. The decoder must refuse it (oracle class malformed-accepted).
			payload := frame[hl:]
			var extra []byte
			switch r.Intn(4) {
			case 0:
				extra = []byte{0}
			case 1:
				extra = rndBytes(r, 1+r.Intn(8))
			case 2:
				extra = payload // the same message again, smuggled into the frame
			default:
				var other []byte
				for other == nil {
					other = goBytes(smallMsg(r).toks(), false)
				}
				_, ol := binary.Uvarint(other)
				extra = other[ol:]
			}
			kinds = append(kinds, "trailing-in-frame")
			lines = append(lines, "decbad "+hx(frameOf(append(append([]byte{}, payload...), extra...))))
		}
		emit(w, "case m%d %s", i, strings.Join(kinds, ","))
		for _, h := range m.hints() {
			emit(w, "%s", h)
		}
		for _, l := range lines {
			emit(w, "%s", l)
		}
	}
}
