import GS.Model.PauseResume
import GSProofs.Lemmas.RequestorLocal
/-!
Without pauses the model `GS.PauseResume` IS the requestor model `GS.Requestor`: `driveP` = `drive`,
`deliver` = `message`, `run` over messages = `feed`.  Hence every theorem about `Requestor.exchange`
(C01, C02, C24) holds for the unpaused runs that C06 compares paused runs with.
-/
namespace GS.C06
open GS.Loader GS.Requestor GS.PauseResume

/-- the pause/resume state with no hook pause configured, no pause requested, not paused and no
    traversal end pending, around the requestor state `r` -/
def plainOf (r : Requestor.State) : PState := { R := r }

theorem pauseCheck_plain (r : Requestor.State) (b : Bool) : pauseCheck (plainOf r) b = (false, plainOf r) := by
  simp [pauseCheck, plainOf]

theorem afterLoad_plain (r : Requestor.State) (b : Bool) (cont : PState → PState × List Ev) :
    afterLoad (plainOf r) b cont = cont (plainOf r) := by
  unfold afterLoad
  rw [pauseCheck_plain]

theorem handle_ends (r : Requestor.State) (n : LNode) (rest : LT) (res : Result) (e' : RErr) (e : LoadErr)
    (hc : r.ctxCancelled = false) (herr : res.err = some e) (he : endsTraversal n res = some e') :
    handle r n rest res = ((failWith r e').1, writeEvs res ++ [Ev.err (.load e)] ++ (failWith r e').2, false) := by
  unfold endsTraversal at he
  rw [herr] at he
  unfold handle
  rw [herr]
  simp only [hc, Bool.false_eq_true, if_false]
  cases e with
  | missing c p =>
    simp only at he ⊢
    by_cases hd : (n.depth == 0) = true
    · rw [if_pos hd] at he ⊢
      cases he
      rfl
    · rw [if_neg hd] at he
      cases he
  | incorrect a b p => simp only at he ⊢; cases he; rfl
  | extraData => simp only at he ⊢; cases he; rfl
  | nothingLeft => simp only at he ⊢; cases he; rfl
  | retryNone => simp only at he ⊢; cases he; rfl

/-- with no pause in sight, `afterResult` is `handle` followed by the continuation -/
theorem afterResult_plain (r : Requestor.State) (n : LNode) (rest : LT) (res : Result) (ev1 : List Ev)
    (cont : PState → PState × List Ev) :
    afterResult (plainOf r) n rest res ev1 cont =
      match handle r n rest res with
      | (r2, evs, true) => ((cont (plainOf r2)).1, ev1 ++ evs ++ (cont (plainOf r2)).2)
      | (r2, evs, false) => (plainOf r2, ev1 ++ evs) := by
  unfold afterResult
  cases hew : endsWith (plainOf r) n res with
  | some ee =>
    obtain ⟨e', e⟩ := ee
    simp only
    rw [pauseCheck_plain]
    simp only
    unfold endsWith at hew
    by_cases hc : r.ctxCancelled = true
    · simp [plainOf, hc] at hew
    · have hc' : r.ctxCancelled = false := by simpa using hc
      simp only [plainOf, hc', Bool.false_eq_true, if_false] at hew
      cases herr : res.err with
      | none => simp [herr] at hew
      | some e0 =>
        simp only [herr] at hew
        cases het : endsTraversal n res with
        | none => simp [het] at hew
        | some e1 =>
          simp only [het, Option.some.injEq, Prod.mk.injEq] at hew
          obtain ⟨h1, h2⟩ := hew
          subst h1; subst h2
          rw [handle_ends r n rest res e1 e0 hc' herr het]
          simp only [List.append_assoc, plainOf]
  | none =>
    simp only
    show (match handle r n rest res with
      | (r2, evs, true) => ((afterLoad (plainOf r2) res.err.isNone cont).1, ev1 ++ evs ++ (afterLoad (plainOf r2) res.err.isNone cont).2)
      | (r2, evs, false) => (plainOf r2, ev1 ++ evs)) = _
    cases hh : handle r n rest res with
    | mk r2 rest2 =>
      obtain ⟨evs, go⟩ := rest2
      cases go with
      | true => simp only; rw [afterLoad_plain]
      | false => rfl

theorem driveP_plain : ∀ (fuel : Nat) (r : Requestor.State),
    driveP fuel (plainOf r) = (plainOf (drive fuel r).1, (drive fuel r).2) := by
  intro fuel
  induction fuel with
  | zero => intro r; rfl
  | succ fuel ih =>
    intro r
    rw [driveP, drive_succ]
    by_cases hg : (r.phase != Phase.running) = true
    · have : ((plainOf r).R.phase != Phase.running || (plainOf r).paused) = true := by simp [plainOf, hg]
      rw [if_pos this, if_pos hg]
    · have : ((plainOf r).R.phase != Phase.running || (plainOf r).paused) = false := by
        simp only [plainOf, Bool.or_false]; simpa using hg
      rw [if_neg (by simp [this]), if_neg hg]
      show (match r.todo with
        | [] => (plainOf (finish r).1, (finish r).2)
        | n :: rest =>
          match loadNode r n with
          | (r1, ev1, none) => (plainOf r1, ev1)
          | (r1, ev1, some res) => afterResult (plainOf r1) n rest res ev1 (driveP fuel)) = _
      cases htodo : r.todo with
      | nil => rfl
      | cons n rest =>
        simp only
        cases hln : loadNode r n with
        | mk r1 rest1 =>
          obtain ⟨ev1, ores⟩ := rest1
          cases ores with
          | none => rfl
          | some res =>
            simp only
            rw [afterResult_plain]
            cases hh : handle r1 n rest res with
            | mk r2 rest2 =>
              obtain ⟨evs, go⟩ := rest2
              cases go with
              | true =>
                simp only
                rw [ih r2]
              | false => rfl

theorem resumeP_plain (r : Requestor.State) :
    resumeP (plainOf r) = (plainOf (Requestor.resume r).1, (Requestor.resume r).2) := by
  unfold resumeP Requestor.resume
  show (match Loader.wake r.L with
    | (l1, some res) =>
      match r.todo with
      | n :: rest => afterResult (plainOf { r with L := l1 }) n rest res [] (fun s' => driveP (fuelFor s'.R) s')
      | [] => (plainOf { r with L := l1 }, [])
    | (l1, none) => (plainOf { r with L := l1 }, [])) = _
  cases hw : Loader.wake r.L with
  | mk l1 ores =>
    cases ores with
    | none => rfl
    | some res =>
      simp only
      cases htodo : r.todo with
      | nil => rfl
      | cons n rest =>
        simp only
        rw [afterResult_plain]
        generalize handle _ n rest res = hd
        obtain ⟨r2, evs, go⟩ := hd
        cases go with
        | true =>
          simp only
          rw [driveP_plain]
          simp only [List.nil_append]
          rfl
        | false => simp only [List.nil_append]

theorem deliver_plain (r : Requestor.State) (f k : Bool) (st : Nat) (md : List (Cid × Action))
    (bl : List (Cid × Blk)) :
    deliver (plainOf r) f k st md bl = (plainOf (message r f k st md bl).1, (message r f k st md bl).2) := by
  unfold deliver message
  by_cases hg : (r.phase != Phase.running || !f || !k) = true
  · have : ((plainOf r).R.phase != Phase.running || !f || !k) = true := hg
    rw [if_pos this, if_pos hg]
  · have : ¬ ((plainOf r).R.phase != Phase.running || !f || !k) = true := hg
    rw [if_neg this, if_neg hg]
    exact resumeP_plain (applyStatus { r with L := Loader.ingest r.L md bl } st)

def toOp (m : Requestor.Msg) : PauseResume.Op :=
  .msg { fromPeer0 := m.fromPeer0, known := m.known, status := m.status, md := m.md, blocks := m.blocks }

theorem run_plain : ∀ (msgs : List Requestor.Msg) (r : Requestor.State),
    PauseResume.run (plainOf r) (msgs.map toOp) = (plainOf (feed r msgs).1, (feed r msgs).2) := by
  intro msgs
  induction msgs with
  | nil => intro r; rfl
  | cons m rest ih =>
    intro r
    simp only [List.map_cons, PauseResume.run, toOp, PauseResume.step, feed]
    rw [deliver_plain]
    simp only
    have := ih (message r m.fromPeer0 m.known m.status m.md m.blocks).1
    rw [this]

/-- **conservative extension.**  Without hook pauses and Pause calls, the pause/resume model is the
    requestor model: same reports, same final requestor state. -/
theorem exchange_plain (st : List (Cid × Blk)) (lt : LT) (u : Nat) (msgs : List Requestor.Msg) :
    PauseResume.exchange st lt u [] (msgs.map toOp) =
      (plainOf (Requestor.exchange st lt u msgs).1, (Requestor.exchange st lt u msgs).2) := by
  have h1 : PauseResume.request { R := { L := { store := st } }, hookAt := [] } lt u =
      (plainOf (Requestor.request { L := { store := st } } lt u).1, (Requestor.request { L := { store := st } } lt u).2) := by
    unfold PauseResume.request Requestor.request
    exact driveP_plain _ _
  unfold PauseResume.exchange Requestor.exchange
  rw [h1]
  simp only
  rw [run_plain]

end GS.C06
