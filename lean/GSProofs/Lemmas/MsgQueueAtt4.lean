import GSProofs.Lemmas.MsgQueueAtt3
/-!
# Message queue: attachments — callers' steps and extraction
-/
namespace GS.MQ
open GS.Alloc

theorem W.of_out {f : Req → Sub} {u : Sub} {t : Nat} {s s' : State} (o : Out f s s') (hb : ∀ b ∈ s.builders, BFun f b)
    (h : W f u t s) : W f u t s' := by
  rcases h with h | h | h
  · rcases (o.att hb).2 u t h with h' | h'
    · exact Or.inl h'
    · exact Or.inr (Or.inr h')
  · exact Or.inr (Or.inl ((seq_mono o.log u t).1 h))
  · exact Or.inr (Or.inr (h.mono o.closed o.log))

theorem allocStep_out (pick : Pick) (f : Req → Sub) (s : State) (op : Alloc.Op) : Out f s (s.allocStep pick op).1 :=
  Out.same f rfl rfl (allocStep_wcore pick s op) ⟨_, rfl⟩

/-- `AllocateAndBuildMessage` with the request's own subscriber -/
theorem buildWith_att (pick : Pick) (f : Req → Sub) (s : State) (tx : Tx) (size : Nat) (hf : tx.sub = f tx.req) :
    ((∀ b ∈ s.builders, BFun f b) → (∀ b ∈ (buildWith pick s tx size).builders, BFun f b) ∧
      (∀ u t, AttQ u t s → AttQ u t (buildWith pick s tx size) ∨ ErrSeen f u (buildWith pick s tx size))) ∧
    (∀ r ∈ s.closedStreams, r ∈ (buildWith pick s tx size).closedStreams) ∧
    (∃ X, (buildWith pick s tx size).log = s.log ++ X) ∧
    ((∀ w ∈ s.waiters, w.tx.sub = f w.tx.req) → ∀ w ∈ (buildWith pick s tx size).waiters, w.tx.sub = f w.tx.req) := by
  unfold buildWith
  simp only
  have o0 : Out f s ({ s with nextTicket := s.nextTicket + 1 } : State) := Out.same f rfl rfl (WCore.of_eq rfl) ⟨[], by simp⟩
  split
  · have o := o0.trans (buildMessage_out pick f _ s.nextTicket tx 0 hf)
    exact ⟨o.att, o.closed, o.log, o.wcore.wfun⟩
  · have o1 := o0.trans (allocStep_out pick f ({ s with nextTicket := s.nextTicket + 1 } : State) (.alloc s.peer size s.nextTicket))
    split
    · have o := o1.trans (buildMessage_out pick f _ s.nextTicket tx size hf)
      exact ⟨o.att, o.closed, o.log, o.wcore.wfun⟩
    · refine ⟨o1.att, o1.closed, o1.log, ?_⟩
      intro hw w hw'
      rcases List.mem_append.mp hw' with h | h
      · exact o1.wcore.wfun hw w h
      · simp at h; subst h; exact hf

theorem wake_att (pick : Pick) (f : Req → Sub) (s : State) (t0 : Nat) (hw : ∀ w ∈ s.waiters, w.tx.sub = f w.tx.req) :
    Out f s (s.wake pick t0) ∨
    (∃ s1 : State, s1.builders = s.builders ∧ s1.closedStreams = s.closedStreams ∧ s1.log = s.log ∧
      (∀ w ∈ s1.waiters, w ∈ s.waiters) ∧ Out f s1 (s.wake pick t0)) := by
  unfold State.wake
  cases hf : s.waiters.find? (fun w => w.ticket == t0 && w.answer.isSome) with
  | none => exact Or.inl (Out.refl f s)
  | some w =>
    right
    have hwm : w ∈ s.waiters := List.mem_of_find?_eq_some hf
    refine ⟨({ s with waiters := s.waiters.filter (·.ticket != w.ticket) } : State), rfl, rfl, rfl,
      fun x hx => (List.mem_filter.mp hx).1, ?_⟩
    simp only
    split
    · exact buildMessage_out pick f _ w.ticket w.tx w.size (hw w hwm)
    · exact Out.same f rfl rfl (WCore.of_eq rfl) ⟨_, rfl⟩

theorem mem_foldl_insertSub (subs init : List Sub) (u : Sub) :
    u ∈ subs.foldl insertSub init ↔ u ∈ init ∨ u ∈ subs := by
  induction subs generalizing init with
  | nil => simp
  | cons x r ih =>
    simp only [List.foldl_cons]
    rw [ih]
    unfold insertSub
    by_cases hc : init.contains x = true
    · rw [if_pos hc]
      have : x ∈ init := List.contains_iff_mem.mp hc
      constructor
      · rintro (h | h)
        · exact Or.inl h
        · exact Or.inr (List.mem_cons_of_mem _ h)
      · rintro (h | h)
        · exact Or.inl h
        · rcases List.mem_cons.mp h with rfl | h
          · exact Or.inl this
          · exact Or.inr h
    · rw [if_neg hc]
      constructor
      · rintro (h | h)
        · rcases List.mem_append.mp h with h | h
          · exact Or.inl h
          · simp at h; subst h; exact Or.inr (by simp)
        · exact Or.inr (List.mem_cons_of_mem _ h)
      · rintro (h | h)
        · exact Or.inl (List.mem_append_left _ h)
        · rcases List.mem_cons.mp h with rfl | h
          · exact Or.inl (by simp)
          · exact Or.inr h

theorem mem_dedupSubs (subs : List (Req × Sub)) (u : Sub) : u ∈ dedupSubs subs ↔ ∃ r, (r, u) ∈ subs := by
  unfold dedupSubs
  have key : ∀ (l : List (Req × Sub)) (acc : List Sub),
      u ∈ l.foldl (fun acc e => insertSub acc e.2) acc ↔ u ∈ acc ∨ ∃ r, (r, u) ∈ l := by
    intro l
    induction l with
    | nil => intro acc; simp
    | cons e r ih =>
      intro acc
      simp only [List.foldl_cons]
      rw [ih]
      have hi : u ∈ insertSub acc e.2 ↔ u ∈ acc ∨ u = e.2 := by
        unfold insertSub; split
        · next hc =>
          have : e.2 ∈ acc := List.contains_iff_mem.mp hc
          constructor
          · exact fun h => Or.inl h
          · rintro (h | h)
            · exact h
            · rw [h]; exact this
        · simp
      rw [hi]
      constructor
      · rintro ((h | h) | ⟨q, hq⟩)
        · exact Or.inl h
        · exact Or.inr ⟨e.1, by rw [h]; simp⟩
        · exact Or.inr ⟨q, List.mem_cons_of_mem _ hq⟩
      · rintro (h | ⟨q, hq⟩)
        · exact Or.inl (Or.inl h)
        · rcases List.mem_cons.mp hq with h | h
          · exact Or.inl (Or.inr (by rw [← h]))
          · exact Or.inr ⟨q, h⟩
  rw [key]; simp

/-- extraction from the idle phase, in detail -/
theorem extract_detail {s : State} (hi : Idle s) {s1 : State} {m : InFlight} (he : s.extract = (s1, some m)) :
    ∃ pre b U, s.builders = pre ++ b :: s1.builders ∧ (∀ x ∈ pre, x.empty = true) ∧ m.topic = b.topic ∧
      m.streams = b.streams.map (·.1) ∧ Mid s1 m U [] true ∧ (∀ u, u ∈ U ↔ ∃ r, (r, u) ∈ b.subs) ∧
      s1.closedStreams = s.closedStreams ∧ s1.waiters = s.waiters ∧ s1.log = s.log := by
  obtain ⟨U, hm⟩ := hi.extract.2 s1 m he
  obtain ⟨pre, hpre, hemp⟩ := dropEmpty_pre s.builders
  unfold State.extract at he
  cases hd : dropEmpty s.builders with
  | nil => rw [hd] at he; simp at he
  | cons b rest =>
    rw [hd] at he
    simp only [Prod.mk.injEq, Option.some.injEq] at he
    obtain ⟨he1, he2⟩ := he
    have f := subscribe_frame ({ s with builders := rest, token := s.token || !rest.isEmpty }) b.topic (dedupSubs b.subs)
    have hsub := subscribe_log (s := { s with builders := rest, token := s.token || !rest.isEmpty }) hi.open_ b.topic (dedupSubs b.subs)
    have htop : s1.topics = [(b.topic, (dedupSubs b.subs).foldl insertSub [])] := by
      rw [← he1, hsub.2.1]
      show aset s.topics b.topic _ = _
      rw [hi.topics]; simp [aset, aget]
    have hmt : m.topic = b.topic := by rw [← he2]
    have hU : U = (dedupSubs b.subs).foldl insertSub [] := by
      have := hm.topics
      rw [htop, hmt] at this
      simp at this
      exact this.symm
    refine ⟨pre, b, U, ?_, hemp, hmt, by rw [← he2], hm, ?_, ?_, ?_, ?_⟩
    · rw [← he1, f.builders]; rw [hd] at hpre; exact hpre
    · intro u
      rw [hU, mem_foldl_insertSub, mem_dedupSubs]; simp
    · rw [← he1, f.closedStreams]
    · rw [← he1, f.waiters]
    · rw [← he1, hsub.1]

end GS.MQ
