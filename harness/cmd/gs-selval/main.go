package main

import (
	"verifharness/reg"
	_ "verifharness/selval"
)

func main() { reg.Main("selval") }
