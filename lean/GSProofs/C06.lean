import GS.Model.PauseResume
import GSProofs.Lemmas.PauseResponder
import GSProofs.Lemmas.PauseRequestor
import GSProofs.Lemmas.PauseConservative
import GSProofs.Lemmas.PauseWalk
import GSProofs.Lemmas.PauseEarly
import GSProofs.Lemmas.PauseLate
import GSProofs.Lemmas.ExchangeComplete
import GSProofs.C01
/-!
# C06 — Pausing and resuming an exchange does not change its result

> Pausing and later resuming an exchange, on the requestor or the responder, through the API or from
> a hook, at any block, yields the same delivered nodes, missing-block errors and stored blocks as the
> uninterrupted exchange.  While a response is paused the responder sends no further block data for it.

## What is proved here, and what is not (see `STATUS.md`)

**Responder pauses** (`GS.Responder`, tied to the real ResponseManager + QueryExecutor +
ResponseAssembler by the correspondence stream `responder`): proved at full strength —
`responder_pause_resume`, `responder_pause_resume_request`, `responder_paused_at_start`,
`quiet_while_paused`: for every link tree, store, tracker state, extension combination, every pause
mechanism (block hook / PauseResponse signal / paused by the request hook) and every block index.

**Requestor pauses** (`GS.PauseResume` on top of `GS.Requestor` / `GS.Loader`, tied by the streams
`loader`, `requestor` and the model-compared stream `reqpause`).  The sentence is FALSE of the code for
requestor pauses when the resume is early relative to in-flight messages — known findings,
reproduced on the real code by the `pauseres` harness and here on the model:

* `requestor_stale_response_counterexample` — a message of the cancelled response that reaches the
  requestor after the resumed request has gone online is ingested into the new response (responses
  carry only the request ID): the request fails with RemoteIncorrectResponseError (known finding
  `stale-response-after-resume`);
* the former known finding `resume-overtakes-cancel` was on the responder (the resumed request re-uses
  the ID of the response whose task is still being cancelled, `responsemanager.newRequest` /
  `finishTask`): outside this model; repaired in /repo 0bfe189, the harness cases now pass and a
  recurrence is a violation;
* `requestor_skip_prefix_counterexample` — the C02 finding `skip-prefix-mismatch` met on resume.

Proved for every link tree / store / pause point / operation history:
`no_pause_is_requestor` (without pauses the model is `GS.Requestor`: C01 / C02 / C24 apply to the
uninterrupted runs), `pause_resume_walk` / `pause_resume_store_sound` / `pause_resume_deliver_sound`
(SAFETY for every history of messages — stale or not, honest or not —, Pause / Unpause calls and hook
pauses: what the request reports is still a depth-first walk of the link tree with verified blocks: a
pause or an early resume can cut a request short with an error, never make it deliver or store wrong
data), `ingest_offline_noop`, `stale_dropped`, `stale_dropped_run`, `paused_offline` (an invariant of every
history), `pause_effects`, `reopen_fresh`, `requestor_pause_resume_before_online` (pause while the request is still in its local phase, resumed
before the response arrives: identical to the uninterrupted exchange for every message list),
`requestor_pause_resume_local` (the requestor's own store
covers the traversal: any number of pauses, by hook at any block indices or through the API, and any
resume timing give exactly the uninterrupted result), `requestor_pause_resume_complete_response` (the
hook pauses at ANY block of the remote part while the message with the response's final success
status is being processed — the whole response has arrived —, for every link tree, store, earlier
message list and responder stream under which the uninterrupted exchange reports no missing block:
identical result; built on `GSProofs/Lemmas/PauseLate.lean`: a hooked executor run splits into the
plain run up to block `k` and the plain run from there, spare fuel is never used, `requestSent` is
read only at a miss), and the regression `stale_queue_regression` for the defect fixed in /repo
b4f998f.

The re-opening resume (the executor misses locally after `Unpause`, goes online again, the new response
is verified against a non-empty traversal record): `requestor_reopen_partial` — from the requestor
state parked in the retried load, the whole honest second response in one message gives exactly the
rest of the reference traversal (composition of `C02`'s `replay_walk` with the executor bridge
`drive_walk` / `resume_walk`); its hypotheses are facts about the loader at that moment, shown to hold
on a reached state by an `example`.  NOT proved: that every paused exchange reaches such a state
(record / store invariants through remote loads), records with failed loads, a second response in
several messages; see the end of the file.  Responder pauses as seen by the requestor:
`responder_pause_resume_seen_by_requestor` (one message per transaction; the RequestPaused status is
ignored: `nonterminal_status_noop`); for another cut into messages only the loader-level
`C02.kahn_same_messages` exists.
-/
namespace GS.C06
open GS.Loader GS.Requestor GS.PauseResume

/-! ## non-terminal statuses are invisible to the requestor -/

/-- the requestor does not look at a non-terminal status -/
theorem nonterminal_status_noop (r : Requestor.State) (f k : Bool) (c c' : Nat) (md : List (Cid × Action))
    (bl : List (Cid × Blk)) (hc : isTerminal c = false) (hc' : isTerminal c' = false) :
    Requestor.message r f k c md bl = Requestor.message r f k c' md bl := by
  unfold Requestor.message applyStatus
  simp only [hc, hc', Bool.false_eq_true, if_false]

/-- two wire messages that differ at most in a non-terminal status -/
def SameButStatus (m m' : Requestor.Msg) : Prop :=
  m.fromPeer0 = m'.fromPeer0 ∧ m.known = m'.known ∧ m.md = m'.md ∧ m.blocks = m'.blocks ∧
  (m.status = m'.status ∨ (isTerminal m.status = false ∧ isTerminal m'.status = false))

/-- message lists that agree message by message up to non-terminal statuses -/
inductive AllSame : List Requestor.Msg → List Requestor.Msg → Prop where
  | nil : AllSame [] []
  | cons {m m' : Requestor.Msg} {ms ms' : List Requestor.Msg} : SameButStatus m m' → AllSame ms ms' → AllSame (m :: ms) (m' :: ms')

theorem AllSame.refl : ∀ (l : List Requestor.Msg), AllSame l l
  | [] => .nil
  | _ :: t => .cons ⟨rfl, rfl, rfl, rfl, Or.inl rfl⟩ (AllSame.refl t)

theorem AllSame.append {a a' b b' : List Requestor.Msg} (h1 : AllSame a a') (h2 : AllSame b b') :
    AllSame (a ++ b) (a' ++ b') := by
  induction h1 with
  | nil => exact h2
  | cons hm _ ih => exact .cons hm ih

theorem feed_status_noop (r : Requestor.State) (a b : List Requestor.Msg) (h : AllSame a b) :
    feed r a = feed r b := by
  induction h generalizing r with
  | nil => rfl
  | @cons m m' ms ms' hm _ ih =>
    obtain ⟨h1, h2, h3, h4, h5⟩ := hm
    have : Requestor.message r m.fromPeer0 m.known m.status m.md m.blocks =
        Requestor.message r m'.fromPeer0 m'.known m'.status m'.md m'.blocks := by
      rw [h1, h2, h3, h4]
      rcases h5 with h5 | ⟨h5, h6⟩
      · rw [h5]
      · exact nonterminal_status_noop r _ _ _ _ _ _ h5 h6
    simp only [feed]
    rw [this, ih]

/-! ## responder pauses (GS.Responder) -/
section responder
open GS.Responder GS.LinkTrack

/-- **C06.responder_pause_resume.**  A response whose executor stops for a pause (block hook at any
    hook index, or PauseResponse signal at any block load) and is later resumed with the same traverser
    produces — apart from the RequestPaused status — exactly the transactions of the uninterrupted
    response: same link metadata, same block decisions, same indices, same final status; and it leaves
    the peer's link tracker and the traverser in the same state.  Holds from every executor state
    (`run`), so also for a second, third … pause of the same response. -/
theorem responder_pause_resume (s : Store) (stop : Stop) (hst : isPause stop = true) (r : Req)
    (p : PeerTracker) (run : Run) (p1 : PeerTracker) (run1 : Run) (txns1 : List Txn)
    (h : executeQuery s stop r p run = (p1, run1, txns1, .paused)) :
    executeQuery s .never r p run =
      ((executeQuery s .never r p1 run1).1, (executeQuery s .never r p1 run1).2.1,
        stripAll txns1 ++ (executeQuery s .never r p1 run1).2.2.1, (executeQuery s .never r p1 run1).2.2.2) := by
  unfold executeQuery at h ⊢
  generalize hq : runTraversal s stop r (sizeAll run.trav.todo + 1) p run = q at h
  obtain ⟨a, b, c, d⟩ := q
  simp only at h
  have hd : d = Exit.paused := by
    cases d <;> simp_all [finishQuery, finishWithError]
  subst hd
  simp only [finishQuery, List.append_nil, Prod.mk.injEq] at h
  obtain ⟨h1, h2, h3, _⟩ := h
  subst h1; subst h2; subst h3
  have := runTraversal_split s stop hst r _ p run (Nat.lt_succ_self _) _ _ _ hq
    (sizeAll b.trav.todo + 1) (Nat.lt_succ_self _)
  rw [this]
  simp only [List.append_assoc]

/-! ### what the requestor sees of a responder pause

The responder theorems stop at equality of transactions.  The two facts that carry it over to the
requestor's RESULT: the `RequestPaused` status (15) — like every non-terminal status — is ignored by
the requestor (`applyStatus`), and the result does not depend on how the transactions are cut into
messages.  The first is proved here for the composed requestor model (`nonterminal_status_noop`,
`feed_status_noop`) and combined with `responder_pause_resume` for the batching "one message per
transaction" (`responder_pause_resume_seen_by_requestor`).  The second exists at the loader level only
(`GS.C02.kahn_same_messages`: any valid interleaving of ingests and loads with the same messages
gives the same loads); its lift to `Requestor.exchange` for a different cut into messages is NOT
proved. -/

/-- the terminal status a transaction carries, if any -/
def terminalOf (t : Txn) : Option Nat :=
  t.findSome? fun
    | .status st => if isTerminal st.code then some st.code else none
    | _ => none

/-- the wire message of ONE transaction of the responder (message builder flushed after every
    transaction): link metadata in order, the blocks that travel, and the transaction's terminal
    status if it has one — else RequestPaused if the transaction pauses the response, else PartialResponse -/
def wireStatus (term : Option Nat) (pausing : Bool) : Nat :=
  match term with
  | some c => c
  | none => if pausing then 15 else 14

theorem filterMap_strip {β : Type} (f : ROp → Option β) (hf : f (ROp.status .paused) = none) (t : Txn) :
    (stripPaused t).filterMap f = t.filterMap f := by
  unfold stripPaused
  induction t with
  | nil => rfl
  | cons o rest ih =>
    by_cases ho : o = ROp.status .paused
    · subst ho
      simp only [List.filter_cons, bne_self_eq_false, Bool.false_eq_true, if_false, List.filterMap_cons, hf]
      exact ih
    · have hb : (o != ROp.status .paused) = true := by simpa using ho
      simp only [List.filter_cons, hb, if_true, List.filterMap_cons]
      rw [ih]

def wireOf (t : Txn) : Requestor.Msg :=
  { fromPeer0 := true, known := true
    status := wireStatus (terminalOf t) (t.contains (ROp.status .paused))
    md := t.filterMap fun
      | .block c pr _ _ => some (c, if pr then Action.present else Action.missing)
      | _ => none
    blocks := t.filterMap fun
      | .block c _ sd _ => if sd then some (c, c) else none
      | _ => none }

theorem wireOf_strip (t : Txn) : SameButStatus (wireOf t) (wireOf (stripPaused t)) := by
  have hterm : terminalOf (stripPaused t) = terminalOf t := by
    unfold terminalOf stripPaused
    induction t with
    | nil => rfl
    | cons o rest ih =>
      by_cases ho : o = ROp.status .paused
      · subst ho
        simp only [List.filter_cons, bne_self_eq_false, Bool.false_eq_true, if_false, List.findSome?_cons]
        rw [ih]
        rfl
      · have hb : (o != ROp.status .paused) = true := by simpa using ho
        simp only [List.filter_cons, hb, if_true, List.findSome?_cons]
        rw [ih]
  refine ⟨rfl, rfl, ?_, ?_, ?_⟩
  · unfold wireOf; simp only; exact (filterMap_strip _ rfl t).symm
  · unfold wireOf; simp only; exact (filterMap_strip _ rfl t).symm
  · unfold wireOf
    simp only [hterm]
    cases terminalOf t with
    | some c => left; rfl
    | none =>
      right
      unfold wireStatus
      constructor
      · cases t.contains (ROp.status .paused) <;> decide
      · cases (stripPaused t).contains (ROp.status .paused) <;> decide

/-- **C06.responder_pause_resume_seen_by_requestor.**  The transactions of a response that pauses
    (hook or signal, any block) and is resumed, sent one message per transaction, give EVERY requestor
    (any link tree, local store, skip value) exactly the exchange the uninterrupted response gives
    it: same final state, same reports.  `responder_pause_resume` (transaction equality apart from
    the RequestPaused status) + the requestor ignores that status. -/
theorem responder_pause_resume_seen_by_requestor (s : Store) (stop : Stop) (hst : isPause stop = true) (r : Req)
    (p : PeerTracker) (run : Run) (p1 : PeerTracker) (run1 : Run) (txns1 : List Txn)
    (h : executeQuery s stop r p run = (p1, run1, txns1, .paused))
    (st : List (Loader.Cid × Loader.Blk)) (lt : Requestor.LT) (u : Nat) :
    Requestor.exchange st lt u ((txns1 ++ (executeQuery s .never r p1 run1).2.2.1).map wireOf) =
      Requestor.exchange st lt u ((executeQuery s .never r p run).2.2.1.map wireOf) := by
  rw [responder_pause_resume s stop hst r p run p1 run1 txns1 h]
  simp only
  unfold Requestor.exchange
  have : AllSame ((txns1 ++ (executeQuery s .never r p1 run1).2.2.1).map wireOf)
      ((stripAll txns1 ++ (executeQuery s .never r p1 run1).2.2.1).map wireOf) := by
    rw [List.map_append, List.map_append]
    apply AllSame.append
    · unfold stripAll
      clear h
      induction txns1 with
      | nil => exact AllSame.nil
      | cons t rest ih => exact AllSame.cons (wireOf_strip t) ih
    · exact AllSame.refl _
  have hf := fun r0 => feed_status_noop r0 _ _ this
  simp only [hf]

/-- `prepareQuery` of a request that is queued emits one empty transaction only -/
theorem runStages_ok (p : PeerTracker) (r : Req) (e : Ext) (st : List Stage) :
    (runStages p r e st).2.2 = true → (runStages p r e st).2.1 = [] := by
  induction st generalizing p with
  | nil => intro _; rfl
  | cons a rest ih =>
    intro h
    unfold runStages at h ⊢
    cases hs : runStage p r e a with
    | none => simp [hs, finishWithError] at h
    | some p' => simp only [hs] at h ⊢; exact ih p' h

/-- **C06.responder_pause_resume_request.**  The same at the level of the response manager: a request
    accepted and queued (`startRequest`), paused at any point, then unpaused (`resumeRequest` with the
    traverser it stopped with) yields the transactions of the uninterrupted request. -/
theorem responder_pause_resume_request (s : Store) (lt : Responder.LT) (p : PeerTracker) (r : Req) (h : Hook) (e : Ext)
    (stop : Stop) (hst : isPause stop = true) (hp : h.paused = false)
    (p1 : PeerTracker) (txns1 : List Txn) (run1 : Run)
    (hs : startRequest s lt p r h e stop = (p1, txns1, .paused run1)) :
    (startRequest s lt p r h e .never).1 = (resumeRequest s p1 r .never run1).1 ∧
    (startRequest s lt p r h e .never).2.1 = stripAll txns1 ++ (resumeRequest s p1 r .never run1).2.1 := by
  unfold startRequest at hs ⊢
  generalize hpq : prepareQuery p r h e = pq at hs
  obtain ⟨pa, t0, prep⟩ := pq
  cases prep with
  | failed => simp at hs
  | paused =>
    -- not possible: the request hook did not pause
    exfalso
    unfold prepareQuery at hpq
    split at hpq
    · simp [finishWithError] at hpq
    · split at hpq
      · simp [finishWithError] at hpq
      · simp [hp] at hpq
        split at hpq <;> simp at hpq
  | queued =>
    simp only at hs ⊢
    generalize hq : executeQuery s stop r pa { trav := { todo := [lt] } } = q at hs
    obtain ⟨a, b, c, d⟩ := q
    simp only at hs
    cases d <;> simp at hs
    obtain ⟨rfl, rfl, rfl⟩ := hs
    have hsplit := responder_pause_resume s stop hst r pa _ _ _ _ hq
    -- prepareQuery's transactions: one empty transaction
    have ht0 : t0 = [[]] := by
      unfold prepareQuery at hpq
      split at hpq
      · simp [finishWithError] at hpq
      · split at hpq
        · simp [finishWithError] at hpq
        · simp only [hp] at hpq
          generalize hrs : runStages p r e stages = rs at hpq
          obtain ⟨x, y, z⟩ := rs
          simp only [Prod.mk.injEq] at hpq
          obtain ⟨_, rfl, hz⟩ := hpq
          have hok : z = true := by
            cases z with
            | true => rfl
            | false => simp at hz
          have := runStages_ok p r e stages (by rw [hrs]; exact hok)
          rw [hrs] at this
          simp at this
          simp [this]
    subst ht0
    rw [hsplit]
    unfold resumeRequest
    simp [stripAll, stripPaused]

/-- **C06.responder_paused_at_start.**  A response paused by the incoming-request hook
    (`hookActions.PauseResponse()`: RequestPaused is the only thing sent) and unpaused later produces the
    transactions of the same request accepted without the pause. -/
theorem responder_paused_at_start (s : Store) (lt : Responder.LT) (p : PeerTracker) (r : Req) (e : Ext)
    (h : Hook) (hv : h.err = false ∧ h.validated = true) (p1 : PeerTracker) (txns1 : List Txn) (run1 : Run)
    (hs : startRequest s lt p r { h with paused := true } e .never = (p1, txns1, .paused run1)) :
    (startRequest s lt p r { h with paused := false } e .never).1 = (resumeRequest s p1 r .never run1).1 ∧
    (startRequest s lt p r { h with paused := false } e .never).2.1
      = stripAll txns1 ++ (resumeRequest s p1 r .never run1).2.1 := by
  unfold startRequest at hs ⊢
  unfold prepareQuery at hs ⊢
  simp only [hv.1, hv.2, Bool.false_eq_true, if_false, Bool.not_true] at hs ⊢
  generalize hrs : runStages p r e stages = rs at hs ⊢
  obtain ⟨x, y, z⟩ := rs
  cases z with
  | false => simp at hs
  | true =>
    have := runStages_ok p r e stages (by rw [hrs])
    rw [hrs] at this
    simp only at this
    subst this
    simp only [if_true, Bool.not_true, Bool.false_eq_true, if_false, Prod.mk.injEq] at hs ⊢
    obtain ⟨rfl, rfl, hr⟩ := hs
    cases hr
    unfold resumeRequest
    simp [stripAll, stripPaused]

/-- a transaction carries block data -/
def hasBlock (t : Txn) : Bool := t.any fun | .block _ _ send _ => send | _ => false

/-- **C06.quiet_while_paused.**  When the executor stops for a pause, the RequestPaused status is in the
    LAST transaction it produced, and in no earlier one: nothing — in particular no block — is handed
    to the message queue after the status until the response is unpaused (the model has no other
    producer for the response: `Phase.paused` holds nothing but the traverser).  In the wire message
    that carries the status, blocks can only stem from transactions up to and including that one. -/
theorem quiet_while_paused (s : Store) (stop : Stop) (r : Req) :
    ∀ (fuel : Nat) (p : PeerTracker) (run : Run) (p1 : PeerTracker) (run1 : Run) (txns1 : List Txn),
      runTraversal s stop r fuel p run = (p1, run1, txns1, .paused) →
      ∃ pre last, txns1 = pre ++ [last] ∧ ROp.status .paused ∈ last ∧
        ∀ t ∈ pre, ROp.status .paused ∉ t := by
  intro fuel
  induction fuel with
  | zero => intro p run p1 run1 txns1 h; simp [runTraversal] at h
  | succ fuel ih =>
    intro p run p1 run1 txns1 hrun
    cases herr : run.trav.err with
    | some e =>
      rw [runTraversal] at hrun
      simp only [herr] at hrun
      cases e
      · simp only at hrun
        split at hrun <;> simp at hrun
      · simp at hrun
    | none =>
      cases htodo : run.trav.todo with
      | nil => rw [runTraversal] at hrun; simp [herr, htodo] at hrun
      | cons t rest =>
        obtain ⟨c, kids⟩ := t
        rw [runTraversal_node s stop r fuel p run c kids rest herr htodo] at hrun
        split at hrun
        · simp at hrun
        · simp only at hrun
          cases hf : fires stop s c (run.loads + 1) run.hooks with
          | true =>
            rw [hf] at hrun
            simp only [if_true, Prod.mk.injEq] at hrun
            obtain ⟨_, _, rfl, _⟩ := hrun
            refine ⟨[], _, rfl, ?_, by simp⟩
            unfold fires at hf
            unfold txnOf
            simp only [Bool.or_eq_true] at hf
            cases hf with
            | inl h => simp [h]
            | inr h => simp [h]
          | false =>
            rw [hf] at hrun
            simp only [Bool.false_eq_true, if_false, Prod.mk.injEq] at hrun
            obtain ⟨hp1, hr1, ht1, hex⟩ := hrun
            have hrec : runTraversal s stop r fuel (p.traverse r c (s.has c)).1
                { trav := run.trav.answer s c kids rest, loads := run.loads + 1, hooks := hooksAfter s c run.hooks }
                = (p1, run1, (runTraversal s stop r fuel (p.traverse r c (s.has c)).1
                { trav := run.trav.answer s c kids rest, loads := run.loads + 1, hooks := hooksAfter s c run.hooks }).2.2.1, .paused) := by
              rw [← hp1, ← hr1, ← hex]
            obtain ⟨pre, last, hpl, hin, hno⟩ := ih _ _ _ _ _ hrec
            refine ⟨_ :: pre, last, by rw [← ht1, hpl]; rfl, hin, ?_⟩
            intro t ht
            cases ht with
            | head =>
              rw [txnOf_nofire stop s c (run.loads + 1) run.hooks _ _ hf]
              simp
            | tail _ h => exact hno t h

/-- link tree / store of the non-vacuity examples: root 0 with children 2, 3 (not held; child 9) and 4 -/
def exRLT : Responder.LT := .node 0 [.node 2 [], .node 3 [.node 9 []], .node 4 []]
def exRStore : Store := { held := [0, 2, 4] }

/-- non-vacuity of `responder_pause_resume` / `quiet_while_paused`: the executor does stop for a pause —
    by the block hook at its second call (after 2 of 4 links), and by a PauseResponse signal during the
    third block load — and in both cases work is left for the resumption (a test of concrete values) -/
example :
    (executeQuery exRStore (.hookPause 2) 7 {} { trav := { todo := [exRLT] } }).2.2.2 = .paused ∧
    (executeQuery exRStore (.hookPause 2) 7 {} { trav := { todo := [exRLT] } }).2.2.1.length = 2 ∧
    (executeQuery exRStore (.sigPause 3) 7 {} { trav := { todo := [exRLT] } }).2.2.2 = .paused ∧
    (executeQuery exRStore (.sigPause 3) 7 {} { trav := { todo := [exRLT] } }).2.2.1.length = 3 ∧
    (executeQuery exRStore .never 7 {} { trav := { todo := [exRLT] } }).2.2.1.length = 5 := by decide

end responder

/-! ## requestor pauses (GS.PauseResume) -/

/-- **C06.ingest_offline_noop.**  A response message that reaches a loader that is offline (paused
    request, terminated response) changes nothing: `IngestResponse` refuses to queue items while the
    request is offline.  This is what drops the stale items of the cancelled response. -/
theorem ingest_offline_noop (l : Loader.State) (h : l.isOpen = false) (md : List (Cid × Action))
    (bl : List (Cid × Blk)) : Loader.ingest l md bl = l := by
  unfold Loader.ingest
  split
  · rfl
  · simp [h]

/-- **C06.pause_effects.**  When the executor stops for a pause it sends a cancel to the responder,
    takes the loader offline, reports no error, and keeps the traverser where it is. -/
theorem pause_effects (s : PState) :
    (stopForPause s).2 = [Ev.sentCancel] ∧ (stopForPause s).1.paused = true ∧
    (stopForPause s).1.R.L.isOpen = false ∧ (stopForPause s).1.R.todo = s.R.todo ∧
    (stopForPause s).1.R.nBlocks = s.R.nBlocks ∧ (stopForPause s).1.R.L.store = s.R.L.store ∧
    (stopForPause s).1.R.L.record = s.R.L.record := by
  unfold stopForPause Loader.setOnline
  simp

/-- **C06.reopen_fresh.**  Going online again (first local miss after Unpause) starts from an EMPTY
    remote queue and a new verifier over everything loaded so far, whatever was left in the queue when
    the request was paused (/repo b4f998f). -/
theorem reopen_fresh (l : Loader.State) (h : l.isOpen = false) :
    (Loader.setOnline l true).rq = {} ∧ (Loader.setOnline l true).ver = some (newVerifier l.record) ∧
    (Loader.setOnline l true).isOpen = true ∧ (Loader.setOnline l true).store = l.store ∧
    (Loader.setOnline l true).record = l.record := by
  unfold Loader.setOnline
  simp [h, RQ.clear]

/-- **C06.stale_dropped.**  While a request is paused (loader offline), a response message for it —
    stale data of the cancelled response — leaves the requestor exactly as it is and produces nothing,
    unless it carries a terminal failure status (which terminates the paused request). -/
theorem stale_dropped (s : PState) (hp : s.paused = true) (ho : s.R.L.isOpen = false) (m : PauseResume.Msg)
    (hm : (isTerminal m.status && isFailure m.status) = false) :
    PauseResume.step s (.msg m) = (s, []) := by
  unfold PauseResume.step PauseResume.deliver
  simp only
  split
  · rfl
  · rw [ingest_offline_noop _ ho]
    have h1 : applyStatus { s.R with L := s.R.L } m.status = s.R := by
      unfold applyStatus
      split
      · rename_i ht
        split
        · rename_i hf; simp [ht, hf] at hm
        · have : Loader.setOnline s.R.L false = s.R.L := by
            unfold Loader.setOnline
            simp only [Bool.false_and, Bool.false_eq_true, if_false]
            cases hl : s.R.L
            rw [hl] at ho
            simp_all
          rw [this]
      · rfl
    rw [h1]
    simp only [hp, hm, if_true, Bool.false_eq_true, if_false]
    cases s
    simp_all

/-- **C06.paused_offline** (invariant of every history): a paused request's loader is offline. -/
theorem paused_offline (st : List (Cid × Blk)) (lt : LT) (u : Nat) (hookAt : List Nat) (ops : List PauseResume.Op) :
    (PauseResume.exchange st lt u hookAt ops).1.paused = true → (PauseResume.exchange st lt u hookAt ops).1.R.L.isOpen = false :=
  exchange_inv st lt u hookAt ops

/-- **C06.stale_dropped_run.**  After any history that leaves the request paused, any number of stale
    response messages (no terminal failure status among them) are dropped without a trace: the
    requestor's state and its reports are the same as if they had never arrived. -/
theorem stale_dropped_run (st : List (Cid × Blk)) (lt : LT) (u : Nat) (hookAt : List Nat) (ops : List PauseResume.Op)
    (hp : (PauseResume.exchange st lt u hookAt ops).1.paused = true) (stale : List PauseResume.Msg)
    (hs : ∀ m ∈ stale, (isTerminal m.status && isFailure m.status) = false) :
    PauseResume.run (PauseResume.exchange st lt u hookAt ops).1 (stale.map PauseResume.Op.msg) = ((PauseResume.exchange st lt u hookAt ops).1, []) := by
  have ho := paused_offline st lt u hookAt ops hp
  generalize (PauseResume.exchange st lt u hookAt ops).1 = s at hp ho
  induction stale with
  | nil => rfl
  | cons m rest ih =>
    simp only [List.map_cons, PauseResume.run]
    rw [stale_dropped s hp ho m (hs m (List.mem_cons_self ..))]
    simp only
    rw [ih (fun m' hm' => hs m' (List.mem_cons_of_mem _ hm'))]
    rfl

/-! ### without pauses: the requestor model; with pauses: still a verified depth-first walk -/

/-- **C06.no_pause_is_requestor** (conservative extension).  With no hook pause configured and no Pause
    call in the history, the pause/resume model IS the requestor model `GS.Requestor`: same reports, same
    final state.  So the uninterrupted exchange that C06 compares with is the exchange of C01 / C02 / C24. -/
theorem no_pause_is_requestor (st : List (Cid × Blk)) (lt : LT) (u : Nat) (msgs : List Requestor.Msg) :
    PauseResume.exchange st lt u [] (msgs.map toOp) =
      (plainOf (Requestor.exchange st lt u msgs).1, (Requestor.exchange st lt u msgs).2) :=
  exchange_plain st lt u msgs

/-- **C06.pause_resume_walk** (safety, every history).  For every link tree, honest local store, set of
    hook-pause indices and EVERY history of response messages (any content with hash-keyed block maps:
    honest, stale, forged), Pause and Unpause calls: the reports of the request — blocks written, loads
    answered with data, nodes delivered, missing-block errors — form a depth-first walk of the link
    tree (`Requestor.Steps`, the statement of C01 for uninterrupted requests). -/
theorem pause_resume_walk (st : List (Cid × Blk)) (hst : HonestStore st) (lt : LT) (u : Nat)
    (hookAt : List Nat) (ops : List PauseResume.Op)
    (hwk : ∀ m, PauseResume.Op.msg m ∈ ops → WellKeyed m.blocks) :
    Steps lt (PauseResume.exchange st lt u hookAt ops).2 (PauseResume.exchange st lt u hookAt ops).1.R.todo :=
  exchange_steps_paused st hst lt u hookAt ops hwk

/-- **C06.pause_resume_store_sound.**  Under any history of pauses, resumes and messages, every block
    the requestor writes is the content of the link it is written under, and that link is a node of the
    link tree being loaded at that moment (the write is immediately followed by its delivery). -/
theorem pause_resume_store_sound (st : List (Cid × Blk)) (hst : HonestStore st) (lt : LT) (u : Nat)
    (hookAt : List Nat) (ops : List PauseResume.Op)
    (hwk : ∀ m, PauseResume.Op.msg m ∈ ops → WellKeyed m.blocks) :
    ∀ c b, Ev.write c b ∈ (PauseResume.exchange st lt u hookAt ops).2 →
      b = c ∧ ∃ pre post p l i,
        (PauseResume.exchange st lt u hookAt ops).2 = pre ++ Ev.write c b :: Ev.block c p l i :: post ∧
        ∃ n ∈ lt, n.cid = c ∧ n.path = p :=
  GS.C01.steps_writes (pause_resume_walk st hst lt u hookAt ops hwk)

/-- **C06.pause_resume_deliver_sound.**  Under any history of pauses, resumes and messages, the loads
    answered with data are the loaded nodes of a depth-first walk of the link tree under some
    availability answers, possibly cut short: pausing / resuming (and whatever arrives meanwhile) can
    shorten what is delivered, it cannot reorder it or make it leave the link tree. -/
theorem pause_resume_deliver_sound (st : List (Cid × Blk)) (hst : HonestStore st) (lt : LT) (u : Nat)
    (hookAt : List Nat) (ops : List PauseResume.Op)
    (hwk : ∀ m, PauseResume.Op.msg m ∈ ops → WellKeyed m.blocks) :
    ∃ answers, GS.C01.blocksOf (PauseResume.exchange st lt u hookAt ops).2 =
      (GS.C01.dfs lt answers).1.map (fun n => (n.cid, n.path)) := by
  obtain ⟨as, _, h⟩ := GS.C01.steps_dfs (pause_resume_walk st hst lt u hookAt ops hwk)
  exact ⟨as, h⟩

/-! ### the requestor's own store covers the traversal -/

/-- **C06.requestor_pause_resume_local.**  If the requestor holds every block of the traversal, then
    for every set of block indices at which the block hook pauses, and every history of Pause / Unpause
    calls (any number, any order, any timing): the blocks handed to the traversal are a prefix of the
    uninterrupted sequence, nothing is reported missing and no request message is sent; and whenever the
    request has terminated it has delivered exactly what the uninterrupted request delivers. -/
theorem requestor_pause_resume_local (st : List (Cid × Blk)) (lt : LT) (u : Nat) (hookAt : List Nat)
    (ops : List PauseResume.Op) (hops : ∀ o ∈ ops, o = .pause ∨ o = .unpause) (hc : ∀ n ∈ lt, has st n = true) :
    let res := PauseResume.exchange st lt u hookAt ops
    let base := PauseResume.exchange st lt u [] []
    (∃ k, PauseResume.blocksOf res.2 = (PauseResume.blocksOf base.2).take k) ∧
    missingOf res.2 = [] ∧ hardErrs res.2 = [] ∧ sentNews res.2 = [] ∧
    (res.1.R.phase = .finished →
      PauseResume.blocksOf res.2 = PauseResume.blocksOf base.2 ∧ delivered res.2 = delivered base.2) :=
  local_pause_resume st lt u hookAt ops hops hc

/-- non-vacuity of `requestor_pause_resume_local` / `stale_dropped_run`: a requestor holding all three
    blocks, hook pauses after blocks 1 and 2: the request is paused twice and ends after the second
    Unpause having delivered everything; a stale message in between changes nothing (concrete values) -/
example :
    let lt : LT := [⟨9, [], 0, 2, 0⟩, ⟨2, [0], 1, 1, 1⟩, ⟨3, [1], 1, 1, 0⟩]
    let st : List (Cid × Blk) := [(9, 9), (2, 2), (3, 3)]
    (PauseResume.exchange st lt 0 [1, 2] []).1.paused = true ∧
    (PauseResume.exchange st lt 0 [1, 2] [.unpause]).1.paused = true ∧
    (PauseResume.exchange st lt 0 [1, 2] [.unpause, .msg { status := 14, md := [(3, .present)], blocks := [(3, 3)] }, .unpause]).1.R.phase
      = .finished ∧
    PauseResume.blocksOf (PauseResume.exchange st lt 0 [1, 2] [.unpause, .msg { status := 14, md := [(3, .present)], blocks := [(3, 3)] }, .unpause]).2
      = [(9, []), (2, [0]), (3, [1])] := by decide

/-! ### a pause before the request has gone to the network -/

/-- **C06.requestor_pause_resume_before_online.**  The block hook pauses the request after a block that
    still came from the requestor's own store (all of `pre`, any length ≥ 1, is held locally — the
    request has not been sent yet), and the request is resumed before the responder's messages arrive.
    Then for EVERY list of response messages the exchange ends in exactly the requestor state of the
    uninterrupted exchange, and reports the same blocks, missing-block errors, other errors, delivered
    nodes and request messages (plus the one cancel message of the pause). -/
theorem requestor_pause_resume_before_online (st : List (Cid × Blk)) (pre post : LT) (u : Nat)
    (hpre : pre ≠ []) (hhas : ∀ n ∈ pre, has st n = true) (msgs : List Requestor.Msg) :
    let res := PauseResume.exchange st (pre ++ post) u [pre.length] (PauseResume.Op.unpause :: msgs.map toOp)
    let base := Requestor.exchange st (pre ++ post) u msgs
    res.1.R = base.1 ∧ res.1.paused = false ∧
    PauseResume.blocksOf res.2 = PauseResume.blocksOf base.2 ∧ missingOf res.2 = missingOf base.2 ∧
    hardErrs res.2 = hardErrs base.2 ∧ delivered res.2 = delivered base.2 ∧ sentNews res.2 = sentNews base.2 := by
  intro res base
  obtain ⟨tail, h1, h2⟩ := early_pause st pre post u hpre hhas msgs
  have hr : res = (hooked [pre.length] base.1, localEvs pre 0 ++ [Ev.sentCancel] ++ tail) := h1
  have hb : base.2 = localEvs pre 0 ++ tail := h2
  rw [hr, hb]
  refine ⟨rfl, rfl, ?_, ?_, ?_, ?_, ?_⟩
  · simp [blocksOf_append, PauseResume.blocksOf]
  · simp [missingOf_append, missingOf]
  · simp [hardErrs_append, hardErrs]
  · simp [delivered_append, delivered]
  · simp [sentNews_append, sentNews]

/-- non-vacuity of `requestor_pause_resume_before_online`: the requestor holds the root and its first
    child, pauses after the second block, resumes, misses the third block and fetches it (concrete values) -/
example :
    let pre : LT := [⟨9, [], 0, 2, 0⟩, ⟨2, [0], 1, 1, 1⟩]
    let post : LT := [⟨3, [1], 1, 1, 0⟩]
    let msgs : List Requestor.Msg := [⟨true, true, 20, [(9, .present), (2, .present), (3, .present)], [(3, 3)]⟩]
    (∀ n ∈ pre, has [(9, 9), (2, 2)] n = true) ∧
    (PauseResume.exchange [(9, 9), (2, 2)] (pre ++ post) 0 [2] (PauseResume.Op.unpause :: msgs.map toOp)).2 =
      [.block 9 [] true 1, .prog 2, .block 2 [0] true 2, .prog 1, .sentCancel, .sentNew 2,
       .write 3 3, .block 3 [1] false 3, .prog 1] := by decide

/-! ### regression for the defect fixed in /repo b4f998f, and the counterexamples -/

/-- link tree of the examples: root 2 with a child 1 at `0` (which links 0 at `0/0`) and the same
    block 1 again at `1/2` -/
def exLT : LT := [⟨2, [], 0, 1, 0⟩, ⟨1, [0], 1, 1, 0⟩, ⟨0, [0, 0], 2, 1, 0⟩, ⟨1, [1, 2], 1, 1, 0⟩]
/-- the responder holds 1 and 2 (not 0) -/
def exRem (c : Cid) : Bool := c == 1 || c == 2

/-- the honest response to the first request (skip 0) in one message: everything is buffered in the
    loader when the block hook pauses after the first block -/
def exFirst : List PauseResume.Op := (batchMsgs [9] (honest exLT exRem 0) 21).map PauseResume.Op.msg
/-- the honest response to the resumed request (skip 2: the blocks 2 and 1 were loaded) -/
def exSecond : List PauseResume.Op := (batchMsgs [9] (honest exLT exRem 2) 21).map PauseResume.Op.msg

/-- **C06.requestor_pause_resume_complete_response.**  Any link tree, local store, user skip value and
    hook index `k`; any messages `m1` (honest or not) during which block `k` is not reached, followed by
    the message `M` that carries the response's final success status (RequestCompletedFull / Partial):
    the response is complete when the block hook pauses the request at block `k`, and the request is
    resumed (`Unpause`).  The request has gone to the network and its context has not been cancelled
    before `M` (`hsent`, `hctx`: facts about the uninterrupted exchange).  If the uninterrupted exchange
    reports no missing block, the paused and resumed exchange ends in the same requestor state — same
    block store, same traverser, same loader, finished or not alike; only the executor's `requestSent`
    flag may differ — and reports the same blocks, missing-block errors, other errors, delivered nodes
    and request messages: the resume re-uses the blocks already queued and never goes back to the
    network.  (With a missing block after the pause point the resumed executor goes online again with
    a non-empty traversal record: the open case described at the end of this file.) -/
theorem requestor_pause_resume_complete_response (st : List (Cid × Blk)) (lt : LT) (u k : Nat)
    (m1 : List Requestor.Msg) (M : Requestor.Msg)
    (hsucc : isSuccess M.status = true)
    (hpre : (Requestor.exchange st lt u m1).1.nBlocks < k)
    (hsent : (Requestor.exchange st lt u m1).1.requestSent = true)
    (hctx : (Requestor.exchange st lt u m1).1.ctxCancelled = false)
    (hnm : missingOf (Requestor.exchange st lt u (m1 ++ [M])).2 = []) :
    let res := PauseResume.exchange st lt u [k] (m1.map toOp ++ [toOp M, PauseResume.Op.unpause])
    let base := Requestor.exchange st lt u (m1 ++ [M])
    res.1.paused = false ∧ (res.1.R = base.1 ∨ res.1.R = unsent base.1) ∧
    res.1.R.L = base.1.L ∧ res.1.R.todo = base.1.todo ∧ res.1.R.phase = base.1.phase ∧
    PauseResume.blocksOf res.2 = PauseResume.blocksOf base.2 ∧ missingOf res.2 = missingOf base.2 ∧
    hardErrs res.2 = hardErrs base.2 ∧ delivered res.2 = delivered base.2 ∧ sentNews res.2 = sentNews base.2 := by
  intro res base
  obtain ⟨e1, e2, c, R, hc, hR, hb, hres⟩ := late_pause st lt u k m1 M hsucc hpre hsent hctx hnm
  have hr : res = (hooked [k] R, e1 ++ c ++ e2) := hres
  have hbb : base.2 = e1 ++ e2 := hb
  have hRR : R = base.1 ∨ R = unsent base.1 := hR
  rw [hr, hbb]
  have hfields : R.L = base.1.L ∧ R.todo = base.1.todo ∧ R.phase = base.1.phase := by
    rcases hRR with h | h <;> (rw [h]; exact ⟨rfl, rfl, rfl⟩)
  refine ⟨rfl, hRR, hfields.1, hfields.2.1, hfields.2.2, ?_, ?_, ?_, ?_, ?_⟩
  · rcases hc with hc | hc <;> subst hc <;> simp [blocksOf_append, PauseResume.blocksOf]
  · rcases hc with hc | hc <;> subst hc <;> simp [missingOf_append, missingOf]
  · rcases hc with hc | hc <;> subst hc <;> simp [hardErrs_append, hardErrs]
  · rcases hc with hc | hc <;> subst hc <;> simp [delivered_append, delivered]
  · rcases hc with hc | hc <;> subst hc <;> simp [sentNews_append, sentNews]

/-- non-vacuity of `requestor_pause_resume_complete_response`: the requestor holds nothing, the whole
    response (three blocks, status RequestCompletedFull) arrives in one message, the hook pauses after
    the second block: the pause does fire (a cancel is sent), the resumed executor takes the third block
    from the queue (concrete values) -/
example :
    let lt : LT := [⟨9, [], 0, 2, 0⟩, ⟨2, [0], 1, 1, 1⟩, ⟨3, [1], 1, 1, 0⟩]
    let M : Requestor.Msg := ⟨true, true, 20, [(9, .present), (2, .present), (3, .present)], [(9, 9), (2, 2), (3, 3)]⟩
    isSuccess M.status = true ∧ (Requestor.exchange [] lt 0 []).1.nBlocks < 2 ∧
    (Requestor.exchange [] lt 0 []).1.requestSent = true ∧ (Requestor.exchange [] lt 0 []).1.ctxCancelled = false ∧
    missingOf (Requestor.exchange [] lt 0 ([] ++ [M])).2 = [] ∧
    (PauseResume.exchange [] lt 0 [2] [toOp M]).1.paused = true ∧
    (PauseResume.exchange [] lt 0 [2] [toOp M, PauseResume.Op.unpause]).2 =
      [.sentNew 0, .write 9 9, .block 9 [] false 1, .prog 2, .write 2 2, .block 2 [0] false 2, .prog 1,
       .sentCancel, .write 3 3, .block 3 [1] false 3, .prog 1] := by
  refine ⟨by decide, by decide, by decide, by decide, by decide, by decide, by decide⟩

/-! ### the re-opening resume, from the state in which the second response has arrived

`requestor_reopen_partial` is the part of case (c) (see the end of the file) that the loader lemmas now
give: it starts in the requestor state that is parked in the retried load after `Unpause`, the first
local miss and `SetRemoteOnline(true)`, takes the WHOLE honest second response in one message with its
final success status, and concludes that the request delivers exactly the rest of the reference
traversal.  Its hypotheses `hrec … hwin` are facts about the loader state at that moment; that the
paused and resumed exchange reaches a state satisfying them (record = the loads so far, their blocks in
the store) is the remaining gap. -/

/-- **C06.requestor_reopen_partial.**  `r`: a request that is running, has been (re-)sent, whose
    executor is parked in the retried load of `n` (cursor `n :: post`; `root :: pre'` are the links
    loaded so far, before and after any number of pauses, all answered with data).  The message
    carries the honest response for do-not-send-first-blocks `w` over the responder's store `rem`
    (`respItemsW` = `Responder.respondSpec`, `C02.honest_response_is_spec`) and the final status 20 / 21.
    `L2` is the loader after ingesting it and going offline.  If `L2` has the traversal record of
    `root :: pre'`, a fresh verifier over it, the response in its queue, the blocks of the prefix in
    its store, and the negations of C02's two finding classes hold (`hremroot`, `hwin`), then the
    events of the message (any dead hook configuration `hs`) are exactly the continuation of the
    reference traversal `refTrav rem lt L2.store` after the prefix, and the store ends as `refTrav`'s. -/
theorem requestor_reopen_partial (rem : Cid → Bool) (r : Requestor.State) (hs : List Nat) (hd : DeadAt hs r)
    (root : LNode) (pre' : LT) (n : LNode) (post : LT) (w st : Nat) (hst : st = 20 ∨ st = 21)
    (hrun : r.phase = .running) (hsent : r.requestSent = true) (hctx : r.ctxCancelled = false)
    (htodo : r.todo = n :: post) (hdep : ∀ m ∈ n :: post, m.depth ≠ 0)
    (hwf : Loader.WF (root :: pre' ++ n :: post))
    (hroot0 : root.path = []) (hne : ∀ m ∈ pre' ++ n :: post, m.path ≠ [])
    (hdfs : PathsDFS ((root :: pre').map (·.path)))
    (L2 : Loader.State)
    (hL2 : L2 = Loader.setOnline (Loader.ingest r.L (mdOf (respItemsW rem (root :: pre' ++ n :: post) [] w))
      (blocksOfItems (respItemsW rem (root :: pre' ++ n :: post) [] w))) false)
    (hpend : L2.pending = some (n.path, n.cid)) (hmra : L2.mra = none)
    (hrec : L2.record = recOfLT (root :: pre')) (hver : L2.ver = some (newVerifier L2.record))
    (hclosed : L2.isOpen = false)
    (hq : L2.rq.q = respItemsW rem (root :: pre' ++ n :: post) [] w)
    (hstale : L2.unfollowed = [] ∨ ∀ x ∈ n :: post, below L2.unfollowed x.path = false)
    (hheld : ∀ m ∈ root :: pre', holds L2.store m.cid = true)
    (hremroot : rem root.cid = true)
    (hwin : ∀ it ∈ L2.rq.q.take w, it.action = .present → holds L2.store it.link = true) :
    let items := respItemsW rem (root :: pre' ++ n :: post) [] w
    let res := PauseResume.deliver (hooked hs r) true true st (mdOf items) (blocksOfItems items)
    ((root :: pre').map (fun m => (m, true))).map keyOf ++ resultsOf res.2 =
      (refTrav rem (root :: pre' ++ n :: post) L2.store none).1.map keyOf ∧
    (∀ c, holds res.1.R.L.store c = holds (refTrav rem (root :: pre' ++ n :: post) L2.store none).2 c) ∧
    res.1.paused = false := by
  intro items res
  have hres : res = (hooked hs (Requestor.message r true true st (mdOf items) (blocksOfItems items)).1,
      (Requestor.message r true true st (mdOf items) (blocksOfItems items)).2) := deliver_dead hs r hd _ _ _ _ _
  have hsucc : isSuccess st = true := by rcases hst with rfl | rfl <;> decide
  -- the message: ingest, final status -> offline, the parked load is woken
  have hmsg : Requestor.message r true true st (mdOf items) (blocksOfItems items) =
      Requestor.resume { r with L := L2 } := by
    unfold Requestor.message
    have hg : ¬ (r.phase != Phase.running || !true || !true) = true := by simp [hrun]
    rw [if_neg hg]
    rw [applyStatus_success _ _ hsucc, hL2]
  have hrw := resume_walk { r with L := L2 } n post hrun hsent hctx htodo hpend hmra hdep
  have hrp := replay_walk rem { L2 with pending := none } root pre' n post w hwf hroot0 hne hdfs
    hrec hmra hver hclosed rfl hq hstale hheld hremroot hwin
  rw [hres, hmsg]
  simp only at hrw hrp ⊢
  refine ⟨?_, ?_, rfl⟩
  · rw [hrw.1, ← List.map_append, hrp.1]
  · intro c
    show holds (Requestor.resume { r with L := L2 }).1.L.store c = _
    rw [hrw.2]
    exact hrp.2 c

/-- non-vacuity of `requestor_reopen_partial`, on a state REACHED by a paused exchange (concrete values):
    the requestor holds nothing; the first message of the first response brings blocks 9 and 2 (status
    PartialResponse); the hook pauses after block 2; `Unpause`; the executor misses block 3 locally,
    re-opens and re-sends the request with do-not-send-first-blocks 2 and is parked.  That state and the
    honest second response satisfy every hypothesis of the theorem (the record is the record of the two
    REMOTE loads), and the message delivers block 3. -/
example :
    let root : LNode := ⟨9, [], 0, 1, 0⟩
    let n2 : LNode := ⟨2, [0], 1, 1, 0⟩
    let n3 : LNode := ⟨3, [1], 1, 1, 0⟩
    let rem : Cid → Bool := fun c => [9, 2, 3].contains c
    let M1 : Requestor.Msg := ⟨true, true, 14, [(9, .present), (2, .present)], [(9, 9), (2, 2)]⟩
    let parked := PauseResume.exchange [] [root, n2, n3] 0 [2] [toOp M1, PauseResume.Op.unpause]
    let r := parked.1.R
    let items : List Item := [⟨9, .present, none⟩, ⟨2, .present, none⟩, ⟨3, .present, some 3⟩]
    let L2 := Loader.setOnline (Loader.ingest r.L (mdOf items) (blocksOfItems items)) false
    respItemsW rem [root, n2, n3] [] 2 = items ∧
    (parked.1.paused = false ∧ parked.1.hookAt = [2] ∧ parked.1.pauseTok = false ∧ parked.1.pendingErr = none) ∧
    parked.2 = [.sentNew 0, .write 9 9, .block 9 [] false 1, .prog 1, .write 2 2,
      .block 2 [0] false 2, .prog 1, .sentCancel, .sentNew 2] ∧
    r.nBlocks = 2 ∧ r.phase = .running ∧ r.requestSent = true ∧ r.ctxCancelled = false ∧ r.todo = [n3] ∧
    Loader.WF [root, n2, n3] ∧ PathsDFS ([root, n2].map (·.path)) ∧
    L2.pending = some (n3.path, n3.cid) ∧ L2.mra = none ∧ L2.record = recOfLT [root, n2] ∧
    L2.ver = some (newVerifier L2.record) ∧ L2.isOpen = false ∧ L2.rq.q = items ∧ L2.unfollowed = [] ∧
    (∀ m ∈ [root, n2], holds L2.store m.cid = true) ∧
    (∀ it ∈ L2.rq.q.take 2, it.action = .present → holds L2.store it.link = true) ∧
    (PauseResume.deliver parked.1 true true 20 (mdOf items) (blocksOfItems items)).2 =
      [.write 3 3, .block 3 [1] false 3, .prog 1] := by
  refine ⟨?_, by decide, by decide, by decide, by decide, by decide, by decide, by decide, ?_, by decide, by decide,
    by decide, by decide, by decide, by decide, by decide, by decide, by decide, by decide, by decide⟩
  · simp [respItemsW, skipSub]
  · simp [Loader.WF, subOf, skipSub, below]

/-- **regression (b4f998f).**  Pause at block 1 while the rest of the response — including the item of
    the link the responder lacks — is already queued in the loader; after Unpause the traversal consumes
    the queued item of block 1, meets the queued `missing` item of block 0, misses locally and goes online
    again.  With the queue emptied on re-opening, the resumed exchange ends like the uninterrupted one.
    (Before the fix `RetryLastLoad` put the consumed item back in front of the left-over items and the new
    verifier compared them with the START of the traversal: RemoteIncorrectResponseError.)
    This is a test of concrete values (`corpus/C06/pauseres/fixed.cases` is the same situation on the
    real code). -/
theorem stale_queue_regression :
    let base := PauseResume.exchange [] exLT 0 [] exFirst
    let res := PauseResume.exchange [] exLT 0 [1] (exFirst ++ [.unpause] ++ exSecond)
    PauseResume.blocksOf res.2 = PauseResume.blocksOf base.2 ∧ missingOf res.2 = missingOf base.2 ∧
    hardErrs res.2 = [] ∧ delivered res.2 = delivered base.2 ∧
    res.1.R.L.store.map (·.1) = [1, 2] ∧ base.1.R.L.store.map (·.1) = [1, 2] ∧
    sentNews res.2 = [0, 2] := by decide

/-- **C06.requestor_stale_response_counterexample** (known finding `stale-response-after-resume`).
    The responder's answer travels in two messages.  The block hook pauses after the first block; the
    caller resumes at once; the requestor misses block 1 locally, goes online again and asks with skip 1.
    Only now the SECOND message of the cancelled response arrives: it is ingested into the new
    response, the new verifier expects the root and finds block 1 — RemoteIncorrectResponseError, the
    request fails having delivered one block, where the uninterrupted exchange delivers three and
    reports link 0 missing. -/
theorem requestor_stale_response_counterexample :
    let msgs := batchMsgs [1, 9] (honest exLT exRem 0) 21
    let base := PauseResume.exchange [] exLT 0 [] (msgs.map PauseResume.Op.msg)
    let res := PauseResume.exchange [] exLT 0 [1] ([PauseResume.Op.msg (msgs.getD 0 {}), .unpause, PauseResume.Op.msg (msgs.getD 1 {})])
    PauseResume.blocksOf base.2 = [(2, []), (1, [0]), (1, [1, 2])] ∧ missingOf base.2 = [(0, [0, 0])] ∧
    hardErrs base.2 = [] ∧
    PauseResume.blocksOf res.2 = [(2, [])] ∧ sentNews res.2 = [0, 1] ∧
    hardErrs res.2 = [.load (.incorrect 2 1 []), .load (.incorrect 2 1 [])] := by decide

/-- **C06.requestor_skip_prefix_counterexample** (C02's known finding `skip-prefix-mismatch`, met on
    resume).  Link tree: root 6 with children 1 (at `0/1`, itself with a child 0), 4 (at `4`) and 5 (at
    `5`).  The requestor holds 1 and 0, the responder 6, 4 and 5 but not 1.  Uninterrupted: the requestor
    misses the root, asks with skip 0, is told 1 is missing, loads 1 and 0 from its own store and gets 4
    and 5 from the responder.  Paused after the third block (6, 1, 0 loaded; the item of 4 is queued, the
    message with 5 arrives while the request is paused and is dropped) and resumed: block 4 comes out of
    the queue, block 5 is missed locally and the request goes online again with skip 4; the responder's
    first four links are 6, 1 (missing), 4, 5 — so block 5 is "present, not sent" and the requestor
    reports it missing. -/
theorem requestor_skip_prefix_counterexample :
    let lt : LT := [⟨6, [], 0, 1, 0⟩, ⟨1, [0, 1], 1, 1, 0⟩, ⟨0, [0, 1, 2], 2, 1, 0⟩, ⟨4, [4], 1, 1, 0⟩, ⟨5, [5], 1, 1, 0⟩]
    let rem : Cid → Bool := fun c => c == 6 || c == 4 || c == 5
    let first := (batchMsgs [] (honest lt rem 0) 20).map PauseResume.Op.msg
    let second := (batchMsgs [] (honest lt rem 4) 20).map PauseResume.Op.msg
    let base := PauseResume.exchange [(0, 0), (1, 1)] lt 0 [] first
    let res := PauseResume.exchange [(0, 0), (1, 1)] lt 0 [3] (first ++ [.unpause] ++ second)
    PauseResume.blocksOf base.2 = [(6, []), (1, [0, 1]), (0, [0, 1, 2]), (4, [4]), (5, [5])] ∧ missingOf base.2 = [] ∧
    sentNews res.2 = [0, 4] ∧
    PauseResume.blocksOf res.2 = [(6, []), (1, [0, 1]), (0, [0, 1, 2]), (4, [4])] ∧ missingOf res.2 = [(5, [5])] := by
  decide

/-! ## the general requestor statement: what is proved, what remains

Full strength (false, see the counterexamples above):

  theorem requestor_pause_resume : ∀ st lt u rem hookAt (history of Pause/Unpause calls and deliveries of
      the responder's messages in any order that respects the order within each response),
      result (paused exchange) = result (uninterrupted exchange)

Partial statement that the harness `pauseres` has not been able to refute (6 000 generated cases per
thorough run; every failure outside it falls in one of the known classes):

  theorem requestor_pause_resume_partial (st lt u rem) (k : Nat)        -- pause after the k-th block
      (hC02 : PrefixHeldByResponder st rem lt)                          -- hypothesis of C02's partial theorem,
                                                                        --   for the first AND the resumed request
      (batch0 batch1 : List Nat) (j : Nat) :                            -- any batching; any number j of the old
                                                                        --   response's messages delivered before the resume
      let first  := batchMsgs batch0 (honest lt rem (skip of the first request)) status
      let second := batchMsgs batch1 (honest lt rem (skip of the resumed request)) status
      let res := exchange st lt u [k] (first.take j ++ [.unpause] ++ second)   -- the rest of `first` never arrives
                                                                               --   (or arrives before the loader re-opens:
                                                                               --   `stale_dropped_run`)
      blocksOf res = blocksOf base ∧ missingOf res = missingOf base ∧ stored res = stored base

A resume falls in exactly one of three cases, by what the resumed executor does at its first local miss:

 (a) there is no further local miss, because the rest of the traversal is held locally:
     PROVED — `requestor_pause_resume_before_online` (pause in the local phase, any later messages) and
     `requestor_pause_resume_local` (everything local, any number of pauses).
 (b) there is no further local miss, because the response was complete when the pause fired (final
     success status processed: the loader is offline and keeps its queue) and no block is missing:
     PROVED — `requestor_pause_resume_complete_response`, for every `k`, every earlier message list and
     every (honest or dishonest) content of the messages.
 (c) the resumed executor misses locally and goes online again: `SetRemoteOnline(true)` builds a
     verifier over the traversal record of the `k` blocks loaded so far, the request is sent again
     with do-not-send-first-blocks = max(u, k), and the new response is verified against that record
     before its first new block is used.  NOT PROVED.  The loader agent's lemmas do not reach it:
       * `GS.C02.complete_remote_start` / `Loader.walk_refTrav` are for a request that goes online
         at the ROOT with an EMPTY traversal record (N = 0 locally traversed blocks, the whole
         response ingested before the walk).  A resumed request has k ≥ 1 recorded blocks — some
         loaded locally, some from the cancelled response — so it is their open case N > 0, with
         the extra twist that the record mixes local and remote loads;
       * `GS.C02.kahn_schedule` / `kahn_same_messages` (interleaving independence of ingest and
         load) hold for clients that never call `RetryLastLoad` on a load that used the remote
         queue; the re-opening executor does exactly that (`kahn_counterexample_retry` shows the
         restriction is necessary), so the order of `second`'s deliveries relative to the resumed
         loads is not covered either.
     STATE OF THE CASE.  The loader-level core exists for an ALL-SUCCESSFUL record —
     `GS.Loader.replay_walk` (`GSProofs/Lemmas/LoaderReplay.lean`) —, the executor bridge exists —
     `GS.Requestor.drive_walk` / `resume_walk` (`Lemmas/RequestorBridge.lean`: once the request has been
     sent the executor's reports are `Loader.walk`) —, and `requestor_reopen_partial` above composes
     them: from the requestor state parked in the retried load after the re-open, the whole honest
     second response in ONE message with its final status yields exactly the continuation of the
     reference traversal and its store.  Its hypotheses are facts about the loader at that moment
     (record = `recOfLT` of the loads so far, fresh verifier over it, their blocks in the store, no
     parked attempt pending in `mra`, stale path-tracker value harmless); they hold on the state reached
     by a real paused exchange with REMOTE loads before the pause (the `example` after the theorem).
     What is still open:
       2. REACHABILITY of those hypotheses in general: the invariants "record = recOfLT (nodes loaded
          so far)" and "every loaded block is in the store" along `driveP` through local AND remote
          loads, through pause and `Unpause`.  `Loader.local_walk` / `afterResponseP_eq` give them
          for purely local loads only;
       3. records with unsuccessful loads (a missing link met before the pause): not covered by
          `replay_walk` (its induction follows a contiguous prefix);
       4. the second response arriving in several messages interleaved with the resumed loads:
          `kahn_schedule` excludes `RetryLastLoad` after a remote load, which is what re-opening
          does (`kahn_counterexample_retry`);
       5. the comparison with the UNINTERRUPTED exchange: `C02.exchange_complete_prefix` characterises it
          by the same `refTrav` when its response arrives in one message and the local prefix is
          non-empty (N = 0: `complete_remote_start`, loader level); for an uninterrupted response
          cut into several messages the executor-level statement is open (item 4 again).
     The statement that would close the case, at the loader level and for every record, is

       theorem reopen_complete (rem loc lt) (k ≥ 1) (rec := the traversal record of the first k loads
           of refTrav rem lt loc — successful or not) :
         walk (afterResponse' loc rec (respItems rem lt (skip := max u k))) (lt from its k-th node on)
           = the tail of refTrav rem lt loc from the k-th node on

     plus C02's `PrefixHeldByResponder` hypothesis (without it: `requestor_skip_prefix_counterexample`).
     With `reopen_complete`, case (c) follows from the ingredients proved here: `driveP_split` (the run
     up to the pause is the uninterrupted run), `stale_dropped_run` (messages of the cancelled
     response that arrive while paused are dropped), `reopen_fresh` (the re-opened loader starts from an
     empty queue and a fresh verifier over the whole record), `pause_effects`.  The known finding
     `stale-response-after-resume` (and the repaired `resume-overtakes-cancel`) are the histories excluded by
     "the rest of `first` never arrives after the loader re-opened".
-/

end GS.C06
