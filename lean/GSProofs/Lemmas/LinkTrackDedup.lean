import GSProofs.Lemmas.LinkTrackFinish
/-! Refinement step for `DedupKey` (the request moves, with its records, into the new scope), and the
refinement theorem for whole histories. -/
set_option linter.unusedSimpArgs false
namespace GS.LinkTrack
open PeerTracker

theorem any_iff_scope {m : List (Req × Key)} (hnd : NodupKeys m) {f : Req → Option Key}
    (hf : ∀ r, aget m r = f r) (k : Key) :
    m.any (fun e => e.2 == k) = true ↔ ∃ r, f r = some k := by
  simp only [List.any_eq_true]
  constructor
  · rintro ⟨e, he, hk⟩
    have hk' : e.2 = k := by simpa using hk
    have := aget_of_mem hnd (show (e.1, e.2) ∈ m from he)
    exact ⟨e.1, by rw [← hf, this, hk']⟩
  · rintro ⟨r, hr⟩
    exact ⟨(r, k), mem_of_aget (by rw [hf, hr]), by simp⟩

theorem setDedupKey_same {p : PeerTracker} {r : Req} {k : Key} (h : aget p.dedupKeys r = some k) :
    p.setDedupKey r k = p := by
  unfold setDedupKey; simp [h]

/-- the state after the move, before the old bucket is possibly dropped -/
def movedState (p : PeerTracker) (r : Req) (k : Key) : PeerTracker :=
  let old := aget p.dedupKeys r
  let mv := (p.scopeTracker old).moveRequest r ((p.dedupKey r k).scopeTracker (some k))
  ((p.dedupKey r k).setScopeTracker old mv.1).setScopeTracker (some k) mv.2

theorem setDedupKey_ne {p : PeerTracker} {r : Req} {k : Key} (h : aget p.dedupKeys r ≠ some k) :
    p.setDedupKey r k =
      match aget p.dedupKeys r with
      | some k0 => (movedState p r k).dropTrackerIfUnused k0
      | none => movedState p r k := by
  unfold setDedupKey movedState
  simp only [h, if_false]
  cases aget p.dedupKeys r <;> rfl

@[simp] theorem drop_dedupKeys (p : PeerTracker) (k : Key) : (p.dropTrackerIfUnused k).dedupKeys = p.dedupKeys := by
  unfold dropTrackerIfUnused; split <;> rfl
@[simp] theorem drop_sentCount (p : PeerTracker) (k : Key) : (p.dropTrackerIfUnused k).sentCount = p.sentCount := by
  unfold dropTrackerIfUnused; split <;> rfl
@[simp] theorem drop_skipFirst (p : PeerTracker) (k : Key) : (p.dropTrackerIfUnused k).skipFirst = p.skipFirst := by
  unfold dropTrackerIfUnused; split <;> rfl

theorem R_setDedup {p : PeerTracker} {σ : Spec} (h : R p σ) (r : Req) (k : Key) :
    R (p.setDedupKey r k) (σ.step (.dedup r k)).1 := by
  by_cases hsame : σ.scope r = some k
  · -- the request already has this key: nothing happens
    rw [setDedupKey_same (by rw [h.dk r, hsame])]
    simp only [Spec.step, hsame, if_true]
    exact ⟨h.dk, h.nd, h.sc, h.sk, h.tr, h.al, h.jw, h.jm⟩
  · have hne : aget p.dedupKeys r ≠ some k := by rw [h.dk r]; exact hsame
    rw [setDedupKey_ne hne]
    simp only [Spec.step, hsame, if_false]
    -- names
    have hdk0 : aget p.dedupKeys r = σ.scope r := h.dk r
    have hJw : ∀ e ∈ σ.wb, e.2.1 = r → e.1 = σ.scope r := fun e he her => by rw [h.jw e he, her]
    have hJm : ∀ e ∈ σ.ms, e.2.1 = r → e.1 = σ.scope r := fun e he her => by rw [h.jm e he, her]
    have hwb_other : ∀ s, s ≠ σ.scope r → dropReq (proj σ.wb s) r = proj σ.wb s := by
      intro s hs
      apply dropReq_eq_self
      intro x hx hxr
      have := hJw _ (mem_proj.1 hx) hxr
      exact hs this
    have hms_other : ∀ s, s ≠ σ.scope r → dropReq (proj σ.ms s) r = proj σ.ms s := by
      intro s hs
      apply dropReq_eq_self
      intro x hx hxr
      have := hJm _ (mem_proj.1 hx) hxr
      exact hs this
    have hkne : (some k : Option Key) ≠ σ.scope r := fun h2 => hsame h2.symm
    -- the two trackers involved
    have hOld := h.tr (σ.scope r)
    have hNew := h.tr (some k)
    have hfin := (sim_finish hOld r).1
    have hstored : (aget (p.scopeTracker (σ.scope r)).linksByReq r).getD [] = reqLinks σ.wb r := by
      rw [hOld.links r, encL_getD, linksOf_proj σ.wb σ.scope h.jw, if_pos rfl]
    have hmv2 : Sim ((p.scopeTracker (σ.scope r)).moveRequest r (p.scopeTracker (some k))).2
        (proj (Spec.moveReq σ.wb r (some k)) (some k)) (proj (Spec.moveReq σ.ms r (some k)) (some k)) := by
      rw [proj_moveReq, proj_moveReq, if_pos rfl, if_pos rfl, hwb_other _ hkne, hms_other _ hkne]
      unfold LinkTracker.moveRequest
      simp only
      rw [hstored, reqPairs_eq_map σ.wb r]
      have h1 := sim_foldl_record_true hNew r (reqLinks σ.wb r)
      have h2 := sim_foldl_record_false h1 r ((aget (p.scopeTracker (σ.scope r)).missing r).getD [])
      apply h2.congr_ms
      intro x
      simp only [List.mem_append, List.mem_map]
      apply or_congr Iff.rfl
      rw [mem_reqPairs]
      constructor
      · rintro ⟨l, hl, rfl⟩
        exact ⟨rfl, σ.scope r, mem_proj.1 ((hOld.missMem r l).1 hl)⟩
      · rintro ⟨hx1, s, hs⟩
        refine ⟨x.2, ?_, by obtain ⟨a, b⟩ := x; simp only at hx1; subst hx1; rfl⟩
        apply (hOld.missMem r x.2).2
        apply mem_proj.2
        have := hJm _ hs rfl
        simp only at this; rw [← this]; exact hs
    have hmv1 : ((p.scopeTracker (σ.scope r)).moveRequest r (p.scopeTracker (some k))).1 =
        ((p.scopeTracker (σ.scope r)).finishRequest r).1 := rfl
    -- trackers of the moved state
    have hst : ∀ s, (movedState p r k).scopeTracker s =
        if some k = s then ((p.scopeTracker (σ.scope r)).moveRequest r (p.scopeTracker (some k))).2
        else if σ.scope r = s then ((p.scopeTracker (σ.scope r)).finishRequest r).1
        else p.scopeTracker s := by
      intro s
      unfold movedState
      simp only
      rw [scopeTracker_set, scopeTracker_set, dedupKey_scopeTracker, dedupKey_scopeTracker, hdk0, hmv1]
    have hal2 : ∀ k', (aget (movedState p r k).alts k').isSome = (decide (k = k') || (aget p.alts k').isSome) := by
      intro k'
      unfold movedState
      simp only
      rw [alts_set_isSome, alts_set_isSome, dedupKey_alts_isSome, hdk0]
      by_cases h1 : k = k'
      · simp [h1]
      · by_cases h2 : σ.scope r = some k'
        · have := (h.al k').2 ⟨r, h2⟩
          simp [h1, h2, this]
        · have h1' : ¬ (some k : Option Key) = some k' := fun h3 => h1 (Option.some.inj h3)
          simp [h1, h1', h2]
    have hdk2 : (movedState p r k).dedupKeys = aset p.dedupKeys r k := by
      unfold movedState; simp [dedupKey]
    have hsc2 : (movedState p r k).sentCount = p.sentCount := by unfold movedState; simp [dedupKey]
    have hsk2 : (movedState p r k).skipFirst = p.skipFirst := by unfold movedState; simp [dedupKey]
    have hdk' : ∀ r', aget (aset p.dedupKeys r k) r' = upd σ.scope r (some k) r' := by
      intro r'
      rw [aget_aset]
      by_cases hr : r = r'
      · subst hr; simp
      · have : ¬ r' = r := fun h2 => hr h2.symm
        simp [hr, upd, this, h.dk r']
    have hjw' : ∀ e ∈ Spec.moveReq σ.wb r (some k), e.1 = upd σ.scope r (some k) e.2.1 := by
      intro e he
      rcases mem_moveReq.1 he with ⟨he1, hne1⟩ | ⟨h1, h2, _⟩
      · rw [upd_other _ _ hne1]; exact h.jw e he1
      · rw [h2, upd_same]; exact h1
    have hjm' : ∀ e ∈ Spec.moveReq σ.ms r (some k), e.1 = upd σ.scope r (some k) e.2.1 := by
      intro e he
      rcases mem_moveReq.1 he with ⟨he1, hne1⟩ | ⟨h1, h2, _⟩
      · rw [upd_other _ _ hne1]; exact h.jm e he1
      · rw [h2, upd_same]; exact h1
    -- ledgers of the scopes that are neither the old nor the new one
    have hproj_other : ∀ s, some k ≠ s →
        proj (Spec.moveReq σ.wb r (some k)) s = dropReq (proj σ.wb s) r ∧
        proj (Spec.moveReq σ.ms r (some k)) s = dropReq (proj σ.ms s) r := by
      intro s hs
      rw [proj_moveReq, proj_moveReq, if_neg hs, if_neg hs, List.append_nil, List.append_nil]
      exact ⟨rfl, rfl⟩
    have htr2 : ∀ s, Sim ((movedState p r k).scopeTracker s)
        (proj (Spec.moveReq σ.wb r (some k)) s) (proj (Spec.moveReq σ.ms r (some k)) s) := by
      intro s
      rw [hst s]
      by_cases h1 : some k = s
      · subst h1; simp only [if_true]; exact hmv2
      · simp only [h1, if_false]
        rw [(hproj_other s h1).1, (hproj_other s h1).2]
        by_cases h2 : σ.scope r = s
        · subst h2; simp only [if_true]; exact hfin
        · simp only [h2, if_false]
          rw [hwb_other s (fun h3 => h2 h3.symm), hms_other s (fun h3 => h2 h3.symm)]
          exact h.tr s
    cases hs0 : σ.scope r with
    | none =>
      have hd0 : aget p.dedupKeys r = none := by rw [hdk0, hs0]
      simp only [hd0]
      refine ⟨?_, ?_, ?_, ?_, htr2, ?_, hjw', hjm'⟩
      · intro r'; rw [hdk2]; exact hdk' r'
      · rw [hdk2]; exact nodupKeys_aset h.nd r k
      · rw [hsc2]; exact h.sc
      · rw [hsk2]; exact h.sk
      · intro k'
        rw [hal2 k']
        simp only [Bool.or_eq_true, decide_eq_true_eq]
        constructor
        · rintro (h1 | h1)
          · exact ⟨r, by simp [h1]⟩
          · obtain ⟨r', hr'⟩ := (h.al k').1 h1
            refine ⟨r', ?_⟩
            rw [upd_other]; exact hr'
            intro h2; rw [h2, hs0] at hr'; simp at hr'
        · rintro ⟨r', hr'⟩
          by_cases h2 : r' = r
          · subst h2; simp at hr'; exact Or.inl hr'
          · rw [upd_other _ _ h2] at hr'
            exact Or.inr ((h.al k').2 ⟨r', hr'⟩)
    | some k0 =>
      have hd0 : aget p.dedupKeys r = some k0 := by rw [hdk0, hs0]
      have hk0k : k0 ≠ k := fun h2 => hsame (by rw [hs0, h2])
      simp only [hd0]
      have hany : (movedState p r k).dedupKeys.any (fun e => e.2 == k0) = true ↔
          ∃ r', upd σ.scope r (some k) r' = some k0 := by
        rw [hdk2]; exact any_iff_scope (nodupKeys_aset h.nd r k) hdk' k0
      have hanyr : (∃ r', upd σ.scope r (some k) r' = some k0) ↔ ∃ r', r' ≠ r ∧ σ.scope r' = some k0 := by
        constructor
        · rintro ⟨r', hr'⟩
          by_cases h2 : r' = r
          · subst h2; simp at hr'; exact absurd hr'.symm hk0k
          · rw [upd_other _ _ h2] at hr'; exact ⟨r', h2, hr'⟩
        · rintro ⟨r', h2, hr'⟩; exact ⟨r', by rw [upd_other _ _ h2]; exact hr'⟩
      refine ⟨?_, ?_, ?_, ?_, ?_, ?_, hjw', hjm'⟩
      · intro r'; rw [drop_dedupKeys, hdk2]; exact hdk' r'
      · rw [drop_dedupKeys, hdk2]; exact nodupKeys_aset h.nd r k
      · rw [drop_sentCount, hsc2]; exact h.sc
      · rw [drop_skipFirst, hsk2]; exact h.sk
      · intro s
        unfold dropTrackerIfUnused
        cases hb : (movedState p r k).dedupKeys.any (fun e => e.2 == k0)
        · -- nobody refers to the old key any more: its bucket is dropped and must be empty
          simp only [Bool.false_eq_true, if_false]
          by_cases hsk : s = some k0
          · subst hsk
            simp only [scopeTracker, aget_aerase, if_true, Option.getD_none]
            have hnone : ∀ r', r' ≠ r → σ.scope r' ≠ some k0 := by
              intro r' hne' hsc'
              have := hany.2 (hanyr.2 ⟨r', hne', hsc'⟩)
              rw [hb] at this; simp at this
            have e1 : proj (Spec.moveReq σ.wb r (some k)) (some k0) = [] := by
              apply proj_eq_nil
              intro e he hek
              rcases mem_moveReq.1 he with ⟨he1, hne1⟩ | ⟨h1, _, _⟩
              · exact hnone _ hne1 (by rw [← h.jw e he1, hek])
              · rw [h1] at hek; exact hk0k (Option.some.inj hek).symm
            have e2 : proj (Spec.moveReq σ.ms r (some k)) (some k0) = [] := by
              apply proj_eq_nil
              intro e he hek
              rcases mem_moveReq.1 he with ⟨he1, hne1⟩ | ⟨h1, _, _⟩
              · exact hnone _ hne1 (by rw [← h.jm e he1, hek])
              · rw [h1] at hek; exact hk0k (Option.some.inj hek).symm
            rw [e1, e2]; exact sim_empty
          · have : ({ (movedState p r k) with alts := aerase (movedState p r k).alts k0 } : PeerTracker).scopeTracker s
                = (movedState p r k).scopeTracker s := by
              cases s with
              | none => rfl
              | some k' =>
                simp only [scopeTracker, aget_aerase]
                have : ¬ k0 = k' := fun h2 => hsk (by rw [h2])
                simp [this]
            rw [this]; exact htr2 s
        · simp only [if_true]; exact htr2 s
      · intro k'
        have hrhs : (∃ r', upd σ.scope r (some k) r' = some k') ↔
            (k = k' ∨ ∃ r', r' ≠ r ∧ σ.scope r' = some k') := by
          constructor
          · rintro ⟨r', hr'⟩
            by_cases h2 : r' = r
            · subst h2; simp at hr'; exact Or.inl hr'
            · rw [upd_other _ _ h2] at hr'; exact Or.inr ⟨r', h2, hr'⟩
          · rintro (h1 | ⟨r', h2, hr'⟩)
            · exact ⟨r, by simp [h1]⟩
            · exact ⟨r', by rw [upd_other _ _ h2]; exact hr'⟩
        rw [hrhs]
        unfold dropTrackerIfUnused
        cases hb : (movedState p r k).dedupKeys.any (fun e => e.2 == k0)
        · simp only [Bool.false_eq_true, if_false, aget_aerase]
          have hnone : ¬ ∃ r', r' ≠ r ∧ σ.scope r' = some k0 := by
            intro hex
            have := hany.2 (hanyr.2 hex)
            rw [hb] at this; simp at this
          by_cases hkk : k0 = k'
          · subst hkk
            simp only [if_true, Option.isSome_none, Bool.false_eq_true, false_iff]
            rintro (h1 | h1)
            · exact hk0k h1.symm
            · exact hnone h1
          · simp only [hkk, if_false]
            rw [hal2 k']
            simp only [Bool.or_eq_true, decide_eq_true_eq]
            apply or_congr Iff.rfl
            rw [h.al k']
            constructor
            · rintro ⟨r', hr'⟩
              refine ⟨r', ?_, hr'⟩
              intro h2; rw [h2, hs0] at hr'; exact hkk (Option.some.inj hr')
            · rintro ⟨r', _, hr'⟩; exact ⟨r', hr'⟩
        · simp only [if_true]
          rw [hal2 k']
          simp only [Bool.or_eq_true, decide_eq_true_eq]
          apply or_congr Iff.rfl
          rw [h.al k']
          constructor
          · rintro ⟨r', hr'⟩
            by_cases h2 : r' = r
            · subst h2
              rw [hs0] at hr'
              have hkk : k0 = k' := Option.some.inj hr'
              subst hkk
              exact hanyr.1 (hany.1 hb)
            · exact ⟨r', h2, hr'⟩
          · rintro ⟨r', _, hr'⟩; exact ⟨r', hr'⟩

/-! ### whole histories -/

theorem step_refines {p : PeerTracker} {σ : Spec} (h : R p σ) (o : Op) :
    R (step p o).1 (σ.step o).1 ∧ (step p o).2 = (σ.step o).2 := by
  cases o with
  | dedup r k => exact ⟨R_setDedup h r k, rfl⟩
  | ignore r ls => exact ⟨R_ignore h r ls, rfl⟩
  | skip r n => exact ⟨R_skip h r n, rfl⟩
  | trav r l b => exact R_trav h r l b
  | finish r =>
    have := R_finish h r
    exact ⟨this.1, by simp only [step, Spec.step]; rw [this.2]⟩
  | finishErr r =>
    have := R_finish h r
    exact ⟨this.1, by simp only [step, Spec.step]; rw [this.2]⟩
  | clear r =>
    have := R_finish h r
    exact ⟨this.1, by simp only [step, Spec.step]; rw [this.2]⟩

theorem runFrom_refines {p : PeerTracker} {σ : Spec} (h : R p σ) (ops : List Op) :
    R (runFrom p ops).1 (σ.runFrom ops).1 ∧ (runFrom p ops).2 = (σ.runFrom ops).2 := by
  induction ops generalizing p σ with
  | nil => exact ⟨h, rfl⟩
  | cons o os ih =>
    have h1 := step_refines h o
    have h2 := ih h1.1
    simp only [runFrom, Spec.runFrom]
    exact ⟨h2.1, by rw [h1.2, h2.2]⟩

end GS.LinkTrack
