package reqmgr

// Component "reqmgrx": the real RequestManager with the REAL task queue, the real
// executor.Executor (reconciled loader, ipld traversal, block hooks, progress channel) — oracle-only
// stream of property C09 (no Lean-side comparison: the executor's interleaving with the manager is
// not modelled; what is compared is two runs of the real code).
//
// A case is an honest exchange for one or two requests over linear chains of blocks (every genuine
// response carries the next blocks in traversal order), interleaved with responses from other peers
// that carry the live request IDs with arbitrary statuses, metadata, blocks (including exactly the
// blocks the request is waiting for), extensions and hook outcomes.  Each genuine operation states
// what it waits for (`bh=` number of block-hook calls of the request so far, `out=` number of
// messages sent for it so far, `closed`); the waits are event-driven with a watchdog, there is no
// sleeping.  Oracle: the same history without the foreign responses must give, per request, the same
// response-hook log, block-hook log (including the response the hook is shown), outbox, progress
// (which blocks' nodes, in which order), errors and final outcome.

import (
	"bufio"
	"context"
	"fmt"
	"math/rand"
	"sort"
	"strconv"
	"strings"
	"sync"
	"time"

	blocks "github.com/ipfs/go-block-format"
	"github.com/ipfs/go-cid"
	"github.com/ipld/go-ipld-prime"
	"github.com/ipld/go-ipld-prime/datamodel"
	"github.com/ipld/go-ipld-prime/fluent/qp"
	"github.com/ipld/go-ipld-prime/linking"
	cidlink "github.com/ipld/go-ipld-prime/linking/cid"
	"github.com/ipld/go-ipld-prime/node/basicnode"
	"github.com/ipld/go-ipld-prime/storage/memstore"
	"github.com/libp2p/go-libp2p/core/peer"

	"github.com/ipfs/go-graphsync"
	"github.com/ipfs/go-graphsync/listeners"
	gsmsg "github.com/ipfs/go-graphsync/message"
	"github.com/ipfs/go-graphsync/messagequeue"
	"github.com/ipfs/go-graphsync/persistenceoptions"
	"github.com/ipfs/go-graphsync/requestmanager"
	"github.com/ipfs/go-graphsync/requestmanager/executor"
	"github.com/ipfs/go-graphsync/requestmanager/hooks"
	"github.com/ipfs/go-graphsync/taskqueue"

	"verifharness/reg"
)

func init() {
	reg.Register(&reg.Component{Name: "reqmgrx", Gen: GenX, Run: RunX})
}

const maxChainX = 5

var (
	chainOnce sync.Once
	chainBlks [maxChainX + 1][]blocks.Block // chainBlks[L][i]: block i of the chain of length L
	chainIdx  = map[string][2]int{}         // cid -> (L, i)
)

func chains() {
	fixtures()
	chainOnce.Do(func() {
		st := &memstore.Store{}
		lsys := cidlink.DefaultLinkSystem()
		lsys.SetWriteStorage(st)
		lsys.SetReadStorage(st)
		lp := cidlink.LinkPrototype{Prefix: cid.Prefix{Version: 1, Codec: 0x71, MhType: 0x12, MhLength: 32}}
		for l := 1; l <= maxChainX; l++ {
			chainBlks[l] = make([]blocks.Block, l)
			var next ipld.Link
			for i := l - 1; i >= 0; i-- {
				n, err := qp.BuildMap(basicnode.Prototype.Map, -1, func(ma datamodel.MapAssembler) {
					qp.MapEntry(ma, "v", qp.Int(int64(l*1000+i)))
					if next != nil {
						qp.MapEntry(ma, "next", qp.Link(next))
					}
				})
				if err != nil {
					panic(err)
				}
				lnk, err := lsys.Store(linking.LinkContext{}, lp, n)
				if err != nil {
					panic(err)
				}
				c := lnk.(cidlink.Link).Cid
				data, _ := st.Get(context.Background(), c.KeyString())
				b, _ := blocks.NewBlockWithCid(data, c)
				chainBlks[l][i] = b
				chainIdx[c.KeyString()] = [2]int{l, i}
				next = lnk
			}
		}
	})
}

type xreq struct {
	r, p, l  int
	mu       sync.Mutex
	progress []string // block index of every delivered node ("?" if none)
	errs     []string
	closed   chan struct{}
	rhLog    []string
	bhLog    []string
	outLog   []string
	lateLog  []string // response-hook calls / updates for peers other than p after the request has ended
	bhScript string   // outcome of the next block-hook calls: set by the genuine response that carries blocks
	bhFired  bool
	progSig  chan struct{}
}

type xworld struct {
	ctx    context.Context
	stop   context.CancelFunc
	rm     *requestmanager.RequestManager
	tq     *taskqueue.WorkerTaskQueue
	mu     sync.Mutex
	reqs   map[int]*xreq
	script map[[2]int]string
	sig    chan struct{}
	cmLog  []string
	stuck  string
}

func (w *xworld) bump() {
	select {
	case w.sig <- struct{}{}:
	default:
	}
}

func (w *xworld) req(r int) *xreq {
	w.mu.Lock()
	defer w.mu.Unlock()
	return w.reqs[r]
}

type xPeerHandler struct{ w *xworld }

func (ph *xPeerHandler) AllocateAndBuildMessage(p peer.ID, blkSize uint64, fn func(*messagequeue.Builder)) {
	b := messagequeue.NewBuilder(context.Background(), messagequeue.Topic(0))
	fn(b)
	msg, err := b.Build()
	if err != nil {
		panic(err)
	}
	for _, rq := range msg.Requests() {
		k := "?"
		switch rq.Type() {
		case graphsync.RequestTypeNew:
			k = "n"
			if _, has := rq.Extension(graphsync.ExtensionsDoNotSendFirstBlocks); has {
				k = "n+skip"
			}
		case graphsync.RequestTypeCancel:
			k = "c"
		case graphsync.RequestTypeUpdate:
			k = "u"
		}
		if x := ph.w.req(reqNum(rq.ID())); x != nil {
			x.mu.Lock()
			if peerNum(p) != x.p && k == "u" && isClosed(x) {
				x.lateLog = append(x.lateLog, fmt.Sprintf("out:%d.u", peerNum(p)))
			} else {
				x.outLog = append(x.outLog, fmt.Sprintf("%d.%s", peerNum(p), k))
			}
			x.mu.Unlock()
		}
	}
	ph.w.bump()
}

type xConnMgr struct{ w *xworld }

func (c *xConnMgr) Protect(p peer.ID, tag string) {
	c.w.mu.Lock()
	c.w.cmLog = append(c.w.cmLog, fmt.Sprintf("+%d.%s", peerNum(p), tag[len(tag)-4:]))
	c.w.mu.Unlock()
}
func (c *xConnMgr) Unprotect(p peer.ID, tag string) bool {
	c.w.mu.Lock()
	c.w.cmLog = append(c.w.cmLog, fmt.Sprintf("-%d.%s", peerNum(p), tag[len(tag)-4:]))
	c.w.mu.Unlock()
	return false
}

func newXWorld() *xworld {
	chains()
	w := &xworld{reqs: map[int]*xreq{}, script: map[[2]int]string{}, sig: make(chan struct{}, 1)}
	w.ctx, w.stop = context.WithCancel(context.Background())
	store := &memstore.Store{}
	lsys := cidlink.DefaultLinkSystem()
	lsys.SetReadStorage(store)
	lsys.SetWriteStorage(store)
	lsys.TrustedStorage = true
	rh := hooks.NewResponseHooks()
	rh.Register(func(p peer.ID, rd graphsync.ResponseData, ha graphsync.IncomingResponseHookActions) {
		pn, rn := peerNum(p), reqNum(rd.RequestID())
		w.mu.Lock()
		sc := w.script[[2]int{pn, rn}]
		x := w.reqs[rn]
		w.mu.Unlock()
		if x != nil {
			x.mu.Lock()
			if pn != x.p && isClosed(x) {
				x.lateLog = append(x.lateLog, fmt.Sprintf("hook:%d.%d", pn, int(rd.Status())))
			} else {
				x.rhLog = append(x.rhLog, fmt.Sprintf("%d.%d", pn, int(rd.Status())))
			}
			x.mu.Unlock()
		}
		if strings.Contains(sc, "x") {
			ha.UpdateRequestWithExtensions(updData)
		}
		if strings.Contains(sc, "e") {
			ha.TerminateWithError(errHook)
		}
	})
	bh := hooks.NewBlockHooks()
	bh.Register(func(p peer.ID, rd graphsync.ResponseData, b graphsync.BlockData, ha graphsync.IncomingBlockHookActions) {
		x := w.req(reqNum(rd.RequestID()))
		if x == nil {
			return
		}
		idx := "?"
		if li, ok := chainIdx[b.Link().(cidlink.Link).Cid.KeyString()]; ok {
			idx = strconv.Itoa(li[1])
		}
		ext := ""
		if _, has := rd.Extension(extData.Name); has {
			ext = "x"
		}
		x.mu.Lock()
		x.bhLog = append(x.bhLog, fmt.Sprintf("%d.b%s.last=%d%s", peerNum(p), idx, int(rd.Status()), ext))
		sc := ""
		if !x.bhFired {
			sc, x.bhFired = x.bhScript, true
		}
		x.mu.Unlock()
		switch sc {
		case "x":
			ha.UpdateRequestWithExtensions(updData)
		case "e":
			// fail only once the nodes of this block have been delivered (the traversal emits them
			// concurrently with the hook; failing earlier would make their delivery a race)
			if i, err := strconv.Atoi(idx); err == nil {
				w.waitProgress(x, nodesPerBlock*(i+1))
			}
			ha.TerminateWithError(errExec)
		}
		w.bump()
	})
	w.tq = taskqueue.NewTaskQueue(w.ctx)
	w.rm = requestmanager.New(w.ctx, persistenceoptions.New(), lsys, hooks.NewRequestHooks(), rh,
		listeners.NewNetworkErrorListeners(), listeners.NewRequestProcessingListeners(), w.tq, &xConnMgr{w}, 0, nil)
	ex := executor.NewExecutor(w.rm, bh)
	w.rm.SetDelegate(&xPeerHandler{w})
	w.rm.Startup()
	w.tq.Startup(4, ex)
	return w
}

func (w *xworld) close() {
	w.rm.Shutdown()
	w.tq.Shutdown()
	w.stop()
}

// waitFor blocks until cond() holds; event-driven (hooks, outbox and channel readers bump w.sig)
func (w *xworld) waitFor(what string, cond func() bool) {
	deadline := time.After(waitLimit)
	for !cond() {
		select {
		case <-w.sig:
		case <-deadline:
			if w.stuck == "" {
				w.stuck = what
			}
			return
		}
	}
}

// every block of a chain contributes exactly two visited nodes (the map and its "v" entry)
const nodesPerBlock = 2

// waitProgress: called from hook goroutines, so it has its own wake-up channel
func (w *xworld) waitProgress(x *xreq, n int) {
	deadline := time.After(waitLimit)
	for {
		x.mu.Lock()
		ok := len(x.progress) >= n
		x.mu.Unlock()
		if ok {
			return
		}
		select {
		case <-x.progSig:
		case <-deadline:
			return
		}
	}
}

func (w *xworld) barrier() {
	for p := 0; p < nPeers; p++ {
		w.rm.PeerState(pid(p))
	}
}

func isClosed(x *xreq) bool {
	select {
	case <-x.closed:
		return true
	default:
		return false
	}
}

// doX executes one op; returns false for unparsable lines
func (w *xworld) doX(op []string) bool {
	kv := map[string]string{}
	var pos []string
	for _, t := range op[1:] {
		if i := strings.Index(t, "="); i > 0 {
			kv[t[:i]] = t[i+1:]
		} else if t == "closed" {
			kv["closed"] = "1"
		} else {
			pos = append(pos, t)
		}
	}
	num := func(s string) (int, bool) { v, err := strconv.Atoi(s); return v, err == nil && v >= 0 }
	// every wait ends as soon as the request has terminated: whatever was expected will not come any
	// more, and the final comparison reports the difference
	await := func(x *xreq) {
		if x == nil {
			return
		}
		if v, ok := kv["bh"]; ok {
			n, _ := num(v)
			// … and the nodes of those blocks have arrived on the progress channel
			w.waitFor("block hooks of request "+strconv.Itoa(x.r), func() bool {
				x.mu.Lock()
				defer x.mu.Unlock()
				return isClosed(x) || (len(x.bhLog) >= n && len(x.progress) >= nodesPerBlock*n)
			})
		}
		if v, ok := kv["out"]; ok {
			n, _ := num(v)
			w.waitFor("outbox of request "+strconv.Itoa(x.r), func() bool {
				x.mu.Lock()
				defer x.mu.Unlock()
				return isClosed(x) || len(x.outLog) >= n
			})
		}
		if _, ok := kv["closed"]; ok {
			w.waitFor("termination of request "+strconv.Itoa(x.r), func() bool { return isClosed(x) })
		}
	}
	switch op[0] {
	case "new":
		if len(pos) != 3 {
			return false
		}
		r, ok1 := num(pos[0])
		p, ok2 := num(pos[1])
		l, ok3 := num(pos[2])
		if !ok1 || !ok2 || !ok3 || p >= nPeers || l < 1 || l > maxChainX || w.req(r) != nil {
			return false
		}
		x := &xreq{r: r, p: p, l: l, closed: make(chan struct{}), progSig: make(chan struct{}, 1)}
		w.mu.Lock()
		w.reqs[r] = x
		w.mu.Unlock()
		ctx := context.WithValue(w.ctx, graphsync.RequestIDContextKey{}, reqID(r))
		respCh, errCh := w.rm.NewRequest(ctx, pid(p), cidlink.Link{Cid: chainBlks[l][0].Cid()}, selAll)
		go func() {
			var wg sync.WaitGroup
			wg.Add(2)
			go func() {
				defer wg.Done()
				for pr := range respCh {
					s := "?"
					if pr.LastBlock.Link != nil {
						if li, ok := chainIdx[pr.LastBlock.Link.(cidlink.Link).Cid.KeyString()]; ok {
							s = strconv.Itoa(li[1])
						}
					}
					x.mu.Lock()
					x.progress = append(x.progress, s)
					x.mu.Unlock()
					select {
					case x.progSig <- struct{}{}:
					default:
					}
					w.bump()
				}
			}()
			go func() {
				defer wg.Done()
				for err := range errCh {
					x.mu.Lock()
					if _, missing := err.(graphsync.RemoteMissingBlockErr); missing {
						x.errs = append(x.errs, "missing")
					} else {
						x.errs = append(x.errs, errName(err))
					}
					x.mu.Unlock()
				}
			}()
			wg.Wait()
			close(x.closed)
			w.bump()
		}()
		await(x)
		w.barrier()
		return true
	case "resp":
		// resp <q> <r>:<status>:<from>:<count>:<ext>:<hook> [bhs=<n|x|e>] [bh=N] [out=N] [closed]
		if len(pos) != 2 {
			return false
		}
		q, ok := num(pos[0])
		t, ok2 := parseResp(pos[1])
		if !ok || !ok2 {
			return false
		}
		x := w.req(t.id)
		l := 1
		if x != nil {
			l = x.l
			if sc, has := kv["bhs"]; has {
				x.mu.Lock()
				x.bhScript, x.bhFired = sc, false
				x.mu.Unlock()
			}
		}
		var md []gsmsg.GraphSyncLinkMetadatum
		var blks []blocks.Block
		for i := t.first; i < t.first+t.count && i < l; i++ {
			b := chainBlks[l][i]
			md = append(md, gsmsg.GraphSyncLinkMetadatum{Link: b.Cid(), Action: graphsync.LinkActionPresent})
			blks = append(blks, b)
		}
		var exts []graphsync.ExtensionData
		if t.ext {
			exts = append(exts, extData)
		}
		w.mu.Lock()
		w.script[[2]int{q, t.id}] = t.hook
		w.mu.Unlock()
		w.rm.ProcessResponses(pid(q), []gsmsg.GraphSyncResponse{gsmsg.NewResponse(reqID(t.id), graphsync.ResponseStatusCode(t.status), md, exts...)}, blks)
		w.barrier()
		await(x)
		w.barrier()
		return true
	case "cancel":
		if len(pos) != 1 {
			return false
		}
		r, ok := num(pos[0])
		if !ok {
			return false
		}
		done := make(chan struct{})
		go func() { _ = w.rm.CancelRequest(w.ctx, reqID(r)); close(done); w.bump() }()
		w.waitFor("CancelRequest", func() bool {
			select {
			case <-done:
				return true
			default:
				return false
			}
		})
		await(w.req(r))
		w.barrier()
		return true
	}
	return false
}

func (w *xworld) late(x *xreq) []string {
	x.mu.Lock()
	defer x.mu.Unlock()
	return append([]string{}, x.lateLog...)
}

func (w *xworld) summary(x *xreq) string {
	x.mu.Lock()
	defer x.mu.Unlock()
	st := "live"
	if isClosed(x) {
		st = "closed"
	}
	return fmt.Sprintf("r%d %s rh=[%s] bh=[%s] out=[%s] prog=[%s] err=[%s]", x.r, st, strings.Join(x.rhLog, ","), strings.Join(x.bhLog, ","),
		strings.Join(x.outLog, ","), strings.Join(x.progress, ""), strings.Join(x.errs, ","))
}

// runX: executes the history, then cancels whatever is still live and waits for it to close.
// Returns per-request summaries, the conn-manager log and what (if anything) the run got stuck on.
func runX(ops [][]string) (lines []string, sums map[int]string, cm string, stuck string, late map[int][]string) {
	late = map[int][]string{}
	w := newXWorld()
	defer w.close()
	for _, op := range ops {
		if w.stuck != "" {
			lines = append(lines, "stuck")
			continue
		}
		if !w.doX(op) {
			lines = append(lines, "bad-op")
			continue
		}
		lines = append(lines, "ok")
	}
	sums = map[int]string{}
	w.mu.Lock()
	rs := make([]int, 0, len(w.reqs))
	for r := range w.reqs {
		rs = append(rs, r)
	}
	w.mu.Unlock()
	sort.Ints(rs)
	for _, r := range rs {
		x := w.req(r)
		if !isClosed(x) && w.stuck == "" {
			go func() { _ = w.rm.CancelRequest(w.ctx, reqID(r)) }()
			w.waitFor("final cancel of request "+strconv.Itoa(r), func() bool { return isClosed(x) })
		}
		sums[r] = w.summary(x)
		late[r] = w.late(x)
	}
	w.barrier()
	w.mu.Lock()
	cm = strings.Join(w.cmLog, ",")
	w.mu.Unlock()
	return lines, sums, cm, w.stuck, late
}

func RunX(cases []reg.Case, out *reg.Out) {
	for _, c := range cases {
		out.BeginCase(c)
		lines, sums, cm, stuck, late := runX(c.Ops)
		for i, l := range lines {
			out.Cov("op." + c.Ops[i][0])
			out.Line("%s", l)
		}
		{
			rs := make([]int, 0, len(sums))
			for r := range sums {
				rs = append(rs, r)
			}
			sort.Ints(rs)
			for _, r := range rs {
				fmt.Fprintf(out.W, "#sum case=%s %s\n", c.ID, sums[r])
			}
		}
		owner := map[int]int{}
		for _, op := range c.Ops {
			if op[0] == "new" && len(op) >= 3 {
				r, _ := strconv.Atoi(op[1])
				p, _ := strconv.Atoi(op[2])
				if _, dup := owner[r]; !dup {
					owner[r] = p
				}
			}
		}
		// the reference run: the same history without the responses from peers a request was not sent to
		var ops2 [][]string
		nForeign := 0
		for i, op := range c.Ops {
			if op[0] == "resp" && lines[i] == "ok" {
				q, _ := strconv.Atoi(op[1])
				t, _ := parseResp(op[2])
				if p, known := owner[t.id]; known && p != q {
					nForeign++
					out.Cov("foreign.status." + strconv.Itoa(t.status))
					if t.count > 0 {
						out.Cov("foreign.with-blocks")
					}
					continue
				}
			}
			ops2 = append(ops2, op)
		}
		for r, l := range late {
			if len(l) > 0 {
				out.Cov("foreign.after-end.hook")
				out.Fail("hook-after-request-ended", "request %d (sent to peer %d) had already ended; responses from other peers carrying its ID still reach the response hook: %v", r, owner[r], l)
			}
		}
		if stuck != "" {
			out.Fail("c09-effect", "run with third-peer responses got stuck waiting for %s (requests: %v)", stuck, sums)
		}
		if nForeign == 0 {
			continue
		}
		_, ref, cm2, stuck2, _ := runX(ops2)
		out.Cov("oracle.differential-runs")
		if stuck2 != "" {
			out.Fail("harness-expectation", "the honest history itself got stuck waiting for %s: the case's expectations are wrong", stuck2)
			continue
		}
		rs := make([]int, 0, len(sums))
		for r := range sums {
			rs = append(rs, r)
		}
		sort.Ints(rs)
		for _, r := range rs {
			if sums[r] != ref[r] {
				cls := "c09-effect"
				switch {
				case field(sums[r], "rh=") != field(ref[r], "rh=") || field(sums[r], "bh=") != field(ref[r], "bh="):
					cls = "c09-hook"
				case field(sums[r], "out=") != field(ref[r], "out="):
					cls = "c09-outbox"
				}
				out.Fail(cls, "request %d (sent to peer %d): with third-peer responses [%s], without [%s]", r, owner[r], sums[r], ref[r])
			}
		}
		if cm != cm2 {
			out.Fail("c09-effect", "connection manager log differs: [%s] vs [%s]", cm, cm2)
		}
	}
}

func field(s, key string) string {
	i := strings.Index(s, key)
	if i < 0 {
		return ""
	}
	j := strings.Index(s[i:], "]")
	if j < 0 {
		return s[i:]
	}
	return s[i : i+j+1]
}

// ---------------------------------------------------------------- generator

var foreignStatuses = []int{10, 14, 15, 20, 21, 30, 31, 32, 34, 35, 99}

func genCaseX(r *rand.Rand, w *bufio.Writer, name string) {
	fmt.Fprintf(w, "case %s\n", name)
	type st struct {
		r, p, l  int
		consumed int
		bh, out  int
		done     bool
		variant  string
	}
	nreq := 1 + r.Intn(2)
	var reqs []*st
	variants := []string{"complete", "complete", "partial-steps", "fail-status", "hook-error", "blockhook-error", "blockhook-ext", "client-cancel", "hook-ext"}
	for i := 0; i < nreq; i++ {
		reqs = append(reqs, &st{r: i + 1, p: r.Intn(nPeers), l: 1 + r.Intn(maxChainX), variant: variants[r.Intn(len(variants))]})
	}
	foreign := func() {
		v := reqs[r.Intn(len(reqs))]
		q := (v.p + 1 + r.Intn(nPeers-1)) % nPeers
		from, count := r.Intn(v.l), r.Intn(3)
		if r.Intn(2) == 0 { // exactly the blocks the request is waiting for
			from, count = v.consumed, 1+r.Intn(2)
		}
		fmt.Fprintf(w, "resp %d %d:%d:%d:%d:%d:%s\n", q, v.r, foreignStatuses[r.Intn(len(foreignStatuses))], from, count, r.Intn(2), hookRes[r.Intn(len(hookRes))])
	}
	maybeForeign := func() {
		for r.Intn(100) < 55 {
			foreign()
		}
	}
	for _, v := range reqs {
		v.out = 1
		fmt.Fprintf(w, "new %d %d %d out=1\n", v.r, v.p, v.l)
		maybeForeign()
	}
	for steps := 0; steps < 12; steps++ {
		var live []*st
		for _, v := range reqs {
			if !v.done {
				live = append(live, v)
			}
		}
		if len(live) == 0 {
			break
		}
		v := live[r.Intn(len(live))]
		remaining := v.l - v.consumed
		last := remaining <= 1 || r.Intn(3) == 0
		switch {
		case v.variant == "client-cancel" && (v.consumed > 0 || r.Intn(2) == 0):
			v.out++
			fmt.Fprintf(w, "cancel %d out=%d closed\n", v.r, v.out)
			v.done = true
		case v.variant == "fail-status" && (v.consumed > 0 || r.Intn(2) == 0):
			fmt.Fprintf(w, "resp %d %d:%d:%d:0:0:n closed\n", v.p, v.r, []int{30, 31, 32, 34, 35}[r.Intn(5)], v.consumed)
			v.done = true
		case v.variant == "hook-error" && (v.consumed > 0 || r.Intn(2) == 0):
			v.out++
			fmt.Fprintf(w, "resp %d %d:14:%d:0:1:e out=%d closed\n", v.p, v.r, v.consumed, v.out)
			v.done = true
		case v.variant == "hook-ext" && r.Intn(2) == 0:
			v.out++
			fmt.Fprintf(w, "resp %d %d:14:%d:0:1:x out=%d\n", v.p, v.r, v.consumed, v.out)
		case v.variant == "blockhook-error" && remaining > 0:
			// the first block of this message makes the block hook fail: the executor sends a cancel,
			// reports the error and releases the task
			v.bh++
			v.out++
			fmt.Fprintf(w, "resp %d %d:14:%d:1:0:n bhs=e bh=%d out=%d closed\n", v.p, v.r, v.consumed, v.bh, v.out)
			v.done = true
		case last:
			// everything that is left, with a success status: the traversal completes
			v.bh += remaining
			ext := ""
			if v.variant == "blockhook-ext" && remaining > 0 {
				v.out++
				ext = fmt.Sprintf(" bhs=x out=%d", v.out)
			}
			fmt.Fprintf(w, "resp %d %d:20:%d:%d:%d:n%s bh=%d closed\n", v.p, v.r, v.consumed, remaining, r.Intn(2), ext, v.bh)
			v.consumed = v.l
			v.done = true
		default:
			k := 1 + r.Intn(remaining-1)
			v.bh += k
			fmt.Fprintf(w, "resp %d %d:14:%d:%d:%d:n bh=%d\n", v.p, v.r, v.consumed, k, r.Intn(2), v.bh)
			v.consumed += k
		}
		maybeForeign()
	}
}

func GenX(seed int64, n int, tier string, w *bufio.Writer) {
	r := rand.New(rand.NewSource(seed))
	for i := 0; i < n; i++ {
		genCaseX(r, w, fmt.Sprintf("e%d", i))
	}
}
