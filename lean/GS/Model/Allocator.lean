/-
Model of /repo/allocator/allocator.go (core Lean only).

Mirrors the Go code function by function:
  AllocateBlockMemory  -> alloc
  ReleaseBlockMemory   -> release
  ReleasePeerMemory    -> releasePeer
  processPendingAllocations / processNextPendingAllocationForPeer -> processPending
                           (= iteration of `loopStep`, one pass of the `for` loop)
  makePeerStatusCompare -> PeerSt.lt   (the priority queue is modelled as "peek returns
                           a comparator-minimal element": every function that uses Peek takes a
                           `pick : Pick` argument; the executable instance is `pickMin`)
  Stats / AllocatedForPeer -> stats / allocatedFor

uint64 arithmetic: every `+` that can wrap in Go goes through `add64`.
-/
namespace GS.Alloc

def W : Nat := 2 ^ 64

/-- Go's `uint64 + uint64`. -/
def add64 (a b : Nat) : Nat := (a + b) % W

structure Pending where
  amount : Nat
  idx    : Nat      -- allocIndex
  ticket : Nat      -- identity of the response channel (harness-assigned)
deriving Repr, DecidableEq

structure PeerSt where
  id      : Nat
  total   : Nat
  pending : List Pending
deriving Repr, DecidableEq

structure State where
  maxTotal : Nat
  maxPeer  : Nat
  total    : Nat := 0
  nextIdx  : Nat := 0
  peers    : List PeerSt := []     -- the map peerStatuses (ids unique)
deriving Repr

inductive Event where
  | granted (peer ticket amount : Nat)
  | failed  (peer ticket : Nat)
  | released (peer actual : Nat)         -- bytes actually subtracted from the peer
  | errNoPeer
deriving Repr, DecidableEq

def init (maxTotal maxPeer : Nat) : State := { maxTotal, maxPeer }

def findPeer (ps : List PeerSt) (p : Nat) : Option PeerSt := ps.find? (·.id == p)

def setPeer (ps : List PeerSt) (st : PeerSt) : List PeerSt :=
  ps.map fun q => if q.id == st.id then st else q

def erasePeer (ps : List PeerSt) (p : Nat) : List PeerSt := ps.filter (·.id != p)

def allocatedFor (s : State) (p : Nat) : Nat :=
  match findPeer s.peers p with
  | some st => st.total
  | none => 0

/-- Go `fits(current, amount, max)`: `current <= max && amount <= max-current`
    (overflow-free form of `current+amount <= max`). -/
def fits (current amount max : Nat) : Bool := decide (current ≤ max) && decide (amount ≤ max - current)

/-- head allocation of a peer fits its own per-peer limit. -/
def headFitsPeer (maxPeer : Nat) (st : PeerSt) : Bool :=
  match st.pending with
  | [] => false
  | h :: _ => fits st.total h.amount maxPeer

/-- makePeerStatusCompare: `lt a b` = "a sorts strictly before b". -/
def PeerSt.lt (maxPeer : Nat) (a b : PeerSt) : Bool :=
  match a.pending, b.pending with
  | [], [] => decide (a.total < b.total)
  | [], _ :: _ => false
  | _ :: _, [] => true
  | ha :: _, hb :: _ =>
    if !fits a.total ha.amount maxPeer then false
    else if !fits b.total hb.amount maxPeer then true
    else decide (ha.idx < hb.idx)

/-- The priority queue's `Peek`, abstractly: any function from (maxPeer, peers) to a peer.
    The proofs only assume `Admissible` (GSProofs/Lemmas/AllocatorBasic.lean): it returns `none`
    only on the empty list, and otherwise a member that no other member sorts strictly before. -/
abbrev Pick := Nat → List PeerSt → Option PeerSt

/-- Executable `Peek`: a comparator-minimal element (first minimal in list order). -/
def pickMin : Pick
  | _, [] => none
  | maxPeer, a :: rest =>
    match pickMin maxPeer rest with
    | none => some a
    | some b => if PeerSt.lt maxPeer b a then some b else some a

/-- the `status, ok := a.peerStatuses[p]; if !ok { ... }` prologue of AllocateBlockMemory. -/
def getOrNew (ps : List PeerSt) (p : Nat) : PeerSt × List PeerSt :=
  match findPeer ps p with
  | some st => (st, ps)
  | none =>
    let st : PeerSt := { id := p, total := 0, pending := [] }
    (st, ps ++ [st])

def alloc (s : State) (p amount ticket : Nat) : State × List Event :=
  let r := getOrNew s.peers p
  let st := r.1
  let peers := r.2
  if fits s.total amount s.maxTotal && fits st.total amount s.maxPeer && st.pending.isEmpty then
    let st' := { st with total := add64 st.total amount }
    ({ s with total := add64 s.total amount, peers := setPeer peers st' },
     [Event.granted p ticket amount])
  else
    let st' := { st with pending := st.pending ++ [{ amount, idx := s.nextIdx, ticket }] }
    ({ s with nextIdx := s.nextIdx + 1, peers := setPeer peers st' }, [])

/-- One iteration of the `for` loop of processPendingAllocations (with
    processNextPendingAllocationForPeer inlined). `none` = the loop returns / its condition fails. -/
def loopStep (pick : Pick) (s : State) : Option (State × List Event) :=
  match pick s.maxPeer s.peers with
  | none => none
  | some np =>
    match np.pending with
    | h :: rest =>
      if !fits s.total h.amount s.maxTotal then none
      else if !fits np.total h.amount s.maxPeer then none
      else
        let np' := { np with total := add64 np.total h.amount, pending := rest }
        some ({ s with total := add64 s.total h.amount, peers := setPeer s.peers np' },
              [Event.granted np.id h.ticket h.amount])
    | [] =>
      if np.total > 0 then none
      else some ({ s with peers := erasePeer s.peers np.id }, [])

/-- processPendingAllocations, with explicit fuel. -/
def processPendingFuel (pick : Pick) : Nat → State → State × List Event
  | 0, s => (s, [])
  | fuel + 1, s =>
    match loopStep pick s with
    | none => (s, [])
    | some (s', evs) =>
      let r := processPendingFuel pick fuel s'
      (r.1, evs ++ r.2)

def pendingCount (ps : List PeerSt) : Nat := (ps.map (·.pending.length)).sum

/-- every iteration either grants one pending allocation or removes one peer
    (sufficiency is proved: `GS.Alloc.processPending_rec`). -/
def fuelFor (s : State) : Nat := pendingCount s.peers + s.peers.length + 1

def processPending (pick : Pick) (s : State) : State × List Event :=
  processPendingFuel pick (fuelFor s) s

/-- ReleaseBlockMemory up to (excluding) the call of processPendingAllocations. -/
def releaseCore (s : State) (p amount : Nat) : Option (State × Event) :=
  match findPeer s.peers p with
  | none => none
  | some st =>
    let actual := if st.total ≥ amount then amount else st.total
    let st' := { st with total := st.total - actual }
    let total' := if s.total ≥ actual then s.total - actual else 0
    some ({ s with total := total', peers := setPeer s.peers st' }, Event.released p actual)

def release (pick : Pick) (s : State) (p amount : Nat) : State × List Event :=
  match releaseCore s p amount with
  | none => (s, [Event.errNoPeer])
  | some (s1, ev) =>
    let r := processPending pick s1
    (r.1, ev :: r.2)

/-- ReleasePeerMemory up to (excluding) the call of processPendingAllocations. -/
def releasePeerCore (s : State) (p : Nat) : Option (State × List Event) :=
  match findPeer s.peers p with
  | none => none
  | some st =>
    let fails := st.pending.map fun pa => Event.failed p pa.ticket
    let total' := if s.total ≥ st.total then s.total - st.total else 0
    some ({ s with total := total', peers := erasePeer s.peers p }, Event.released p st.total :: fails)

def releasePeer (pick : Pick) (s : State) (p : Nat) : State × List Event :=
  match releasePeerCore s p with
  | none => (s, [Event.errNoPeer])
  | some (s1, evs) =>
    let r := processPending pick s1
    (r.1, evs ++ r.2)

structure Stats where
  totalAllocated : Nat
  totalPending   : Nat
  peersPending   : Nat
deriving Repr, DecidableEq

def peerPendingBytes (st : PeerSt) : Nat := (st.pending.map (·.amount)).foldl add64 0

def stats (s : State) : Stats :=
  let withPending := s.peers.filter fun st => peerPendingBytes st > 0
  { totalAllocated := s.total
    totalPending := (withPending.map peerPendingBytes).foldl add64 0
    peersPending := withPending.length }

inductive Op where
  | alloc (p amount ticket : Nat)
  | release (p amount : Nat)
  | releasePeer (p : Nat)
deriving Repr, DecidableEq

def step (pick : Pick) (s : State) : Op → State × List Event
  | .alloc p a t => alloc s p a t
  | .release p a => release pick s p a
  | .releasePeer p => releasePeer pick s p

/-- run a whole history, collecting events. -/
def run (pick : Pick) (s : State) : List Op → State × List Event
  | [] => (s, [])
  | op :: ops =>
    let r1 := step pick s op
    let r2 := run pick r1.1 ops
    (r2.1, r1.2 ++ r2.2)

/-- the pending list of peer `p` (empty if the peer has no entry). -/
def pendingOf (s : State) (p : Nat) : List Pending :=
  match findPeer s.peers p with
  | some st => st.pending
  | none => []

end GS.Alloc
