import GSProofs.Lemmas.MsgQueueLedger
/-!
# Message queue: notifications per (subscriber, topic) and wire order — primitives
-/
namespace GS.MQ

/-- the kinds delivered to subscriber `u` on topic `t`, in order -/
def seqOf (u : Sub) (t : Topic) : List Event → List Kind
  | [] => []
  | .notify u' t' k :: r => if u' = u ∧ t' = t then k :: seqOf u t r else seqOf u t r
  | _ :: r => seqOf u t r

/-- topics of the messages handed to the network for the first time, in order -/
def wiresOf : List Event → List Nat
  | [] => []
  | .wire t 0 :: r => (t : Nat) :: wiresOf r
  | _ :: r => wiresOf r

def isNote : Event → Bool
  | .notify _ _ _ => true
  | _ => false

def isWire0 : Event → Bool
  | .wire _ 0 => true
  | _ => false

theorem seqOf_append (u : Sub) (t : Topic) (a b : List Event) : seqOf u t (a ++ b) = seqOf u t a ++ seqOf u t b := by
  induction a with
  | nil => rfl
  | cons e r ih =>
    cases e <;> simp only [List.cons_append, seqOf, ih]
    split <;> simp

theorem wiresOf_append (a b : List Event) : wiresOf (a ++ b) = wiresOf a ++ wiresOf b := by
  induction a with
  | nil => rfl
  | cons e r ih =>
    cases e with
    | wire t i => cases i <;> simp [wiresOf, ih]
    | _ => simp [wiresOf, ih]

theorem seqOf_nonote (u : Sub) (t : Topic) (l : List Event) (h : ∀ e ∈ l, isNote e = false) : seqOf u t l = [] := by
  induction l with
  | nil => rfl
  | cons e r ih =>
    have hr := ih (fun x hx => h x (List.mem_cons_of_mem _ hx))
    cases e with
    | notify a b c => have := h _ (List.mem_cons_self); simp [isNote] at this
    | _ => simpa [seqOf] using hr

theorem wiresOf_nowire (l : List Event) (h : ∀ e ∈ l, isWire0 e = false) : wiresOf l = [] := by
  induction l with
  | nil => rfl
  | cons e r ih =>
    have hr := ih (fun x hx => h x (List.mem_cons_of_mem _ hx))
    cases e with
    | wire t i =>
      cases i with
      | zero => have := h _ (List.mem_cons_self); simp [isWire0] at this
      | succ n => simpa [wiresOf] using hr
    | _ => simpa [wiresOf] using hr

/-- notifications of one kind on one topic to a duplicate-free subscriber list -/
theorem seqOf_notify_map (u : Sub) (t t' : Topic) (k : Kind) : ∀ (U : List Sub), U.Nodup →
    seqOf u t (U.map fun x => Event.notify x t' k) = if t' = t ∧ u ∈ U then [k] else []
  | [], _ => by simp [seqOf]
  | x :: r, hn => by
    simp only [List.nodup_cons] at hn
    simp only [List.map_cons, seqOf, seqOf_notify_map u t t' k r hn.2]
    by_cases ht : t' = t
    · by_cases hx : x = u
      · subst hx
        have : x ∉ r := hn.1
        simp [ht, this]
      · by_cases hu : u ∈ r
        · have : ¬ (x = u ∧ t' = t) := fun h => hx h.1
          simp [ht, hu, hx]
        · have hne : ¬ u = x := fun e => hx e.symm
          simp [ht, hu, hx, hne]
    · simp [ht]

theorem wiresOf_notify_map (t : Topic) (k : Kind) (U : List Sub) :
    wiresOf (U.map fun x => Event.notify x t k) = [] := by
  apply wiresOf_nowire
  intro e he
  obtain ⟨x, _, rfl⟩ := List.mem_map.mp he
  rfl

theorem insertSub_nodup (l : List Sub) (u : Sub) (h : l.Nodup) : (insertSub l u).Nodup := by
  unfold insertSub
  split
  · exact h
  · next hc =>
    rw [List.nodup_append]
    refine ⟨h, by simp, ?_⟩
    intro a ha b hb
    simp at hb; subst hb
    intro hab; subst hab
    apply hc; simp [ha]

theorem foldl_insertSub_nodup (subs : List Sub) (init : List Sub) (h : init.Nodup) :
    (subs.foldl insertSub init).Nodup := by
  induction subs generalizing init with
  | nil => exact h
  | cons x r ih => exact ih _ (insertSub_nodup _ _ h)

/-! ## the publisher primitives on a state whose publisher is running -/

theorem aget_single {α : Type} (t : Nat) (v : α) : aget [(t, v)] t = some v := by simp [aget]

theorem publish_log {s : State} (hp : s.pubClosed = false) (t : Topic) (k : Kind) :
    (s.publish t k).log = s.log ++ ((aget s.topics t).getD []).map (fun u => Event.notify u t k) ∧
    (s.publish t k).topics = s.topics ∧ (s.publish t k).pubClosed = false := by
  unfold State.publish; rw [hp]; simp [State.emit, hp]

theorem closeTopic_log {s : State} (hp : s.pubClosed = false) (t : Topic) :
    (s.closeTopic t).log = s.log ++ ((aget s.topics t).getD []).map (fun u => Event.notify u t Kind.close) ∧
    (s.closeTopic t).topics = adel s.topics [t] ∧ (s.closeTopic t).pubClosed = false := by
  unfold State.closeTopic; rw [hp]; simp [State.emit, hp]

theorem subscribe_log {s : State} (hp : s.pubClosed = false) (t : Topic) (subs : List Sub) :
    (s.subscribe t subs).log = s.log ∧
    (s.subscribe t subs).topics = aset s.topics t (subs.foldl insertSub ((aget s.topics t).getD [])) ∧
    (s.subscribe t subs).pubClosed = false := by
  unfold State.subscribe; rw [hp]; simp [hp]

theorem release_log (pick : GS.Alloc.Pick) (s : State) (n : Nat) :
    (∃ X, (s.release pick n).log = s.log ++ X ∧ (∀ e ∈ X, isNote e = false) ∧ (∀ e ∈ X, isWire0 e = false)) ∧
    (s.release pick n).topics = s.topics ∧ (s.release pick n).pubClosed = s.pubClosed := by
  refine ⟨⟨_, rfl, ?_, ?_⟩, rfl, rfl⟩
  · intro e he; obtain ⟨x, _, rfl⟩ := List.mem_map.mp he; rfl
  · intro e he; obtain ⟨x, _, rfl⟩ := List.mem_map.mp he; rfl

end GS.MQ
