import GSProofs.Lemmas.TaskQueueProgress
import GS.Temporal
/-!
Helper lemmas for C21, part 8: how each step changes `M`; the budgeted system used for the
"eventually" theorems (the environment may call PushTask / Remove at most `budget` more times).
-/
namespace GS.TQ

def isEnv : Act → Bool
  | .push .. => true
  | .remove .. => true
  | _ => false

theorem nPending_done (q : PTQ) (p u : Nat) :
    nPending (done q p u).peers = nPending q.peers ∧ sumFreeze (done q p u).peers = sumFreeze q.peers := by
  obtain ⟨hc, _⟩ := done_peers q p u
  rcases hc with ⟨_, hp⟩ | hp
  · rw [hp]; exact ⟨rfl, rfl⟩
  · rw [hp]
    constructor
    · simp only [nPending, modifyT]; apply sumBy_map_eq; intro x _; split <;> rfl
    · simp only [sumFreeze, modifyT]; apply sumBy_map_eq; intro x _; split <;> rfl

/-- a worker step other than a tick strictly lowers `M` -/
theorem M_strict {s s' : Sys} {a : Act} (hI : Inv s) (ha : isEnv a = false)
    (hnt : ∀ i, a ≠ .tick i) (h : step s a = some s') : M s' < M s := by
  cases a with
  | push p t => simp [isEnv] at ha
  | remove p t => simp [isEnv] at ha
  | tick i => exact absurd rfl (hnt i)
  | pop i =>
    simp only [GS.TQ.step] at h
    split at h
    · rename_i hw
      cases h
      obtain ⟨h1, h2⟩ := popFor_measure s i s.q _ hw hI.idinj
      simp only [phase] at h1
      unfold M; rw [h2]
      split at h1 <;> omega
    · cases h
  | sig i =>
    simp only [GS.TQ.step] at h
    split at h
    · rename_i hw
      split at h
      · rename_i hsig
        cases h
        obtain ⟨h1, h2⟩ := popFor_measure ({ s with signal := false }) i s.q _ hw hI.idinj
        simp only [phase] at h1
        unfold M; rw [h2]; simp only [hsig, if_true]
        simp only [Bool.false_eq_true, if_false]
        split at h1 <;> omega
      · cases h
    · cases h
  | done i =>
    simp only [GS.TQ.step] at h
    split at h
    · rename_i p cur rest hw
      cases h
      obtain ⟨d1, d2⟩ := nPending_done s.q p cur.uid
      have h3 := sumBy_set phase s.workers i _ (.exec p cur true rest) hw
      simp only [phase] at h3
      unfold M
      dsimp only
      rw [d1, d2]; omega
    · cases h
  | ret i =>
    simp only [GS.TQ.step] at h
    split at h
    · rename_i p c t ts hw
      cases h
      have h3 := sumBy_set phase s.workers i _ (.exec p t false ts) hw
      simp only [phase, List.length_cons] at h3
      unfold M
      dsimp only
      omega
    · rename_i p c hw
      cases h
      have h3 := sumBy_set phase s.workers i _ .ready hw
      simp only [phase, List.length_nil] at h3
      unfold M
      dsimp only
      omega
    · cases h

/-- every worker step: `M` does not grow; it drops, or the worker list is unchanged (a tick that
    found nothing) -/
theorem M_internal {s s' : Sys} {a : Act} (hI : Inv s) (ha : isEnv a = false)
    (h : step s a = some s') : M s' ≤ M s ∧ (M s' < M s ∨ s'.workers = s.workers) := by
  by_cases hnt : ∀ i, a ≠ .tick i
  · have := M_strict hI ha hnt h
    exact ⟨Nat.le_of_lt this, Or.inl this⟩
  · have : ∃ i, a = .tick i := by
      apply Classical.byContradiction
      intro hc
      exact hnt (fun i hi => hc ⟨i, hi⟩)
    obtain ⟨i, rfl⟩ := this
    simp only [GS.TQ.step] at h
    split at h
    · rename_i hw
      cases h
      have hIt := hI.thaw
      obtain ⟨t1, t2, _, _, _⟩ := thaw_facts s.q
      obtain ⟨h1, h2⟩ := popFor_measure s i (thaw s.q) _ hw hIt.idinj
      simp only [phase] at h1
      have hle : M (s.popFor i (thaw s.q)) ≤ M s := by
        unfold M; rw [h2]
        split at h1 <;> omega
      refine ⟨hle, ?_⟩
      by_cases hk : (pop (thaw s.q) 1).2.tasks.length = 0
      · right
        show s.workers.set i (startFrom (pop (thaw s.q) 1).2) = s.workers
        rw [startFrom_idle_of_nil _ (List.length_eq_zero_iff.mp hk)]
        exact set_same _ _ _ hw
      · left
        unfold M; rw [h2]
        rw [if_neg hk] at h1
        omega
    · cases h

/-- PushTask adds at most one pending task (and the wake-up signal); Remove at most one freeze -/
theorem M_env {s s' : Sys} {a : Act} (hI : Inv s) (ha : isEnv a = true)
    (h : step s a = some s') : M s' ≤ M s + 5 ∧ s'.workers = s.workers := by
  have hI' := hI.step h
  cases a with
  | push p t =>
    simp only [GS.TQ.step] at h
    split at h
    · cases h
    · cases h
      refine ⟨?_, rfl⟩
      obtain ⟨base, hb, hp, _⟩ := push_peers s.q p t
      have hnd : (ids base).Nodup := by
        have := hI'.nodup
        simp only [] at this
        rw [hp, ids_modifyT (fun t' => mergePending_id t' t)] at this
        exact this
      have hN : nPending (push s.q p t).peers ≤ nPending s.q.peers + 1 := by
        rw [hp]
        have := sumBy_modifyT_le_add (fun t => t.pending.length) (mergePending · t) 1 p base hnd
          (fun t' _ => mergePending_len t' t)
        rcases hb with rfl | rfl
        · exact this
        · simp only [nPending] at *
          rw [sumBy_append] at this
          simpa [sumBy] using this
      have hF : sumFreeze (push s.q p t).peers = sumFreeze s.q.peers := by
        rw [hp]
        have e : sumFreeze (modifyT base p (mergePending · t)) = sumFreeze base := by
          simp only [sumFreeze, modifyT]; apply sumBy_map_eq
          intro x _; split
          · exact mergePending_freeze x t
          · rfl
        rw [e]
        rcases hb with rfl | rfl
        · rfl
        · simp only [sumFreeze]; rw [sumBy_append]; simp [sumBy]
      unfold M
      dsimp only
      rw [hF]
      simp only [if_true]
      split <;> omega
  | remove p topic =>
    simp only [GS.TQ.step] at h
    cases h
    refine ⟨?_, rfl⟩
    obtain ⟨hc, _, _⟩ := remove_peers s.q p topic
    have hmod : ∀ (fr : Bool), nPending (modifyT s.q.peers p (removeT topic fr)) ≤ nPending s.q.peers ∧
        sumFreeze (modifyT s.q.peers p (removeT topic fr)) ≤ sumFreeze s.q.peers + 1 := by
      intro fr
      constructor
      · simp only [nPending, modifyT]; apply sumBy_map_le
        intro x _; split
        · simp only [removeT]; exact List.length_filter_le _ _
        · exact Nat.le_refl _
      · apply sumBy_modifyT_le_add (fun t => t.freeze) (removeT topic fr) 1 p _ hI.nodup
        intro t' _; simp only [removeT]; split <;> omega
    unfold M
    dsimp only
    rcases hc with ⟨hp, _⟩ | ⟨hp, _⟩ | ⟨hp, _⟩
    · rw [hp]; omega
    · rw [hp]; have := hmod false; omega
    · rw [hp]; have := hmod true; omega
  | pop i => simp [isEnv] at ha
  | sig i => simp [isEnv] at ha
  | tick i => simp [isEnv] at ha
  | done i => simp [isEnv] at ha
  | ret i => simp [isEnv] at ha

/-! ### the budgeted system -/

structure BSys where
  s : Sys
  budget : Nat          -- PushTask / Remove calls the environment may still make
deriving Repr

def bstep (b : BSys) (a : Act) : Option BSys :=
  if isEnv a then
    (if b.budget = 0 then none else (step b.s a).map fun s' => ⟨s', b.budget - 1⟩)
  else (step b.s a).map fun s' => ⟨s', b.budget⟩

def BS : GS.Temporal.Sys BSys Act := ⟨bstep⟩

/-- the worker actions (everything the task queue does by itself) are weakly fair -/
def fairAct (a : Act) : Prop := isEnv a = false

def V (b : BSys) : Nat := 8 * b.budget + M b.s

theorem bstep_cases {b b' : BSys} {a : Act} (h : bstep b a = some b') :
    (isEnv a = true ∧ 0 < b.budget ∧ b'.budget = b.budget - 1 ∧ step b.s a = some b'.s) ∨
    (isEnv a = false ∧ b'.budget = b.budget ∧ step b.s a = some b'.s) := by
  unfold bstep at h
  split at h
  · rename_i he
    split at h
    · cases h
    · rename_i hb
      cases hs : step b.s a with
      | none => simp [hs] at h
      | some s' =>
        simp [hs] at h; subst h
        exact Or.inl ⟨he, by omega, rfl, rfl⟩
  · rename_i he
    cases hs : step b.s a with
    | none => simp [hs] at h
    | some s' =>
      simp [hs] at h; subst h
      exact Or.inr ⟨by simpa using he, rfl, rfl⟩

/-- every step of the budgeted system: the invariant is kept, `V` does not grow, and if `V` stays
    the same the workers are unchanged -/
theorem V_step {b b' : BSys} {a : Act} (hI : Inv b.s) (h : bstep b a = some b') :
    Inv b'.s ∧ (V b' < V b ∨ (V b' = V b ∧ b'.s.workers = b.s.workers)) := by
  rcases bstep_cases h with ⟨he, hb, hb', hs⟩ | ⟨he, hb', hs⟩
  · refine ⟨hI.step hs, Or.inl ?_⟩
    have := (M_env hI he hs).1
    unfold V; rw [hb']; omega
  · refine ⟨hI.step hs, ?_⟩
    obtain ⟨h1, h2⟩ := M_internal hI he hs
    unfold V; rw [hb']
    rcases h2 with h2 | h2
    · left; omega
    · rcases Nat.lt_or_ge (M b'.s) (M b.s) with h3 | h3
      · left; omega
      · right; exact ⟨by omega, h2⟩

end GS.TQ
