import GS.Model.Validator
namespace GS.C08
end GS.C08
