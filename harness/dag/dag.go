// Package dag: shared generator of small IPLD DAGs + selectors, and an INDEPENDENT reference
// traversal (plain go-ipld-prime WalkAdv over a complete store with a recording opener) that
// yields the "link tree" (LT, DESIGN §3) of a DAG+selector.  Used by the traversal-related
// components (loader, responder, exchange, budget ...).  Everything derives from one *rand.Rand.
package dag

import (
	"bytes"
	"fmt"
	"io"
	"math/rand"
	"sort"
	"strings"

	"github.com/ipfs/go-cid"
	"github.com/ipld/go-ipld-prime"
	_ "github.com/ipld/go-ipld-prime/codec/dagcbor"
	_ "github.com/ipld/go-ipld-prime/codec/raw"
	"github.com/ipld/go-ipld-prime/datamodel"
	"github.com/ipld/go-ipld-prime/fluent"
	"github.com/ipld/go-ipld-prime/linking"
	cidlink "github.com/ipld/go-ipld-prime/linking/cid"
	"github.com/ipld/go-ipld-prime/node/basicnode"
	"github.com/ipld/go-ipld-prime/traversal"
	"github.com/ipld/go-ipld-prime/traversal/selector"
	"github.com/ipld/go-ipld-prime/traversal/selector/builder"
	mh "github.com/multiformats/go-multihash"
)

// DAG is a set of blocks with a root.  Index i of Cids is the small integer used for the block
// in the line protocol (assigned in creation order: leaves first, root last).
type DAG struct {
	Cids []cid.Cid
	Data map[cid.Cid][]byte
	Root cid.Cid
	Desc []string // human-readable description per block
	idx  map[cid.Cid]int
}

func (d *DAG) Index(c cid.Cid) int {
	if i, ok := d.idx[c]; ok {
		return i
	}
	return -1
}

func (d *DAG) add(c cid.Cid, data []byte, desc string) int {
	if i, ok := d.idx[c]; ok {
		return i
	}
	d.idx[c] = len(d.Cids)
	d.Cids = append(d.Cids, c)
	d.Data[c] = data
	d.Desc = append(d.Desc, desc)
	return len(d.Cids) - 1
}

// LinkSystem over the given subset of blocks (have == nil: all blocks).  onLoad, if non-nil,
// is called for every StorageReadOpener invocation (before the availability test).
func (d *DAG) LinkSystem(have func(cid.Cid) bool, onLoad func(lc linking.LinkContext, c cid.Cid)) ipld.LinkSystem {
	ls := cidlink.DefaultLinkSystem()
	ls.TrustedStorage = true
	ls.StorageReadOpener = func(lc linking.LinkContext, l datamodel.Link) (io.Reader, error) {
		c := l.(cidlink.Link).Cid
		if onLoad != nil {
			onLoad(lc, c)
		}
		if have != nil && !have(c) {
			return nil, fmt.Errorf("block not found")
		}
		b, ok := d.Data[c]
		if !ok {
			return nil, fmt.Errorf("block not found")
		}
		return bytes.NewReader(b), nil
	}
	return ls
}

type GenOpts struct {
	MaxBlocks   int  // upper bound on number of blocks (>=1)
	Inline      bool // allow links inside inline (nested) maps/lists
	Shared      bool // allow the same child to be linked more than once
	Raw         bool // allow raw leaf blocks
	IdentityCid bool // allow identity-hash CIDs for small leaves
	EmptyRaw    bool // allow the zero-length raw block as a leaf (draws extra random numbers only when set)
}

func DefaultOpts() GenOpts { return GenOpts{MaxBlocks: 9, Inline: true, Shared: true, Raw: true} }

var keys = []string{"a", "b", "c", "d", "e"}

// Gen builds a random DAG bottom-up.
func Gen(r *rand.Rand, o GenOpts) *DAG {
	d := &DAG{Data: map[cid.Cid][]byte{}, idx: map[cid.Cid]int{}}
	n := 1 + r.Intn(o.MaxBlocks)
	store := func(nd datamodel.Node, desc string) cid.Cid {
		var buf bytes.Buffer
		ls := cidlink.DefaultLinkSystem()
		ls.StorageWriteOpener = func(linking.LinkContext) (io.Writer, linking.BlockWriteCommitter, error) {
			return &buf, func(datamodel.Link) error { return nil }, nil
		}
		lp := cidlink.LinkPrototype{Prefix: cid.Prefix{Version: 1, Codec: 0x71, MhType: mh.SHA2_256, MhLength: 32}}
		l, err := ls.Store(linking.LinkContext{}, lp, nd)
		if err != nil {
			panic(err)
		}
		c := l.(cidlink.Link).Cid
		d.add(c, append([]byte{}, buf.Bytes()...), desc)
		return c
	}
	var made []cid.Cid
	uniq := 0
	for i := 0; i < n; i++ {
		last := i == n-1
		// leaf?
		if len(made) == 0 || (!last && r.Intn(3) == 0) {
			uniq++
			if o.Raw && r.Intn(2) == 0 {
				data := []byte(fmt.Sprintf("raw-leaf-%d-%d", uniq, r.Intn(1000)))
				if o.EmptyRaw && r.Intn(3) == 0 {
					data = []byte{}
				}
				pref := cid.Prefix{Version: 1, Codec: 0x55, MhType: mh.SHA2_256, MhLength: 32}
				if o.IdentityCid && r.Intn(3) == 0 {
					pref.MhType = mh.IDENTITY
					pref.MhLength = -1
				}
				c, _ := pref.Sum(data)
				d.add(c, data, "raw")
				made = append(made, c)
			} else {
				made = append(made, store(basicnode.NewString(fmt.Sprintf("leaf-%d-%d", uniq, r.Intn(1000))), "cbor-leaf"))
			}
			continue
		}
		// interior node linking to 1..4 earlier blocks
		nk := 1 + r.Intn(4)
		pick := func() cid.Cid {
			if last || !o.Shared {
				// prefer blocks not yet referenced so the root reaches most of the DAG
			}
			return made[r.Intn(len(made))]
		}
		var children []cid.Cid
		for k := 0; k < nk; k++ {
			c := pick()
			if !o.Shared {
				dup := false
				for _, x := range children {
					if x == c {
						dup = true
					}
				}
				if dup {
					continue
				}
			}
			children = append(children, c)
		}
		if last {
			// make sure the most recent block is reachable from the root
			children = append(children, made[len(made)-1])
		}
		uniq++
		var desc []string
		asList := r.Intn(3) == 0
		assignChild := func(na fluent.NodeAssembler, c cid.Cid) {
			if o.Inline && r.Intn(3) == 0 {
				// link inside an inline map (relative path of length 2) next to a scalar
				nd := fluent.MustBuildMap(basicnode.Prototype.Map, 2, func(ma fluent.MapAssembler) {
					ma.AssembleEntry("l").AssignLink(cidlink.Link{Cid: c})
					ma.AssembleEntry("x").AssignInt(int64(uniq))
				})
				na.AssignNode(nd)
				desc = append(desc, fmt.Sprintf("{l:%d}", d.Index(c)))
			} else {
				na.AssignLink(cidlink.Link{Cid: c})
				desc = append(desc, fmt.Sprintf("%d", d.Index(c)))
			}
		}
		var nd datamodel.Node
		if asList {
			nd = fluent.MustBuildList(basicnode.Prototype.List, int64(len(children)+1), func(la fluent.ListAssembler) {
				for _, c := range children {
					assignChild(la.AssembleValue(), c)
				}
				la.AssembleValue().AssignInt(int64(uniq))
			})
		} else {
			nd = fluent.MustBuildMap(basicnode.Prototype.Map, int64(len(children)+1), func(ma fluent.MapAssembler) {
				for k, c := range children {
					if k >= len(keys) {
						break
					}
					assignChild(ma.AssembleEntry(keys[k]), c)
				}
				ma.AssembleEntry("z").AssignInt(int64(uniq))
			})
		}
		kind := "map"
		if asList {
			kind = "list"
		}
		made = append(made, store(nd, kind+"["+strings.Join(desc, " ")+"]"))
	}
	d.Root = made[len(made)-1]
	return d
}

// ---------------------------------------------------------------- selectors

// Selector kinds offered by GenSelector (name -> builder).
func GenSelector(r *rand.Rand) (string, datamodel.Node) {
	ssb := builder.NewSelectorSpecBuilder(basicnode.Prototype.Any)
	switch r.Intn(7) {
	case 0, 1, 2:
		return "all-recursive", ssb.ExploreRecursive(selector.RecursionLimitNone(), ssb.ExploreAll(ssb.ExploreRecursiveEdge())).Node()
	case 3:
		dpt := int64(1 + r.Intn(4))
		return fmt.Sprintf("all-depth%d", dpt), ssb.ExploreRecursive(selector.RecursionLimitDepth(dpt), ssb.ExploreAll(ssb.ExploreRecursiveEdge())).Node()
	case 4:
		k := keys[r.Intn(3)]
		return "field-" + k + "-then-all", ssb.ExploreFields(func(efsb builder.ExploreFieldsSpecBuilder) {
			efsb.Insert(k, ssb.ExploreRecursive(selector.RecursionLimitNone(), ssb.ExploreAll(ssb.ExploreRecursiveEdge())))
		}).Node()
	case 5:
		return "union-a-b", ssb.ExploreUnion(
			ssb.ExploreFields(func(efsb builder.ExploreFieldsSpecBuilder) {
				efsb.Insert("a", ssb.ExploreRecursive(selector.RecursionLimitDepth(3), ssb.ExploreAll(ssb.ExploreRecursiveEdge())))
			}),
			ssb.ExploreIndex(0, ssb.ExploreRecursive(selector.RecursionLimitDepth(3), ssb.ExploreAll(ssb.ExploreRecursiveEdge()))),
			ssb.ExploreFields(func(efsb builder.ExploreFieldsSpecBuilder) {
				efsb.Insert("b", ssb.Matcher())
			}),
		).Node()
	default:
		return "range-0-2-then-all", ssb.ExploreUnion(
			ssb.ExploreRange(0, 2, ssb.ExploreRecursive(selector.RecursionLimitNone(), ssb.ExploreAll(ssb.ExploreRecursiveEdge()))),
			ssb.ExploreFields(func(efsb builder.ExploreFieldsSpecBuilder) {
				efsb.Insert("a", ssb.ExploreAll(ssb.Matcher()))
				efsb.Insert("b", ssb.ExploreAll(ssb.Matcher()))
			}),
		).Node()
	}
}

// ---------------------------------------------------------------- reference traversal

// Load is one link load of the reference traversal (one node of the link tree).
type Load struct {
	Cid    cid.Cid
	Block  int      // index in DAG.Cids
	Path   []string // absolute LinkPath segments ("" root has empty path)
	Parent int      // index of the parent load in the pre-order list (-1 for the root)
	Depth  int      // depth in the link tree (root = 0)
	Visits int      // number of nodes the visitor saw inside this block (between this load and the next)
}

// LT is the link tree in pre-order (traversal order).
type LT struct {
	Loads []Load
}

// Reference runs an ordinary go-ipld-prime selector traversal from the root over the blocks for
// which have(c) is true (nil = complete store); links whose block is unavailable are skipped
// (traversal.SkipMe), as both graphsync peers do.  It returns the loads in order (including the
// loads that were answered "missing", flagged in the second result).
func Reference(d *DAG, sel datamodel.Node, have func(cid.Cid) bool) (*LT, []bool, error) {
	lt := &LT{}
	var missing []bool
	var stack []int
	ls := d.LinkSystem(nil, nil)
	inner := ls.StorageReadOpener
	record := func(lc linking.LinkContext, c cid.Cid) bool {
		var segs []string
		for _, s := range lc.LinkPath.Segments() {
			segs = append(segs, s.String())
		}
		for len(stack) > 0 && !isProperPrefix(lt.Loads[stack[len(stack)-1]].Path, segs) {
			stack = stack[:len(stack)-1]
		}
		parent := -1
		if len(stack) > 0 {
			parent = stack[len(stack)-1]
		}
		ok := have == nil || have(c)
		lt.Loads = append(lt.Loads, Load{Cid: c, Block: d.Index(c), Path: segs, Parent: parent, Depth: len(stack)})
		missing = append(missing, !ok)
		if ok {
			stack = append(stack, len(lt.Loads)-1)
		}
		return ok
	}
	ls.StorageReadOpener = func(lc linking.LinkContext, l datamodel.Link) (io.Reader, error) {
		c := l.(cidlink.Link).Cid
		if !record(lc, c) {
			return nil, traversal.SkipMe{}
		}
		return inner(lc, l)
	}
	s, err := selector.ParseSelector(sel)
	if err != nil {
		return nil, nil, err
	}
	rootLink := cidlink.Link{Cid: d.Root}
	// root load (graphsync loads the root through the same opener, with an empty path)
	if !record(linking.LinkContext{}, d.Root) {
		return lt, missing, nil
	}
	proto := basicnode.Prototype.Any
	full := d.LinkSystem(nil, nil)
	nd, err := full.Load(linking.LinkContext{}, rootLink, proto)
	if err != nil {
		return nil, nil, err
	}
	prog := traversal.Progress{Cfg: &traversal.Config{
		LinkSystem:                     ls,
		LinkTargetNodePrototypeChooser: func(datamodel.Link, linking.LinkContext) (datamodel.NodePrototype, error) { return proto, nil },
	}}
	err = prog.WalkAdv(nd, s, func(p traversal.Progress, n datamodel.Node, _ traversal.VisitReason) error {
		// attribute the visit to the block the node lives in = last loaded & available block on the stack
		// whose path is a prefix of the node's path
		var segs []string
		for _, sg := range p.Path.Segments() {
			segs = append(segs, sg.String())
		}
		for i := len(lt.Loads) - 1; i >= 0; i-- {
			if !missing[i] && isPrefix(lt.Loads[i].Path, segs) {
				lt.Loads[i].Visits++
				break
			}
		}
		return nil
	})
	return lt, missing, err
}

func isPrefix(a, b []string) bool {
	if len(a) > len(b) {
		return false
	}
	for i := range a {
		if a[i] != b[i] {
			return false
		}
	}
	return true
}
func isProperPrefix(a, b []string) bool { return len(a) < len(b) && isPrefix(a, b) }

// Format writes the link tree for the line protocol:
//
//	<n> then per load "block:parent:seg/seg/..." (parent = pre-order index or -1; path absolute,
//	segments interned through segName) separated by spaces.
func (lt *LT) Format(seg func(string) string) string {
	var sb strings.Builder
	fmt.Fprintf(&sb, "%d", len(lt.Loads))
	for _, l := range lt.Loads {
		ss := make([]string, len(l.Path))
		for i, s := range l.Path {
			ss[i] = seg(s)
		}
		p := strings.Join(ss, "/")
		if p == "" {
			p = "-"
		}
		fmt.Fprintf(&sb, " %d:%d:%s", l.Block, l.Parent, p)
	}
	return sb.String()
}

// SegInterner maps path segments to small integers in first-appearance order.
type SegInterner struct{ m map[string]int }

func NewSegInterner() *SegInterner { return &SegInterner{m: map[string]int{}} }
func (si *SegInterner) Name(s string) string {
	if v, ok := si.m[s]; ok {
		return fmt.Sprint(v)
	}
	si.m[s] = len(si.m)
	return fmt.Sprint(si.m[s])
}

// Subsets enumerates every subset of block indices as a membership function (for exhaustive
// store splits of small DAGs), or nil if there are more than max blocks.
func (d *DAG) Subsets(max int) []func(cid.Cid) bool {
	n := len(d.Cids)
	if n > max {
		return nil
	}
	var out []func(cid.Cid) bool
	for m := 0; m < 1<<uint(n); m++ {
		mask := m
		out = append(out, func(c cid.Cid) bool { i := d.Index(c); return i >= 0 && mask&(1<<uint(i)) != 0 })
	}
	return out
}

// RandomSubset returns a membership function holding each block with probability p, plus the
// sorted list of held indices.
func (d *DAG) RandomSubset(r *rand.Rand, p float64) (func(cid.Cid) bool, []int) {
	held := map[int]bool{}
	var list []int
	for i := range d.Cids {
		if r.Float64() < p {
			held[i] = true
			list = append(list, i)
		}
	}
	sort.Ints(list)
	return func(c cid.Cid) bool { return held[d.Index(c)] }, list
}
