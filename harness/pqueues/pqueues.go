// Package pqueues drives the REAL peermanager.PeerMessageManager with REAL messagequeue.MessageQueue
// instances (component "pqueues", property C17) in lock step with the product model GS.PQ
// (lean/GS/Model/PeerQueues.lean, driver lean/GS/Driver/PeerQueues.lean).  Only the network and the
// allocator are fakes with gates: ConnectTo, SendMsg and the deferred ReleasePeerMemory block until the
// script answers them, so every op is one caller action plus what the queue goroutine does until it
// blocks again, observed at a quiescent point.
//
// ops: conn p | disc p | get p | build q m | send p m | open q ok | open q fail [w|d] | ack q [w|d] |
// nack q [w|d] | exit q       (q = queue instance in creation order, m = message label)
//
// The only nondeterminism is runQueue's select when `done` is closed AND work is queued: the script
// carries the expected resolution (w = work branch, d = done branch); the case is replayed from scratch
// until the real select resolved that way (probability 1/2 per such point).
//
// Oracle (from the property sentence, not from the model): at most one live instance per peer that
// has not been told to stop (two-active); GetProcess never returns an instance whose goroutine ended
// (returned-dead); per instance, messages reach SendMsg in the order they were built on it (fifo);
// after everything is disconnected and all gates are opened every instance ends (outlives-disconnect)
// and every message built on any instance -- live, stopping, closed or dead -- was reported Sent or
// Error exactly once (silent-drop / double-report).
package pqueues

import (
	"bufio"
	"context"
	"errors"
	"fmt"
	"math/rand"
	"runtime"
	"sort"
	"strconv"
	"strings"
	"sync"
	"time"

	blocks "github.com/ipfs/go-block-format"
	"github.com/ipfs/go-graphsync"
	gsmsg "github.com/ipfs/go-graphsync/message"
	"github.com/ipfs/go-graphsync/messagequeue"
	gsnet "github.com/ipfs/go-graphsync/network"
	"github.com/ipfs/go-graphsync/notifications"
	"github.com/ipfs/go-graphsync/peermanager"
	cidlink "github.com/ipld/go-ipld-prime/linking/cid"
	"github.com/libp2p/go-libp2p/core/peer"

	"verifharness/quiesce"
	"verifharness/reg"
)

func init() {
	reg.Register(&reg.Component{Name: "pqueues", Gen: Gen, Run: Run})
}

const blkLen = 300000 // two of them never fit one builder (maxBlockSize 512K): one build = one message
const maxMsg = 64

var (
	poolMu sync.Mutex
	pool   = map[int]blocks.Block{}
)

func blockFor(m int) blocks.Block {
	poolMu.Lock()
	defer poolMu.Unlock()
	if b, ok := pool[m]; ok {
		return b
	}
	data := make([]byte, blkLen)
	data[0] = byte(m)
	b := blocks.NewBlock(data)
	pool[m] = b
	return b
}

func mkReqID(i int) graphsync.RequestID {
	b := make([]byte, 16)
	copy(b, []byte("verif-request"))
	b[14] = byte(i >> 8)
	b[15] = byte(i)
	id, err := graphsync.ParseRequestID(b)
	if err != nil {
		panic(err)
	}
	return id
}

type qm struct{ q, m int }

type env struct {
	mu     sync.Mutex
	queues []*qrec
	wire   []qm // events of the current op
	sent   []qm
	failed []qm
	target *wrap // instance the last AllocateAndBuildMessage went to
}

type qrec struct {
	e          *env
	id, peer   int
	mq         *messagequeue.MessageQueue
	told       bool // Shutdown() seen by the wrapper, or the queue's own Shutdown() after a failed open
	exited     bool
	gate       chan error
	gateKind   byte
	gateMsg    int
	lastQueued int
	built      []int
	wired      []int
	resolved   map[int]int
}

func (q *qrec) wait(kind byte, m int) error {
	ch := make(chan error, 1)
	q.e.mu.Lock()
	q.gate, q.gateKind, q.gateMsg = ch, kind, m
	q.e.mu.Unlock()
	return <-ch
}

func (q *qrec) release(err error) {
	q.e.mu.Lock()
	ch := q.gate
	q.gate, q.gateKind = nil, 0
	q.e.mu.Unlock()
	if ch != nil {
		ch <- err
	}
}

// fake network of one instance
type qnet struct{ q *qrec }

func (n *qnet) ConnectTo(context.Context, peer.ID) error { return n.q.wait('o', -1) }
func (n *qnet) NewMessageSender(context.Context, peer.ID, gsnet.MessageSenderOpts) (gsnet.MessageSender, error) {
	return &qsender{n.q}, nil
}

type qsender struct{ q *qrec }

func (s *qsender) SendMsg(_ context.Context, msg gsmsg.GraphSyncMessage) error {
	m := -1
	if bs := msg.Blocks(); len(bs) > 0 {
		m = int(bs[0].RawData()[0])
	}
	q := s.q
	q.e.mu.Lock()
	q.e.wire = append(q.e.wire, qm{q.id, m})
	q.wired = append(q.wired, m)
	q.e.mu.Unlock()
	return q.wait('s', m)
}
func (s *qsender) Close() error { return nil }
func (s *qsender) Reset() error { return nil }

// fake allocator of one instance: never refuses; the deferred ReleasePeerMemory is the exit gate
type qalloc struct{ q *qrec }

func (a *qalloc) AllocateBlockMemory(peer.ID, uint64) <-chan error {
	ch := make(chan error, 1)
	ch <- nil
	return ch
}
func (a *qalloc) ReleasePeerMemory(peer.ID) error          { a.q.wait('r', -1); return nil }
func (a *qalloc) ReleaseBlockMemory(peer.ID, uint64) error { return nil }

// what the factory hands to the peer manager: the real queue, with Shutdown() calls recorded
type wrap struct{ q *qrec }

func (w *wrap) Startup() { w.q.mq.Startup() }
func (w *wrap) Shutdown() {
	w.q.e.mu.Lock()
	w.q.told = true
	w.q.e.mu.Unlock()
	w.q.mq.Shutdown()
}
func (w *wrap) AllocateAndBuildMessage(size uint64, fn func(*messagequeue.Builder)) {
	w.q.e.mu.Lock()
	w.q.e.target = w
	w.q.e.mu.Unlock()
	w.q.mq.AllocateAndBuildMessage(size, fn)
}

type sub struct {
	q *qrec
	m int
}

func (s *sub) OnNext(_ notifications.Topic, ev notifications.Event) {
	e, ok := ev.(messagequeue.Event)
	if !ok {
		return
	}
	q := s.q
	q.e.mu.Lock()
	defer q.e.mu.Unlock()
	switch e.Name {
	case messagequeue.Queued:
		q.lastQueued = s.m
	case messagequeue.Sent:
		q.e.sent = append(q.e.sent, qm{q.id, s.m})
		q.resolved[s.m]++
	case messagequeue.Error:
		q.e.failed = append(q.e.failed, qm{q.id, s.m})
		q.resolved[s.m]++
	}
}
func (s *sub) OnClose(notifications.Topic) {}

func Run(cases []reg.Case, out *reg.Out) {
	runtime.GOMAXPROCS(1)
	for _, c := range cases {
		out.BeginCase(c)
		var r *result
		for try := 0; try < 600; try++ {
			r = attempt(c)
			if r.matched {
				break
			}
			out.Cov("select.replayed")
		}
		if !r.matched {
			out.Cov("select.never-matched")
		}
		for _, l := range r.lines {
			out.Line("%s", l)
		}
		for _, f := range r.fails {
			out.Fail(f[0], "%s", f[1])
		}
		for _, k := range r.covs {
			out.Cov(k)
		}
	}
}

type result struct {
	lines   []string
	fails   [][2]string
	covs    []string
	matched bool
}

func (r *result) fail(class, format string, a ...interface{}) {
	for _, f := range r.fails {
		if f[0] == class {
			return
		}
	}
	r.fails = append(r.fails, [2]string{class, fmt.Sprintf(format, a...)})
}

func pairs(xs []qm) string {
	s := make([]string, len(xs))
	for i, x := range xs {
		s[i] = fmt.Sprintf("%d:%d", x.q, x.m)
	}
	return strings.Join(s, ",")
}

func ints(xs []int) string {
	s := make([]string, len(xs))
	for i, x := range xs {
		s[i] = strconv.Itoa(x)
	}
	return strings.Join(s, ",")
}

func attempt(c reg.Case) *result {
	r := &result{matched: true}
	e := &env{}
	ctx, cancel := context.WithCancel(context.Background())
	peerIDs := map[int]peer.ID{}
	peerIdx := map[peer.ID]int{}
	pid := func(p int) peer.ID {
		if id, ok := peerIDs[p]; ok {
			return id
		}
		id := peer.ID(fmt.Sprintf("verif-peer-%d", p))
		peerIDs[p], peerIdx[id] = id, p
		return id
	}
	pm := peermanager.NewMessageManager(ctx, func(ctx context.Context, p peer.ID, onShutdown func(peer.ID)) peermanager.PeerQueue {
		q := &qrec{e: e, peer: peerIdx[p], lastQueued: -1, resolved: map[int]int{}}
		q.mq = messagequeue.New(ctx, p, &qnet{q}, &qalloc{q}, 1, time.Minute, func(p peer.ID) {
			onShutdown(p)
			e.mu.Lock()
			q.exited = true
			e.mu.Unlock()
		})
		e.mu.Lock()
		q.id = len(e.queues)
		e.queues = append(e.queues, q)
		e.mu.Unlock()
		return &wrap{q}
	})
	handles := map[int]*wrap{}
	buildFn := func(m int) func(*messagequeue.Builder) {
		return func(b *messagequeue.Builder) {
			e.mu.Lock()
			w := e.target
			w.q.built = append(w.q.built, m)
			e.mu.Unlock()
			blk := blockFor(m)
			id := mkReqID(m)
			b.AddBlock(blk)
			b.AddLink(id, cidlink.Link{Cid: blk.Cid()}, graphsync.LinkActionPresent)
			b.SetSubscriber(id, &sub{q: w.q, m: m})
		}
	}
	getQ := func(s string) *qrec {
		k, err := strconv.Atoi(s)
		e.mu.Lock()
		defer e.mu.Unlock()
		if err != nil || k < 0 || k >= len(e.queues) {
			return nil
		}
		return e.queues[k]
	}
	num := func(s string) (int, bool) {
		k, err := strconv.Atoi(s)
		return k, err == nil && k >= 0
	}
	// unresolved builds of q besides the one in flight
	pending := func(q *qrec) int {
		e.mu.Lock()
		defer e.mu.Unlock()
		n := len(q.built)
		for _, k := range q.resolved {
			n -= k
		}
		return n - 1
	}
	for _, op := range c.Ops {
		r.covs = append(r.covs, "op."+op[0])
		e.mu.Lock()
		nq := len(e.queues)
		e.wire, e.sent, e.failed = nil, nil, nil
		e.mu.Unlock()
		ret := "-"
		var amb *qrec
		hint := "d"
		finishHint := func(q *qrec, rest []string) {
			if len(rest) == 1 {
				hint = rest[0]
			}
			if q.told && pending(q) > 0 {
				amb = q
			}
		}
		switch {
		case op[0] == "conn" && len(op) == 2:
			p, ok := num(op[1])
			if !ok {
				r.lines = append(r.lines, "bad-op")
				continue
			}
			pm.Connected(pid(p))
		case op[0] == "disc" && len(op) == 2:
			p, ok := num(op[1])
			if !ok {
				r.lines = append(r.lines, "bad-op")
				continue
			}
			pm.Disconnected(pid(p))
		case op[0] == "get" && len(op) == 2:
			p, ok := num(op[1])
			if !ok {
				r.lines = append(r.lines, "bad-op")
				continue
			}
			w := pm.GetProcess(pid(p)).(*wrap)
			handles[w.q.id] = w
			ret = strconv.Itoa(w.q.id)
			if w.q.exited {
				r.fail("returned-dead", "GetProcess(%d) returned instance %d whose goroutine has ended", p, w.q.id)
			}
		case op[0] == "build" && len(op) == 3:
			k, ok1 := num(op[1])
			m, ok2 := num(op[2])
			if !ok1 || !ok2 || m >= maxMsg {
				r.lines = append(r.lines, "bad-op")
				continue
			}
			w := handles[k]
			if w == nil {
				r.lines = append(r.lines, "no-handle")
				continue
			}
			if w.q.exited {
				r.covs = append(r.covs, "build.on-exited")
			} else if w.q.gateKind == 'r' {
				r.covs = append(r.covs, "build.on-closed")
			} else if w.q.told {
				r.covs = append(r.covs, "build.on-told")
			}
			w.AllocateAndBuildMessage(blkLen, buildFn(m))
		case op[0] == "send" && len(op) == 3:
			p, ok1 := num(op[1])
			m, ok2 := num(op[2])
			if !ok1 || !ok2 || m >= maxMsg {
				r.lines = append(r.lines, "bad-op")
				continue
			}
			e.target = nil
			pm.AllocateAndBuildMessage(pid(p), blkLen, buildFn(m))
			w := e.target
			handles[w.q.id] = w
			ret = strconv.Itoa(w.q.id)
			if w.q.exited {
				r.fail("returned-dead", "AllocateAndBuildMessage(%d) went to instance %d whose goroutine has ended", p, w.q.id)
			}
		case op[0] == "open" && len(op) == 3 && op[2] == "ok":
			if _, ok := num(op[1]); !ok {
				r.lines = append(r.lines, "bad-op")
				continue
			}
			q := getQ(op[1])
			if q == nil || q.gateKind != 'o' {
				r.lines = append(r.lines, "skip")
				continue
			}
			q.release(nil)
		case op[0] == "open" && len(op) >= 3 && op[2] == "fail":
			if _, ok := num(op[1]); !ok {
				r.lines = append(r.lines, "bad-op")
				continue
			}
			q := getQ(op[1])
			if q == nil || q.gateKind != 'o' {
				r.lines = append(r.lines, "skip")
				continue
			}
			e.mu.Lock()
			if !q.told {
				r.covs = append(r.covs, "open.fail.self-shutdown")
			}
			q.told = true // the queue calls its own Shutdown()
			e.mu.Unlock()
			finishHint(q, op[3:])
			q.release(errors.New("cannot connect"))
		case (op[0] == "ack" || op[0] == "nack") && len(op) >= 2:
			if _, ok := num(op[1]); !ok {
				r.lines = append(r.lines, "bad-op")
				continue
			}
			q := getQ(op[1])
			if q == nil || q.gateKind != 's' || (op[0] == "nack" && !q.told) {
				r.lines = append(r.lines, "skip")
				continue
			}
			finishHint(q, op[2:])
			if op[0] == "ack" {
				q.release(nil)
			} else {
				q.release(errors.New("stream reset"))
			}
		case op[0] == "exit" && len(op) == 2:
			if _, ok := num(op[1]); !ok {
				r.lines = append(r.lines, "bad-op")
				continue
			}
			q := getQ(op[1])
			if q == nil || q.gateKind != 'r' {
				r.lines = append(r.lines, "skip")
				continue
			}
			q.release(nil)
		default:
			r.lines = append(r.lines, "bad-op")
			continue
		}
		quiesce.Wait(nil)
		if amb != nil {
			got := "w"
			if amb.gateKind == 'r' {
				got = "d"
			}
			r.covs = append(r.covs, "select.both-ready."+got)
			if got != hint {
				r.matched = false
				break
			}
		}
		// ---- observation
		e.mu.Lock()
		var created, alive []int
		var at []string
		for _, q := range e.queues {
			if q.id >= nq {
				created = append(created, q.id)
			}
			if q.exited {
				continue
			}
			alive = append(alive, q.id)
			switch q.gateKind {
			case 'o':
				at = append(at, fmt.Sprintf("%d:o:%d", q.id, q.lastQueued))
			case 's':
				at = append(at, fmt.Sprintf("%d:s:%d", q.id, q.gateMsg))
			case 'r':
				at = append(at, fmt.Sprintf("%d:r", q.id))
			}
		}
		sort.SliceStable(e.failed, func(i, j int) bool { return e.failed[i].q < e.failed[j].q })
		wire, sent, failed := pairs(e.wire), pairs(e.sent), pairs(e.failed)
		// oracle: live instances per peer
		liveN, activeN := map[int]int{}, map[int]int{}
		for _, q := range e.queues {
			if !q.exited {
				liveN[q.peer]++
				if !q.told {
					activeN[q.peer]++
				}
			}
		}
		e.mu.Unlock()
		for p, n := range activeN {
			if n > 1 {
				r.fail("two-active", "peer %d has %d live queue instances none of which was told to stop", p, n)
			}
			_ = p
		}
		for _, n := range liveN {
			if n > 1 {
				r.covs = append(r.covs, "state.two-live-instances")
				break
			}
		}
		var peers []int
		for _, id := range pm.ConnectedPeers() {
			peers = append(peers, peerIdx[id])
		}
		sort.Ints(peers)
		r.lines = append(r.lines, fmt.Sprintf("ret=%s new=%s peers=%s alive=%s at=%s wire=%s sent=%s failed=%s",
			ret, ints(created), ints(peers), ints(alive), strings.Join(at, ","), wire, sent, failed))
	}
	// ---- let everything end: disconnect every peer, open every gate
	for _, id := range pm.ConnectedPeers() {
		for k := 0; k < 64; k++ {
			pm.Disconnected(id)
		}
	}
	for k := 0; k < 400; k++ {
		quiesce.Wait(nil)
		e.mu.Lock()
		var gated []*qrec
		allExited := true
		for _, q := range e.queues {
			if q.gate != nil {
				gated = append(gated, q)
			}
			if !q.exited {
				allExited = false
			}
		}
		e.mu.Unlock()
		if len(gated) == 0 && allExited {
			break
		}
		if len(gated) == 0 {
			break
		}
		for _, q := range gated {
			q.release(nil)
		}
	}
	quiesce.Wait(nil)
	if r.matched {
		e.mu.Lock()
		for _, q := range e.queues {
			if !q.exited {
				r.fail("outlives-disconnect", "instance %d of peer %d is still running after its peer was disconnected and all network calls returned", q.id, q.peer)
			}
			cnt := map[int]int{}
			for _, m := range q.built {
				cnt[m]++
			}
			for m, n := range cnt {
				if q.resolved[m] < n {
					r.fail("silent-drop", "message %d built on instance %d (peer %d) was neither reported Sent nor Error", m, q.id, q.peer)
				} else if q.resolved[m] > n {
					r.fail("double-report", "message %d built %d time(s) on instance %d was reported %d times", m, n, q.id, q.resolved[m])
				}
			}
			// fifo: wired is a subsequence of built
			i := 0
			for _, m := range q.wired {
				for i < len(q.built) && q.built[i] != m {
					i++
				}
				if i == len(q.built) {
					r.fail("fifo", "instance %d handed %v to the network sender, built in the order %v", q.id, q.wired, q.built)
					break
				}
				i++
			}
		}
		e.mu.Unlock()
	}
	cancel()
	quiesce.Wait(nil)
	return r
}

// ---------------------------------------------------------------- generator

type gq struct {
	peer                 int
	told, closed, exited bool
	infl                 int // -1 none
	wired, open          bool
	queued               []int
}

type gst struct {
	tab     map[int][2]int // peer -> (refcnt, q)
	qs      []*gq
	handles map[int]bool
}

func (g *gst) getOrCreate(p int) int {
	if e, ok := g.tab[p]; ok {
		return e[1]
	}
	g.qs = append(g.qs, &gq{peer: p, infl: -1})
	g.tab[p] = [2]int{0, len(g.qs) - 1}
	return len(g.qs) - 1
}

func (g *gst) settle(k int, hint string) {
	q := g.qs[k]
	if q.closed || q.infl >= 0 {
		return
	}
	take := func() {
		q.infl, q.queued, q.wired = q.queued[0], q.queued[1:], q.open
	}
	if q.told {
		if len(q.queued) > 0 && hint == "w" {
			take()
		} else {
			q.closed, q.queued = true, nil
		}
	} else if len(q.queued) > 0 {
		take()
	}
}

func (g *gst) build(k, m int) {
	q := g.qs[k]
	if !q.closed {
		q.queued = append(q.queued, m)
	}
	g.settle(k, "d")
}

func Gen(seed int64, n int, tier string, w *bufio.Writer) {
	r := rand.New(rand.NewSource(seed))
	for i := 0; i < n; i++ {
		fmt.Fprintf(w, "case g%d\n", i)
		g := &gst{tab: map[int][2]int{}, handles: map[int]bool{}}
		np := 1 + r.Intn(3)
		nops := 6 + r.Intn(22)
		nextM := 0
		amb := 0 // finish ops on a stopping queue with work queued: the real select is a coin flip there
		ambOK := func(k int, becomesTold bool) bool {
			q := g.qs[k]
			if (q.told || becomesTold) && len(q.queued) > 0 {
				if amb >= 3 {
					return false
				}
				amb++
			}
			return true
		}
		hintFor := func(k int) string {
			q := g.qs[k]
			if len(q.queued) > 0 { // told is checked by the model; a superfluous hint is ignored
				if r.Intn(2) == 0 {
					return "w"
				}
				return "d"
			}
			return ""
		}
		emit := func(f string, a ...interface{}) { fmt.Fprintln(w, strings.TrimRight(fmt.Sprintf(f, a...), " ")) }
		for j := 0; j < nops && nextM < maxMsg-1; j++ {
			p := r.Intn(np)
			// gated instances, by kind
			var og, sg, rg []int
			for k, q := range g.qs {
				switch {
				case q.exited:
				case q.infl >= 0 && !q.wired:
					og = append(og, k)
				case q.infl >= 0:
					sg = append(sg, k)
				case q.closed:
					rg = append(rg, k)
				}
			}
			var hs []int
			for k := range g.qs {
				if g.handles[k] {
					hs = append(hs, k)
				}
			}
			x := r.Intn(100)
			switch {
			case x < 12:
				emit("conn %d", p)
				k := g.getOrCreate(p)
				g.tab[p] = [2]int{g.tab[p][0] + 1, k}
			case x < 24:
				emit("disc %d", p)
				if e, ok := g.tab[p]; ok {
					if e[0]-1 > 0 {
						g.tab[p] = [2]int{e[0] - 1, e[1]}
					} else {
						delete(g.tab, p)
						g.qs[e[1]].told = true
						g.settle(e[1], "d")
					}
				}
			case x < 29:
				emit("get %d", p)
				g.handles[g.getOrCreate(p)] = true
			case x < 50:
				emit("send %d %d", p, nextM)
				k := g.getOrCreate(p)
				g.handles[k] = true
				g.build(k, nextM)
				nextM++
			case x < 60 && len(hs) > 0:
				k := hs[r.Intn(len(hs))]
				emit("build %d %d", k, nextM)
				g.build(k, nextM)
				nextM++
			case x < 72 && len(og) > 0:
				k := og[r.Intn(len(og))]
				q := g.qs[k]
				if r.Intn(4) == 0 {
					if !ambOK(k, true) {
						continue
					}
					h := hintFor(k)
					emit("open %d fail %s", k, h)
					q.infl, q.told = -1, true
					g.settle(k, h)
				} else {
					emit("open %d ok", k)
					q.wired, q.open = true, true
				}
			case x < 88 && len(sg) > 0:
				k := sg[r.Intn(len(sg))]
				q := g.qs[k]
				if !ambOK(k, false) {
					continue
				}
				h := hintFor(k)
				if q.told && r.Intn(3) == 0 {
					emit("nack %d %s", k, h)
					q.open = false
				} else {
					emit("ack %d %s", k, h)
				}
				q.infl = -1
				g.settle(k, h)
			case x < 96 && len(rg) > 0:
				k := rg[r.Intn(len(rg))]
				emit("exit %d", k)
				q := g.qs[k]
				q.exited = true
				if e, ok := g.tab[q.peer]; ok && e[1] == k {
					delete(g.tab, q.peer)
				}
			case x >= 96 && x < 98:
				// not enabled / unknown instance: must be a no-op on both sides
				switch r.Intn(5) {
				case 0:
					emit("ack %d", r.Intn(len(g.qs)+2))
				case 1:
					emit("exit %d", r.Intn(len(g.qs)+2))
				case 2:
					emit("open %d ok", r.Intn(len(g.qs)+2))
				case 3:
					emit("nack %d", r.Intn(len(g.qs)+2))
				default:
					emit("build %d %d", len(g.qs)+r.Intn(2), nextM)
				}
			default:
				// nothing of the drawn kind is possible: let a blocked goroutine go on, else send
				if len(og) > 0 && r.Intn(3) > 0 {
					k := og[r.Intn(len(og))]
					emit("open %d ok", k)
					g.qs[k].wired, g.qs[k].open = true, true
					continue
				}
				if len(sg) > 0 && r.Intn(3) > 0 {
					k := sg[r.Intn(len(sg))]
					if !ambOK(k, false) {
						continue
					}
					h := hintFor(k)
					emit("ack %d %s", k, h)
					g.qs[k].infl = -1
					g.settle(k, h)
					continue
				}
				if len(rg) > 0 && r.Intn(3) > 0 {
					k := rg[r.Intn(len(rg))]
					emit("exit %d", k)
					q := g.qs[k]
					q.exited = true
					if e, ok := g.tab[q.peer]; ok && e[1] == k {
						delete(g.tab, q.peer)
					}
					continue
				}
				emit("send %d %d", p, nextM)
				k := g.getOrCreate(p)
				g.handles[k] = true
				g.build(k, nextM)
				nextM++
			}
		}
	}
}
