import GS.Model.Concurrent
import GSProofs.Lemmas.ConcurrentTracker
/-!
Non-interference for a request with a dedup key of its own and a block store of its own (a
persistence option: that is how dedup keys come about in the code, `UsePersistenceOption` derives
the key from the option's name).

`view i k s` is everything the steps of request `i` read and write.  Steps of other requests leave it
unchanged (`other_step`), steps of request `i` are functions of it (`self_step`); hence the run of the
whole system and the run in which only request `i`'s actions happen end with the same view of `i`
(`view_run`).
-/
set_option linter.unusedSimpArgs false
namespace GS.C20
open GS.Loader GS.Requestor GS.LinkTrack GS.Concurrent GS.C03L

/-- the action concerns request `i` -/
def Act.idx : Act → Nat
  | .start i | .resp i | .deliver i => i

theorem getElem?_set_ne {α : Type} (l : List α) (i j : Nat) (v : α) (h : j ≠ i) :
    (l.set i v)[j]? = l[j]? := by
  simp [Ne.symm h]

theorem getElem?_set_self {α : Type} (l : List α) (i : Nat) (v : α) :
    (l.set i v)[i]? = l[i]?.map (fun _ => v) := by
  induction l generalizing i with
  | nil => simp
  | cons x t ih =>
    cases i with
    | zero => simp
    | succ n => simpa using ih n

theorem getD_set_ne {α : Type} (l : List α) (i j : Nat) (v d : α) (h : j ≠ i) :
    (l.set i v).getD j d = l.getD j d := by
  simp [List.getD_eq_getElem?_getD, getElem?_set_ne _ _ _ _ h]

/-! ### tracker: operations of a request that is not in `i`'s scope -/

theorem tv_traverse_other' (p : PeerTracker) (i j : Req) (k : Key) (l : Link) (b : Bool)
    (hij : j ≠ i) (hj : aget p.dedupKeys j ≠ some k) :
    tv (p.traverse j l b).1 i k = tv p i k := by
  cases h : aget p.dedupKeys j with
  | some kj => exact tv_traverse_other p i j k kj l b hij (fun e => hj (by rw [h, e])) h
  | none =>
    unfold PeerTracker.traverse PeerTracker.setTracker PeerTracker.setScopeTracker
    simp only [h]
    unfold tv
    simp [aget_aset, hij]

theorem tv_finish_other' (p : PeerTracker) (i j : Req) (k : Key)
    (hij : j ≠ i) (hj : aget p.dedupKeys j ≠ some k) :
    tv (p.finishTracking j).1 i k = tv p i k := by
  cases h : aget p.dedupKeys j with
  | some kj => exact tv_finish_other p i j k kj hij (fun e => hj (by rw [h, e])) h
  | none =>
    unfold PeerTracker.finishTracking PeerTracker.setTracker PeerTracker.setScopeTracker
    simp only [h]
    unfold tv
    simp [aget_aerase, hij]

theorem mem_of_aget {β : Type} (m : List (Nat × β)) (j : Nat) (v : β) (h : aget m j = some v) : (j, v) ∈ m := by
  induction m with
  | nil => simp [aget] at h
  | cons x t ih =>
    obtain ⟨a, w⟩ := x
    simp only [aget] at h
    by_cases ha : a = j
    · simp only [ha, if_true, Option.some.injEq] at h
      subst ha; subst h
      exact List.mem_cons_self
    · simp only [ha, if_false] at h
      exact List.mem_cons_of_mem _ (ih h)

theorem mem_aerase {β : Type} (m : List (Nat × β)) (j : Nat) (e : Nat × β) (h : e ∈ aerase m j) : e ∈ m := by
  unfold aerase at h
  exact (List.mem_filter.mp h).1

theorem mem_aset {β : Type} (m : List (Nat × β)) (j : Nat) (v : β) (e : Nat × β) (h : e ∈ aset m j v) :
    e = (j, v) ∨ e ∈ m := by
  unfold aset at h
  rcases List.mem_cons.mp h with h | h
  · exact Or.inl h
  · exact Or.inr (mem_aerase _ _ _ h)

/-! ### the view of one request -/

structure View where
  req : Option Requestor.State
  lt  : Option LT
  key : Option Key
  own : Option (List (Cid × Blk))
  rr  : Option RespRun
  ch  : Option (List Wire)
  ev  : Option (List Ev)
  rem : List Cid
  tr  : TV

def view (i : Nat) (k : Key) (s : Sys) : View :=
  ⟨s.reqs[i]?, s.lts[i]?, s.keys.getD i none, s.own.getD i none, s.resp[i]?, s.chan[i]?, s.evs[i]?, s.rem,
   tv s.tracker i k⟩

/-- every entry of the tracker's dedup-key table is the key the request was issued with -/
def KInv (s : Sys) : Prop := ∀ e ∈ s.tracker.dedupKeys, s.keys.getD e.1 none = some e.2

/-- request `i` works in a scope of its own: the key `k` is its key and nobody else's, and it has a
    block store of its own -/
structure Own (i : Nat) (k : Key) (s : Sys) : Prop where
  mine   : s.keys.getD i none = some k
  others : ∀ j, j ≠ i → s.keys.getD j none ≠ some k
  store  : (s.own.getD i none).isSome = true

/-! ### `putStore` -/

@[simp] theorem putStore_reqs (s : Sys) (i : Nat) (st) : (putStore s i st).reqs = s.reqs := by
  unfold putStore; split <;> rfl
@[simp] theorem putStore_lts (s : Sys) (i : Nat) (st) : (putStore s i st).lts = s.lts := by
  unfold putStore; split <;> rfl
@[simp] theorem putStore_keys (s : Sys) (i : Nat) (st) : (putStore s i st).keys = s.keys := by
  unfold putStore; split <;> rfl
@[simp] theorem putStore_resp (s : Sys) (i : Nat) (st) : (putStore s i st).resp = s.resp := by
  unfold putStore; split <;> rfl
@[simp] theorem putStore_chan (s : Sys) (i : Nat) (st) : (putStore s i st).chan = s.chan := by
  unfold putStore; split <;> rfl
@[simp] theorem putStore_tracker (s : Sys) (i : Nat) (st) : (putStore s i st).tracker = s.tracker := by
  unfold putStore; split <;> rfl
@[simp] theorem putStore_rem (s : Sys) (i : Nat) (st) : (putStore s i st).rem = s.rem := by
  unfold putStore; split <;> rfl
@[simp] theorem putStore_evs (s : Sys) (i : Nat) (st) : (putStore s i st).evs = s.evs := by
  unfold putStore; split <;> rfl

theorem putStore_own_ne (s : Sys) (i j : Nat) (st) (h : j ≠ i) :
    (putStore s j st).own.getD i none = s.own.getD i none := by
  unfold putStore
  split
  · simp only [setAt]
    exact getD_set_ne _ _ _ _ _ (Ne.symm h)
  · rfl

theorem putStore_own_ne' (s : Sys) (i j : Nat) (st) (h : j ≠ i) :
    (putStore s j st).own[i]?.getD none = s.own[i]?.getD none := by
  have := putStore_own_ne s i j st h
  rwa [List.getD_eq_getElem?_getD, List.getD_eq_getElem?_getD] at this

theorem putStore_own_self (s : Sys) (i : Nat) (st) (h : (s.own.getD i none).isSome = true) :
    (putStore s i st).own.getD i none = some st := by
  unfold putStore
  cases ho : s.own.getD i none with
  | none => rw [ho] at h; cases h
  | some x =>
    simp only [setAt]
    rw [List.getD_eq_getElem?_getD, getElem?_set_self]
    rw [List.getD_eq_getElem?_getD] at ho
    cases hg : s.own[i]? with
    | none => rw [hg] at ho; cases ho
    | some y => rfl

theorem storeOf_own (s : Sys) (i : Nat) (st) (h : s.own.getD i none = some st) : storeOf s i = st := by
  unfold storeOf; rw [h]

/-! ### steps of other requests -/

theorem tv_prepare_other (t : PeerTracker) (i j : Nat) (k : Key) (key : Option Key) (n : Nat)
    (hij : j ≠ i) (hk : key ≠ some k) : tv (prepare t j key n) i k = tv t i k := by
  unfold prepare
  cases key with
  | none =>
    simp only
    split
    · rw [tv_skip_other _ i j k _ hij]
    · rfl
  | some kj =>
    have h1 := tv_dedupKey_other t i j k kj hij (fun e => hk (by rw [e]))
    simp only
    split
    · rw [tv_skip_other _ i j k _ hij, h1]
    · exact h1

theorem tv_respStep_other (t : PeerTracker) (rem : List Cid) (i j : Nat) (k : Key) (rr : RespRun)
    (hij : j ≠ i) (hj : aget t.dedupKeys j ≠ some k) : tv (respStep t rem j rr).1 i k = tv t i k := by
  unfold respStep
  split
  · exact tv_finish_other' t i j k hij hj
  · split
    · exact tv_finish_other' t i j k hij hj
    · exact tv_traverse_other' t i j k _ _ hij hj

theorem other_step (i : Nat) (k : Key) (s : Sys) (a : Act) (hj : Act.idx a ≠ i) (hK : KInv s)
    (hk : ∀ j, j ≠ i → s.keys.getD j none ≠ some k) : view i k (Concurrent.step s a) = view i k s := by
  cases a with
  | start j =>
    simp only [Act.idx] at hj
    simp only [Concurrent.step]
    split
    · split
      · rfl
      · generalize reqStart _ _ _ = rq
        obtain ⟨r', ev⟩ := rq
        simp only
        split
        · unfold view
          simp [setAt, getElem?_set_ne _ _ _ _ (Ne.symm hj), putStore_own_ne' _ _ _ _ hj]
        · unfold view
          simp [setAt, getElem?_set_ne _ _ _ _ (Ne.symm hj), putStore_own_ne' _ _ _ _ hj]
          apply tv_prepare_other _ i j k _ _ hj
          have := hk j hj
          rwa [List.getD_eq_getElem?_getD] at this
    · rfl
  | resp j =>
    simp only [Act.idx] at hj
    simp only [Concurrent.step]
    split
    · split
      · rfl
      · have hd : aget s.tracker.dedupKeys j ≠ some k := by
          intro e
          have := hK _ (mem_of_aget _ _ _ e)
          exact hk j hj this
        have ht := tv_respStep_other s.tracker s.rem i j k ‹RespRun› hj hd
        generalize respStep _ _ _ _ = rs at ht
        obtain ⟨t', rr', w⟩ := rs
        unfold view
        simp only at ht
        simp [setAt, getElem?_set_ne _ _ _ _ (Ne.symm hj), ht]
    · rfl
  | deliver j =>
    simp only [Act.idx] at hj
    simp only [Concurrent.step]
    split
    · generalize reqMsg _ _ _ = rq
      obtain ⟨r', ev⟩ := rq
      unfold view
      simp [setAt, getElem?_set_ne _ _ _ _ (Ne.symm hj), putStore_own_ne' _ _ _ _ hj]
    · rfl

/-! ### steps of the request itself -/

theorem tv_prepare_self (t t' : PeerTracker) (i : Nat) (k : Key) (n : Nat) (h : tv t i k = tv t' i k) :
    tv (prepare t i (some k) n) i k = tv (prepare t' i (some k) n) i k := by
  unfold prepare
  have h1 := tv_dedupKey_self t t' i k h
  simp only
  split
  · exact tv_skip_self _ _ i k _ h1
  · exact h1

theorem prepare_dedupKeys (t : PeerTracker) (i : Nat) (k : Key) (n : Nat) :
    (prepare t i (some k) n).dedupKeys = aset t.dedupKeys i k := by
  unfold prepare
  simp only
  split <;> rfl

theorem respStep_self (t t' : PeerTracker) (rem : List Cid) (i : Nat) (k : Key) (rr : RespRun)
    (h : tv t i k = tv t' i k) (hi : aget t.dedupKeys i = some k)
    (hu : ∀ e ∈ t.dedupKeys, e.1 ≠ i → e.2 ≠ k) (hu' : ∀ e ∈ t'.dedupKeys, e.1 ≠ i → e.2 ≠ k) :
    (respStep t rem i rr).2 = (respStep t' rem i rr).2 ∧
    tv (respStep t rem i rr).1 i k = tv (respStep t' rem i rr).1 i k := by
  unfold respStep
  have hf := tv_finish_self t t' i k h hi hu hu'
  split
  · simp only
    exact ⟨trivial, hf.2⟩
  · split
    · simp only
      rw [hf.1]
      exact ⟨rfl, hf.2⟩
    · rename_i n rest _
      have ht := tv_traverse_self t t' i k n.cid (rem.contains n.cid) h hi
      obtain ⟨hb, hv⟩ := ht
      simp only
      have hb1 : (t.traverse i n.cid (rem.contains n.cid)).2.fst = (t'.traverse i n.cid (rem.contains n.cid)).2.fst := by
        rw [hb]
      rw [hb1]
      exact ⟨rfl, hv⟩

theorem self_step (i : Nat) (k : Key) (s t : Sys) (a : Act) (ha : Act.idx a = i)
    (h : view i k s = view i k t)
    (hkey : s.keys.getD i none = some k) (hown : (s.own.getD i none).isSome = true)
    (hact : ∀ rr, s.resp[i]? = some rr → rr.active = true → aget s.tracker.dedupKeys i = some k)
    (hu : ∀ e ∈ s.tracker.dedupKeys, e.1 ≠ i → e.2 ≠ k) (hu' : ∀ e ∈ t.tracker.dedupKeys, e.1 ≠ i → e.2 ≠ k) :
    view i k (Concurrent.step s a) = view i k (Concurrent.step t a) := by
  have h0 := h
  simp only [view, View.mk.injEq] at h
  obtain ⟨h1, h2, h3, h4, h5, h6, h7, h8, h9⟩ := h
  have hown' : (t.own.getD i none).isSome = true := by rw [← h4]; exact hown
  have hkey' : t.keys.getD i none = some k := h3.symm.trans hkey
  have hst : storeOf s i = storeOf t i := by
    unfold storeOf
    rw [h4]
    cases ho : t.own.getD i none with
    | none => rw [ho] at hown'; cases hown'
    | some x => rfl
  have hev : s.evs.getD i [] = t.evs.getD i [] := by
    rw [List.getD_eq_getElem?_getD, List.getD_eq_getElem?_getD, h7]
  have hch : s.chan.getD i [] = t.chan.getD i [] := by
    rw [List.getD_eq_getElem?_getD, List.getD_eq_getElem?_getD, h6]
  have ps := fun st => putStore_own_self s i st hown
  have pt := fun st => putStore_own_self t i st hown'
  cases a with
  | start j =>
    simp only [Act.idx] at ha
    subst ha
    simp only [Concurrent.step]
    rw [h1, h2, hst, hev, hkey, hkey']
    cases hr : t.reqs[j]? with
    | none => exact h0
    | some r =>
      cases hl : t.lts[j]? with
      | none => exact h0
      | some lt =>
        simp only
        by_cases hp : (r.phase != Phase.idle) = true
        · simp only [if_pos hp]; exact h0
        · simp only [if_neg hp]
          generalize reqStart r (storeOf t j) lt = rq
          obtain ⟨r', ev⟩ := rq
          simp only
          cases hs : sentSkip ev with
          | none =>
            simp only [view, View.mk.injEq, putStore_reqs, putStore_lts, putStore_keys, putStore_resp, putStore_chan,
              putStore_tracker, putStore_rem, putStore_evs, setAt, getElem?_set_self, ps, pt]
            exact ⟨by rw [h1], h2, h3, trivial, h5, h6, by rw [h7], h8, h9⟩
          | some n =>
            simp only [view, View.mk.injEq, putStore_reqs, putStore_lts, putStore_keys, putStore_resp, putStore_chan,
              putStore_tracker, putStore_rem, putStore_evs, setAt, getElem?_set_self, ps, pt]
            refine ⟨by rw [h1], h2, h3, trivial, by rw [h5], h6, by rw [h7], h8, ?_⟩
            exact tv_prepare_self _ _ j k n h9
  | resp j =>
    simp only [Act.idx] at ha
    subst ha
    simp only [Concurrent.step]
    rw [h5, hch, h8]
    cases hr : t.resp[j]? with
    | none => exact h0
    | some rr =>
      simp only
      cases hac : rr.active with
      | false => simp only [Bool.not_false, if_true]; exact h0
      | true =>
        simp only [Bool.not_true, Bool.false_eq_true, if_false]
        have hi := hact rr (h5.trans hr) hac
        have hrs := respStep_self s.tracker t.tracker t.rem j k rr h9 hi hu hu'
        generalize respStep s.tracker t.rem j rr = x at hrs
        generalize respStep t.tracker t.rem j rr = y at hrs
        obtain ⟨x1, x2, x3⟩ := x
        obtain ⟨y1, y2, y3⟩ := y
        simp only [Prod.mk.injEq] at hrs
        obtain ⟨⟨e2, e3⟩, e1⟩ := hrs
        subst e2; subst e3
        simp only [view, View.mk.injEq, setAt, getElem?_set_self]
        exact ⟨h1, h2, h3, h4, by rw [h5], by rw [h6], h7, trivial, e1⟩
  | deliver j =>
    simp only [Act.idx] at ha
    subst ha
    simp only [Concurrent.step]
    rw [h1, h6, hst, hev]
    cases hr : t.reqs[j]? with
    | none => exact h0
    | some r =>
      cases hc : t.chan[j]? with
      | none => exact h0
      | some c =>
        cases c with
        | nil => exact h0
        | cons w ws =>
          simp only
          generalize reqMsg r (storeOf t j) w = rq
          obtain ⟨r', ev⟩ := rq
          simp only [view, View.mk.injEq, putStore_reqs, putStore_lts, putStore_keys, putStore_resp, putStore_chan,
            putStore_tracker, putStore_rem, putStore_evs, setAt, getElem?_set_self, ps, pt]
          exact ⟨by rw [h1], h2, h3, trivial, h5, by rw [h6], by rw [h7], h8, h9⟩

/-! ### invariants of every run -/

theorem putStore_own_isSome (s : Sys) (i j : Nat) (st) (h : (s.own.getD i none).isSome = true) :
    ((putStore s j st).own.getD i none).isSome = true := by
  by_cases hij : j = i
  · subst hij; rw [putStore_own_self s j st h]; rfl
  · rw [putStore_own_ne s i j st hij]; exact h

/-- what a step does to the fields the invariants speak about -/
theorem step_shape (s : Sys) (a : Act) :
    (Concurrent.step s a).keys = s.keys ∧
    (∀ i, (s.own.getD i none).isSome = true → ((Concurrent.step s a).own.getD i none).isSome = true) ∧
    (((Concurrent.step s a).tracker = s.tracker ∧ (Concurrent.step s a).resp = s.resp)
     ∨ (∃ j n lt, a = .start j ∧ (Concurrent.step s a).tracker = prepare s.tracker j (s.keys.getD j none) n ∧
          (Concurrent.step s a).resp = setAt s.resp j { todo := lt, active := true })
     ∨ (∃ j rr, a = .resp j ∧ s.resp[j]? = some rr ∧ rr.active = true ∧
          (Concurrent.step s a).tracker = (respStep s.tracker s.rem j rr).1 ∧
          (Concurrent.step s a).resp = setAt s.resp j (respStep s.tracker s.rem j rr).2.1)) := by
  cases a with
  | start j =>
    simp only [Concurrent.step]
    split
    · split
      · exact ⟨rfl, fun _ h => h, Or.inl ⟨rfl, rfl⟩⟩
      · generalize reqStart _ _ _ = rq
        obtain ⟨r', ev⟩ := rq
        simp only
        split
        · exact ⟨by simp, fun i h => putStore_own_isSome s i j _ h, Or.inl ⟨by simp, by simp⟩⟩
        · rename_i lt _ _ _ _ n _
          exact ⟨by simp, fun i h => putStore_own_isSome s i j _ h, Or.inr (Or.inl ⟨j, n, lt, rfl, rfl, rfl⟩)⟩
    · exact ⟨rfl, fun _ h => h, Or.inl ⟨rfl, rfl⟩⟩
  | resp j =>
    simp only [Concurrent.step]
    split
    · rename_i rr hrr
      cases hac : rr.active with
      | false =>
        simp only [Bool.not_false, if_true]
        exact ⟨by first | trivial | rfl, fun _ h => h, Or.inl ⟨by first | trivial | rfl, by first | trivial | rfl⟩⟩
      | true =>
        simp only [Bool.not_true, Bool.false_eq_true, if_false]
        refine ⟨by first | trivial | rfl, fun _ h => h, Or.inr (Or.inr ⟨j, rr, rfl, hrr, hac, ?_, ?_⟩)⟩
        · first | trivial | rfl
        · first | trivial | rfl
    · exact ⟨rfl, fun _ h => h, Or.inl ⟨rfl, rfl⟩⟩
  | deliver j =>
    simp only [Concurrent.step]
    split
    · generalize reqMsg _ _ _ = rq
      obtain ⟨r', ev⟩ := rq
      exact ⟨by simp, fun i h => putStore_own_isSome s i j _ h, Or.inl ⟨by simp, by simp⟩⟩
    · exact ⟨rfl, fun _ h => h, Or.inl ⟨rfl, rfl⟩⟩

theorem prepare_dedupKeys_mem (t : PeerTracker) (j : Nat) (key : Option Key) (n : Nat) (e : Req × Key)
    (h : e ∈ (prepare t j key n).dedupKeys) : e ∈ t.dedupKeys ∨ (e.1 = j ∧ key = some e.2) := by
  cases key with
  | none =>
    have : (prepare t j none n).dedupKeys = t.dedupKeys := by
      unfold prepare; simp only; split <;> rfl
    rw [this] at h
    exact Or.inl h
  | some kj =>
    rw [prepare_dedupKeys] at h
    rcases mem_aset _ _ _ _ h with h | h
    · right; rw [h]; exact ⟨rfl, rfl⟩
    · exact Or.inl h

theorem respStep_dedupKeys_mem (t : PeerTracker) (rem : List Cid) (j : Nat) (rr : RespRun) (e : Req × Key)
    (h : e ∈ (respStep t rem j rr).1.dedupKeys) : e ∈ t.dedupKeys := by
  unfold respStep at h
  split at h
  · simp only at h
    rw [dedupKeys_finish] at h
    exact mem_aerase _ _ _ h
  · split at h
    · simp only at h
      rw [dedupKeys_finish] at h
      exact mem_aerase _ _ _ h
    · simp only at h
      rw [dedupKeys_traverse] at h
      exact h

theorem respStep_active (t : PeerTracker) (rem : List Cid) (j : Nat) (rr : RespRun)
    (h : (respStep t rem j rr).2.1.active = true) : (respStep t rem j rr).1.dedupKeys = t.dedupKeys := by
  unfold respStep at h ⊢
  split
  · rename_i hm; simp only [hm, if_true] at h; cases h
  · rename_i hm
    simp only [hm, if_false] at h
    split
    · rename_i hn; simp only [hn] at h; cases h
    · simp only
      rw [dedupKeys_traverse]

theorem KInv_step (s : Sys) (a : Act) (h : KInv s) : KInv (Concurrent.step s a) := by
  obtain ⟨hk, _, hsh⟩ := step_shape s a
  intro e he
  rw [hk]
  rcases hsh with ⟨ht, _⟩ | ⟨j, n, lt, _, ht, _⟩ | ⟨j, rr, _, _, _, ht, _⟩
  · rw [ht] at he; exact h e he
  · rw [ht] at he
    rcases prepare_dedupKeys_mem _ _ _ _ _ he with he | ⟨h1, h2⟩
    · exact h e he
    · rw [h1]; exact h2
  · rw [ht] at he
    exact h e (respStep_dedupKeys_mem _ _ _ _ _ he)

theorem KInv_run (s : Sys) (sched : List Act) (h : KInv s) : KInv (Concurrent.run s sched) := by
  induction sched generalizing s with
  | nil => exact h
  | cons a rest ih => exact ih _ (KInv_step s a h)

theorem Own_step (i : Nat) (k : Key) (s : Sys) (a : Act) (h : Own i k s) : Own i k (Concurrent.step s a) := by
  obtain ⟨hk, ho, _⟩ := step_shape s a
  exact ⟨by rw [hk]; exact h.mine, by rw [hk]; exact h.others, ho i h.store⟩

theorem Own_run (i : Nat) (k : Key) (s : Sys) (sched : List Act) (h : Own i k s) : Own i k (Concurrent.run s sched) := by
  induction sched generalizing s with
  | nil => exact h
  | cons a rest ih => exact ih _ (Own_step i k s a h)

/-- while the responder works on request `i`, the tracker knows `i`'s dedup key -/
def ActV (i : Nat) (k : Key) (s : Sys) : Prop :=
  ∀ rr, s.resp[i]? = some rr → rr.active = true → aget s.tracker.dedupKeys i = some k

theorem others_keys (i : Nat) (k : Key) (s : Sys) (hK : KInv s) (hO : Own i k s) :
    ∀ e ∈ s.tracker.dedupKeys, e.1 ≠ i → e.2 ≠ k := by
  intro e he hne heq
  have := hK e he
  rw [heq] at this
  exact hO.others e.1 hne this

theorem ActV_step (i : Nat) (k : Key) (s : Sys) (a : Act) (hK : KInv s) (hO : Own i k s) (h : ActV i k s) :
    ActV i k (Concurrent.step s a) := by
  by_cases ha : Act.idx a = i
  · obtain ⟨_, _, hsh⟩ := step_shape s a
    rcases hsh with ⟨ht, hr⟩ | ⟨j, n, lt, hj, ht, _⟩ | ⟨j, rr, hj, hrr, hac, ht, hr⟩
    · intro rr' h1 h2
      rw [ht]
      rw [hr] at h1
      exact h rr' h1 h2
    · intro rr' _ _
      rw [hj] at ha
      simp only [Act.idx] at ha
      subst ha
      rw [ht, hO.mine, prepare_dedupKeys, aget_aset]
      simp
    · intro rr' h1 h2
      rw [hj] at ha
      simp only [Act.idx] at ha
      subst ha
      rw [hr] at h1
      simp only [setAt, getElem?_set_self, hrr, Option.map_some, Option.some.injEq] at h1
      subst h1
      rw [ht, respStep_active _ _ _ _ h2]
      exact h rr hrr hac
  · have hv := other_step i k s a ha hK hO.others
    simp only [view, View.mk.injEq, tv, TV.mk.injEq] at hv
    intro rr' h1 h2
    rw [hv.2.2.2.2.1] at h1
    rw [hv.2.2.2.2.2.2.2.2.1]
    exact h rr' h1 h2

/-- **the whole run and the run of request `i` alone end with the same view of `i`** -/
theorem view_run (i : Nat) (k : Key) (sched : List Act) (s t : Sys)
    (hv : view i k s = view i k t) (hKs : KInv s) (hKt : KInv t) (hOs : Own i k s) (hOt : Own i k t)
    (hA : ActV i k s) :
    view i k (Concurrent.run s sched) = view i k (Concurrent.run t (sched.filter (fun a => Act.idx a == i))) := by
  induction sched generalizing s t with
  | nil => exact hv
  | cons a rest ih =>
    by_cases ha : Act.idx a = i
    · have hb : (Act.idx a == i) = true := by simpa using ha
      simp only [List.filter_cons, hb, if_true, Concurrent.run, List.foldl_cons]
      exact ih (Concurrent.step s a) (Concurrent.step t a)
        (self_step i k s t a ha hv hOs.mine hOs.store hA (others_keys i k s hKs hOs) (others_keys i k t hKt hOt))
        (KInv_step s a hKs) (KInv_step t a hKt) (Own_step i k s a hOs) (Own_step i k t a hOt)
        (ActV_step i k s a hKs hOs hA)
    · have hb : (Act.idx a == i) = false := by simpa using ha
      simp only [List.filter_cons, hb, Bool.false_eq_true, if_false, Concurrent.run, List.foldl_cons]
      exact ih (Concurrent.step s a) t
        ((other_step i k s a ha hKs hOs.others).trans hv)
        (KInv_step s a hKs) hKt (Own_step i k s a hOs) hOt
        (ActV_step i k s a hKs hOs hA)

end GS.C20
