/-
Model of the DAG-CBOR codec as go-graphsync uses it (core Lean only).

Mirrors, for the value fragment the wire format needs:

  go-ipld-prime v0.24.0  codec/dagcbor/marshal.go    Encode  (MapSortMode_RFC7049, AllowLinks)
  go-ipld-prime v0.24.0  codec/dagcbor/unmarshal.go  Decode  (AllowLinks, strict = !RelaxedDecode)
  polydawn/refmt v0.90.0 cbor/cborDecoder*.go        tokenizer with
        CoerceUndefToNull, RejectIndefinite, RejectNonMinimalInteger, RejectNaN, RejectInfinity
        (RejectNarrowFloat is NOT set: 16/32-bit floats are accepted and widened)
  go-cid v0.6.2          cid.Cast                    (validity of tag-42 payloads)
  go-varint v0.1.0       FromUvarint / ReadUvarint   (minimal, at most 9 bytes)

These libraries are external: this file is a *model* of them, validated only by differential
testing (ops `cbor`, `cborenc` of component `wire`), not verified.

What the real decoder rejects / accepts, determined by experiment and mirrored here:
  * non-minimal heads (ints, lengths, tags): rejected
  * indefinite lengths (0x5f 0x7f 0x9f 0xbf), break 0xff: rejected
  * additional info 28..30: rejected
  * simple values other than false/true/null/undefined: rejected; undefined decodes as null
  * float16 / float32: accepted, widened to float64; NaN and +-Inf rejected (any width)
  * tags: at most ONE tag per item; the tag number must be minimal and < 2^63; a tag on anything
    but a byte string is silently IGNORED (also on map keys); a tagged byte string must be
    tag 42 with payload 0x00 ++ <valid binary CID>
  * map keys must be text strings; duplicate keys rejected; key ORDER IS NOT CHECKED
  * text strings are not checked for UTF-8
  * negative ints below -2^63 rejected, EXCEPT the head argument 2^64-1 which (uint64 overflow in
    refmt's decodeNegInt) decodes as the integer 0
  * byte / text strings longer than 33554432 bytes rejected
  * maps / lists nested deeper than 1024 rejected
  * an allocation budget (10485760 units) is charged per item; exceeding it rejects
  * bytes after the top-level item: rejected
-/
namespace GS.Cbor

abbrev Bytes := List UInt8

/-- IPLD data-model value as seen on the wire. -/
inductive Val where
  | uint  (n : Nat)                      -- 0 <= n < 2^64
  | nint  (n : Nat)                      -- the integer -1-n, 0 <= n < 2^63
  | bytes (b : Bytes)
  | text  (b : Bytes)                    -- raw bytes of the string (no UTF-8 check in Go)
  | array (xs : List Val)
  | map   (kvs : List (Bytes × Val))     -- ordered entries
  | link  (cid : Bytes)                  -- binary CID (without the 0x00 multibase prefix)
  | bool  (b : Bool)
  | null
  | float (bits : Nat)                   -- IEEE-754 binary64 bit pattern, < 2^64
deriving Repr, Inhabited

def maxDepth : Nat := 1024
def defaultBudget : Nat := 10485760
def maxStrLen : Nat := 33554432

/-! ## big-endian integers -/

/-- `k` bytes, big endian, of `n` (low `8k` bits). -/
def beBytes : Nat → Nat → Bytes
  | 0, _ => []
  | k + 1, n => UInt8.ofNat (n / 256 ^ k) :: beBytes k n

def beNat (bs : Bytes) : Nat := bs.foldl (fun acc b => acc * 256 + b.toNat) 0

/-- split off exactly `k` bytes -/
def takeN (k : Nat) (bs : Bytes) : Option (Bytes × Bytes) :=
  if k ≤ bs.length then some (bs.take k, bs.drop k) else none

/-! ## heads -/

/-- CBOR head: major type `m` (0..7) with argument `n` (< 2^64), shortest form. -/
def encodeHead (m n : Nat) : Bytes :=
  if n < 24 then [UInt8.ofNat (m * 32 + n)]
  else if n < 256 then [UInt8.ofNat (m * 32 + 24), UInt8.ofNat n]
  else if n < 65536 then UInt8.ofNat (m * 32 + 25) :: beBytes 2 n
  else if n < 4294967296 then UInt8.ofNat (m * 32 + 26) :: beBytes 4 n
  else UInt8.ofNat (m * 32 + 27) :: beBytes 8 n

/-- argument of a head whose additional-info field is `ai`; `none` for reserved/indefinite `ai`
    and for non-minimal encodings (refmt `decodeUint` with RejectNonMinimalInteger). -/
def decodeArg (ai : Nat) (bs : Bytes) : Option (Nat × Bytes) :=
  if ai < 24 then some (ai, bs)
  else if ai = 24 then
    match takeN 1 bs with
    | some (h, r) => if beNat h < 24 then none else some (beNat h, r)
    | none => none
  else if ai = 25 then
    match takeN 2 bs with
    | some (h, r) => if beNat h < 256 then none else some (beNat h, r)
    | none => none
  else if ai = 26 then
    match takeN 4 bs with
    | some (h, r) => if beNat h < 65536 then none else some (beNat h, r)
    | none => none
  else if ai = 27 then
    match takeN 8 bs with
    | some (h, r) => if beNat h < 4294967296 then none else some (beNat h, r)
    | none => none
  else none

/-! ## unsigned varints (go-varint: minimal, <= 9 bytes, < 2^63) -/

def uvarintEnc : Nat → Nat → Bytes
  | 0, _ => []
  | fuel + 1, n => if n < 128 then [UInt8.ofNat n] else UInt8.ofNat (n % 128 + 128) :: uvarintEnc fuel (n / 128)

/-- `binary.PutUvarint` (for values < 2^64: at most 10 bytes). -/
def putUvarint (n : Nat) : Bytes := uvarintEnc 10 n

/-- `varint.FromUvarint` / `varint.ReadUvarint`: value and the remaining bytes. `i` = index of the
    current byte, `shift` = 7*i, `acc` = value so far. -/
def uvarintGo : Bytes → Nat → Nat → Option (Nat × Bytes)
  | [], _, _ => none
  | b :: rest, i, acc =>
    if (i = 8 ∧ b.toNat ≥ 128) ∨ i ≥ 9 then none
    else if b.toNat < 128 then
      if b.toNat = 0 ∧ i > 0 then none else some (acc + b.toNat * 2 ^ (7 * i), rest)
    else uvarintGo rest (i + 1) (acc + (b.toNat - 128) * 2 ^ (7 * i))

def uvarint (bs : Bytes) : Option (Nat × Bytes) := uvarintGo bs 0 0

/-! ## binary CIDs (go-cid `Cast`) -/

/-- multihash.readMultihashFromBuf: (code, digest, rest). -/
def readMultihash (bs : Bytes) : Option (Nat × Bytes × Bytes) :=
  if bs.length < 2 then none else
  match uvarint bs with
  | none => none
  | some (code, r1) =>
    match uvarint r1 with
    | none => none
    | some (len, r2) =>
      if len > 2147483647 then none
      else if len > r2.length then none
      else some (code, r2.take len, r2.drop len)

/-- parsed CID: version, codec, multihash code, digest -/
structure CidParts where
  version : Nat
  codec   : Nat
  mhType  : Nat
  digest  : Bytes
deriving Repr, DecidableEq

/-- `cid.Cast`: the whole slice must be exactly one CID. -/
def parseCid (bs : Bytes) : Option CidParts :=
  match bs with
  | 0x12 :: 0x20 :: _ :: _ =>
    -- CIDv0 branch: len > 2 and starts with sha2-256/32
    if bs.length = 34 then some ⟨0, 0x70, 0x12, bs.drop 2⟩ else none
  | _ =>
    match uvarint bs with
    | none => none
    | some (vers, r1) =>
      if vers ≠ 1 then none else
      match uvarint r1 with
      | none => none
      | some (codec, r2) =>
        match readMultihash r2 with
        | none => none
        | some (code, dig, rest) => if rest.isEmpty then some ⟨1, codec, code, dig⟩ else none

def validCid (bs : Bytes) : Bool := (parseCid bs).isSome

/-! ## floats (bit level) -/

/-- widen an IEEE binary32 bit pattern to binary64 (exact; `float64(float32)` in Go).
    Inf/NaN map to exponent 0x7ff (rejected later). -/
def f32to64 (w : Nat) : Nat :=
  let s := w / 2147483648 % 2
  let e := w / 8388608 % 256
  let m := w % 8388608
  let sign := s * 9223372036854775808
  if e = 0 then
    if m = 0 then sign
    else
      -- subnormal: m * 2^-149 ; p = index of the highest set bit of m
      let p := Nat.log2 m
      sign + (p + 1023 - 149) * 4503599627370496 + (m - 2 ^ p) * 2 ^ (52 - p)
  else if e = 255 then sign + 2047 * 4503599627370496 + m * 536870912
  else sign + (e + 1023 - 127) * 4503599627370496 + m * 536870912

/-- widen an IEEE binary16 bit pattern to binary64. -/
def f16to64 (h : Nat) : Nat :=
  let s := h / 32768 % 2
  let e := h / 1024 % 32
  let m := h % 1024
  let sign := s * 9223372036854775808
  if e = 0 then
    if m = 0 then sign
    else
      let p := Nat.log2 m
      sign + (p + 1023 - 24) * 4503599627370496 + (m - 2 ^ p) * 2 ^ (52 - p)
  else if e = 31 then sign + 2047 * 4503599627370496 + m * 4398046511104
  else sign + (e + 1023 - 15) * 4503599627370496 + m * 4398046511104

/-- finite = exponent field not all ones (neither NaN nor +-Inf) -/
def finiteF64 (bits : Nat) : Bool := bits / 4503599627370496 % 2048 != 2047

/-! ## map key order (RFC 7049 canonical: shorter first, then bytewise) -/

def bytesLt : Bytes → Bytes → Bool
  | [], [] => false
  | [], _ :: _ => true
  | _ :: _, [] => false
  | a :: as, b :: bs => if a.toNat < b.toNat then true else if b.toNat < a.toNat then false else bytesLt as bs

/-- `a` strictly before `b` in the encoder's sort order -/
def keyLt (a b : Bytes) : Bool :=
  a.length < b.length || (a.length == b.length && bytesLt a b)

def insertKV (kv : Bytes × Val) : List (Bytes × Val) → List (Bytes × Val)
  | [] => [kv]
  | x :: xs => if keyLt kv.1 x.1 then kv :: x :: xs else x :: insertKV kv xs

/-- stable insertion sort by key (entries with equal keys keep their relative order) -/
def sortKVs (kvs : List (Bytes × Val)) : List (Bytes × Val) :=
  kvs.foldr insertKV []

def hasDupKey : List (Bytes × Val) → Bool
  | [] => false
  | (k, _) :: rest => rest.any (fun kv => kv.1 == k) || hasDupKey rest

/-! ## encoder -/

mutual
/-- encoding without sorting maps -/
def encodeRaw : Val → Bytes
  | .uint n => encodeHead 0 n
  | .nint n => encodeHead 1 n
  | .bytes b => encodeHead 2 b.length ++ b
  | .text b => encodeHead 3 b.length ++ b
  | .array xs => encodeHead 4 xs.length ++ encodeRawList xs
  | .map kvs => encodeHead 5 kvs.length ++ encodeRawKVs kvs
  | .link c => [0xd8, 0x2a] ++ (encodeHead 2 (c.length + 1) ++ (0 :: c))
  | .bool false => [0xf4]
  | .bool true => [0xf5]
  | .null => [0xf6]
  | .float bits => 0xfb :: beBytes 8 bits
def encodeRawList : List Val → Bytes
  | [] => []
  | v :: vs => encodeRaw v ++ encodeRawList vs
def encodeRawKVs : List (Bytes × Val) → Bytes
  | [] => []
  | (k, v) :: kvs => (encodeHead 3 k.length ++ k) ++ (encodeRaw v ++ encodeRawKVs kvs)
end

mutual
/-- sort every map (recursively) into the encoder's key order -/
def sortVal : Val → Val
  | .array xs => .array (sortValList xs)
  | .map kvs => .map (sortKVs (sortValKVs kvs))
  | v => v
def sortValList : List Val → List Val
  | [] => []
  | v :: vs => sortVal v :: sortValList vs
def sortValKVs : List (Bytes × Val) → List (Bytes × Val)
  | [] => []
  | (k, v) :: kvs => (k, sortVal v) :: sortValKVs kvs
end

/-- `dagcbor.Encode`: maps are sorted on the way out. -/
def encodeVal (v : Val) : Bytes := encodeRaw (sortVal v)

/-! ## decoder -/

/-- a map key: a text string, optionally carrying one (ignored) tag -/
def decKey (bs : Bytes) : Option (Bytes × Bytes) :=
  let textKey (b : UInt8) (rest : Bytes) : Option (Bytes × Bytes) :=
    if b.toNat / 32 = 3 then
      match decodeArg (b.toNat % 32) rest with
      | some (n, r) => if n > maxStrLen then none else takeN n r
      | none => none
    else none
  match bs with
  | [] => none
  | b :: rest =>
    if b.toNat / 32 = 6 then
      match decodeArg (b.toNat % 32) rest with
      | some (t, b' :: rest') => if t ≥ 9223372036854775808 then none else textKey b' rest'
      | _ => none
    else textKey b rest

/-- major type 0 -/
def decUInt (ai : Nat) (rest : Bytes) : Option (Val × Bytes) :=
  match decodeArg ai rest with
  | some (n, r) => some (.uint n, r)
  | none => none

/-- major type 1 -/
def decNInt (ai : Nat) (rest : Bytes) : Option (Val × Bytes) :=
  match decodeArg ai rest with
  | some (n, r) =>
    if n = 18446744073709551615 then some (.uint 0, r)      -- refmt overflow quirk
    else if n ≥ 9223372036854775808 then none
    else some (.nint n, r)
  | none => none

/-- a byte string that carried tag `t`: only tag 42 with 0x00 ++ <valid CID> -/
def taggedBytes (t : Nat) (s r' : Bytes) : Option (Val × Bytes) :=
  if t = 42 then
    match s with
    | 0 :: c => if validCid c then some (.link c, r') else none
    | _ => none
  else none

/-- major type 2; `tag` = the tag just read -/
def decBytes (tag : Option Nat) (ai : Nat) (rest : Bytes) : Option (Val × Bytes) :=
  match decodeArg ai rest with
  | some (n, r) =>
    if n > maxStrLen then none else
    match takeN n r with
    | some (s, r') =>
      match tag with
      | none => some (.bytes s, r')
      | some t => taggedBytes t s r'
    | none => none
  | none => none

/-- major type 3 -/
def decText (ai : Nat) (rest : Bytes) : Option (Val × Bytes) :=
  match decodeArg ai rest with
  | some (n, r) =>
    if n > maxStrLen then none else
    match takeN n r with
    | some (s, r') => some (.text s, r')
    | none => none
  | none => none

/-- a float of `k` bytes widened by `widen` -/
def decFloat (k : Nat) (widen : Nat → Nat) (rest : Bytes) : Option (Val × Bytes) :=
  match takeN k rest with
  | some (h, r) => if finiteF64 (widen (beNat h)) then some (.float (widen (beNat h)), r) else none
  | none => none

/-- major type 7 -/
def decSimple (ai : Nat) (rest : Bytes) : Option (Val × Bytes) :=
  if ai = 20 then some (.bool false, rest)
  else if ai = 21 then some (.bool true, rest)
  else if ai = 22 then some (.null, rest)
  else if ai = 23 then some (.null, rest)
  else if ai = 25 then decFloat 2 f16to64 rest
  else if ai = 26 then decFloat 4 f32to64 rest
  else if ai = 27 then decFloat 8 id rest
  else none

/-- the items that contain no further items (major types 0-3 and 7; 4, 5, 6 are handled by
    `decVal`); `tag` = the tag just read -/
def decScalar (tag : Option Nat) (b : UInt8) (rest : Bytes) : Option (Val × Bytes) :=
  if b.toNat / 32 = 0 then decUInt (b.toNat % 32) rest
  else if b.toNat / 32 = 1 then decNInt (b.toNat % 32) rest
  else if b.toNat / 32 = 2 then decBytes tag (b.toNat % 32) rest
  else if b.toNat / 32 = 3 then decText (b.toNat % 32) rest
  else decSimple (b.toNat % 32) rest

/-- wrap decoded list items -/
def arrayK : Option (List Val × Bytes) → Option (Val × Bytes)
  | some (xs, r') => some (.array xs, r')
  | none => none

/-- wrap decoded map entries; duplicate keys are rejected -/
def mapK : Option (List (Bytes × Val) × Bytes) → Option (Val × Bytes)
  | some (kvs, r') => if hasDupKey kvs then none else some (.map kvs, r')
  | none => none

mutual
/-- one data item. `fuel` bounds the recursion (`GS.Cbor.decodeVal_fuel_indep`: any value >= twice
    the number of bytes the item occupies gives the same result, so running out of fuel never
    happens in `decodeVal`), `depth` = number of enclosing maps/lists, `tag` = the tag just read. -/
def decVal : Nat → Nat → Option Nat → Bytes → Option (Val × Bytes)
  | 0, _, _, _ => none
  | _ + 1, _, _, [] => none
  | fuel + 1, depth, tag, b :: rest =>
    if b.toNat / 32 = 4 then
      (decodeArg (b.toNat % 32) rest).bind fun nr =>
        if depth ≥ maxDepth then none else arrayK (decList fuel (depth + 1) nr.1 nr.2)
    else if b.toNat / 32 = 5 then
      (decodeArg (b.toNat % 32) rest).bind fun nr =>
        if depth ≥ maxDepth then none else mapK (decKVs fuel (depth + 1) nr.1 nr.2)
    else if b.toNat / 32 = 6 then
      match tag with
      | some _ => none
      | none =>
        (decodeArg (b.toNat % 32) rest).bind fun tr =>
          if tr.1 ≥ 9223372036854775808 then none else decVal fuel depth (some tr.1) tr.2
    else decScalar tag b rest
/-- exactly `n` items -/
def decList : Nat → Nat → Nat → Bytes → Option (List Val × Bytes)
  | _, _, 0, bs => some ([], bs)
  | 0, _, _ + 1, _ => none
  | fuel + 1, depth, n + 1, bs =>
    match decVal fuel depth none bs with
    | some (v, r) =>
      match decList fuel depth n r with
      | some (vs, r') => some (v :: vs, r')
      | none => none
    | none => none
/-- exactly `n` key/value entries -/
def decKVs : Nat → Nat → Nat → Bytes → Option (List (Bytes × Val) × Bytes)
  | _, _, 0, bs => some ([], bs)
  | 0, _, _ + 1, _ => none
  | fuel + 1, depth, n + 1, bs =>
    match decKey bs with
    | some (k, r) =>
      match decVal fuel depth none r with
      | some (v, r') =>
        match decKVs fuel depth n r' with
        | some (kvs, r'') => some ((k, v) :: kvs, r'')
        | none => none
      | none => none
    | none => none
end

/-- Total decoder for one data item followed by arbitrary bytes. The fuel `2 * length + 2` is
    enough for every input: an item costs one unit, an element/entry of a list/map one more, and
    each of them consumes at least one byte. -/
def decodeVal (bs : Bytes) : Option (Val × Bytes) := decVal (2 * bs.length + 2) 0 none bs

/-! ## allocation budget (dagcbor `unmarshal2`): units charged for a decoded value -/

mutual
def cost : Val → Nat
  | .uint _ => 1
  | .nint _ => 1
  | .bytes b => b.length
  | .text b => b.length
  | .array xs => xs.length + costList xs
  | .map kvs => kvs.length + costKVs kvs
  | .link c => c.length + 1
  | .bool _ => 1
  | .null => 0
  | .float _ => 1
def costList : List Val → Nat
  | [] => 0
  | v :: vs => 4 + cost v + costList vs
def costKVs : List (Bytes × Val) → Nat
  | [] => 0
  | (k, v) :: kvs => k.length + 8 + cost v + costKVs kvs
end

/-- `dagcbor.Decode` on a complete block: one item, no trailing bytes, within budget.
    (The Go decoder charges the budget while it goes and stops early; since every charge is
    non-negative and checked immediately, "some check fails" is equivalent to "total > budget".) -/
def decodeBlock (bs : Bytes) : Option Val :=
  match decodeVal bs with
  | some (v, []) => if cost v ≤ defaultBudget then some v else none
  | _ => none

/-! ## values the codec round-trips -/

mutual
/-- encodable and decodable: integer ranges, finite floats, valid CIDs in links, string lengths
    within the decoder's limit, no duplicate keys in any map -/
def wfVal : Val → Bool
  | .uint n => decide (n < 18446744073709551616)
  | .nint n => decide (n < 9223372036854775808)
  | .bytes b => decide (b.length ≤ maxStrLen)
  | .text b => decide (b.length ≤ maxStrLen)
  | .array xs => decide (xs.length < 18446744073709551616) && wfValList xs
  | .map kvs => decide (kvs.length < 18446744073709551616) && !hasDupKey kvs && wfValKVs kvs
  | .link c => validCid c && decide (c.length < maxStrLen)
  | .bool _ => true
  | .null => true
  | .float bits => decide (bits < 18446744073709551616) && finiteF64 bits
def wfValList : List Val → Bool
  | [] => true
  | v :: vs => wfVal v && wfValList vs
def wfValKVs : List (Bytes × Val) → Bool
  | [] => true
  | (k, v) :: kvs => decide (k.length ≤ maxStrLen) && wfVal v && wfValKVs kvs
end

mutual
/-- nesting depth of maps/lists: 0 for scalars -/
def depthVal : Val → Nat
  | .array xs => depthList xs + 1
  | .map kvs => depthKVs kvs + 1
  | _ => 0
def depthList : List Val → Nat
  | [] => 0
  | v :: vs => max (depthVal v) (depthList vs)
def depthKVs : List (Bytes × Val) → Nat
  | [] => 0
  | (_, v) :: kvs => max (depthVal v) (depthKVs kvs)
end

end GS.Cbor
