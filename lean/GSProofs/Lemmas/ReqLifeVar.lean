import GSProofs.Lemmas.ReqLifeErr
/-! Variant of the C04 liveness proof and its decrease under every action. -/
namespace GS.ReqLife
open GS.Generated

def msgW : Msg → Nat
  | .newReq => 43
  | .cancel _ => 3
  | .responses _ _ items _ => items + 3
  | .pause => 36
  | .unpause => 31
  | .getTask => 27
  | .release .paused => 33
  | .release _ => 3

def mboxW : List Msg → Nat
  | [] => 0
  | m :: l => msgW m + mboxW l

@[simp, grind =] theorem mboxW_nil : mboxW [] = 0 := rfl
@[simp, grind =] theorem mboxW_cons (m : Msg) (l : List Msg) : mboxW (m :: l) = msgW m + mboxW l := rfl
@[simp, grind =] theorem mboxW_append (l : List Msg) (m : Msg) : mboxW (l ++ [m]) = mboxW l + msgW m := by
  induction l with
  | nil => simp [mboxW]
  | cons x l ih => simp [mboxW, ih]; omega

def rW : WPhase → Nat
  | .idle => 0
  | .popped => 29
  | .waitTask => 1
  | .top => 13
  | .wait => 12
  | .read => 11
  | .hook => 36
  | .errSend _ => 10
  | .errSent _ => 8
  | .sendReq => 17
  | .fin1 .paused => 35
  | .fin1 (.err _) => 7
  | .finErr _ => 6
  | .waitDone => 1

def rT : TPhase → Nat
  | .none => 0
  | .waitLoad => 6
  | .visiting n more => 2 * n + (if more then 6 else 0)
  | .done _ => 0

def rCP : CPPhase → Nat
  | .none => 0
  | .run buf io => buf + (if io then 8 else 1)
  | .cancelling sent pO eO => 1 + (if pO then 1 else 0) + (if eO then 1 else 0) + (if sent then 0 else 4)
  | .done => 0

def rCE : CEPhase → Nat
  | .none => 0
  | .run buf io => buf.length + (if io then 4 else 2)
  | .sendCC exit buf => if exit then 1 else buf.length + 3
  | .done => 0

/-- the variant of the liveness proof (executor phase, remaining traversal, queued remote items, buffered
    items, mailbox, pending pause / unpause / answer obligations, remaining environment inputs) -/
def V (s : State) : Nat :=
  50 * s.efuel + 40 * s.tfuel + mboxW s.mbox + 30 * s.tqPending + s.rq + rW s.w +
  (if s.reqSent then 0 else 7) + rT s.t + rCP s.cp + rCE s.ce + (if s.pauseMsg then 35 else 0) +
  (if s.reg == .live && s.rstate == .paused && !s.mbox.contains .unpause then 32 else 0) +
  (if s.termSent && s.owed then 4 else 0) + (if s.mphase == .idle then 0 else 2)

macro "var_close" : tactic =>
  `(tactic| (simp only [V]; grind [msgW, rW, rT, rCP, rCE, afterVisit]))


macro "var_step" : tactic =>
  `(tactic| (
    rename_i hs
    simp only [step, env, pushMsg, sendRelease, pauseCheck, dataLoaded, loadFailed, afterVisit,
      Option.map_eq_some_iff] at hs
    (repeat' split at hs) <;> (first | (cases hs; done) | (obtain ⟨_, hs1, hs2⟩ := hs; simp at hs1; subst hs2; var_close) | (cases hs; var_close))))

theorem var_oblUnpause {s s' : State}  (hs : step s .oblUnpause = some s') : V s' < V s := by var_step
theorem var_oblAnswer {s s' : State}  (hs : step s .oblAnswer = some s') : V s' < V s := by var_step
theorem var_wPop {s s' : State}  (hs : step s .wPop = some s') : V s' < V s := by var_step
theorem var_wGet {s s' : State}  (hs : step s .wGet = some s') : V s' < V s := by var_step
theorem var_xTop {s s' : State}  (hs : step s .xTop = some s') : V s' < V s := by var_step
theorem var_xConsume {s s' : State} {c : Nat} (hs : step s (.xConsume c) = some s') : V s' < V s := by var_step
theorem var_xWaitRemote {s s' : State} {d : Bool} {v : Nat} {m : Bool} (hs : step s (.xWaitRemote d v m) = some s') : V s' < V s := by var_step
theorem var_xWaitLocal {s s' : State}  (hs : step s .xWaitLocal = some s') : V s' < V s := by var_step
theorem var_xRead {s s' : State} {hit : Bool} {v : Nat} {m : Bool} (hs : step s (.xRead hit v m) = some s') : V s' < V s := by var_step
theorem var_xHook {s s' : State} {r : HookRes} (hs : step s (.xHook r) = some s') : V s' < V s := by var_step
theorem var_xErrCtx {s s' : State}  (hs : step s .xErrCtx = some s') : V s' < V s := by var_step
theorem var_xAfterErr {s s' : State} {o : SkipOut} (hs : step s (.xAfterErr o) = some s') : V s' < V s := by var_step
theorem var_xSendReq {s s' : State}  (hs : step s .xSendReq = some s') : V s' < V s := by var_step
theorem var_xFin1 {s s' : State}  (hs : step s .xFin1 = some s') : V s' < V s := by var_step
theorem var_xFinCtx {s s' : State}  (hs : step s .xFinCtx = some s') : V s' < V s := by var_step
theorem var_cpRecv {s s' : State}  (hs : step s .cpRecv = some s') : V s' < V s := by var_step
theorem var_cpDrainP {s s' : State}  (hs : step s .cpDrainP = some s') : V s' < V s := by var_step
theorem var_cpSeeClose {s s' : State}  (hs : step s .cpSeeClose = some s') : V s' < V s := by var_step
theorem var_cpDeliver {s s' : State}  (hs : step s .cpDeliver = some s') : V s' < V s := by var_step
theorem var_cpExit {s s' : State}  (hs : step s .cpExit = some s') : V s' < V s := by var_step
theorem var_cpSeeCtx {s s' : State}  (hs : step s .cpSeeCtx = some s') : V s' < V s := by var_step
theorem var_cpSendCancel {s s' : State}  (hs : step s .cpSendCancel = some s') : V s' < V s := by var_step
theorem var_cpSeeCloseP {s s' : State}  (hs : step s .cpSeeCloseP = some s') : V s' < V s := by var_step
theorem var_cpSeeCloseE {s s' : State}  (hs : step s .cpSeeCloseE = some s') : V s' < V s := by var_step
theorem var_cpCancelExit {s s' : State}  (hs : step s .cpCancelExit = some s') : V s' < V s := by var_step
theorem var_ceSeeClose {s s' : State}  (hs : step s .ceSeeClose = some s') : V s' < V s := by var_step
theorem var_ceDeliver {s s' : State}  (hs : step s .ceDeliver = some s') : V s' < V s := by var_step
theorem var_ceExit {s s' : State}  (hs : step s .ceExit = some s') : V s' < V s := by var_step
theorem var_ceSeeCtx {s s' : State}  (hs : step s .ceSeeCtx = some s') : V s' < V s := by var_step
theorem var_ceDeliverCC {s s' : State}  (hs : step s .ceDeliverCC = some s') : V s' < V s := by var_step
theorem var_envNew {s s' : State}  (hs : step s .envNew = some s') : V s' < V s := by var_step
theorem var_envCtxCancel {s s' : State}  (hs : step s .envCtxCancel = some s') : V s' < V s := by var_step
theorem var_envCancelApi {s s' : State}  (hs : step s .envCancelApi = some s') : V s' < V s := by var_step
theorem var_envPause {s s' : State}  (hs : step s .envPause = some s') : V s' < V s := by var_step
theorem var_envUnpause {s s' : State}  (hs : step s .envUnpause = some s') : V s' < V s := by var_step
theorem var_envResp {s s' : State} {p : Nat} {st : Nat} {it : Nat} {hk : Bool} (hs : step s (.envResp p st it hk) = some s') : V s' < V s := by var_step


theorem V_cancelOnError_le (x : State) (e : Option Err) (hm : x.mphase = .idle) :
    V (cancelOnError x e) ≤ V x + 2 := by
  simp only [cancelOnError, terminate, finishTerminate]
  (repeat' split) <;> var_close

theorem V_offline (x : State) : V { x with online := false } = V x := by simp [V]

theorem V_hookCancel_le (x : State) (hm : x.mphase = .idle) : V (hookCancel x) ≤ V x + 2 := by
  have h := V_cancelOnError_le { x with outbox := x.outbox ++ [{ kind := .cancel, peer := x.peer }] }
    (some Err.hook) (by exact hm)
  have h2 : V { x with outbox := x.outbox ++ [{ kind := .cancel, peer := x.peer }] } = V x := by simp [V]
  simp only [hookCancel]
  omega

theorem V_ingest_le (x : State) (it : Nat) : V (ingest x it) ≤ V x + it ∧ (ingest x it).mphase = x.mphase := by
  simp only [ingest]
  split
  · constructor
    · var_close
    · rfl
  · exact ⟨by omega, rfl⟩

theorem V_procTerminations_le (x : State) (st : Nat) (hm : x.mphase = .idle) :
    V (procTerminations x st) ≤ V x + 2 := by
  have h := V_cancelOnError_le x ((StatusCodes.asError st).map Err.status) hm
  simp only [procTerminations]
  (repeat' split) <;> (try rw [V_offline]) <;> omega

theorem V_pop_responses {s : State} {rest : List Msg} {p st it : Nat} {hk : Bool}
    (hb : s.mbox = .responses p st it hk :: rest) : V { s with mbox := rest } + it + 3 = V s := by
  var_close

theorem var_handle_responses {s : State} {rest : List Msg} {p st it : Nat} {hk : Bool} (hm : s.mphase = .idle)
    (hb : s.mbox = .responses p st it hk :: rest) :
    V (handle { s with mbox := rest } (.responses p st it hk)) < V s := by
  have h0 := V_pop_responses hb
  have h1 := V_hookCancel_le { s with mbox := rest } (by exact hm)
  have h2 := V_ingest_le { s with mbox := rest } it
  have h3 := V_procTerminations_le (ingest { s with mbox := rest } it) st (by rw [h2.2]; exact hm)
  simp only [handle]
  (repeat' split) <;> omega

theorem V_cancelLive_le (x : State) (api : Bool) (hm : x.mphase = .idle) : V (cancelLive x api) ≤ V x + 2 := by
  cases api
  · simp only [cancelLive, Bool.false_eq_true, if_false]
    refine Nat.le_trans (V_cancelOnError_le _ _ (by exact hm)) ?_
    simp [V]
  · simp only [cancelLive, if_true]
    refine Nat.le_trans (V_cancelOnError_le _ _ (by exact hm)) ?_
    simp [V]

theorem var_handle_cancel {s : State} {rest : List Msg} {api : Bool} (hm : s.mphase = .idle)
    (hb : s.mbox = .cancel api :: rest) :
    V (handle { s with mbox := rest } (.cancel api)) < V s := by
  have h0 : V { s with mbox := rest } + 3 = V s := by var_close
  have h1 := V_cancelLive_le { s with mbox := rest } api (by exact hm)
  have h2 : V { s with mbox := rest, apiLog := s.apiLog ++ [ApiRes.cancelNotFound] } = V { s with mbox := rest } := by
    simp [V]
  simp only [handle]
  (repeat' split) <;> omega

theorem var_handle {s : State} {m : Msg} {rest : List Msg} (hm : s.mphase = .idle) (hb : s.mbox = m :: rest) :
    V (handle { s with mbox := rest } m) < V s := by
  cases m
  case newReq => simp only [handle]; (repeat' split) <;> var_close
  case cancel api => exact var_handle_cancel hm hb
  case responses p st it hk => exact var_handle_responses hm hb
  case pause => simp only [handle, cancelLive, hookCancel, ingest, procTerminations]; (repeat' split) <;> var_close
  case unpause => simp only [handle, cancelLive, hookCancel, ingest, procTerminations]; (repeat' split) <;> var_close
  case getTask => simp only [handle, cancelLive, hookCancel, ingest, procTerminations]; (repeat' split) <;> var_close
  case release e =>
    cases e <;> simp only [handle, cancelLive, hookCancel, ingest, procTerminations, releaseKeepsPaused, terminate, finishTerminate] <;> (repeat' split) <;> var_close

theorem var_mgr {s s' : State} (hs : step s .mgr = some s') : V s' < V s := by
  simp only [step] at hs
  split at hs
  next m rest hm hb => cases hs; exact var_handle hm hb
  next => cases hs

theorem var_ceRecv {s s' : State} (hs : step s .ceRecv = some s') : V s' < V s := by
  simp only [step] at hs
  split at hs
  next buf e s1 hce hsnd =>
    cases hs
    rcases errSender_cases hsnd with ⟨rw, hm, rfl⟩ | ⟨hm, fatal, hw, rfl, rfl⟩ | ⟨hm, hw, rfl⟩
    · simp only [finishTerminate]; var_close
    · var_close
    · simp only [sendRelease, pushMsg]; var_close
  next => cases hs

theorem var_cpDrainE {s s' : State} (hs : step s .cpDrainE = some s') : V s' < V s := by
  simp only [step] at hs
  split at hs
  next sent pO e s1 hcp hsnd =>
    cases hs
    rcases errSender_cases hsnd with ⟨rw, hm, rfl⟩ | ⟨hm, fatal, hw, rfl, rfl⟩ | ⟨hm, hw, rfl⟩
    · simp only [finishTerminate]; var_close
    · var_close
    · simp only [sendRelease, pushMsg]; var_close
  next => cases hs

/-- **every step strictly decreases the variant** (internal steps and environment inputs alike). -/
theorem var_step_lt {s s' : State} {a : Action} (hs : step s a = some s') : V s' < V s := by
  cases a with
  | envNew => exact var_envNew hs
  | envCtxCancel => exact var_envCtxCancel hs
  | envCancelApi => exact var_envCancelApi hs
  | envPause => exact var_envPause hs
  | envUnpause => exact var_envUnpause hs
  | envResp p st it hk => exact var_envResp hs
  | oblUnpause => exact var_oblUnpause hs
  | oblAnswer => exact var_oblAnswer hs
  | mgr => exact var_mgr hs
  | wPop => exact var_wPop hs
  | wGet => exact var_wGet hs
  | xTop => exact var_xTop hs
  | xConsume c => exact var_xConsume hs
  | xWaitRemote d v m => exact var_xWaitRemote hs
  | xWaitLocal => exact var_xWaitLocal hs
  | xRead hit v m => exact var_xRead hs
  | xHook r => exact var_xHook hs
  | xErrCtx => exact var_xErrCtx hs
  | xAfterErr o => exact var_xAfterErr hs
  | xSendReq => exact var_xSendReq hs
  | xFin1 => exact var_xFin1 hs
  | xFinCtx => exact var_xFinCtx hs
  | ceRecv => exact var_ceRecv hs
  | cpDrainE => exact var_cpDrainE hs
  | cpRecv => exact var_cpRecv hs
  | cpDrainP => exact var_cpDrainP hs
  | cpSeeClose => exact var_cpSeeClose hs
  | cpDeliver => exact var_cpDeliver hs
  | cpExit => exact var_cpExit hs
  | cpSeeCtx => exact var_cpSeeCtx hs
  | cpSendCancel => exact var_cpSendCancel hs
  | cpSeeCloseP => exact var_cpSeeCloseP hs
  | cpSeeCloseE => exact var_cpSeeCloseE hs
  | cpCancelExit => exact var_cpCancelExit hs
  | ceSeeClose => exact var_ceSeeClose hs
  | ceDeliver => exact var_ceDeliver hs
  | ceExit => exact var_ceExit hs
  | ceSeeCtx => exact var_ceSeeCtx hs
  | ceDeliverCC => exact var_ceDeliverCC hs

end GS.ReqLife
