import GSProofs.Lemmas.MsgQueueNotes5
/-!
# C16 — Every queued message is reported sent or failed exactly once

Property text: "While a GraphSync instance runs, every message queued for a peer is eventually
reported either sent or failed, exactly once, to each party that attached itself to it, including
when sending fails, retries run out, the peer cannot be reached, or the peer's queue shuts down while
data is being queued."

Model: `GS.MQ` (lean/GS/Model/MsgQueue.lean).  A message is a builder, identified by its topic; the
parties attached to it are the subscribers registered for it when it is extracted
(`Builder.build`); `seqOf u t log` is what subscriber `u` has been told about message `t`, in order.
All theorems hold for every schedule `acts : List Act` (see GSProofs/C15.lean for what a schedule is).

**(S1) exactly once** — proved at full strength (`exactly_once`): for every subscriber and every
message the notifications are, at every moment, `[]`, `[Queued]` (only while that message is the one
in flight, `queued_only_in_flight`), or complete: `[Queued, Sent, close]`, `[Queued, Error, close]`,
`[Error, close]` (failed by the shutdown drain before it was ever handed to the network).  Never two
outcomes, never an outcome after the close, never a second close.

**(S2) eventually** — stated below (`eventually`, as a comment), NOT proved in Lean.  It is checked
on the real code by the watchdog oracle (every script ends with a fair epilogue: every waiting
caller continues, every network call returns, until nothing moves; then every attachment must be
complete).  It is false for transactions built after the queue goroutine's final drain (known finding
`dead-queue-unreported`; witness `dead_queue_unreported`).
-/
namespace GS.C16
open GS.MQ GS.Alloc

def Reachable (pick : Pick) (peer mr mt mp : Nat) (s : MQ.State) : Prop :=
  ∃ acts : List Act, s = runActs pick (init peer mr mt mp) acts

/-- complete notification sequences, the empty one, and the one of a message in flight -/
def Allowed (l : List Kind) : Prop :=
  l = [] ∨ l = [.queued] ∨ l = [.queued, .sent, .close] ∨ l = [.queued, .error, .close] ∨ l = [.error, .close]

theorem Reachable.inv {pick : Pick} {peer mr mt mp : Nat} {s : MQ.State} (h : Reachable pick peer mr mt mp s) : J s := by
  obtain ⟨acts, rfl⟩ := h
  exact runActs_J pick (init_J peer mr mt mp) acts

theorem allowed_of_done {l : List Kind} (h : Done l) : Allowed l := by
  rcases h with h | h | h | h
  · exact Or.inl h
  · exact Or.inr (Or.inr (Or.inl h))
  · exact Or.inr (Or.inr (Or.inr (Or.inl h)))
  · exact Or.inr (Or.inr (Or.inr (Or.inr h)))

/-- what `Mid` says about one subscriber and one topic -/
theorem mid_allowed {s : MQ.State} {m : InFlight} {U : List Sub} {b : Bool} (h : Mid s m U [Kind.queued] b)
    (u : Sub) (t : Nat) : Allowed (seqOf u t s.log) ∧ (seqOf u t s.log = [Kind.queued] → t = m.topic) := by
  by_cases ht : t = m.topic
  · subst ht
    rw [h.seqM u]
    split
    · exact ⟨Or.inr (Or.inl rfl), fun _ => rfl⟩
    · exact ⟨Or.inl rfl, fun _ => rfl⟩
  · refine ⟨allowed_of_done (h.done t u ht), ?_⟩
    intro hq
    rcases h.done t u ht with h' | h' | h' | h' <;> rw [h'] at hq <;> cases hq

/-- **(S1) exactly once, on every schedule, in every state, for every subscriber and message.** -/
theorem exactly_once {pick : Pick} {peer mr mt mp : Nat} {s : MQ.State} (h : Reachable pick peer mr mt mp s)
    (u : Sub) (t : Nat) : Allowed (seqOf u t s.log) := by
  rcases h.inv with hf | hn
  · exact allowed_of_done (hf.done t u)
  · unfold NInv at hn
    cases hp : s.pc with
    | idle => rw [hp] at hn; exact allowed_of_done (hn.done t u)
    | exiting => rw [hp] at hn; exact allowed_of_done (hn.done t u)
    | exited => rw [hp] at hn; exact absurd hn (fun x => x)
    | opening m r =>
      rw [hp] at hn
      cases r with
      | none => obtain ⟨U, hm⟩ := hn; exact (mid_allowed hm u t).1
      | some i => obtain ⟨U, hm⟩ := hn; exact (mid_allowed hm u t).1
    | sending m i => rw [hp] at hn; obtain ⟨U, hm⟩ := hn; exact (mid_allowed hm u t).1
    | resetting m i => rw [hp] at hn; obtain ⟨U, hm⟩ := hn; exact (mid_allowed hm u t).1

/-- the only incomplete, non-empty sequence is `[Queued]`, and only for the message in flight -/
theorem queued_only_in_flight {pick : Pick} {peer mr mt mp : Nat} {s : MQ.State}
    (h : Reachable pick peer mr mt mp s) (u : Sub) (t : Nat) (hq : seqOf u t s.log = [Kind.queued]) :
    ∃ m, s.pc.inflight = some m ∧ t = m.topic := by
  have hnd : ¬ Done [Kind.queued] := by
    intro hd; rcases hd with h' | h' | h' | h' <;> cases h'
  rcases h.inv with hf | hn
  · exact absurd (hq ▸ hf.done t u) hnd
  · unfold NInv at hn
    cases hp : s.pc with
    | idle => rw [hp] at hn; exact absurd (hq ▸ hn.done t u) hnd
    | exiting => rw [hp] at hn; exact absurd (hq ▸ hn.done t u) hnd
    | exited => rw [hp] at hn; exact absurd hn (fun x => x)
    | opening m r =>
      rw [hp] at hn
      cases r with
      | none => obtain ⟨U, hm⟩ := hn; exact ⟨m, rfl, (mid_allowed hm u t).2 hq⟩
      | some i => obtain ⟨U, hm⟩ := hn; exact ⟨m, rfl, (mid_allowed hm u t).2 hq⟩
    | sending m i => rw [hp] at hn; obtain ⟨U, hm⟩ := hn; exact ⟨m, rfl, (mid_allowed hm u t).2 hq⟩
    | resetting m i => rw [hp] at hn; obtain ⟨U, hm⟩ := hn; exact ⟨m, rfl, (mid_allowed hm u t).2 hq⟩

/-- once the queue goroutine is between two messages (or gone) every sequence is complete or empty:
    a message that was handed to the publisher has been reported and closed -/
theorem complete_when_idle {pick : Pick} {peer mr mt mp : Nat} {s : MQ.State}
    (h : Reachable pick peer mr mt mp s) (hpc : s.pc.inflight = none) (u : Sub) (t : Nat) :
    Done (seqOf u t s.log) := by
  rcases h.inv with hf | hn
  · exact hf.done t u
  · unfold NInv at hn
    cases hp : s.pc with
    | idle => rw [hp] at hn; exact hn.done t u
    | exiting => rw [hp] at hn; exact hn.done t u
    | exited => rw [hp] at hn; exact absurd hn (fun x => x)
    | opening m r => rw [hp] at hpc; cases hpc
    | sending m i => rw [hp] at hpc; cases hpc
    | resetting m i => rw [hp] at hpc; cases hpc

/-
**(S2) eventually — statement (not proved).**  With `S : Sys MQ.State Act` whose `step` is `MQ.step`
restricted to effective actions, fair actions `run _` (the queue goroutine is scheduled) and `ack _`
(the network answers every ConnectTo / SendMsg / Reset), for every subscriber `u` attached to a
non-empty builder with topic `t` that is queued while the queue goroutine has not taken its final
drain:

  theorem eventually (hex : Exec S σ) (hwf : WF1 S fair σ) :
      LeadsTo σ (fun s => Attached s u t ∧ s.pc ≠ .exiting ∧ s.pc ≠ .exited)
                (fun s => CompleteOrScrubbed s u t)

where `CompleteOrScrubbed` = `seqOf u t s.log` is one of the three complete sequences, or the request
through which `u` was attached was scrubbed from builder `t` after `u` received an `Error` for it.
Variant: (number of queued builders up to `t`) × (3·maxRetries + 4) + (steps left for the message in
flight: connect, then per attempt send / reset / reconnect).  Needs the additional invariant
"a non-empty queued builder ∧ pc = idle → token" (`builders ≠ [] → signal ∨ sending`).
-/

/-- **(S2) is false after the final drain** (known finding `dead-queue-unreported`): a transaction
    built while the queue goroutine is already in its deferred exit is queued with its subscriber
    attached, the goroutine exits, and every later `run`/`ack` is a no-op: subscriber 7 is never told
    anything about message 0. -/
theorem dead_queue_unreported :
    ∃ s, Reachable pickMin 0 1 (2^30) (2^30) s ∧ s.pc = .exited ∧
      (∃ b ∈ s.builders, b.topic = 0 ∧ (0, 7) ∈ b.subs ∧ b.empty = false) ∧ seqOf 7 0 s.log = [] ∧
      (∀ ok, s.ack pickMin ok = s) ∧ (∀ pw, s.run pickMin pw = s) :=
  ⟨runActs pickMin (init 0 1 (2^30) (2^30))
      [.shutdown, .run true,
       .build { who := .response, req := 0, sub := 7, items := [.block 1 1000 true] },
       .ack true],
    ⟨_, rfl⟩, by decide, ⟨_, List.mem_cons_self, by decide, by decide, by decide⟩, by decide,
    fun ok => ack_exited _ _ _ (by decide), fun pw => run_exited _ _ _ (by decide)⟩

/-- non-vacuity: a reachable state in which one subscriber has a complete failed sequence, another a
    message in flight, after a send failure and exhausted retries -/
example : ∃ s, Reachable pickMin 0 1 (2^30) (2^30) s ∧ seqOf 0 0 s.log = [.queued, .error, .close] ∧
    seqOf 1 1 s.log = [.queued] :=
  ⟨runActs pickMin (init 0 1 (2^30) (2^30))
      [.build { who := .response, req := 0, sub := 0, items := [.block 1 1000 true] }, .run true, .ack true,
       .build { who := .response, req := 1, sub := 1, items := [.block 2 600000 true] },
       .ack false, .ack true, .ack true, .run true],
    ⟨_, rfl⟩, by decide, by decide⟩

end GS.C16
