import GSProofs.Lemmas.MsgQueueAtt5
/-!
# Message queue: attachments — every step keeps `AI` and `W`
-/
namespace GS.MQ
open GS.Alloc

theorem getD_topics {m : InFlight} {U : List Sub} {tp : List (Topic × List Sub)} (h : tp = [(m.topic, U)]) :
    (aget tp m.topic).getD [] = U := by rw [h]; simp [aget]

/-- result of a step: `AI` and `W` -/
def StepOK (f : Req → Sub) (s s' : State) : Prop := AI f s' ∧ ∀ u t r n0, W u t r n0 s → W u t r n0 s'

theorem stepOK_of_outW {f : Req → Sub} {s s' : State} (hai : AI f s) (o : OutW f s s')
    (hinfl : ∀ m, s'.pc.inflight = some m → ∀ r ∈ m.streams, f r ∈ (aget s'.topics m.topic).getD []) : StepOK f s s' :=
  ⟨⟨o.bfun hai.bfun, o.wcore.wfun hai.wfun, hinfl⟩, o.w hai.bfun⟩

theorem attempt_stepOK (pick : Pick) (f : Req → Sub) {s0 s : State} {m : InFlight} {U : List Sub} {σ : List Kind} {b : Bool}
    (i : Nat) (hai : AI f s0) (o0 : OutW f s0 s) (hm : Mid s m U σ b) (hU : ∀ r ∈ m.streams, f r ∈ U) :
    StepOK f s0 (s.attempt pick m i) := by
  have o := o0.trans (attempt_out pick f i hm hU).toW
  apply stepOK_of_outW hai o
  unfold State.attempt
  split
  · intro m' hm' r hr
    have : m = m' := by simpa [Pc.inflight] using hm'
    subst this
    show f r ∈ (aget s.topics m.topic).getD []
    rw [getD_topics hm.topics]; exact hU r hr
  · intro m' hm'
    simp [State.finish, Pc.inflight] at hm'

theorem errfin_stepOK (pick : Pick) (f : Req → Sub) {s0 s : State} {m : InFlight} {U : List Sub} {σ : List Kind} {b : Bool}
    (hai : AI f s0) (o0 : OutW f s0 s) (hm : Mid s m U σ b) (hU : ∀ r ∈ m.streams, f r ∈ U) :
    StepOK f s0 ((s.publishError pick m).finish m) := by
  have o := o0.trans ((publishError_out pick f hm hU).trans (finish_out f _ m)).toW
  apply stepOK_of_outW hai o
  intro m' hm'
  simp [State.finish, Pc.inflight] at hm'

/-- pure field updates that keep builders, closed streams, waiters, log and topics -/
theorem fields_stepOK (f : Req → Sub) {s s' : State} (hai : AI f s) (hb : s'.builders = s.builders)
    (hc : s'.closedStreams = s.closedStreams) (hw : s'.waiters = s.waiters) (hl : s'.log = s.log)
    (ht : s'.topics = s.topics)
    (hpc : ∀ m, s'.pc.inflight = some m → s.pc.inflight = some m) : StepOK f s s' := by
  have o : Out f s s' := Out.same f hb hc (WCore.of_eq hw) ⟨[], by rw [hl]; simp⟩
  apply stepOK_of_outW hai o.toW
  intro m hm r hr
  rw [ht]; exact hai.infl m (hpc m hm) r hr

/-- the blocked call returns -/
theorem ack_stepOK (pick : Pick) (f : Req → Sub) {s : State} (hn : NInv s) (hai : AI f s) (ok : Bool) :
    StepOK f s (s.ack pick ok) := by
  obtain ⟨peer, maxRetries, builders, nextTopic, token, done, sender, pc, closedStreams, waiters,
    nextTicket, topics, pubClosed, alloc, log⟩ := s
  cases pc with
  | idle => exact ⟨hai, fun _ _ _ _ h => h⟩
  | exited => exact ⟨hai, fun _ _ _ _ h => h⟩
  | exiting =>
    unfold State.ack
    simp only
    have o1 := allocStep_out pick f (⟨peer, maxRetries, builders, nextTopic, token, done, sender, .exiting, closedStreams, waiters,
      nextTicket, topics, pubClosed, alloc, log⟩ : State) (.releasePeer peer)
    generalize (State.allocStep pick (⟨peer, maxRetries, builders, nextTopic, token, done, sender, .exiting, closedStreams, waiters,
      nextTicket, topics, pubClosed, alloc, log⟩ : State) (.releasePeer peer)).1 = s1 at o1
    have o3 : Out f s1 ({ s1.emit [Event.exitCallback] with pc := .exited } : State) :=
      Out.same f rfl rfl (WCore.of_eq rfl) ⟨_, rfl⟩
    apply stepOK_of_outW hai (o1.trans o3).toW
    intro m hm; simp [Pc.inflight] at hm
  | opening m r =>
    have hmid : ∃ U b, Mid (⟨peer, maxRetries, builders, nextTopic, token, done, sender, .opening m r, closedStreams, waiters,
        nextTicket, topics, pubClosed, alloc, log⟩ : State) m U [Kind.queued] b := by
      cases r with
      | none => obtain ⟨U, h⟩ := hn; exact ⟨U, _, h⟩
      | some i => obtain ⟨U, h⟩ := hn; exact ⟨U, _, h⟩
    obtain ⟨U, b, hm⟩ := hmid
    have hU : ∀ x ∈ m.streams, f x ∈ U := by
      intro x hx
      have := hai.infl m rfl x hx
      rw [getD_topics hm.topics] at this; exact this
    cases r with
    | none =>
      unfold State.ack
      simp only
      split
      · have hm' : Mid (⟨peer, maxRetries, builders, nextTopic, token, done, true, .opening m none, closedStreams, waiters,
            nextTicket, topics, pubClosed, alloc, log⟩ : State) m U [Kind.queued] b := hm.frame ⟨rfl, rfl, rfl, rfl, rfl⟩
        have oS : Out f (⟨peer, maxRetries, builders, nextTopic, token, done, sender, .opening m none, closedStreams, waiters,
            nextTicket, topics, pubClosed, alloc, log⟩ : State)
            (⟨peer, maxRetries, builders, nextTopic, token, done, true, .opening m none, closedStreams, waiters,
            nextTicket, topics, pubClosed, alloc, log⟩ : State) := Out.same f rfl rfl (WCore.of_eq rfl) ⟨[], by simp⟩
        exact attempt_stepOK pick f 0 hai oS.toW hm' hU
      · have o1 := publishError_out pick f hm hU
        have hm1 := hm.publishError pick
        generalize State.publishError pick _ m = s1 at o1 hm1
        have o2 : Out f s1 ({ s1 with done := true } : State) := Out.same f rfl rfl (WCore.of_eq rfl) ⟨[], by simp⟩
        have o := ((o1.trans o2).trans (finish_out f _ m)).toW
        apply stepOK_of_outW hai o
        intro m' hm'; simp [State.finish, Pc.inflight] at hm'
    | some i =>
      unfold State.ack
      simp only
      split
      · have hm' : Mid (⟨peer, maxRetries, builders, nextTopic, token, done, true, .opening m (some i), closedStreams, waiters,
            nextTicket, topics, pubClosed, alloc, log⟩ : State) m U [Kind.queued] b := hm.frame ⟨rfl, rfl, rfl, rfl, rfl⟩
        have oS : Out f (⟨peer, maxRetries, builders, nextTopic, token, done, sender, .opening m (some i), closedStreams, waiters,
            nextTicket, topics, pubClosed, alloc, log⟩ : State)
            (⟨peer, maxRetries, builders, nextTopic, token, done, true, .opening m (some i), closedStreams, waiters,
            nextTicket, topics, pubClosed, alloc, log⟩ : State) := Out.same f rfl rfl (WCore.of_eq rfl) ⟨[], by simp⟩
        exact attempt_stepOK pick f (i + 1) hai oS.toW hm' hU
      · exact errfin_stepOK pick f hai (Out.refl f _).toW hm hU
  | sending m i =>
    obtain ⟨U, hm⟩ : ∃ U, Mid (⟨peer, maxRetries, builders, nextTopic, token, done, sender, .sending m i, closedStreams, waiters,
        nextTicket, topics, pubClosed, alloc, log⟩ : State) m U [Kind.queued] false := hn
    unfold State.ack
    simp only
    split
    · have o := ((publishSent_out pick f (⟨peer, maxRetries, builders, nextTopic, token, done, sender, .sending m i, closedStreams, waiters,
        nextTicket, topics, pubClosed, alloc, log⟩ : State) m).trans (finish_out f _ m)).toW
      apply stepOK_of_outW hai o
      intro m' hm'; simp [State.finish, Pc.inflight] at hm'
    · exact fields_stepOK f hai rfl rfl rfl rfl rfl (fun m' h => by simpa [Pc.inflight] using h)
  | resetting m i =>
    obtain ⟨U, hm⟩ : ∃ U, Mid (⟨peer, maxRetries, builders, nextTopic, token, done, sender, .resetting m i, closedStreams, waiters,
        nextTicket, topics, pubClosed, alloc, log⟩ : State) m U [Kind.queued] false := hn
    have hU : ∀ x ∈ m.streams, f x ∈ U := by
      intro x hx
      have := hai.infl m rfl x hx
      rw [getD_topics hm.topics] at this; exact this
    unfold State.ack
    simp only
    split
    · exact errfin_stepOK pick f hai (Out.refl f _).toW hm hU
    · exact fields_stepOK f hai rfl rfl rfl rfl rfl (fun m' h => by simpa [Pc.inflight] using h)

/-- one iteration of the select loop -/
theorem run_stepOK (pick : Pick) (f : Req → Sub) {s : State} (hn : NInv s) (hai : AI f s) (pw : Bool) :
    StepOK f s (s.run pick pw) := by
  obtain ⟨peer, maxRetries, builders, nextTopic, token, done, sender, pc, closedStreams, waiters,
    nextTicket, topics, pubClosed, alloc, log⟩ := s
  cases pc with
  | idle =>
    have hi : Idle (⟨peer, maxRetries, builders, nextTopic, token, done, sender, .idle, closedStreams, waiters,
        nextTicket, topics, pubClosed, alloc, log⟩ : State) := hn
    unfold State.run
    simp only
    split
    · have hi0 : Idle (⟨peer, maxRetries, builders, nextTopic, false, done, sender, .idle, closedStreams, waiters,
          nextTicket, topics, pubClosed, alloc, log⟩ : State) := hi.frame ⟨rfl, rfl, rfl, rfl, rfl⟩
      have o0 : OutW f (⟨peer, maxRetries, builders, nextTopic, token, done, sender, .idle, closedStreams, waiters,
          nextTicket, topics, pubClosed, alloc, log⟩ : State)
          (⟨peer, maxRetries, builders, nextTopic, false, done, sender, .idle, closedStreams, waiters,
          nextTicket, topics, pubClosed, alloc, log⟩ : State) := by
        have oS : Out f (⟨peer, maxRetries, builders, nextTopic, token, done, sender, .idle, closedStreams, waiters,
            nextTicket, topics, pubClosed, alloc, log⟩ : State)
            (⟨peer, maxRetries, builders, nextTopic, false, done, sender, .idle, closedStreams, waiters,
            nextTicket, topics, pubClosed, alloc, log⟩ : State) := Out.same f rfl rfl (WCore.of_eq rfl) ⟨[], by simp⟩
        exact oS.toW
      cases he : (⟨peer, maxRetries, builders, nextTopic, false, done, sender, .idle, closedStreams, waiters,
          nextTicket, topics, pubClosed, alloc, log⟩ : State).extract with
      | mk s1 om =>
        cases om with
        | none =>
          obtain ⟨a1, a2, _, a4, _⟩ := (extract_shape _).1 s1 he
          have hrest : s1.closedStreams = closedStreams ∧ s1.waiters = waiters ∧ s1.log = log := by
            unfold State.extract at he
            split at he
            · cases he; exact ⟨rfl, rfl, rfl⟩
            · cases he
          show StepOK f _ s1
          refine ⟨⟨fun b hb => (by rw [a1] at hb; cases hb), fun w hw => hai.wfun w (by rw [← hrest.2.1]; exact hw), ?_⟩, ?_⟩
          · intro m hm; rw [a4] at hm; simp [Pc.inflight] at hm
          · intro u t r n0 hw
            rcases hw with ⟨⟨x, hx, ha⟩, _⟩ | h | h
            · have := ha.nonempty; rw [a2 x hx] at this; cases this
            · exact Or.inr (Or.inl (by rw [hrest.2.2]; exact h))
            · exact Or.inr (Or.inr (h.mono (fun r hr => by rw [hrest.1]; exact hr) ⟨[], by rw [hrest.2.2]; simp⟩))
        | some m =>
          rcases extract_publish_W f hi0 he Kind.queued with ⟨U, h⟩
          rcases h with ⟨hmid, hU, ow⟩ | hnb
          · have o1 := o0.trans ow
            show StepOK f _ (if (s1.publish m.topic Kind.queued).sender = true then _ else _)
            split
            · exact attempt_stepOK pick f 0 hai o1 hmid hU
            · have o2 : Out f (s1.publish m.topic Kind.queued) ({ s1.publish m.topic Kind.queued with pc := .opening m none } : State) :=
                Out.same f rfl rfl (WCore.of_eq rfl) ⟨[], by simp⟩
              apply stepOK_of_outW hai (o1.trans o2.toW)
              intro m' hm' r hr
              have : m = m' := by simpa [Pc.inflight] using hm'
              subst this
              show f r ∈ (aget (s1.publish m.topic Kind.queued).topics m.topic).getD []
              rw [getD_topics hmid.topics]; exact hU r hr
          · exact absurd hai.bfun hnb
    · split
      · have key : ∀ s1 : State, OutW f (⟨peer, maxRetries, builders, nextTopic, token, done, sender, .idle, closedStreams, waiters,
            nextTicket, topics, pubClosed, alloc, log⟩ : State) s1 →
            StepOK f (⟨peer, maxRetries, builders, nextTopic, token, done, sender, .idle, closedStreams, waiters,
            nextTicket, topics, pubClosed, alloc, log⟩ : State)
              ({ (if s1.sender = true then s1.emit [Event.senderClosed] else s1) with pc := .exiting } : State) := by
          intro s1 o1
          have o2 : Out f s1 ({ (if s1.sender = true then s1.emit [Event.senderClosed] else s1) with pc := .exiting } : State) := by
            have e : Out f s1 (if s1.sender = true then s1.emit [Event.senderClosed] else s1) := by
              split
              · exact Out.same f rfl rfl (WCore.of_eq rfl) ⟨_, rfl⟩
              · exact Out.refl f s1
            exact e.trans (Out.same f rfl rfl (WCore.of_eq rfl) ⟨[], by simp⟩)
          apply stepOK_of_outW hai (o1.trans o2.toW)
          intro m hm; simp [Pc.inflight] at hm
        exact key _ (drain_W pick f _ _ hi)
      · exact ⟨hai, fun _ _ _ _ h => h⟩
  | opening m r => exact ⟨hai, fun _ _ _ _ h => h⟩
  | sending m i => exact ⟨hai, fun _ _ _ _ h => h⟩
  | resetting m i => exact ⟨hai, fun _ _ _ _ h => h⟩
  | exiting => exact ⟨hai, fun _ _ _ _ h => h⟩
  | exited => exact ⟨hai, fun _ _ _ _ h => h⟩

theorem closed_inflight_none {s : State} (h : s.closed = true) : s.pc.inflight = none := by
  obtain ⟨peer, maxRetries, builders, nextTopic, token, done, sender, pc, closedStreams, waiters,
    nextTicket, topics, pubClosed, alloc, log⟩ := s
  cases pc <;> first | rfl | (simp [State.closed] at h)

/-- `buildMessage` as seen by callers, with a transaction whose subscriber is its request's: on a closed
    queue the attached subscriber is told `Error` at once -/
theorem buildMsg_outW (pick : Pick) (f : Req → Sub) {s : State} (hn : NInv s) (ticket : Nat) (tx : Tx) (size : Nat)
    (hf : tx.sub = f tx.req) : OutW f s (s.buildMsg pick ticket tx size) := by
  have o := buildMessage_out pick f s ticket tx size hf
  unfold State.buildMsg
  split
  · next hc =>
    have hi := (closed_idle hn hc).quiet (buildMessage_quiet pick s ticket tx size)
    exact o.toW.trans (drain_W pick f 1 _ hi)
  · exact o.toW

/-- the inflight clause of `AI` after a caller's step (which keeps `pc`, and the topics of an open queue) -/
theorem infl_caller (f : Req → Sub) {s s' : State} (hai : AI f s) (hpc : s'.pc = s.pc)
    (htp : s.closed = false → s'.topics = s.topics) :
    ∀ m, s'.pc.inflight = some m → ∀ r ∈ m.streams, f r ∈ (aget s'.topics m.topic).getD [] := by
  intro m hm r hr
  rw [hpc] at hm
  by_cases hc : s.closed = true
  · rw [closed_inflight_none hc] at hm; cases hm
  · rw [htp (by simpa using hc)]; exact hai.infl m hm r hr

theorem buildWith_stepOK (pick : Pick) (f : Req → Sub) {s : State} (hn : NInv s) (hai : AI f s) (tx : Tx) (size : Nat)
    (hf : tx.sub = f tx.req) : StepOK f s (buildWith pick s tx size) := by
  have hinfl := infl_caller f hai (buildWith_pc pick s tx size) (fun hc => (buildWith_quiet pick s tx size hc).topics)
  unfold buildWith at hinfl ⊢
  simp only at hinfl ⊢
  have o0 : Out f s ({ s with nextTicket := s.nextTicket + 1 } : State) := Out.same f rfl rfl (WCore.of_eq rfl) ⟨[], by simp⟩
  have h0 : NInv ({ s with nextTicket := s.nextTicket + 1 } : State) :=
    hn.quiet (Quiet.ofLog [] (by simp) (by simp) (by simp) rfl rfl rfl rfl) rfl
  split
  · next hz =>
    rw [if_pos hz] at hinfl
    exact stepOK_of_outW hai (o0.toW.trans (buildMsg_outW pick f h0 s.nextTicket tx 0 hf)) hinfl
  · next hz =>
    rw [if_neg hz] at hinfl
    have o1 := o0.trans (allocStep_out pick f ({ s with nextTicket := s.nextTicket + 1 } : State) (.alloc s.peer size s.nextTicket))
    have h1 := h0.quiet (allocStep_quiet pick ({ s with nextTicket := s.nextTicket + 1 } : State)
      (.alloc s.peer size s.nextTicket)) rfl
    split
    · next hg =>
      rw [if_pos hg] at hinfl
      exact stepOK_of_outW hai (o1.toW.trans (buildMsg_outW pick f h1 s.nextTicket tx size hf)) hinfl
    · next hg =>
      rw [if_neg hg] at hinfl
      refine ⟨⟨(o1.att hai.bfun).1, ?_, hinfl⟩, ?_⟩
      · intro w hw'
        rcases List.mem_append.mp hw' with h | h
        · exact o1.wcore.wfun hai.wfun w h
        · simp at h; subst h; exact hf
      · intro u t r n0 hw
        have h2 : W u t r n0 (State.allocStep pick ({ s with nextTicket := s.nextTicket + 1 } : State)
            (.alloc s.peer size s.nextTicket)).1 := W.of_out o1 hai.bfun hw
        exact h2

/-- every step, with transactions carrying their request's own subscriber -/
theorem step_stepOK (pick : Pick) (f : Req → Sub) {s : State} (hj : J s) (hai : AI f s) (a : Act)
    (hfa : ∀ tx, a = .build tx → tx.sub = f tx.req) : StepOK f s (step pick s a) := by
  have hn : NInv s := hj
  cases a with
  | run pw => exact run_stepOK pick f hn hai pw
  | ack ok => exact ack_stepOK pick f hn hai ok
  | shutdown => exact fields_stepOK f hai rfl rfl rfl rfl rfl (fun m h => h)
  | env op =>
    have o := allocStep_out pick f s op
    apply stepOK_of_outW hai o.toW
    intro m hm r hr; exact hai.infl m hm r hr
  | build tx =>
    have hf := hfa tx rfl
    show StepOK f s (s.build pick tx)
    rw [build_eq]
    split
    · exact ⟨hai, fun _ _ _ _ h => h⟩
    · exact buildWith_stepOK pick f hn hai tx _ hf
  | wake t0 =>
    show StepOK f s (s.wake pick t0)
    have hinfl := infl_caller f hai (wake_pc pick s t0) (fun hc => (wake_quiet pick s t0 hc).topics)
    unfold State.wake at hinfl ⊢
    cases hfd : s.waiters.find? (fun w => w.ticket == t0 && w.answer.isSome) with
    | none => exact ⟨hai, fun _ _ _ _ h => h⟩
    | some w =>
      rw [hfd] at hinfl
      simp only at hinfl ⊢
      have hwm : w ∈ s.waiters := List.mem_of_find?_eq_some hfd
      -- dropping the waiter: builders, closed streams, log unchanged; fewer waiters
      have hai1 : AI f ({ s with waiters := s.waiters.filter (·.ticket != w.ticket) } : State) :=
        ⟨hai.bfun, fun x hx => hai.wfun x (List.mem_filter.mp hx).1, hai.infl⟩
      have h0 : NInv ({ s with waiters := s.waiters.filter (·.ticket != w.ticket) } : State) :=
        hn.quiet (Quiet.ofLog [] (by simp) (by simp) (by simp) rfl rfl rfl rfl) rfl
      have hW0 : ∀ u t r n0, W u t r n0 s → W u t r n0 ({ s with waiters := s.waiters.filter (·.ticket != w.ticket) } : State) :=
        fun _ _ _ _ h => h
      split
      · next ha =>
        rw [if_pos ha] at hinfl
        have ow := buildMsg_outW pick f h0 w.ticket w.tx w.size (hai.wfun w hwm)
        exact ⟨⟨ow.bfun hai1.bfun, ow.wcore.wfun hai1.wfun, hinfl⟩, fun u t r n0 hw => ow.w hai1.bfun u t r n0 (hW0 u t r n0 hw)⟩
      · next ha =>
        rw [if_neg ha] at hinfl
        have o : Out f ({ s with waiters := s.waiters.filter (·.ticket != w.ticket) } : State)
            (({ s with waiters := s.waiters.filter (·.ticket != w.ticket) } : State).emit [Event.dropped w.ticket]) :=
          Out.same f rfl rfl (WCore.of_eq rfl) ⟨_, rfl⟩
        exact ⟨⟨(o.att hai1.bfun).1, o.wcore.wfun hai1.wfun, hinfl⟩, fun u t r n0 hw => W.of_out o hai1.bfun (hW0 u t r n0 hw)⟩

theorem init_AI (f : Req → Sub) (peer mr mt mp : Nat) : AI f (init peer mr mt mp) :=
  ⟨by intro b hb; simp [init] at hb, by intro w hw; simp [init] at hw, by intro m hm; simp [init, Pc.inflight] at hm⟩

end GS.MQ
