import GS.Model.BudgetRun
namespace GS.C07
end GS.C07
