import GS.Model.Publisher
import GS.Driver.Proto
/-!
line-protocol driver for the publisher model (component `publisher`).

ops (optionally prefixed by a producer tag `@p`, ignored here):
      `startup` | `sub t s` | `unsub s` | `pub t e` | `close t` | `shutdown` | `sync`
out:  one line per op: the return value (`ok` / `true` / `false`), for `sync` the callbacks made
      since the previous `sync`, per subscriber; plus a final line `end <same as sync>`.
Per subscriber the callbacks are printed in order, except that every maximal run of consecutive
OnClose calls is sorted by topic (such a run comes from ranging over a Go map).
-/
namespace GS.Driver.Publisher
open GS.Proto GS.Publisher

structure D where
  sys : Sys := {}
  buf : List Callback := []     -- callbacks since the last sync, oldest first

def cbSub : Callback → Nat
  | .onNext s _ _ => s
  | .onClose s _ => s

/-- sort maximal runs of onClose by topic; `run` = pending close topics -/
def canon : List Callback → List Nat → List String
  | [], run => (sortNat run).map fun t => s!"c{t}"
  | .onClose _ t :: r, run => canon r (t :: run)
  | .onNext _ t e :: r, run => ((sortNat run).map fun t => s!"c{t}") ++ s!"n{t}.{e}" :: canon r []

def render (buf : List Callback) : String :=
  let subs := sortNat ((buf.map cbSub).eraseDups)
  if subs.isEmpty then "-"
  else joinWith " " (subs.map fun s => s!"{s}:" ++ joinWith "," (canon (buf.filter (cbSub · == s)) []))

def callLine (d : D) (a : Api) (boolRet : Bool) : D × String :=
  let r := d.sys.call a
  ({ sys := r.1, buf := d.buf ++ r.2.2 }, if boolRet then toString r.2.1 else "ok")

def stepLine (d : D) (t : Toks) : D × String :=
  -- `@p` producer tag of a parallel block: the file order is a valid linearisation
  let t := match t with
    | tok :: rest => if tok.startsWith "@" then rest else t
    | [] => t
  match t with
  | ["startup"] => if d.sys.started then (d, "bad-op") else callLine d .startup false
  | ["shutdown"] => callLine d .shutdown false
  | ["sync"] => ({ d with buf := [] }, render d.buf)
  | ["sub", a, b] =>
    match a.toNat?, b.toNat? with
    | some a, some b => callLine d (.subscribe a b) true
    | _, _ => (d, "bad-op")
  | ["pub", a, b] =>
    match a.toNat?, b.toNat? with
    | some a, some b => callLine d (.publish a b) false
    | _, _ => (d, "bad-op")
  | ["unsub", a] =>
    match a.toNat? with
    | some a => callLine d (.unsubscribe a) true
    | none => (d, "bad-op")
  | ["close", a] =>
    match a.toNat? with
    | some a => callLine d (.close a) false
    | none => (d, "bad-op")
  | _ => (d, "bad-op")

def handler (ops : List Toks) : List String :=
  let (d, outs) := ops.foldl (fun (acc : D × List String) t =>
    let (d', o) := stepLine acc.1 t
    (d', o :: acc.2)) ({}, [])
  (s!"end {render d.buf}" :: outs).reverse

end GS.Driver.Publisher

def main : IO Unit := GS.Proto.runModel GS.Driver.Publisher.handler
