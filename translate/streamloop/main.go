// Command streamloop regenerates lean/GS/Generated/StreamLoop.lean (property C12) from the shape of
// network/libp2p_impl.go handleNewStream:
//
//	the deferred calls                         s.Close(); recover => Reset + ReceiveError
//	the read loop                              FromMsgReader; on error: the test that separates a
//	                                           clean end of stream from a failure, what is done on a
//	                                           failure, that the loop is left; on success: delivery
//
// The Lean read-loop automaton (GS.Wire.handleStream) is the interpretation of these tables and the
// stream_machine theorems are proved about it, so removing the Reset, the ReceiveError, the return,
// or reordering them breaks a proof. The model's decoder yields `eof` only for the bare io.EOF
// sentinel, so the only accepted end-of-stream test is the identity comparison `err != io.EOF`; any
// other test (errors.Is, string matching, ...) would also swallow decode errors that merely wrap
// io.EOF, and is rejected here as a shape this translator does not know.
//
// usage: go run ./streamloop <repo>      (prints the Lean file; exits non-zero on anything else)
package main

import (
	"fmt"
	"go/ast"
	"go/parser"
	"go/printer"
	"go/token"
	"os"
	"path/filepath"
	"strings"
)

var fset = token.NewFileSet()

func die(n ast.Node, format string, a ...interface{}) {
	where := ""
	if n != nil {
		where = fset.Position(n.Pos()).String() + ": "
	}
	fmt.Fprintf(os.Stderr, "streamloop: %s%s\n", where, fmt.Sprintf(format, a...))
	os.Exit(1)
}

func src(n ast.Node) string {
	var sb strings.Builder
	printer.Fprint(&sb, fset, n)
	return sb.String()
}

// callName: "s.Reset", "gsnet.receiver.ReceiveError", "log.Debugf", ...
func callName(e ast.Expr) string {
	ce, ok := e.(*ast.CallExpr)
	if !ok {
		return ""
	}
	return src(ce.Fun)
}

// act classifies one statement of an error / panic / success branch.
// "" = irrelevant (logging, deadlines, context creation); otherwise an action name.
func act(st ast.Stmt) string {
	switch s := st.(type) {
	case *ast.AssignStmt: // `_ = s.Reset()`, `_ = s.SetReadDeadline(..)`, `ctx := context.Background()`
		if len(s.Rhs) == 1 {
			switch callName(s.Rhs[0]) {
			case "s.Reset":
				return "reset"
			case "s.SetReadDeadline", "context.Background", "s.Conn().RemotePeer":
				return ""
			}
			if ce, ok := s.Rhs[0].(*ast.CallExpr); ok && strings.HasSuffix(src(ce.Fun), ".Select") {
				return "" // picking the message handler for the protocol
			}
		}
	case *ast.GoStmt: // `go gsnet.receiver.ReceiveError(p, err)`
		if src(s.Call.Fun) == "gsnet.receiver.ReceiveError" {
			return "receiveError"
		}
	case *ast.ExprStmt:
		switch n := callName(s.X); {
		case strings.HasPrefix(n, "log."):
			return ""
		case n == "gsnet.receiver.ReceiveMessage":
			return "deliver"
		case n == "gsnet.receiver.ReceiveError":
			return "receiveError"
		case n == "s.Reset":
			return "reset"
		}
	case *ast.ReturnStmt:
		return "return"
	}
	die(st, "statement not understood: %s", src(st))
	return ""
}

func acts(list []ast.Stmt) []string {
	var out []string
	for _, st := range list {
		if a := act(st); a != "" {
			out = append(out, a)
		}
	}
	return out
}

func leanList(as []string) string {
	var xs []string
	for _, a := range as {
		xs = append(xs, "."+a)
	}
	return "[" + strings.Join(xs, ", ") + "]"
}

// handlerState inspects message/v2/message.go: the MessageHandler struct must have no fields, and the
// decode path (FromNet, FromMsgReader, fromIPLD, notEOF) must not use the receiver except to call its
// own methods, nor anything from package sync, nor package-level variables of package v2.
func handlerState(repo string) []string {
	path := filepath.Join(repo, "message/v2/message.go")
	f, err := parser.ParseFile(fset, path, nil, parser.SkipObjectResolution)
	if err != nil {
		die(nil, "%v", err)
	}
	var fields []string
	found := false
	pkgVars := map[string]bool{}
	for _, d := range f.Decls {
		gd, ok := d.(*ast.GenDecl)
		if !ok {
			continue
		}
		for _, sp := range gd.Specs {
			switch s := sp.(type) {
			case *ast.TypeSpec:
				if s.Name.Name != "MessageHandler" {
					continue
				}
				st, ok := s.Type.(*ast.StructType)
				if !ok {
					die(s, "MessageHandler is not a struct")
				}
				found = true
				for _, fl := range st.Fields.List {
					for _, n := range fl.Names {
						fields = append(fields, fmt.Sprintf("%q", n.Name+" "+src(fl.Type)))
					}
					if len(fl.Names) == 0 {
						fields = append(fields, fmt.Sprintf("%q", src(fl.Type)))
					}
				}
			case *ast.ValueSpec:
				if gd.Tok == token.VAR {
					for _, n := range s.Names {
						pkgVars[n.Name] = true
					}
				}
			}
		}
	}
	if !found {
		die(nil, "type MessageHandler not found in %s", path)
	}
	if len(fields) > 0 {
		die(nil, "message/v2 MessageHandler carries state shared by all streams of a node: %s", strings.Join(fields, ", "))
	}
	for _, d := range f.Decls {
		fd, ok := d.(*ast.FuncDecl)
		if !ok || fd.Body == nil {
			continue
		}
		switch fd.Name.Name {
		case "FromNet", "FromMsgReader", "fromIPLD", "notEOF":
		default:
			continue
		}
		recv := ""
		if fd.Recv != nil && len(fd.Recv.List) == 1 && len(fd.Recv.List[0].Names) == 1 {
			recv = fd.Recv.List[0].Names[0].Name
		}
		calls := map[ast.Expr]bool{}
		ast.Inspect(fd.Body, func(n ast.Node) bool {
			if ce, ok := n.(*ast.CallExpr); ok {
				calls[ce.Fun] = true
			}
			return true
		})
		ast.Inspect(fd.Body, func(n ast.Node) bool {
			switch e := n.(type) {
			case *ast.SelectorExpr:
				if id, ok := e.X.(*ast.Ident); ok {
					if id.Name == "sync" || id.Name == "atomic" {
						die(e, "%s uses %s on the decode path", fd.Name.Name, src(e))
					}
					if recv != "" && id.Name == recv && !calls[e] {
						die(e, "%s uses handler state %s on the decode path", fd.Name.Name, src(e))
					}
				}
			case *ast.Ident:
				if pkgVars[e.Name] {
					die(e, "%s uses the package-level variable %s on the decode path", fd.Name.Name, e.Name)
				}
			case *ast.GoStmt:
				die(e, "%s starts a goroutine on the decode path", fd.Name.Name)
			}
			return true
		})
	}
	return fields
}

func main() {
	if len(os.Args) != 2 {
		die(nil, "usage: streamloop <repo>")
	}
	path := filepath.Join(os.Args[1], "network/libp2p_impl.go")
	f, err := parser.ParseFile(fset, path, nil, parser.SkipObjectResolution)
	if err != nil {
		die(nil, "%v", err)
	}
	var fn *ast.FuncDecl
	for _, d := range f.Decls {
		if fd, ok := d.(*ast.FuncDecl); ok && fd.Name.Name == "handleNewStream" && fd.Recv != nil {
			fn = fd
		}
	}
	if fn == nil {
		die(nil, "handleNewStream not found in %s", path)
	}

	var deferred, onPanic []string
	var loop *ast.ForStmt
	for _, st := range fn.Body.List {
		switch s := st.(type) {
		case *ast.DeferStmt:
			if src(s.Call.Fun) == "s.Close" {
				deferred = append(deferred, "close")
				continue
			}
			fl, ok := s.Call.Fun.(*ast.FuncLit)
			if !ok || len(fl.Body.List) != 1 {
				die(s, "deferred call not understood")
			}
			ifs, ok := fl.Body.List[0].(*ast.IfStmt)
			if !ok || ifs.Init == nil || !strings.Contains(src(ifs.Init), "gsnet.panicHandler(recover())") ||
				src(ifs.Cond) != "rerr != nil" || ifs.Else != nil {
				die(s, "deferred recover block not understood")
			}
			onPanic = acts(ifs.Body.List)
		case *ast.ForStmt:
			if loop != nil {
				die(s, "second loop in handleNewStream")
			}
			loop = s
		case *ast.DeclStmt, *ast.AssignStmt:
			// var p peer.ID ; reader := msgio.NewVarintReaderSize(...)
		case *ast.IfStmt:
			if src(s.Cond) != "gsnet.receiver == nil" {
				die(s, "statement not understood: %s", src(s))
			}
		default:
			die(st, "statement not understood: %s", src(st))
		}
	}
	if loop == nil || loop.Cond != nil || loop.Init != nil || loop.Post != nil {
		die(fn, "expected one unconditional read loop")
	}

	// the loop body: ... ; received, err := <...>.FromMsgReader(...) ; if err != nil { ... } ; ... deliver
	var onError, onEOF, onMessage []string
	eofTest := ""
	sawDecode, sawErrIf := false, false
	for _, st := range loop.Body.List {
		if as, ok := st.(*ast.AssignStmt); ok && len(as.Lhs) == 2 && len(as.Rhs) == 1 && strings.HasSuffix(callName(as.Rhs[0]), ".FromMsgReader") {
			if src(as.Lhs[0]) != "received" || src(as.Lhs[1]) != "err" || sawDecode {
				die(st, "decode call not understood")
			}
			sawDecode = true
			continue
		}
		if ifs, ok := st.(*ast.IfStmt); ok && sawDecode && !sawErrIf {
			if src(ifs.Cond) != "err != nil" || ifs.Init != nil || ifs.Else != nil {
				die(ifs, "expected `if err != nil {` right after the decode call")
			}
			sawErrIf = true
			body := ifs.Body.List
			if len(body) == 0 {
				die(ifs, "empty error branch")
			}
			inner, ok := body[0].(*ast.IfStmt)
			if !ok || inner.Init != nil || inner.Else != nil {
				die(body[0], "expected the end-of-stream test as the first statement of the error branch")
			}
			be, ok := inner.Cond.(*ast.BinaryExpr)
			if !ok || be.Op != token.NEQ || src(be.X) != "err" || src(be.Y) != "io.EOF" {
				die(inner.Cond, "end-of-stream test is not the identity comparison `err != io.EOF`: %s", src(inner.Cond))
			}
			eofTest = "identity"
			onError = acts(inner.Body.List)
			rest := acts(body[1:])
			if len(rest) != 1 || rest[0] != "return" {
				die(ifs, "the error branch must leave the loop with a return after the end-of-stream test (got %v)", rest)
			}
			for _, a := range onError {
				if a == "return" || a == "deliver" {
					die(inner, "unexpected %s inside the failure branch", a)
				}
			}
			onEOF = nil
			continue
		}
		a := act(st)
		if a == "" {
			continue
		}
		if !sawErrIf {
			die(st, "action %s before the error check", a)
		}
		onMessage = append(onMessage, a)
	}
	if !sawDecode || !sawErrIf || eofTest == "" {
		die(loop, "read loop not understood")
	}
	for _, a := range onMessage {
		if a != "deliver" {
			die(loop, "unexpected action %s on the success path", a)
		}
	}

	stateFields := handlerState(os.Args[1])

	var o strings.Builder
	w := func(format string, a ...interface{}) { fmt.Fprintf(&o, format, a...); o.WriteString("\n") }
	w("/-")
	w("GENERATED by translate/streamloop from network/libp2p_impl.go (handleNewStream).")
	w("Do not edit: `./check C12` rewrites this file from the current source.")
	w("-/")
	w("namespace GS.Generated.StreamLoop")
	w("")
	w("inductive Act where")
	w("  | deliver | reset | receiveError | close")
	w("deriving Repr, DecidableEq")
	w("")
	w("/-- the test that separates a clean end of stream from a failure is `err != io.EOF` (identity with")
	w("    the sentinel; the translator refuses any other test) -/")
	w("def eofTestIsIdentity : Bool := true")
	w("/-- decode succeeded -/")
	w("def onMessage : List Act := %s", leanList(onMessage))
	w("/-- decode failed with anything but io.EOF (then the loop is left) -/")
	w("def onError : List Act := %s", leanList(onError))
	w("/-- decode returned io.EOF (then the loop is left) -/")
	w("def onEOF : List Act := %s", leanList(onEOF))
	w("/-- a panic was recovered by the deferred handler -/")
	w("def onPanic : List Act := %s", leanList(onPanic))
	w("/-- deferred, run when the function returns -/")
	w("def deferred : List Act := %s", leanList(deferred))
	w("/-- fields of message/v2 MessageHandler: the ONE handler instance decodes the frames of ALL streams")
	w("    of a node, so any field (lock, buffer, reader) would be state shared between streams on the")
	w("    decode path. The model decodes each stream as a function of that stream's bytes alone; the")
	w("    translator refuses a handler that carries state or a decode path that touches sync / package")
	w("    level variables. -/")
	w("def handlerStateFields : List String := [%s]", strings.Join(stateFields, ", "))
	w("")
	w("end GS.Generated.StreamLoop")
	fmt.Print(o.String())
}
