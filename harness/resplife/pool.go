package resplife

import (
	"bufio"
	"fmt"
	"io"
	"math/rand"
	"runtime"
	"strings"
	"time"

	"github.com/ipfs/go-graphsync"
	gsmsg "github.com/ipfs/go-graphsync/message"

	"verifharness/reg"
)

// Component `pool` (C25, oracle only): the REAL fixed worker pool.  taskqueue.NewTaskQueue +
// Startup(W, queryExecutor) exactly as impl.New wires it (no per-peer cap, as by default), the real
// response manager, assembler, message queues and allocator with a small per-peer limit.  Nothing is
// parked by the harness: workers pop and execute on their own.  Peer 0's sends never complete (its
// memory is never released); every other peer's sends complete at once.
//
//	pool <npeers> <perPeerLimit> <W>
//	new <p> <k> <id> <pri> <hook> <n> <miss> <bhplan>      (as in `resplife`)
//	await <ms>      wait until every request of a peer other than 0 has completed, or the run is provably
//	                stuck on the stalled peer (all W reservations of the workers wait for peer 0 / the manager
//	                is parked); <ms> is ignored, a 90 s watchdog only declares `hang`
//	end
//
// Oracle: each script is run twice, once with peer 0 healthy (baseline) and once stalled.  A request
// of another peer that completes in the baseline but not in the stalled run is a C25 violation; its
// class comes from the goroutine dump: all W task workers parked in AllocateAndBuildMessage ->
// `worker-pool-parked-on-peer-reservation`; the manager goroutine parked there ->
// `manager-blocked-on-peer-reservation`; anything else -> `peer-starved-other`.

func init() {
	reg.Register(&reg.Component{Name: "pool", Gen: GenPool, Run: RunPool})
}

func GenPool(seed int64, n int, tier string, w *bufio.Writer) {
	for i := 0; i < n; i++ {
		r := rand.New(rand.NewSource(seed*7717 + int64(i)))
		W := 1 + r.Intn(3)
		limit := []int{100, 150, 200}[r.Intn(3)]
		fmt.Fprintf(w, "case q%d\npool 2 %d %d\n", i, limit, W)
		k := 0
		// how many requests with block data peer 0 sends: sometimes fewer than W (control: pool not exhausted)
		na := W
		switch r.Intn(4) {
		case 0:
			na = W - 1
		case 1:
			na = W + 1
		}
		for j := 0; j < na; j++ {
			fmt.Fprintf(w, "new 0 %d %d 1 a %d -1 oooo\n", k, k, 3+r.Intn(2))
			k++
		}
		nb := 1 + r.Intn(2)
		for j := 0; j < nb; j++ {
			fmt.Fprintf(w, "new 1 %d %d 1 a %d -1 oo\n", k, k, 1) // one block: fits B's own allowance
			k++
		}
		fmt.Fprintf(w, "await 400\nend\n")
	}
}

// generous: the runs take milliseconds; expiry is reported as a hang, never as starvation
const poolWatchdog = 90 * time.Second

type poolRun struct {
	why      string
	hung     bool
	e        *engine
	doneIDs  map[int]bool
	others   []int // ids of requests of peers != 0
	parkedWk int
	mgrPark  bool
	lines    []string
}

// workersParkedInReservation counts the goroutines that are WAITING for memory right now: parked in the
// select of MessageQueue.AllocateAndBuildMessage (top frame), not merely passing through it
func workersParkedInReservation() (workers int, manager bool) {
	buf := make([]byte, 4<<20)
	n := runtime.Stack(buf, true)
	for _, g := range strings.Split(string(buf[:n]), "\n\n") {
		lines := strings.Split(g, "\n")
		if len(lines) < 2 || !strings.Contains(lines[0], "[select") {
			continue
		}
		if !strings.Contains(lines[1], "messagequeue.(*MessageQueue).AllocateAndBuildMessage") &&
			!strings.Contains(lines[1], "messagequeue.(*MessageQueue).TryAllocateAndBuildMessage") {
			continue
		}
		if strings.Contains(g, "taskqueue.(*WorkerTaskQueue).worker") {
			workers++
		}
		if strings.Contains(g, "responsemanager.(*ResponseManager).run") {
			manager = true
		}
	}
	return
}

func runPoolOnce(c reg.Case, stalled bool) *poolRun {
	pr := &poolRun{doneIDs: map[int]bool{}}
	defer func() {
		if pr.e != nil {
			pr.e.shutdown()
		}
	}()
	W := 1
	for _, op := range c.Ops {
		switch op[0] {
		case "pool":
			if len(op) < 4 || pr.e != nil {
				pr.lines = append(pr.lines, "bad")
				continue
			}
			W = atoi(op[3])
			pr.e = newEngineOpts(atoi(op[1]), uint64(atoi(op[2])), 0, 0, true, map[int]bool{0: stalled})
			pr.e.tq.Startup(uint64(W), pr.e.qe)
			pr.lines = append(pr.lines, "ok")
		case "new":
			e := pr.e
			if e == nil || len(op) < 9 {
				pr.lines = append(pr.lines, "bad")
				continue
			}
			p, k, id := atoi(op[1]), atoi(op[2]), atoi(op[3])
			cfg := &reqCfg{k: k, id: id, peer: p, pri: atoi(op[4]), hook: op[5][0], n: atoi(op[6]), miss: atoi(op[7]), bh: strings.ReplaceAll(op[8], "F", "")}
			cfg.blkLen = blockPayload
			e.mu.Lock()
			if k != len(e.cfgs) || id != len(e.ids) {
				e.mu.Unlock()
				pr.lines = append(pr.lines, "bad")
				continue
			}
			rid := graphsync.NewRequestID()
			e.ids = append(e.ids, rid)
			e.idOf[rid] = id
			e.cfgs = append(e.cfgs, cfg)
			e.buildChain(cfg)
			e.mu.Unlock()
			if p != 0 {
				pr.others = append(pr.others, id)
			}
			e.rm.ProcessRequests(e.ctx, e.peers[p], []gsmsg.GraphSyncRequest{gsmsg.NewRequest(rid, cfg.root, chainSelector, graphsync.Priority(cfg.pri))})
			pr.lines = append(pr.lines, "ok")
		case "await":
			e := pr.e
			if e == nil {
				pr.lines = append(pr.lines, "bad")
				continue
			}
			// No wall-clock decision: wait until every request of the other peers has completed, or until
			// the run is PROVABLY stuck on the stalled peer (all W workers' reservations wait for peer 0's
			// memory, which is never released; or the manager goroutine is parked in a reservation).  The
			// argument of `await` is ignored; a generous watchdog only ever declares a hang.
			watchdogT := time.NewTimer(poolWatchdog)
			for {
				e.mu.Lock()
				for _, ev := range e.events {
					if ev.kind == "done" {
						pr.doneIDs[ev.k] = true
					}
				}
				e.mu.Unlock()
				all := true
				for _, id := range pr.others {
					if !pr.doneIDs[id] {
						all = false
					}
				}
				if all {
					pr.why = "all"
					break
				}
				if stalled && e.waitingFor(0) >= W {
					pr.why = "waiting"
					break
				}
				if _, mgr := workersParkedInReservation(); mgr && stalled {
					pr.why = "mgr"
					break
				}
				timedOut := false
				select {
				case <-e.evCh:
				case <-watchdogT.C:
					timedOut = true
				}
				if timedOut {
					pr.hung = true
					break
				}
			}
			watchdogT.Stop()
			// a goroutine that has just registered its reservation may not be parked yet: let it get there
			for i := 0; i < 200; i++ {
				pr.parkedWk, pr.mgrPark = workersParkedInReservation()
				if !stalled || pr.mgrPark || pr.parkedWk >= W || e.waitingFor(0) < W {
					break
				}
				runtime.Gosched()
			}
			served := 0
			for _, id := range pr.others {
				if pr.doneIDs[id] {
					served++
				}
			}
			pr.lines = append(pr.lines, fmt.Sprintf("served %d/%d workers-parked=%d/%d manager-parked=%v", served, len(pr.others), pr.parkedWk, W, pr.mgrPark))
		case "end":
			pr.lines = append(pr.lines, "end")
		default:
			pr.lines = append(pr.lines, "bad")
		}
	}
	_ = W
	return pr
}

func RunPool(cases []reg.Case, out *reg.Out) {
	_ = io.Discard
	for _, c := range cases {
		out.BeginCase(c)
		W := 0
		for _, op := range c.Ops {
			out.Cov("op." + op[0])
			if op[0] == "pool" && len(op) > 3 {
				W = atoi(op[3])
			}
		}
		base := runPoolOnce(c, false)
		st := runPoolOnce(c, true)
		for _, l := range st.lines {
			out.Line("%s", l)
		}
		if base.hung || st.hung {
			out.Fail("hang", "the pool run made no progress for %v (baseline hung=%v, stalled run hung=%v) without the workers or the manager being parked on the stalled peer; goroutines: %s", poolWatchdog, base.hung, st.hung, dumpGoroutines("AllocateAndBuildMessage", "responsemanager.(*ResponseManager).run", "taskqueue.(*WorkerTaskQueue).worker"))
			continue
		}
		for _, id := range base.others {
			if base.doneIDs[id] && !st.doneIDs[id] {
				out.Cov("pool.other-peer-starved")
				switch {
				case W > 0 && st.parkedWk >= W:
					out.Fail("worker-pool-parked-on-peer-reservation", "request r%d of peer 1 completes when peer 0 acknowledges its messages but not when peer 0 stalls: all %d task workers of the pool are parked in AllocateAndBuildMessage (reservations of the stalled peer), no worker is left to execute other peers' tasks", id, W)
				case st.mgrPark:
					out.Fail("manager-blocked-on-peer-reservation", "request r%d of peer 1 starved: the response-manager goroutine is parked in AllocateAndBuildMessage", id)
				default:
					out.Fail("peer-starved-other", "request r%d of peer 1 completes when peer 0 is healthy but not when it stalls; %d/%d workers parked, manager parked=%v", id, st.parkedWk, W, st.mgrPark)
				}
				break
			}
		}
		if len(base.others) > 0 && len(base.doneIDs) == 0 {
			out.Cov("pool.baseline-incomplete")
		}
	}
}
