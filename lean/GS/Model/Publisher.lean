/-
Model of /repo/notifications/publisher.go (core Lean only).

Mirrors the Go code function by function:
  subscriberRegistry{topics, revTopics}  -> Registry (two `SetMap`s: map[K]map[V]struct{})
  subscriberRegistry.add                 -> Registry.add        (set semantics, both maps)
  subscriberRegistry.send                -> Registry.send
  subscriberRegistry.remove              -> Registry.remove     (two membership tests on `topics`,
                                            delete from both maps, delete emptied inner maps, OnClose)
  removeTopic / removeSubscriber         -> Registry.removeTopic / removeSubscriber
                                            (range over an inner map calling `remove`)
  start (the `loop:` and the final sweep)-> runFrom / run, Registry.sweep
  Publish/Close/Subscribe/Unsubscribe/
  Shutdown/Startup (client side, `closed`)-> Sys.call (the `closed` flag, what gets queued, return values)

Go ranges over maps in an unspecified order.  The executable model iterates its association
lists front to back; `GoStep`/`GoRun` below describe *every* trace the Go code can produce
(any permutation at every `range`), and the property theorems are proved for those.

Trusted (not modelled): the `sync.Cond`-protected slice `ps.cmds` is a FIFO queue with one
consumer (`queue` appends, `dequeue` takes index 0), so the goroutine started by `Startup`
processes the commands in the order the client calls appended them; the RWMutex `ps.lk`
orders every call against `Shutdown` (no command is appended after the shutdown command).
-/
namespace GS.Publisher

abbrev Topic := Nat
abbrev Sub := Nat
abbrev Ev := Nat

/-- the command queue entries (`cmd{op, topics, sub, msg}`; `topics` always has length ≤ 1) -/
inductive Cmd where
  | subscribe (t : Topic) (s : Sub)
  | publish (t : Topic) (e : Ev)
  | closeTopic (t : Topic)
  | unsubAll (s : Sub)
  | shutdown
deriving DecidableEq, Repr

/-- calls made on subscribers -/
inductive Callback where
  | onNext (s : Sub) (t : Topic) (e : Ev)
  | onClose (s : Sub) (t : Topic)
deriving DecidableEq, Repr

/-! ## `map[K]map[V]struct{}` -/

/-- association list; keys distinct, inner lists duplicate-free and non-empty (invariant proved in
    `GSProofs/Lemmas/Publisher.lean`) -/
abbrev SetMap := List (Nat × List Nat)

namespace SetMap

/-- `m[k]` (the nil map, i.e. `[]`, when absent) -/
def get : SetMap → Nat → List Nat
  | [], _ => []
  | (k', vs) :: r, k => if k' = k then vs else get r k

/-- `_, ok := m[k]` -/
def hasKey : SetMap → Nat → Bool
  | [], _ => false
  | (k', _) :: r, k => if k' = k then true else hasKey r k

/-- `if m[k] == nil { m[k] = make(...) }; m[k][v] = struct{}{}` -/
def insert : SetMap → Nat → Nat → SetMap
  | [], k, v => [(k, [v])]
  | (k', vs) :: r, k, v =>
    if k' = k then (k', if vs.contains v then vs else vs ++ [v]) :: r
    else (k', vs) :: insert r k v

/-- `delete(m[k], v); if len(m[k]) == 0 { delete(m, k) }` -/
def erase : SetMap → Nat → Nat → SetMap
  | [], _, _ => []
  | (k', vs) :: r, k, v =>
    if k' = k then
      (if (vs.erase v).isEmpty then r else (k', vs.erase v) :: r)
    else (k', vs) :: erase r k v

/-- all (key, value) pairs, the iteration space of a nested `range` -/
def pairs (m : SetMap) : List (Nat × Nat) :=
  m.flatMap fun kv => kv.2.map fun v => (kv.1, v)

end SetMap

/-! ## subscriberRegistry -/

structure Registry where
  topics    : SetMap := []    -- topic ↦ subscribers
  revTopics : SetMap := []    -- subscriber ↦ topics
deriving Repr

namespace Registry

def empty : Registry := {}

/-- is `s` registered on `t` (looked up in `topics`, as `send` and `remove` do) -/
def mem (r : Registry) (t : Topic) (s : Sub) : Bool := (r.topics.get t).contains s

def add (r : Registry) (t : Topic) (s : Sub) : Registry :=
  { topics := r.topics.insert t s, revTopics := r.revTopics.insert s t }

def send (r : Registry) (t : Topic) (e : Ev) : List Callback :=
  (r.topics.get t).map fun s => Callback.onNext s t e

def remove (r : Registry) (t : Topic) (s : Sub) : Registry × List Callback :=
  if !r.topics.hasKey t then (r, [])
  else if !(r.topics.get t).contains s then (r, [])
  else ({ topics := r.topics.erase t s, revTopics := r.revTopics.erase s t }, [Callback.onClose s t])

/-- a `range` loop whose body is `reg.remove(topic, sub)`, over the given iteration sequence
    (Go: entries deleted during the range that were not yet reached are skipped; `remove` of an
    absent pair is a no-op, so iterating a snapshot is equivalent) -/
def removeAll (r : Registry) : List (Topic × Sub) → Registry × List Callback
  | [] => (r, [])
  | (t, s) :: rest =>
    let r1 := r.remove t s
    let r2 := removeAll r1.1 rest
    (r2.1, r1.2 ++ r2.2)

/-- iteration space of `removeTopic` -/
def topicPairs (r : Registry) (t : Topic) : List (Topic × Sub) := (r.topics.get t).map fun s => (t, s)
/-- iteration space of `removeSubscriber` (ranges over `revTopics[sub]`) -/
def subPairs (r : Registry) (s : Sub) : List (Topic × Sub) := (r.revTopics.get s).map fun t => (t, s)
/-- iteration space of the final sweep in `start` (ranges over `topics`, then the inner map) -/
def allPairs (r : Registry) : List (Topic × Sub) := r.topics.pairs

def removeTopic (r : Registry) (t : Topic) : Registry × List Callback := r.removeAll (r.topicPairs t)
def removeSubscriber (r : Registry) (s : Sub) : Registry × List Callback := r.removeAll (r.subPairs s)
def sweep (r : Registry) : Registry × List Callback := r.removeAll r.allPairs

/-- body of the `loop:` in `start` for one dequeued command other than `shutdown` -/
def apply (r : Registry) : Cmd → Registry × List Callback
  | .subscribe t s => (r.add t s, [])
  | .publish t e => (r, r.send t e)
  | .closeTopic t => r.removeTopic t
  | .unsubAll s => r.removeSubscriber s
  | .shutdown => (r, [])

end Registry

/-- `start`: process commands in queue order; at `shutdown` leave the loop, sweep the registry and
    return (whatever is still queued is never dequeued). -/
def runFrom (r : Registry) : List Cmd → List Callback
  | [] => []
  | c :: rest =>
    match c with
    | .shutdown => r.sweep.2
    | c => (r.apply c).2 ++ runFrom (r.apply c).1 rest

/-- all callbacks made by a publisher goroutine that consumes the queue `cmds` -/
def run (cmds : List Cmd) : List Callback := runFrom Registry.empty cmds

/-! ## every trace the Go code can produce (unspecified map iteration order) -/

/-- one loop iteration, with any iteration order of the map ranges -/
inductive GoStep : Registry → Cmd → Registry → List Callback → Prop where
  | subscribe (r t s) : GoStep r (.subscribe t s) (r.add t s) []
  | publish (r t e o) : o.Perm (r.send t e) → GoStep r (.publish t e) r o
  | closeTopic (r t ps) : ps.Perm (r.topicPairs t) →
      GoStep r (.closeTopic t) (r.removeAll ps).1 (r.removeAll ps).2
  | unsubAll (r s ps) : ps.Perm (r.subPairs s) →
      GoStep r (.unsubAll s) (r.removeAll ps).1 (r.removeAll ps).2

inductive GoRun : Registry → List Cmd → List Callback → Prop where
  | nil (r) : GoRun r [] []
  | shutdown (r rest ps) : ps.Perm r.allPairs → GoRun r (.shutdown :: rest) (r.removeAll ps).2
  | step (r c r' o rest os) : GoStep r c r' o → GoRun r' rest os → GoRun r (c :: rest) (o ++ os)

/-! ## the goroutine as a state machine (used by the driver; `Server.feed` = `runFrom`) -/

structure Server where
  reg    : Registry := {}
  exited : Bool := false     -- `start` has returned
deriving Repr

def Server.step (sv : Server) (c : Cmd) : Server × List Callback :=
  if sv.exited then (sv, [])
  else match c with
    | .shutdown => ({ reg := sv.reg.sweep.1, exited := true }, sv.reg.sweep.2)
    | c => ({ reg := (sv.reg.apply c).1, exited := false }, (sv.reg.apply c).2)

def Server.feed (sv : Server) : List Cmd → Server × List Callback
  | [] => (sv, [])
  | c :: rest =>
    let a := sv.step c
    let b := Server.feed a.1 rest
    (b.1, a.2 ++ b.2)

/-! ## client side: the exported methods -/

inductive Api where
  | startup
  | subscribe (t : Topic) (s : Sub)
  | unsubscribe (s : Sub)
  | publish (t : Topic) (e : Ev)
  | close (t : Topic)
  | shutdown
deriving DecidableEq, Repr

/-- the command an API call appends when the publisher is not closed -/
def Api.cmd : Api → Option Cmd
  | .startup => none
  | .subscribe t s => some (.subscribe t s)
  | .unsubscribe s => some (.unsubAll s)
  | .publish t e => some (.publish t e)
  | .close t => some (.closeTopic t)
  | .shutdown => some .shutdown

/-- publisher + its goroutine, observed at quiescent points (queue drained).
    `Startup` is assumed to be called at most once (a second call would start a second consumer
    with its own registry; graphsync never does that) — a second `startup` is ignored here and
    never generated by the harness. -/
structure Sys where
  started : Bool := false      -- `Startup` has been called
  closed  : Bool := false      -- `ps.closed` is closed
  pending : List Cmd := []     -- `ps.cmds` (non-empty only while not started)
  server  : Server := {}
deriving Repr

/-- one API call: (new state, return value, callbacks made until the queue is drained again).
    Return value: `Subscribe`/`Unsubscribe` return `!closed`; the others return nothing (`true`). -/
def Sys.call (y : Sys) (a : Api) : Sys × Bool × List Callback :=
  match a with
  | .startup =>
    if y.started then (y, true, [])
    else
      let f := y.server.feed y.pending
      ({ y with started := true, pending := [], server := f.1 }, true, f.2)
  | a =>
    if y.closed then (y, false, [])
    else
      match a.cmd with
      | none => (y, true, [])
      | some c =>
        let y1 := if a = .shutdown then { y with closed := true } else y
        if y1.started then
          let f := y1.server.step c
          ({ y1 with server := f.1 }, true, f.2)
        else ({ y1 with pending := y1.pending ++ [c] }, true, [])

/-- all callbacks of an API call sequence -/
def Sys.exec (y : Sys) : List Api → List Callback
  | [] => []
  | a :: rest => (y.call a).2.2 ++ Sys.exec (y.call a).1 rest

/-- the commands a call sequence appends to the queue: everything up to and including the first
    `Shutdown` (later calls find `closed` set and return) -/
def queued : List Api → List Cmd
  | [] => []
  | .shutdown :: _ => [.shutdown]
  | a :: rest => (match a.cmd with | some c => [c] | none => []) ++ queued rest

end GS.Publisher
