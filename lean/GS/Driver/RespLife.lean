import GS.Driver.RespLifeCore
/-! model driver executable for harness component `resplife` (shared handler: GS.Driver.RespLifeCore) -/
def main : IO Unit := GS.Proto.runModel GS.Driver.RespLife.handler
