import GSProofs.Lemmas.RespDispatchOwnMsg
/-!
`TableOk` (every table entry points to an allocated object) is preserved by the task worker.
-/
namespace GS.C10
open GS.RespMgr GS.Generated

theorem tableOk_of_eq {s s' : State} (ht : TableOk s) (h1 : s'.objs = s.objs) (h2 : s'.table = s.table) :
    TableOk s' := by
  intro id k h
  rw [h2] at h; rw [h1]; exact ht id k h

theorem finishTask_tableOk {s : State} (ht : TableOk s) (t : Peer × ReqId) (err : Option ErrK) (paused : Bool) :
    TableOk (finishTask s t err paused).1 := by
  have h1 : TableOk ({ s with active := eraseFirst s.active t, execs := dropExec s.execs t } : State) := ht
  unfold finishTask
  simp only
  split
  · exact h1
  · rename_i k o hlk
    split
    · split
      · exact tableOk_of_eq h1 rfl rfl
      · exact h1
    · split
      · exact tableOk_terminate h1 t.2
      · split
        · exact tableOk_setObj h1 _ _
        · split
          · exact tableOk_terminate h1 t.2
          · split
            · exact tableOk_terminate h1 t.2
            · exact tableOk_setObj h1 _ _

theorem startTask_tableOk {s : State} (ht : TableOk s) (t : Peer × ReqId) : TableOk (startTask s t).1 := by
  have h1 : TableOk ({ s with pending := eraseFirst s.pending t } : State) := ht
  unfold startTask
  split
  · exact ht
  · simp only
    split
    · exact h1
    · split
      · exact h1
      · exact tableOk_of_eq (tableOk_setObj h1 _ _) rfl rfl

theorem getUpdates_tableOk {s : State} (ht : TableOk s) (id : ReqId) : TableOk (getUpdates s id).2 := by
  unfold getUpdates
  split
  · exact ht
  · exact tableOk_setObj ht _ _

theorem checkForUpdates_tableOk (fuel : Nat) {s : State} (ht : TableOk s) (e : Exec) :
    TableOk (checkForUpdates fuel s e).1 := by
  induction fuel generalizing s with
  | zero => exact ht
  | succ fuel ih =>
    unfold checkForUpdates
    split
    · exact ht
    · rename_i o ho
      split
      · exact tableOk_setObj ht _ _
      · split
        · exact tableOk_setObj ht _ _
        · split
          · have h2 := getUpdates_tableOk (tableOk_setObj ht e.k { o with sigUpdate := false }) e.task.2
            simp only
            generalize getUpdates (s.setObj e.k { o with sigUpdate := false }) e.task.2 = ups at h2 ⊢
            obtain ⟨us, st⟩ := ups
            split
            · exact h2
            · exact ih (s := st) h2
          · exact ht

theorem abortTail_tableOk {s1 : State} (ht : TableOk s1) (e : Exec) (o : Obj) (err : ErrK) :
    TableOk (abortTail s1 e o err).1 := by
  unfold abortTail
  cases err with
  | network => exact ht
  | ctxCancel => exact ht
  | byCommand => exact tableOk_setObj ht _ _
  | hook => exact tableOk_setObj ht _ _

theorem sendBlock_tableOk {s1 : State} (ht : TableOk s1) (e : Exec) (o : Obj) (t : Peer × ReqId) (evs0 : List Ev)
    (b : Bool) : TableOk (sendBlock s1 e o t evs0 b).1 := by
  have h2 : TableOk (s1.setObj e.k { o with sent := o.sent + 1 }) := tableOk_setObj ht _ _
  unfold sendBlock
  simp only
  split
  · exact finishTask_tableOk (tableOk_setObj h2 _ _) t _ _
  · split
    · exact finishTask_tableOk h2 t _ _
    · split
      · exact finishTask_tableOk (tableOk_setObj h2 _ _) t _ _
      · exact h2

theorem stepExec_tableOk {s : State} (ht : TableOk s) (t : Peer × ReqId) : TableOk (stepExec s t).1 := by
  unfold stepExec
  split
  · exact ht
  · rename_i e hf
    split
    · exact ht
    · rename_i o0 _
      have hc := checkForUpdates_tableOk (o0.updates.length + 4) ht e
      simp only
      split
      · exact ht
      · rename_i o ho
        split
        · exact finishTask_tableOk (abortTail_tableOk hc e o _) t _ _
        · exact sendBlock_tableOk hc e o t _ _

theorem startExec_tableOk {s : State} (ht : TableOk s) (t : Peer × ReqId) : TableOk (startExec s t).1 := by
  have hr := startTask_tableOk ht t
  unfold startExec
  simp only
  split
  · exact hr
  · split
    · exact hr
    · split
      · exact hr
      · split
        · exact finishTask_tableOk (tableOk_setObj hr _ _) t _ _
        · exact hr

end GS.C10
