import GSProofs.Lemmas.AllocatorChoice
/-!
# C14 — Allocator grants waiting memory promptly and in order

Property theorems only (helper lemmas live in `GSProofs/Lemmas/Allocator*.lean`).
Same setting as `GSProofs/C13.lean`: all configurations `mt mp < 2^64`, all histories
(`Reachable pick mt mp s := ∃ ops, s = (run pick (init mt mp) ops).1`), all `Admissible` priority
queues.  `LoopState pick mt mp s` = "`s` is a state at the top of the `for` loop of
`processPendingAllocations`, entered from `ReleaseBlockMemory`/`ReleasePeerMemory` called in a
reachable state" (the loop of the model is literally the iteration of `loopStep`,
`processPending_loopRun`).

Property text: "(S1) An allocation from a peer with nothing already waiting is granted at once when
it fits under both limits; otherwise it waits, and (S2) waiting allocations are granted in request
order per peer, (S3) each as soon as it fits under both limits and no earlier-requested waiting
allocation that fits its own peer's limit is still ahead of it. (S4) Releasing a peer immediately
fails all of its waiting allocations, (S5) so no allocation is left waiting once memory it could
use is released."
-/
namespace GS.C14
open GS.Alloc

section
variable {pick : Pick} (hp : Admissible pick) {mt mp : Nat} (ht : mt < W) (hm : mp < W)
include hp ht hm

/-- **(S1) immediate grant, or wait at the end of the queue.**  `AllocateBlockMemory(p, a)` in a
    reachable state: if `p` has nothing waiting and `a` fits under both limits, the ticket is
    granted in the same step (and the counters grow by exactly `a`); in *every* other case nothing
    is emitted, the counters are unchanged and the allocation is appended at the **end** of `p`'s
    pending list with the next request index.  Other peers are never affected. -/
theorem immediate {s : State} (h : Reachable pick mt mp s) (p a t : Nat) :
    (pendingOf s p = [] ∧ s.total + a ≤ mt ∧ allocatedFor s p + a ≤ mp →
      (alloc s p a t).2 = [Event.granted p t a] ∧
      allocatedFor (alloc s p a t).1 p = allocatedFor s p + a ∧
      pendingOf (alloc s p a t).1 p = [] ∧
      (stats (alloc s p a t).1).totalAllocated = (stats s).totalAllocated + a) ∧
    (¬ (pendingOf s p = [] ∧ s.total + a ≤ mt ∧ allocatedFor s p + a ≤ mp) →
      (alloc s p a t).2 = [] ∧
      pendingOf (alloc s p a t).1 p = pendingOf s p ++ [{ amount := a, idx := s.nextIdx, ticket := t }] ∧
      allocatedFor (alloc s p a t).1 p = allocatedFor s p ∧
      (stats (alloc s p a t).1).totalAllocated = (stats s).totalAllocated) ∧
    (∀ q, q ≠ p → allocatedFor (alloc s p a t).1 q = allocatedFor s q ∧
                  pendingOf (alloc s p a t).1 q = pendingOf s q) := by
  obtain ⟨hi, hT, hP⟩ := h.inv hp ht hm
  have hs := alloc_spec hi.wf p a t
  simp only [allocatedFor_eq, pendingOf_eq]
  rw [← hT, ← hP]
  refine ⟨?_, ?_, ?_⟩
  · intro hc
    obtain ⟨he, htot, hti, hpn⟩ := hs.1 hc
    refine ⟨he, ?_, ?_, htot⟩
    · rw [hti p]; simp
    · rw [hpn p]; exact hc.1
  · intro hc
    obtain ⟨he, htot, hti, hpn⟩ := hs.2 hc
    refine ⟨he, ?_, hti p, htot⟩
    rw [hpn p]; simp
  · intro q hq
    by_cases hc : pendingIn s.peers p = [] ∧ s.total + a ≤ s.maxTotal ∧ totalIn s.peers p + a ≤ s.maxPeer
    · obtain ⟨_, _, hti, hpn⟩ := hs.1 hc
      rw [hti q, hpn q]; simp [hq]
    · obtain ⟨_, _, hti, hpn⟩ := hs.2 hc
      rw [hti q, hpn q]; simp [hq]

/-- **(S2) queue order = request order (state invariant).**  In every reachable state and in every
    state inside the wake-up loop, each peer's pending list is sorted by strictly increasing
    request index `idx` (= `allocIndex`), all indices are below `nextAllocIndex`, and an index
    identifies its peer (indices are globally unique). -/
theorem pending_sorted {s : State} (h : Reachable pick mt mp s ∨ LoopState pick mt mp s) :
    (∀ st ∈ s.peers, (st.pending.map (·.idx)).Pairwise (· < ·)) ∧
    (∀ st ∈ s.peers, ∀ pa ∈ st.pending, pa.idx < s.nextIdx) ∧
    (∀ st1 ∈ s.peers, ∀ st2 ∈ s.peers, ∀ a ∈ st1.pending, ∀ b ∈ st2.pending,
        a.idx = b.idx → st1 = st2) := by
  have hw : WF s := by
    rcases h with h | h
    · exact (h.inv hp ht hm).1.wf
    · exact (h.wf hp ht hm).1
  refine ⟨hw.sorted, hw.bound, ?_⟩
  intro st1 h1 st2 h2 a ha b hb hab
  exact eq_of_mem_of_id_eq hw.nodup h1 h2 (hw.inj st1 h1 st2 h2 a ha b hb hab)

/-- **(S3) which ticket the wake-up loop grants (`grant_order`), and that it takes the head (S2).**
    One iteration of the loop in a state `s` inside the loop either removes an idle entry (no
    pending, nothing allocated; no event) or grants exactly one ticket, and then that ticket is
    the **head** `hd` of the pending list of some peer `np`, it fits under both limits, its amount
    is the requested amount, and `hd` has the **minimal request index among all heads that fit
    their own peer's limit at that moment**; the peer's list continues with the tail. -/
theorem grant_order {s s1 : State} {e : List Event} (h : LoopState pick mt mp s)
    (hl : loopStep pick s = some (s1, e)) :
    (e = [] ∧ ∃ np ∈ s.peers, np.pending = [] ∧ np.total = 0 ∧ s1.peers = erasePeer s.peers np.id) ∨
    (∃ np hd rest, np ∈ s.peers ∧ np.pending = hd :: rest ∧
      e = [Event.granted np.id hd.ticket hd.amount] ∧
      s.total + hd.amount ≤ mt ∧ np.total + hd.amount ≤ mp ∧
      (∀ c ∈ s.peers, ∀ h', HeadFits mp c h' → hd.idx ≤ h'.idx) ∧
      pendingOf s1 np.id = rest ∧ allocatedFor s1 np.id = np.total + hd.amount ∧
      s1.total = s.total + hd.amount) := by
  obtain ⟨hw, hT, hP⟩ := h.wf hp ht hm
  have hc := loopStep_cases hp hw
  rw [hl] at hc
  cases hc with
  | erase np hmem hmin hpend htz => exact Or.inl ⟨rfl, np, hmem, hpend, htz, rfl⟩
  | grant np hd rest hmem hmin hpend h1 h2 =>
    right
    refine ⟨np, hd, rest, hmem, hpend, rfl, hT ▸ h1, hP ▸ h2, ?_, ?_, ?_, rfl⟩
    · rw [← hP]; exact min_of_headFits hmin hpend h2
    · show pendingIn (setPeer s.peers _) np.id = rest
      rw [pendingIn_setPeer hmem (by rfl)]; simp
    · show totalIn (setPeer s.peers _) np.id = _
      rw [totalIn_setPeer hmem (by rfl)]; simp

/-- **(S2) per-peer FIFO over whole histories.**  For every history and every peer `p`: the
    tickets of `p` that were resolved (granted or failed), *in the order of the events*, followed by
    the tickets of `p` still waiting, *in queue order*, are exactly the tickets `p` requested, *in
    request order*.  Hence tickets of one peer are granted in request order, none is lost or
    duplicated, and the ones still waiting are the most recent requests. -/
theorem fifo (ops : List Op) (p : Nat) :
    resolved p (run pick (init mt mp) ops).2 ++ waiting (run pick (init mt mp) ops).1 p
      = requests p ops := by
  have := run_fifo hp (Inv.init ht hm) ops p
  simpa [waiting, pendingOf, GS.Alloc.init] using this

/-- `fifo`, continued from any reachable state. -/
theorem fifo_from {s : State} (h : Reachable pick mt mp s) (ops : List Op) (p : Nat) :
    resolved p (run pick s ops).2 ++ waiting (run pick s ops).1 p = waiting s p ++ requests p ops :=
  run_fifo hp (h.inv hp ht hm).1 ops p

/-- **(S3)+(S5) no lost wake-up — the key invariant, in EVERY reachable state (after every
    operation of every history).**  Consider the waiting heads that fit their own peer's limit
    (`HeadFits`: `m.pending = hd :: _` and `m.total + hd.amount ≤ maxPeer`).  If `hd` (of peer `m`)
    is the earliest-requested among them, then it does **not** fit under the total limit.
    In other words: there is never an allocation that fits under both limits, with no
    earlier-requested waiting allocation that fits its own peer's limit ahead of it, that is
    still waiting. -/
theorem no_lost_wakeup {s : State} (h : Reachable pick mt mp s)
    {m : PeerSt} (hmem : m ∈ s.peers) {hd : Pending} (hfit : HeadFits mp m hd)
    (hmin : ∀ c ∈ s.peers, ∀ h', HeadFits mp c h' → hd.idx ≤ h'.idx) :
    mt < s.total + hd.amount := by
  obtain ⟨hi, hT, hP⟩ := h.inv hp ht hm
  rw [← hT]
  rw [← hP] at hfit hmin
  exact hi.nlw m hmem hd hfit hmin

/-- `no_lost_wakeup` read through the public observables: if peer `p`'s first waiting allocation
    fits `p`'s limit and fits the total limit, then some *other* peer has an earlier-requested
    first waiting allocation that fits that peer's limit (and that one does not fit the total). -/
theorem waiting_implies_earlier_blocker {s : State} (h : Reachable pick mt mp s) {p : Nat}
    {hd : Pending} {rest : List Pending} (hp' : pendingOf s p = hd :: rest)
    (hfp : allocatedFor s p + hd.amount ≤ mp) (hft : s.total + hd.amount ≤ mt) :
    ∃ c ∈ s.peers, ∃ h', HeadFits mp c h' ∧ h'.idx < hd.idx ∧ c.id ≠ p := by
  obtain ⟨hi, hT, hP⟩ := h.inv hp ht hm
  cases hf : findPeer s.peers p with
  | none => unfold pendingOf at hp'; rw [hf] at hp'; cases hp'
  | some m =>
    have hm' := findPeer_some hf
    have hpend : m.pending = hd :: rest := by unfold pendingOf at hp'; rw [hf] at hp'; exact hp'
    have htot : allocatedFor s p = m.total := by unfold allocatedFor; rw [hf]
    have hHF : HeadFits mp m hd := ⟨⟨rest, hpend⟩, htot ▸ hfp⟩
    apply Classical.byContradiction
    intro hno
    have hmin : ∀ c ∈ s.peers, ∀ h', HeadFits mp c h' → hd.idx ≤ h'.idx := by
      intro c hc h' hHF'
      apply Classical.byContradiction
      intro hlt
      apply hno
      refine ⟨c, hc, h', hHF', by omega, ?_⟩
      intro hcid
      have : c = m := eq_of_mem_of_id_eq hi.wf.nodup hc hm'.1 (hcid.trans hm'.2.symm)
      subst this
      obtain ⟨⟨r', hr'⟩, _⟩ := hHF'
      rw [hpend] at hr'; cases hr'; omega
    have := no_lost_wakeup hp ht hm h hm'.1 hHF hmin
    omega

/-- **The wake-up loop runs to its stopping condition** (the fuel of `processPendingFuel` is
    sufficient): started in any state inside the loop — in particular in the state in which
    `ReleaseBlockMemory`/`ReleasePeerMemory` call it — `processPending` is the iteration of
    `loopStep` until `loopStep` returns `none`, and in the final state the no-lost-wake-up
    condition holds whatever the state before was. -/
theorem loop_runs_to_completion {s : State} (h : LoopState pick mt mp s) :
    LoopRun pick s (processPending pick s).1 (processPending pick s).2 ∧
    loopStep pick (processPending pick s).1 = none ∧
    NLW (processPending pick s).1 := by
  have hw := (h.wf hp ht hm).1
  exact ⟨processPending_loopRun hp hw, processPending_stops hp hw, processPending_NLW hp hw⟩

/-- **(S4) releasing a peer immediately fails all of its waiting allocations:** every ticket
    waiting for `p` gets `failed` in the `ReleasePeerMemory(p)` step itself, in queue order, `p` has
    no waiting allocation afterwards, and nothing is granted to `p` in that step. -/
theorem releasePeer_fails_pending {s : State} (h : Reachable pick mt mp s) (p : Nat) :
    (∀ pa ∈ pendingOf s p, Event.failed p pa.ticket ∈ (releasePeer pick s p).2) ∧
    resolved p (releasePeer pick s p).2 = waiting s p ∧
    pendingOf (releasePeer pick s p).1 p = [] ∧
    (∀ t a, Event.granted p t a ∉ (releasePeer pick s p).2) := by
  obtain ⟨hi, _, _⟩ := h.inv hp ht hm
  have hfifo := step_fifo hp hi.wf (Op.releasePeer p) p
  have hz : pendingOf (releasePeer pick s p).1 p = [] := by
    rcases releasePeer_spec pick hi.wf p with ⟨hf, hr⟩ | ⟨st, s1, hf, hw1, hr, _, _, hnone, _⟩
    · rw [hr]; unfold pendingOf; rw [hf]
    · rw [hr]; unfold pendingOf; rw [(processPending_absent hp hw1 hnone).1]
  have hg : ∀ t a, Event.granted p t a ∉ (releasePeer pick s p).2 := by
    rcases releasePeer_spec pick hi.wf p with ⟨hf, hr⟩ | ⟨st, s1, hf, hw1, hr, _, _, hnone, _⟩
    · rw [hr]; intro t a hmem; simp at hmem
    · rw [hr]; intro t a hmem
      rcases List.mem_append.mp hmem with hm' | hm'
      · rcases List.mem_cons.mp hm' with hm' | hm'
        · cases hm'
        · obtain ⟨pa, _, hpa⟩ := List.mem_map.mp hm'; cases hpa
      · exact (processPending_absent hp hw1 hnone).2 t a hm'
  refine ⟨?_, ?_, hz, hg⟩
  · intro pa hpa
    rcases releasePeer_spec pick hi.wf p with ⟨hf, hr⟩ | ⟨st, s1, hf, hw1, hr, _⟩
    · unfold pendingOf at hpa; rw [hf] at hpa; cases hpa
    · rw [hr]
      apply List.mem_append_left
      apply List.mem_cons_of_mem
      exact List.mem_map.mpr ⟨pa, hpa, rfl⟩
  · have : resolved p (step pick s (Op.releasePeer p)).2 ++ waiting (step pick s (Op.releasePeer p)).1 p
        = waiting s p ++ requests p [Op.releasePeer p] := hfifo
    simp only [step, requests, List.append_nil, waiting, hz, List.map_nil] at this
    simpa [waiting] using this

/-- **No spurious failure:** a ticket of peer `q` fails only in a `ReleasePeerMemory(q)` step. -/
theorem failed_only_by_releasePeer {s : State} (h : Reachable pick mt mp s) (op : Op) {q t : Nat}
    (hf : Event.failed q t ∈ (step pick s op).2) : op = Op.releasePeer q := by
  obtain ⟨hi, _, _⟩ := h.inv hp ht hm
  cases op with
  | alloc p a t' =>
    exfalso
    have hs := alloc_spec hi.wf p a t'
    by_cases hc : pendingIn s.peers p = [] ∧ s.total + a ≤ s.maxTotal ∧ totalIn s.peers p + a ≤ s.maxPeer
    · have he : (alloc s p a t').2 = _ := (hs.1 hc).1
      simp only [step, he] at hf; simp at hf
    · have he : (alloc s p a t').2 = _ := (hs.2 hc).1
      simp only [step, he] at hf; simp at hf
  | release p a =>
    exfalso
    rcases release_spec pick hi.wf p a with ⟨_, hr⟩ | ⟨st, s1, _, hw1, hr, _⟩
    · simp only [step, hr] at hf; simp at hf
    · simp only [step, hr] at hf
      rcases List.mem_cons.mp hf with hf | hf
      · cases hf
      · obtain ⟨_, _, _, he⟩ := processPending_events hp hw1 _ hf; cases he
  | releasePeer p =>
    rcases releasePeer_spec pick hi.wf p with ⟨_, hr⟩ | ⟨st, s1, _, hw1, hr, _⟩
    · simp only [step, hr] at hf; simp at hf
    · simp only [step, hr] at hf
      rcases List.mem_append.mp hf with hf | hf
      · rcases List.mem_cons.mp hf with hf | hf
        · cases hf
        · obtain ⟨pa, _, hpa⟩ := List.mem_map.mp hf
          injection hpa with hpa; rw [hpa]
      · obtain ⟨_, _, _, he⟩ := processPending_events hp hw1 _ hf; cases he

end

/-- the executable priority-queue model used by the correspondence check is admissible -/
theorem pickMin_admissible : Admissible pickMin := GS.Alloc.pickMin_admissible

/-! ## Non-vacuity (tests by evaluation on one concrete history; limits (6, 5)) -/

/-- peers 0, 1 get 3 bytes each (total limit reached); then peer 1 asks 2 (waits, idx 0), peer 0
    asks 1 (waits, idx 1), peer 0 asks 1 again (waits behind it, idx 2). -/
def exOps : List Op :=
  [.alloc 0 3 100, .alloc 1 3 101, .alloc 1 2 102, .alloc 0 1 103, .alloc 0 1 104]

-- a reachable state with pending allocations on two peers (hypotheses of `no_lost_wakeup`,
-- `pending_sorted` are met non-trivially: both heads fit their peer's limit, none fits the total)
example : (run pickMin (init 6 5) exOps).1.peers =
    [⟨0, 3, [⟨1, 1, 103⟩, ⟨1, 2, 104⟩]⟩, ⟨1, 3, [⟨2, 0, 102⟩]⟩] := by decide
example : HeadFits 5 ⟨1, 3, [⟨2, 0, 102⟩]⟩ ⟨2, 0, 102⟩ := ⟨⟨[], rfl⟩, by decide⟩

-- peer 0 releases 1 byte: ticket 103 (1 byte) would fit both limits, but the earlier-requested
-- ticket 102 of peer 1 fits its own peer limit and is ahead, so nothing is granted (S3)
example : (run pickMin (init 6 5) (exOps ++ [.release 0 1])).2 =
    [.granted 0 100 3, .granted 1 101 3, .released 0 1] := by decide
-- one more byte: now 102 fits; it is granted first, and 103 has to keep waiting (total is 6 again)
example : (run pickMin (init 6 5) (exOps ++ [.release 0 1, .release 0 1])).2 =
    [.granted 0 100 3, .granted 1 101 3, .released 0 1, .released 0 1, .granted 1 102 2] := by decide
-- releasing peer 1 (5 bytes): the wake-up loop grants 103 and then 104, in request order
example : (run pickMin (init 6 5) (exOps ++ [.release 0 1, .release 0 1, .releasePeer 1])).2 =
    [.granted 0 100 3, .granted 1 101 3, .released 0 1, .released 0 1, .granted 1 102 2,
     .released 1 5, .granted 0 103 1, .granted 0 104 1] := by decide
-- releasePeer with waiting tickets: both fail at once, in queue order
example : (run pickMin (init 6 5) (exOps ++ [.releasePeer 0])).2 =
    [.granted 0 100 3, .granted 1 101 3, .released 0 3, .failed 0 103, .failed 0 104,
     .granted 1 102 2] := by decide
-- `fifo` on that history, peer 0
example : resolved 0 (run pickMin (init 6 5) (exOps ++ [.releasePeer 0])).2 = [100, 103, 104] ∧
    requests 0 (exOps ++ [.releasePeer 0]) = [100, 103, 104] := by decide
-- a state inside the loop (hypothesis of `grant_order`): entered from `release 1 3` after `exOps`
example : ∃ s1 ev, releaseCore (run pickMin (init 6 5) exOps).1 1 3 = some (s1, ev) ∧
    ∃ s2 e, loopStep pickMin s1 = some (s2, e) ∧ e = [.granted 1 102 2] :=
  ⟨_, _, rfl, _, _, rfl, by decide⟩

/-! ## History-dependent heap tie-breaks

`RunR`: every single `Peek` call may return any comparator-minimal element (see the end of
`GSProofs/C13.lean` and `GSProofs/Lemmas/AllocatorChoice.lean`). -/

/-- One iteration of the wake-up loop does not depend on which comparator-minimal element the heap
    returns as long as somebody is waiting (ties exist only between entries that are all blocked
    on their own peer limit, or all idle). -/
theorem loop_choice_irrelevant {p p' : Pick} (hp : Admissible p) (hp' : Admissible p') {s : State}
    (hw : WF s) (hwait : ¬ AllIdle s) : loopStep p s = loopStep p' s :=
  loopStep_choice_irrelevant hp hp' hw hwait

/-- C14 for nondeterministic runs: the final state of any run with arbitrary per-call heap choices
    satisfies the no-lost-wake-up invariant, and the per-peer FIFO equation holds for its events. -/
theorem no_lost_wakeup_fifo_any_heap_choice {mt mp : Nat} (ht : mt < W) (hm : mp < W)
    {ops : List Op} {r : State × List Event} (h : RunR (init mt mp) ops r) :
    (∀ m ∈ r.1.peers, ∀ hd, HeadFits mp m hd →
      (∀ c ∈ r.1.peers, ∀ h', HeadFits mp c h' → hd.idx ≤ h'.idx) → mt < r.1.total + hd.amount) ∧
    (∀ p, resolved p r.2 ++ waiting r.1 p = requests p ops) := by
  have e := runR_unique GS.Alloc.pickMin_admissible (Inv.init ht hm) h
  refine ⟨?_, ?_⟩
  · intro m hmem hd hfit hmin
    exact no_lost_wakeup GS.Alloc.pickMin_admissible ht hm ⟨ops, by rw [e]⟩ hmem hfit hmin
  · intro p; rw [e]; exact fifo GS.Alloc.pickMin_admissible ht hm ops p

end GS.C14
