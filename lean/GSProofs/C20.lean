import GS.Model.Concurrent
import GSProofs.C19
import GSProofs.Lemmas.ConcurrentNonint
import GSProofs.Lemmas.ConcurrentConfl
/-!
# C20 — Concurrent requests between two peers each retrieve completely

> Several requests in flight at once from one requestor to one responder, over overlapping DAGs, each
> deliver the same nodes and store the same blocks as they would if run alone, whatever the
> interleaving of their traversals and messages.

**The sentence is false of the code as it is** (known finding `shared-block-not-yet-stored`,
reproduced on the real code by the `concur` harness on every run, `corpus/C20/concur/known.cases`): the
responder de-duplicates blocks per PEER across requests (`peerLinkTracker`: a block in use by an
in-progress request of the same dedup scope is reported "present" to a second request WITHOUT its
bytes), while the requestor verifies and loads per REQUEST: the second request looks the block up in
the local store, and if the first request's copy has not been stored yet (not delivered, or its
traversal has not reached it), the link is reported missing and its subtree skipped.

* `full` — the statement at full strength, kept as a comment (false).
* `counterexample` — a concrete schedule of the model `GS.Concurrent` (two requests for the same
  two-block DAG), by evaluation: the second request reports the root missing and delivers nothing,
  alone it delivers both blocks.
* `distinct_keys_repair` — the same schedule with distinct dedup-by-key extensions: both requests
  deliver everything (a test of concrete values).
* Responder side, for EVERY interleaving of any number of requests (every well-formed history of the
  peer's link tracker, via `GS.C19.send_iff_partial`): `responder_decision` — the decision for a link of
  request `r` is the decision the responder would take if `r` were alone, AND no other in-progress
  request of `r`'s dedup scope holds the block; `distinct_keys_decide_alone` — if no other in-progress
  request shares `r`'s scope (distinct dedup keys), the decision is exactly the solo decision;
  `own_history` — the solo decision is a function of `r`'s own operations only.
* Requestor side: `step_frame` — a step of request `i` leaves every other request's executor, loader,
  in-flight messages and reports unchanged (the only coupling is the shared block store and the
  peer's link tracker).
* `partial_own_scope` / `partial_own_scope_result` — the COMPOSED statement (requestor executors +
  reconciled loaders + responder traversals + the peer's link tracker + per-request FIFOs), for a
  request that carries a dedup key nobody else carries and works over a block store of its own — i.e.
  a request with a persistence option, which is how dedup keys come about in the code.  For EVERY
  schedule the request goes through exactly the run it goes through when the other requests are
  never issued (same reports in the same order, same store, same messages: non-interference,
  `GSProofs/Lemmas/ConcurrentNonint.lean`), and every two complete schedules give it the same
  result (responder steps and deliveries of one request commute: `GSProofs/Lemmas/ConcurrentConfl.lean`),
  so its result is its solo result whatever the interleaving.
* `partial` for requests with distinct keys over the SHARED default store — NOT proved; the precise
  remaining statement is at the end of the file.
* SCOPE of every theorem here: the composed model `GS.Concurrent` is hand-written and is NOT compared
  with the code as a whole (only its components are: streams `requestor`, `loader`, `linktrack`); its
  `run` delivers ONE response per wire message.  The real code shares one block map among all
  responses of a wire message: `runB` / `batching_couples` / `batching_changes_run` show that this
  coupling matters and that the theorems do not cover it.  Proved region = a request with a
  persistence option nobody else uses (own key, own store), unbatched deliveries; the default
  configuration (no keys) is the known finding.
-/
namespace GS.C20
open GS.Loader GS.Requestor GS.LinkTrack GS.Concurrent

/-! ## the counterexample -/

/-- link tree of the example: root 7 with one child 3 -/
def exLT : LT := [⟨7, [], 0, 1, 0⟩, ⟨3, [0], 1, 1, 0⟩]

/-- both requests are issued; the responder handles the root for request 0 (block 7 travels) and then
    for request 1 (block 7 is in use by request 0: present, no bytes); request 1's message is delivered
    first: the requestor looks block 7 up in its store, where request 0's copy has not arrived yet. -/
def exSched : List Act :=
  [.start 0, .start 1, .resp 0, .resp 1, .deliver 1, .resp 1, .deliver 1, .resp 1, .deliver 1,
   .deliver 0, .resp 0, .deliver 0, .resp 0, .deliver 0]

/-- **C20.counterexample.**  Two requests for the same DAG (root 7, child 3) from a requestor that
    holds nothing to a responder that holds everything, no dedup key.  Under `exSched` (`exRun`) request 0
    delivers both blocks, request 1 reports the root missing (`RemoteMissingBlockErr` for block 7 at the
    empty path) and delivers nothing — run alone, it delivers both blocks.  Both requests have
    terminated; the store holds both blocks at the end. -/
def exRun : Sys := Concurrent.run (initSys [] [7, 3] [exLT, exLT] [none, none]) exSched
def exAlone : Sys := solo [] [7, 3] exLT none

theorem counterexample :
    resultOf exAlone 0 = ([(7, []), (3, [0])], [], 2) ∧
    resultOf exRun 0 = ([(7, []), (3, [0])], [], 2) ∧
    resultOf exRun 1 = ([], [(7, [])], 0) ∧
    finished exRun 0 = true ∧ finished exRun 1 = true ∧ finished exAlone 0 = true ∧
    stored exRun = [3, 7] := by
  refine ⟨by decide, by decide, by decide, by decide, by decide, by decide, by decide⟩

/-- the same schedule when the two requests carry DISTINCT dedup-by-key extensions: each is served
    from its own link tracker and both deliver everything (a test of concrete values; the general
    responder-side statement is `distinct_keys_decide_alone`). -/
theorem distinct_keys_repair :
    resultOf (Concurrent.run (initSys [] [7, 3] [exLT, exLT] [some 1, some 2]) exSched) 0 = ([(7, []), (3, [0])], [], 2) ∧
    resultOf (Concurrent.run (initSys [] [7, 3] [exLT, exLT] [some 1, some 2]) exSched) 1 = ([(7, []), (3, [0])], [], 2) := by
  decide

/-- … and with the SAME dedup key the defect is back (the key only names the scope). -/
theorem same_key_counterexample :
    resultOf (Concurrent.run (initSys [] [7, 3] [exLT, exLT] [some 5, some 5]) exSched) 1 = ([], [(7, [])], 0) := by
  decide

/-! ## the responder's decisions, for every interleaving -/

/-- the decision the responder takes for link `l` of request `r` when only `r`'s own history counts:
    the block is present, `r` is past its do-not-send-first-blocks window, and `r` itself has not
    traversed `l` with its block before -/
def soloDecision (h : List LinkTrack.Op) (r : Req) (l : Link) (b : Bool) : Prop :=
  b = true ∧ skipOf r h < ((travCount r h + 1 : Nat) : Int) ∧ l ∉ withBlock r h

/-- **C20.responder_decision.**  After ANY well-formed history of the peer's link tracker (any number
    of requests, their `RecordLinkTraversal` / finish / clear operations interleaved in any order),
    the block of link `l` travels with request `r`'s response iff the responder would send it were `r`
    alone AND no other request of `r`'s dedup scope that is in progress has traversed `l` with its
    block.  The second conjunct is the cross-request de-duplication that property C20 trips over. -/
theorem responder_decision (h : List LinkTrack.Op) (hwf : WF h) (r : Req) (l : Link) (b : Bool) :
    ∃ s, (LinkTrack.step (LinkTrack.run h).1 (.trav r l b)).2 = LinkTrack.Out.sent s (travCount r h + 1) ∧
      (s = true ↔ (soloDecision h r l b ∧ ∀ r', r' ≠ r → scopeOf r' h = scopeOf r h → l ∉ withBlock r' h)) := by
  obtain ⟨s, hs, hiff⟩ := GS.C19.send_iff_partial h hwf r l b
  refine ⟨s, hs, ?_⟩
  rw [hiff]
  unfold soloDecision
  constructor
  · rintro ⟨hb, hsk, hall⟩
    exact ⟨⟨hb, hsk, hall r rfl⟩, fun r' _ hsc => hall r' hsc⟩
  · rintro ⟨⟨hb, hsk, hown⟩, hothers⟩
    refine ⟨hb, hsk, fun r' hsc => ?_⟩
    by_cases hr : r' = r
    · subst hr; exact hown
    · exact hothers r' hr hsc

/-- **C20.distinct_keys_decide_alone** (the responder half of `partial`).  If no other request that is
    in progress shares `r`'s dedup scope — in particular if all concurrent requests carry distinct
    dedup keys — the responder decides for `r` exactly as if `r` were alone, under every interleaving. -/
theorem distinct_keys_decide_alone (h : List LinkTrack.Op) (hwf : WF h) (r : Req) (l : Link) (b : Bool)
    (hd : ∀ r', r' ≠ r → inProgress r' h = true → scopeOf r' h ≠ scopeOf r h) :
    ∃ s, (LinkTrack.step (LinkTrack.run h).1 (.trav r l b)).2 = LinkTrack.Out.sent s (travCount r h + 1) ∧
      (s = true ↔ soloDecision h r l b) := by
  obtain ⟨s, hs, hiff⟩ := responder_decision h hwf r l b
  refine ⟨s, hs, ?_⟩
  rw [hiff]
  constructor
  · exact fun h1 => h1.1
  · intro h1
    refine ⟨h1, fun r' hne hsc => ?_⟩
    by_cases hip : inProgress r' h = true
    · exact absurd hsc (hd r' hne hip)
    · -- a request that is not in progress has traversed nothing
      have : since r' h = [] := by
        unfold inProgress at hip
        cases hsn : since r' h with
        | nil => rfl
        | cons _ _ => simp [hsn] at hip
      simp [withBlock, this]

/-- non-vacuity of `responder_decision` / `distinct_keys_decide_alone`: a well-formed interleaved history
    of two requests with distinct dedup keys over the same block 9, and one with the same key: the
    second request gets the block in the first case only (a test of concrete values) -/
example :
    WF [.dedup 1 5, .dedup 2 6, .trav 1 9 true] ∧
    (∀ r', r' ≠ 2 → inProgress r' [.dedup 1 5, .dedup 2 6, .trav 1 9 true] = true →
      scopeOf r' [.dedup 1 5, .dedup 2 6, .trav 1 9 true] ≠ scopeOf 2 [.dedup 1 5, .dedup 2 6, .trav 1 9 true]) ∧
    (LinkTrack.step (LinkTrack.run [.dedup 1 5, .dedup 2 6, .trav 1 9 true]).1 (.trav 2 9 true)).2 = .sent true 1 ∧
    WF [.dedup 1 5, .dedup 2 5, .trav 1 9 true] ∧
    (LinkTrack.step (LinkTrack.run [.dedup 1 5, .dedup 2 5, .trav 1 9 true]).1 (.trav 2 9 true)).2 = .sent false 1 := by
  refine ⟨by decide, ?_, by decide, by decide, by decide⟩
  intro r' hne hip
  -- only requests 1 and 2 are in progress
  by_cases h1 : r' = 1
  · subst h1; decide
  · exfalso
    have h1' : ¬ (1 = r') := fun h => h1 h.symm
    have h2' : ¬ (2 = r') := fun h => hne h.symm
    have : inProgress r' [.dedup 1 5, .dedup 2 6, .trav 1 9 true] = false := by
      simp [inProgress, since, sinceStep, Op.req, Op.isEnd, h1', h2']
    rw [this] at hip
    cases hip

/-- the operations of request `r` in a history -/
def ownOps (r : Req) (h : List LinkTrack.Op) : List LinkTrack.Op := h.filter (fun o => o.req == r)

theorem since_own (r : Req) (h : List LinkTrack.Op) : since r (ownOps r h) = since r h := by
  unfold since ownOps
  suffices ∀ acc, List.foldl (sinceStep r) acc (h.filter (fun o => o.req == r)) = List.foldl (sinceStep r) acc h from
    this []
  induction h with
  | nil => intro acc; rfl
  | cons o rest ih =>
    intro acc
    by_cases ho : o.req = r
    · simp only [List.filter_cons, ho, beq_self_eq_true, if_true, List.foldl_cons]
      exact ih _
    · have hb : (o.req == r) = false := by simpa using ho
      simp only [List.filter_cons, hb, Bool.false_eq_true, if_false, List.foldl_cons]
      have : sinceStep r acc o = acc := by simp [sinceStep, ho]
      rw [this]
      exact ih _

/-- **C20.own_history.**  The solo decision is a function of `r`'s own operations: the other requests'
    operations can be deleted from the history without changing it. -/
theorem own_history (h : List LinkTrack.Op) (r : Req) (l : Link) (b : Bool) :
    soloDecision h r l b ↔ soloDecision (ownOps r h) r l b := by
  unfold soloDecision skipOf travCount withBlock
  rw [since_own]

/-! ## the requestor side: requests are coupled through the store and the tracker only -/

/-- **C20.step_frame.**  A step of request `i` does not touch the executor / loader state, the
    responder's traversal cursor, the in-flight messages or the reports of any other request `j`. -/
theorem step_frame (s : Sys) (a : Act) (j : Nat) (hj : j ≠ Act.idx a) :
    (Concurrent.step s a).reqs[j]? = s.reqs[j]? ∧ (Concurrent.step s a).resp[j]? = s.resp[j]? ∧
    (Concurrent.step s a).chan[j]? = s.chan[j]? ∧ (Concurrent.step s a).evs[j]? = s.evs[j]? ∧
    (Concurrent.step s a).lts = s.lts ∧ (Concurrent.step s a).rem = s.rem := by
  cases a with
  | start i =>
    simp only [Act.idx] at hj
    simp only [Concurrent.step]
    split
    · split
      · exact ⟨rfl, rfl, rfl, rfl, rfl, rfl⟩
      · generalize reqStart _ _ _ = rq
        obtain ⟨r', ev⟩ := rq
        simp only
        split <;> simp [setAt, getElem?_set_ne _ _ _ _ hj]
    · exact ⟨rfl, rfl, rfl, rfl, rfl, rfl⟩
  | resp i =>
    simp only [Act.idx] at hj
    simp only [Concurrent.step]
    split
    · split
      · exact ⟨rfl, rfl, rfl, rfl, rfl, rfl⟩
      · simp [setAt, getElem?_set_ne _ _ _ _ hj]
    · exact ⟨rfl, rfl, rfl, rfl, rfl, rfl⟩
  | deliver i =>
    simp only [Act.idx] at hj
    simp only [Concurrent.step]
    split
    · generalize reqMsg _ _ _ = rq
      obtain ⟨r', ev⟩ := rq
      simp [setAt, getElem?_set_ne _ _ _ _ hj]
    · exact ⟨rfl, rfl, rfl, rfl, rfl, rfl⟩

/-! ## a request in a scope of its own is not interfered with -/

/-- the schedule with everything but request `i`'s actions deleted: the other requests are never issued -/
def onlyOf (i : Nat) (sched : List Act) : List Act := sched.filter (fun a => Act.idx a == i)

/-- **C20.partial_own_scope** (the composed statement, for a request that uses a persistence option).
    Any number of requests `lts`, any local and remote stores, ANY schedule `sched` (any interleaving
    of the requestor's executors, the responder's executors and message deliveries, complete or not).
    Request `i` carries a dedup key `k` that no other request carries and works over a block store of
    its own (`own[i] = some _`): both are what `UsePersistenceOption` gives a request.  Then request
    `i` goes through exactly the run it goes through when the other requests are never issued
    (`onlyOf i sched`: the same schedule with the other requests' actions deleted): the same reports
    in the same order (blocks handed to the traversal, missing-block errors, nodes delivered —
    `resultOf`), the same block store, the same termination state, the same messages in flight.
    The requestor's executor and reconciled loader (`GS.Requestor`), the responder's traversal and
    the peer's link tracker are the composed models, not abstractions of them. -/
theorem partial_own_scope (st : List (Cid × Blk)) (rem : List Cid) (lts : List LT) (keys : List (Option Key))
    (own : List (Option (List (Cid × Blk)))) (i : Nat) (k : Key) (sched : List Act)
    (hk : keys.getD i none = some k) (hothers : ∀ j, j ≠ i → keys.getD j none ≠ some k)
    (hown : (own.getD i none).isSome = true) :
    resultOf (Concurrent.run (initSys st rem lts keys own) sched) i
      = resultOf (Concurrent.run (initSys st rem lts keys own) (onlyOf i sched)) i ∧
    storeOf (Concurrent.run (initSys st rem lts keys own) sched) i
      = storeOf (Concurrent.run (initSys st rem lts keys own) (onlyOf i sched)) i ∧
    finished (Concurrent.run (initSys st rem lts keys own) sched) i
      = finished (Concurrent.run (initSys st rem lts keys own) (onlyOf i sched)) i ∧
    (Concurrent.run (initSys st rem lts keys own) sched).chan[i]?
      = (Concurrent.run (initSys st rem lts keys own) (onlyOf i sched)).chan[i]? ∧
    (Concurrent.run (initSys st rem lts keys own) sched).resp[i]?
      = (Concurrent.run (initSys st rem lts keys own) (onlyOf i sched)).resp[i]? := by
  have hK : KInv (initSys st rem lts keys own) := by
    intro e he
    simp [initSys] at he
  have hO : Own i k (initSys st rem lts keys own) := ⟨hk, hothers, hown⟩
  have hA : ActV i k (initSys st rem lts keys own) := by
    intro rr h1 h2
    simp only [initSys, List.getElem?_map] at h1
    cases hl : lts[i]? with
    | none => rw [hl] at h1; cases h1
    | some lt =>
      rw [hl] at h1
      simp only [Option.map_some, Option.some.injEq] at h1
      subst h1
      cases h2
  have hv := view_run i k sched _ _ rfl hK hK hO hO hA
  have hB := (Own_run i k _ (onlyOf i sched) hO).store
  unfold onlyOf at hB ⊢
  generalize Concurrent.run (initSys st rem lts keys own) sched = A at hv
  generalize Concurrent.run (initSys st rem lts keys own) (sched.filter fun a => Act.idx a == i) = B at hv hB
  simp only [view, View.mk.injEq] at hv
  obtain ⟨h1, _, _, h4, h5, h6, h7, _, _⟩ := hv
  refine ⟨?_, ?_, ?_, h6, h5⟩
  · unfold resultOf
    rw [List.getD_eq_getElem?_getD, List.getD_eq_getElem?_getD, h7]
  · unfold storeOf
    rw [h4]
    -- both have a store of their own
    cases ho : B.own.getD i none with
    | none => rw [ho] at hB; cases hB
    | some x => rfl
  · unfold finished
    rw [h1]

/-- request `i` is issued once, before anything else happens to it -/
def IssuedOnce (i : Nat) (sched : List Act) : Prop :=
  ∃ σ, onlyOf i sched = .start i :: σ ∧ ∀ a ∈ σ, a ≠ .start i

/-- **C20.partial_own_scope_result** (`partial` for requests with persistence options).  Two schedules
    `sched`, `sched'` of the whole system — any interleavings with any other requests; `sched'` may
    be a schedule of request `i` ALONE — in both of which request `i` is issued once and is complete
    at the end (the responder has finished it and none of its messages is in flight).  If `i` carries
    a dedup key nobody else carries and works over a store of its own, it delivers the same nodes,
    reports the same missing blocks and ends with the same block store under both: its result is its
    solo result, whatever the interleaving of traversals and messages. -/
theorem partial_own_scope_result (st : List (Cid × Blk)) (rem : List Cid) (lts : List LT) (keys : List (Option Key))
    (own : List (Option (List (Cid × Blk)))) (i : Nat) (k : Key) (sched sched' : List Act)
    (hk : keys.getD i none = some k) (hothers : ∀ j, j ≠ i → keys.getD j none ≠ some k)
    (hown : (own.getD i none).isSome = true)
    (h1 : IssuedOnce i sched) (h2 : IssuedOnce i sched')
    (c1 : Complete i (Concurrent.run (initSys st rem lts keys own) sched))
    (c2 : Complete i (Concurrent.run (initSys st rem lts keys own) sched')) :
    resultOf (Concurrent.run (initSys st rem lts keys own) sched) i
      = resultOf (Concurrent.run (initSys st rem lts keys own) sched') i ∧
    storeOf (Concurrent.run (initSys st rem lts keys own) sched) i
      = storeOf (Concurrent.run (initSys st rem lts keys own) sched') i ∧
    finished (Concurrent.run (initSys st rem lts keys own) sched) i
      = finished (Concurrent.run (initSys st rem lts keys own) sched') i := by
  obtain ⟨a1, a2, a3, a4, a5⟩ := partial_own_scope st rem lts keys own i k sched hk hothers hown
  obtain ⟨b1, b2, b3, b4, b5⟩ := partial_own_scope st rem lts keys own i k sched' hk hothers hown
  have d1 : Complete i (Concurrent.run (initSys st rem lts keys own) (onlyOf i sched)) := by
    unfold Complete at c1 ⊢
    rw [List.getD_eq_getElem?_getD] at c1 ⊢
    rw [← a4, ← a5]; exact c1
  have d2 : Complete i (Concurrent.run (initSys st rem lts keys own) (onlyOf i sched')) := by
    unfold Complete at c2 ⊢
    rw [List.getD_eq_getElem?_getD] at c2 ⊢
    rw [← b4, ← b5]; exact c2
  obtain ⟨σ, e1, n1⟩ := h1
  obtain ⟨τ, e2, n2⟩ := h2
  have mem : ∀ (sch : List Act) (ρ : List Act), onlyOf i sch = .start i :: ρ → (∀ a ∈ ρ, a ≠ .start i) →
      ∀ a ∈ ρ, a = .resp i ∨ a = .deliver i := by
    intro sch ρ e n a ha
    have : a ∈ onlyOf i sch := by rw [e]; exact List.mem_cons_of_mem _ ha
    unfold onlyOf at this
    have hi : Act.idx a = i := by simpa using (List.mem_filter.mp this).2
    have hn := n a ha
    cases a with
    | start j => simp only [Act.idx] at hi; subst hi; exact absurd rfl hn
    | resp j => simp only [Act.idx] at hi; subst hi; exact Or.inl rfl
    | deliver j => simp only [Act.idx] at hi; subst hi; exact Or.inr rfl
  rw [e1] at d1 a1 a2 a3
  rw [e2] at d2 b1 b2 b3
  have hrun : ∀ ρ, Concurrent.run (initSys st rem lts keys own) (.start i :: ρ)
      = Concurrent.run (Concurrent.step (initSys st rem lts keys own) (.start i)) ρ := fun _ => rfl
  rw [hrun] at d1 d2 a1 a2 a3 b1 b2 b3
  have heq := run_confluent i _ σ τ (mem sched σ e1 n1) (mem sched' τ e2 n2) d1 d2
  rw [a1, a2, a3, b1, b2, b3, heq]
  exact ⟨rfl, rfl, rfl⟩

/-- non-vacuity of `partial_own_scope_result` (a test of concrete values): the two requests of the
    counterexample, now with persistence options (keys 1 and 2, a store each), under the schedule of
    the counterexample and under the solo schedule of request 1: issued once, complete, and request 1
    delivers both blocks. -/
example :
    let init := initSys [] [7, 3] [exLT, exLT] [some 1, some 2] [some [], some []]
    let solo1 : List Act := [.start 1, .resp 1, .resp 1, .resp 1, .deliver 1, .deliver 1, .deliver 1]
    onlyOf 1 exSched = .start 1 :: [.resp 1, .deliver 1, .resp 1, .deliver 1, .resp 1, .deliver 1] ∧
    ((Concurrent.run init exSched).resp[1]?.map (·.active) = some false ∧ (Concurrent.run init exSched).chan.getD 1 [] = []) ∧
    ((Concurrent.run init solo1).resp[1]?.map (·.active) = some false ∧ (Concurrent.run init solo1).chan.getD 1 [] = []) ∧
    resultOf (Concurrent.run init exSched) 1 = ([(7, []), (3, [0])], [], 2) ∧
    resultOf (Concurrent.run init solo1) 1 = ([(7, []), (3, [0])], [], 2) := by
  refine ⟨by decide, ⟨by decide, by decide⟩, ⟨by decide, by decide⟩, by decide, by decide⟩

/-! ## message batching: what the per-request FIFOs of `run` do not show

`run` delivers one response per wire message.  The real requestor ingests every response of a wire
message with the message's WHOLE block map, and the responder batches the transactions of several
requests to one peer into one message (`runB`, `BAct.batch`).  Two evaluations of the model show what
that coupling does; all theorems above are about `run` (no two requests' responses in one message). -/

/-- the schedule of `counterexample`, except that the first messages of the two requests (block 7 with
    bytes for request 0, block 7 "present, no bytes" for request 1) travel as ONE wire message -/
def exSchedBatched : List BAct :=
  [.act (.start 0), .act (.start 1), .act (.resp 0), .act (.resp 1), .batch [0, 1]] ++
    ([Act.resp 1, .deliver 1, .resp 1, .deliver 1, .resp 0, .deliver 0, .resp 0, .deliver 0].map BAct.act)

/-- **C20.batching_couples.**  With the two first messages batched, request 1 finds block 7 in the
    message's block map and delivers everything: whether the known finding strikes depends on the
    batching of the responder's messages, which the per-request FIFO model does not represent.  (The
    finding is still there: `counterexample` is the same exchange with the two responses in separate
    messages; `concur` reproduces it on the real code.) -/
theorem batching_couples :
    resultOf (runB (initSys [] [7, 3] [exLT, exLT] [none, none]) exSchedBatched) 1 = ([(7, []), (3, [0])], [], 2) ∧
    resultOf exRun 1 = ([], [(7, [])], 0) := by
  refine ⟨by decide, by decide⟩

/-- root 7 with the same child 3 under two links: the second occurrence travels without bytes -/
def dupLT : LT := [⟨7, [], 0, 1, 0⟩, ⟨3, [0], 1, 1, 0⟩, ⟨3, [1], 1, 1, 0⟩]

/-- **C20.batching_changes_run.**  Two requests with persistence options (own keys, own stores: the
    hypotheses of `partial_own_scope`).  Unbatched, request 1 takes the second occurrence of block 3
    from its own store; when that response (no bytes) shares a wire message with a response of request
    0 that carries block 3, request 1 ingests the bytes again and writes them again: same RESULT, but
    not the same run — `partial_own_scope` (equality of the whole run) does not extend to batched
    deliveries as it stands. -/
theorem batching_changes_run :
    let init := initSys [] [7, 3] [dupLT, dupLT] [some 1, some 2] [some [], some []]
    let pre : List BAct := [Act.start 0, .start 1, .resp 1, .deliver 1, .resp 1, .deliver 1, .resp 0, .resp 0, .resp 1,
      .deliver 0].map BAct.act
    let plain := runB init (pre ++ [.act (.deliver 0), .act (.deliver 1)])
    let batched := runB init (pre ++ [.batch [0, 1]])
    resultOf plain 1 = resultOf batched 1 ∧
    storeOf plain 1 = [(3, 3), (7, 7)] ∧ storeOf batched 1 = [(3, 3), (3, 3), (7, 7)] := by
  refine ⟨by decide, by decide, by decide⟩

/-! ## full statement (false) and the remaining case (NOT proved)

  -- false: `counterexample`
  theorem full : ∀ st rem lts keys sched i, IssuedOnce i sched → Complete i (run (initSys st rem lts keys) sched) →
      resultOf (run (initSys st rem lts keys) sched) i = resultOf (solo st rem lts[i] keys[i]) 0

PROVED above (`partial_own_scope_result`): the statement for every request `i` with `keys[i] = some k`,
`k` carried by no other request, and `own[i] = some _` (a store of its own); the other requests are
arbitrary (any keys, shared or own stores).

REMAINING (not proved, not refuted: the harness `concur` has no failing case with distinct keys —
corpus/C20/concur/distinct-keys.cases and every generated `keys=distinct` case):

  theorem partial_shared_store : ∀ st rem lts keys sched sched' i k,
      keys.getD i none = some k → (∀ j ≠ i, keys.getD j none ≠ some k) →
      (∀ c, c ∈ st.map (·.1) → c ∈ rem) →                       -- the local store is a part of the remote one
      IssuedOnce i sched → IssuedOnce i sched' → (∀ a ∈ sched', Act.idx a = i) →
      Complete i (run (initSys st rem lts keys) sched) → Complete i (run (initSys st rem lts keys) sched') →
      blocksOf / missingOf / deliveredOf of request i agree between the two runs

i.e. the same request over the SHARED default store (`own[i] = none`).  The responder half is proved
(`distinct_keys_decide_alone`: with distinct keys the responder decides for `i` as if alone, and
`other_step`'s tracker part does not use the own store).  What is missing is the requestor half: the
other requests add blocks to the store request `i` reads, at arbitrary moments.  A block that
appears early turns a remote load of `i` into a local one: `i` goes online later, sends a larger
do-not-send-first-blocks value, and the responder skips that many blocks — the MESSAGES of `i` differ
from its solo run, only its reports may agree.  That the reports agree needs (a) every block in the
store is the block the responder holds under that cid (`st ⊆ rem`, content addressing), and (b)
`GS.C02.complete_remote_start` for a NON-ZERO number of locally traversed blocks together with store
growth during the exchange — the loader agent has it for N = 0 and a fixed store
(`GSProofs/C02.lean`), the N > 0 case is open there.  The schedule-independence half
(`run_confluent`) carries over unchanged: it does not use the own store.
-/

end GS.C20
