import GS.Model.Responder
import GSProofs.Lemmas.ResponderRun
/-!
Responder side of C06: `runTraversal` interrupted by a pause and resumed with the same `Run`
(`responsemanager.unpauseRequest` re-queues the task; `taskDataForKey` hands out the SAME traverser)
produces, apart from the RequestPaused status, exactly the transactions of the uninterrupted run.
-/
namespace GS.C06
open GS.Responder GS.LinkTrack GS.C03L

/-- the stop conditions that are pauses -/
def isPause : Stop → Bool
  | .hookPause _ | .sigPause _ => true
  | _ => false

/-- a transaction without its RequestPaused status operations -/
def stripPaused (t : Txn) : Txn := t.filter (fun o => o != ROp.status .paused)

def stripAll (ts : List Txn) : List Txn := ts.map stripPaused

theorem stripPaused_txn (a b : Bool) (c : Cid) (pr sd : Bool) (i : Nat) :
    stripPaused ((if a then [ROp.status .paused] else []) ++ [ROp.block c pr sd i] ++ (if b then [ROp.status .paused] else []))
      = [ROp.block c pr sd i] := by
  cases a <;> cases b <;> simp [stripPaused]

theorem sizeAll_answer_lt (t : Trav) (s : Store) (c : Cid) (kids rest : List LT) :
    sizeAll (t.answer s c kids rest).todo < sizeAll (LT.node c kids :: rest) := by
  unfold Trav.answer
  simp only [sizeAll, LT.size]
  split
  · split
    · simp only; omega
    · simp only; rw [sizeAll_append]; omega
  · split <;> (simp only; omega)

/-- the transaction of one `sendResponse` -/
def txnOf (stop : Stop) (s : Store) (c : Cid) (loads hooks : Nat) (send : Bool) (idx : Nat) : Txn :=
  (if stop == .sigPause loads then [ROp.status .paused] else []) ++ [ROp.block c (s.has c) send idx]
    ++ (if (s.has c && !s.isEmpty c) && stop == .hookPause hooks then [ROp.status .paused] else [])

/-- hook counter after the block hook of `c` (not called for a missing or zero-length block) -/
def hooksAfter (s : Store) (c : Cid) (hooks : Nat) : Nat :=
  if s.has c && !s.isEmpty c then hooks + 1 else hooks

/-- does the pause fire in the iteration that handles `c`? -/
def fires (stop : Stop) (s : Store) (c : Cid) (loads hooks : Nat) : Bool :=
  ((s.has c && !s.isEmpty c) && stop == .hookPause (hooksAfter s c hooks)) || stop == .sigPause loads

/-- one iteration of the loop, spelled out -/
theorem runTraversal_node (s : Store) (stop : Stop) (r : Req) (fuel : Nat) (p : PeerTracker) (run : Run)
    (c : Cid) (kids rest : List LT) (herr : run.trav.err = none) (htodo : run.trav.todo = .node c kids :: rest) :
    runTraversal s stop r (fuel + 1) p run =
      if stop == .cancel (run.loads + 1) then
        (p, { run with trav := run.trav.answer s c kids rest, loads := run.loads + 1 }, [[]], .cancelled)
      else
        let run' : Run := { trav := run.trav.answer s c kids rest, loads := run.loads + 1, hooks := hooksAfter s c run.hooks }
        let t := p.traverse r c (s.has c)
        let txn := txnOf stop s c (run.loads + 1) (hooksAfter s c run.hooks) t.2.1 t.2.2
        if fires stop s c (run.loads + 1) run.hooks then (t.1, run', [txn], .paused)
        else
          ((runTraversal s stop r fuel t.1 run').1, (runTraversal s stop r fuel t.1 run').2.1,
            txn :: (runTraversal s stop r fuel t.1 run').2.2.1, (runTraversal s stop r fuel t.1 run').2.2.2) := by
  rw [runTraversal]
  simp only [herr, htodo]
  rfl

/-- enough fuel is enough: the result of the loop does not depend on the fuel -/
theorem runTraversal_fuel (s : Store) (stop : Stop) (r : Req) :
    ∀ (f1 f2 : Nat) (p : PeerTracker) (run : Run),
      sizeAll run.trav.todo < f1 → sizeAll run.trav.todo < f2 →
      runTraversal s stop r f1 p run = runTraversal s stop r f2 p run := by
  intro f1
  induction f1 with
  | zero => intro f2 p run h; omega
  | succ f1 ih =>
    intro f2 p run h1 h2
    cases f2 with
    | zero => omega
    | succ f2 =>
      cases herr : run.trav.err with
      | some e =>
        cases e <;> (rw [runTraversal, runTraversal]; simp only [herr])
      | none =>
        cases htodo : run.trav.todo with
        | nil => rw [runTraversal, runTraversal]; simp only [herr, htodo]
        | cons t rest =>
          obtain ⟨c, kids⟩ := t
          have hlt := sizeAll_answer_lt run.trav s c kids rest
          rw [htodo] at h1 h2
          rw [runTraversal_node s stop r f1 p run c kids rest herr htodo,
              runTraversal_node s stop r f2 p run c kids rest herr htodo]
          simp only
          rw [ih f2 (p.traverse r c (s.has c)).1
            { trav := run.trav.answer s c kids rest, loads := run.loads + 1, hooks := hooksAfter s c run.hooks }
            (by simp only; omega) (by simp only; omega)]

theorem fires_never (s : Store) (c : Cid) (loads hooks : Nat) : fires .never s c loads hooks = false := by
  simp [fires]

theorem txnOf_never (s : Store) (c : Cid) (loads hooks : Nat) (send : Bool) (idx : Nat) :
    txnOf .never s c loads hooks send idx = [ROp.block c (s.has c) send idx] := by
  simp [txnOf]

theorem stripPaused_txnOf (stop : Stop) (s : Store) (c : Cid) (loads hooks : Nat) (send : Bool) (idx : Nat) :
    stripPaused (txnOf stop s c loads hooks send idx) = [ROp.block c (s.has c) send idx] := by
  unfold txnOf
  exact stripPaused_txn _ _ _ _ _ _

theorem txnOf_nofire (stop : Stop) (s : Store) (c : Cid) (loads hooks : Nat) (send : Bool) (idx : Nat)
    (h : fires stop s c loads hooks = false) :
    txnOf stop s c loads (hooksAfter s c hooks) send idx = [ROp.block c (s.has c) send idx] := by
  unfold fires at h
  simp only [Bool.or_eq_false_iff] at h
  unfold txnOf
  simp [h.1, h.2]

/-- **split lemma.**  If the loop stops for a pause, then running the rest without interruption from
    the state it stopped in gives the uninterrupted run: same final tracker, same final traverser /
    counters, same exit, and the transactions are those of the first part (without the RequestPaused
    status) followed by those of the second part. -/
theorem runTraversal_split (s : Store) (stop : Stop) (hst : isPause stop = true) (r : Req) :
    ∀ (fuel : Nat) (p : PeerTracker) (run : Run), sizeAll run.trav.todo < fuel →
      ∀ p1 run1 txns1, runTraversal s stop r fuel p run = (p1, run1, txns1, .paused) →
      ∀ fuel2, sizeAll run1.trav.todo < fuel2 →
        runTraversal s .never r fuel p run =
          ((runTraversal s .never r fuel2 p1 run1).1, (runTraversal s .never r fuel2 p1 run1).2.1,
            stripAll txns1 ++ (runTraversal s .never r fuel2 p1 run1).2.2.1,
            (runTraversal s .never r fuel2 p1 run1).2.2.2) := by
  intro fuel
  induction fuel with
  | zero => intro p run h; omega
  | succ fuel ih =>
    intro p run hsz p1 run1 txns1 hrun fuel2 hf2
    cases herr : run.trav.err with
    | some e =>
      rw [runTraversal] at hrun
      simp only [herr] at hrun
      cases e
      · simp only at hrun
        split at hrun <;> simp at hrun
      · simp at hrun
    | none =>
      cases htodo : run.trav.todo with
      | nil => rw [runTraversal] at hrun; simp [herr, htodo] at hrun
      | cons t rest =>
        obtain ⟨c, kids⟩ := t
        rw [htodo] at hsz
        have hlt := sizeAll_answer_lt run.trav s c kids rest
        rw [runTraversal_node s stop r fuel p run c kids rest herr htodo] at hrun
        rw [runTraversal_node s .never r fuel p run c kids rest herr htodo]
        have hnc : (stop == Stop.cancel (run.loads + 1)) = false := by
          cases stop <;> simp_all [isPause]
        have hn1 : (Stop.never == Stop.cancel (run.loads + 1)) = false := by rfl
        rw [hnc] at hrun
        simp only [hn1, Bool.false_eq_true, if_false, fires_never, txnOf_never] at hrun ⊢
        cases hf : fires stop s c (run.loads + 1) run.hooks with
        | true =>
          rw [hf] at hrun
          simp only [if_true, Prod.mk.injEq] at hrun
          obtain ⟨hp1, hr1, ht1, _⟩ := hrun
          subst hp1; subst hr1; subst ht1
          simp only [stripAll, List.map_cons, List.map_nil, stripPaused_txnOf, List.cons_append, List.nil_append]
          rw [runTraversal_fuel s .never r fuel fuel2 _ _ (by simp only; omega) hf2]
        | false =>
          rw [hf] at hrun
          simp only [Bool.false_eq_true, if_false, Prod.mk.injEq] at hrun
          obtain ⟨hp1, hr1, ht1, hex⟩ := hrun
          have hrec : runTraversal s stop r fuel (p.traverse r c (s.has c)).1
              { trav := run.trav.answer s c kids rest, loads := run.loads + 1, hooks := hooksAfter s c run.hooks }
              = (p1, run1, (runTraversal s stop r fuel (p.traverse r c (s.has c)).1
              { trav := run.trav.answer s c kids rest, loads := run.loads + 1, hooks := hooksAfter s c run.hooks }).2.2.1, .paused) := by
            rw [← hp1, ← hr1, ← hex]
          have := ih _ _ (by simp only; omega) _ _ _ hrec fuel2 hf2
          rw [this]
          rw [← ht1]
          simp only [stripAll, List.map_cons, stripPaused_txnOf, List.cons_append]

end GS.C06
