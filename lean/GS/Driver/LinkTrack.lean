import GS.Model.LinkTracker
import GS.Driver.Proto
/-! line-protocol driver for the link-tracker models (component `linktrack`, property C19).

Ops on the peer link tracker (driven in Go through responseassembler.New / NewStream / Transaction):
  dedup r k | ignore r l1,l2,..|- | skip r n | trav r l present|missing | finish r | finisherr r | clear r
Ops on a bare linktracker.LinkTracker:
  lrec r l present|missing | lfin r
-/
namespace GS.Driver.LinkTrack
open GS.Proto GS.LinkTrack

structure D where
  p : PeerTracker := {}
  t : LinkTracker := {}
  seenL : List Nat := []            -- links used with the bare tracker, first-appearance order
  seenRL : List (Nat × Nat) := []   -- (request, link) pairs used with the bare tracker

def b01 (b : Bool) : String := if b then "1" else "0"

def addNew [BEq α] (xs : List α) (x : α) : List α := if xs.contains x then xs else xs ++ [x]

def ltState (d : D) : String :=
  let refs := joinWith "," (d.seenL.map fun l => s!"{l}={d.t.blockRefCount l}")
  let miss := joinWith "," (d.seenRL.map fun (r, l) => s!"{r}/{l}={b01 (d.t.isKnownMissing r l)}")
  s!"ref:{refs} miss:{miss} empty:{b01 d.t.isEmpty}"

def parseLinks (s : String) : Option (List Nat) :=
  if s == "-" then some [] else (s.splitOn ",").mapM (·.toNat?)

def parsePresence (s : String) : Option Bool :=
  if s == "present" then some true else if s == "missing" then some false else none

def parseOp : Toks → Option Op
  | ["dedup", r, k] => do some (.dedup (← r.toNat?) (← k.toNat?))
  | ["ignore", r, ls] => do some (.ignore (← r.toNat?) (← parseLinks ls))
  | ["skip", r, n] => do some (.skip (← r.toNat?) (← n.toInt?))
  | ["trav", r, l, b] => do some (.trav (← r.toNat?) (← l.toNat?) (← parsePresence b))
  | ["finish", r] => do some (.finish (← r.toNat?))
  | ["finisherr", r] => do some (.finishErr (← r.toNat?))
  | ["clear", r] => do some (.clear (← r.toNat?))
  | _ => none

def renderOut (op : Op) (o : Out) : String :=
  match op, o with
  | .trav .., .sent s i => s!"sent:{b01 s} idx:{i}"
  | .finish _, .done c => if c then "status:full" else "status:partial"
  | _, _ => "ok"

def stepLine (d : D) (t : Toks) : D × String :=
  match t with
  | ["lrec", r, l, b] =>
    match r.toNat?, l.toNat?, parsePresence b with
    | some r, some l, some b =>
      let d' := { d with t := d.t.record r l b, seenL := addNew d.seenL l, seenRL := addNew d.seenRL (r, l) }
      (d', ltState d')
    | _, _, _ => (d, "bad-op")
  | ["lfin", r] =>
    match r.toNat? with
    | some r =>
      let (t', a) := d.t.finishRequest r
      let d' := { d with t := t' }
      (d', s!"all:{b01 a} {ltState d'}")
    | none => (d, "bad-op")
  | _ =>
    match parseOp t with
    | some op =>
      let (p', o) := step d.p op
      ({ d with p := p' }, renderOut op o)
    | none => (d, "bad-op")

def handler (ops : List Toks) : List String :=
  let (_, outs) := ops.foldl (fun (acc : D × List String) t =>
    let (d', o) := stepLine acc.1 t
    (d', o :: acc.2)) ({}, [])
  outs.reverse

end GS.Driver.LinkTrack

def main : IO Unit := GS.Proto.runModel GS.Driver.LinkTrack.handler
