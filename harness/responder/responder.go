// Package responder drives the real responder side of go-graphsync for property C03
// ("responder output mirrors its own selector traversal"): a real responsemanager.ResponseManager
// + real queryexecutor + real responseassembler (+ real messagequeue.Builder / message.Builder and,
// in `mq real` mode, the real messagequeue.MessageQueue + allocator) answering scripted requests of
// one requestor peer.  The wire messages are encoded and decoded with the real v2 codec and
// recorded by a fake network / fake peer message handler.
//
// Line protocol (one case = one DAG + selector + responder store + a few requests):
//
//	case <id>
//	dag <seed> <maxBlocks> <flags>       flags: letters of I(nline) S(hared) R(aw) D(identity cids) E(mpty raw leaf), or "-"
//	lt <n> <block:parent:path> ...       link tree of DAG+selector over the COMPLETE store (dag.LT.Format)
//	store h=<held> c=<corrupt> e=<empty> rd=<rdr|buf>    lists of block indices ("-" = none); rd = reader type the store returns
//	mq fake <b1,b2,..> | mq real         how transactions are batched into messages (fake: scripted, cyclic)
//	req <id> key=<n|-|bad> ign=<list|e|-|bad> skip=<int|-|bad> hook=<ok|reject|err|pause> stop=<none|hookpause:k|sigpause:k|cancel:k>
//	resume <id>
//	rcancel <id>                         the requestor cancels the paused request <id>; a later `req <id>` reuses the request id
//
// dag/lt/store/mq print one line, req/resume print three lines:
//
//	md  <entries>      concatenated link metadata of the request in wire order: <block><p|m>[+]  (+ = the
//	                   message carrying the entry also carries the block; first present entry of that cid in the message);
//	                   !<block> = a block in a message without a present entry for it in that message
//	st  <statuses>     the non-partial response status codes seen, in wire order (mq real: only the last one)
//	msgs <detail>      mq fake only: per message [<status> <index>:<entry>... b=<blocks>]; "-" in mq real mode
package responder

import (
	"bufio"
	"bytes"
	"context"
	"errors"
	"fmt"
	"io"
	"math/rand"
	"sort"
	"strconv"
	"strings"
	"sync"
	"time"

	"github.com/ipfs/go-cid"
	"github.com/ipfs/go-graphsync"
	"github.com/ipfs/go-graphsync/allocator"
	"github.com/ipfs/go-graphsync/cidset"
	"github.com/ipfs/go-graphsync/dedupkey"
	"github.com/ipfs/go-graphsync/donotsendfirstblocks"
	"github.com/ipfs/go-graphsync/listeners"
	gsmsg "github.com/ipfs/go-graphsync/message"
	gsmsgv2 "github.com/ipfs/go-graphsync/message/v2"
	"github.com/ipfs/go-graphsync/messagequeue"
	gsnet "github.com/ipfs/go-graphsync/network"
	"github.com/ipfs/go-graphsync/peermanager"
	"github.com/ipfs/go-graphsync/persistenceoptions"
	"github.com/ipfs/go-graphsync/responsemanager"
	"github.com/ipfs/go-graphsync/responsemanager/hooks"
	"github.com/ipfs/go-graphsync/responsemanager/queryexecutor"
	"github.com/ipfs/go-graphsync/responsemanager/responseassembler"
	"github.com/ipfs/go-graphsync/taskqueue"
	logging "github.com/ipfs/go-log/v2"
	"github.com/ipld/go-ipld-prime"
	"github.com/ipld/go-ipld-prime/datamodel"
	"github.com/ipld/go-ipld-prime/linking"
	cidlink "github.com/ipld/go-ipld-prime/linking/cid"
	"github.com/ipld/go-ipld-prime/node/basicnode"
	"github.com/libp2p/go-libp2p/core/peer"
	mh "github.com/multiformats/go-multihash"

	"verifharness/dag"
	"verifharness/reg"
)

func init() {
	reg.Register(&reg.Component{Name: "responder", Gen: Gen, Run: Run})
	logging.SetAllLoggers(logging.LevelFatal) // the responder logs every missing block at ERROR level
}

// ---------------------------------------------------------------- small helpers

func joinInts(xs []int) string {
	if len(xs) == 0 {
		return "-"
	}
	ss := make([]string, len(xs))
	for i, x := range xs {
		ss[i] = strconv.Itoa(x)
	}
	return strings.Join(ss, ",")
}

func parseInts(s string) ([]int, bool) {
	if s == "-" || s == "" || s == "e" {
		return nil, true
	}
	var out []int
	for _, f := range strings.Split(s, ",") {
		v, err := strconv.Atoi(f)
		if err != nil {
			return nil, false
		}
		out = append(out, v)
	}
	return out, true
}

func kv(toks []string) map[string]string {
	m := map[string]string{}
	for _, t := range toks {
		if i := strings.IndexByte(t, '='); i >= 0 {
			m[t[:i]] = t[i+1:]
		}
	}
	return m
}

func optsFromFlags(maxBlocks int, flags string) dag.GenOpts {
	return dag.GenOpts{
		MaxBlocks:   maxBlocks,
		Inline:      strings.Contains(flags, "I"),
		Shared:      strings.Contains(flags, "S"),
		Raw:         strings.Contains(flags, "R"),
		IdentityCid: strings.Contains(flags, "D"),
		EmptyRaw:    strings.Contains(flags, "E"),
	}
}

// buildDag regenerates DAG and selector from the numbers on the `dag` line.
func buildDag(seed int64, maxBlocks int, flags string) (*dag.DAG, string, datamodel.Node) {
	r := rand.New(rand.NewSource(seed))
	d := dag.Gen(r, optsFromFlags(maxBlocks, flags))
	name, sel := dag.GenSelector(r)
	return d, name, sel
}

// outsider returns a CID that is in no generated DAG (block index >= 1000 in the protocol).
func outsider(k int) cid.Cid {
	pref := cid.Prefix{Version: 1, Codec: 0x55, MhType: mh.SHA2_256, MhLength: 32}
	c, _ := pref.Sum([]byte(fmt.Sprintf("outsider-%d", k)))
	return c
}

// ---------------------------------------------------------------- request specification

const (
	extAbsent = iota
	extOK
	extBad
)

type reqSpec struct {
	id       int
	keyMode  int
	key      int
	ignMode  int
	ign      []int
	skipMode int
	skip     int64
	hook     string // ok | reject | err | pause
	stopKind string // none | hookpause | sigpause | cancel
	stopK    int
}

func (s reqSpec) String() string {
	key, ign, skip := "-", "-", "-"
	switch s.keyMode {
	case extOK:
		key = strconv.Itoa(s.key)
	case extBad:
		key = "bad"
	}
	switch s.ignMode {
	case extOK:
		if len(s.ign) == 0 {
			ign = "e"
		} else {
			ign = joinInts(s.ign)
		}
	case extBad:
		ign = "bad"
	}
	switch s.skipMode {
	case extOK:
		skip = strconv.FormatInt(s.skip, 10)
	case extBad:
		skip = "bad"
	}
	stop := s.stopKind
	if stop != "none" {
		stop = fmt.Sprintf("%s:%d", s.stopKind, s.stopK)
	}
	return fmt.Sprintf("req %d key=%s ign=%s skip=%s hook=%s stop=%s", s.id, key, ign, skip, s.hook, stop)
}

func parseReq(t []string) (reqSpec, bool) {
	var s reqSpec
	if len(t) < 2 {
		return s, false
	}
	id, err := strconv.Atoi(t[1])
	if err != nil || id < 0 {
		return s, false
	}
	s.id = id
	m := kv(t[2:])
	switch v := m["key"]; v {
	case "-", "":
	case "bad":
		s.keyMode = extBad
	default:
		k, err := strconv.Atoi(v)
		if err != nil || k < 0 {
			return s, false
		}
		s.keyMode, s.key = extOK, k
	}
	switch v := m["ign"]; v {
	case "-", "":
	case "bad":
		s.ignMode = extBad
	default:
		l, ok := parseInts(v)
		if !ok {
			return s, false
		}
		s.ignMode, s.ign = extOK, l
	}
	switch v := m["skip"]; v {
	case "-", "":
	case "bad":
		s.skipMode = extBad
	default:
		k, err := strconv.ParseInt(v, 10, 64)
		if err != nil {
			return s, false
		}
		s.skipMode, s.skip = extOK, k
	}
	s.hook = m["hook"]
	switch s.hook {
	case "":
		s.hook = "ok"
	case "ok", "reject", "err", "pause":
	default:
		return s, false
	}
	s.stopKind = "none"
	if v := m["stop"]; v != "" && v != "none" {
		i := strings.IndexByte(v, ':')
		if i < 0 {
			return s, false
		}
		k, err := strconv.Atoi(v[i+1:])
		if err != nil || k < 1 {
			return s, false
		}
		s.stopKind, s.stopK = v[:i], k
		switch s.stopKind {
		case "hookpause", "sigpause", "cancel":
		default:
			return s, false
		}
	}
	return s, true
}

// ---------------------------------------------------------------- the world of one case

type item struct {
	block   int  // block index (-1 unknown cid)
	present bool // link action
	plus    bool // block travels in the same message
}

type wireMsg struct {
	status  graphsync.ResponseStatusCode
	has     bool // the message has a response for the request of the current op
	items   []item
	blocks  []int
	stray   []int
	indices []int64 // BlockData.Index per item (fake mq only)
	other   int     // responses for other requests (unexpected)
	unknown int     // blocks whose bytes hash to no CID of the DAG
}

type reqState struct {
	spec     reqSpec
	gsid     graphsync.RequestID
	loads    int
	hookN    int
	items    []item
	statuses []graphsync.ResponseStatusCode
	stray    int
	started  bool
	done     bool // terminal status observed
	gone     bool // cancelled by the requestor while paused (no status on the wire)
	overlap  bool // another request of the same dedup scope was in progress during its life (coverage only)
	held     []int  // blocks this request keeps "in use" in its dedup scope (ignore list + present links so far)
	attachErr string // first block-attachment mismatch seen on the wire (reported when the request is judged)
	released bool
	judged   bool
}

type world struct {
	out *reg.Out

	d      *dag.DAG
	sel    datamodel.Node
	ltFull *dag.LT

	have, corrupt map[int]bool
	rdBuf         bool
	storeSet      bool
	ltSeen        bool

	mqMode string
	script []int

	ctx    context.Context
	cancel context.CancelFunc
	rm     *responsemanager.ResponseManager
	p      peer.ID
	fake   *fakeHandler
	net    *fakeNet
	rec    *recorder

	// oracle's own record of the dedup scopes: busy[scope][block] = number of traversals-with-block
	// (incl. do-not-send-cids entries) by requests still in progress in that scope
	busy map[string]map[int]int

	mu   sync.Mutex
	reqs map[int]*reqState
	byID map[graphsync.RequestID]*reqState
	cur  *reqState
}

// recorder: wire messages in the order they were sent (already decoded through the real codec)
type recorder struct {
	mu   sync.Mutex
	msgs []recMsg
}
type recMsg struct {
	msg gsmsg.GraphSyncMessage
	bd  map[graphsync.RequestID][]graphsync.BlockData
}

func (r *recorder) add(m gsmsg.GraphSyncMessage, bd map[graphsync.RequestID][]graphsync.BlockData) {
	r.mu.Lock()
	r.msgs = append(r.msgs, recMsg{m, bd})
	r.mu.Unlock()
}
func (r *recorder) since(n int) []recMsg {
	r.mu.Lock()
	defer r.mu.Unlock()
	return append([]recMsg{}, r.msgs[n:]...)
}
func (r *recorder) len() int {
	r.mu.Lock()
	defer r.mu.Unlock()
	return len(r.msgs)
}

var codec = gsmsgv2.NewMessageHandler()

// roundTrip pushes a message through the real wire codec.
func roundTrip(p peer.ID, m gsmsg.GraphSyncMessage) (gsmsg.GraphSyncMessage, error) {
	var buf bytes.Buffer
	if err := codec.ToNet(p, m, &buf); err != nil {
		return gsmsg.GraphSyncMessage{}, err
	}
	return codec.FromNet(p, &buf)
}

// fakeHandler is a responseassembler.PeerMessageHandler that batches transactions into real
// messagequeue.Builder instances according to a script (number of non-empty transactions per
// message, cyclic) and "sends" each built message to the recorder.
type fakeHandler struct {
	mu     sync.Mutex
	ctx    context.Context
	p      peer.ID
	script []int
	pos    int
	cur    *messagequeue.Builder
	count  int
	weight int
	topic  messagequeue.Topic
	rec    *recorder
	errs   []string
}

// builderWeight measures the content of a builder through its public API (Build is non-destructive).
func builderWeight(b *messagequeue.Builder) int {
	m, err := b.Build()
	if err != nil {
		return -1
	}
	w := len(m.Blocks())
	for _, r := range m.Responses() {
		w += 1 + int(r.Status())*1000 + int(r.Metadata().Length()) + len(r.ExtensionNames())
	}
	return w
}

func (f *fakeHandler) AllocateAndBuildMessage(p peer.ID, blkSize uint64, fn func(*messagequeue.Builder)) {
	f.mu.Lock()
	defer f.mu.Unlock()
	if f.cur == nil {
		f.cur = messagequeue.NewBuilder(f.ctx, f.topic)
		f.topic++
		f.count = 0
		f.weight = builderWeight(f.cur)
	}
	fn(f.cur)
	w := builderWeight(f.cur)
	if w == f.weight {
		return // the transaction added nothing (no operations)
	}
	f.weight = w
	f.count++
	n := 1
	if len(f.script) > 0 {
		n = f.script[f.pos%len(f.script)]
	}
	if f.count >= n {
		f.flushLocked()
	}
}

func (f *fakeHandler) flushLocked() {
	if f.cur == nil {
		return
	}
	b := f.cur
	f.cur = nil
	if b.Empty() {
		return
	}
	f.pos++
	m, err := b.Build()
	if err != nil {
		f.errs = append(f.errs, "build:"+err.Error())
		return
	}
	dm, err := roundTrip(f.p, m)
	if err != nil {
		f.errs = append(f.errs, "codec:"+err.Error())
		return
	}
	f.rec.add(dm, b.BlockData())
}

func (f *fakeHandler) flush() {
	f.mu.Lock()
	f.flushLocked()
	f.mu.Unlock()
}

// fakeNet is the network under the real message queue (mq real).
type fakeNet struct {
	rec *recorder
	p   peer.ID
	mu  sync.Mutex
	err []string
}

func (n *fakeNet) ConnectTo(context.Context, peer.ID) error { return nil }
func (n *fakeNet) NewMessageSender(context.Context, peer.ID, gsnet.MessageSenderOpts) (gsnet.MessageSender, error) {
	return &fakeSender{n}, nil
}

type fakeSender struct{ n *fakeNet }

func (s *fakeSender) SendMsg(_ context.Context, m gsmsg.GraphSyncMessage) error {
	dm, err := roundTrip(s.n.p, m)
	if err != nil {
		s.n.mu.Lock()
		s.n.err = append(s.n.err, err.Error())
		s.n.mu.Unlock()
		return nil
	}
	s.n.rec.add(dm, nil)
	return nil
}
func (s *fakeSender) Close() error { return nil }
func (s *fakeSender) Reset() error { return nil }

type nullConnManager struct{}

func (nullConnManager) Protect(peer.ID, string)        {}
func (nullConnManager) Unprotect(peer.ID, string) bool { return false }

var errHook = errors.New("hook says no")

func (w *world) setup() {
	w.ctx, w.cancel = context.WithCancel(context.Background())
	w.p = peer.ID("requestor-peer")
	w.rec = &recorder{}
	w.reqs = map[int]*reqState{}
	w.byID = map[graphsync.RequestID]*reqState{}

	ls := cidlink.DefaultLinkSystem()
	ls.TrustedStorage = false
	ls.StorageReadOpener = w.open

	var handler responseassembler.PeerMessageHandler
	if w.mqMode == "real" {
		w.net = &fakeNet{rec: w.rec, p: w.p}
		alloc := allocator.NewAllocator(1<<30, 1<<28)
		pmm := peermanager.NewMessageManager(w.ctx, func(ctx context.Context, p peer.ID, onShutdown func(peer.ID)) peermanager.PeerQueue {
			return messagequeue.New(ctx, p, w.net, alloc, 3, 10*time.Second, onShutdown)
		})
		handler = pmm
	} else {
		w.fake = &fakeHandler{ctx: w.ctx, p: w.p, script: w.script, rec: w.rec}
		handler = w.fake
	}
	ra := responseassembler.New(w.ctx, handler)

	requestHooks := hooks.NewRequestHooks(persistenceoptions.New())
	blockHooks := hooks.NewBlockHooks()
	updateHooks := hooks.NewUpdateHooks()
	requestHooks.Register(func(p peer.ID, request graphsync.RequestData, ha graphsync.IncomingRequestHookActions) {
		w.mu.Lock()
		rs := w.byID[request.ID()]
		w.mu.Unlock()
		if rs == nil {
			return
		}
		switch rs.spec.hook {
		case "ok":
			ha.ValidateRequest()
		case "reject":
		case "err":
			ha.ValidateRequest()
			ha.TerminateWithError(errHook)
		case "pause":
			ha.ValidateRequest()
			ha.PauseResponse()
		}
	})
	blockHooks.Register(func(p peer.ID, request graphsync.RequestData, block graphsync.BlockData, ha graphsync.OutgoingBlockHookActions) {
		w.mu.Lock()
		rs := w.byID[request.ID()]
		var n int
		if rs != nil {
			rs.hookN++
			n = rs.hookN
		}
		w.mu.Unlock()
		if rs != nil && rs.spec.stopKind == "hookpause" && n == rs.spec.stopK {
			ha.PauseResponse()
		}
	})

	tq := taskqueue.NewTaskQueue(w.ctx)
	w.rm = responsemanager.New(w.ctx, ls, ra,
		listeners.NewRequestProcessingListeners(), requestHooks, updateHooks,
		listeners.NewCompletedResponseListeners(), listeners.NewRequestorCancelledListeners(),
		listeners.NewBlockSentListeners(), listeners.NewNetworkErrorListeners(),
		nullConnManager{}, 0, nil, tq)
	qe := queryexecutor.New(w.ctx, w.rm, blockHooks, updateHooks)
	tq.Startup(1, qe)
	w.rm.Startup()
}

func (w *world) teardown() {
	if w.cancel != nil {
		if w.rm != nil {
			w.rm.Shutdown()
		}
		w.cancel()
	}
}

// open is the responder's StorageReadOpener.
func (w *world) open(lc linking.LinkContext, l datamodel.Link) (io.Reader, error) {
	c := l.(cidlink.Link).Cid
	w.mu.Lock()
	rs := w.cur
	n := 0
	if rs != nil {
		rs.loads++
		n = rs.loads
	}
	w.mu.Unlock()
	if rs != nil && n == rs.spec.stopK {
		switch rs.spec.stopKind {
		case "sigpause":
			_ = w.rm.PauseResponse(w.ctx, rs.gsid)
		case "cancel":
			_ = w.rm.CancelResponse(w.ctx, rs.gsid)
		}
	}
	i := w.d.Index(c)
	if i < 0 || !w.have[i] {
		return nil, fmt.Errorf("block not found")
	}
	data := w.d.Data[c]
	if w.corrupt[i] {
		data = append([]byte("corrupted-"), data...)
	}
	if w.rdBuf {
		return bytes.NewBuffer(append([]byte{}, data...)), nil
	}
	return bytes.NewReader(data), nil
}

func (w *world) cidOf(i int) cid.Cid {
	if i >= 0 && i < len(w.d.Cids) {
		return w.d.Cids[i]
	}
	return outsider(i)
}

func (w *world) buildRequest(rs *reqState) gsmsg.GraphSyncRequest {
	var exts []graphsync.ExtensionData
	s := rs.spec
	switch s.keyMode {
	case extOK:
		n, _ := dedupkey.EncodeDedupKey(fmt.Sprintf("k%d", s.key))
		exts = append(exts, graphsync.ExtensionData{Name: graphsync.ExtensionDeDupByKey, Data: n})
	case extBad:
		exts = append(exts, graphsync.ExtensionData{Name: graphsync.ExtensionDeDupByKey, Data: basicnode.NewInt(7)})
	}
	switch s.ignMode {
	case extOK:
		set := cid.NewSet()
		for _, i := range s.ign {
			set.Add(w.cidOf(i))
		}
		exts = append(exts, graphsync.ExtensionData{Name: graphsync.ExtensionDoNotSendCIDs, Data: cidset.EncodeCidSet(set)})
	case extBad:
		exts = append(exts, graphsync.ExtensionData{Name: graphsync.ExtensionDoNotSendCIDs, Data: basicnode.NewString("not a list")})
	}
	switch s.skipMode {
	case extOK:
		exts = append(exts, graphsync.ExtensionData{Name: graphsync.ExtensionsDoNotSendFirstBlocks, Data: donotsendfirstblocks.EncodeDoNotSendFirstBlocks(s.skip)})
	case extBad:
		exts = append(exts, graphsync.ExtensionData{Name: graphsync.ExtensionsDoNotSendFirstBlocks, Data: basicnode.NewString("NaN")})
	}
	return gsmsg.NewRequest(rs.gsid, w.d.Root, w.sel, graphsync.Priority(0), exts...)
}

// settle waits until the request is paused, completing its send, or gone, and the messages of
// this phase have left the responder.
func (w *world) settle(rs *reqState, from int) bool {
	deadline := time.Now().Add(20 * time.Second)
	wantTerminal := false
	for {
		st := w.rm.PeerState(w.p)
		s, ok := st.RequestStates[rs.gsid]
		if !ok || s == graphsync.Paused || s == graphsync.CompletingSend {
			// gone or completing: the phase ends with a terminal status; paused: with RequestPaused
			wantTerminal = !ok || s == graphsync.CompletingSend
			break
		}
		if time.Now().After(deadline) {
			return false
		}
		time.Sleep(30 * time.Microsecond)
	}
	if w.mqMode != "real" {
		w.fake.flush()
		return true
	}
	// real message queue: wait until the status that ends this phase went over the wire (a phase can
	// carry two non-partial codes, e.g. paused by the hook and then failed by a malformed extension)
	for {
		for _, rm := range w.rec.since(from) {
			for _, resp := range rm.msg.Responses() {
				if resp.RequestID() != rs.gsid {
					continue
				}
				st := resp.Status()
				if (wantTerminal && st.IsTerminal()) || (!wantTerminal && st == graphsync.RequestPaused) {
					// everything queued before it has been sent as well (one queue, in order).
					// After a terminal status the queue's Sent notification retires the request
					// (TerminateRequest) asynchronously; wait for that too, or it would retire a later
					// request that reuses the id.
					for wantTerminal {
						if _, ok := w.rm.PeerState(w.p).RequestStates[rs.gsid]; !ok {
							break
						}
						if time.Now().After(deadline) {
							return false
						}
						time.Sleep(30 * time.Microsecond)
					}
					return true
				}
			}
		}
		if time.Now().After(deadline) {
			return false
		}
		time.Sleep(30 * time.Microsecond)
	}
}

func (w *world) view(rs *reqState, rms []recMsg) []wireMsg {
	var out []wireMsg
	for _, rm := range rms {
		var wm wireMsg
		blocks := map[int]bool{}
		for _, b := range rm.msg.Blocks() {
			if i := w.d.Index(b.Cid()); i >= 0 {
				blocks[i] = true
			} else {
				wm.unknown++ // bytes that do not hash to any block of the DAG (corrupted store)
			}
		}
		used := map[int]bool{}
		for _, resp := range rm.msg.Responses() {
			if resp.RequestID() != rs.gsid {
				wm.other++
				continue
			}
			wm.has = true
			wm.status = resp.Status()
			seen := map[int]bool{}
			resp.Metadata().Iterate(func(c cid.Cid, a graphsync.LinkAction) {
				it := item{block: w.d.Index(c), present: a == graphsync.LinkActionPresent}
				if it.present {
					if blocks[it.block] && !seen[it.block] {
						it.plus = true
						used[it.block] = true
					}
					seen[it.block] = true
				}
				wm.items = append(wm.items, it)
			})
			if rm.bd != nil {
				for _, bd := range rm.bd[rs.gsid] {
					wm.indices = append(wm.indices, bd.Index())
				}
			}
		}
		for b := range blocks {
			wm.blocks = append(wm.blocks, b)
			if !used[b] {
				wm.stray = append(wm.stray, b)
			}
		}
		sort.Ints(wm.blocks)
		sort.Ints(wm.stray)
		out = append(out, wm)
	}
	return out
}

var statusName = map[graphsync.ResponseStatusCode]string{
	graphsync.RequestPaused:                "paused",
	graphsync.RequestCompletedFull:         "full",
	graphsync.RequestCompletedPartial:      "partial",
	graphsync.RequestRejected:              "rejected",
	graphsync.RequestFailedUnknown:         "unknown",
	graphsync.RequestFailedContentNotFound: "notfound",
	graphsync.RequestCancelled:             "cancelled",
	graphsync.PartialResponse:              "part",
}

func stName(s graphsync.ResponseStatusCode) string {
	if n, ok := statusName[s]; ok {
		return n
	}
	return fmt.Sprintf("code%d", int(s))
}

func fmtItem(it item) string {
	a := "m"
	if it.present {
		a = "p"
	}
	s := fmt.Sprintf("%d%s", it.block, a)
	if it.plus {
		s += "+"
	}
	return s
}

func accepted(s reqSpec) bool {
	return (s.hook == "ok" || s.hook == "pause") && s.keyMode != extBad && s.ignMode != extBad && s.skipMode != extBad
}

func scopeOf(s reqSpec) string {
	if s.keyMode == extOK {
		return fmt.Sprintf("k%d", s.key)
	}
	return ""
}

func (w *world) hold(rs *reqState, block int) {
	sc := scopeOf(rs.spec)
	if w.busy == nil {
		w.busy = map[string]map[int]int{}
	}
	if w.busy[sc] == nil {
		w.busy[sc] = map[int]int{}
	}
	w.busy[sc][block]++
	rs.held = append(rs.held, block)
}

func (w *world) release(rs *reqState) {
	if rs.released {
		return
	}
	rs.released = true
	sc := scopeOf(rs.spec)
	for _, b := range rs.held {
		w.busy[sc][b]--
	}
	rs.held = nil
}

// expectAttach: the send rule of the property, evaluated at the moment the link goes out: the block
// accompanies the link iff it is present, the link's number exceeds do-not-send-first-blocks, and no
// request in progress in the dedup scope — this one included, with its do-not-send-cids list and the
// blocks of its first N links — has the block in use.
func (w *world) expectAttach(rs *reqState, it item) {
	if !accepted(rs.spec) {
		return
	}
	s := rs.spec
	idx := int64(len(rs.items) + 1)
	skip := int64(0)
	if s.skipMode == extOK {
		skip = s.skip
	}
	inUse := w.busy[scopeOf(s)][it.block]
	want := it.present && idx > skip && inUse == 0
	if it.present && idx > skip && inUse > 0 {
		w.out.Cov("oracle:already-in-use")
	}
	if want != it.plus && rs.attachErr == "" {
		if it.plus {
			rs.attachErr = fmt.Sprintf("req %d: block %d sent with link #%d although excluded or already sent (present=%v skip=%d in-use-count-in-scope=%d)", s.id, it.block, idx, it.present, skip, inUse)
		} else {
			rs.attachErr = fmt.Sprintf("req %d: present link #%d (block %d) not excluded (skip=%d) and not in use in its dedup scope, but no block accompanies it", s.id, idx, it.block, skip)
		}
	}
	if it.present {
		w.hold(rs, it.block)
	}
}

// report prints the three output lines of a req/resume op and folds the phase into the request.
func (w *world) report(rs *reqState, msgs []wireMsg) {
	var md, st, det []string
	for _, m := range msgs {
		for _, it := range m.items {
			md = append(md, fmtItem(it))
			w.expectAttach(rs, it)
			rs.items = append(rs.items, it)
		}
		for _, b := range m.stray {
			md = append(md, fmt.Sprintf("!%d", b))
			rs.stray++
		}
		for i := 0; i < m.unknown; i++ {
			md = append(md, "!x")
			rs.stray++
		}
		if m.has && m.status != graphsync.PartialResponse {
			st = append(st, stName(m.status))
			rs.statuses = append(rs.statuses, m.status)
			if m.status.IsTerminal() {
				rs.done = true
			}
		}
		if m.other > 0 {
			md = append(md, fmt.Sprintf("?other%d", m.other))
		}
		if w.mqMode != "real" {
			var parts []string
			if m.has {
				parts = append(parts, stName(m.status))
			} else {
				parts = append(parts, "noresp")
			}
			for i, it := range m.items {
				idx := "?"
				if i < len(m.indices) {
					idx = strconv.FormatInt(m.indices[i], 10)
				}
				parts = append(parts, idx+":"+fmtItem(it))
			}
			bl := joinInts(m.blocks)
			for i := 0; i < m.unknown; i++ {
				if bl == "-" {
					bl = "x"
				} else {
					bl += ",x"
				}
			}
			parts = append(parts, "b="+bl)
			det = append(det, "["+strings.Join(parts, " ")+"]")
		}
	}
	if len(md) == 0 {
		md = []string{"-"}
	}
	if w.mqMode == "real" && len(st) > 1 {
		// which status codes share a message depends on timing; the last one does not
		st = st[len(st)-1:]
	}
	if len(st) == 0 {
		st = []string{"-"}
	}
	if rs.done || rs.gone {
		w.release(rs)
	}
	w.out.Line("md %s", strings.Join(md, " "))
	w.out.Line("st %s", strings.Join(st, " "))
	if w.mqMode == "real" || len(det) == 0 {
		w.out.Line("msgs -")
	} else {
		w.out.Line("msgs %s", strings.Join(det, " "))
	}
}

func sameScope(a, b reqSpec) bool {
	if a.keyMode == extBad || b.keyMode == extBad {
		return false
	}
	if a.keyMode != b.keyMode {
		return false
	}
	return a.keyMode == extAbsent || a.key == b.key
}

// markOverlap: the request becoming active now shares its dedup scope with a request in progress.
func (w *world) markOverlap(rs *reqState) {
	for _, o := range w.reqs {
		if o != rs && o.started && !o.done && !o.gone && sameScope(o.spec, rs.spec) {
			o.overlap = true
			rs.overlap = true
		}
	}
}

func (w *world) bad3() {
	w.out.Line("bad-op")
	w.out.Line("bad-op")
	w.out.Line("bad-op")
}

func (w *world) doReq(t []string) {
	spec, ok := parseReq(t)
	if !ok || w.d == nil || !w.storeSet || !w.ltSeen {
		w.bad3()
		return
	}
	gsid := graphsync.NewRequestID()
	if prev, dup := w.reqs[spec.id]; dup {
		// the same request id again (what a requestor-side pause / resume does): only once the
		// previous response under that id has ended
		if !prev.done && !prev.gone {
			w.bad3()
			return
		}
		gsid = prev.gsid
		w.out.Cov("op:req-same-id")
	}
	if w.rm == nil {
		w.setup()
	}
	rs := &reqState{spec: spec, gsid: gsid}
	w.mu.Lock()
	w.reqs[spec.id] = rs
	w.byID[rs.gsid] = rs
	w.cur = rs
	w.mu.Unlock()
	w.markOverlap(rs)
	rs.started = true
	if accepted(spec) && spec.ignMode == extOK {
		for _, b := range spec.ign {
			w.hold(rs, b) // do-not-send-cids: in use for the whole life of the request
		}
	}
	w.cov(spec)
	from := w.rec.len()
	// the request travels through the real wire codec as well
	req := w.buildRequest(rs)
	m, err := roundTrip(w.p, gsmsg.NewMessage(map[graphsync.RequestID]gsmsg.GraphSyncRequest{rs.gsid: req}, nil, nil))
	if err != nil {
		w.out.Line("codec-error %v", err)
		w.out.Line("-")
		w.out.Line("-")
		return
	}
	w.rm.ProcessRequests(w.ctx, w.p, m.Requests())
	if !w.settle(rs, from) {
		w.out.Line("timeout")
		w.out.Line("-")
		w.out.Line("-")
		w.out.Fail("harness-timeout", "request %d did not settle", spec.id)
		return
	}
	w.report(rs, w.view(rs, w.rec.since(from)))
	w.judge(rs)
}

func (w *world) doResume(t []string) {
	if len(t) < 2 || w.rm == nil {
		w.bad3()
		return
	}
	id, err := strconv.Atoi(t[1])
	rs := w.reqs[id]
	if err != nil || rs == nil {
		w.bad3()
		return
	}
	w.mu.Lock()
	w.cur = rs
	w.mu.Unlock()
	from := w.rec.len()
	if err := w.rm.UnpauseResponse(w.ctx, rs.gsid); err != nil {
		// not paused (or gone): nothing happens
		w.report(rs, nil)
		return
	}
	w.out.Cov("op:resume")
	w.markOverlap(rs)
	if !w.settle(rs, from) {
		w.out.Line("timeout")
		w.out.Line("-")
		w.out.Line("-")
		w.out.Fail("harness-timeout", "resume %d did not settle", id)
		return
	}
	w.report(rs, w.view(rs, w.rec.since(from)))
	w.judge(rs)
}

// doRcancel: the requestor cancels a paused request (a cancel request on the wire).
func (w *world) doRcancel(t []string) {
	if len(t) < 2 || w.rm == nil {
		w.bad3()
		return
	}
	id, err := strconv.Atoi(t[1])
	rs := w.reqs[id]
	if err != nil || rs == nil {
		w.bad3()
		return
	}
	w.mu.Lock()
	w.cur = rs
	w.mu.Unlock()
	from := w.rec.len()
	st := w.rm.PeerState(w.p)
	if s, ok := st.RequestStates[rs.gsid]; !ok || s != graphsync.Paused || rs.done || rs.gone {
		w.report(rs, nil) // nothing to cancel
		return
	}
	w.out.Cov("op:rcancel")
	m, cerr := roundTrip(w.p, gsmsg.NewMessage(map[graphsync.RequestID]gsmsg.GraphSyncRequest{rs.gsid: gsmsg.NewCancelRequest(rs.gsid)}, nil, nil))
	if cerr != nil {
		w.out.Line("codec-error %v", cerr)
		w.out.Line("-")
		w.out.Line("-")
		return
	}
	w.rm.ProcessRequests(w.ctx, w.p, m.Requests())
	deadline := time.Now().Add(20 * time.Second)
	for {
		st := w.rm.PeerState(w.p)
		if _, ok := st.RequestStates[rs.gsid]; !ok {
			break
		}
		if time.Now().After(deadline) {
			w.out.Line("timeout")
			w.out.Line("-")
			w.out.Line("-")
			w.out.Fail("harness-timeout", "rcancel %d did not settle", id)
			return
		}
		time.Sleep(30 * time.Microsecond)
	}
	if w.fake != nil {
		w.fake.flush()
	}
	rs.gone = true
	w.report(rs, w.view(rs, w.rec.since(from)))
	w.release(rs)
}

func (w *world) cov(s reqSpec) {
	o := w.out
	o.Cov("op:req")
	o.Cov("hook:" + s.hook)
	o.Cov("stop:" + s.stopKind)
	o.Cov(fmt.Sprintf("key:%d", s.keyMode))
	o.Cov(fmt.Sprintf("ign:%d", s.ignMode))
	switch {
	case s.skipMode != extOK:
		o.Cov(fmt.Sprintf("skip:mode%d", s.skipMode))
	case s.skip < 0:
		o.Cov("skip:neg")
	case s.skip == 0:
		o.Cov("skip:0")
	case s.skip == 1:
		o.Cov("skip:1")
	default:
		o.Cov("skip:>1")
	}
	o.Cov("mq:" + w.mqMode)
}

// ---------------------------------------------------------------- the oracle (from the property text)

// judge checks a finished request against the property sentence, using an independent reference
// traversal (plain go-ipld-prime over the responder's store).
func (w *world) judge(rs *reqState) {
	if !rs.done || rs.judged {
		return
	}
	rs.judged = true
	s := rs.spec
	// "for every request a responder accepts": validated by the hook, well-formed extensions, and
	// not cancelled by the responder itself.  Corrupt stores are outside the property (no verdict).
	if (s.hook != "ok" && s.hook != "pause") || s.keyMode == extBad || s.ignMode == extBad || s.skipMode == extBad ||
		s.stopKind == "cancel" || len(w.corrupt) > 0 {
		w.out.Cov("oracle:not-judged")
		return
	}
	w.out.Cov("oracle:judged")
	have := func(c cid.Cid) bool { i := w.d.Index(c); return i >= 0 && w.have[i] }
	ref, missing, err := dag.Reference(w.d, w.sel, have)
	if err != nil {
		w.out.Fail("harness-reference", "reference traversal failed: %v", err)
		return
	}
	// 1. metadata lists, in traversal order, each link the traversal visits
	got := rs.items
	okOrder := len(got) == len(ref.Loads)
	if okOrder {
		for i := range got {
			if got[i].block != ref.Loads[i].Block {
				okOrder = false
			}
		}
	}
	if !okOrder {
		var a, b []string
		for _, it := range got {
			a = append(a, strconv.Itoa(it.block))
		}
		for _, l := range ref.Loads {
			b = append(b, strconv.Itoa(l.Block))
		}
		w.out.Fail("metadata-order", "req %d: metadata links [%s], traversal over the responder store visits [%s]", s.id, strings.Join(a, " "), strings.Join(b, " "))
		return
	}
	// 2. marked present or missing
	anyMissing := false
	for i := range got {
		if missing[i] {
			anyMissing = true
		}
		if got[i].present == missing[i] {
			w.out.Fail("present-flag", "req %d: link #%d (block %d) marked present=%v but the responder holds it: %v", s.id, i+1, got[i].block, got[i].present, !missing[i])
			return
		}
	}
	// 3. block data accompanies exactly the present links not excluded and not already sent
	if rs.stray > 0 {
		w.out.Fail("block-before-metadata", "req %d: %d block(s) travelled in a message without their metadata entry", s.id, rs.stray)
		return
	}
	if rs.attachErr != "" {
		w.out.Fail("block-attach", "%s", rs.attachErr)
		return
	}
	if rs.overlap {
		w.out.Cov("oracle:judged-with-concurrent-request-in-scope")
	}
	// coverage: a block of the first N links (the requestor has it) linked again after the window
	if s.skipMode == extOK && s.skip > 0 {
		win := map[int]bool{}
		for i, it := range got {
			if int64(i+1) <= s.skip {
				if it.present {
					win[it.block] = true
				}
			} else if it.present && win[it.block] {
				w.out.Cov("oracle:skip-window-relink")
				break
			}
		}
	}
	// 4. final status
	final := rs.statuses[len(rs.statuses)-1]
	want := graphsync.RequestCompletedFull
	if len(missing) > 0 && missing[0] {
		want = graphsync.RequestFailedContentNotFound
	} else if anyMissing {
		want = graphsync.RequestCompletedPartial
	}
	if final != want {
		w.out.Fail("status", "req %d: final status %s, expected %s", s.id, stName(final), stName(want))
		return
	}
	w.out.Cov("oracle:final-" + stName(final))
}

// ---------------------------------------------------------------- Run

func Run(cases []reg.Case, out *reg.Out) {
	for _, c := range cases {
		out.BeginCase(c)
		runCase(c, out)
	}
}

func runCase(c reg.Case, out *reg.Out) {
	w := &world{out: out, mqMode: "fake", script: []int{1}, have: map[int]bool{}, corrupt: map[int]bool{}}
	defer w.teardown()
	for _, t := range c.Ops {
		switch t[0] {
		case "dag":
			if len(t) != 4 || w.d != nil {
				out.Line("bad-op")
				continue
			}
			seed, e1 := strconv.ParseInt(t[1], 10, 64)
			mb, e2 := strconv.Atoi(t[2])
			if e1 != nil || e2 != nil || mb < 1 {
				out.Line("bad-op")
				continue
			}
			d, name, sel := buildDag(seed, mb, t[3])
			lt, _, err := dag.Reference(d, sel, nil)
			if err != nil {
				out.Line("bad-op")
				continue
			}
			w.d, w.sel, w.ltFull = d, sel, lt
			out.Cov("sel:" + name)
			out.Line("ok")
		case "lt":
			if w.d == nil {
				out.Line("bad-op")
				continue
			}
			si := dag.NewSegInterner()
			want := strings.Fields(w.ltFull.Format(si.Name))
			if strings.Join(want, " ") == strings.Join(t[1:], " ") {
				w.ltSeen = true
				out.Line("lt ok")
			} else {
				out.Line("lt MISMATCH")
				out.Fail("harness-lt", "the link tree on the case line is not the reference link tree of the regenerated DAG")
			}
		case "store":
			if w.d == nil || w.rm != nil {
				out.Line("bad-op")
				continue
			}
			m := kv(t[1:])
			h, ok1 := parseInts(m["h"])
			cr, ok2 := parseInts(m["c"])
			em, ok3 := parseInts(m["e"])
			if !ok1 || !ok2 || !ok3 {
				out.Line("bad-op")
				continue
			}
			w.have, w.corrupt = map[int]bool{}, map[int]bool{}
			for _, i := range h {
				w.have[i] = true
			}
			for _, i := range cr {
				w.corrupt[i] = true
			}
			var empties []int
			for i, cc := range w.d.Cids {
				if len(w.d.Data[cc]) == 0 {
					empties = append(empties, i)
				}
			}
			sort.Ints(em)
			if joinInts(em) != joinInts(empties) {
				out.Line("store MISMATCH")
				out.Fail("harness-store", "empty-block list on the case line does not match the regenerated DAG")
				continue
			}
			w.rdBuf = m["rd"] == "buf"
			w.storeSet = true
			out.Cov("rd:" + m["rd"])
			out.Line("ok")
		case "mq":
			if w.rm != nil || len(t) < 2 {
				out.Line("bad-op")
				continue
			}
			switch t[1] {
			case "real":
				w.mqMode = "real"
				out.Line("ok")
			case "fake":
				sc := []int{1}
				if len(t) > 2 {
					l, ok := parseInts(t[2])
					if !ok || len(l) == 0 {
						out.Line("bad-op")
						continue
					}
					for _, v := range l {
						if v < 1 {
							ok = false
						}
					}
					if !ok {
						out.Line("bad-op")
						continue
					}
					sc = l
				}
				w.mqMode, w.script = "fake", sc
				out.Line("ok")
			default:
				out.Line("bad-op")
			}
		case "req":
			w.doReq(t)
		case "resume":
			w.doResume(t)
		case "rcancel":
			w.doRcancel(t)
		default:
			out.Line("bad-op")
		}
	}
	if w.fake != nil {
		for _, e := range w.fake.errs {
			out.Fail("harness-codec", "%s", e)
		}
	}
	if w.net != nil {
		for _, e := range w.net.err {
			out.Fail("harness-codec", "%s", e)
		}
	}
}

// ---------------------------------------------------------------- generator

func pick(r *rand.Rand, xs ...int) int { return xs[r.Intn(len(xs))] }

func genExt(r *rand.Rand, nblocks, nloads int, id int) reqSpec {
	s := reqSpec{id: id, hook: "ok", stopKind: "none"}
	switch x := r.Intn(20); {
	case x < 9:
	case x < 19:
		s.keyMode, s.key = extOK, 1+r.Intn(2)
	default:
		s.keyMode = extBad
	}
	switch x := r.Intn(20); {
	case x < 8:
	case x < 19:
		s.ignMode = extOK
		for i := 0; i < nblocks; i++ {
			if r.Intn(3) == 0 {
				s.ign = append(s.ign, i)
			}
		}
		if r.Intn(4) == 0 {
			s.ign = append(s.ign, 1000+r.Intn(3))
		}
	default:
		s.ignMode = extBad
	}
	switch x := r.Intn(20); {
	case x < 8:
	case x < 19:
		s.skipMode = extOK
		s.skip = int64(pick(r, 0, 1, 1, 2, 2, 3, nloads-1, nloads, nloads+1, nloads+5, -1, r.Intn(nloads+1)))
	default:
		s.skipMode = extBad
	}
	switch x := r.Intn(40); {
	case x < 2:
		s.hook = "reject"
	case x < 4:
		s.hook = "err"
	}
	return s
}

func genCase(r *rand.Rand, w *bufio.Writer, id string, tier string) {
	seed := r.Int63n(1 << 40)
	maxBlocks := 1 + r.Intn(10)
	flags := ""
	for _, f := range []string{"I", "S", "R"} {
		if r.Intn(4) != 0 {
			flags += f
		}
	}
	if r.Intn(3) == 0 {
		flags += "E"
	}
	if flags == "" {
		flags = "-"
	}
	d, _, sel := buildDag(seed, maxBlocks, flags)
	lt, _, err := dag.Reference(d, sel, nil)
	if err != nil {
		return
	}
	fmt.Fprintf(w, "case %s\n", id)
	fmt.Fprintf(w, "dag %d %d %s\n", seed, maxBlocks, flags)
	si := dag.NewSegInterner()
	fmt.Fprintf(w, "lt %s\n", lt.Format(si.Name))
	// responder store
	pHave := []float64{1, 1, 0.85, 0.6}[r.Intn(4)]
	haveFn, held := d.RandomSubset(r, pHave)
	rootIdx := d.Index(d.Root)
	if !haveFn(d.Root) && r.Intn(6) != 0 {
		held = append(held, rootIdx)
		sort.Ints(held)
	}
	heldSet := map[int]bool{}
	for _, i := range held {
		heldSet[i] = true
	}
	var corrupt []int
	if r.Intn(25) == 0 && len(held) > 0 {
		corrupt = []int{held[r.Intn(len(held))]}
	}
	var empties []int
	for i, c := range d.Cids {
		if len(d.Data[c]) == 0 {
			empties = append(empties, i)
		}
	}
	rd := "rdr"
	if r.Intn(3) == 0 {
		rd = "buf"
	}
	fmt.Fprintf(w, "store h=%s c=%s e=%s rd=%s\n", joinInts(held), joinInts(corrupt), joinInts(empties), rd)
	ref, _, _ := dag.Reference(d, sel, func(c cid.Cid) bool { return heldSet[d.Index(c)] })
	nloads := 1
	if ref != nil && len(ref.Loads) > 0 {
		nloads = len(ref.Loads)
	}
	// batching
	if r.Intn(4) == 0 {
		fmt.Fprintf(w, "mq real\n")
	} else {
		var sc []int
		switch r.Intn(4) {
		case 0:
			sc = []int{1}
		case 1:
			sc = []int{1000}
		default:
			for i := 0; i < 1+r.Intn(3); i++ {
				sc = append(sc, 1+r.Intn(4))
			}
		}
		fmt.Fprintf(w, "mq fake %s\n", joinInts(sc))
	}
	nb := len(d.Cids)
	switch x := r.Intn(20); {
	case x < 11: // a single request
		s := genExt(r, nb, nloads, 1)
		switch r.Intn(12) {
		case 0:
			s.stopKind, s.stopK = "hookpause", 1+r.Intn(nloads)
		case 1:
			s.stopKind, s.stopK = "sigpause", 1+r.Intn(nloads)
		case 2:
			s.stopKind, s.stopK = "cancel", 1+r.Intn(nloads+1)
		case 3:
			if s.hook == "ok" {
				s.hook = "pause"
			}
		}
		fmt.Fprintln(w, s.String())
		if s.stopKind == "hookpause" || s.stopKind == "sigpause" || s.hook == "pause" {
			fmt.Fprintf(w, "resume 1\n")
			if r.Intn(3) == 0 {
				fmt.Fprintf(w, "resume 1\n")
			}
		}
	case x < 16: // a prior request of the same peer still in progress (paused), then the request, then the prior resumes
		p := genExt(r, nb, nloads, 1)
		p.hook = "ok"
		switch r.Intn(3) {
		case 0:
			p.hook = "pause"
		case 1:
			p.stopKind, p.stopK = "hookpause", 1+r.Intn(nloads)
		default:
			p.stopKind, p.stopK = "sigpause", 1+r.Intn(nloads)
		}
		fmt.Fprintln(w, p.String())
		s := genExt(r, nb, nloads, 2)
		if r.Intn(3) != 0 { // mostly the same scope
			s.keyMode, s.key = p.keyMode, p.key
		}
		if r.Intn(6) == 0 {
			s.stopKind, s.stopK = "hookpause", 1+r.Intn(nloads)
		}
		fmt.Fprintln(w, s.String())
		order := []int{1, 2}
		if r.Intn(2) == 0 {
			order = []int{2, 1}
		}
		for _, o := range order {
			if o == 1 || s.stopKind != "none" {
				fmt.Fprintf(w, "resume %d\n", o)
			}
		}
		if r.Intn(3) == 0 {
			t := genExt(r, nb, nloads, 3)
			t.keyMode, t.key = s.keyMode, s.key
			fmt.Fprintln(w, t.String())
		}
	case x < 19: // the SAME request id served twice (requestor-side pause / resume): finished or cancelled mid-way, then again with a skip count
		p := genExt(r, nb, nloads, 1)
		p.hook = "ok"
		if r.Intn(2) == 0 {
			p.keyMode = extAbsent
		}
		k := 1 + r.Intn(nloads)
		midway := r.Intn(3) != 0
		if midway {
			if r.Intn(2) == 0 {
				p.stopKind, p.stopK = "sigpause", k
			} else {
				p.stopKind, p.stopK = "hookpause", k
			}
		}
		fmt.Fprintln(w, p.String())
		if midway {
			fmt.Fprintf(w, "rcancel 1\n")
		}
		s := genExt(r, nb, nloads, 1)
		s.hook = "ok"
		s.keyMode, s.key = p.keyMode, p.key
		if s.keyMode == extBad {
			s.keyMode = extAbsent
		}
		s.skipMode, s.skip = extOK, int64(pick(r, k, k, k, 1, 2, nloads))
		if r.Intn(2) == 0 {
			s.ignMode = extAbsent
		}
		fmt.Fprintln(w, s.String())
	default: // a finished prior request, then the request (same scope: blocks are sent again)
		p := genExt(r, nb, nloads, 1)
		fmt.Fprintln(w, p.String())
		s := genExt(r, nb, nloads, 2)
		if r.Intn(4) != 0 {
			s.keyMode, s.key = p.keyMode, p.key
		}
		fmt.Fprintln(w, s.String())
	}
	_ = tier
}

// genExhaustive: for a few small DAGs, every responder store subset x a grid of extension
// combinations (single uninterrupted request, scripted batching).
func genExhaustive(r *rand.Rand, w *bufio.Writer, ndags int) {
	made := 0
	for tries := 0; made < ndags && tries < 1000; tries++ {
		seed := r.Int63n(1 << 40)
		maxBlocks := 2 + r.Intn(4)
		flags := []string{"ISR", "ISRE", "SR", "IS"}[r.Intn(4)]
		d, _, sel := buildDag(seed, maxBlocks, flags)
		lt, _, err := dag.Reference(d, sel, nil)
		if err != nil || len(d.Cids) > 5 || len(lt.Loads) < 3 {
			continue
		}
		made++
		var empties []int
		for i, c := range d.Cids {
			if len(d.Data[c]) == 0 {
				empties = append(empties, i)
			}
		}
		si := dag.NewSegInterner()
		ltLine := lt.Format(si.Name)
		nb := len(d.Cids)
		nl := len(lt.Loads)
		skips := []string{"-", "0", "1", "2", strconv.Itoa(nl - 1), strconv.Itoa(nl)}
		igns := []string{"-"}
		for i := 0; i < nb; i++ {
			igns = append(igns, strconv.Itoa(i))
		}
		k := 0
		for mask := 0; mask < 1<<uint(nb); mask++ {
			var held []int
			for i := 0; i < nb; i++ {
				if mask&(1<<uint(i)) != 0 {
					held = append(held, i)
				}
			}
			for _, sk := range skips {
				for _, ig := range igns {
					for _, key := range []string{"-", "1"} {
						fmt.Fprintf(w, "case x%d-%d\ndag %d %d %s\nlt %s\nstore h=%s c=- e=%s rd=%s\nmq fake %d\n", made, k, seed, maxBlocks, flags, ltLine,
							joinInts(held), joinInts(empties), []string{"rdr", "buf"}[k%2], 1+k%3)
						fmt.Fprintf(w, "req 1 key=%s ign=%s skip=%s hook=ok stop=none\n", key, ig, sk)
						k++
					}
				}
			}
		}
	}
}

func Gen(seed int64, n int, tier string, w *bufio.Writer) {
	r := rand.New(rand.NewSource(seed))
	for i := 0; i < n; i++ {
		genCase(r, w, fmt.Sprintf("r%d", i), tier)
	}
	if tier == "thorough" {
		genExhaustive(r, w, 12)
	}
}

var _ = ipld.LinkSystem{}
