import GSProofs.Lemmas.MsgQueueLive5
/-!
# Message queue liveness, part 6: the signal invariant in all reachable states; the variant rule
-/
namespace GS.MQ
open GS.Alloc GS.Temporal

/-- the signal invariant and the retry bound, together -/
def TK (s : State) : Prop := TI s ∧ PcOK s

theorem attempt_tk (pick : Pick) {s s1 : State} {m : InFlight} (i : Nat) (r : Res s s1) (h : TI s) :
    TK (s1.attempt pick m i) := by
  unfold State.attempt
  split
  · next hi =>
    have r' : Res s ({ s1.emit [Event.wire m.topic i] with pc := .sending m i } : State) := r.trans (Res.fields rfl rfl rfl)
    exact ⟨r'.ti h, hi⟩
  · obtain ⟨f1, f2⟩ := finish_res (s1.publishError pick m) m
    exact ⟨((r.trans (publishError_res pick s1 m)).trans f1).ti h, (idle_ok f2).1⟩

theorem errfin_tk (pick : Pick) {s s1 : State} {m : InFlight} (r : Res s s1) (h : TI s) :
    TK ((s1.publishError pick m).finish m) := by
  obtain ⟨f1, f2⟩ := finish_res (s1.publishError pick m) m
  exact ⟨((r.trans (publishError_res pick s1 m)).trans f1).ti h, (idle_ok f2).1⟩

theorem ack_tk (pick : Pick) {s : State} (h : TK s) (ok : Bool) : TK (s.ack pick ok) := by
  obtain ⟨hti, hok⟩ := h
  obtain ⟨peer, maxRetries, builders, nextTopic, token, done, sender, pc, closedStreams, waiters,
    nextTicket, topics, pubClosed, alloc, log⟩ := s
  cases pc with
  | idle => exact ⟨hti, hok⟩
  | exited => exact ⟨hti, hok⟩
  | exiting =>
    unfold State.ack
    simp only
    have f := (allocStep_quiet pick (⟨peer, maxRetries, builders, nextTopic, token, done, sender, .exiting, closedStreams, waiters,
      nextTicket, topics, pubClosed, alloc, log⟩ : State) (.releasePeer peer))
    have r : Res (⟨peer, maxRetries, builders, nextTopic, token, done, sender, .exiting, closedStreams, waiters,
      nextTicket, topics, pubClosed, alloc, log⟩ : State)
      ({ ((State.allocStep pick (⟨peer, maxRetries, builders, nextTopic, token, done, sender, .exiting, closedStreams, waiters,
      nextTicket, topics, pubClosed, alloc, log⟩ : State) (.releasePeer peer)).1.pubShutdown.emit [Event.exitCallback]) with pc := .exited } : State) := by
      have f1 := pubShutdown_frame (State.allocStep pick (⟨peer, maxRetries, builders, nextTopic, token, done, sender, .exiting, closedStreams, waiters,
        nextTicket, topics, pubClosed, alloc, log⟩ : State) (.releasePeer peer)).1
      have f2 := emit_frame (State.allocStep pick (⟨peer, maxRetries, builders, nextTopic, token, done, sender, .exiting, closedStreams, waiters,
        nextTicket, topics, pubClosed, alloc, log⟩ : State) (.releasePeer peer)).1.pubShutdown [Event.exitCallback]
      exact Res.fields (f2.builders.trans f1.builders) (f2.token.trans f1.token) (f2.maxRetries.trans f1.maxRetries)
    exact ⟨r.ti hti, trivial⟩
  | opening m r =>
    cases r with
    | none =>
      unfold State.ack
      simp only
      split
      · exact attempt_tk pick 0 (Res.fields (s' := ⟨peer, maxRetries, builders, nextTopic, token, done, true, .opening m none, closedStreams, waiters,
          nextTicket, topics, pubClosed, alloc, log⟩) rfl rfl rfl) hti
      · generalize hs1 : State.publishError pick (⟨peer, maxRetries, builders, nextTopic, token, done, sender, .opening m none,
            closedStreams, waiters, nextTicket, topics, pubClosed, alloc, log⟩ : State) m = s1
        have r1 : Res (⟨peer, maxRetries, builders, nextTopic, token, done, sender, .opening m none,
            closedStreams, waiters, nextTicket, topics, pubClosed, alloc, log⟩ : State) s1 := by
          rw [← hs1]; exact publishError_res pick _ m
        obtain ⟨f1, f2⟩ := finish_res ({ s1 with done := true } : State) m
        exact ⟨((r1.trans (Res.fields (s' := { s1 with done := true }) rfl rfl rfl)).trans f1).ti hti, (idle_ok f2).1⟩
    | some i =>
      unfold State.ack
      simp only
      split
      · exact attempt_tk pick (i + 1) (Res.fields (s' := ⟨peer, maxRetries, builders, nextTopic, token, done, true, .opening m (some i), closedStreams, waiters,
          nextTicket, topics, pubClosed, alloc, log⟩) rfl rfl rfl) hti
      · exact errfin_tk pick (Res.refl _) hti
  | sending m i =>
    unfold State.ack
    simp only
    split
    · obtain ⟨f1, f2⟩ := finish_res (State.publishSent pick (⟨peer, maxRetries, builders, nextTopic, token, done, sender, .sending m i,
            closedStreams, waiters, nextTicket, topics, pubClosed, alloc, log⟩ : State) m) m
      exact ⟨((publishSent_res pick _ m).trans f1).ti hti, (idle_ok f2).1⟩
    · exact ⟨hti, hok⟩
  | resetting m i =>
    unfold State.ack
    simp only
    split
    · exact errfin_tk pick (Res.refl _) hti
    · exact ⟨hti, hok⟩

theorem run_tk (pick : Pick) {s : State} (h : TK s) (pw : Bool) : TK (s.run pick pw) := by
  obtain ⟨hti, hok⟩ := h
  obtain ⟨peer, maxRetries, builders, nextTopic, token, done, sender, pc, closedStreams, waiters,
    nextTicket, topics, pubClosed, alloc, log⟩ := s
  cases pc with
  | idle =>
    unfold State.run
    simp only
    split
    · obtain ⟨e1, e2⟩ := extract_shape (⟨peer, maxRetries, builders, nextTopic, false, done, sender, .idle, closedStreams, waiters,
          nextTicket, topics, pubClosed, alloc, log⟩ : State)
      cases he : (⟨peer, maxRetries, builders, nextTopic, false, done, sender, .idle, closedStreams, waiters,
          nextTicket, topics, pubClosed, alloc, log⟩ : State).extract with
      | mk s1 om =>
        cases om with
        | none =>
          obtain ⟨a1, _, _, a4, _⟩ := e1 s1 he
          refine ⟨?_, ?_⟩
          · intro ⟨x, hx, _⟩; rw [a1] at hx; cases hx
          · exact (idle_ok (s := s1) a4).1
        | some m =>
          obtain ⟨pre, b, _, _, _, _, htk, _⟩ := e2 s1 m he
          have hti1 : TI s1 := by
            intro ⟨x, hx, _⟩
            rw [htk]
            cases hr : s1.builders with
            | nil => rw [hr] at hx; cases hx
            | cons _ _ => simp
          have f2 := publish_frame s1 m.topic Kind.queued
          have r2 : Res s1 (s1.publish m.topic Kind.queued) := Res.fields f2.builders f2.token f2.maxRetries
          show TK (if (s1.publish m.topic Kind.queued).sender = true then _ else _)
          split
          · exact attempt_tk pick 0 r2 hti1
          · have r' : Res s1 ({ s1.publish m.topic Kind.queued with pc := .opening m none } : State) := r2.trans (Res.fields rfl rfl rfl)
            exact ⟨r'.ti hti1, trivial⟩
    · split
      · have key : ∀ s1 : State, TI s1 → TK ({ (if s1.sender = true then s1.emit [Event.senderClosed] else s1) with pc := .exiting }) := by
          intro s1 h1
          have r : Res s1 ({ (if s1.sender = true then s1.emit [Event.senderClosed] else s1) with pc := .exiting } : State) := by
            refine Res.fields ?_ ?_ ?_
            · show (if s1.sender = true then s1.emit [Event.senderClosed] else s1).builders = _
              split <;> rfl
            · show (if s1.sender = true then s1.emit [Event.senderClosed] else s1).token = _
              split <;> rfl
            · show (if s1.sender = true then s1.emit [Event.senderClosed] else s1).maxRetries = _
              split <;> rfl
          exact ⟨r.ti h1, trivial⟩
        split
        · apply key
          intro ⟨x, hx, _⟩
          rw [drain_builders_nil pick builders.length _ (Nat.le_refl _)] at hx
          cases hx
        · exact key _ hti
      · exact ⟨hti, hok⟩
  | opening m r => exact ⟨hti, hok⟩
  | sending m i => exact ⟨hti, hok⟩
  | resetting m i => exact ⟨hti, hok⟩
  | exiting => exact ⟨hti, hok⟩
  | exited => exact ⟨hti, hok⟩

theorem step_tk (pick : Pick) {s : State} (h : TK s) (a : Act) : TK (step pick s a) := by
  cases a with
  | run pw => exact run_tk pick h pw
  | ack ok => exact ack_tk pick h ok
  | build tx =>
    have k := (caller_keeps pick s (.build tx) (by intro pw h; cases h) (by intro ok h; cases h)).1
    exact ⟨k.ti h.1, by unfold PcOK; rw [k.pc, k.maxRetries]; exact h.2⟩
  | wake t =>
    have k := (caller_keeps pick s (.wake t) (by intro pw h; cases h) (by intro ok h; cases h)).1
    exact ⟨k.ti h.1, by unfold PcOK; rw [k.pc, k.maxRetries]; exact h.2⟩
  | shutdown =>
    have k := (caller_keeps pick s .shutdown (by intro pw h; cases h) (by intro ok h; cases h)).1
    exact ⟨k.ti h.1, by unfold PcOK; rw [k.pc, k.maxRetries]; exact h.2⟩
  | env op =>
    have k := (caller_keeps pick s (.env op) (by intro pw h; cases h) (by intro ok h; cases h)).1
    exact ⟨k.ti h.1, by unfold PcOK; rw [k.pc, k.maxRetries]; exact h.2⟩

theorem init_tk (peer mr mt mp : Nat) : TK (init peer mr mt mp) :=
  ⟨by intro ⟨x, hx, _⟩; simp [init] at hx, trivial⟩

/-- **the variant rule** for message `t` -/
theorem live_rule (pick : Pick) (t : Nat) : VariantRule (LSys pick) fairAct (LiveP t) (LiveQ t) (V t) where
  progress := by
    intro s hP _
    obtain ⟨hn, hti, hok, hrun, hp⟩ := hP
    cases hpc : s.pc with
    | idle =>
      refine ⟨.run true, trivial, ?_⟩
      have htok : s.token = true := by
        rcases hp with ⟨x, hx, _, he⟩ | ⟨m, hm, _⟩
        · exact hti ⟨x, hx, he⟩
        · rw [hpc] at hm; cases hm
      show (if runEnabled s then some (s.run pick true) else none).isSome = true
      have : runEnabled s = true := by unfold runEnabled; rw [hpc, htok]; rfl
      rw [this]; rfl
    | exiting => exact absurd hpc hrun.1
    | exited => exact absurd hpc hrun.2
    | opening m r =>
      refine ⟨.ack true, trivial, ?_⟩
      show (if ackEnabled s then some (s.ack pick true) else none).isSome = true
      have : ackEnabled s = true := by unfold ackEnabled; rw [hpc]
      rw [this]; rfl
    | sending m i =>
      refine ⟨.ack true, trivial, ?_⟩
      show (if ackEnabled s then some (s.ack pick true) else none).isSome = true
      have : ackEnabled s = true := by unfold ackEnabled; rw [hpc]
      rw [this]; rfl
    | resetting m i =>
      refine ⟨.ack true, trivial, ?_⟩
      show (if ackEnabled s then some (s.ack pick true) else none).isSome = true
      have : ackEnabled s = true := by unfold ackEnabled; rw [hpc]
      rw [this]; rfl
  keep := by
    intro s a s' hP _ hstep
    cases a with
    | run pw =>
      have hs : (if runEnabled s then some (s.run pick pw) else none) = some s' := hstep
      by_cases hen : runEnabled s = true
      · rw [if_pos hen] at hs; cases hs
        obtain ⟨h1, h2, _⟩ := run_live pick hP pw hen
        exact ⟨h1, h2⟩
      · rw [if_neg hen] at hs; cases hs
    | ack ok =>
      have hs : (if ackEnabled s then some (s.ack pick ok) else none) = some s' := hstep
      by_cases hen : ackEnabled s = true
      · rw [if_pos hen] at hs; cases hs
        obtain ⟨h1, h2⟩ := ack_live pick hP ok hen
        exact ⟨h1, Nat.le_of_lt h2⟩
      · rw [if_neg hen] at hs; cases hs
    | build tx =>
      have hs : some (step pick s (.build tx)) = some s' := hstep
      cases hs
      obtain ⟨h1, h2⟩ := caller_live pick hP (.build tx) (by intro pw h; cases h) (by intro ok h; cases h)
      exact ⟨Or.inl h1, Nat.le_of_eq h2⟩
    | wake w =>
      have hs : some (step pick s (.wake w)) = some s' := hstep
      cases hs
      obtain ⟨h1, h2⟩ := caller_live pick hP (.wake w) (by intro pw h; cases h) (by intro ok h; cases h)
      exact ⟨Or.inl h1, Nat.le_of_eq h2⟩
    | shutdown =>
      have hs : some (step pick s .shutdown) = some s' := hstep
      cases hs
      obtain ⟨h1, h2⟩ := caller_live pick hP .shutdown (by intro pw h; cases h) (by intro ok h; cases h)
      exact ⟨Or.inl h1, Nat.le_of_eq h2⟩
    | env op =>
      have hs : some (step pick s (.env op)) = some s' := hstep
      cases hs
      obtain ⟨h1, h2⟩ := caller_live pick hP (.env op) (by intro pw h; cases h) (by intro ok h; cases h)
      exact ⟨Or.inl h1, Nat.le_of_eq h2⟩
  decr := by
    intro s a s' hP _ hf hstep
    cases a with
    | run pw =>
      have hs : (if runEnabled s then some (s.run pick pw) else none) = some s' := hstep
      by_cases hen : runEnabled s = true
      · rw [if_pos hen] at hs; cases hs
        exact (run_live pick hP pw hen).2.2
      · rw [if_neg hen] at hs; cases hs
    | ack ok =>
      have hs : (if ackEnabled s then some (s.ack pick ok) else none) = some s' := hstep
      by_cases hen : ackEnabled s = true
      · rw [if_pos hen] at hs; cases hs
        exact Or.inr (ack_live pick hP ok hen).2
      · rw [if_neg hen] at hs; cases hs
    | build tx => exact absurd hf (fun h => h)
    | wake w => exact absurd hf (fun h => h)
    | shutdown => exact absurd hf (fun h => h)
    | env op => exact absurd hf (fun h => h)

end GS.MQ
