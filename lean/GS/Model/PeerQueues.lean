import GS.Model.PeerManager
/-
Product model  PeerManager × MessageQueues  (core Lean only), for property C17.

The peer-manager component is the existing model `GS.PM` itself (its state and its step functions are
used unchanged).  Every process the factory created is, in addition, an ABSTRACT message queue: the
full queue model `GS.MQ` (lean/GS/Model/MsgQueue.lean: builders with their content, allocator,
publisher, retries) is projected to the flags and lists that C17 speaks about.

  abstract                    GS.MQ.State                      messagequeue.go
  --------------------------  -------------------------------  ---------------------------------
  told q  (= PM `shutdown`)   done                             close(mq.done) by Shutdown()
  (x q).closed                closed (pc = exiting ∨ exited)   mq.closed (set in the done branch)
  exited q (= PM `exited`)    pc = exited                      runQueue returned, callback ran
  (x q).queued                builders (non-empty ones)        mq.builders
  (x q).inflight = (m, w)     pc = opening/sending/resetting   inside sendMessage; w = SendMsg was
                                                               called at least once for m
  handedLog                   Event.built                      buildMessage calls, in lock order
  wireLog                     Event.wire t 0                   first SendMsg of each message

  abstract step               GS.MQ step it abstracts, and the lemma about that step
  --------------------------  ------------------------------------------------------------------
  build q m, not closed       Act.build / Act.wake -> buildMessage: appends at the END of builders
                              (GS.C17.fifo: queued topics increasing and above everything on the wire)
  build q m, closed           buildMsg on a closed queue = rejectMessage: nothing queued, Error
                              (GS.MQ.step_cn: a closed queue has no queued builder;
                               GS.C16.closed_build_rejected; GS.MQ.build_pc: pc unchanged)
  take q                      Act.run, work branch: extract takes the HEAD of builders; allowed
                              while `done` is set (`preferWork`: Go's select is not ordered)
  wire q                      State.attempt 0: Event.wire t 0
  finish q sent               Act.ack true at `sending`
  finish q failed scrub       publishError (retries used up, Reset with done set, …): Error, and
                              scrubResponses removes queued content of the same requests
  finish q openFailed scrub   Act.ack false at `opening m none`: publishError + `done := true`
                              (the queue calls its own Shutdown(): PM.selfShutdown)
  close q                     Act.run, done branch (only at `idle`): closed := true, drain
  exit q                      Act.ack at `exiting`: the deferred function, last action onShutdown
                              (GS.C17.callback_once) -> PM.queueExit (callback with identity check)

A message is a label `m : Nat` chosen by the schedule (one accepted build = one message unit; the
concrete queue may coalesce consecutive units into one builder, which keeps their order).
Callers: `getProcess` records the returned queue id in `handles`; `build q m` needs `q ∈ handles`.
A handle is never given back, so builds through STALE handles (queue told to stop, closed, exited)
are part of every schedule.

The abstraction is tied to the Go code through its two components (`GS.PM` by the correspondence
stream `peermgr`, the queue behaviour by `GS.MQ` + stream `msgqueue` and the lemmas named above) and,
since AUDIT_4 item 3, directly: driver `GS/Driver/PeerQueues.lean` + stream `pqueues` of C17 run
`step` against the real PeerMessageManager with real MessageQueue instances (harness/pqueues).
-/
namespace GS.PQ
open GS

/-- how `sendMessage` ends for the message in flight -/
inductive Outcome where
  | sent          -- SendMsg succeeded (needs: on the wire)
  | failed        -- Error published (retries used up, or failure while shutting down)
  | openFailed    -- initializeSender failed before the first SendMsg: Error + own Shutdown()
deriving Repr, DecidableEq

/-- per-queue state beyond the peer manager's flags -/
structure QX where
  closed : Bool := false
  inflight : Option (Nat × Bool) := none    -- (message, SendMsg already called)
  queued : List Nat := []
  failed : List Nat := []                    -- reported with Error: rejected, drained, send failed
deriving Repr, DecidableEq

structure State where
  pm : PM.State := {}
  x : Nat → QX := fun _ => {}
  handles : List Nat := []
  handedLog : List (Nat × Nat) := []         -- (queue id, message) in the order of the buildMessage calls
  wireLog : List (Nat × Nat) := []           -- (queue id, message) in the order of the first SendMsg calls

def qget (pm : PM.State) (q : Nat) : Option PM.Queue := pm.queues.find? (·.id == q)

/-- `Shutdown()` has been called on queue `q` (its `done` channel is closed) -/
def told (s : State) (q : Nat) : Bool := match qget s.pm q with | some y => y.shutdown | none => false
/-- the goroutine of `q` has ended and run its callback -/
def exited (s : State) (q : Nat) : Bool := match qget s.pm q with | some y => y.exited | none => false
def created (s : State) (q : Nat) : Bool := (qget s.pm q).isSome

def setX (s : State) (q : Nat) (v : QX) : State := { s with x := fun i => if i = q then v else s.x i }

/-- messages handed to queue `q`, in order -/
def handedOf (s : State) (q : Nat) : List Nat := (s.handedLog.filter (·.1 == q)).map (·.2)
/-- messages queue `q` put on the wire, in order -/
def wireOf (s : State) (q : Nat) : List Nat := (s.wireLog.filter (·.1 == q)).map (·.2)

inductive Act where
  | connected (p : Nat)
  | disconnected (p : Nat)
  | shutdownCall (q : Nat)
  | getProcess (p : Nat)
  | build (q m : Nat)
  | take (q : Nat)
  | wire (q : Nat)
  | finish (q : Nat) (o : Outcome) (scrub : List Nat)
  | close (q : Nat)
  | exit (q : Nat)
deriving Repr, DecidableEq

def finishOk : Option (Nat × Bool) → Outcome → Bool
  | some (_, true), .sent => true
  | some (_, _), .failed => true
  | some (_, false), .openFailed => true
  | _, _ => false

def enabled (s : State) : Act → Bool
  | .connected _ => true
  | .disconnected _ => true
  | .shutdownCall _ => true
  | .getProcess _ => true
  | .build q _ => s.handles.contains q
  | .take q => !(s.x q).closed && (s.x q).inflight.isNone && !(s.x q).queued.isEmpty
  | .wire q => match (s.x q).inflight with | some (_, false) => true | _ => false
  | .finish q o _ => finishOk (s.x q).inflight o
  | .close q => told s q && !(s.x q).closed && (s.x q).inflight.isNone
  | .exit q => (s.x q).closed && !exited s q

/-- effect of an enabled action; `cb` = the exit callback (`PM.queueExit` in the current code) -/
def apply (cb : PM.State → Nat → PM.State) (s : State) : Act → State
  | .connected p => { s with pm := PM.connected s.pm p }
  | .disconnected p => { s with pm := PM.disconnected s.pm p }
  | .shutdownCall q => { s with pm := PM.shutdownCall s.pm q }
  | .getProcess p => { s with pm := (PM.getProcess s.pm p).1, handles := (PM.getProcess s.pm p).2 :: s.handles }
  | .build q m =>
    let s1 : State := { s with handedLog := s.handedLog ++ [(q, m)] }
    if (s.x q).closed then setX s1 q { s.x q with failed := (s.x q).failed ++ [m] }
    else setX s1 q { s.x q with queued := (s.x q).queued ++ [m] }
  | .take q =>
    match (s.x q).queued with
    | [] => s
    | m :: r => setX s q { s.x q with queued := r, inflight := some (m, false) }
  | .wire q =>
    match (s.x q).inflight with
    | some (m, false) => setX { s with wireLog := s.wireLog ++ [(q, m)] } q { s.x q with inflight := some (m, true) }
    | _ => s
  | .finish q o scrub =>
    match (s.x q).inflight with
    | none => s
    | some (m, _) =>
      match o with
      | .sent => setX s q { s.x q with inflight := none }
      | .failed => setX s q { s.x q with inflight := none, failed := (s.x q).failed ++ [m],
                                         queued := (s.x q).queued.filter (!scrub.contains ·) }
      | .openFailed =>
        setX { s with pm := PM.selfShutdown s.pm q } q
          { s.x q with inflight := none, failed := (s.x q).failed ++ [m],
                       queued := (s.x q).queued.filter (!scrub.contains ·) }
  | .close q => setX s q { s.x q with closed := true, failed := (s.x q).failed ++ (s.x q).queued, queued := [] }
  | .exit q => { s with pm := cb s.pm q }

def stepWith (cb : PM.State → Nat → PM.State) (s : State) (a : Act) : State :=
  if enabled s a then apply cb s a else s

/-- the product step of the current code: the exit callback is `PM.queueExit` -/
def step (s : State) (a : Act) : State := stepWith PM.queueExit s a

def runWith (cb : PM.State → Nat → PM.State) (s : State) (acts : List Act) : State := acts.foldl (stepWith cb) s
def run (s : State) (acts : List Act) : State := acts.foldl step s

/-- the queue whose goroutine performs the action -/
def goroutineOf : Act → Option Nat
  | .take q => some q
  | .wire q => some q
  | .finish q _ _ => some q
  | .close q => some q
  | .exit q => some q
  | _ => none

end GS.PQ
