// Package gocanon: shared helpers of the reqpipeline / respdispatch translators (C09, C10).
//
// The translators recognise Go functions by their *shape*, not by their name: a function body is
// rendered to a canonical one-line text in which the receiver is called `rm`, the parameters
// `a0,a1,…` and the locals `l0,l1,…` (numbered in order of definition), pure logging statements are
// dropped, and whitespace is collapsed.  That text is matched against templates; the parts of a
// template that may legitimately vary are capture groups that end up as data in the generated Lean
// file.  A body that matches no template makes the translator exit non-zero (= broken tie).
// Renaming or moving a function, a parameter or a local therefore changes nothing; any other edit
// either changes the generated definitions or is reported.
package gocanon

import (
	"bytes"
	"fmt"
	"go/ast"
	"go/parser"
	"go/printer"
	"go/token"
	"os"
	"path/filepath"
	"regexp"
	"sort"
	"strings"
)

type Pkg struct {
	Fset  *token.FileSet
	Files []*ast.File
	Tool  string
}

func (p *Pkg) Die(pos token.Pos, format string, a ...interface{}) {
	where := ""
	if pos.IsValid() {
		where = p.Fset.Position(pos).String() + ": "
	}
	fmt.Fprintf(os.Stderr, "%s: %s%s\n", p.Tool, where, fmt.Sprintf(format, a...))
	os.Exit(1)
}

// Load parses every non-test .go file of dir (object resolution on: locals are told apart from
// package-level names through ast.Ident.Obj).
func Load(tool, dir string) *Pkg {
	p := &Pkg{Fset: token.NewFileSet(), Tool: tool}
	names, err := filepath.Glob(filepath.Join(dir, "*.go"))
	if err != nil || len(names) == 0 {
		p.Die(token.NoPos, "no Go files in %s", dir)
	}
	sort.Strings(names)
	for _, n := range names {
		if strings.HasSuffix(n, "_test.go") {
			continue
		}
		f, err := parser.ParseFile(p.Fset, n, nil, 0)
		if err != nil {
			p.Die(token.NoPos, "parse %s: %v", n, err)
		}
		p.Files = append(p.Files, f)
	}
	return p
}

// Methods returns all methods (any receiver type) called name.
func (p *Pkg) Methods(name string) []*ast.FuncDecl {
	var out []*ast.FuncDecl
	for _, f := range p.Files {
		for _, d := range f.Decls {
			if fd, ok := d.(*ast.FuncDecl); ok && fd.Recv != nil && fd.Name.Name == name {
				out = append(out, fd)
			}
		}
	}
	return out
}

// Method returns the unique method `name` whose receiver's base type is recvType.
func (p *Pkg) Method(recvType, name string) *ast.FuncDecl {
	var found *ast.FuncDecl
	for _, fd := range p.Methods(name) {
		if RecvTypeName(fd) == recvType {
			if found != nil {
				p.Die(fd.Pos(), "two methods %s.%s", recvType, name)
			}
			found = fd
		}
	}
	return found
}

func RecvTypeName(fd *ast.FuncDecl) string {
	if fd.Recv == nil || len(fd.Recv.List) != 1 {
		return ""
	}
	t := fd.Recv.List[0].Type
	if s, ok := t.(*ast.StarExpr); ok {
		t = s.X
	}
	if id, ok := t.(*ast.Ident); ok {
		return id.Name
	}
	return ""
}

// Struct returns the struct type declared as `type name struct{…}`.
func (p *Pkg) Struct(name string) *ast.StructType {
	for _, f := range p.Files {
		for _, d := range f.Decls {
			gd, ok := d.(*ast.GenDecl)
			if !ok || gd.Tok != token.TYPE {
				continue
			}
			for _, s := range gd.Specs {
				ts := s.(*ast.TypeSpec)
				if st, ok := ts.Type.(*ast.StructType); ok && ts.Name.Name == name {
					return st
				}
			}
		}
	}
	return nil
}

// Structs calls f for every struct type declaration of the package.
func (p *Pkg) Structs(f func(name string, st *ast.StructType)) {
	for _, file := range p.Files {
		for _, d := range file.Decls {
			gd, ok := d.(*ast.GenDecl)
			if !ok || gd.Tok != token.TYPE {
				continue
			}
			for _, s := range gd.Specs {
				ts := s.(*ast.TypeSpec)
				if st, ok := ts.Type.(*ast.StructType); ok {
					f(ts.Name.Name, st)
				}
			}
		}
	}
}

// Src prints a node on one line with collapsed whitespace.
func (p *Pkg) Src(n ast.Node) string {
	var buf bytes.Buffer
	if err := printer.Fprint(&buf, p.Fset, n); err != nil {
		p.Die(n.Pos(), "print: %v", err)
	}
	return Squash(buf.String())
}

var ws = regexp.MustCompile(`\s+`)

func Squash(s string) string { return strings.TrimSpace(ws.ReplaceAllString(s, " ")) }

// IsLogStmt: `log.Xxx(...)` expression statements carry no behaviour that the models observe.
func IsLogStmt(s ast.Stmt) bool {
	es, ok := s.(*ast.ExprStmt)
	if !ok {
		return false
	}
	call, ok := es.X.(*ast.CallExpr)
	if !ok {
		return false
	}
	sel, ok := call.Fun.(*ast.SelectorExpr)
	if !ok {
		return false
	}
	id, ok := sel.X.(*ast.Ident)
	return ok && id.Name == "log" && id.Obj == nil
}

// ParamNames lists the parameter identifiers of fd in order ("_"/unnamed are skipped).
func ParamNames(fd *ast.FuncDecl) []*ast.Ident {
	var out []*ast.Ident
	for _, f := range fd.Type.Params.List {
		out = append(out, f.Names...)
	}
	return out
}

// ParamOfType returns the index (among ParamNames) and identifier of the first parameter whose type
// prints as typ; -1 if there is none.
func (p *Pkg) ParamOfType(fd *ast.FuncDecl, typ string) (int, *ast.Ident) {
	i := 0
	for _, f := range fd.Type.Params.List {
		for _, n := range f.Names {
			if p.Src(f.Type) == typ {
				return i, n
			}
			i++
		}
	}
	return -1, nil
}

// Canon renders the body of fd canonically (see package comment).  The AST is modified in place
// (identifiers renamed, log statements removed): call it on a function at most once, through Pkg.Canon.
func (p *Pkg) canon(fd *ast.FuncDecl) string {
	ren := map[*ast.Object]string{}
	if fd.Recv != nil && len(fd.Recv.List) == 1 && len(fd.Recv.List[0].Names) == 1 {
		if o := fd.Recv.List[0].Names[0].Obj; o != nil {
			ren[o] = "rm"
		}
	}
	for i, id := range ParamNames(fd) {
		if id.Obj != nil && id.Name != "_" {
			ren[id.Obj] = fmt.Sprintf("a%d", i)
		}
	}
	// locals in order of their defining occurrence
	type loc struct {
		pos token.Pos
		o   *ast.Object
	}
	var locals []loc
	seen := map[*ast.Object]bool{}
	ast.Inspect(fd.Body, func(n ast.Node) bool {
		id, ok := n.(*ast.Ident)
		if !ok || id.Obj == nil || id.Obj.Kind != ast.Var || id.Name == "_" {
			return true
		}
		if _, isRen := ren[id.Obj]; isRen || seen[id.Obj] {
			return true
		}
		if op := id.Obj.Pos(); op >= fd.Body.Pos() && op <= fd.Body.End() {
			seen[id.Obj] = true
			locals = append(locals, loc{op, id.Obj})
		}
		return true
	})
	sort.Slice(locals, func(i, j int) bool { return locals[i].pos < locals[j].pos })
	for i, l := range locals {
		ren[l.o] = fmt.Sprintf("l%d", i)
	}
	// field names used as keys of composite literals are not variables (go/parser resolves them
	// against a same-named local all the same)
	isKey := map[*ast.Ident]bool{}
	ast.Inspect(fd.Body, func(n ast.Node) bool {
		if cl, ok := n.(*ast.CompositeLit); ok {
			if _, isMap := cl.Type.(*ast.MapType); !isMap {
				for _, e := range cl.Elts {
					if kv, ok := e.(*ast.KeyValueExpr); ok {
						if id, ok := kv.Key.(*ast.Ident); ok {
							isKey[id] = true
						}
					}
				}
			}
		}
		return true
	})
	ast.Inspect(fd.Body, func(n ast.Node) bool {
		switch x := n.(type) {
		case *ast.Ident:
			if x.Obj != nil && !isKey[x] {
				if nn, ok := ren[x.Obj]; ok {
					x.Name = nn
				}
			}
		case *ast.BlockStmt:
			x.List = dropLogs(x.List)
		case *ast.CaseClause:
			x.Body = dropLogs(x.Body)
		}
		return true
	})
	return p.Src(fd.Body)
}

func dropLogs(in []ast.Stmt) []ast.Stmt {
	out := in[:0:0]
	for _, s := range in {
		if !IsLogStmt(s) {
			out = append(out, s)
		}
	}
	return out
}

var canonCache = map[*ast.FuncDecl]string{}

func (p *Pkg) Canon(fd *ast.FuncDecl) string {
	if s, ok := canonCache[fd]; ok {
		return s
	}
	s := p.canon(fd)
	canonCache[fd] = s
	return s
}

// Template compiles a template: literal Go text in which `«name»` is a capture group matching one
// identifier-or-selector (`\w+(\.\w+)*`).  Matching is against the whole canonical body.
func Template(t string) *regexp.Regexp {
	t = Squash(t)
	var sb strings.Builder
	sb.WriteString("^")
	for {
		i := strings.Index(t, "«")
		if i < 0 {
			sb.WriteString(regexp.QuoteMeta(t))
			break
		}
		j := strings.Index(t, "»")
		sb.WriteString(regexp.QuoteMeta(t[:i]))
		name := t[i+len("«") : j]
		sb.WriteString(`(?P<` + name + `>\w+(?:\.\w+)*)`)
		t = t[j+len("»"):]
	}
	sb.WriteString("$")
	return regexp.MustCompile(sb.String())
}

// Match returns the named captures, or nil.
func Match(re *regexp.Regexp, s string) map[string]string {
	m := re.FindStringSubmatch(s)
	if m == nil {
		return nil
	}
	out := map[string]string{}
	for i, n := range re.SubexpNames() {
		if n != "" {
			out[n] = m[i]
		}
	}
	return out
}

// MentionsRecv reports whether node n uses the receiver `recv` for anything but the selectors in allowed
// (e.g. rm.ctx).
func MentionsRecv(n ast.Node, recv *ast.Object, allowed map[string]bool) bool {
	found := false
	ast.Inspect(n, func(x ast.Node) bool {
		if sel, ok := x.(*ast.SelectorExpr); ok {
			if id, ok := sel.X.(*ast.Ident); ok && id.Obj == recv && recv != nil {
				if !allowed[sel.Sel.Name] {
					found = true
				}
				return false
			}
		}
		if id, ok := x.(*ast.Ident); ok && id.Obj == recv && recv != nil {
			found = true // bare use of the receiver (passed somewhere)
		}
		return true
	})
	return found
}

func RecvObj(fd *ast.FuncDecl) *ast.Object {
	if fd.Recv != nil && len(fd.Recv.List) == 1 && len(fd.Recv.List[0].Names) == 1 {
		return fd.Recv.List[0].Names[0].Obj
	}
	return nil
}
