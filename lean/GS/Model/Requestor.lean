import GS.Model.Loader
/-!
Model of the requestor side of one request, on top of `GS.Loader`:

  requestmanager/executor/executor.go   ExecuteTask / traverse / advanceTraversal /
                                        startRemoteRequest                      -> drive / handle / finish
  ipldutil/traverser.go (go-ipld-prime walk, as a DFS of the link tree)         -> the `todo` cursor
  requestmanager/server.go  processResponses (filterResponsesForPeer,
        IngestResponse, processTerminations / cancelOnError), terminateRequest  -> message / finish

The link tree is given in pre-order with depths (`LNode.depth`): skipping the subtree of a link
answered `SkipMe` drops the following nodes of greater depth.  `vData` / `vSkip` are the numbers of
nodes the visitor reports between this load (answered with data / skipped) and the next load request.

Scheduling: the executor thread runs whenever it can; `drive` runs it until it parks in
`waitRemote` or the request terminates (the order of ingest and load steps is irrelevant by
`C02.kahn`; the correspondence harness waits for quiescence after every operation).
-/
namespace GS.Requestor
open GS.Loader

structure LNode where
  cid   : Cid
  path  : Path
  depth : Nat
  vData : Nat
  vSkip : Nat
deriving Repr, DecidableEq

abbrev LT := List LNode

inductive RErr where
  | load (e : LoadErr)
  | status (code : Nat)       -- ResponseStatusCode.AsError of a terminal failure status
  | other                     -- traversal completion error that is not one of the above (SkipMe at the root)
deriving Repr, DecidableEq

inductive Ev where
  | sentNew (skip : Nat)      -- new-request message; skip = do-not-send-first-blocks (0 = no extension)
  | sentCancel
  | prog (n : Nat)            -- n nodes handed to the caller
  | err (e : RErr)
  | write (c : Cid) (b : Blk)
  | block (c : Cid) (path : Path) (loc : Bool) (index : Nat)   -- incoming-block hook: a load answered with data
deriving Repr, DecidableEq

inductive Phase where
  | idle | running | finished
deriving Repr, DecidableEq

structure State where
  L            : Loader.State := {}
  todo         : LT := []
  phase        : Phase := .idle
  requestSent  : Bool := false
  nBlocks      : Nat := 0            -- Traverser.NBlocksTraversed
  userSkip     : Nat := 0            -- do-not-send-first-blocks supplied by the caller
  ctxCancelled : Bool := false       -- ipr.ctx cancelled by cancelOnError
  terminalErr  : Option Nat := none  -- ipr.terminalError (status code)
deriving Repr

def isSuccess (c : Nat) : Bool := c == 20 || c == 21
def isFailure (c : Nat) : Bool := c == 30 || c == 31 || c == 32 || c == 33 || c == 34 || c == 35
def isTerminal (c : Nat) : Bool := isSuccess c || isFailure c

/-- releaseRequestTask / terminateRequest: terminal error (if any) to the error channel, loader
    cleaned up, channels closed -/
def finish (s : State) : State × List Ev :=
  let evs := match s.terminalErr with
    | some c => [Ev.err (.status c)]
    | none => []
  ({ s with phase := .finished, L := Loader.cleanup s.L }, evs)

/-- ExecuteTask's error branch: cancel to the peer, loader offline, error to the caller -/
def failWith (s : State) (e : RErr) : State × List Ev :=
  let s1 := { s with L := Loader.setOnline s.L false }
  let (s2, evs) := finish s1
  (s2, [Ev.sentCancel, Ev.err e] ++ evs)

def writeEvs (r : Result) : List Ev :=
  match r.write with
  | some (c, b) => [Ev.write c b]
  | none => []

/-- advanceTraversal + the next IsComplete check, for the result of the load of `n`
    (`rest` = link-tree nodes after `n`).  Returns `true` if the traversal goes on. -/
def handle (s : State) (n : LNode) (rest : LT) (r : Result) : State × List Ev × Bool :=
  match r.err with
  | none =>
    ({ s with todo := rest, nBlocks := s.nBlocks + 1 },
      writeEvs r ++ [Ev.block n.cid n.path r.loc (s.nBlocks + 1), Ev.prog n.vData], true)
  | some e =>
    if s.ctxCancelled then
      -- ContextCancelError: nothing is reported, no cancel is sent
      let (s', evs) := finish s
      (s', writeEvs r ++ evs, false)
    else
      match e with
      | .missing _ _ =>
        if n.depth == 0 then
          -- SkipMe for the root: the traversal completes with that error
          let (s', evs) := failWith s .other
          (s', writeEvs r ++ [Ev.err (.load e)] ++ evs, false)
        else
          ({ s with todo := rest.dropWhile (fun m => m.depth > n.depth) },
            writeEvs r ++ [Ev.err (.load e), Ev.prog n.vSkip], true)
      | _ =>
        let (s', evs) := failWith s (.load e)
        (s', writeEvs r ++ [Ev.err (.load e)] ++ evs, false)

/-- `result.Err.(graphsync.RemoteMissingBlockErr)` -/
def isMiss (r : Result) : Bool :=
  match r.err with
  | some (.missing _ _) => true
  | _ => false

/-- one `BlockReadOpener` call of `traverse` for the current node `n`, including — on the first local
    miss — going online, sending the request (`startRemoteRequest`) and `RetryLastLoad`.
    `none` = the call is parked in `waitRemote`. -/
def loadNode (s : State) (n : LNode) : State × List Ev × Option Result :=
  match Loader.load s.L n.path n.cid with
  | (l1, .blocked) => ({ s with L := l1 }, [], none)
  | (l1, .done r) =>
    if isMiss r && !s.requestSent then
      -- do-not-send-first-blocks = max(user value, blocks traversed so far)
      let skip := max s.userSkip s.nBlocks
      match Loader.retry (Loader.setOnline l1 true) with
      | (l3, .blocked) => ({ s with L := l3, requestSent := true }, [Ev.sentNew skip], none)
      | (l3, .done r2) => ({ s with L := l3, requestSent := true }, [Ev.sentNew skip], some r2)
    else ({ s with L := l1 }, [], some r)

/-- executor.traverse, run until the traversal parks in waitRemote or ends -/
def drive : Nat → State → State × List Ev
  | 0, s => (s, [])
  | fuel + 1, s =>
    if s.phase != .running then (s, []) else
    match s.todo with
    | [] => finish s
    | n :: rest =>
      match loadNode s n with
      | (s1, ev1, none) => (s1, ev1)
      | (s1, ev1, some r) =>
        match handle s1 n rest r with
        | (s2, evs, true) =>
          let (s3, evs') := drive fuel s2
          (s3, ev1 ++ evs ++ evs')
        | (s2, evs, false) => (s2, ev1 ++ evs)

def fuelFor (s : State) : Nat := s.todo.length + 2

/-- NewRequest: the task starts at once (nothing else is queued) -/
def request (s : State) (lt : LT) (userSkip : Nat) : State × List Ev :=
  let s1 := { s with todo := lt, phase := .running, userSkip := userSkip }
  drive (fuelFor s1) s1

/-- after the loader state changed: a parked load may complete, then the traversal continues -/
def resume (s : State) : State × List Ev :=
  match Loader.wake s.L with
  | (l1, some r) =>
    match s.todo with
    | n :: rest =>
      match handle { s with L := l1 } n rest r with
      | (s2, evs, true) =>
        let (s3, evs') := drive (fuelFor s2) s2
        (s3, evs ++ evs')
      | (s2, evs, false) => (s2, evs)
    | [] => ({ s with L := l1 }, [])
  | (l1, none) => ({ s with L := l1 }, [])

/-- processTerminations for one response status: a terminal status takes the loader offline; a
    failure status first records the terminal error and cancels the request context (cancelOnError
    for a running request) -/
def applyStatus (s : State) (status : Nat) : State :=
  if isTerminal status then
    if isFailure status then
      { s with terminalErr := s.terminalErr.orElse (fun _ => some status), ctxCancelled := true,
               L := Loader.setOnline s.L false }
    else { s with L := Loader.setOnline s.L false }
  else s

/-- ProcessResponses with one response: `fromPeer0` = the message comes from the peer the request was
    sent to, `known` = it carries this request's id -/
def message (s : State) (fromPeer0 known : Bool) (status : Nat)
    (md : List (Cid × Action)) (blocks : List (Cid × Blk)) : State × List Ev :=
  if s.phase != .running || !fromPeer0 || !known then (s, [])
  else resume (applyStatus { s with L := Loader.ingest s.L md blocks } status)

end GS.Requestor
