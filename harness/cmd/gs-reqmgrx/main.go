package main

import (
	"verifharness/reg"
	_ "verifharness/reqmgr"
)

func main() { reg.Main("reqmgrx") }
