// Package requestor drives the real requestmanager.RequestManager + executor.Executor +
// ReconciledLoader + ipldutil traverser with a fake peer handler and a scripted (honest or
// adversarial) responder (component "requestor", properties C01 / C02 / C24 on the requestor side).
//
// Case header: case <id> dag=<seed>:<maxblocks> [mode=…]   (the DAG and selector are regenerated
// from the seed with the shared generator; maxblocks 0 = the "fan" family of harness/dag/shapes.go)
//
//	lt <n> block:parent:path:vData:vSkip …   link tree + visit counts (model / oracle input; checked
//	                                         against the regenerated DAG)                     -> "-"
//	remote <cids|->                          responder's store (oracle input)                 -> "-"
//	put <cid> …                              requestor's local store                          -> "ok"
//	req <userskip>                           GraphExchange-level NewRequest to peer 0         -> <events>
//	msg <peer> <r|x> <status> <items|-> <blocks|->   ProcessResponses from <peer> for our request (r)
//	                                         or an unknown request id (x)                     -> <events>
//
// <events> = everything observable since the previous op, once the system is quiescent:
// sent=<new:<skip>|cancel|update,…> prog=<n> blk=<cid><l|r><index>,… errs=<…> w=<link=content,…> closed=<0|1>
package requestor

import (
	"bufio"
	"bytes"
	"context"
	"errors"
	"fmt"
	"io"
	"math/rand"
	"os"
	"runtime"
	"sort"
	"strconv"
	"strings"
	"sync"

	blocks "github.com/ipfs/go-block-format"
	"github.com/ipfs/go-cid"
	"github.com/ipld/go-ipld-prime/datamodel"
	"github.com/ipld/go-ipld-prime/linking"
	cidlink "github.com/ipld/go-ipld-prime/linking/cid"
	"github.com/libp2p/go-libp2p/core/peer"
	mh "github.com/multiformats/go-multihash"

	"github.com/ipfs/go-graphsync"
	"github.com/ipfs/go-graphsync/donotsendfirstblocks"
	"github.com/ipfs/go-graphsync/listeners"
	gsmsg "github.com/ipfs/go-graphsync/message"
	"github.com/ipfs/go-graphsync/messagequeue"
	"github.com/ipfs/go-graphsync/persistenceoptions"
	"github.com/ipfs/go-graphsync/requestmanager"
	"github.com/ipfs/go-graphsync/requestmanager/executor"
	"github.com/ipfs/go-graphsync/requestmanager/hooks"
	"github.com/ipfs/go-graphsync/taskqueue"

	"verifharness/dag"
	"verifharness/quiesce"
	"verifharness/reg"
)

func init() {
	reg.Register(&reg.Component{Name: "requestor", Gen: Gen, Run: Run})
}

// ---------------------------------------------------------------- the case's DAG

type World struct {
	D      *dag.DAG
	Sel    datamodel.Node
	LT     *dag.LT
	VData  []int
	VSkip  []int
	Seg    *dag.SegInterner
	Paths  []string // interned path of every LT node ("-" for the root)
	LTLine string
	names  map[cid.Cid]string
	extra  map[int]blocks.Block // foreign blocks 100+
}

func NewWorld(seed int64, maxBlocks int) (*World, error) {
	r := rand.New(rand.NewSource(seed))
	var d *dag.DAG
	var sel datamodel.Node
	if maxBlocks == 0 { // the "fan" family: independent sub-DAGs below the root (harness/dag/shapes.go)
		d, sel = dag.GenFan(r)
	} else {
		o := dag.DefaultOpts()
		o.MaxBlocks = maxBlocks
		d = dag.Gen(r, o)
		_, sel = dag.GenSelector(r)
	}
	lt, vd, vs, err := dag.VisitTable(d, sel)
	if err != nil {
		return nil, err
	}
	w := &World{D: d, Sel: sel, LT: lt, VData: vd, VSkip: vs, Seg: dag.NewSegInterner(), names: map[cid.Cid]string{}, extra: map[int]blocks.Block{}}
	w.LTLine = "lt " + lt.FormatV(w.Seg.Name, vd, vs)
	for _, l := range lt.Loads {
		w.Paths = append(w.Paths, w.pathOf(l.Path))
	}
	for i, c := range d.Cids {
		w.names[c] = strconv.Itoa(i)
	}
	return w, nil
}

func (w *World) pathOf(segs []string) string {
	if len(segs) == 0 {
		return "-"
	}
	ss := make([]string, len(segs))
	for i, s := range segs {
		ss[i] = w.Seg.Name(s)
	}
	return strings.Join(ss, "/")
}

func (w *World) pathName(p datamodel.Path) string {
	var segs []string
	for _, s := range p.Segments() {
		segs = append(segs, s.String())
	}
	return w.pathOf(segs)
}

// Block i: DAG block (i < 100) or a foreign raw block (i >= 100).
func (w *World) Block(i int) (blocks.Block, bool) {
	if i >= 0 && i < len(w.D.Cids) {
		b, _ := blocks.NewBlockWithCid(w.D.Data[w.D.Cids[i]], w.D.Cids[i])
		return b, true
	}
	if i < 100 {
		return nil, false
	}
	if b, ok := w.extra[i]; ok {
		return b, true
	}
	data := []byte(fmt.Sprintf("foreign-%d", i))
	c, _ := cid.Prefix{Version: 1, Codec: 0x55, MhType: mh.SHA2_256, MhLength: 32}.Sum(data)
	b, _ := blocks.NewBlockWithCid(data, c)
	w.extra[i] = b
	w.names[c] = strconv.Itoa(i)
	return b, true
}

func (w *World) cidName(c cid.Cid) string {
	if n, ok := w.names[c]; ok {
		return n
	}
	return "?"
}

func (w *World) linkName(l datamodel.Link) string {
	if cl, ok := l.(cidlink.Link); ok {
		return w.cidName(cl.Cid)
	}
	return "?"
}

func (w *World) contentName(c cid.Cid, data []byte) string {
	// content is named by the block whose bytes it equals
	for i, k := range w.D.Cids {
		if bytes.Equal(w.D.Data[k], data) {
			return strconv.Itoa(i)
		}
	}
	for i, b := range w.extra {
		if bytes.Equal(b.RawData(), data) {
			return strconv.Itoa(i)
		}
	}
	return "?"
}

// ---------------------------------------------------------------- system under test

type peerHandler struct{ s *Sys }

func (ph *peerHandler) AllocateAndBuildMessage(p peer.ID, blkSize uint64, fn func(*messagequeue.Builder)) {
	b := messagequeue.NewBuilder(context.Background(), messagequeue.Topic(0))
	fn(b)
	m, err := b.Build()
	if err != nil {
		panic(err)
	}
	ph.s.mu.Lock()
	defer ph.s.mu.Unlock()
	for _, r := range m.Requests() {
		ph.s.sent = append(ph.s.sent, sentReq{p, r})
	}
}

type sentReq struct {
	p peer.ID
	r gsmsg.GraphSyncRequest
}

type blockSeen struct {
	link   cid.Cid
	onWire uint64
	index  int64
}

type storeWrite struct {
	link    cid.Cid
	data    []byte
	hashOK  bool
}

type Sys struct {
	W      *World
	ctx    context.Context
	cancel context.CancelFunc
	RM     *requestmanager.RequestManager
	tq     *taskqueue.WorkerTaskQueue
	store  map[cid.Cid][]byte

	mu         sync.Mutex
	sent       []sentReq
	prog       []graphsync.ResponseProgress
	errs       []error
	writes     []storeWrite
	blks       []blockSeen
	progClosed bool
	errClosed  bool
	started    bool
	reqID      graphsync.RequestID
	reqCancel  context.CancelFunc
}

func Peer(i int) peer.ID { return peer.ID(fmt.Sprintf("peer-%d", i)) }

func NewSys(w *World) *Sys {
	s := &Sys{W: w, store: map[cid.Cid][]byte{}}
	s.ctx, s.cancel = context.WithCancel(context.Background())
	ls := cidlink.DefaultLinkSystem()
	ls.StorageReadOpener = func(lc linking.LinkContext, l datamodel.Link) (io.Reader, error) {
		s.mu.Lock()
		defer s.mu.Unlock()
		b, ok := s.store[l.(cidlink.Link).Cid]
		if !ok {
			return nil, fmt.Errorf("not found")
		}
		return bytes.NewReader(b), nil
	}
	ls.StorageWriteOpener = func(lc linking.LinkContext) (io.Writer, linking.BlockWriteCommitter, error) {
		var buf bytes.Buffer
		return &buf, func(l datamodel.Link) error {
			c := l.(cidlink.Link).Cid
			data := append([]byte{}, buf.Bytes()...)
			h, _ := c.Prefix().Sum(data)
			s.mu.Lock()
			s.store[c] = data
			s.writes = append(s.writes, storeWrite{c, data, h.Equals(c)})
			s.mu.Unlock()
			return nil
		}, nil
	}
	s.tq = taskqueue.NewTaskQueue(s.ctx)
	s.RM = requestmanager.New(s.ctx, persistenceoptions.New(), ls, hooks.NewRequestHooks(), hooks.NewResponseHooks(),
		listeners.NewNetworkErrorListeners(), listeners.NewRequestProcessingListeners(), s.tq, nopConnManager{}, 0, nil)
	bh := hooks.NewBlockHooks()
	bh.Register(s.blockHook)
	ex := executor.NewExecutor(s.RM, bh)
	s.RM.SetDelegate(&peerHandler{s})
	s.RM.Startup()
	s.tq.Startup(1, ex)
	return s
}

// blockHook observes every block the traversal loaded (graphsync.OnIncomingBlockHook)
func (s *Sys) blockHook(p peer.ID, rd graphsync.ResponseData, bd graphsync.BlockData, ha graphsync.IncomingBlockHookActions) {
	s.mu.Lock()
	s.blks = append(s.blks, blockSeen{bd.Link().(cidlink.Link).Cid, bd.BlockSizeOnWire(), bd.Index()})
	s.mu.Unlock()
}

type nopConnManager struct{}

func (nopConnManager) Protect(peer.ID, string)        {}
func (nopConnManager) Unprotect(peer.ID, string) bool { return false }

func (s *Sys) Put(i int) bool {
	b, ok := s.W.Block(i)
	if !ok {
		return false
	}
	s.mu.Lock()
	s.store[b.Cid()] = b.RawData()
	s.mu.Unlock()
	return true
}

func (s *Sys) Request(userSkip int64) {
	var exts []graphsync.ExtensionData
	if userSkip > 0 {
		exts = append(exts, graphsync.ExtensionData{Name: graphsync.ExtensionsDoNotSendFirstBlocks, Data: donotsendfirstblocks.EncodeDoNotSendFirstBlocks(userSkip)})
	}
	s.reqID = graphsync.NewRequestID()
	ctx, cancel := context.WithCancel(context.WithValue(s.ctx, graphsync.RequestIDContextKey{}, s.reqID))
	s.reqCancel = cancel
	pc, ec := s.RM.NewRequest(ctx, Peer(0), cidlink.Link{Cid: s.W.D.Root}, s.W.Sel, exts...)
	s.started = true
	go func() {
		for p := range pc {
			s.mu.Lock()
			s.prog = append(s.prog, p)
			s.mu.Unlock()
		}
		s.mu.Lock()
		s.progClosed = true
		s.mu.Unlock()
	}()
	go func() {
		for e := range ec {
			s.mu.Lock()
			s.errs = append(s.errs, e)
			s.mu.Unlock()
		}
		s.mu.Lock()
		s.errClosed = true
		s.mu.Unlock()
	}()
}

type Item struct {
	C      int
	Action byte
}

func actionOf(a byte) graphsync.LinkAction {
	switch a {
	case 'p':
		return graphsync.LinkActionPresent
	case 'd':
		return graphsync.LinkActionDuplicateNotSent
	case 'm':
		return graphsync.LinkActionMissing
	default:
		return graphsync.LinkActionDuplicateDAGSkipped
	}
}

// Message: ProcessResponses(peer, [response(id, status, items)], blocks)
func (s *Sys) Message(p int, known bool, status int, items []Item, blks []int) bool {
	id := s.reqID
	if !known {
		id = graphsync.NewRequestID()
	}
	md := make([]gsmsg.GraphSyncLinkMetadatum, 0, len(items))
	for _, it := range items {
		b, ok := s.W.Block(it.C)
		if !ok {
			return false
		}
		md = append(md, gsmsg.GraphSyncLinkMetadatum{Link: b.Cid(), Action: actionOf(it.Action)})
	}
	var bs []blocks.Block
	for _, i := range blks {
		b, ok := s.W.Block(i)
		if !ok {
			return false
		}
		bs = append(bs, b)
	}
	s.RM.ProcessResponses(Peer(p), []gsmsg.GraphSyncResponse{gsmsg.NewResponse(id, graphsync.ResponseStatusCode(status), md)}, bs)
	return true
}

func (s *Sys) Quiesce() { quiesce.Wait(nil) }

func (s *Sys) Close() {
	// a request whose response never ended still has its executor parked in the loader; cancelling
	// the request (client side) takes the loader offline and lets the task finish — shutting the
	// request manager down alone would leave that goroutine parked for good
	if s.reqCancel != nil {
		s.reqCancel()
		quiesce.Wait(nil)
	}
	s.cancel()
	quiesce.Wait(nil)
}

// Events drains everything observed since the last call.
type Events struct {
	Sent   []sentReq
	Prog   []graphsync.ResponseProgress
	Errs   []error
	Writes []storeWrite
	Closed bool
	Blks   []blockSeen
}

func (s *Sys) Drain() Events {
	s.mu.Lock()
	defer s.mu.Unlock()
	e := Events{s.sent, s.prog, s.errs, s.writes, s.progClosed && s.errClosed, s.blks}
	s.sent, s.prog, s.errs, s.writes, s.blks = nil, nil, nil, nil, nil
	return e
}

func (w *World) errName(e error) string {
	var miss graphsync.RemoteMissingBlockErr
	var inc graphsync.RemoteIncorrectResponseError
	switch {
	case errors.As(e, &miss):
		return fmt.Sprintf("missing:%s:%s", w.linkName(miss.Link), w.pathName(miss.Path))
	case errors.As(e, &inc):
		return fmt.Sprintf("incorrect:%s:%s:%s", w.linkName(inc.LocalLink), w.linkName(inc.RemoteLink), w.pathName(inc.Path))
	}
	for code := graphsync.ResponseStatusCode(30); code <= 35; code++ {
		if se := code.AsError(); se != nil && errors.Is(e, se) {
			return fmt.Sprintf("status:%d", code)
		}
	}
	s := e.Error()
	if i := strings.Index(s, "unknown response status code: "); i >= 0 {
		if n, err := strconv.Atoi(strings.TrimSpace(s[i+len("unknown response status code: "):])); err == nil {
			return fmt.Sprintf("status:%d", n)
		}
	}
	switch {
	case strings.Contains(s, "additional data"):
		return "extra"
	case strings.Contains(s, "context cancel"):
		return "ctxcancel"
	case strings.Contains(s, "client cancelled"), strings.Contains(s, "Client Cancelled"):
		return "clientcancel"
	}
	return "other"
}

func (w *World) render(e Events) string {
	var sent []string
	for _, sr := range e.Sent {
		r := sr.r
		pfx := ""
		if sr.p != Peer(0) {
			pfx = "toother:"
		}
		switch r.Type() {
		case graphsync.RequestTypeNew:
			skip := int64(0)
			if d, ok := r.Extension(graphsync.ExtensionsDoNotSendFirstBlocks); ok {
				skip, _ = donotsendfirstblocks.DecodeDoNotSendFirstBlocks(d)
			}
			sent = append(sent, fmt.Sprintf("%snew:%d", pfx, skip))
		case graphsync.RequestTypeCancel:
			sent = append(sent, pfx+"cancel")
		default:
			sent = append(sent, pfx+"update")
		}
	}
	var errs, ws, bs []string
	for _, x := range e.Blks {
		lr := "l"
		if x.onWire > 0 {
			lr = "r"
		}
		bs = append(bs, fmt.Sprintf("%s%s%d", w.cidName(x.link), lr, x.index))
	}
	for _, x := range e.Errs {
		errs = append(errs, w.errName(x))
	}
	for _, x := range e.Writes {
		ws = append(ws, fmt.Sprintf("%s=%s", w.cidName(x.link), w.contentName(x.link, x.data)))
	}
	j := func(l []string) string {
		if len(l) == 0 {
			return "-"
		}
		return strings.Join(l, ",")
	}
	return fmt.Sprintf("sent=%s prog=%d blk=%s errs=%s w=%s closed=%d", j(sent), len(e.Prog), j(bs), j(errs), j(ws), b2i(e.Closed))
}

func b2i(b bool) int {
	if b {
		return 1
	}
	return 0
}

// ---------------------------------------------------------------- parsing helpers

func ParseItems(s string) ([]Item, bool) {
	if s == "-" {
		return nil, true
	}
	var out []Item
	for _, t := range strings.Split(s, ",") {
		if len(t) < 2 || !strings.ContainsRune("pdms", rune(t[len(t)-1])) {
			return nil, false
		}
		c, err := strconv.Atoi(t[:len(t)-1])
		if err != nil || c < 0 {
			return nil, false
		}
		out = append(out, Item{c, t[len(t)-1]})
	}
	return out, true
}

func ParseInts(s string) ([]int, bool) {
	if s == "-" {
		return nil, true
	}
	var out []int
	for _, t := range strings.Split(s, ",") {
		n, err := strconv.Atoi(t)
		if err != nil || n < 0 {
			return nil, false
		}
		out = append(out, n)
	}
	return out, true
}

func FmtItems(items []Item) string {
	if len(items) == 0 {
		return "-"
	}
	ss := make([]string, len(items))
	for i, it := range items {
		ss[i] = fmt.Sprintf("%d%c", it.C, it.Action)
	}
	return strings.Join(ss, ",")
}

func FmtInts(l []int) string {
	if len(l) == 0 {
		return "-"
	}
	ss := make([]string, len(l))
	for i, x := range l {
		ss[i] = strconv.Itoa(x)
	}
	return strings.Join(ss, ",")
}

func headerDag(hdr string) (int64, int, bool) {
	for _, t := range strings.Fields(hdr) {
		if strings.HasPrefix(t, "dag=") {
			f := strings.Split(t[4:], ":")
			if len(f) != 2 {
				return 0, 0, false
			}
			s, e1 := strconv.ParseInt(f[0], 10, 64)
			m, e2 := strconv.Atoi(f[1])
			return s, m, e1 == nil && e2 == nil && m >= 0 && m <= 30
		}
	}
	return 0, 0, false
}

// ---------------------------------------------------------------- run

func Run(cases []reg.Case, out *reg.Out) {
	runtime.GOMAXPROCS(1)
	cur := ""
	quiesce.OnStuck = func(dump string) {
		fmt.Fprintf(os.Stderr, "requestor: case %s does not become quiescent\n%s\n", cur, dump)
		out.Fail("hang", "the request manager does not become quiescent in case %s (a goroutine stays busy or blocked on a lock / channel send)", cur)
		out.Finish()
		os.Exit(3)
	}
	for _, c := range cases {
		cur = c.ID
		out.BeginCase(c)
		runCase(c, out)
	}
}

func runCase(c reg.Case, out *reg.Out) {
	seed, mb, ok := headerDag(c.Header)
	var w *World
	if ok {
		var err error
		w, err = NewWorld(seed, mb)
		if err != nil {
			ok = false
		}
	}
	if !ok {
		for range c.Ops {
			out.Line("bad-case")
		}
		return
	}
	for _, e := range w.LT.Shape() {
		out.Fail("harness-lt-shape", "link tree of the reference traversal violates a hypothesis of the Lean theorems: %s", e)
	}
	s := NewSys(w)
	defer s.Close()
	or := newOracle(out, w)
	ltOK := false
	for _, op := range c.Ops {
		out.Cov("op." + op[0])
		switch op[0] {
		case "lt":
			ltOK = strings.Join(op, " ") == w.LTLine
			if !ltOK {
				out.Cov("lt.mismatch")
			}
			out.Line("-")
		case "remote":
			if len(op) == 2 {
				if l, ok := ParseInts(op[1]); ok {
					or.setRemote(l)
				}
			}
			out.Line("-")
		case "note":
			out.Line("-")
		case "put":
			good := len(op) > 1 && !s.started
			var l []int
			for _, t := range op[1:] {
				n, err := strconv.Atoi(t)
				if err != nil || n < 0 || n >= len(w.D.Cids) {
					good = false
				}
				l = append(l, n)
			}
			if !good {
				out.Line("bad-op")
				continue
			}
			for _, n := range l {
				s.Put(n)
				or.put(n)
			}
			out.Line("ok")
		case "req":
			if len(op) != 2 || s.started || !ltOK {
				out.Line("bad-op")
				continue
			}
			us, err := strconv.ParseInt(op[1], 10, 64)
			if err != nil || us < 0 {
				out.Line("bad-op")
				continue
			}
			s.Request(us)
			s.Quiesce()
			ev := s.Drain()
			or.request(us)
			or.events(ev)
			out.Line("%s", w.render(ev))
		case "msg":
			if len(op) != 6 || !s.started || (op[2] != "r" && op[2] != "x") {
				out.Line("bad-op")
				continue
			}
			p, e1 := strconv.Atoi(op[1])
			st, e2 := strconv.Atoi(op[3])
			items, ok1 := ParseItems(op[4])
			blks, ok2 := ParseInts(op[5])
			if e1 != nil || e2 != nil || !ok1 || !ok2 || p < 0 || p > 3 {
				out.Line("bad-op")
				continue
			}
			if !s.Message(p, op[2] == "r", st, items, blks) {
				out.Line("bad-op")
				continue
			}
			s.Quiesce()
			ev := s.Drain()
			or.message(p, op[2] == "r", st, items, blks)
			or.events(ev)
			out.Cov(fmt.Sprintf("msg.status.%d", st))
			out.Line("%s", w.render(ev))
		default:
			out.Line("bad-op")
		}
	}
	or.finish(s)
}

// ---------------------------------------------------------------- oracle

// oracle (from the property text, independent of the Lean model):
//
// C01  every store write is (link, bytes) with sha256(bytes) = link, link is the block of a node of
//      the link tree all of whose ancestors' blocks the requestor holds at that moment; the nodes
//      handed to the caller are exactly (a prefix of) what an ordinary traversal visits when the
//      loads are answered data/skip the way this run answered them (so every delivered node is
//      genuine content reachable by the selector), whatever the responder sent.
// C24  if the local store covers the traversal nothing is sent; otherwise the one new-request
//      message carries do-not-send-first-blocks = max(user value, blocks loaded locally before).
// C02  (cases whose messages are exactly an honest responder's stream for `remote`) missing-block
//      errors exactly for the links neither side can supply, blocks from the responder stored.
type oracle struct {
	out     *reg.Out
	w       *World
	loc     map[int]bool // requestor's store (grows with writes)
	loc0    map[int]bool // requestor's store before the request
	rem     map[int]bool
	hasRem  bool
	user    int64
	started bool
	prog    []graphsync.ResponseProgress
	errs    []error
	sentNew []int64
	nSent   int
	closed  bool
	// honest tracking
	honest   bool
	why      string
	expected []expItem
	got      int
	prefix   int // number of blocks the local traversal loads before the first miss
	termSeen bool
	// the responder is the real one (component exchange): cooperative by construction
	realResponder bool
}

type expItem struct {
	c       int
	present bool
	block   bool
	node    int // index of the link-tree node
}

func newOracle(out *reg.Out, w *World) *oracle {
	return &oracle{out: out, w: w, loc: map[int]bool{}, loc0: map[int]bool{}, rem: map[int]bool{}, honest: true}
}

func (o *oracle) dishonest(why string) {
	if o.honest {
		o.honest = false
		o.why = why
	}
}

func (o *oracle) setRemote(l []int) {
	o.hasRem = true
	for _, x := range l {
		o.rem[x] = true
	}
}
func (o *oracle) put(n int) { o.loc[n] = true; o.loc0[n] = true }

func (o *oracle) isDesc(j, i int) bool {
	for j > i {
		j = o.w.LT.Loads[j].Parent
	}
	return j == i
}

func (o *oracle) skipSubtree(i int) int {
	j := i + 1
	for j < len(o.w.LT.Loads) && o.isDesc(j, i) {
		j++
	}
	return j
}

// localPrefix: the loads a purely local traversal performs successfully before its first miss
// (all of them if the store covers the traversal)
func (o *oracle) localPrefix() (n int, covered bool) {
	for i, l := range o.w.LT.Loads {
		if !o.loc[l.Block] {
			return i, false
		}
	}
	return len(o.w.LT.Loads), true
}

func (o *oracle) responderStream(skip int) []expItem {
	var out []expItem
	seen := map[int]bool{}
	lt := o.w.LT.Loads
	for i := 0; i < len(lt); {
		b := lt[i].Block
		if o.rem[b] {
			out = append(out, expItem{b, true, len(out)+1 > skip && !seen[b], i})
			seen[b] = true
			i++
		} else {
			out = append(out, expItem{b, false, false, i})
			i = o.skipSubtree(i)
		}
	}
	return out
}

// windowNeeded (known finding skip-prefix-mismatch, computed from the case alone): the link-tree nodes
// among the first `skip` links of the responder's OWN traversal that lie beyond the prefix the
// requestor loaded locally, that the responder holds, and whose block the requestor does not hold —
// blocks the requestor needs that fall into the window it asked the responder to skip.  (Non-empty
// only if the responder lacks a block of that prefix and therefore skipped part of it.)
func (o *oracle) windowNeeded() []int {
	if o.prefix >= len(o.w.LT.Loads) {
		return nil
	}
	var out []int
	for i, e := range o.responderStream(o.prefix) {
		if i >= o.prefix {
			break
		}
		if e.node >= o.prefix && e.present && !o.loc0[e.c] {
			out = append(out, e.node)
		}
	}
	return out
}

func (o *oracle) neededInWindow() bool { return len(o.windowNeeded()) > 0 }

// prefixBlocksResent (known finding skip-prefix-mismatch-resend, computed from the case alone): the
// blocks of the prefix the requestor loaded locally that the responder's traversal attaches beyond
// its skip window (it met them only on a path outside the window because it skipped the subtree in
// which the requestor had loaded them).
func (o *oracle) prefixBlocksResent() map[int]bool {
	out := map[int]bool{}
	if o.prefix >= len(o.w.LT.Loads) {
		return out
	}
	inPrefix := map[int]bool{}
	for k := 0; k < o.prefix; k++ {
		inPrefix[o.w.LT.Loads[k].Block] = true
	}
	for _, e := range o.responderStream(o.prefix) {
		if e.block && inPrefix[e.c] {
			out[e.c] = true
		}
	}
	return out
}

func (o *oracle) prefixBlockResent() bool { return len(o.prefixBlocksResent()) > 0 }

func (o *oracle) request(user int64) {
	o.started = true
	o.user = user
	n, covered := o.localPrefix()
	o.prefix = n
	if !covered {
		skip := int64(n)
		if user > skip {
			skip = user
		}
		o.expected = o.responderStream(int(skip))
	}
	if user > 0 {
		o.dishonest("user skip value") // the user vouches for blocks; availability reasoning does not apply
	}
}

func (o *oracle) message(p int, known bool, status int, items []Item, blks []int) {
	if p != 0 || !known {
		return // must be ignored by the requestor: does not make the exchange dishonest
	}
	if o.termSeen {
		o.dishonest("message after the terminal status")
		return
	}
	st := graphsync.ResponseStatusCode(status)
	have := map[int]bool{}
	for _, b := range blks {
		have[b] = true
	}
	want := map[int]bool{}
	for _, it := range items {
		if o.got >= len(o.expected) {
			o.dishonest("more items than the responder's traversal")
			return
		}
		e := o.expected[o.got]
		o.got++
		if e.c != it.C || e.present != (it.Action == 'p') || (it.Action != 'p' && it.Action != 'm') {
			o.dishonest("item differs from the responder's traversal")
			return
		}
		if e.block {
			want[e.c] = true
		}
	}
	for k := range want {
		if !have[k] {
			o.dishonest("block not attached")
		}
	}
	for k := range have {
		if !want[k] {
			o.dishonest("extra block")
		}
	}
	if st.IsTerminal() {
		o.termSeen = true
		allPresent := true
		for _, e := range o.expected {
			if !e.present {
				allPresent = false
			}
		}
		wantSt := graphsync.RequestCompletedFull
		if !allPresent {
			wantSt = graphsync.RequestCompletedPartial
		}
		if len(o.expected) > 0 && !o.expected[0].present {
			wantSt = graphsync.RequestFailedContentNotFound
		}
		if o.got < len(o.expected) || st != wantSt {
			o.dishonest("terminal status too early or wrong")
		}
	} else if st != graphsync.PartialResponse {
		o.dishonest("unusual status")
	}
}

func (o *oracle) events(ev Events) {
	w := o.w
	for _, sr := range ev.Sent {
		o.nSent++
		if sr.r.Type() == graphsync.RequestTypeNew {
			skip := int64(0)
			if d, ok := sr.r.Extension(graphsync.ExtensionsDoNotSendFirstBlocks); ok {
				skip, _ = donotsendfirstblocks.DecodeDoNotSendFirstBlocks(d)
			}
			o.sentNew = append(o.sentNew, skip)
			if sr.p != Peer(0) {
				o.out.Fail("request-wrong-peer", "request sent to %s", sr.p)
			}
		}
	}
	for _, wr := range ev.Writes {
		name := w.cidName(wr.link)
		if !wr.hashOK {
			o.out.Fail("store-unverified", "bytes written under link %s do not hash to it", name)
		}
		idx := w.D.Index(wr.link)
		reach := false
		for i, l := range w.LT.Loads {
			if l.Block != idx {
				continue
			}
			ok := true
			for j := w.LT.Loads[i].Parent; j >= 0; j = w.LT.Loads[j].Parent {
				if !o.loc[w.LT.Loads[j].Block] {
					ok = false
				}
			}
			if ok {
				reach = true
			}
		}
		if idx < 0 || !reach {
			o.out.Fail("store-unreachable", "block %s stored although it is not a link-tree node below loaded ancestors", name)
		}
		if idx >= 0 {
			o.loc[idx] = true
		}
	}
	o.prog = append(o.prog, ev.Prog...)
	o.errs = append(o.errs, ev.Errs...)
	if ev.Closed {
		o.closed = true
	}
}

func (o *oracle) finish(s *Sys) {
	if !o.started {
		return
	}
	w := o.w
	// ---- C24
	_, covered := func() (int, bool) { // w.r.t. the ORIGINAL local store: recompute from puts only
		return o.prefix, o.prefix == len(w.LT.Loads)
	}()
	if covered {
		o.out.Cov("c24.covered")
		if o.nSent > 0 {
			o.out.Fail("not-silent", "local store covers the traversal but %d request message(s) were sent", o.nSent)
		}
	} else {
		want := int64(o.prefix)
		if o.user > want {
			want = o.user
		}
		if len(o.sentNew) != 1 {
			o.out.Fail("request-count", "%d new-request messages sent, expected exactly 1", len(o.sentNew))
		} else if o.sentNew[0] != want {
			o.out.Fail("skip-count", "do-not-send-first-blocks=%d, expected max(user=%d, locally loaded=%d)", o.sentNew[0], o.user, o.prefix)
		}
	}
	// ---- C01 delivered nodes: replay the loads the way this run answered them
	missing := map[string]bool{} // path -> reported missing
	for _, e := range o.errs {
		var m graphsync.RemoteMissingBlockErr
		if errors.As(e, &m) {
			missing[w.pathName(m.Path)] = true
		}
	}
	_, _, visits, err := dag.WalkAnswering(w.D, w.Sel, func(idx int, c cid.Cid, path []string) bool {
		return missing[w.pathOf(path)]
	})
	_ = err
	// a load that failed hard ends the traversal: delivered nodes are then a prefix
	n := len(o.prog)
	if n > len(visits) {
		o.out.Fail("deliver-extra", "%d nodes delivered, the traversal visits only %d", n, len(visits))
		n = len(visits)
	}
	for i := 0; i < n; i++ {
		p := o.prog[i]
		if dagPath(p.Path) != visits[i].Path || !bytes.Equal(dag.EncodeNode(p.Node), visits[i].Enc) {
			o.out.Fail("deliver-unverified", "delivered node #%d at %q is not what the selector traversal of the true DAG visits there (%q)", i, dagPath(p.Path), visits[i].Path)
			break
		}
	}
	complete := n == len(visits)
	// ---- C02 (honest exchanges only)
	if !o.hasRem {
		return
	}
	if o.realResponder {
		o.termSeen = true
	}
	if !o.honest || (!covered && !o.termSeen) {
		if o.honest {
			o.why = "stream incomplete"
		}
		o.out.Cov("honest.no:" + strings.ReplaceAll(o.why, " ", "-"))
		return
	}
	o.out.Cov("honest.valid")
	lacksPref := false
	for i := 0; i < o.prefix && i < len(w.LT.Loads); i++ {
		if !o.rem[w.LT.Loads[i].Block] {
			lacksPref = true
		}
	}
	if lacksPref && !covered {
		o.out.Cov("honest.lacks-prefix")
	}
	// Known findings are attributed by failure MODE, inside their input class only (both computed
	// from the case alone); every other failure keeps its normal class even inside those classes:
	//   root-not-found-abort : the responder lacks the root the requestor holds (store does not cover)
	//                          AND the request ends early with RequestFailedContentNotFound
	//   skip-prefix-mismatch : a link of windowNeeded() (needed block inside the skipped window) is
	//                          reported missing — and what follows from that on the links it affects:
	//                          its subtree is not visited, and the two traversals being out of step
	//                          the request may end with RemoteIncorrectResponseError
	inRootClass := !covered && o.prefix > 0 && !o.rem[w.LT.Loads[0].Block]
	pathNode := map[string]int{}
	for i2, p2 := range w.Paths {
		pathNode[p2] = i2
	}
	// wset: the link-tree nodes whose block is such a block — the window occurrence itself and, since
	// the responder then treats the block as already traversed (never sends it), its later occurrences
	wset := map[int]bool{}
	if !covered && o.prefix > 0 && !inRootClass {
		wblocks := map[int]bool{}
		for _, k := range o.windowNeeded() {
			wblocks[w.LT.Loads[k].Block] = true
		}
		for k := o.prefix; k < len(w.LT.Loads); k++ {
			if wblocks[w.LT.Loads[k].Block] {
				wset[k] = true
			}
		}
	}
	belowW := func(path string, among map[string]bool) bool { // strict descendant of a W node reported missing
		k, ok := pathNode[path]
		if !ok {
			return false
		}
		for j2 := w.LT.Loads[k].Parent; j2 >= 0; j2 = w.LT.Loads[j2].Parent {
			if wset[j2] && among[w.Paths[j2]] {
				return true
			}
		}
		return false
	}
	// reference traversal: a link is available if the requestor holds it (initially or fetched
	// earlier in this request) or the responder holds it and followed every ancestor
	have := map[int]bool{}
	for k := range o.loc0 {
		have[k] = true
	}
	var wantMissing []string
	lt := w.LT.Loads
	for i := 0; i < len(lt); {
		b := lt[i].Block
		av := have[b]
		if !av {
			av = true
			for j := i; j >= 0; j = lt[j].Parent {
				if !o.rem[lt[j].Block] {
					av = false
				}
			}
			if av {
				have[b] = true
			}
		}
		if av {
			i++
		} else {
			wantMissing = append(wantMissing, w.Paths[i])
			i = o.skipSubtree(i)
		}
	}
	var gotMissing []string
	hard := ""
	wMissedBeforeHard := false
	rootUnavailable := len(wantMissing) == 1 && wantMissing[0] == "-"
	for _, e := range o.errs {
		n := w.errName(e)
		if rootUnavailable && n == "status:34" && len(gotMissing) == 0 {
			// "content not found" for the root is the missing-block report for the root
			gotMissing = append(gotMissing, "-")
			continue
		}
		if strings.HasPrefix(n, "missing:") {
			if rootUnavailable && len(gotMissing) == 1 && gotMissing[0] == "-" {
				continue
			}
			f := strings.Split(n, ":")
			gotMissing = append(gotMissing, f[2])
			if k, ok := pathNode[f[2]]; ok && wset[k] && hard == "" {
				wMissedBeforeHard = true
			}
		} else if strings.HasPrefix(n, "incorrect") || n == "extra" || !rootUnavailable {
			// (when not even the root can be had, the request additionally ends with a generic failure)
			if hard == "" {
				hard = n
			}
		}
	}
	if hard != "" {
		c := "honest-rejected"
		switch {
		case inRootClass && hard == "status:34":
			c = "root-not-found-abort"
		case strings.HasPrefix(hard, "incorrect") && wMissedBeforeHard:
			c = "skip-prefix-mismatch"
		}
		o.out.Fail(c, "honest exchange failed with %s", hard)
		return
	}
	sort.Strings(wantMissing)
	sort.Strings(gotMissing)
	if strings.Join(wantMissing, " ") != strings.Join(gotMissing, " ") {
		c := "honest-missing"
		gotSet, wantSet := map[string]bool{}, map[string]bool{}
		for _, p2 := range gotMissing {
			gotSet[p2] = true
		}
		for _, p2 := range wantMissing {
			wantSet[p2] = true
		}
		nExtra, okMode := 0, true
		for p2 := range gotSet {
			if !wantSet[p2] {
				nExtra++
				if k, ok := pathNode[p2]; !ok || !wset[k] {
					okMode = false // a link outside the skipped window was wrongly reported missing
				}
			}
		}
		for p2 := range wantSet {
			if !gotSet[p2] && !belowW(p2, gotSet) {
				okMode = false // a missing link was not reported, and not because its subtree was cut off
			}
		}
		if okMode && nExtra > 0 {
			c = "skip-prefix-mismatch"
		}
		o.out.Fail(c, "missing-block errors at paths [%s], expected exactly [%s]", strings.Join(gotMissing, " "), strings.Join(wantMissing, " "))
		return
	}
	if rootUnavailable {
		return
	}
	if !complete || !o.closed {
		o.out.Fail("honest-incomplete", "honest exchange: delivered %d of %d nodes, closed=%v", len(o.prog), len(visits), o.closed)
	}
	// every block obtained from the responder is stored locally
	s.mu.Lock()
	for k := range have {
		if _, ok := s.store[w.D.Cids[k]]; !ok {
			o.out.Fail("remote-not-stored", "block %d was needed and available but is not in the local store afterwards", k)
		}
	}
	s.mu.Unlock()
}


func dagPath(p datamodel.Path) string {
	ss := make([]string, 0, p.Len())
	for _, s := range p.Segments() {
		ss = append(ss, s.String())
	}
	return strings.Join(ss, "/")
}

// ---------------------------------------------------------------- generator

type sitem struct {
	Item
	block bool
}

func mutate(r *rand.Rand, s []sitem, w *World) ([]sitem, []string) {
	var notes []string
	nb := len(w.D.Cids)
	for k := 1 + r.Intn(3); k > 0; k-- {
		if len(s) == 0 {
			s = append(s, sitem{Item{r.Intn(nb), 'p'}, true})
			notes = append(notes, "invent")
			continue
		}
		i := r.Intn(len(s))
		switch r.Intn(11) {
		case 0:
			j := r.Intn(len(s))
			s[i], s[j] = s[j], s[i]
			notes = append(notes, "swap")
		case 1:
			s = append(s[:i:i], s[i+1:]...)
			notes = append(notes, "drop")
		case 2:
			s = append(s[:i+1:i+1], s[i:]...)
			notes = append(notes, "dup")
		case 3:
			s[i].Action = "pdms"[r.Intn(4)]
			notes = append(notes, "action")
		case 4:
			s[i].C = 100 + r.Intn(3)
			notes = append(notes, "foreign")
		case 5:
			s[i].C = r.Intn(nb)
			notes = append(notes, "otherlink")
		case 6:
			j := r.Intn(len(w.LT.Loads))
			s = append(s[:i:i], append([]sitem{{Item{w.LT.Loads[j].Block, 'p'}, true}}, s[i:]...)...)
			notes = append(notes, "otherpath")
		case 7:
			s[i].block = false
			notes = append(notes, "noblock")
		case 8:
			for j := range s {
				s[j].block = true
			}
			notes = append(notes, "allblocks")
		case 9:
			s = s[:i]
			notes = append(notes, "truncate")
		default:
			s = append(s, sitem{Item{r.Intn(nb), "pm"[r.Intn(2)]}, r.Intn(2) == 0})
			notes = append(notes, "append")
		}
	}
	return s, notes
}

// twoGapStores: "local start over two subtrees the responder lacks": two different depth-1 links with
// non-empty subtrees whose blocks the responder does not hold; the requestor holds everything the
// traversal loads up to some node inside the SECOND of them (so its first miss lies below it), and —
// usually — the blocks of what follows that subtree, so that the responder has more to say afterwards.
func twoGapStores(r *rand.Rand, w *World) (map[int]bool, map[int]bool, bool) {
	lt := w.LT.Loads
	o := &oracle{w: w}
	var cand []int
	for i := 1; i < len(lt); i++ {
		if lt[i].Depth == 1 && o.skipSubtree(i) > i+1 {
			cand = append(cand, i)
		}
	}
	if len(cand) < 2 {
		return nil, nil, false
	}
	a := r.Intn(len(cand) - 1)
	b := a + 1 + r.Intn(len(cand)-a-1)
	i, j := cand[a], cand[b]
	end := o.skipSubtree(j)
	if lt[i].Block == lt[0].Block || lt[j].Block == lt[0].Block {
		return nil, nil, false
	}
	rem := map[int]bool{}
	for k := range w.D.Cids {
		rem[k] = true
	}
	delete(rem, lt[i].Block)
	delete(rem, lt[j].Block)
	k := j + 1 + r.Intn(end-j-1) // first miss: a node strictly inside the second subtree
	if k+1 < end && r.Intn(2) == 0 {
		k++
	}
	loc := map[int]bool{}
	for x := 0; x < k; x++ {
		loc[lt[x].Block] = true
	}
	if r.Intn(4) != 0 { // the requestor also holds what comes after the second subtree
		for x := end; x < len(lt); x++ {
			if r.Intn(5) != 0 {
				loc[lt[x].Block] = true
			}
		}
	}
	if loc[lt[k].Block] {
		return nil, nil, false // the intended first miss is not a miss (shared block)
	}
	return loc, rem, true
}

func genCase(r *rand.Rand, wr *bufio.Writer, id string, adversarial bool) {
	var w *World
	var seed int64
	mb := 3 + r.Intn(6)
	if r.Intn(6) == 0 {
		mb = 0 // fan family
	}
	for {
		seed = r.Int63n(1 << 40)
		var err error
		w, err = NewWorld(seed, mb)
		if err == nil && len(w.LT.Loads) <= 30 {
			break
		}
	}
	mode := "honest"
	if adversarial {
		mode = "adv"
	}
	fmt.Fprintf(wr, "case %s dag=%d:%d mode=%s\n", id, seed, mb, mode)
	fmt.Fprintln(wr, w.LTLine)
	ps := []float64{0, 0.3, 0.6, 0.85, 1}
	pl, pr := ps[r.Intn(len(ps))], ps[r.Intn(len(ps))]
	if r.Intn(3) == 0 { // a local DFS prefix (the resumed-download situation)
		pl = 0
	}
	loc, rem := map[int]bool{}, map[int]bool{}
	for i := range w.D.Cids {
		if r.Float64() < pl {
			loc[i] = true
		}
		if r.Float64() < pr {
			rem[i] = true
		}
	}
	if r.Intn(5) == 0 || (mb == 0 && r.Intn(2) == 0) {
		if l2, r2, ok := twoGapStores(r, w); ok {
			loc, rem = l2, r2
			pl = 1 // (skip the prefix construction below)
			fmt.Fprintln(wr, "note twogap")
		}
	}
	if pl == 0 && r.Intn(2) == 0 {
		k := r.Intn(len(w.LT.Loads) + 1)
		for i := 0; i < k; i++ {
			loc[w.LT.Loads[i].Block] = true
		}
		if k >= 2 && r.Intn(2) == 0 {
			// the resumed download meets a responder that lacks part of what the requestor already has
			for i := range w.D.Cids {
				rem[i] = true
			}
			for j := 1 + r.Intn(2); j > 0; j-- {
				delete(rem, w.LT.Loads[1+r.Intn(k-1)].Block)
			}
		}
	}
	var rl, ll []int
	for k := range rem {
		rl = append(rl, k)
	}
	for k := range loc {
		ll = append(ll, k)
	}
	sort.Ints(rl)
	sort.Ints(ll)
	fmt.Fprintln(wr, "remote", FmtInts(rl))
	if len(ll) > 0 {
		ss := make([]string, len(ll))
		for i, x := range ll {
			ss[i] = strconv.Itoa(x)
		}
		fmt.Fprintln(wr, "put", strings.Join(ss, " "))
	}
	user := 0
	if r.Intn(6) == 0 {
		user = r.Intn(len(w.LT.Loads) + 2)
	}
	fmt.Fprintln(wr, "req", user)
	o := &oracle{w: w, loc: loc, rem: rem}
	n, covered := o.localPrefix()
	if covered && !adversarial {
		return
	}
	skip := n
	if user > skip {
		skip = user
	}
	var s []sitem
	for _, e := range o.responderStream(skip) {
		a := byte('m')
		if e.present {
			a = 'p'
		}
		s = append(s, sitem{Item{e.c, a}, e.block})
	}
	allPresent := true
	for _, it := range s {
		if it.Action != 'p' {
			allPresent = false
		}
	}
	final := 20
	if !allPresent {
		final = 21
	}
	if len(s) > 0 && s[0].Action == 'm' {
		final = 34
	}
	if adversarial && r.Intn(8) != 0 {
		var notes []string
		s, notes = mutate(r, s, w)
		fmt.Fprintln(wr, "note", strings.Join(notes, ","))
	}
	// batches
	for len(s) > 0 || final != 0 {
		k := 1 + r.Intn(4)
		if r.Intn(4) == 0 || k > len(s) {
			k = len(s)
		}
		var items []Item
		var blks []int
		seen := map[int]bool{}
		for _, it := range s[:k] {
			items = append(items, it.Item)
			if it.block && !seen[it.C] {
				seen[it.C] = true
				blks = append(blks, it.C)
			}
		}
		s = s[k:]
		if adversarial && r.Intn(4) == 0 {
			blks = append(blks, 100+r.Intn(3))
		}
		st := 14
		if len(s) == 0 {
			st = final
			final = 0
			if st >= 30 && len(items) > 0 {
				// a failure status races with the items of the same message: send it on its own
				fmt.Fprintf(wr, "msg 0 r 14 %s %s\n", FmtItems(items), FmtInts(blks))
				items, blks = nil, nil
			}
			if adversarial {
				switch r.Intn(6) {
				case 0:
					st = []int{30, 31, 32, 33, 34, 35}[r.Intn(6)]
					// a failure status races with the items of the same message: send it on its own
					if len(items) > 0 {
						fmt.Fprintf(wr, "msg 0 r 14 %s %s\n", FmtItems(items), FmtInts(blks))
						items, blks = nil, nil
					}
				case 1:
					st = 14 // never terminates
				case 2:
					st = []int{10, 11, 15, 20, 21}[r.Intn(5)]
				}
			}
		} else if adversarial && r.Intn(10) == 0 {
			st = []int{20, 21}[r.Intn(2)] // premature success terminal
		}
		p, ref := 0, "r"
		if adversarial && r.Intn(8) == 0 {
			p = 1 // a third party answers for our request id
		}
		if adversarial && r.Intn(12) == 0 {
			ref = "x"
		}
		fmt.Fprintf(wr, "msg %d %s %d %s %s\n", p, ref, st, FmtItems(items), FmtInts(blks))
	}
	if adversarial && r.Intn(3) == 0 {
		fmt.Fprintf(wr, "msg 0 r %d - -\n", []int{14, 20, 32}[r.Intn(3)])
	}
}

func Gen(seed int64, n int, tier string, w *bufio.Writer) {
	runtime.GOMAXPROCS(1)
	r := rand.New(rand.NewSource(seed))
	for i := 0; i < n; i++ {
		if i%5 < 2 {
			genCase(r, w, fmt.Sprintf("h%d", i), false)
		} else {
			genCase(r, w, fmt.Sprintf("a%d", i), true)
		}
	}
}
