package main

import (
	_ "verifharness/publisher"
	"verifharness/reg"
)

func main() { reg.Main("publisherconc") }
