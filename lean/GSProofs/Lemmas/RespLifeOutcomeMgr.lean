import GSProofs.Lemmas.RespLifeOutcomeNet
/-!
Outcome accounting: the manager handlers (one mailbox message = one step) and the continuation of a
parked manager.
-/
namespace GS.RespLife

-- ------------------------------------------------------------------ table is not touched by transactions
theorem table_grantTo (s : State) (party : Party) : (grantTo s party).table = s.table := by
  cases party <;> rfl

theorem table_grantLoop (fuel : Nat) (s : State) (p : Peer) : (grantLoop fuel s p).table = s.table := by
  induction fuel generalizing s with
  | zero => rfl
  | succ n ih =>
    unfold grantLoop
    split
    · rfl
    · split
      · rw [ih, table_grantTo]; rfl
      · rfl

theorem table_release (s : State) (p : Peer) (n : Nat) : (release s p n).table = s.table := by
  unfold release
  simp only
  rw [table_grantLoop]; rfl

theorem table_buildNow (s : State) (party : Party) (p : Peer) (id : Id) (ops : List TxOp) :
    (buildNow s party p id ops).table = s.table := by
  unfold buildNow
  simp only
  split
  · split
    · exact table_release s p _
    · rfl
  · rfl

theorem table_execTx (s : State) (party : Party) (p : Peer) (id : Id) (ops : List TxOp) :
    (execTx s party p id ops).1.table = s.table := by
  unfold execTx
  split
  · rfl
  · simp only
    split
    · exact table_buildNow s party p id ops
    · unfold tryAlloc
      split
      · simp only [if_true]; rw [table_buildNow]; rfl
      · rfl

theorem lookup_of_table {s s' : State} (h : s'.table = s.table) (id : Id) : lookup s' id = lookup s id := by
  unfold lookup; rw [h]

theorem stOf_of_table {s s' : State} (h : s'.table = s.table) (r : Id) : stOf r s' = stOf r s := by
  unfold stOf entOf; rw [lookup_of_table h]

theorem park_execTx_none {s : State} (hp : s.park = none) (party : Party) (p : Peer) (id : Id) (ops : List TxOp) :
    (execTx s party p id ops).1.park = none := pcore_none_of_pi_eq (pi_execTx s party p id ops) hp

theorem pe_none {r : Id} {s : State} (h : s.park = none) : parkErr r s.park = false := by rw [h]; rfl

theorem stOf_lookup {r : Id} {s : State} {x : Resp} (h : lookup s r = some x) : stOf r s = stW x.state := by
  simp [stOf, entOf, h]

theorem stOf_lookup_none {r : Id} {s : State} (h : lookup s r = none) : stOf r s = 0 := by
  simp [stOf, entOf, h]

-- ------------------------------------------------------------------ table updates
theorem chg_setState (r : Id) (s : State) (id : Id) (st : RState) (hp : s.park = none) :
    Chg r s (setState s id st) (if id == r then stW st else 0) (if id == r then stOf r s else 0) := by
  refine chg_table (s' := setState s id st) rfl rfl rfl rfl rfl (pe_none hp) ?_
  rw [stOf_setState]
  by_cases h : r = id
  · subst h
    simp only [if_true, beq_self_eq_true]
    split <;> omega
  · have : (id == r) = false := by simpa using fun e => h e.symm
    simp [h, this]

theorem chg_insertResp (r : Id) (s : State) (x : Resp) (hp : s.park = none) :
    Chg r s (insertResp s x) (if x.id == r then stW x.state else 0) 0 := by
  refine chg_table (s' := insertResp s x) rfl rfl rfl rfl rfl (pe_none hp) ?_
  rw [stOf_insertResp]
  by_cases h : r = x.id
  · simp [h]
  · have : (x.id == r) = false := by simpa using fun e => h e.symm
    simp [h, this]

theorem chg_pushTask (r : Id) (s : State) (p : Peer) (id : Id) (pri : Nat) : Chg r s (pushTask s p id pri) 0 0 := by
  unfold pushTask
  simp only
  split
  · exact Chg.refl r s
  · split <;> exact chg_field rfl rfl rfl rfl rfl rfl

theorem table_pushTask (s : State) (p : Peer) (id : Id) (pri : Nat) : (pushTask s p id pri).table = s.table := by
  unfold pushTask
  simp only
  split
  · rfl
  · split <;> rfl

theorem park_pushTask (s : State) (p : Peer) (id : Id) (pri : Nat) : (pushTask s p id pri).park = s.park := by
  unfold pushTask
  simp only
  split
  · rfl
  · split <;> rfl

theorem chg_removeTask (r : Id) (s : State) (p : Peer) (id : Id) : Chg r s (removeTask s p id) 0 0 := by
  unfold removeTask
  simp only
  split
  · exact chg_field rfl rfl rfl rfl rfl rfl
  · exact Chg.refl r s

theorem table_removeTask (s : State) (p : Peer) (id : Id) : (removeTask s p id).table = s.table := by
  unfold removeTask
  simp only
  split <;> rfl

theorem park_removeTask (s : State) (p : Peer) (id : Id) : (removeTask s p id).park = s.park := by
  unfold removeTask
  simp only
  split <;> rfl

theorem chg_taskDone (r : Id) (s : State) (p : Peer) (id : Id) : Chg r s (taskDone s p id) 0 0 := by
  unfold taskDone
  split
  · exact chg_field rfl rfl rfl rfl rfl rfl
  · exact Chg.refl r s

theorem table_taskDone (s : State) (p : Peer) (id : Id) : (taskDone s p id).table = s.table := by
  unfold taskDone
  split <;> rfl

theorem park_taskDone (s : State) (p : Peer) (id : Id) : (taskDone s p id).park = s.park := by
  unfold taskDone
  split <;> rfl

theorem workers_taskDone (s : State) (p : Peer) (id : Id) : (taskDone s p id).workers = s.workers := by
  unfold taskDone
  split <;> rfl

-- ------------------------------------------------------------------ status codes in manager transactions
theorem termCount_cancelled : termCount [TxOp.status stCancelled] ≤ 1 := termCount_single _

theorem prepareOps_budget (h : Hook) :
    termCount (prepareOps h) + (if (h.kind == .accept || h.kind == .pause) = true then 1 else 0) ≤ 1 := by
  obtain ⟨k, e⟩ := h
  cases k <;> cases e <;> decide

theorem updOps_budget (plan : UP) :
    termCount ((if (plan == .ext || plan == .unpauseExt) = true then [TxOp.ext] else []) ++
      (if (plan == .err) = true then [TxOp.status stFailedUnknown] else [])) ≤ if plan == .err then 1 else 0 := by
  cases plan <;> decide

theorem updateOps_zero (ext : Bool) :
    termCount ((if ext = true then [TxOp.ext] else []) ++ [TxOp.status stPartial]) = 0 := by
  cases ext <;> decide

-- ------------------------------------------------------------------ abortRequest
theorem chg_abortRequest (r : Id) (s : State) (id : Id) (err : Sig) (hp : s.park = none) :
    Chg r s (abortRequest s id err).1 0 0 := by
  unfold abortRequest
  split
  · exact Chg.refl r s
  · rename_i x hl
    simp only
    have hrm := chg_removeTask r s x.peer id
    have hpr : (removeTask s x.peer id).park = none := by rw [park_removeTask]; exact hp
    have hlr : lookup (removeTask s x.peer id) id = some x := by
      rw [lookup_of_table (table_removeTask s x.peer id)]; exact hl
    split
    · exact hrm
    · rename_i hc
      split
      · rename_i hrun
        -- the response is Queued or Paused
        have hst : stW x.state = 1 ∨ err = .network := by
          cases hs : x.state with
          | queued => left; rfl
          | paused => left; rfl
          | running => simp [hs] at hrun
          | completing =>
            right
            simp only [hs, beq_self_eq_true, Bool.true_and, bne_iff_ne, ne_eq, Decidable.not_not] at hc
            exact hc
        have hdown : id = r → err ≠ .network → stOf r (removeTask s x.peer id) = 1 := by
          intro e hne
          subst e
          rw [stOf_lookup hlr]
          rcases hst with h | h
          · exact h
          · exact absurd h hne
        cases err with
        | ctxCancel =>
          simp only
          have ht := chg_terminate r (removeTask s x.peer id) id (pe_none hpr)
          have he := chg_emit r (terminate (removeTask s x.peer id) id) (.canc id) rfl
          refine ((hrm.trans ht).trans he).weaken ?_
          simp only [outEv]
          by_cases hid : id = r
          · rw [hdown hid (by simp)]; simp [hid]
          · have : (id == r) = false := by simpa using hid
            simp [this]
        | network =>
          simp only
          exact (hrm.trans (chg_terminate r _ id (pe_none hpr))).weaken (by omega)
        | cancelCmd =>
          simp only
          have h1 := chg_setState r (removeTask s x.peer id) id .completing hpr
          have h2 := chg_execTx r (setState (removeTask s x.peer id) id .completing) .mgr x.peer id
            [.status stCancelled]
          refine ((hrm.trans h1).trans h2).weaken ?_
          have := termCount_cancelled
          by_cases hid : id = r
          · rw [hdown hid (by simp)]; simp [hid, stW]; omega
          · have : (id == r) = false := by simpa using hid
            simp [this]
      · exact hrm.trans (chg_modAux r _ id _)

theorem chg_pauseRequest (r : Id) (s : State) (id : Id) : Chg r s (pauseRequest s id).1 0 0 := by
  unfold pauseRequest
  split
  · exact Chg.refl r s
  · split
    · exact Chg.refl r s
    · split
      · exact Chg.refl r s
      · exact chg_modAux r s id _

-- ------------------------------------------------------------------ unpause / update
theorem chg_unpauseFinish (r : Id) (s : State) (id : Id) : Chg r s (unpauseFinish s id) 0 0 := by
  unfold unpauseFinish
  split
  · exact Chg.refl r s
  · exact chg_pushTask r s _ id _

/-- Paused -> Queued (with the pause signal dropped): the response keeps its unit -/
theorem chg_requeue (r : Id) (s : State) (id : Id) (f : Aux → Aux) {x : Resp} (hl : lookup s id = some x)
    (hst : x.state = .paused) (hp : s.park = none) : Chg r s (setState (modAux s id f) id .queued) 0 0 := by
  have h1 := chg_modAux r s id f
  have h2 := chg_setState r (modAux s id f) id .queued hp
  refine (h1.trans h2).weaken ?_
  rw [stOf_modAux]
  by_cases hid : id = r
  · subst hid
    rw [stOf_lookup hl, hst]
    simp [stW]
  · have : (id == r) = false := by simpa using hid
    simp [this]

theorem chg_unpauseRequest (r : Id) (s : State) (id : Id) (ext : Bool) (hp : s.park = none) :
    Chg r s (unpauseRequest s id ext).1 0 0 := by
  unfold unpauseRequest
  split
  · exact Chg.refl r s
  · rename_i x hl
    split
    · exact Chg.refl r s
    · rename_i hst
      have hst' : x.state = .paused := by simpa using hst
      simp only
      have h1 := chg_requeue r s id (fun a => { a with sigPause := false }) hl hst' hp
      split
      · have hx := chg_execTx' r (setState (modAux s id fun a => { a with sigPause := false }) id .queued) .mgr
          x.peer id [.ext]
        have hpx : (execTx (setState (modAux s id fun a => { a with sigPause := false }) id .queued) .mgr
          x.peer id [.ext]).1.park = none := park_execTx_none (s := setState (modAux s id _) id .queued) hp _ _ _ _
        generalize execTx (setState (modAux s id fun a => { a with sigPause := false }) id .queued) .mgr
          x.peer id [.ext] = pr at hx hpx
        obtain ⟨s2, ok⟩ := pr
        simp only at hx hpx ⊢
        have hx' : Chg r (setState (modAux s id fun a => { a with sigPause := false }) id .queued) s2 0 0 :=
          hx.weaken (by split <;> simp [termCount_ext])
        split
        · exact (h1.trans hx').trans (chg_unpauseFinish r s2 id)
        · refine ((h1.trans hx').trans (chg_parkMgr r s2 _ x.peer id [.ext] hpx)).weaken ?_
          simp [parkW, parkErr, contW, termCount_ext]
      · exact h1.trans (chg_unpauseFinish r _ id)

theorem table_unpauseFinish (s : State) (id : Id) : (unpauseFinish s id).table = s.table := by
  unfold unpauseFinish
  split
  · rfl
  · exact table_pushTask s _ id _

theorem chg_updateRequest (r : Id) (s : State) (id : Id) (ext : Bool) (hp : s.park = none) :
    Chg r s (updateRequest s id ext).1 0 0 := by
  unfold updateRequest
  split
  · exact Chg.refl r s
  · rename_i x hl
    simp only
    have hx := chg_execTx' r s .mgr x.peer id ((if ext = true then [TxOp.ext] else []) ++ [TxOp.status stPartial])
    have hpx : (execTx s .mgr x.peer id ((if ext = true then [TxOp.ext] else []) ++ [TxOp.status stPartial])).1.park =
        none := park_execTx_none hp _ _ _ _
    generalize execTx s .mgr x.peer id ((if ext = true then [TxOp.ext] else []) ++ [TxOp.status stPartial]) = pr
      at hx hpx
    obtain ⟨s1, ok⟩ := pr
    simp only at hx hpx ⊢
    have hx' : Chg r s s1 0 0 := hx.weaken (by split <;> simp [updateOps_zero])
    split
    · exact hx'
    · refine (hx'.trans (chg_parkMgr r s1 _ x.peer id _ hpx)).weaken ?_
      simp [parkW, parkErr, contW, updateOps_zero]

-- ------------------------------------------------------------------ processUpdate
theorem chg_procUpdateFinish (r : Id) (s : State) (id : Id) (plan : UP) (hp : s.park = none) :
    Chg r s (procUpdateFinish s id plan) 0 (if (id == r && plan == .err) = true then stOf r s else 0) := by
  unfold procUpdateFinish
  split
  · rename_i hl
    refine (Chg.refl r s).weaken ?_
    split
    · rename_i hc
      simp only [Bool.and_eq_true, beq_iff_eq] at hc
      rw [← hc.1, stOf_lookup_none hl]
      omega
    · omega
  · rename_i x hl
    have hxid : x.id = id := (lookup_some hl).2
    split
    · rename_i hpl
      rw [hxid]
      refine (chg_setState r s id .completing hp).weaken ?_
      simp only [stW, hpl, Bool.and_true]
      split <;> omega
    · rename_i hpl
      have hpl' : (plan == .err) = false := by simpa using hpl
      simp only [hpl', Bool.and_false, Bool.false_eq_true, if_false]
      split
      · exact chg_unpauseRequest r s id false hp
      · exact Chg.refl r s

theorem chg_processUpdate (r : Id) (s : State) (id : Id) (plan : UP) (hp : s.park = none) :
    Chg r s (processUpdate s id plan) 0 0 := by
  unfold processUpdate
  split
  · exact Chg.refl r s
  · rename_i x hl
    split
    · exact Chg.refl r s
    · split
      · exact chg_modAux r s id _
      · rename_i hst
        have hst' : x.state = .paused := by simpa using hst
        simp only
        have hb := updOps_budget plan
        generalize hops : ((if (plan == .ext || plan == .unpauseExt) = true then [TxOp.ext] else []) ++
          (if (plan == .err) = true then [TxOp.status stFailedUnknown] else [])) = ops at hb
        have hx := chg_execTx' r s .mgr x.peer id ops
        have hpx : (execTx s .mgr x.peer id ops).1.park = none := park_execTx_none hp _ _ _ _
        have htx := table_execTx s .mgr x.peer id ops
        generalize execTx s .mgr x.peer id ops = pr at hx hpx htx
        obtain ⟨s1, ok⟩ := pr
        simp only at hx hpx htx ⊢
        have hst1 : id = r → stOf r s1 = 1 := by
          intro e; subst e
          rw [stOf_of_table htx, stOf_lookup hl, hst']; rfl
        split
        · rename_i hok
          simp only [hok, if_true] at hx
          refine (hx.trans (chg_procUpdateFinish r s1 id plan hpx)).weaken ?_
          by_cases hid : id = r
          · rw [hst1 hid]
            simp only [hid, beq_self_eq_true, Bool.true_and, if_true] at hb ⊢
            split at hb <;> simp_all <;> omega
          · have : (id == r) = false := by simpa using hid
            simp [this]
        · rename_i hok
          simp only [hok, Bool.false_eq_true, if_false] at hx
          refine (hx.trans (chg_parkMgr r s1 (.procUpdate id plan) x.peer id ops hpx)).weaken ?_
          simp only [parkW, parkErr, contW]
          by_cases hid : id = r
          · rw [hst1 hid]
            simp only [hid, beq_self_eq_true, Bool.true_and, if_true] at hb ⊢
            split at hb <;> simp_all <;> omega
          · have : (id == r) = false := by simpa using hid
            simp [this]

end GS.RespLife
