import GSProofs.Lemmas.TaskQueueTick
/-!
Helper lemmas for C21, part 11: the per-peer cap invariant is inductive when every pushed task has
Work = 1 (as every PushTask call in go-graphsync does).
-/
namespace GS.TQ

/-- `Work: 1` on every pushed task (requestmanager/server.go, responsemanager/server.go) -/
def wfAct : Act → Prop
  | .push _ t => t.work = 1
  | _ => True

theorem CapInv.init (w cap : Nat) : CapInv (Sys.init w cap).q := by
  refine ⟨?_, ?_, ?_⟩ <;> simp [Sys.init]

theorem CapInv.of_desc {q q' : PTQ} (h : CapInv q) (hc : q'.cap = q.cap)
    (hd : ∀ t' ∈ q'.peers, (∃ t ∈ q.peers, Work1 t.pending → Work1 t'.pending) ∧
      ((∃ t ∈ q.peers, t'.active = t.active) ∨ t'.active = [])) : CapInv q' := by
  refine ⟨?_, ?_, ?_⟩
  · intro t' ht'
    obtain ⟨⟨t, ht, hw⟩, _⟩ := hd t' ht'
    exact hw (h.pend t ht)
  · intro t' ht'
    rcases (hd t' ht').2 with ⟨t, ht, ha⟩ | ha
    · rw [ha]; exact h.act t ht
    · rw [ha]; intro x hx; cases hx
  · intro hpos t' ht'
    rw [hc] at hpos ⊢
    rcases (hd t' ht').2 with ⟨t, ht, ha⟩ | ha
    · rw [ha]; exact h.bound hpos t ht
    · rw [ha]; simp

theorem CapInv.thaw {q : PTQ} (h : CapInv q) : CapInv (thaw q) := by
  obtain ⟨_, _, _, hd, hc⟩ := thaw_facts q
  apply h.of_desc hc
  intro t' ht'
  obtain ⟨t, ht, _, hp, ha, _⟩ := hd t' ht'
  exact ⟨⟨t, ht, fun hw => by rw [hp]; exact hw⟩, Or.inl ⟨t, ht, ha⟩⟩

theorem CapInv.pop {q : PTQ} (h : CapInv q) : CapInv (pop q 1).1 := by
  rcases pop_cases q 1 with ⟨_, hpop⟩ | ⟨tr, hpk, _, _, hcap, _, hcase⟩
  · rw [hpop]; exact h
  · obtain ⟨htr, _⟩ := peek_some hpk
    obtain ⟨_, _, new, _, hact, _, hpsub, hnsub⟩ := popLoop_spec q.cap 1 (tr.pending.length + 1) tr [] 0
    have hbound := fun hpos => popLoop_cap q.cap 1 hpos (tr.pending.length + 1) tr [] 0
      (h.pend tr htr) (h.act tr htr) (h.bound hpos tr htr)
    generalize popLoop q.cap 1 (tr.pending.length + 1) tr [] 0 = r at *
    rcases hcase with ⟨hp, _, _, _⟩ | ⟨hp, _⟩
    · refine ⟨?_, ?_, ?_⟩
      · intro t ht; rw [hp] at ht; exact h.pend t (mem_eraseT ht).1
      · intro t ht; rw [hp] at ht; exact h.act t (mem_eraseT ht).1
      · intro hpos t ht; rw [hp] at ht; rw [hcap] at hpos ⊢; exact h.bound hpos t (mem_eraseT ht).1
    · refine ⟨?_, ?_, ?_⟩
      · intro t ht; rw [hp] at ht
        rcases mem_setT ht with ⟨h1, _⟩ | rfl
        · exact h.pend t h1
        · intro x hx; exact h.pend tr htr x (hpsub x hx)
      · intro t ht; rw [hp] at ht
        rcases mem_setT ht with ⟨h1, _⟩ | rfl
        · exact h.act t h1
        · intro x hx
          rw [hact] at hx
          rcases List.mem_append.mp hx with hx | hx
          · exact h.act tr htr x hx
          · exact h.pend tr htr x (hnsub x hx)
      · intro hpos t ht; rw [hp] at ht; rw [hcap] at hpos ⊢
        rcases mem_setT ht with ⟨h1, _⟩ | rfl
        · exact h.bound hpos t h1
        · exact hbound hpos

theorem CapInv.step {s s' : Sys} {a : Act} (h : CapInv s.q) (hw : wfAct a)
    (hs : step s a = some s') : CapInv s'.q := by
  cases a with
  | push p t =>
    simp only [GS.TQ.step] at hs
    split at hs
    · cases hs
    · cases hs
      obtain ⟨base, hb, hp, _, hc, _⟩ := push_peers s.q p t
      have hbase : ∀ t0 ∈ base, t0 ∈ s.q.peers ∨ (t0.pending = [] ∧ t0.active = []) := by
        intro t0 ht0
        rcases hb with rfl | rfl
        · exact Or.inl ht0
        · rcases List.mem_append.mp ht0 with h1 | h1
          · exact Or.inl h1
          · simp at h1; subst h1; exact Or.inr ⟨rfl, rfl⟩
      have hw1 : t.work = 1 := hw
      refine ⟨?_, ?_, ?_⟩
      · intro tr htr
        show Work1 tr.pending
        have htr' : tr ∈ (GS.TQ.push s.q p t).peers := htr
        rw [hp] at htr'
        obtain ⟨t0, ht0, hc0⟩ := mem_modifyT htr'
        have hold : Work1 t0.pending := by
          rcases hbase t0 ht0 with h1 | ⟨h1, _⟩
          · exact h.pend t0 h1
          · rw [h1]; intro x hx; cases hx
        rcases hc0 with ⟨_, rfl⟩ | ⟨_, rfl⟩
        · exact hold
        · intro x hx
          rcases mergePending_mem t0 t hx with ⟨hxw, _⟩ | ⟨y, hy, _, _, hyw⟩
          · rw [hxw]; exact hw1
          · rw [hyw]; exact hold y hy
      · intro tr htr
        show Work1 tr.active
        have htr' : tr ∈ (GS.TQ.push s.q p t).peers := htr
        rw [hp] at htr'
        obtain ⟨t0, ht0, hc0⟩ := mem_modifyT htr'
        have hold : Work1 t0.active := by
          rcases hbase t0 ht0 with h1 | ⟨_, h1⟩
          · exact h.act t0 h1
          · rw [h1]; intro x hx; cases hx
        rcases hc0 with ⟨_, rfl⟩ | ⟨_, rfl⟩
        · exact hold
        · rw [mergePending_active]; exact hold
      · intro hpos tr htr
        show tr.active.length ≤ (GS.TQ.push s.q p t).cap
        have htr' : tr ∈ (GS.TQ.push s.q p t).peers := htr
        have hpos' : 0 < (GS.TQ.push s.q p t).cap := hpos
        rw [hc] at hpos' ⊢
        rw [hp] at htr'
        obtain ⟨t0, ht0, hc0⟩ := mem_modifyT htr'
        have hold : t0.active.length ≤ s.q.cap := by
          rcases hbase t0 ht0 with h1 | ⟨_, h1⟩
          · exact h.bound hpos' t0 h1
          · rw [h1]; simp
        rcases hc0 with ⟨_, rfl⟩ | ⟨_, rfl⟩
        · exact hold
        · rw [mergePending_active]; exact hold
  | remove p topic =>
    simp only [GS.TQ.step] at hs
    cases hs
    obtain ⟨hc, hcap, _⟩ := remove_peers s.q p topic
    have hmod : ∀ fr, ∀ t' ∈ modifyT s.q.peers p (removeT topic fr),
        (∃ t ∈ s.q.peers, Work1 t.pending → Work1 t'.pending) ∧
        ((∃ t ∈ s.q.peers, t'.active = t.active) ∨ t'.active = []) := by
      intro fr t' ht'
      obtain ⟨t0, ht0, hc0⟩ := mem_modifyT ht'
      rcases hc0 with ⟨_, rfl⟩ | ⟨_, rfl⟩
      · exact ⟨⟨_, ht0, id⟩, Or.inl ⟨_, ht0, rfl⟩⟩
      · refine ⟨⟨t0, ht0, ?_⟩, Or.inl ⟨t0, ht0, rfl⟩⟩
        intro hw1 x hx
        exact hw1 x (List.mem_filter.mp hx).1
    rcases hc with ⟨hp, _⟩ | ⟨hp, _⟩ | ⟨hp, _⟩
    · exact ⟨by rw [hp]; exact h.pend, by rw [hp]; exact h.act, by rw [hp, hcap]; exact h.bound⟩
    · apply h.of_desc hcap; rw [hp]; exact hmod false
    · apply h.of_desc hcap; rw [hp]; exact hmod true
  | pop i =>
    simp only [GS.TQ.step] at hs
    split at hs
    · cases hs; exact h.pop
    · cases hs
  | sig i =>
    simp only [GS.TQ.step] at hs
    split at hs
    · split at hs
      · cases hs; exact h.pop
      · cases hs
    · cases hs
  | tick i =>
    simp only [GS.TQ.step] at hs
    split at hs
    · cases hs; exact h.thaw.pop
    · cases hs
  | done i =>
    simp only [GS.TQ.step] at hs
    split at hs
    · rename_i p cur rest _
      cases hs
      obtain ⟨hc, _, hcap, _⟩ := done_peers s.q p cur.uid
      rcases hc with ⟨_, hp⟩ | hp
      · exact ⟨by rw [hp]; exact h.pend, by rw [hp]; exact h.act, by rw [hp, hcap]; exact h.bound⟩
      · refine ⟨?_, ?_, ?_⟩
        · intro tr htr
          have htr' : tr ∈ (GS.TQ.done s.q p cur.uid).peers := htr
          rw [hp] at htr'
          obtain ⟨t0, ht0, hc0⟩ := mem_modifyT htr'
          rcases hc0 with ⟨_, rfl⟩ | ⟨_, rfl⟩
          · exact h.pend _ ht0
          · exact h.pend t0 ht0
        · intro tr htr
          have htr' : tr ∈ (GS.TQ.done s.q p cur.uid).peers := htr
          rw [hp] at htr'
          obtain ⟨t0, ht0, hc0⟩ := mem_modifyT htr'
          rcases hc0 with ⟨_, rfl⟩ | ⟨_, rfl⟩
          · exact h.act _ ht0
          · intro x hx; exact h.act t0 ht0 x (List.mem_of_mem_eraseP hx)
        · intro hpos tr htr
          have htr' : tr ∈ (GS.TQ.done s.q p cur.uid).peers := htr
          have hpos' : 0 < (GS.TQ.done s.q p cur.uid).cap := hpos
          show tr.active.length ≤ (GS.TQ.done s.q p cur.uid).cap
          rw [hcap] at hpos' ⊢
          rw [hp] at htr'
          obtain ⟨t0, ht0, hc0⟩ := mem_modifyT htr'
          rcases hc0 with ⟨_, rfl⟩ | ⟨_, rfl⟩
          · exact h.bound hpos' _ ht0
          · have := h.bound hpos' t0 ht0
            have h2 : (t0.active.eraseP (·.uid == cur.uid)).length ≤ t0.active.length := List.length_eraseP_le
            exact Nat.le_trans h2 this
    · cases hs
  | ret i =>
    simp only [GS.TQ.step] at hs
    split at hs
    · cases hs; exact h
    · cases hs; exact h
    · cases hs

theorem CapInv.runList {s s' : Sys} {as : List Act} (h : CapInv s.q) (hw : ∀ a ∈ as, wfAct a)
    (hr : runList s as = some s') : CapInv s'.q := by
  induction as generalizing s with
  | nil => simp [GS.TQ.runList] at hr; subst hr; exact h
  | cons a as ih =>
    simp only [GS.TQ.runList] at hr
    split at hr
    · rename_i s1 hs1
      exact ih (h.step (hw a (by simp)) hs1) (fun b hb => hw b (by simp [hb])) hr
    · cases hr

/-- a running traversal is owed a TaskDone -/
theorem runningFor_le_held (ws : List WSt) (p : Nat) :
    (ws.filter (isRunningFor p)).length ≤ sumBy (heldLen p) ws := by
  induction ws with
  | nil => simp [sumBy]
  | cons w ws ih =>
    simp only [List.filter, sumBy]
    cases hw : isRunningFor p w with
    | false => simp only []; omega
    | true =>
      simp only [List.length_cons]
      have : 1 ≤ heldLen p w := by
        cases w with
        | idle => simp [isRunningFor] at hw
        | ready => simp [isRunningFor] at hw
        | exec q cur d rest =>
          cases d with
          | true => simp [isRunningFor] at hw
          | false =>
            simp [isRunningFor] at hw
            simp [heldLen, hw]
      omega

end GS.TQ
