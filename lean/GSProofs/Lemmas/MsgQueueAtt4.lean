import GSProofs.Lemmas.MsgQueueAtt3
/-!
# Message queue: attachments — callers' steps and extraction
-/
namespace GS.MQ
open GS.Alloc

theorem W.of_out {f : Req → Sub} {u : Sub} {t : Nat} {r : Req} {n0 : Nat} {s s' : State} (o : Out f s s')
    (hb : ∀ b ∈ s.builders, BFun f b) (h : W u t r n0 s) : W u t r n0 s' := by
  rcases h with ⟨h, hn⟩ | h | h
  · rcases (o.att hb).2 u t r h with h' | h'
    · exact Or.inl ⟨h', Nat.le_trans hn (errCount_mono o.log u)⟩
    · exact Or.inr (Or.inr ⟨h'.1, Nat.lt_of_le_of_lt hn h'.2⟩)
  · exact Or.inr (Or.inl ((seq_mono o.log u t).1 h))
  · exact Or.inr (Or.inr (h.mono o.closed o.log))

theorem allocStep_out (pick : Pick) (f : Req → Sub) (s : State) (op : Alloc.Op) : Out f s (s.allocStep pick op).1 :=
  Out.same f rfl rfl (allocStep_wcore pick s op) ⟨_, rfl⟩

theorem mem_foldl_insertSub (subs init : List Sub) (u : Sub) :
    u ∈ subs.foldl insertSub init ↔ u ∈ init ∨ u ∈ subs := by
  induction subs generalizing init with
  | nil => simp
  | cons x r ih =>
    simp only [List.foldl_cons]
    rw [ih]
    unfold insertSub
    by_cases hc : init.contains x = true
    · rw [if_pos hc]
      have : x ∈ init := List.contains_iff_mem.mp hc
      constructor
      · rintro (h | h)
        · exact Or.inl h
        · exact Or.inr (List.mem_cons_of_mem _ h)
      · rintro (h | h)
        · exact Or.inl h
        · rcases List.mem_cons.mp h with rfl | h
          · exact Or.inl this
          · exact Or.inr h
    · rw [if_neg hc]
      constructor
      · rintro (h | h)
        · rcases List.mem_append.mp h with h | h
          · exact Or.inl h
          · simp at h; subst h; exact Or.inr (by simp)
        · exact Or.inr (List.mem_cons_of_mem _ h)
      · rintro (h | h)
        · exact Or.inl (List.mem_append_left _ h)
        · rcases List.mem_cons.mp h with rfl | h
          · exact Or.inl (by simp)
          · exact Or.inr h

theorem mem_dedupSubs (subs : List (Req × Sub)) (u : Sub) : u ∈ dedupSubs subs ↔ ∃ r, (r, u) ∈ subs := by
  unfold dedupSubs
  have key : ∀ (l : List (Req × Sub)) (acc : List Sub),
      u ∈ l.foldl (fun acc e => insertSub acc e.2) acc ↔ u ∈ acc ∨ ∃ r, (r, u) ∈ l := by
    intro l
    induction l with
    | nil => intro acc; simp
    | cons e r ih =>
      intro acc
      simp only [List.foldl_cons]
      rw [ih]
      have hi : u ∈ insertSub acc e.2 ↔ u ∈ acc ∨ u = e.2 := by
        unfold insertSub; split
        · next hc =>
          have : e.2 ∈ acc := List.contains_iff_mem.mp hc
          constructor
          · exact fun h => Or.inl h
          · rintro (h | h)
            · exact h
            · rw [h]; exact this
        · simp
      rw [hi]
      constructor
      · rintro ((h | h) | ⟨q, hq⟩)
        · exact Or.inl h
        · exact Or.inr ⟨e.1, by rw [h]; simp⟩
        · exact Or.inr ⟨q, List.mem_cons_of_mem _ hq⟩
      · rintro (h | ⟨q, hq⟩)
        · exact Or.inl (Or.inl h)
        · rcases List.mem_cons.mp hq with h | h
          · exact Or.inl (Or.inr (by rw [← h]))
          · exact Or.inr ⟨q, h⟩
  rw [key]; simp

/-- extraction from the idle phase, in detail -/
theorem extract_detail {s : State} (hi : Idle s) {s1 : State} {m : InFlight} (he : s.extract = (s1, some m)) :
    ∃ pre b U, s.builders = pre ++ b :: s1.builders ∧ (∀ x ∈ pre, x.empty = true) ∧ m.topic = b.topic ∧
      m.streams = b.streams.map (·.1) ∧ Mid s1 m U [] true ∧ (∀ u, u ∈ U ↔ ∃ r, (r, u) ∈ b.subs) ∧
      s1.closedStreams = s.closedStreams ∧ s1.waiters = s.waiters ∧ s1.log = s.log := by
  obtain ⟨U, hm⟩ := hi.extract.2 s1 m he
  obtain ⟨pre, hpre, hemp⟩ := dropEmpty_pre s.builders
  unfold State.extract at he
  cases hd : dropEmpty s.builders with
  | nil => rw [hd] at he; simp at he
  | cons b rest =>
    rw [hd] at he
    simp only [Prod.mk.injEq, Option.some.injEq] at he
    obtain ⟨he1, he2⟩ := he
    have f := subscribe_frame ({ s with builders := rest, token := s.token || !rest.isEmpty }) b.topic (dedupSubs b.subs)
    have hsub := subscribe_log (s := { s with builders := rest, token := s.token || !rest.isEmpty }) hi.open_ b.topic (dedupSubs b.subs)
    have htop : s1.topics = [(b.topic, (dedupSubs b.subs).foldl insertSub [])] := by
      rw [← he1, hsub.2.1]
      show aset s.topics b.topic _ = _
      rw [hi.topics]; simp [aset, aget]
    have hmt : m.topic = b.topic := by rw [← he2]
    have hU : U = (dedupSubs b.subs).foldl insertSub [] := by
      have := hm.topics
      rw [htop, hmt] at this
      simp at this
      exact this.symm
    refine ⟨pre, b, U, ?_, hemp, hmt, by rw [← he2], hm, ?_, ?_, ?_, ?_⟩
    · rw [← he1, f.builders]; rw [hd] at hpre; exact hpre
    · intro u
      rw [hU, mem_foldl_insertSub, mem_dedupSubs]; simp
    · rw [← he1, f.closedStreams]
    · rw [← he1, f.waiters]
    · rw [← he1, hsub.1]

end GS.MQ
