import GS.Model.Cbor
import GSProofs.Lemmas.Varint
/-! CBOR heads: `decodeArg` inverts `encodeHead`. -/
namespace GS.Cbor

theorem beBytes_length : ∀ (k n : Nat), (beBytes k n).length = k
  | 0, _ => rfl
  | k + 1, n => by simp [beBytes, beBytes_length k n]

theorem foldl_beBytes : ∀ (k n acc : Nat),
    (beBytes k n).foldl (fun acc b => acc * 256 + b.toNat) acc = acc * 256 ^ k + n % 256 ^ k
  | 0, n, acc => by simp [beBytes, Nat.mod_one]
  | k + 1, n, acc => by
    simp only [beBytes, List.foldl_cons]
    rw [foldl_beBytes k n]
    have h1 : (UInt8.ofNat (n / 256 ^ k)).toNat = n / 256 ^ k % 256 := by
      simp [UInt8.toNat_ofNat]
    rw [h1]
    have h2 : n % 256 ^ (k + 1) = n % 256 ^ k + 256 ^ k * (n / 256 ^ k % 256) := by
      rw [Nat.pow_succ, Nat.mod_mul]
    rw [h2, Nat.pow_succ]
    generalize 256 ^ k = P
    generalize n / P % 256 = q
    generalize n % P = r
    grind

theorem beNat_beBytes (k n : Nat) (h : n < 256 ^ k) : beNat (beBytes k n) = n := by
  unfold beNat
  rw [foldl_beBytes, Nat.mod_eq_of_lt h]; simp

theorem takeN_append (xs rest : Bytes) : takeN xs.length (xs ++ rest) = some (xs, rest) := by
  unfold takeN
  simp

theorem takeN_beBytes (k n : Nat) (rest : Bytes) :
    takeN k (beBytes k n ++ rest) = some (beBytes k n, rest) := by
  have := takeN_append (beBytes k n) rest
  rwa [beBytes_length] at this

/-- shape of an encoded head: first byte carries the major type, and the argument decodes back -/
theorem encodeHead_spec (m n : Nat) (hm : m < 8) (hn : n < 18446744073709551616) (rest : Bytes) :
    ∃ b tail, encodeHead m n = b :: tail ∧ b.toNat / 32 = m ∧
      decodeArg (b.toNat % 32) (tail ++ rest) = some (n, rest) := by
  unfold encodeHead
  by_cases h1 : n < 24
  · refine ⟨UInt8.ofNat (m * 32 + n), [], by rw [if_pos h1], ?_, ?_⟩
    · rw [toNat_ofNat_lt (by omega)]; omega
    · rw [toNat_ofNat_lt (by omega)]
      have : (m * 32 + n) % 32 = n := by omega
      simp [decodeArg, this, h1]
  · by_cases h2 : n < 256
    · refine ⟨UInt8.ofNat (m * 32 + 24), [UInt8.ofNat n], by rw [if_neg h1, if_pos h2], ?_, ?_⟩
      · rw [toNat_ofNat_lt (by omega)]; omega
      · rw [toNat_ofNat_lt (by omega)]
        have : (m * 32 + 24) % 32 = 24 := by omega
        have hb : beNat [UInt8.ofNat n] = n := by
          simp [beNat, toNat_ofNat_lt h2]
        have ht : takeN 1 (UInt8.ofNat n :: rest) = some ([UInt8.ofNat n], rest) := by
          simp [takeN]
        simp only [decodeArg, this, List.cons_append, List.nil_append, ht, hb]
        simp [h1]
    · by_cases h3 : n < 65536
      · refine ⟨UInt8.ofNat (m * 32 + 25), beBytes 2 n, by rw [if_neg h1, if_neg h2, if_pos h3], ?_, ?_⟩
        · rw [toNat_ofNat_lt (by omega)]; omega
        · rw [toNat_ofNat_lt (by omega)]
          have : (m * 32 + 25) % 32 = 25 := by omega
          simp only [decodeArg, this, takeN_beBytes, beNat_beBytes 2 n (by omega)]
          simp [h2]
      · by_cases h4 : n < 4294967296
        · refine ⟨UInt8.ofNat (m * 32 + 26), beBytes 4 n, by rw [if_neg h1, if_neg h2, if_neg h3, if_pos h4], ?_, ?_⟩
          · rw [toNat_ofNat_lt (by omega)]; omega
          · rw [toNat_ofNat_lt (by omega)]
            have : (m * 32 + 26) % 32 = 26 := by omega
            simp only [decodeArg, this, takeN_beBytes, beNat_beBytes 4 n (by omega)]
            simp [h3]
        · refine ⟨UInt8.ofNat (m * 32 + 27), beBytes 8 n, by rw [if_neg h1, if_neg h2, if_neg h3, if_neg h4], ?_, ?_⟩
          · rw [toNat_ofNat_lt (by omega)]; omega
          · rw [toNat_ofNat_lt (by omega)]
            have : (m * 32 + 27) % 32 = 27 := by omega
            simp only [decodeArg, this, takeN_beBytes, beNat_beBytes 8 n (by omega)]
            simp [h4]

theorem encodeHead_length_pos (m n : Nat) : 0 < (encodeHead m n).length := by
  unfold encodeHead
  split <;> (try split) <;> (try split) <;> (try split) <;> simp

end GS.Cbor
