import GS.Model.Wire
import GSProofs.Lemmas.WireKV
/-! The bindnode layer: `valToBMsg` inverts `bmsgToVal` up to the sorting the codec performs. -/
namespace GS.Wire
open GS.Cbor GS.Generated

/-! ### facts about the generated tables (re-checked whenever the schema or the constants change) -/

theorem reqKeys_nodup : Schema.reqKeys.Nodup := by decide
theorem rspKeys_nodup : Schema.rspKeys.Nodup := by decide
theorem msgKeys_nodup : Schema.msgKeys.Nodup := by decide
theorem reqFields_wire : Schema.reqFields.map (·.2) = Schema.reqKeys := by decide
theorem rspFields_wire : Schema.rspFields.map (·.2) = Schema.rspKeys := by decide
theorem msgFields_wire : Schema.msgFields.map (·.2) = Schema.msgKeys := by decide
theorem requestTypeEnum_wire_nodup : (Schema.requestTypeEnum.map (·.2)).Nodup := by decide
theorem linkActionEnum_wire_nodup : (Schema.linkActionEnum.map (·.2)).Nodup := by decide

/-! ### what the schema layer returns -/

def normBReq (r : BReq) : BReq :=
  { r with pri := r.pri.map wrap32, sel := r.sel.map sortVal, ext := r.ext.map normExts }

def normBRsp (r : BRsp) : BRsp := { r with ext := r.ext.map normExts }

def normB (b : BMsg) : BMsg :=
  { req := b.req.map (·.map normBReq), rsp := b.rsp.map (·.map normBRsp), blk := b.blk }

theorem sortValList_eq_map : ∀ (xs : List Val), sortValList xs = xs.map sortVal
  | [] => rfl
  | x :: xs => by simp [sortValList, sortValList_eq_map xs]

theorem sortVal_intToVal (z : Int) : sortVal (intToVal z) = intToVal z := by
  unfold intToVal; split <;> rfl

theorem valToInt_intToVal (z : Int) : valToInt (intToVal z) = some z := by
  unfold intToVal
  split
  · rename_i h
    simp only [valToInt, Option.some.injEq]
    exact Int.toNat_of_nonneg h
  · rename_i h
    simp only [valToInt, Option.some.injEq]
    have : Int.ofNat (-z - 1).toNat = -z - 1 := Int.toNat_of_nonneg (by omega)
    rw [this]; omega

theorem sortVal_ne_null {v : Val} (h : v ≠ .null) : sortVal v ≠ .null := by
  cases v <;> simp [sortVal] at h ⊢

theorem valNonNull_of_ne {v : Val} (h : v ≠ .null) : valNonNull v = some v := by
  cases v <;> simp [valNonNull] at h ⊢

/-- `k` is none of the literal keys of a short explicit list (closed after simp: decided by evaluation) -/
macro "keyNotIn" : tactic => `(tactic|
  (intro hm; simp only [List.map_cons, List.map_nil, List.mem_cons, List.not_mem_nil, or_false] at hm
   revert hm; decide))

/-! ### requests -/

/-- the entries bindnode emits for a request -/
def reqEntries (r : BReq) (t : Bytes) : List (Bytes × Val) :=
  [(Schema.req_id, .bytes r.id), (Schema.req_requestType, .text t)]
    ++ optEntry Schema.req_priority (r.pri.map intToVal)
    ++ optEntry Schema.req_root (r.root.map .link)
    ++ optEntry Schema.req_selector r.sel
    ++ optEntry Schema.req_extensions (r.ext.map fun es => .map (extsToKVs es))

theorem reqEntries_keys_sublist (r : BReq) (t : Bytes) :
    ((reqEntries r t).map (·.1)).Sublist Schema.reqKeys := by
  have : Schema.reqKeys = [Schema.req_id, Schema.req_requestType] ++ [Schema.req_priority] ++ [Schema.req_root]
      ++ [Schema.req_selector] ++ [Schema.req_extensions] := rfl
  rw [this]
  simp only [reqEntries, List.map_append]
  exact ((((List.Sublist.refl _).append (optEntry_keys_sublist _ _)).append (optEntry_keys_sublist _ _)).append
    (optEntry_keys_sublist _ _)).append (optEntry_keys_sublist _ _)

theorem reqEntries_keys_nodup (r : BReq) (t : Bytes) : ((reqEntries r t).map (·.1)).Nodup :=
  reqKeys_nodup.sublist (reqEntries_keys_sublist r t)

theorem valToBReq_sort (r : BReq) (v : Val) (h : breqToVal r = some v) (hsel : r.sel ≠ some .null) :
    valToBReq (sortVal v) = some (normBReq r) := by
  unfold breqToVal at h
  cases ht : enumEncode Schema.requestTypeEnum r.type with
  | none => rw [ht] at h; cases h
  | some t =>
    rw [ht] at h
    simp only [Option.some.injEq] at h
    have hv : v = .map (reqEntries r t) := h.symm
    subst hv
    have hn := reqEntries_keys_nodup r t
    simp only [sortVal, valToBReq]
    -- all keys are wire keys
    have hcan : canonKeys Schema.reqFields (sortKVs (sortValKVs (reqEntries r t)))
        = some (sortKVs (sortValKVs (reqEntries r t))) := by
      apply canonKeys_id
      intro k hk
      rw [reqFields_wire]
      exact (reqEntries_keys_sublist r t).subset (sorted_keys_mem.1 hk)
    rw [hcan]
    simp only
    -- id
    have hid : fieldOf Schema.req_id (sortKVs (sortValKVs (reqEntries r t))) valToBytes = some (some r.id) := by
      rw [fieldOf_sorted_present valToBytes hn (v := .bytes r.id) (by simp [reqEntries])]
      simp [sortVal, valToBytes]
    -- type
    have hty : fieldOf Schema.req_requestType (sortKVs (sortValKVs (reqEntries r t))) valToReqType
        = some (some r.type) := by
      rw [fieldOf_sorted_present _ hn (v := .text t) (by simp [reqEntries])]
      simp [sortVal, valToReqType, enumDecode_encode requestTypeEnum_wire_nodup ht]
    -- priority
    have hpri : fieldOf Schema.req_priority (sortKVs (sortValKVs (reqEntries r t))) valToPri
        = some (r.pri.map wrap32) := by
      cases hp : r.pri with
      | none =>
        apply fieldOf_sorted_absent
        simp only [reqEntries, hp, Option.map_none, List.map_append, List.mem_append, not_or]
        refine ⟨⟨⟨⟨by keyNotIn, by simp [optEntry]⟩, ?_⟩, ?_⟩, ?_⟩
        · exact not_mem_optEntry_keys (by decide) _
        · exact not_mem_optEntry_keys (by decide) _
        · exact not_mem_optEntry_keys (by decide) _
      | some p =>
        rw [fieldOf_sorted_present _ hn (v := intToVal p) (by simp [reqEntries, hp, optEntry])]
        simp [sortVal_intToVal, valToPri, valToInt_intToVal]
    -- root
    have hroot : fieldOf Schema.req_root (sortKVs (sortValKVs (reqEntries r t))) valToLink = some r.root := by
      cases hp : r.root with
      | none =>
        apply fieldOf_sorted_absent
        simp only [reqEntries, hp, Option.map_none, List.map_append, List.mem_append, not_or]
        refine ⟨⟨⟨⟨by keyNotIn, ?_⟩, by simp [optEntry]⟩, ?_⟩, ?_⟩
        · exact not_mem_optEntry_keys (by decide) _
        · exact not_mem_optEntry_keys (by decide) _
        · exact not_mem_optEntry_keys (by decide) _
      | some c =>
        rw [fieldOf_sorted_present _ hn (v := .link c) (by simp [reqEntries, hp, optEntry])]
        simp [sortVal, valToLink]
    -- selector
    have hsel' : fieldOf Schema.req_selector (sortKVs (sortValKVs (reqEntries r t))) valNonNull
        = some (r.sel.map sortVal) := by
      cases hp : r.sel with
      | none =>
        apply fieldOf_sorted_absent
        simp only [reqEntries, hp, List.map_append, List.mem_append, not_or]
        refine ⟨⟨⟨⟨by keyNotIn, ?_⟩, ?_⟩, by simp [optEntry]⟩, ?_⟩
        · exact not_mem_optEntry_keys (by decide) _
        · exact not_mem_optEntry_keys (by decide) _
        · exact not_mem_optEntry_keys (by decide) _
      | some s =>
        have hs : s ≠ .null := by intro e; apply hsel; rw [hp, e]
        rw [fieldOf_sorted_present _ hn (v := s) (by simp [reqEntries, hp, optEntry])]
        simp [valNonNull_of_ne (sortVal_ne_null hs)]
    -- extensions
    have hext : fieldOf Schema.req_extensions (sortKVs (sortValKVs (reqEntries r t))) valToExts
        = some (r.ext.map normExts) := by
      cases hp : r.ext with
      | none =>
        apply fieldOf_sorted_absent
        simp only [reqEntries, hp, Option.map_none, List.map_append, List.mem_append, not_or]
        refine ⟨⟨⟨⟨by keyNotIn, ?_⟩, ?_⟩, ?_⟩, by simp [optEntry]⟩
        · exact not_mem_optEntry_keys (by decide) _
        · exact not_mem_optEntry_keys (by decide) _
        · exact not_mem_optEntry_keys (by decide) _
      | some es =>
        rw [fieldOf_sorted_present _ hn (v := .map (extsToKVs es)) (by simp [reqEntries, hp, optEntry])]
        simp [sortVal, valToExts, normExts]
    rw [hid, hty, hpri, hroot, hsel', hext]
    rfl

/-! ### responses -/

theorem valToMd_sort (m : Bytes × Bytes) (v : Val) (h : mdToVal m = some v) :
    valToMd (sortVal v) = some m := by
  unfold mdToVal at h
  cases ha : enumEncode Schema.linkActionEnum m.2 with
  | none => rw [ha] at h; cases h
  | some a =>
    rw [ha] at h
    simp only [Option.some.injEq] at h
    subst h
    simp [sortVal, sortValList, valToMd, enumDecode_encode linkActionEnum_wire_nodup ha]

/-- element-wise round trip of a list -/
theorem allSome_sort_map {α β : Type} (enc : α → Option Val) (dec : Val → Option β) (nrm : α → β) :
    ∀ (as : List α) (vs : List Val),
    (∀ a ∈ as, ∀ v, enc a = some v → dec (sortVal v) = some (nrm a)) →
    allSome (as.map enc) = some vs → allSome ((sortValList vs).map dec) = some (as.map nrm)
  | [], vs, _, h => by
    simp only [List.map_nil, allSome, Option.some.injEq] at h
    subst h; rfl
  | a :: as, vs, hall, h => by
    simp only [List.map_cons] at h
    cases hea : enc a with
    | none => rw [hea] at h; simp [allSome] at h
    | some v =>
      rw [hea] at h
      simp only [allSome] at h
      cases hrest : allSome (as.map enc) with
      | none => rw [hrest] at h; cases h
      | some vs' =>
        rw [hrest] at h
        simp only [Option.some.injEq] at h
        subst h
        have h1 := hall a List.mem_cons_self v hea
        have h2 := allSome_sort_map enc dec nrm as vs' (fun a' ha' => hall a' (List.mem_cons_of_mem _ ha')) hrest
        simp only [sortValList, List.map_cons, allSome, h1, h2]

/-- an optional list field -/
theorem optList_sort {α β : Type} (enc : α → Option Val) (dec : Val → Option β) (nrm : α → β)
    (o : Option (List α)) (ov : Option Val)
    (hall : ∀ as, o = some as → ∀ a ∈ as, ∀ v, enc a = some v → dec (sortVal v) = some (nrm a))
    (h : optList enc o = some ov) :
    match ov with
    | none => o = none
    | some v => ∃ as, o = some as ∧ valToList dec (sortVal v) = some (as.map nrm) := by
  cases o with
  | none =>
    simp only [optList, Option.some.injEq] at h
    subst h; rfl
  | some as =>
    simp only [optList] at h
    cases hx : allSome (as.map enc) with
    | none => rw [hx] at h; cases h
    | some vs =>
      rw [hx] at h
      simp only [Option.some.injEq] at h
      subst h
      refine ⟨as, rfl, ?_⟩
      simp only [sortVal, valToList]
      exact allSome_sort_map enc dec nrm as vs (hall as rfl) hx

def rspEntries (r : BRsp) (st : Val) (mdv : Option Val) : List (Bytes × Val) :=
  [(Schema.rsp_id, .bytes r.id), (Schema.rsp_status, st)]
    ++ optEntry Schema.rsp_metadata mdv
    ++ optEntry Schema.rsp_extensions (r.ext.map fun es => .map (extsToKVs es))

theorem rspEntries_keys_sublist (r : BRsp) (st : Val) (mdv : Option Val) :
    ((rspEntries r st mdv).map (·.1)).Sublist Schema.rspKeys := by
  have : Schema.rspKeys = [Schema.rsp_id, Schema.rsp_status] ++ [Schema.rsp_metadata] ++ [Schema.rsp_extensions] := rfl
  rw [this]
  simp only [rspEntries, List.map_append]
  exact ((List.Sublist.refl _).append (optEntry_keys_sublist _ _)).append (optEntry_keys_sublist _ _)

theorem valToBRsp_sort (r : BRsp) (v : Val) (h : brspToVal r = some v) :
    valToBRsp (sortVal v) = some (normBRsp r) := by
  unfold brspToVal at h
  cases hst : statusToVal r.status with
  | none => rw [hst] at h; cases h
  | some st =>
  cases hmdv : optList mdToVal r.md with
  | none => rw [hst, hmdv] at h; cases h
  | some mdv =>
    rw [hst, hmdv] at h
    simp only [Option.some.injEq] at h
    -- the status value
    have hstv : st = .uint r.status.toNat ∧ 0 ≤ r.status ∧ Schema.statusEnum.contains r.status.toNat = true := by
      unfold statusToVal at hst
      split at hst
      · rename_i hc
        simp only [Option.some.injEq] at hst
        exact ⟨hst.symm, hc.1, hc.2⟩
      · cases hst
    have hv : v = .map (rspEntries r st mdv) := h.symm
    subst hv
    have hn : ((rspEntries r st mdv).map (·.1)).Nodup := rspKeys_nodup.sublist (rspEntries_keys_sublist r st mdv)
    simp only [sortVal, valToBRsp]
    have hcan : canonKeys Schema.rspFields (sortKVs (sortValKVs (rspEntries r st mdv)))
        = some (sortKVs (sortValKVs (rspEntries r st mdv))) := by
      apply canonKeys_id
      intro k hk
      rw [rspFields_wire]
      exact (rspEntries_keys_sublist r st mdv).subset (sorted_keys_mem.1 hk)
    rw [hcan]
    simp only
    have hid : fieldOf Schema.rsp_id (sortKVs (sortValKVs (rspEntries r st mdv))) valToBytes = some (some r.id) := by
      rw [fieldOf_sorted_present valToBytes hn (v := .bytes r.id) (by simp [rspEntries])]
      simp [sortVal, valToBytes]
    have hstat : fieldOf Schema.rsp_status (sortKVs (sortValKVs (rspEntries r st mdv))) valToStatus
        = some (some r.status) := by
      rw [fieldOf_sorted_present valToStatus hn (v := st) (by simp [rspEntries])]
      rw [hstv.1]
      simp only [sortVal, valToStatus, hstv.2.2, if_true]
      have : Int.ofNat r.status.toNat = r.status := Int.toNat_of_nonneg hstv.2.1
      rw [this]
    have hmeta : fieldOf Schema.rsp_metadata (sortKVs (sortValKVs (rspEntries r st mdv))) valToMdList
        = some r.md := by
      have hm := optList_sort mdToVal valToMd id r.md mdv (fun as _ a _ v hv => valToMd_sort a v hv) hmdv
      cases mdv with
      | none =>
        simp only at hm
        rw [hm]
        apply fieldOf_sorted_absent
        simp only [rspEntries, List.map_append, List.mem_append, not_or]
        refine ⟨⟨by keyNotIn, by simp [optEntry]⟩, ?_⟩
        exact not_mem_optEntry_keys (by decide) _
      | some mv =>
        obtain ⟨as, has, hdec⟩ := hm
        rw [fieldOf_sorted_present _ hn (v := mv) (by simp [rspEntries, optEntry])]
        simp only [valToMdList, hdec, has, List.map_id]
    have hext : fieldOf Schema.rsp_extensions (sortKVs (sortValKVs (rspEntries r st mdv))) valToExts
        = some (r.ext.map normExts) := by
      cases hp : r.ext with
      | none =>
        apply fieldOf_sorted_absent
        simp only [rspEntries, hp, Option.map_none, List.map_append, List.mem_append, not_or]
        refine ⟨⟨by keyNotIn, ?_⟩, by simp [optEntry]⟩
        exact not_mem_optEntry_keys (by decide) _
      | some es =>
        rw [fieldOf_sorted_present _ hn (v := .map (extsToKVs es)) (by simp [rspEntries, hp, optEntry])]
        simp [sortVal, valToExts, normExts]
    rw [hid, hstat, hmeta, hext]
    rfl

/-! ### blocks -/

theorem valToBBlk_sort (b : BBlk) : valToBBlk (sortVal (bblkToVal b)) = some b := by
  simp [bblkToVal, sortVal, sortValList, valToBBlk]

/-! ### the whole message -/

def msgEntries (rq rs bl : Option Val) : List (Bytes × Val) :=
  optEntry Schema.msg_requests rq ++ optEntry Schema.msg_responses rs ++ optEntry Schema.msg_blocks bl

theorem msgEntries_keys_sublist (rq rs bl : Option Val) :
    ((msgEntries rq rs bl).map (·.1)).Sublist Schema.msgKeys := by
  have : Schema.msgKeys = [Schema.msg_requests] ++ [Schema.msg_responses] ++ [Schema.msg_blocks] := rfl
  rw [this]
  simp only [msgEntries, List.map_append]
  exact ((optEntry_keys_sublist _ _).append (optEntry_keys_sublist _ _)).append (optEntry_keys_sublist _ _)

theorem valToBMsg_sort (b : BMsg) (v : Val) (h : bmsgToVal b = some v)
    (hsel : ∀ rs, b.req = some rs → ∀ r ∈ rs, r.sel ≠ some .null) :
    valToBMsg (sortVal v) = some (normB b) := by
  unfold bmsgToVal at h
  cases hrq : optList breqToVal b.req with
  | none => rw [hrq] at h; cases h
  | some rq =>
  cases hrs : optList brspToVal b.rsp with
  | none => rw [hrq, hrs] at h; cases h
  | some rs =>
  cases hbl : optList (fun b => some (bblkToVal b)) b.blk with
  | none => rw [hrq, hrs, hbl] at h; cases h
  | some bl =>
    rw [hrq, hrs, hbl] at h
    simp only [Option.some.injEq] at h
    have hv : v = .map [(Schema.rootKey, .map (msgEntries rq rs bl))] := h.symm
    subst hv
    have hn : ((msgEntries rq rs bl).map (·.1)).Nodup := msgKeys_nodup.sublist (msgEntries_keys_sublist rq rs bl)
    have hroot : sortVal (.map [(Schema.rootKey, .map (msgEntries rq rs bl))]) =
        .map [(Schema.rootKey, .map (sortKVs (sortValKVs (msgEntries rq rs bl))))] := by
      simp [sortVal, sortValKVs, sortKVs, insertKV]
    rw [hroot]
    simp only [valToBMsg, bne_self_eq_false, Bool.false_and, Bool.false_eq_true, if_false]
    have hcan : canonKeys Schema.msgFields (sortKVs (sortValKVs (msgEntries rq rs bl)))
        = some (sortKVs (sortValKVs (msgEntries rq rs bl))) := by
      apply canonKeys_id
      intro k hk
      rw [msgFields_wire]
      exact (msgEntries_keys_sublist rq rs bl).subset (sorted_keys_mem.1 hk)
    rw [hcan]
    simp only
    have h1 := optList_sort breqToVal valToBReq normBReq b.req rq
      (fun as has a ha v hv => valToBReq_sort a v hv (hsel as has a ha)) hrq
    have h2 := optList_sort brspToVal valToBRsp normBRsp b.rsp rs
      (fun as _ a _ v hv => valToBRsp_sort a v hv) hrs
    have h3 := optList_sort (fun b => some (bblkToVal b)) valToBBlk id b.blk bl
      (fun as _ a _ v hv => by simp only [Option.some.injEq] at hv; subst hv; exact valToBBlk_sort a) hbl
    have f1 : fieldOf Schema.msg_requests (sortKVs (sortValKVs (msgEntries rq rs bl))) (valToList valToBReq)
        = some (b.req.map (·.map normBReq)) := by
      cases rq with
      | none =>
        simp only at h1
        rw [h1]
        apply fieldOf_sorted_absent
        simp only [msgEntries, List.map_append, List.mem_append, not_or]
        exact ⟨⟨by simp [optEntry], not_mem_optEntry_keys (by decide) _⟩, not_mem_optEntry_keys (by decide) _⟩
      | some rv =>
        obtain ⟨as, has, hdec⟩ := h1
        rw [fieldOf_sorted_present _ hn (v := rv) (by simp [msgEntries, optEntry]), hdec, has]
        rfl
    have f2 : fieldOf Schema.msg_responses (sortKVs (sortValKVs (msgEntries rq rs bl))) (valToList valToBRsp)
        = some (b.rsp.map (·.map normBRsp)) := by
      cases rs with
      | none =>
        simp only at h2
        rw [h2]
        apply fieldOf_sorted_absent
        simp only [msgEntries, List.map_append, List.mem_append, not_or]
        exact ⟨⟨not_mem_optEntry_keys (by decide) _, by simp [optEntry]⟩, not_mem_optEntry_keys (by decide) _⟩
      | some rv =>
        obtain ⟨as, has, hdec⟩ := h2
        rw [fieldOf_sorted_present _ hn (v := rv) (by simp [msgEntries, optEntry]), hdec, has]
        rfl
    have f3 : fieldOf Schema.msg_blocks (sortKVs (sortValKVs (msgEntries rq rs bl))) (valToList valToBBlk)
        = some b.blk := by
      cases bl with
      | none =>
        simp only at h3
        rw [h3]
        apply fieldOf_sorted_absent
        simp only [msgEntries, List.map_append, List.mem_append, not_or]
        exact ⟨⟨not_mem_optEntry_keys (by decide) _, not_mem_optEntry_keys (by decide) _⟩, by simp [optEntry]⟩
      | some rv =>
        obtain ⟨as, has, hdec⟩ := h3
        rw [fieldOf_sorted_present _ hn (v := rv) (by simp [msgEntries, optEntry]), hdec, has]
        simp
    rw [f1, f2, f3]
    rfl

end GS.Wire
