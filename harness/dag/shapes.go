package dag

// Directed DAG family for the requestor-side components: a "fan" — a root map whose entries link
// to sub-DAGs built from pairwise DISTINCT blocks (no sharing), each a leaf or a list/map of links to
// distinct leaves (some of them inside an inline map, i.e. with multi-segment relative paths).
// Random DAGs from Gen share blocks heavily; shapes such as "two different subtrees the responder
// lacks, then more data" need independent subtrees.

import (
	"bytes"
	"fmt"
	"io"
	"math/rand"

	"github.com/ipfs/go-cid"
	"github.com/ipld/go-ipld-prime/datamodel"
	"github.com/ipld/go-ipld-prime/fluent"
	"github.com/ipld/go-ipld-prime/linking"
	cidlink "github.com/ipld/go-ipld-prime/linking/cid"
	"github.com/ipld/go-ipld-prime/node/basicnode"
	"github.com/ipld/go-ipld-prime/traversal/selector"
	"github.com/ipld/go-ipld-prime/traversal/selector/builder"
	mh "github.com/multiformats/go-multihash"
)

// GenFan builds a fan DAG (3..5 sub-DAGs below the root) and returns it with the explore-all selector.
func GenFan(r *rand.Rand) (*DAG, datamodel.Node) {
	d := &DAG{Data: map[cid.Cid][]byte{}, idx: map[cid.Cid]int{}}
	uniq := 0
	store := func(nd datamodel.Node, desc string) cid.Cid {
		var buf bytes.Buffer
		ls := cidlink.DefaultLinkSystem()
		ls.StorageWriteOpener = func(linking.LinkContext) (io.Writer, linking.BlockWriteCommitter, error) {
			return &buf, func(datamodel.Link) error { return nil }, nil
		}
		lp := cidlink.LinkPrototype{Prefix: cid.Prefix{Version: 1, Codec: 0x71, MhType: mh.SHA2_256, MhLength: 32}}
		l, err := ls.Store(linking.LinkContext{}, lp, nd)
		if err != nil {
			panic(err)
		}
		c := l.(cidlink.Link).Cid
		d.add(c, append([]byte{}, buf.Bytes()...), desc)
		return c
	}
	leaf := func() cid.Cid {
		uniq++
		return store(basicnode.NewString(fmt.Sprintf("fan-leaf-%d-%d", uniq, r.Intn(1<<30))), "leaf")
	}
	sub := func() cid.Cid {
		n := r.Intn(4) // 0 = the sub-DAG is a single leaf
		if n == 0 {
			return leaf()
		}
		var kids []cid.Cid
		for i := 0; i < n; i++ {
			kids = append(kids, leaf())
		}
		uniq++
		tag := uniq
		nd := fluent.MustBuildList(basicnode.Prototype.List, int64(n+1), func(la fluent.ListAssembler) {
			for _, k := range kids {
				if r.Intn(4) == 0 {
					kk := k
					la.AssembleValue().AssignNode(fluent.MustBuildMap(basicnode.Prototype.Map, 1, func(ma fluent.MapAssembler) {
						ma.AssembleEntry("l").AssignLink(cidlink.Link{Cid: kk})
					}))
				} else {
					la.AssembleValue().AssignLink(cidlink.Link{Cid: k})
				}
			}
			la.AssembleValue().AssignInt(int64(tag))
		})
		return store(nd, "list")
	}
	m := 3 + r.Intn(3)
	var subs []cid.Cid
	for i := 0; i < m; i++ {
		subs = append(subs, sub())
	}
	uniq++
	root := fluent.MustBuildMap(basicnode.Prototype.Map, int64(m+1), func(ma fluent.MapAssembler) {
		for i, c := range subs {
			ma.AssembleEntry(keys[i]).AssignLink(cidlink.Link{Cid: c})
		}
		ma.AssembleEntry("z").AssignInt(int64(uniq))
	})
	d.Root = store(root, "fan-root")
	ssb := builder.NewSelectorSpecBuilder(basicnode.Prototype.Any)
	return d, ssb.ExploreRecursive(selector.RecursionLimitNone(), ssb.ExploreAll(ssb.ExploreRecursiveEdge())).Node()
}
