import GS.Model.Wire
import GSProofs.Lemmas.WireBasic
import GSProofs.Lemmas.CborSort
/-! Lookup of struct fields in (sorted) key/value lists; enum tables. -/
namespace GS.Wire
open GS.Cbor

/-! ### lists with unique keys -/

theorem filter_key_of_not_mem {k : Bytes} : ∀ {l : List (Bytes × Val)},
    k ∉ l.map (·.1) → l.filter (fun kv => kv.1 == k) = []
  | [], _ => rfl
  | (k', v) :: rest, h => by
    simp only [List.map_cons, List.mem_cons, not_or] at h
    have hne : (k' == k) = false := by
      simp only [beq_eq_false_iff_ne, ne_eq]
      exact fun e => h.1 e.symm
    simp only [List.filter_cons, hne]
    exact filter_key_of_not_mem h.2

theorem filter_key_of_mem {k : Bytes} {v : Val} : ∀ {l : List (Bytes × Val)},
    (l.map (·.1)).Nodup → (k, v) ∈ l → l.filter (fun kv => kv.1 == k) = [(k, v)]
  | [], _, h => by cases h
  | (k', v') :: rest, hn, hm => by
    simp only [List.map_cons, List.nodup_cons] at hn
    rcases List.mem_cons.1 hm with h | h
    · cases h
      simp only [List.filter_cons, beq_self_eq_true, if_true]
      rw [filter_key_of_not_mem hn.1]
    · have hne : (k' == k) = false := by
        simp only [beq_eq_false_iff_ne, ne_eq]
        intro e
        subst e
        exact hn.1 (List.mem_map.2 ⟨(k', v), h, rfl⟩)
      simp only [List.filter_cons, hne]
      exact filter_key_of_mem hn.2 h

theorem fieldOf_present {α : Type} {k : Bytes} {v : Val} {l : List (Bytes × Val)} (f : Val → Option α)
    (hn : (l.map (·.1)).Nodup) (hm : (k, v) ∈ l) :
    fieldOf k l f = match f v with | some x => some (some x) | none => none := by
  unfold fieldOf
  rw [filter_key_of_mem hn hm]
  simp only [List.map_cons, List.map_nil]
  cases hfv : f v <;> simp [allSome]

theorem fieldOf_absent {α : Type} {k : Bytes} {l : List (Bytes × Val)} (f : Val → Option α)
    (hm : k ∉ l.map (·.1)) : fieldOf k l f = some none := by
  unfold fieldOf
  rw [filter_key_of_not_mem hm]
  simp [allSome]

theorem mem_sortValKVs {k : Bytes} {v : Val} : ∀ {l : List (Bytes × Val)},
    (k, v) ∈ l → (k, sortVal v) ∈ sortValKVs l
  | [], h => by cases h
  | (k', v') :: rest, h => by
    rcases List.mem_cons.1 h with h | h
    · cases h; simp [sortValKVs]
    · simp only [sortValKVs, List.mem_cons]
      exact Or.inr (mem_sortValKVs h)

/-- the sorted form of a map with unique keys: same keys (unique), values sorted -/
theorem sorted_keys_nodup {l : List (Bytes × Val)} (hn : (l.map (·.1)).Nodup) :
    ((sortKVs (sortValKVs l)).map (·.1)).Nodup := by
  have p := (sortKVs_perm (sortValKVs l)).map (·.1)
  rw [sortValKVs_keys] at p
  exact p.symm.nodup hn

theorem mem_sorted {k : Bytes} {v : Val} {l : List (Bytes × Val)} (h : (k, v) ∈ l) :
    (k, sortVal v) ∈ sortKVs (sortValKVs l) :=
  (sortKVs_perm _).mem_iff.2 (mem_sortValKVs h)

theorem sorted_keys_mem {k : Bytes} {l : List (Bytes × Val)} :
    k ∈ (sortKVs (sortValKVs l)).map (·.1) ↔ k ∈ l.map (·.1) := by
  have p := (sortKVs_perm (sortValKVs l)).map (·.1)
  rw [sortValKVs_keys] at p
  exact p.mem_iff

theorem fieldOf_sorted_present {α : Type} {k : Bytes} {v : Val} {l : List (Bytes × Val)} (f : Val → Option α)
    (hn : (l.map (·.1)).Nodup) (hm : (k, v) ∈ l) :
    fieldOf k (sortKVs (sortValKVs l)) f = match f (sortVal v) with | some x => some (some x) | none => none :=
  fieldOf_present f (sorted_keys_nodup hn) (mem_sorted hm)

theorem fieldOf_sorted_absent {α : Type} {k : Bytes} {l : List (Bytes × Val)} (f : Val → Option α)
    (hm : k ∉ l.map (·.1)) : fieldOf k (sortKVs (sortValKVs l)) f = some none :=
  fieldOf_absent f (fun h => hm (sorted_keys_mem.1 h))

/-! ### key resolution -/

theorem resolveKey_wire {fields : List (Bytes × Bytes)} {k : Bytes} (h : k ∈ fields.map (·.2)) :
    resolveKey fields k = some k := by
  unfold resolveKey
  obtain ⟨f, hf, hk⟩ := List.mem_map.1 h
  cases hfind : fields.find? (fun f => f.2 == k) with
  | none =>
    have := List.find?_eq_none.1 hfind f hf
    simp [hk] at this
  | some g =>
    have := List.find?_some hfind
    simp only [beq_iff_eq] at this
    simp [this]

theorem canonKeys_id {fields : List (Bytes × Bytes)} : ∀ {l : List (Bytes × Val)},
    (∀ k ∈ l.map (·.1), k ∈ fields.map (·.2)) → canonKeys fields l = some l
  | [], _ => rfl
  | (k, v) :: rest, h => by
    have hk : k ∈ fields.map (·.2) := h k (by simp)
    have hr : ∀ k' ∈ rest.map (·.1), k' ∈ fields.map (·.2) := fun k' hk' => h k' (by simp [hk'])
    simp only [canonKeys, resolveKey_wire hk, canonKeys_id hr]

/-! ### optional entries -/

theorem optEntry_keys_sublist (k : Bytes) (o : Option Val) : ((optEntry k o).map (·.1)).Sublist [k] := by
  cases o <;> simp [optEntry]

theorem not_mem_optEntry_keys {k k' : Bytes} (h : k ≠ k') (o : Option Val) : k ∉ (optEntry k' o).map (·.1) := by
  cases o <;> simp [optEntry, h]

/-! ### enum tables -/

theorem eq_of_mem_of_nodup_snd {α β : Type} : ∀ {l : List (α × β)} {a b : α × β},
    (l.map (·.2)).Nodup → a ∈ l → b ∈ l → a.2 = b.2 → a = b
  | [], _, _, _, h, _, _ => by cases h
  | x :: xs, a, b, hn, ha, hb, he => by
    simp only [List.map_cons, List.nodup_cons] at hn
    rcases List.mem_cons.1 ha with ha' | ha'
    · rcases List.mem_cons.1 hb with hb' | hb'
      · rw [ha', hb']
      · subst ha'
        exact absurd (List.mem_map.2 ⟨b, hb', he.symm⟩ : a.2 ∈ xs.map (·.2)) hn.1
    · rcases List.mem_cons.1 hb with hb' | hb'
      · subst hb'
        exact absurd (List.mem_map.2 ⟨a, ha', he⟩ : b.2 ∈ xs.map (·.2)) hn.1
      · exact eq_of_mem_of_nodup_snd hn.2 ha' hb' he

theorem enumDecode_encode {tbl : List (Bytes × Bytes)} {m w : Bytes} (hn : (tbl.map (·.2)).Nodup)
    (h : enumEncode tbl m = some w) : enumDecode tbl w = some m := by
  unfold enumEncode at h
  cases hf : tbl.find? (fun e => e.1 == m) with
  | none => rw [hf] at h; cases h
  | some e =>
    rw [hf] at h
    simp only [Option.some.injEq] at h
    have he1 : e.1 = m := by simpa using List.find?_some hf
    have hem : e ∈ tbl := List.mem_of_find?_eq_some hf
    unfold enumDecode
    cases hg : tbl.find? (fun e => e.2 == w) with
    | none =>
      have := List.find?_eq_none.1 hg e hem
      simp [h] at this
    | some g =>
      have hg2 : g.2 = w := by simpa using List.find?_some hg
      have hgm : g ∈ tbl := List.mem_of_find?_eq_some hg
      have : g = e := eq_of_mem_of_nodup_snd hn hgm hem (by rw [hg2, h])
      simp [this, he1]

end GS.Wire
