import GSProofs.Lemmas.MsgQueueLive4
/-!
# Message queue liveness, part 5: the select loop; the variant rule
-/
namespace GS.MQ
open GS.Alloc GS.Temporal

theorem cnt_le_of_mem_sorted {t : Nat} {pre rest : List Builder} {b : Builder}
    (hs : (topicsOf (pre ++ b :: rest)).Pairwise (· < ·))
    (hpre : ∀ x ∈ pre, x.empty = true)
    (hp : ∃ x ∈ pre ++ b :: rest, (x.topic : Nat) = t ∧ x.empty = false) :
    cnt t rest + 1 ≤ cnt t (pre ++ b :: rest) := by
  obtain ⟨x, hx, ht, he⟩ := hp
  have hbt : @LE.le Nat _ b.topic t := by
    rcases List.mem_append.mp hx with hx | hx
    · rw [hpre x hx] at he; cases he
    · rcases List.mem_cons.mp hx with rfl | hx
      · exact Nat.le_of_eq ht
      · rw [topicsOf_append, topicsOf_cons, List.pairwise_append] at hs
        have h2 := hs.2.1
        rw [List.pairwise_cons] at h2
        have hlt : @LT.lt Nat _ b.topic x.topic := h2.1 (x.topic : Nat) (List.mem_map.mpr ⟨x, hx, rfl⟩)
        have ht' : @Eq Nat x.topic t := ht
        omega
  rw [cnt_append, cnt_cons]
  simp only [hbt, if_true]
  omega

/-- one enabled iteration of the select loop -/
theorem run_live (pick : Pick) {t : Nat} {s : State} (h : LiveP t s) (pw : Bool) (hen : runEnabled s = true) :
    (LiveP t (s.run pick pw) ∨ LiveQ t (s.run pick pw)) ∧ V t (s.run pick pw) ≤ V t s ∧
    (LiveQ t (s.run pick pw) ∨ V t (s.run pick pw) < V t s) := by
  obtain ⟨hn, hti, hok, hrun, hp⟩ := h
  have hn' := run_ninv pick hn pw
  obtain ⟨peer, maxRetries, builders, nextTopic, token, done, sender, pc, closedStreams, waiters,
    nextTicket, topics, pubClosed, alloc, log⟩ := s
  cases pc with
  | idle =>
    -- the message is queued with content, hence the work signal is set
    have hq : ∃ x ∈ builders, (x.topic : Nat) = t ∧ x.empty = false := by
      rcases hp with hq | ⟨m, hm, _⟩
      · exact hq
      · cases hm
    have htok : token = true := by
      obtain ⟨x, hx, _, he⟩ := hq
      exact hti ⟨x, hx, he⟩
    subst htok
    have hsorted : (topicsOf builders).Pairwise (· < ·) := (hn.base (by simp)).sorted
    unfold State.run at hn' ⊢
    simp only at hn' ⊢
    by_cases hw : (!done || pw) = true
    · -- work
      have hc : (true && (!done || pw)) = true := by simp [hw]
      rw [if_pos hc] at hn' ⊢
      obtain ⟨e1, e2⟩ := extract_shape (⟨peer, maxRetries, builders, nextTopic, false, done, sender, .idle, closedStreams, waiters,
          nextTicket, topics, pubClosed, alloc, log⟩ : State)
      cases he : (⟨peer, maxRetries, builders, nextTopic, false, done, sender, .idle, closedStreams, waiters,
          nextTicket, topics, pubClosed, alloc, log⟩ : State).extract with
      | mk s1 om =>
        rw [he] at hn'
        cases om with
        | none =>
          exfalso
          obtain ⟨x, hx, _, hxe⟩ := hq
          have := (e1 s1 he).2.1 x hx
          rw [this] at hxe; cases hxe
        | some m =>
          obtain ⟨pre, b, hb, hpre, hbe, hmt, htk, hpc1, _, hmr1, _⟩ := e2 s1 m he
          have hb' : builders = pre ++ b :: s1.builders := hb
          have hcnt : cnt t s1.builders + 1 ≤ cnt t builders := by
            rw [hb']; exact cnt_le_of_mem_sorted (by rw [← hb']; exact hsorted) hpre (by rw [← hb']; exact hq)
          have hti1 : TI s1 := by
            intro ⟨x, hx, _⟩
            rw [htk]
            cases hr : s1.builders with
            | nil => rw [hr] at hx; cases hx
            | cons _ _ => simp
          have hmr : s1.maxRetries = maxRetries := hmr1
          -- the state after publishing Queued
          have f2 := publish_frame s1 m.topic Kind.queued
          have r2 : Res s1 (s1.publish m.topic Kind.queued) := Res.fields f2.builders f2.token f2.maxRetries
          simp only at hn' ⊢
          -- bound on the variant for any outcome whose queue is a sub-queue of s1's
          have bound : ∀ s' : State, Res s1 s' → rem maxRetries s'.pc ≤ 3 * maxRetries + 1 →
              V t s' < V t (⟨peer, maxRetries, builders, nextTopic, true, done, sender, .idle, closedStreams, waiters,
                nextTicket, topics, pubClosed, alloc, log⟩ : State) := by
            intro s' r hrem
            show cnt t s'.builders * (3 * s'.maxRetries + 3) + rem s'.maxRetries s'.pc <
              cnt t builders * (3 * maxRetries + 3) + 0
            rw [r.maxRetries, hmr]
            have c1 := r.cnt t
            have c2 := Nat.mul_le_mul_right (3 * maxRetries + 3) (Nat.le_trans (Nat.add_le_add_right c1 1) hcnt)
            have : (cnt t s'.builders + 1) * (3 * maxRetries + 3) = cnt t s'.builders * (3 * maxRetries + 3) + (3 * maxRetries + 3) := by
              rw [Nat.add_mul, Nat.one_mul]
            omega
          split at hn'
          · next hs =>
            rw [if_pos hs]
            -- attempt 0
            unfold State.attempt at hn' ⊢
            split at hn'
            · next hi =>
              rw [if_pos hi]
              have r' : Res s1 ({ (s1.publish m.topic Kind.queued).emit [Event.wire m.topic 0] with pc := .sending m 0 } : State) :=
                r2.trans (Res.fields rfl rfl rfl)
              have hv := bound _ r' (by simp only [rem]; omega)
              refine ⟨live_or_done t hn' (r'.ti hti1) ?_ ⟨by simp, by simp⟩, Nat.le_of_lt hv, Or.inr hv⟩
              show 0 < (s1.publish m.topic Kind.queued).maxRetries
              exact hi
            · next hi =>
              rw [if_neg hi]
              obtain ⟨g1, g2⟩ := finish_res ((s1.publish m.topic Kind.queued).publishError pick m) m
              have r' := (r2.trans (publishError_res pick _ m)).trans g1
              obtain ⟨o1, o2⟩ := idle_ok g2
              have hv := bound _ r' (by rw [g2]; simp [rem])
              exact ⟨live_or_done t hn' (r'.ti hti1) o1 o2, Nat.le_of_lt hv, Or.inr hv⟩
          · next hs =>
            rw [if_neg hs]
            have r' : Res s1 ({ s1.publish m.topic Kind.queued with pc := .opening m none } : State) :=
              r2.trans (Res.fields rfl rfl rfl)
            have hv := bound _ r' (by simp [rem])
            exact ⟨live_or_done t hn' (r'.ti hti1) trivial ⟨by simp, by simp⟩, Nat.le_of_lt hv, Or.inr hv⟩
    · -- the done branch: everything queued is failed, the queue is empty afterwards
      have hw' : (!done || pw) = false := by simpa using hw
      have hc : ¬ (true && (!done || pw)) = true := by simp [hw']
      have hd : done = true := by
        cases done with
        | true => rfl
        | false => simp at hw'
      subst hd
      rw [if_neg hc] at hn' ⊢
      simp only [if_true] at hn' ⊢
      have hnil := drain_builders_nil pick builders.length (⟨peer, maxRetries, builders, nextTopic, true, true, sender, .idle, closedStreams, waiters,
          nextTicket, topics, pubClosed, alloc, log⟩ : State) (Nat.le_refl _)
      generalize State.drain pick builders.length (⟨peer, maxRetries, builders, nextTopic, true, true, sender, .idle, closedStreams, waiters,
          nextTicket, topics, pubClosed, alloc, log⟩ : State) = s1 at hnil hn' ⊢
      have hbn : ({ (if s1.sender = true then s1.emit [Event.senderClosed] else s1) with pc := Pc.exiting } : State).builders = [] := by
        show (if s1.sender = true then s1.emit [Event.senderClosed] else s1).builders = []
        split
        · exact hnil
        · exact hnil
      have hQ : LiveQ t ({ (if s1.sender = true then s1.emit [Event.senderClosed] else s1) with pc := Pc.exiting } : State) := by
        intro hp'
        rcases hp' with ⟨x, hx, _⟩ | ⟨m, hm, _⟩
        · rw [hbn] at hx; cases hx
        · cases hm
      refine ⟨Or.inr hQ, ?_, Or.inl hQ⟩
      unfold V
      rw [hbn]
      simp [cnt, rem]
  | opening m r => simp [runEnabled] at hen
  | sending m i => simp [runEnabled] at hen
  | resetting m i => simp [runEnabled] at hen
  | exiting => simp [runEnabled] at hen
  | exited => simp [runEnabled] at hen

end GS.MQ
