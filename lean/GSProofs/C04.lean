import GS.Model.ReqLifecycle
import GS.Temporal
/-! # C04 — Every request's result channels terminate with the right outcome (work in progress) -/
namespace GS.C04
open GS.ReqLife GS.Generated

/-- the stage order of `terminateRequest` that the model mirrors is the one in the source. -/
theorem terminate_stages_match : ReqLifecycleSpec.terminateStages = modelTerminateStages := by decide

end GS.C04
