import GSProofs.Lemmas.MsgQueueNotes5
import GSProofs.Lemmas.MsgQueueLive6
import GSProofs.Lemmas.MsgQueueAtt6
/-!
# C16 — Every queued message is reported sent or failed exactly once

Property text: "While a GraphSync instance runs, every message queued for a peer is eventually
reported either sent or failed, exactly once, to each party that attached itself to it, including
when sending fails, retries run out, the peer cannot be reached, or the peer's queue shuts down while
data is being queued."

Model: `GS.MQ` (lean/GS/Model/MsgQueue.lean).  A message is a builder, identified by its topic; the
parties attached to it are the subscribers registered for it when it is extracted
(`Builder.build`); `seqOf u t log` is what subscriber `u` has been told about message `t`, in order.
All theorems hold for every schedule `acts : List Act` (see GSProofs/C15.lean for what a schedule is).

**(S1) exactly once** — proved at full strength (`exactly_once`): for every subscriber and every
message the notifications are, at every moment, `[]`, `[Queued]` (only while that message is the one
in flight, `queued_only_in_flight`), or complete: `[Queued, Sent, close]`, `[Queued, Error, close]`,
`[Error, close]` (failed by the shutdown drain before it was ever handed to the network).  Never two
outcomes, never an outcome after the close, never a second close.

**(S2) eventually** — proved (`eventually`, `eventually_attached`) with the leads-to rule of
`GS/Temporal.lean`, for every queued message.  Before the fix `fix: messagequeue: fail messages built
on a closed queue` it was false for transactions built after the final drain (defect
`dead-queue-unreported`, now repaired; regression witness `dead_queue_regression`).  On the real code
the watchdog oracle checks the same after a fair epilogue of every script.
-/
namespace GS.C16
open GS.MQ GS.Alloc

def Reachable (pick : Pick) (peer mr mt mp : Nat) (s : MQ.State) : Prop :=
  ∃ acts : List Act, s = runActs pick (init peer mr mt mp) acts

/-- complete notification sequences, the empty one, and the one of a message in flight -/
def Allowed (l : List Kind) : Prop :=
  l = [] ∨ l = [.queued] ∨ l = [.queued, .sent, .close] ∨ l = [.queued, .error, .close] ∨ l = [.error, .close]

theorem Reachable.inv {pick : Pick} {peer mr mt mp : Nat} {s : MQ.State} (h : Reachable pick peer mr mt mp s) : J s := by
  obtain ⟨acts, rfl⟩ := h
  exact runActs_J pick (init_J peer mr mt mp) acts

theorem allowed_of_done {l : List Kind} (h : Done l) : Allowed l := by
  rcases h with h | h | h | h
  · exact Or.inl h
  · exact Or.inr (Or.inr (Or.inl h))
  · exact Or.inr (Or.inr (Or.inr (Or.inl h)))
  · exact Or.inr (Or.inr (Or.inr (Or.inr h)))

/-- what `Mid` says about one subscriber and one topic -/
theorem mid_allowed {s : MQ.State} {m : InFlight} {U : List Sub} {b : Bool} (h : Mid s m U [Kind.queued] b)
    (u : Sub) (t : Nat) : Allowed (seqOf u t s.log) ∧ (seqOf u t s.log = [Kind.queued] → t = m.topic) := by
  by_cases ht : t = m.topic
  · subst ht
    rw [h.seqM u]
    split
    · exact ⟨Or.inr (Or.inl rfl), fun _ => rfl⟩
    · exact ⟨Or.inl rfl, fun _ => rfl⟩
  · refine ⟨allowed_of_done (h.done t u ht), ?_⟩
    intro hq
    rcases h.done t u ht with h' | h' | h' | h' <;> rw [h'] at hq <;> cases hq

/-- **(S1) exactly once, on every schedule, in every state, for every subscriber and message.** -/
theorem exactly_once {pick : Pick} {peer mr mt mp : Nat} {s : MQ.State} (h : Reachable pick peer mr mt mp s)
    (u : Sub) (t : Nat) : Allowed (seqOf u t s.log) := by
  have hn : NInv s := h.inv
  · unfold NInv at hn
    cases hp : s.pc with
    | idle => rw [hp] at hn; exact allowed_of_done (hn.done t u)
    | exiting => rw [hp] at hn; exact allowed_of_done (hn.done t u)
    | exited => rw [hp] at hn; exact allowed_of_done (hn.done t u)
    | opening m r =>
      rw [hp] at hn
      cases r with
      | none => obtain ⟨U, hm⟩ := hn; exact (mid_allowed hm u t).1
      | some i => obtain ⟨U, hm⟩ := hn; exact (mid_allowed hm u t).1
    | sending m i => rw [hp] at hn; obtain ⟨U, hm⟩ := hn; exact (mid_allowed hm u t).1
    | resetting m i => rw [hp] at hn; obtain ⟨U, hm⟩ := hn; exact (mid_allowed hm u t).1

/-- the only incomplete, non-empty sequence is `[Queued]`, and only for the message in flight -/
theorem queued_only_in_flight {pick : Pick} {peer mr mt mp : Nat} {s : MQ.State}
    (h : Reachable pick peer mr mt mp s) (u : Sub) (t : Nat) (hq : seqOf u t s.log = [Kind.queued]) :
    ∃ m, s.pc.inflight = some m ∧ t = m.topic := by
  have hnd : ¬ Done [Kind.queued] := by
    intro hd; rcases hd with h' | h' | h' | h' <;> cases h'
  have hn : NInv s := h.inv
  · unfold NInv at hn
    cases hp : s.pc with
    | idle => rw [hp] at hn; exact absurd (hq ▸ hn.done t u) hnd
    | exiting => rw [hp] at hn; exact absurd (hq ▸ hn.done t u) hnd
    | exited => rw [hp] at hn; exact absurd (hq ▸ hn.done t u) hnd
    | opening m r =>
      rw [hp] at hn
      cases r with
      | none => obtain ⟨U, hm⟩ := hn; exact ⟨m, rfl, (mid_allowed hm u t).2 hq⟩
      | some i => obtain ⟨U, hm⟩ := hn; exact ⟨m, rfl, (mid_allowed hm u t).2 hq⟩
    | sending m i => rw [hp] at hn; obtain ⟨U, hm⟩ := hn; exact ⟨m, rfl, (mid_allowed hm u t).2 hq⟩
    | resetting m i => rw [hp] at hn; obtain ⟨U, hm⟩ := hn; exact ⟨m, rfl, (mid_allowed hm u t).2 hq⟩

/-- once the queue goroutine is between two messages (or gone) every sequence is complete or empty:
    a message that was handed to the publisher has been reported and closed -/
theorem complete_when_idle {pick : Pick} {peer mr mt mp : Nat} {s : MQ.State}
    (h : Reachable pick peer mr mt mp s) (hpc : s.pc.inflight = none) (u : Sub) (t : Nat) :
    Done (seqOf u t s.log) := by
  have hn : NInv s := h.inv
  · unfold NInv at hn
    cases hp : s.pc with
    | idle => rw [hp] at hn; exact hn.done t u
    | exiting => rw [hp] at hn; exact hn.done t u
    | exited => rw [hp] at hn; exact hn.done t u
    | opening m r => rw [hp] at hpc; cases hpc
    | sending m i => rw [hp] at hpc; cases hpc
    | resetting m i => rw [hp] at hpc; cases hpc

/-! ## (S2) eventually

The fair system `LSys pick` (GSProofs/Lemmas/MsgQueueLive3.lean): the steps are those of `MQ.step`, with
`run` (the queue goroutine's select loop) enabled only when it can do something (`pc = idle` and a work
signal or `done`), and `ack` (the network / allocator answering the call the goroutine is blocked in)
enabled only when it is blocked.  Fairness (`WFAll`, weak fairness of the set {run, ack}): if the queue
goroutine or the network can always move, one of them eventually does — nothing is assumed about
callers, `Shutdown`, other peers, or about the *result* of a network call (it may fail every time).

`Pend t s`: message `t` is queued with content or in flight.  `Running s`: the goroutine has not begun
its final exit.  Variant: (queued builders with topic ≤ t) · (3·maxRetries + 3) + (steps left for the
message in flight).  Key invariant `TI` (content queued ⇒ the work signal is set; Go:
`builders ≠ [] → signal ∨ sending`), proved for every reachable state (`step_tk`). -/

open GS.Temporal in
/-- every state of an execution from a fresh queue satisfies the notification invariant and the
    signal invariant -/
theorem exec_inv {pick : Pick} {peer mr mt mp : Nat} {σ : Nat → MQ.State} (h0 : σ 0 = init peer mr mt mp)
    (hex : Exec (LSys pick) σ) : ∀ i, J (σ i) ∧ TK (σ i) ∧ CN (σ i) := by
  intro i
  induction i with
  | zero => rw [h0]; exact ⟨init_J peer mr mt mp, init_tk peer mr mt mp, fun _ => rfl⟩
  | succ i ih =>
    rcases hex i with h | ⟨a, h⟩
    · rw [h]; exact ih
    · have hs : σ (i + 1) = MQ.step pick (σ i) a := by
        cases a with
        | run pw =>
          have h' : (if runEnabled (σ i) then some ((σ i).run pick pw) else none) = some (σ (i + 1)) := h
          split at h'
          · exact (Option.some.inj h').symm
          · exact absurd h' (by simp)
        | ack ok =>
          have h' : (if ackEnabled (σ i) then some ((σ i).ack pick ok) else none) = some (σ (i + 1)) := h
          split at h'
          · exact (Option.some.inj h').symm
          · exact absurd h' (by simp)
        | build tx => have h' : some (MQ.step pick (σ i) (.build tx)) = some (σ (i + 1)) := h; exact (Option.some.inj h').symm
        | wake w => have h' : some (MQ.step pick (σ i) (.wake w)) = some (σ (i + 1)) := h; exact (Option.some.inj h').symm
        | shutdown => have h' : some (MQ.step pick (σ i) .shutdown) = some (σ (i + 1)) := h; exact (Option.some.inj h').symm
        | env op => have h' : some (MQ.step pick (σ i) (.env op)) = some (σ (i + 1)) := h; exact (Option.some.inj h').symm
      rw [hs]; exact ⟨step_J pick ih.1 a, step_tk pick ih.2.1 a, step_cn pick ih.2.2 a⟩

/-- a closed queue has nothing pending -/
theorem pend_running {t : Nat} {s : MQ.State} (hcn : CN s) (hp : Pend t s) : Running s := by
  by_cases hc : s.closed = true
  · exfalso
    rcases hp with ⟨b, hb, _⟩ | ⟨m, hm, _⟩
    · rw [hcn hc] at hb; cases hb
    · rw [closed_inflight_none hc] at hm; cases hm
  · obtain ⟨peer, maxRetries, builders, nextTopic, token, done, sender, pc, closedStreams, waiters,
      nextTicket, topics, pubClosed, alloc, log⟩ := s
    cases pc with
    | exiting => exact absurd rfl hc
    | exited => exact absurd rfl hc
    | idle => exact ⟨(fun h => by cases h), (fun h => by cases h)⟩
    | opening m r => exact ⟨(fun h => by cases h), (fun h => by cases h)⟩
    | sending m i => exact ⟨(fun h => by cases h), (fun h => by cases h)⟩
    | resetting m i => exact ⟨(fun h => by cases h), (fun h => by cases h)⟩

open GS.Temporal in
/-- **(S2) eventually** — at full strength for queued messages since the fix `fix: messagequeue: fail
    messages built on a closed queue` (before it the statement needed "the goroutine has not begun its
    final exit"; regression witness `dead_queue_regression`).  On every weakly fair execution from a
    fresh queue — any transactions, any network results, Shutdown at any time — every message that is
    queued with content or in flight is eventually no longer pending, and then every subscriber's
    notification sequence for it is complete (`[Q,S,close]`, `[Q,E,close]`, `[E,close]`) or empty (the
    subscriber's request was scrubbed from it after an Error for that request, or it was never
    attached).  A transaction built on a closed queue is never pending: it is failed within the same
    step (`closed_build_rejected`). -/
theorem eventually {pick : Pick} {peer mr mt mp : Nat} {σ : Nat → MQ.State} (h0 : σ 0 = init peer mr mt mp)
    (hex : Exec (LSys pick) σ) (hwf : WFAll (LSys pick) fairAct σ) (t : Nat) :
    LeadsTo σ (fun s => Pend t s) (fun s => ¬ Pend t s ∧ ∀ u, Done (seqOf u t s.log)) := by
  intro i hp
  obtain ⟨hj, htk, hcn⟩ := exec_inv h0 hex i
  have hr : Running (σ i) := pend_running hcn hp
  have hn : NInv (σ i) := hj
  have hP : LiveP t (σ i) := ⟨hn, htk.1, htk.2, hr, hp⟩
  obtain ⟨j, hij, hq⟩ := leadsTo_of_variant (live_rule pick t) hex hwf i hP
  refine ⟨j, hij, hq, ?_⟩
  intro u
  -- not pending: the sequence cannot be the in-flight one
  obtain ⟨hj', _⟩ := exec_inv h0 hex j
  have hn' : NInv (σ j) := hj'
  · unfold NInv at hn'
    have mid : ∀ {m : InFlight} {U : List Sub} {b : Bool}, (σ j).pc.inflight = some m → Mid (σ j) m U [Kind.queued] b →
        Done (seqOf u t (σ j).log) := by
      intro m U b hm hmid
      have hne : t ≠ (m.topic : Nat) := by
        intro e; apply hq; exact Or.inr ⟨m, hm, e.symm⟩
      exact hmid.done t u hne
    cases hpc : (σ j).pc with
    | idle => rw [hpc] at hn'; exact hn'.done t u
    | exiting => rw [hpc] at hn'; exact hn'.done t u
    | exited => rw [hpc] at hn'; exact hn'.done t u
    | opening m r =>
      rw [hpc] at hn'
      cases r with
      | none => obtain ⟨U, hm⟩ := hn'; exact mid (by rw [hpc]; rfl) hm
      | some k => obtain ⟨U, hm⟩ := hn'; exact mid (by rw [hpc]; rfl) hm
    | sending m k => rw [hpc] at hn'; obtain ⟨U, hm⟩ := hn'; exact mid (by rw [hpc]; rfl) hm
    | resetting m k => rw [hpc] at hn'; obtain ⟨U, hm⟩ := hn'; exact mid (by rw [hpc]; rfl) hm

/-! ### who may end with the empty sequence

`eventually` allows `seqOf u t = []` at the end.  The following theorem says exactly when that can
happen to a subscriber `u` that WAS attached to the queued message `t` through request `r`: only if
request `r`'s response stream has been closed and an `Error` has been delivered to `u` AFTER the
moment of the attachment (`errCount u` has grown; the stream of `r` is closed only by the `publishError`
of a message carrying `r`, which publishes `Error` to `r`'s subscriber in the same step) — the C15/C16
reading "discarded because another message of the same request failed", with the Error published to
that same subscriber.  Assumption, recorded in checks/C16.json: every request id has ONE subscriber
(`tx.sub = f tx.req` for every transaction; the response assembler binds the subscriber to the stream
in `NewStream`).  Without it a subscriber attached to message k of request r can be dropped silently
when message j<k of r, carrying a DIFFERENT subscriber for r, fails — `silent_drop_without_assumption`. -/

/-- the system in which every transaction carries its request's own subscriber -/
def LSysF (pick : Pick) (f : Req → Sub) : GS.Temporal.Sys MQ.State Act where
  step s a :=
    match a with
    | .build tx => if tx.sub = f tx.req then (LSys pick).step s a else none
    | a => (LSys pick).step s a

/-- the three complete notification sequences -/
def Complete (l : List Kind) : Prop :=
  l = [.queued, .sent, .close] ∨ l = [.queued, .error, .close] ∨ l = [.error, .close]

theorem lsysF_step {pick : Pick} {f : Req → Sub} {s s' : MQ.State} {a : Act} (h : (LSysF pick f).step s a = some s') :
    (LSys pick).step s a = some s' ∧ (∀ tx, a = .build tx → tx.sub = f tx.req) := by
  cases a with
  | build tx =>
    have h' : (if tx.sub = f tx.req then (LSys pick).step s (.build tx) else none) = some s' := h
    split at h'
    · next hf => exact ⟨h', fun tx' e => by cases e; exact hf⟩
    · cases h'
  | run pw => exact ⟨h, fun tx e => by cases e⟩
  | ack ok => exact ⟨h, fun tx e => by cases e⟩
  | wake w => exact ⟨h, fun tx e => by cases e⟩
  | shutdown => exact ⟨h, fun tx e => by cases e⟩
  | env op => exact ⟨h, fun tx e => by cases e⟩

theorem lsys_step_eq {pick : Pick} {s s' : MQ.State} {a : Act} (h : (LSys pick).step s a = some s') :
    s' = MQ.step pick s a := by
  cases a with
  | run pw =>
    have h' : (if runEnabled s then some (s.run pick pw) else none) = some s' := h
    split at h'
    · exact (Option.some.inj h').symm
    · exact absurd h' (by simp)
  | ack ok =>
    have h' : (if ackEnabled s then some (s.ack pick ok) else none) = some s' := h
    split at h'
    · exact (Option.some.inj h').symm
    · exact absurd h' (by simp)
  | build tx => have h' : some (MQ.step pick s (.build tx)) = some s' := h; exact (Option.some.inj h').symm
  | wake w => have h' : some (MQ.step pick s (.wake w)) = some s' := h; exact (Option.some.inj h').symm
  | shutdown => have h' : some (MQ.step pick s .shutdown) = some s' := h; exact (Option.some.inj h').symm
  | env op => have h' : some (MQ.step pick s (.env op)) = some s' := h; exact (Option.some.inj h').symm

open GS.Temporal in
/-- **(S2) eventually, for attached subscribers** (assumption: one subscriber per request id).  On
    every weakly fair execution, a subscriber `u` attached to queued message `t` through request `r`
    (which has content in that message), at a moment when it has been delivered `n0` Errors in all,
    eventually has a COMPLETE sequence for that message (`[Q,S,close]`, `[Q,E,close]` or `[E,close]`),
    or request `r`'s stream has been closed and `u` has been delivered an `Error` after that moment
    (more than `n0` by then; `r`'s queued data was discarded).  The second disjunct is false at the
    moment of attachment itself (`errCount = n0`), so the conclusion is never satisfied vacuously by an
    older Error; in particular `u` is never left without any notification at all. -/
theorem eventually_attached {pick : Pick} {f : Req → Sub} {peer mr mt mp : Nat} {σ : Nat → MQ.State}
    (h0 : σ 0 = init peer mr mt mp) (hex : Exec (LSysF pick f) σ) (hwf : WFAll (LSysF pick f) fairAct σ)
    (u : Sub) (t : Nat) (r : Req) (n0 : Nat) :
    LeadsTo σ (fun s => AttQ u t r s ∧ errCount u s.log = n0)
      (fun s => Complete (seqOf u t s.log) ∨ ErrSeen r u n0 s) := by
  -- the execution is one of the unrestricted fair system
  have hex' : Exec (LSys pick) σ := by
    intro i
    rcases hex i with h | ⟨a, h⟩
    · exact Or.inl h
    · exact Or.inr ⟨a, (lsysF_step h).1⟩
  have hwf' : WFAll (LSys pick) fairAct σ := by
    intro i hen
    have hen' : ∀ j, i ≤ j → ∃ a, fairAct a ∧ (LSysF pick f).enabled a (σ j) := by
      intro j hj
      obtain ⟨a, hfa, he⟩ := hen j hj
      refine ⟨a, hfa, ?_⟩
      cases a with
      | build tx => exact absurd hfa (fun x => x)
      | run pw => exact he
      | ack ok => exact he
      | wake w => exact he
      | shutdown => exact he
      | env op => exact he
    obtain ⟨j, hij, a, hfa, hs⟩ := hwf i hen'
    exact ⟨j, hij, a, hfa, (lsysF_step hs).1⟩
  -- invariants along the execution
  have hinv : ∀ i, J (σ i) ∧ AI f (σ i) := by
    intro i
    induction i with
    | zero => rw [h0]; exact ⟨init_J peer mr mt mp, init_AI f peer mr mt mp⟩
    | succ i ih =>
      rcases hex i with h | ⟨a, h⟩
      · rw [h]; exact ih
      · obtain ⟨h1, h2⟩ := lsysF_step h
        rw [lsys_step_eq h1]
        exact ⟨step_J pick ih.1 a, (step_stepOK pick f ih.1 ih.2 a h2).1⟩
  have hW : ∀ i d, W u t r n0 (σ i) → W u t r n0 (σ (i + d)) := by
    intro i d hw
    induction d with
    | zero => exact hw
    | succ d ih =>
      rcases hex (i + d) with h | ⟨a, h⟩
      · have : σ (i + (d + 1)) = σ (i + d) := h
        rw [this]; exact ih
      · obtain ⟨h1, h2⟩ := lsysF_step h
        have : σ (i + (d + 1)) = MQ.step pick (σ (i + d)) a := lsys_step_eq h1
        rw [this]
        exact (step_stepOK pick f (hinv (i + d)).1 (hinv (i + d)).2 a h2).2 u t r n0 ih
  intro i ⟨hatt, hn0⟩
  have hpend : Pend t (σ i) := by
    obtain ⟨b, hb, ha⟩ := hatt
    exact Or.inl ⟨b, hb, ha.1, ha.nonempty⟩
  obtain ⟨j, hij, hq, hdone⟩ := eventually h0 hex' hwf' t i hpend
  refine ⟨j, hij, ?_⟩
  obtain ⟨d, rfl⟩ := Nat.exists_eq_add_of_le hij
  rcases hW i d (Or.inl ⟨hatt, Nat.le_of_eq hn0.symm⟩) with ⟨⟨b, hb, ha⟩, _⟩ | hne | herr
  · exact absurd (Or.inl ⟨b, hb, ha.1, ha.nonempty⟩) hq
  · left
    rcases hdone u with h | h | h | h
    · exact absurd h hne
    · exact Or.inl h
    · exact Or.inr (Or.inl h)
    · exact Or.inr (Or.inr h)
  · exact Or.inr herr

/-- non-vacuity of `eventually_attached`, second disjunct: subscriber 0 is attached to queued message 1
    through request 0 (no Error so far); message 0 of request 0 fails after the retries; message 1 is
    scrubbed: subscriber 0 has been told nothing about message 1, request 0's stream is closed, and it
    has received exactly one Error — after the attachment. -/
example : ∃ s s', Reachable pickMin 0 1 (2^30) (2^30) s ∧ AttQ 0 1 0 s ∧ errCount 0 s.log = 0 ∧
    ¬ ErrSeen 0 0 0 s ∧
    s' = runActs pickMin s [.ack false, .ack true, .ack false] ∧
    seqOf 0 1 s'.log = [] ∧ ErrSeen 0 0 0 s' ∧ errCount 0 s'.log = 1 ∧ s'.builders = [] :=
  ⟨runActs pickMin (init 0 1 (2^30) (2^30))
      [.build { who := .response, req := 0, sub := 0, items := [.block 1 1000 true] }, .run true, .ack true,
       .build { who := .response, req := 0, sub := 0, items := [.block 2 600000 true] }],
    _, ⟨_, rfl⟩, ⟨_, List.mem_cons_self, by decide, by decide, Or.inl (by decide)⟩, by decide,
    (fun h => absurd h.2 (by decide)), rfl, by decide, ⟨by decide, by decide⟩, by decide, by decide⟩

/-- **(S2) for a transaction that arrives after the queue has stopped sending** ("the peer's queue
    shuts down while data is being queued"): in any state satisfying the invariants of all executions
    (`J`, `CN`, `AI f`: `exec_inv`, `step_stepOK`) whose goroutine has taken the `done` branch, if the
    build function attaches `u` through request `r` to its message `t` (the state right after
    `buildMessage`), then at the end of the SAME step nothing is queued and `u` has a complete sequence
    for `t` (it is `[Error, close]`: `dead_queue_regression`), or `r`'s stream is closed and `u` has been
    delivered an `Error` during this step. -/
theorem closed_build_rejected {pick : Pick} {f : Req → Sub} {s : MQ.State} (hj : J s) (hcn : CN s) (hai : AI f s)
    (hc : s.closed = true) (ticket : Nat) (tx : Tx) (size : Nat) (hf : tx.sub = f tx.req) (u : Sub) (t : Nat) (r : Req)
    (hatt : AttQ u t r (s.buildMessage pick ticket tx size)) :
    (s.buildMsg pick ticket tx size).builders = [] ∧
    (Complete (seqOf u t (s.buildMsg pick ticket tx size).log) ∨
      ErrSeen r u (errCount u s.log) (s.buildMsg pick ticket tx size)) := by
  have hn : NInv s := hj
  have hnil := buildMsg_closed_nil pick s ticket tx size hc (hcn hc)
  refine ⟨hnil, ?_⟩
  have o := buildMessage_out pick f s ticket tx size hf
  have hi := (closed_idle hn hc).quiet (buildMessage_quiet pick s ticket tx size)
  have ow := drain_W pick f 1 _ hi
  have hw1 : W u t r (errCount u s.log) (s.buildMessage pick ticket tx size) :=
    Or.inl ⟨hatt, errCount_mono o.log u⟩
  have hw2 := ow.w (o.att hai.bfun).1 u t r _ hw1
  have heq : s.buildMsg pick ticket tx size = State.drain pick 1 (s.buildMessage pick ticket tx size) := by
    unfold State.buildMsg; rw [if_pos hc]
  have hn' : NInv (s.buildMsg pick ticket tx size) := buildMsg_ninv pick hn ticket tx size
  have hc' : (s.buildMsg pick ticket tx size).closed = true := by
    rw [closed_pc (buildMsg_pc pick s ticket tx size)]; exact hc
  have hdone := (closed_idle hn' hc').done t u
  rw [← heq] at hw2
  rcases hw2 with ⟨⟨b, hb, _⟩, _⟩ | hne | herr
  · rw [hnil] at hb; cases hb
  · left
    rcases hdone with h | h | h | h
    · exact absurd h hne
    · exact Or.inl h
    · exact Or.inr (Or.inl h)
    · exact Or.inr (Or.inr h)
  · exact Or.inr herr

/-- without the assumption a subscriber can be dropped silently (the auditor's witness): request 0
    carries subscriber 0 in message 0 and subscriber 7 in message 1; message 0 fails; message 1 is
    discarded; subscriber 7 is told nothing, not even an Error. -/
theorem silent_drop_without_assumption :
    ∃ s, Reachable pickMin 0 1 (2^30) (2^30) s ∧ s.pc = .idle ∧ s.builders = [] ∧
      seqOf 7 1 s.log = [] ∧ (∀ t, seqOf 7 t s.log = []) ∧ seqOf 0 0 s.log = [.queued, .error, .close] := by
  refine ⟨runActs pickMin (init 0 1 (2^30) (2^30))
      [.build ⟨.response, 0, 0, [.block 1 600000 true]⟩, .run true, .ack true,
       .build ⟨.response, 0, 7, [.block 2 600000 true]⟩, .ack false, .ack true, .ack true],
    ⟨_, rfl⟩, by decide, by decide, by decide, ?_, by decide⟩
  intro t
  have h : ∀ l : List MQ.Event, (l.all fun e => match e with | .notify a _ _ => a != 7 | _ => true) = true →
      seqOf 7 t l = [] := by
    intro l
    induction l with
    | nil => intro _; rfl
    | cons e r ih =>
      intro hl
      simp only [List.all_cons, Bool.and_eq_true] at hl
      have hr := ih hl.2
      cases e with
      | notify a b c =>
        simp only [seqOf]
        have ha : a ≠ 7 := by simpa using hl.1
        have : ¬ (a = 7 ∧ b = t) := fun hh => ha hh.1
        rw [if_neg this]; exact hr
      | _ => simpa [seqOf] using hr
  apply h
  decide

/-- non-vacuity of `eventually`: a reachable state with message 1 queued with content behind message 0
    in flight -/
example : ∃ s, Reachable pickMin 0 1 (2^30) (2^30) s ∧ Running s ∧ Pend 1 s ∧ Pend 0 s :=
  ⟨runActs pickMin (init 0 1 (2^30) (2^30))
      [.build { who := .response, req := 0, sub := 0, items := [.block 1 1000 true] }, .run true,
       .build { who := .response, req := 1, sub := 1, items := [.block 2 600000 true] }],
    ⟨_, rfl⟩, ⟨by decide, by decide⟩,
    Or.inl ⟨_, List.mem_cons_self, by decide, by decide⟩, Or.inr ⟨_, rfl, by decide⟩⟩

/-- **Regression witness of the repaired defect `dead-queue-unreported`** (fixed by `fix:
    messagequeue: fail messages built on a closed queue`): a transaction built while the queue goroutine
    is already in its deferred exit.  With the OLD `buildMessage` (`MQ.buildOld`) it is queued with its
    subscriber attached, the goroutine exits, every later `run`/`ack` is a no-op and subscriber 7 is
    never told anything about message 0.  With the repaired one the subscriber has `[Error, close]`
    within the same step, the request's stream is closed and nothing is queued. -/
theorem dead_queue_regression :
    (∃ s, s = (MQ.buildOld pickMin (runActs pickMin (init 0 1 (2^30) (2^30)) [.shutdown, .run true])
          { who := .response, req := 0, sub := 7, items := [.block 1 1000 true] }).ack pickMin true ∧
      s.pc = .exited ∧
      (∃ b ∈ s.builders, b.topic = 0 ∧ (0, 7) ∈ b.subs ∧ b.empty = false) ∧ seqOf 7 0 s.log = [] ∧
      (∀ ok, s.ack pickMin ok = s) ∧ (∀ pw, s.run pickMin pw = s)) ∧
    (∃ s, Reachable pickMin 0 1 (2^30) (2^30) s ∧
      s = runActs pickMin (init 0 1 (2^30) (2^30)) [.shutdown, .run true,
        .build { who := .response, req := 0, sub := 7, items := [.block 1 1000 true] }] ∧
      s.pc = .exiting ∧ s.builders = [] ∧ seqOf 7 0 s.log = [.error, .close] ∧ 0 ∈ s.closedStreams ∧
      allocatedFor s.alloc s.peer = 0) :=
  ⟨⟨_, rfl, by decide, ⟨_, List.mem_cons_self, by decide, by decide, by decide⟩, by decide,
    fun ok => ack_exited _ _ _ (by decide), fun pw => run_exited _ _ _ (by decide)⟩,
   ⟨_, ⟨_, rfl⟩, rfl, by decide, by decide, by decide, by decide, by decide⟩⟩

/-- non-vacuity: a reachable state in which one subscriber has a complete failed sequence, another a
    message in flight, after a send failure and exhausted retries -/
example : ∃ s, Reachable pickMin 0 1 (2^30) (2^30) s ∧ seqOf 0 0 s.log = [.queued, .error, .close] ∧
    seqOf 1 1 s.log = [.queued] :=
  ⟨runActs pickMin (init 0 1 (2^30) (2^30))
      [.build { who := .response, req := 0, sub := 0, items := [.block 1 1000 true] }, .run true, .ack true,
       .build { who := .response, req := 1, sub := 1, items := [.block 2 600000 true] },
       .ack false, .ack true, .ack true, .run true],
    ⟨_, rfl⟩, by decide, by decide⟩

end GS.C16
