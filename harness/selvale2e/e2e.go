// Package selvale2e: end-to-end stream for C08 (component "selvale2e").  Two real GraphSync
// instances with *default* options over a libp2p mocknet; every `wired <selector>` op sends one
// request and reports whether the responder answered RequestRejected on the wire.
//
//	wired <selector prefix form>   -> resp=RequestRejected | resp=served | not-wf
//	wiredp <selector prefix form>  -> same, against a responder that has, besides the default validator, a
//	                                  second incoming-request hook calling PauseResponse() only (admission
//	                                  control); once that hook has run the harness calls UnpauseResponse for
//	                                  the request.  The default validation must still reject an unbounded /
//	                                  too-deep selector: RequestRejected on the wire, no block ever loaded.
package selvale2e

import (
	"bufio"
	"context"
	"fmt"
	"io"
	"math/rand"
	"os"
	"sync"
	"sync/atomic"
	"time"

	"github.com/ipld/go-ipld-prime/datamodel"
	"github.com/ipld/go-ipld-prime/fluent"
	"github.com/ipld/go-ipld-prime/linking"
	cidlink "github.com/ipld/go-ipld-prime/linking/cid"
	"github.com/ipld/go-ipld-prime/node/basicnode"
	"github.com/ipld/go-ipld-prime/storage/memstore"
	"github.com/ipld/go-ipld-prime/traversal/selector/builder"
	"github.com/libp2p/go-libp2p/core/peer"
	mocknet "github.com/libp2p/go-libp2p/p2p/net/mock"

	_ "github.com/ipld/go-ipld-prime/codec/dagcbor"

	"github.com/ipfs/go-cid"
	"github.com/ipfs/go-graphsync"
	gsimpl "github.com/ipfs/go-graphsync/impl"
	gsnet "github.com/ipfs/go-graphsync/network"
	logging "github.com/ipfs/go-log/v2"

	"verifharness/reg"
	"verifharness/selval"
)

func init() {
	reg.Register(&reg.Component{Name: "selvale2e", Gen: Gen, Run: Run})
}

type pair struct {
	requestor graphsync.GraphExchange
	responder peer.ID
	root      datamodel.Link
	mu        sync.Mutex
	statuses  []graphsync.ResponseStatusCode
	cancel    context.CancelFunc
	// pause-hook configuration only
	respGS graphsync.GraphExchange
	hooked chan graphsync.RequestID // one entry per run of the pausing hook
	loads  atomic.Int64             // blocks read from the responder's store
	sent   atomic.Int64             // outgoing-block hook calls on the responder
}

func setup(pauseHook bool) (*pair, error) {
	// the check merges stderr into the compared output: keep the libraries quiet
	logging.SetAllLoggers(logging.LevelFatal)
	ctx, cancel := context.WithCancel(context.Background())
	mn := mocknet.New()
	h1, err := mn.GenPeer()
	if err != nil {
		cancel()
		return nil, err
	}
	h2, err := mn.GenPeer()
	if err != nil {
		cancel()
		return nil, err
	}
	if err := mn.LinkAll(); err != nil {
		cancel()
		return nil, err
	}
	// the requestor keeps nothing: every request has to be answered by the responder
	ls1 := cidlink.DefaultLinkSystem()
	ls1.StorageReadOpener = func(linking.LinkContext, datamodel.Link) (io.Reader, error) {
		return nil, fmt.Errorf("not found")
	}
	ls1.StorageWriteOpener = func(linking.LinkContext) (io.Writer, linking.BlockWriteCommitter, error) {
		return io.Discard, func(datamodel.Link) error { return nil }, nil
	}
	ls2 := cidlink.DefaultLinkSystem()
	st2 := &memstore.Store{}
	ls2.SetReadStorage(st2)
	ls2.SetWriteStorage(st2)
	p := &pair{cancel: cancel, hooked: make(chan graphsync.RequestID, 16)}
	inner := ls2.StorageReadOpener
	ls2.StorageReadOpener = func(lc linking.LinkContext, l datamodel.Link) (io.Reader, error) {
		p.loads.Add(1)
		return inner(lc, l)
	}
	// a small root block on the responder
	rootNode := fluent.MustBuildMap(basicnode.Prototype.Map, 2, func(na fluent.MapAssembler) {
		na.AssembleEntry("x").AssignString("y")
		na.AssembleEntry("Links").CreateList(2, func(la fluent.ListAssembler) {
			la.AssembleValue().AssignInt(1)
			la.AssembleValue().AssignInt(2)
		})
	})
	lp := cidlink.LinkPrototype{Prefix: cid.Prefix{Version: 1, Codec: 0x71, MhType: 0x12, MhLength: 32}}
	root, err := ls2.Store(linking.LinkContext{}, lp, rootNode)
	if err != nil {
		cancel()
		return nil, err
	}
	p.responder, p.root = h2.ID(), root
	// default options on both sides: this is what the property is about
	p.requestor = gsimpl.New(ctx, gsnet.NewFromLibp2pHost(h1), ls1)
	p.respGS = gsimpl.New(ctx, gsnet.NewFromLibp2pHost(h2), ls2)
	if pauseHook {
		// a second hook next to the default validator: it only asks for the response to start paused
		p.respGS.RegisterIncomingRequestHook(func(_ peer.ID, rd graphsync.RequestData, ha graphsync.IncomingRequestHookActions) {
			ha.PauseResponse()
			select {
			case p.hooked <- rd.ID():
			default:
			}
		})
		p.respGS.RegisterOutgoingBlockHook(func(peer.ID, graphsync.RequestData, graphsync.BlockData, graphsync.OutgoingBlockHookActions) {
			p.sent.Add(1)
		})
	}
	p.requestor.RegisterIncomingResponseHook(func(_ peer.ID, rd graphsync.ResponseData, _ graphsync.IncomingResponseHookActions) {
		p.mu.Lock()
		p.statuses = append(p.statuses, rd.Status())
		p.mu.Unlock()
	})
	return p, nil
}

// ask sends one request and returns the statuses seen on the wire for it
func (p *pair) ask(sel datamodel.Node, unpause func(graphsync.RequestID)) ([]graphsync.ResponseStatusCode, bool) {
	p.mu.Lock()
	p.statuses = nil
	p.mu.Unlock()
	ctx, cancel := context.WithTimeout(context.Background(), 10*time.Second)
	defer cancel()
	progress, errs := p.requestor.Request(ctx, p.responder, p.root, sel)
	if unpause != nil {
		// the pausing hook runs inside the response manager's event loop (processRequests), which also
		// parks or rejects the request before it takes the next event; UnpauseResponse is such an event,
		// so once the hook has run the call below is ordered after that decision — no timing involved
		select {
		case id := <-p.hooked:
			unpause(id)
		case <-ctx.Done():
		}
	}
	for progress != nil || errs != nil {
		select {
		case _, ok := <-progress:
			if !ok {
				progress = nil
			}
		case e, ok := <-errs:
			if !ok {
				errs = nil
			} else if os.Getenv("SELVAL_DEBUG") != "" {
				fmt.Fprintln(os.Stderr, "request error:", e)
			}
		}
	}
	timedOut := ctx.Err() != nil
	p.mu.Lock()
	defer p.mu.Unlock()
	return append([]graphsync.ResponseStatusCode{}, p.statuses...), timedOut
}

func Run(cases []reg.Case, out *reg.Out) {
	p, err := setup(false)
	if err != nil {
		fmt.Fprintln(os.Stderr, "selvale2e setup:", err)
		os.Exit(3)
	}
	defer p.cancel()
	var pp *pair // responder with the pause-only hook, built on first use
	ssb := builder.NewSelectorSpecBuilder(basicnode.Prototype.Any)
	for _, c := range cases {
		out.BeginCase(c)
		for _, op := range c.Ops {
			if len(op) < 2 || (op[0] != "wired" && op[0] != "wiredp") {
				out.Line("bad-op")
				continue
			}
			hookPaused := op[0] == "wiredp"
			s, rest, err := selval.ParseSel(op[1:])
			if err != nil || len(rest) != 0 {
				out.Line("bad-op")
				continue
			}
			if !s.Buildable() {
				out.Line("not-wf")
				continue
			}
			n := s.Build(ssb).Node()
			if !selval.Parses(n) {
				out.Line("not-wf")
				out.Cov("e2e:not-wf")
				continue
			}
			var statuses []graphsync.ResponseStatusCode
			var timedOut bool
			var loads, sent int64
			if hookPaused {
				if pp == nil {
					if pp, err = setup(true); err != nil {
						fmt.Fprintln(os.Stderr, "selvale2e setup:", err)
						os.Exit(3)
					}
					defer pp.cancel()
				}
				for len(pp.hooked) > 0 {
					<-pp.hooked
				}
				l0, s0 := pp.loads.Load(), pp.sent.Load()
				statuses, timedOut = pp.ask(n, func(id graphsync.RequestID) {
					uctx, ucancel := context.WithTimeout(context.Background(), 10*time.Second)
					defer ucancel()
					if uerr := pp.respGS.Unpause(uctx, id); uerr == nil {
						out.Cov("e2e:hook-paused-unpaused")
					} else {
						out.Cov("e2e:hook-paused-unpause-refused")
					}
				})
				// the request has ended at the requestor: whatever the responder loaded for it, it loaded before
				loads, sent = pp.loads.Load()-l0, pp.sent.Load()-s0
			} else {
				statuses, timedOut = p.ask(n, nil)
			}
			rejected := false
			for _, st := range statuses {
				if st == graphsync.RequestRejected {
					rejected = true
				}
			}
			switch {
			case timedOut:
				out.Line("resp=timeout")
				out.Cov("e2e:timeout")
			case rejected:
				out.Line("resp=RequestRejected")
				out.Cov("e2e:rejected")
			default:
				out.Line("resp=served")
				out.Cov("e2e:served")
				for _, st := range statuses {
					if st.IsTerminal() {
						out.Cov("e2e:served-final=" + st.String())
					}
				}
			}
			bounded := s.AllBounded(100)
			if !timedOut && bounded && rejected {
				out.Fail("e2e-bounded-rejected", "default responder answered RequestRejected for `%s`, whose recursions are all limited to depth <= 100", s.String())
			}
			if hookPaused {
				out.Cov("e2e:hook-paused")
				// whatever other hooks do (here: one that only pauses), default validation rejects the selector
				if !timedOut && !bounded && !rejected {
					out.Fail("e2e-hook-paused-unbounded-served", "responder with the default validator and a hook that only calls PauseResponse did not reject `%s` (statuses %v, unpaused afterwards), which contains an unbounded or deeper-than-100 recursion", s.String(), statuses)
				}
				if !bounded && (loads > 0 || sent > 0) {
					out.Fail("e2e-hook-paused-unbounded-executed", "responder with the default validator and a hook that only calls PauseResponse executed `%s` after UnpauseResponse (%d blocks loaded, %d sent; statuses %v), although it contains an unbounded or deeper-than-100 recursion", s.String(), loads, sent, statuses)
				}
			} else if !timedOut && !bounded && !rejected {
				out.Fail("e2e-unbounded-served", "default responder did not reject `%s` (statuses %v), which contains an unbounded or deeper-than-100 recursion", s.String(), statuses)
			}
		}
	}
}

func Gen(seed int64, n int, tier string, w *bufio.Writer) {
	r := rand.New(rand.NewSource(seed))
	for i := 0; i < n; i++ {
		fmt.Fprintf(w, "case e%d\n", i)
		for j := 0; j < 3; j++ {
			// every third case talks only to the responder with the pause-only hook, the others now and then
			op := "wired"
			if i%3 == 2 || r.Intn(5) == 0 {
				op = "wiredp"
			}
			fmt.Fprintf(w, "%s %s\n", op, selval.GenWellFormed(r, 1+r.Intn(5)).String())
		}
	}
}
