package dag

// Extension used by the requestor-side components (loader / requestor / exchange): the reference
// traversal with an arbitrary per-load answer (data or SkipMe), the visitor calls it makes, and the
// per-load visit counts the Lean requestor model needs.

import (
	"bytes"
	"fmt"
	"io"
	"strings"

	"github.com/ipfs/go-cid"
	"github.com/ipld/go-ipld-prime/codec/dagcbor"
	"github.com/ipld/go-ipld-prime/datamodel"
	"github.com/ipld/go-ipld-prime/linking"
	cidlink "github.com/ipld/go-ipld-prime/linking/cid"
	"github.com/ipld/go-ipld-prime/node/basicnode"
	"github.com/ipld/go-ipld-prime/traversal"
	"github.com/ipld/go-ipld-prime/traversal/selector"
)

// Visit is one visitor call of a traversal.
type Visit struct {
	Path      string // segments joined by '/', "" for the root
	Enc       []byte // dag-cbor encoding of the visited node
	AfterLoad int    // index of the most recent load request at the time of the visit
}

func pathString(p datamodel.Path) string {
	ss := make([]string, 0, p.Len())
	for _, s := range p.Segments() {
		ss = append(ss, s.String())
	}
	return strings.Join(ss, "/")
}

// EncodeNode is the canonical byte form used to compare visited nodes.
func EncodeNode(n datamodel.Node) []byte {
	var buf bytes.Buffer
	if err := dagcbor.Encode(n, &buf); err != nil {
		return []byte("unencodable:" + err.Error())
	}
	return buf.Bytes()
}

// WalkAnswering runs an ordinary go-ipld-prime selector traversal from the root over the complete
// DAG; the idx-th link load (0 = the root; path = its LinkPath) is answered with SkipMe when skip(idx, cid, path) is true and
// with the block otherwise.  It returns the loads in order, which of them were skipped, and every
// visitor call.
func WalkAnswering(d *DAG, sel datamodel.Node, skip func(idx int, c cid.Cid, path []string) bool) ([]Load, []bool, []Visit, error) {
	var loads []Load
	var skipped []bool
	var visits []Visit
	var stack []int
	full := d.LinkSystem(nil, nil)
	record := func(lc linking.LinkContext, c cid.Cid) bool {
		var segs []string
		for _, s := range lc.LinkPath.Segments() {
			segs = append(segs, s.String())
		}
		for len(stack) > 0 && !isProperPrefix(loads[stack[len(stack)-1]].Path, segs) {
			stack = stack[:len(stack)-1]
		}
		parent := -1
		if len(stack) > 0 {
			parent = stack[len(stack)-1]
		}
		idx := len(loads)
		sk := skip != nil && skip(idx, c, segs)
		loads = append(loads, Load{Cid: c, Block: d.Index(c), Path: segs, Parent: parent, Depth: len(stack)})
		skipped = append(skipped, sk)
		if !sk {
			stack = append(stack, idx)
		}
		return !sk
	}
	ls := d.LinkSystem(nil, nil)
	ls.StorageReadOpener = func(lc linking.LinkContext, l datamodel.Link) (io.Reader, error) {
		c := l.(cidlink.Link).Cid
		if !record(lc, c) {
			return nil, traversal.SkipMe{}
		}
		return full.StorageReadOpener(lc, l)
	}
	s, err := selector.ParseSelector(sel)
	if err != nil {
		return nil, nil, nil, err
	}
	if !record(linking.LinkContext{}, d.Root) {
		return loads, skipped, visits, nil
	}
	proto := basicnode.Prototype.Any
	nd, err := full.Load(linking.LinkContext{}, cidlink.Link{Cid: d.Root}, proto)
	if err != nil {
		return nil, nil, nil, err
	}
	prog := traversal.Progress{Cfg: &traversal.Config{
		LinkSystem:                     ls,
		LinkTargetNodePrototypeChooser: func(datamodel.Link, linking.LinkContext) (datamodel.NodePrototype, error) { return proto, nil },
	}}
	err = prog.WalkAdv(nd, s, func(p traversal.Progress, n datamodel.Node, _ traversal.VisitReason) error {
		visits = append(visits, Visit{Path: pathString(p.Path), Enc: EncodeNode(n), AfterLoad: len(loads) - 1})
		return nil
	})
	return loads, skipped, visits, err
}

// VisitTable: for every node i of the link tree (full traversal), VData[i] = number of visitor calls
// between load i answered with data and the next load request (or the end), VSkip[i] = the same when
// load i is answered SkipMe (all earlier loads answered with data).
func VisitTable(d *DAG, sel datamodel.Node) (*LT, []int, []int, error) {
	loads, _, visits, err := WalkAnswering(d, sel, nil)
	if err != nil {
		return nil, nil, nil, err
	}
	n := len(loads)
	vData := make([]int, n)
	vSkip := make([]int, n)
	for _, v := range visits {
		if v.AfterLoad >= 0 {
			vData[v.AfterLoad]++
		}
	}
	for i := 1; i < n; i++ {
		k := i
		l2, _, v2, err := WalkAnswering(d, sel, func(idx int, _ cid.Cid, _ []string) bool { return idx == k })
		if err != nil {
			return nil, nil, nil, err
		}
		if len(l2) <= k || l2[k].Cid != loads[k].Cid {
			return nil, nil, nil, fmt.Errorf("reference traversal is not deterministic")
		}
		for _, v := range v2 {
			if v.AfterLoad == k {
				vSkip[k]++
			}
		}
	}
	return &LT{Loads: loads}, vData, vSkip, nil
}

// FormatV is Format plus the two visit counts: "block:parent:path:vData:vSkip".
func (lt *LT) FormatV(seg func(string) string, vData, vSkip []int) string {
	var sb strings.Builder
	fmt.Fprintf(&sb, "%d", len(lt.Loads))
	for i, l := range lt.Loads {
		ss := make([]string, len(l.Path))
		for j, s := range l.Path {
			ss[j] = seg(s)
		}
		p := strings.Join(ss, "/")
		if p == "" {
			p = "-"
		}
		fmt.Fprintf(&sb, " %d:%d:%s:%d:%d", l.Block, l.Parent, p, vData[i], vSkip[i])
	}
	return sb.String()
}

// ShapeErrors checks, on a link tree in pre-order (absolute paths + depths), the facts the Lean
// completeness theorems assume of link trees (GS.Loader.WF, PathsDFS, root path empty, other paths
// non-empty): the descendants of a node (following nodes of greater depth) are exactly the following
// nodes whose path properly extends the node's path; paths are distinct and a link comes before the
// links below it; everything under a path prefix is visited contiguously.  Returns the violations
// (none expected for anything go-ipld-prime's traversal produces).
func ShapeErrors(paths [][]string, depth []int) []string {
	var errs []string
	n := len(paths)
	isPre := func(a, b []string) bool { return isPrefix(a, b) }
	for i := 0; i < n; i++ {
		if i == 0 && (len(paths[0]) != 0 || depth[0] != 0) {
			errs = append(errs, "root path/depth not empty/0")
		}
		if i > 0 && (len(paths[i]) == 0 || depth[i] <= 0) {
			errs = append(errs, fmt.Sprintf("node %d: empty path or depth 0", i))
		}
		// WF: subtree by depth == proper path extensions
		j := i + 1
		for ; j < n && depth[j] > depth[i]; j++ {
			if !isProperPrefix(paths[i], paths[j]) {
				errs = append(errs, fmt.Sprintf("WF: node %d is in the subtree of %d but its path does not extend it", j, i))
			}
		}
		for ; j < n; j++ {
			if isProperPrefix(paths[i], paths[j]) {
				errs = append(errs, fmt.Sprintf("WF: node %d follows the subtree of %d but its path extends it", j, i))
			}
		}
		// PathsDFS (a): no later path is a prefix of (or equal to) this one
		for j := i + 1; j < n; j++ {
			if isPre(paths[j], paths[i]) {
				errs = append(errs, fmt.Sprintf("PathsDFS: path of later node %d is a prefix of the path of %d", j, i))
			}
		}
		// PathsDFS (b): for every prefix x of the path, the following extensions of x are contiguous
		for l := 0; l <= len(paths[i]); l++ {
			x := paths[i][:l]
			k := i + 1
			for ; k < n && isPre(x, paths[k]); k++ {
			}
			for ; k < n; k++ {
				if isPre(x, paths[k]) {
					errs = append(errs, fmt.Sprintf("PathsDFS: node %d returns below prefix %v of node %d after leaving it", k, x, i))
				}
			}
		}
	}
	return errs
}

// Shape runs ShapeErrors on a link tree produced by the reference traversal.
func (lt *LT) Shape() []string {
	paths := make([][]string, len(lt.Loads))
	depth := make([]int, len(lt.Loads))
	for i, l := range lt.Loads {
		paths[i] = l.Path
		depth[i] = l.Depth
	}
	return ShapeErrors(paths, depth)
}
