import GSProofs.Lemmas.MsgQueueAtt1
/-!
# Message queue: attachments — state-level helpers
-/
namespace GS.MQ
open GS.Alloc

def AttQ (u : Sub) (t : Nat) (r : Req) (s : State) : Prop := ∃ b ∈ s.builders, AttB u t r b

/-- the number of `Error` notifications delivered to `u` so far (on any topic) -/
def errCount (u : Sub) : List Event → Nat
  | [] => 0
  | .notify u' _ k :: l => (if u' = u ∧ k = Kind.error then 1 else 0) + errCount u l
  | _ :: l => errCount u l

theorem errCount_append (u : Sub) (a b : List Event) : errCount u (a ++ b) = errCount u a + errCount u b := by
  induction a with
  | nil => simp [errCount]
  | cons e r ih =>
    cases e <;> simp only [List.cons_append, errCount, ih]
    omega

theorem errCount_pos_of_seq (u : Sub) (t : Topic) : ∀ (X : List Event), Kind.error ∈ seqOf u t X → 0 < errCount u X
  | [], h => by simp [seqOf] at h
  | e :: r, h => by
    cases e with
    | notify u' t' k =>
      simp only [seqOf] at h
      simp only [errCount]
      split at h
      · next hc =>
        rcases List.mem_cons.mp h with h | h
        · rw [if_pos ⟨hc.1, h.symm⟩]; omega
        · have := errCount_pos_of_seq u t r h; omega
      · have := errCount_pos_of_seq u t r h; omega
    | wire _ _ => exact errCount_pos_of_seq u t r (by simpa [seqOf] using h)
    | streamClosed _ => exact errCount_pos_of_seq u t r (by simpa [seqOf] using h)
    | mem _ => exact errCount_pos_of_seq u t r (by simpa [seqOf] using h)
    | built _ _ _ _ => exact errCount_pos_of_seq u t r (by simpa [seqOf] using h)
    | dropped _ => exact errCount_pos_of_seq u t r (by simpa [seqOf] using h)
    | senderClosed => exact errCount_pos_of_seq u t r (by simpa [seqOf] using h)
    | exitCallback => exact errCount_pos_of_seq u t r (by simpa [seqOf] using h)

theorem errCount_mono {s s' : State} (h : ∃ X, s'.log = s.log ++ X) (u : Sub) : errCount u s.log ≤ errCount u s'.log := by
  obtain ⟨X, hx⟩ := h
  rw [hx, errCount_append]; omega

/-- the response stream of request `r` has been closed and `u` has been delivered an `Error` after
    the moment at which it had received `n0` of them -/
def ErrSeen (r : Req) (u : Sub) (n0 : Nat) (s : State) : Prop :=
  r ∈ s.closedStreams ∧ n0 < errCount u s.log

/-- `u` is still attached to queued message `t` through request `r`, or has been told something about
    message `t`, or -- after the moment at which it had received `n0` Errors -- has been told that
    request `r` failed -/
def W (u : Sub) (t : Nat) (r : Req) (n0 : Nat) (s : State) : Prop :=
  (AttQ u t r s ∧ n0 ≤ errCount u s.log) ∨ seqOf u t s.log ≠ [] ∨ ErrSeen r u n0 s

structure AI (f : Req → Sub) (s : State) : Prop where
  bfun : ∀ b ∈ s.builders, BFun f b
  wfun : ∀ w ∈ s.waiters, w.tx.sub = f w.tx.req
  infl : ∀ m, s.pc.inflight = some m → ∀ r ∈ m.streams, f r ∈ (aget s.topics m.topic).getD []

theorem seq_mono {s s' : State} (h : ∃ X, s'.log = s.log ++ X) (u : Sub) (t : Nat) :
    (seqOf u t s.log ≠ [] → seqOf u t s'.log ≠ []) ∧ (∀ k, k ∈ seqOf u t s.log → k ∈ seqOf u t s'.log) := by
  obtain ⟨X, hx⟩ := h
  rw [hx, seqOf_append]
  constructor
  · intro h1 h2; apply h1; exact (List.append_eq_nil_iff.mp h2).1
  · intro k hk; exact List.mem_append_left _ hk

theorem ErrSeen.mono {r : Req} {u : Sub} {n0 : Nat} {s s' : State} (h : ErrSeen r u n0 s)
    (hc : ∀ r ∈ s.closedStreams, r ∈ s'.closedStreams) (hl : ∃ X, s'.log = s.log ++ X) : ErrSeen r u n0 s' :=
  ⟨hc r h.1, Nat.lt_of_lt_of_le h.2 (errCount_mono hl u)⟩

/-- waiters: who waits for what is unchanged -/
def WCore (s s' : State) : Prop := s'.waiters.map Waiter.core = s.waiters.map Waiter.core

theorem WCore.wfun {f : Req → Sub} {s s' : State} (h : WCore s s') (hw : ∀ w ∈ s.waiters, w.tx.sub = f w.tx.req) :
    ∀ w ∈ s'.waiters, w.tx.sub = f w.tx.req := by
  intro w hw'
  obtain ⟨w0, h0, _, e2, _⟩ := core_mem h w hw'
  rw [e2]; exact hw w0 h0

theorem release_wcore (pick : Pick) (s : State) (n : Nat) : WCore s (s.release pick n) :=
  answerWaiters_core _ _ _

theorem allocStep_wcore (pick : Pick) (s : State) (op : Alloc.Op) : WCore s (s.allocStep pick op).1 :=
  answerWaiters_core _ _ _

theorem WCore.trans {a b c : State} (h1 : WCore a b) (h2 : WCore b c) : WCore a c := by
  unfold WCore at *; rw [h2, h1]

theorem WCore.of_eq {s s' : State} (h : s'.waiters = s.waiters) : WCore s s' := by unfold WCore; rw [h]

/-- closed streams and waiters after `publishError` -/
theorem publishError_closed (pick : Pick) (s : State) (m : InFlight) :
    (∀ r ∈ s.closedStreams, r ∈ (s.publishError pick m).closedStreams) ∧
    (∀ r ∈ m.streams, r ∈ (s.publishError pick m).closedStreams) ∧ WCore s (s.publishError pick m) ∧
    (s.publishError pick m).nextTopic = s.nextTopic := by
  unfold State.publishError
  simp only
  generalize hc : m.streams.foldl (fun acc r => if acc.contains r then acc else acc ++ [r]) s.closedStreams = cl
  have hcl : (∀ r ∈ s.closedStreams, r ∈ cl) ∧ (∀ r ∈ m.streams, r ∈ cl) := by
    rw [← hc]
    have key : ∀ (l : List Req) (acc : List Req),
        (∀ r ∈ acc, r ∈ l.foldl (fun acc r => if acc.contains r then acc else acc ++ [r]) acc) ∧
        (∀ r ∈ l, r ∈ l.foldl (fun acc r => if acc.contains r then acc else acc ++ [r]) acc) := by
      intro l
      induction l with
      | nil => intro acc; exact ⟨fun r h => h, fun r h => by cases h⟩
      | cons x rest ih =>
        intro acc
        simp only [List.foldl_cons]
        obtain ⟨i1, i2⟩ := ih (if acc.contains x then acc else acc ++ [x])
        have hsub : ∀ r ∈ acc, r ∈ (if acc.contains x then acc else acc ++ [x]) := by
          intro r hr; split
          · exact hr
          · exact List.mem_append_left _ hr
        have hx : x ∈ (if acc.contains x then acc else acc ++ [x]) := by
          split
          · next h => exact List.contains_iff_mem.mp h
          · simp
        refine ⟨fun r hr => i1 r (hsub r hr), ?_⟩
        intro r hr
        rcases List.mem_cons.mp hr with rfl | hr
        · exact i1 _ hx
        · exact i2 r hr
    exact key m.streams s.closedStreams
  generalize hsc : scrubAll m.streams
    (({ s with closedStreams := cl } : State).emit (m.streams.map Event.streamClosed)).builders = sc
  obtain ⟨bs, freed⟩ := sc
  simp only
  have q : ∀ s3 : State, QFrame s3 (((if freed > 0 then s3.release pick freed else s3).publish m.topic Kind.error).release pick m.size) ∧
      WCore s3 (((if freed > 0 then s3.release pick freed else s3).publish m.topic Kind.error).release pick m.size) := by
    intro s3
    have q1 : QFrame s3 (if freed > 0 then s3.release pick freed else s3) ∧ WCore s3 (if freed > 0 then s3.release pick freed else s3) := by
      split
      · exact ⟨release_qframe _ _ _, release_wcore _ _ _⟩
      · exact ⟨QFrame.refl _, WCore.of_eq rfl⟩
    have f2 := publish_frame (if freed > 0 then s3.release pick freed else s3) m.topic Kind.error
    exact ⟨(q1.1.trans f2.q).trans (release_qframe _ _ _), (q1.2.trans (WCore.of_eq f2.waiters)).trans (release_wcore _ _ _)⟩
  obtain ⟨q1, q2⟩ := q ({ ({ s with closedStreams := cl } : State).emit (m.streams.map Event.streamClosed) with builders := bs } : State)
  refine ⟨?_, ?_, q2, q1.nextTopic⟩
  · intro r hr; rw [q1.closedStreams]; exact hcl.1 r hr
  · intro r hr; rw [q1.closedStreams]; exact hcl.2 r hr

theorem scrubAll_keeps (reqs : List Req) : ∀ (bs : List Builder) (b : Builder), b ∈ bs → (b.scrub reqs).1.empty = false →
    (b.scrub reqs).1 ∈ (scrubAll reqs bs).1
  | [], _, h, _ => by cases h
  | x :: r, b, h, he => by
    simp only [scrubAll]
    rcases List.mem_cons.mp h with rfl | h
    · rw [he]; simp
    · have := scrubAll_keeps reqs r b h he
      split
      · exact this
      · exact List.mem_cons_of_mem _ this

theorem scrubAll_bfun (f : Req → Sub) (reqs : List Req) (bs : List Builder) (h : ∀ b ∈ bs, BFun f b) :
    ∀ b ∈ (scrubAll reqs bs).1, BFun f b := by
  induction bs with
  | nil => intro b hb; simp [scrubAll] at hb
  | cons x r ih =>
    intro b hb
    simp only [scrubAll] at hb
    have ih' := ih (fun y hy => h y (List.mem_cons_of_mem _ hy))
    split at hb
    · exact ih' b hb
    · rcases List.mem_cons.mp hb with rfl | hb
      · exact (scrub_att f x reqs (h x (by simp))).1
      · exact ih' b hb

/-- `publishError` in the middle of a message whose streams' subscribers are subscribed to it -/
theorem publishError_att (pick : Pick) (f : Req → Sub) {s : State} {m : InFlight} {U : List Sub} {σ : List Kind} {b : Bool}
    (hm : Mid s m U σ b) (hb : ∀ x ∈ s.builders, BFun f x) (hU : ∀ r ∈ m.streams, f r ∈ U) :
    (∀ x ∈ (s.publishError pick m).builders, BFun f x) ∧
    (∀ u t r, AttQ u t r s → AttQ u t r (s.publishError pick m) ∨
      (r ∈ (s.publishError pick m).closedStreams ∧ errCount u s.log < errCount u (s.publishError pick m).log)) := by
  have hsh := publishError_shape pick s m
  have hcl := publishError_closed pick s m
  have hmid := hm.publishError pick
  refine ⟨by rw [hsh.1]; exact scrubAll_bfun f _ _ hb, ?_⟩
  intro u t r ⟨x, hx, hatt⟩
  obtain ⟨ht, hr, hc⟩ := hatt
  by_cases hin : m.streams.contains r = true
  · right
    have hrm : r ∈ m.streams := List.contains_iff_mem.mp hin
    have hfu : f r = u := ((hb x hx).subs (r, u) hr).symm
    refine ⟨hcl.2.1 r hrm, ?_⟩
    have huU : u ∈ U := hfu ▸ hU r hrm
    have h1 := hmid.seqM u
    have h0 := hm.seqM u
    rw [if_pos huU] at h1 h0
    obtain ⟨X, hX⟩ := (publishError_ext pick s m).mono
    rw [hX, seqOf_append, h0] at h1
    have hx1 : seqOf u m.topic X = [Kind.error] := List.append_cancel_left h1
    have := errCount_pos_of_seq u m.topic X (by rw [hx1]; simp)
    rw [hX, errCount_append]; omega
  · left
    have hn : m.streams.contains r = false := by simpa using hin
    have ha := (scrub_att f x m.streams (hb x hx)).2 u t r ht hr hc hn
    refine ⟨(x.scrub m.streams).1, ?_, ha⟩
    rw [hsh.1]
    exact scrubAll_keeps _ _ x hx ha.nonempty

end GS.MQ
