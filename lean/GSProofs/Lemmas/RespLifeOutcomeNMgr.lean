import GSProofs.Lemmas.RespLifeOutcomeNWorker
/-!
Outcome accounting, part 2: the manager handlers that neither confirm a network error nor answer a
publisher (`MStep`).
-/
namespace GS.RespLife

-- ------------------------------------------------------------------ lookups after table updates
theorem lookup_setState (s : State) (id : Id) (st : RState) (r : Id) :
    lookup (setState s id st) r = (lookup s r).map fun x => if x.id == id then { x with state := st } else x := by
  unfold lookup setState
  exact lookup_map s id r (fun x => { x with state := st }) (fun _ => rfl)

theorem lookup_delResp (s : State) (id r : Id) : lookup (delResp s id) r = if r = id then none else lookup s r := by
  unfold lookup delResp
  simp only
  induction s.table with
  | nil => simp
  | cons x xs ih =>
    simp only [List.filter_cons]
    by_cases hd : x.id = id
    · simp only [hd, bne_self_eq_false, Bool.false_eq_true, if_false, List.find?_cons]
      by_cases h : r = id
      · simpa [h] using ih
      · have : (id == r) = false := by simp; exact fun e => h e.symm
        simp only [this]
        simpa [h] using ih
    · have hne : (x.id != id) = true := by simp [hd]
      simp only [hne, if_true, List.find?_cons]
      by_cases h : (x.id == r) = true
      · have h' : x.id = r := by simpa using h
        have : r ≠ id := by rw [← h']; exact hd
        simp [h, this]
      · simp only [h]; exact ih

theorem lookup_insertResp (s : State) (x : Resp) (r : Id) :
    lookup (insertResp s x) r = if r = x.id then some { x with inc := s.nextInc } else lookup s r := by
  have h1 := lookup_delResp s x.id r
  unfold lookup delResp at h1
  simp only at h1
  unfold lookup insertResp
  simp only
  rw [List.find?_append, h1]
  by_cases h : r = x.id
  · subst h; simp
  · have : (x.id == r) = false := by simp; exact fun e => h e.symm
    simp only [h, if_false]
    cases s.table.find? (·.id == r) <;> simp [this]

theorem rinfo_setState (r : Id) (s : State) (id : Id) (st : RState) :
    rinfo r (setState s id st) = if r = id then (rinfo r s).map (fun t => (st, t.2)) else rinfo r s := by
  unfold rinfo
  rw [lookup_setState]
  cases hl : lookup s r with
  | none => simp
  | some x =>
    have hx : x.id = r := (lookup_some hl).2
    by_cases h : r = id
    · subst h; simp [hx]
    · have h2 : x.id ≠ id := by rw [hx]; exact h
      simp [h2, h]

theorem rinfo_delResp (r : Id) (s : State) (id : Id) :
    rinfo r (delResp s id) = if r = id then none else rinfo r s := by
  unfold rinfo
  rw [lookup_delResp]
  split <;> rfl

theorem rinfo_insertResp (r : Id) (s : State) (x : Resp) :
    rinfo r (insertResp s x) = if r = x.id then some (x.state, x.aux.netErr) else rinfo r s := by
  unfold rinfo
  rw [lookup_insertResp]
  split <;> rfl

theorem rinfo_of_table {s s' : State} (h : s'.table = s.table) (r : Id) : rinfo r s' = rinfo r s := by
  unfold rinfo; rw [lookup_of_table h]

theorem aliveW_le_one (o : Option (RState × Bool)) : aliveW o ≤ 1 := by
  unfold aliveW; split <;> omega

/-- a change of the table only, the manager not parked -/
theorem mstep_table {r : Id} {s s' : State} (hc : cancC r s' = cancC r s) (hn : nerrC r s' = nerrC r s)
    (hr : regs r s' = regs r s) (hp : s.park = none) (hp' : s'.park = none) (hm : s'.mailbox = s.mailbox)
    (hq : s'.mqs = s.mqs)
    (hne : ∀ st, rinfo r s' = some (st, true) → ∃ st0, rinfo r s = some (st0, true))
    (ha : aliveW (rinfo r s') ≤ aliveW (rinfo r s)) : MStep r s s' := by
  refine ⟨hn, ?_, ?_, hne, ?_⟩
  · intro p
    have : getMQ s' p = getMQ s p := by unfold getMQ; rw [hq]
    rw [this]; exact ⟨rfl, rfl⟩
  · intro p; rw [hm]; exact ⟨rfl, rfl⟩
  · simp only [EP, hp, hp', hc, hr]
    have e1 : parkErr r none = false := rfl
    rw [e1]
    simp only [Bool.false_eq_true, if_false]
    omega

theorem mstep_setState (r : Id) (s : State) (id : Id) (st : RState) (hp : s.park = none)
    (hsafe : id = r → st ≠ .running → rinfo r s ≠ some (.running, true)) : MStep r s (setState s id st) := by
  refine mstep_table (s := s) (s' := setState s id st) rfl rfl rfl hp hp rfl rfl ?_ ?_
  · intro st' hst
    rw [rinfo_setState] at hst
    split at hst
    · cases hi : rinfo r s with
      | none => rw [hi] at hst; cases hst
      | some t =>
        rw [hi] at hst
        simp only [Option.map_some, Option.some.injEq, Prod.mk.injEq] at hst
        exact ⟨t.1, by rw [← hst.2]⟩
    · exact ⟨st', hst⟩
  · rw [rinfo_setState]
    split
    · rename_i hid
      cases hi : rinfo r s with
      | none => simp [aliveW]
      | some t =>
        obtain ⟨a, b⟩ := t
        simp only [Option.map_some]
        cases b with
        | false => cases st <;> cases a <;> simp [aliveW]
        | true =>
          cases st with
          | running => simp [aliveW]
          | queued | paused | completing =>
            cases a with
            | running => exact absurd hi (hsafe hid.symm (by simp))
            | _ => simp [aliveW]
    · exact Nat.le_refl _

theorem rinfo_modAux' (r : Id) (s : State) (id : Id) (f : Aux → Aux) (hf : id = r → ∀ a, (f a).netErr = a.netErr) :
    rinfo r (modAux s id f) = rinfo r s := by
  unfold rinfo lookup modAux
  rw [lookup_map s id r (fun x => { x with aux := f x.aux }) (fun _ => rfl)]
  cases hl : s.table.find? (·.id == r) with
  | none => rfl
  | some x =>
    have hx : x.id = r := by simpa using List.find?_some hl
    simp only [Option.map_some]
    split
    · rename_i h
      have : id = r := by rw [← hx]; exact (by simpa using h : x.id = id).symm
      simp [hf this]
    · rfl

theorem mstep_modAux' (r : Id) (s : State) (id : Id) (f : Aux → Aux) (hf : id = r → ∀ a, (f a).netErr = a.netErr) :
    MStep r s (modAux s id f) := by
  apply MStep.same (s' := modAux s id f) <;> try rfl
  · exact rinfo_modAux' r s id f hf
  · intro p; exact ⟨rfl, rfl⟩
  · intro p; exact ⟨rfl, rfl⟩

theorem rinfo_lookup {r : Id} {s : State} {x : Resp} (h : lookup s r = some x) :
    rinfo r s = some (x.state, x.aux.netErr) := by simp [rinfo, h]

theorem rinfo_lookup_none {r : Id} {s : State} (h : lookup s r = none) : rinfo r s = none := by simp [rinfo, h]

-- ------------------------------------------------------------------ terminate
theorem mstep_delResp (r : Id) (s : State) (id : Id) (hp : s.park = none) : MStep r s (delResp s id) := by
  refine mstep_table (s := s) (s' := delResp s id) rfl rfl rfl hp hp rfl rfl ?_ ?_
  · intro st hst
    rw [rinfo_delResp] at hst
    split at hst
    · cases hst
    · exact ⟨st, hst⟩
  · rw [rinfo_delResp]
    split
    · exact Nat.zero_le _
    · exact Nat.le_refl _

theorem mstep_terminate (r : Id) (s : State) (id : Id) (hp : s.park = none) : MStep r s (terminate s id) := by
  unfold terminate
  split
  · exact MStep.refl r s
  · rename_i x hl
    have h1 := mstep_emit r s (.unprotect x.peer id) rfl rfl rfl
    have h2 : MStep r (emit s (.unprotect x.peer id))
        { (emit s (.unprotect x.peer id)) with prot := (emit s (.unprotect x.peer id)).prot.filter (· != (x.peer, id)) } :=
      mstep_field rfl rfl rfl rfl rfl
    exact (h1.trans h2).trans (mstep_delResp r _ id hp)

/-- precise balance of `terminate` on the response `r` itself -/
theorem rinfo_terminate (r : Id) (s : State) : rinfo r (terminate s r) = none := by
  unfold terminate
  split
  · rename_i hl; exact rinfo_lookup_none hl
  · rw [rinfo_delResp]; simp

theorem cancC_terminate (r : Id) (s : State) (id : Id) : cancC r (terminate s id) = cancC r s := by
  unfold terminate
  split
  · rfl
  · simp [cancC, delResp, emit, List.countP_append, cancEv]

theorem regs_terminate (r : Id) (s : State) (id : Id) : regs r (terminate s id) = regs r s := by
  unfold terminate
  split
  · rfl
  · simp [regs, delResp, emit, List.countP_append, regEv]

-- ------------------------------------------------------------------ queue operations
theorem mstep_pushTask (r : Id) (s : State) (p : Peer) (id : Id) (pri : Nat) : MStep r s (pushTask s p id pri) := by
  unfold pushTask
  simp only
  split
  · exact MStep.refl r s
  · split <;> exact mstep_field rfl rfl rfl rfl rfl

theorem mstep_removeTask (r : Id) (s : State) (p : Peer) (id : Id) : MStep r s (removeTask s p id) := by
  unfold removeTask
  simp only
  split
  · exact mstep_field rfl rfl rfl rfl rfl
  · exact MStep.refl r s

theorem mstep_taskDone (r : Id) (s : State) (p : Peer) (id : Id) : MStep r s (taskDone s p id) := by
  unfold taskDone
  split
  · exact mstep_field rfl rfl rfl rfl rfl
  · exact MStep.refl r s

-- ------------------------------------------------------------------ parking
theorem mstep_parkMgr (r : Id) (s : State) (cont : MgrCont) (p : Peer) (id : Id) (ops : List TxOp)
    (hp : s.park = none) (hpn : PN r (some ⟨cont, p, id, ops, false⟩) = 0)
    (hpe : parkErr r (some ⟨cont, p, id, ops, false⟩) = true → aliveW (rinfo r s) = 1) :
    MStep r s (parkMgr s cont p id ops) := by
  refine ⟨rfl, fun _ => ⟨rfl, rfl⟩, fun _ => ⟨rfl, rfl⟩, fun st h => ⟨st, h⟩, ?_⟩
  have e1 : cancC r (parkMgr s cont p id ops) = cancC r s := rfl
  have e2 : regs r (parkMgr s cont p id ops) = regs r s := rfl
  have e3 : rinfo r (parkMgr s cont p id ops) = rinfo r s := rfl
  have e4 : (parkMgr s cont p id ops).park = some ⟨cont, p, id, ops, false⟩ := rfl
  have e5 : parkErr r none = false := rfl
  have e6 : PN r none = 0 := rfl
  simp only [EP, e1, e2, e3, e4, hp, e5, e6, hpn]
  simp only [Bool.false_eq_true, if_false]
  split
  · rename_i h; rw [hpe h]; omega
  · omega

theorem park_setState (s : State) (id : Id) (st : RState) : (setState s id st).park = s.park := rfl
theorem park_modAux (s : State) (id : Id) (f : Aux → Aux) : (modAux s id f).park = s.park := rfl

theorem aliveW_not_running {st : RState} {b : Bool} (h : st ≠ .running) : aliveW (some (st, b)) = 1 := by
  cases st <;> simp_all [aliveW]

-- ------------------------------------------------------------------ abortRequest (requestor cancel, CancelResponse,
-- network errors of other requests)
theorem mstep_abortRequest (r : Id) (s : State) (id : Id) (err : Sig) (hp : s.park = none)
    (hnet : err = .network → id ≠ r) : MStep r s (abortRequest s id err).1 := by
  unfold abortRequest
  split
  · exact MStep.refl r s
  · rename_i x hl
    simp only
    have hrm := mstep_removeTask r s x.peer id
    have hpr : (removeTask s x.peer id).park = none := by rw [park_removeTask]; exact hp
    have hlr : lookup (removeTask s x.peer id) id = some x := by
      rw [lookup_of_table (table_removeTask s x.peer id)]; exact hl
    split
    · exact hrm
    · rename_i hc
      split
      · rename_i hrun
        have hnr : x.state ≠ .running := by simpa using hrun
        cases err with
        | ctxCancel =>
          simp only
          refine hrm.trans ?_
          generalize removeTask s x.peer id = s1 at hpr hlr
          by_cases hid : id = r
          · subst hid
            have ht := mstep_terminate id s1 id hpr
            refine ⟨?_, fun p => ht.pub p, fun p => ht.mail p, ?_, ?_⟩
            · have : nerrC id (emit (terminate s1 id) (.canc id)) = nerrC id (terminate s1 id) := by
                simp [nerrC, emit, List.countP_append, nerrEv]
              rw [this]; exact ht.nerr
            · intro st hst
              have : rinfo id (emit (terminate s1 id) (.canc id)) = none := rinfo_terminate id s1
              rw [this] at hst; cases hst
            · have e1 : cancC id (emit (terminate s1 id) (.canc id)) = cancC id s1 + 1 := by
                simp [cancC, emit, List.countP_append, cancEv]
                exact cancC_terminate id s1 id
              have e2 : regs id (emit (terminate s1 id) (.canc id)) = regs id s1 := by
                simp [regs, emit, List.countP_append, regEv]
                exact regs_terminate id s1 id
              have e3 : rinfo id (emit (terminate s1 id) (.canc id)) = none := rinfo_terminate id s1
              have e4 : (emit (terminate s1 id) (.canc id)).park = none := by
                show (terminate s1 id).park = none
                rw [park_terminate]; exact hpr
              have e5 : parkErr id none = false := rfl
              simp only [EP, e1, e2, e3, e4, hpr, e5, rinfo_lookup hlr, aliveW_not_running hnr]
              simp [aliveW]
          · have h1 := mstep_terminate r s1 id hpr
            refine h1.trans (mstep_emit r _ (.canc id) ?_ rfl rfl)
            simpa [cancEv] using hid
        | network =>
          simp only
          exact hrm.trans (mstep_terminate r _ id hpr)
        | cancelCmd =>
          simp only
          refine (hrm.trans (mstep_setState r _ id .completing hpr ?_)).trans (mstep_execTx r _ _ _ _ _)
          intro hid _
          subst hid
          rw [rinfo_lookup hlr]
          intro h
          simp only [Option.some.injEq, Prod.mk.injEq] at h
          exact hnr h.1
      · refine hrm.trans ?_
        dsimp only
        refine mstep_modAux' r _ id _ ?_
        intro hid a
        have hne : err ≠ .network := fun e => hnet e hid
        have : (err == Sig.network) = false := by simpa using hne
        simp only [this, Bool.false_eq_true, if_false]
        split <;> rfl

theorem mstep_pauseRequest (r : Id) (s : State) (id : Id) : MStep r s (pauseRequest s id).1 := by
  unfold pauseRequest
  split
  · exact MStep.refl r s
  · split
    · exact MStep.refl r s
    · split
      · exact MStep.refl r s
      · dsimp only
        exact mstep_modAux r s id _ (by intro _; rfl)

theorem mstep_unpauseFinish (r : Id) (s : State) (id : Id) : MStep r s (unpauseFinish s id) := by
  unfold unpauseFinish
  split
  · exact MStep.refl r s
  · exact mstep_pushTask r s _ id _

theorem mstep_unpauseRequest (r : Id) (s : State) (id : Id) (ext : Bool) (hp : s.park = none) :
    MStep r s (unpauseRequest s id ext).1 := by
  unfold unpauseRequest
  split
  · exact MStep.refl r s
  · rename_i x hl
    split
    · exact MStep.refl r s
    · rename_i hst
      have hst' : x.state = .paused := by simpa using hst
      simp only
      have h1 : MStep r s (setState (modAux s id fun a => { a with sigPause := false }) id .queued) := by
        refine (mstep_modAux r s id _ (by intro _; rfl)).trans (mstep_setState r _ id .queued hp ?_)
        intro hid _
        subst hid
        rw [rinfo_modAux id s id _ (by intro _; rfl), rinfo_lookup hl, hst']
        simp
      split
      · have hx := mstep_execTx r (setState (modAux s id fun a => { a with sigPause := false }) id .queued) .mgr
          x.peer id [.ext]
        have hpx : (execTx (setState (modAux s id fun a => { a with sigPause := false }) id .queued) .mgr
          x.peer id [.ext]).1.park = none := park_execTx_none (s := setState (modAux s id _) id .queued) hp _ _ _ _
        generalize execTx (setState (modAux s id fun a => { a with sigPause := false }) id .queued) .mgr
          x.peer id [.ext] = pr at hx hpx
        obtain ⟨s2, ok⟩ := pr
        simp only at hx hpx ⊢
        split
        · exact (h1.trans hx).trans (mstep_unpauseFinish r s2 id)
        · exact (h1.trans hx).trans (mstep_parkMgr r s2 _ x.peer id [.ext] hpx rfl (by intro h; cases h))
      · exact h1.trans (mstep_unpauseFinish r _ id)

theorem mstep_updateRequest (r : Id) (s : State) (id : Id) (ext : Bool) (hp : s.park = none) :
    MStep r s (updateRequest s id ext).1 := by
  unfold updateRequest
  split
  · exact MStep.refl r s
  · rename_i x hl
    simp only
    have hx := mstep_execTx r s .mgr x.peer id ((if ext = true then [TxOp.ext] else []) ++ [TxOp.status stPartial])
    have hpx : (execTx s .mgr x.peer id ((if ext = true then [TxOp.ext] else []) ++ [TxOp.status stPartial])).1.park =
        none := park_execTx_none hp _ _ _ _
    generalize execTx s .mgr x.peer id ((if ext = true then [TxOp.ext] else []) ++ [TxOp.status stPartial]) = pr
      at hx hpx
    obtain ⟨s1, ok⟩ := pr
    simp only at hx hpx ⊢
    split
    · exact hx
    · exact hx.trans (mstep_parkMgr r s1 _ x.peer id _ hpx rfl (by intro h; cases h))

theorem mstep_procUpdateFinish (r : Id) (s : State) (id : Id) (plan : UP) (hp : s.park = none)
    (hsafe : id = r → plan = .err → rinfo r s ≠ some (.running, true)) : MStep r s (procUpdateFinish s id plan) := by
  unfold procUpdateFinish
  split
  · exact MStep.refl r s
  · rename_i x hl
    have hxid : x.id = id := (lookup_some hl).2
    split
    · rename_i hpl
      rw [hxid]
      exact mstep_setState r s id .completing hp (fun hid _ => hsafe hid (by simpa using hpl))
    · split
      · exact mstep_unpauseRequest r s id false hp
      · exact MStep.refl r s

theorem mstep_processUpdate (r : Id) (s : State) (id : Id) (plan : UP) (hp : s.park = none) :
    MStep r s (processUpdate s id plan) := by
  unfold processUpdate
  split
  · exact MStep.refl r s
  · rename_i x hl
    split
    · exact MStep.refl r s
    · split
      · exact mstep_modAux r s id _ (by intro _; rfl)
      · rename_i hst
        have hst' : x.state = .paused := by simpa using hst
        simp only
        generalize ((if (plan == .ext || plan == .unpauseExt) = true then [TxOp.ext] else []) ++
          (if (plan == .err) = true then [TxOp.status stFailedUnknown] else [])) = ops
        have hx := mstep_execTx r s .mgr x.peer id ops
        have hpx : (execTx s .mgr x.peer id ops).1.park = none := park_execTx_none hp _ _ _ _
        have htx := table_execTx s .mgr x.peer id ops
        generalize execTx s .mgr x.peer id ops = pr at hx hpx htx
        obtain ⟨s1, ok⟩ := pr
        simp only at hx hpx htx ⊢
        have hri : id = r → rinfo r s1 = some (.paused, x.aux.netErr) := by
          intro e; subst e
          rw [rinfo_of_table htx, rinfo_lookup hl, hst']
        split
        · refine hx.trans (mstep_procUpdateFinish r s1 id plan hpx ?_)
          intro hid _
          rw [hri hid]; simp
        · refine hx.trans (mstep_parkMgr r s1 (.procUpdate id plan) x.peer id ops hpx rfl ?_)
          intro h
          have hid : id = r := by
            simp only [parkErr, Bool.and_eq_true, beq_iff_eq] at h
            exact h.1
          rw [hri hid]; rfl

end GS.RespLife
