import GSProofs.Lemmas.AllocatorSteps
/-!
# Allocator: per-operation specifications in terms of the per-peer views, and the
trace-level notions used by C13 (ledger replay) and C14 (request order)
-/
namespace GS.Alloc

/-! ## definitions used in the property statements -/

/-- Replays the events concerning peer `p` over an exact natural-number ledger starting at `cur`:
    `granted p _ a` adds `a`, `released p a` subtracts `a` and **fails (`none`) if that would go
    below zero**. -/
def replayFrom (p : Nat) : Nat → List Event → Option Nat
  | cur, [] => some cur
  | cur, Event.granted q _ a :: es => if q = p then replayFrom p (cur + a) es else replayFrom p cur es
  | cur, Event.released q a :: es =>
      if q = p then (if a ≤ cur then replayFrom p (cur - a) es else none) else replayFrom p cur es
  | cur, Event.failed _ _ :: es => replayFrom p cur es
  | cur, Event.errNoPeer :: es => replayFrom p cur es

/-- sum of the amounts granted to `p` -/
def grantedSum (p : Nat) : List Event → Nat
  | [] => 0
  | Event.granted q _ a :: es => (if q = p then a else 0) + grantedSum p es
  | _ :: es => grantedSum p es

/-- sum of the (clamped) amounts released by `p` -/
def releasedSum (p : Nat) : List Event → Nat
  | [] => 0
  | Event.released q a :: es => (if q = p then a else 0) + releasedSum p es
  | _ :: es => releasedSum p es

/-- tickets of peer `p` that were resolved (granted or failed), in event order -/
def resolved (p : Nat) : List Event → List Nat
  | [] => []
  | Event.granted q t _ :: es => if q = p then t :: resolved p es else resolved p es
  | Event.failed q t :: es => if q = p then t :: resolved p es else resolved p es
  | _ :: es => resolved p es

/-- tickets requested by peer `p`, in request order -/
def requests (p : Nat) : List Op → List Nat
  | [] => []
  | Op.alloc q _ t :: ops => if q = p then t :: requests p ops else requests p ops
  | _ :: ops => requests p ops

/-- tickets of peer `p` that are still waiting, in queue order -/
def waiting (s : State) (p : Nat) : List Nat := (pendingOf s p).map (·.ticket)

theorem replayFrom_append (p : Nat) (c : Nat) (e1 e2 : List Event) :
    replayFrom p c (e1 ++ e2) = (replayFrom p c e1).bind (fun c' => replayFrom p c' e2) := by
  induction e1 generalizing c with
  | nil => simp [replayFrom]
  | cons e es ih =>
    cases e with
    | granted q t a => simp only [List.cons_append, replayFrom]; split <;> exact ih _
    | failed q t => simp only [List.cons_append, replayFrom]; exact ih _
    | released q a =>
      simp only [List.cons_append, replayFrom]
      split
      · split
        · exact ih _
        · rfl
      · exact ih _
    | errNoPeer => simp only [List.cons_append, replayFrom]; exact ih _

theorem replayFrom_failed (p c q : Nat) (l : List Pending) :
    replayFrom p c (l.map fun pa => Event.failed q pa.ticket) = some c := by
  induction l with
  | nil => rfl
  | cons a r ih => simp only [List.map_cons, replayFrom]; exact ih

theorem resolved_append (p : Nat) (e1 e2 : List Event) :
    resolved p (e1 ++ e2) = resolved p e1 ++ resolved p e2 := by
  induction e1 with
  | nil => rfl
  | cons e es ih =>
    cases e <;> simp only [List.cons_append, resolved, ih] <;> split <;> simp

theorem resolved_failed (p q : Nat) (l : List Pending) :
    resolved p (l.map fun pa => Event.failed q pa.ticket) = if q = p then l.map (·.ticket) else [] := by
  induction l with
  | nil => simp [resolved]
  | cons a r ih =>
    simp only [List.map_cons, resolved, ih]
    split <;> simp

theorem requests_append (p : Nat) (o1 o2 : List Op) :
    requests p (o1 ++ o2) = requests p o1 ++ requests p o2 := by
  induction o1 with
  | nil => rfl
  | cons o os ih =>
    cases o <;> simp only [List.cons_append, requests, ih] <;> split <;> simp

theorem grantedSum_append (p : Nat) (e1 e2 : List Event) :
    grantedSum p (e1 ++ e2) = grantedSum p e1 + grantedSum p e2 := by
  induction e1 with
  | nil => simp [grantedSum]
  | cons e es ih => cases e <;> simp only [List.cons_append, grantedSum, ih] <;> omega

theorem releasedSum_append (p : Nat) (e1 e2 : List Event) :
    releasedSum p (e1 ++ e2) = releasedSum p e1 + releasedSum p e2 := by
  induction e1 with
  | nil => simp [releasedSum]
  | cons e es ih => cases e <;> simp only [List.cons_append, releasedSum, ih] <;> omega

/-- a successful replay is the plain difference of the two sums -/
theorem replayFrom_sums {p c c' : Nat} {es : List Event} (h : replayFrom p c es = some c') :
    c' + releasedSum p es = c + grantedSum p es := by
  induction es generalizing c with
  | nil => simp only [replayFrom, Option.some.injEq] at h; simp [releasedSum, grantedSum, h]
  | cons e es ih =>
    cases e with
    | granted q t a =>
      simp only [replayFrom] at h
      simp only [releasedSum, grantedSum]
      split at h
      · have := ih h; simp [*]; omega
      · have := ih h; simp [*]
    | failed q t => simp only [replayFrom] at h; simp only [releasedSum, grantedSum]; exact ih h
    | errNoPeer => simp only [replayFrom] at h; simp only [releasedSum, grantedSum]; exact ih h
    | released q a =>
      simp only [replayFrom] at h
      simp only [releasedSum, grantedSum]
      split at h
      · split at h
        · have := ih h; simp [*]; omega
        · cases h
      · have := ih h; simp [*]

/-! ## one loop iteration, pointwise -/

theorem loopStep_views {pick : Pick} (hp : Admissible pick) {s s1 : State} {e : List Event} (hw : WF s)
    (hl : loopStep pick s = some (s1, e)) :
    (∃ np hd rest, np ∈ s.peers ∧ pendingIn s.peers np.id = hd :: rest ∧
        e = [Event.granted np.id hd.ticket hd.amount] ∧
        (∀ q, totalIn s1.peers q = if q = np.id then totalIn s.peers q + hd.amount else totalIn s.peers q) ∧
        (∀ q, pendingIn s1.peers q = if q = np.id then rest else pendingIn s.peers q)) ∨
    (e = [] ∧ (∀ q, totalIn s1.peers q = totalIn s.peers q) ∧
      (∀ q, pendingIn s1.peers q = pendingIn s.peers q)) := by
  have hc := loopStep_cases hp hw
  rw [hl] at hc
  cases hc with
  | grant np hd rest hmem hmin hpend h1 h2 =>
    left
    refine ⟨np, hd, rest, hmem, ?_, rfl, ?_, ?_⟩
    · rw [pendingIn_of_mem hw.nodup hmem, hpend]
    · intro q
      show totalIn (setPeer s.peers _) q = _
      rw [totalIn_setPeer hmem (by rfl)]
      by_cases hq : q = np.id
      · simp only [hq, if_true, totalIn_of_mem hw.nodup hmem]
      · simp only [hq, if_false]
    · intro q
      show pendingIn (setPeer s.peers _) q = _
      rw [pendingIn_setPeer hmem (by rfl)]
  | erase np hmem hmin hpend ht =>
    right
    refine ⟨rfl, ?_, ?_⟩
    · intro q
      show totalIn (erasePeer s.peers np.id) q = _
      rw [totalIn_erasePeer]
      by_cases hq : q = np.id
      · simp only [hq, if_true, totalIn_of_mem hw.nodup hmem, ht]
      · simp only [hq, if_false]
    · intro q
      show pendingIn (erasePeer s.peers np.id) q = _
      rw [pendingIn_erasePeer]
      by_cases hq : q = np.id
      · simp only [hq, if_true, pendingIn_of_mem hw.nodup hmem, hpend]
      · simp only [hq, if_false]

section loop
variable {pick : Pick} (hp : Admissible pick)
include hp

theorem processPending_ledger {s : State} (hw : WF s) (p : Nat) :
    replayFrom p (totalIn s.peers p) (processPending pick s).2
      = some (totalIn (processPending pick s).1.peers p) := by
  refine processPending_rec hp
    (motive := fun s r => replayFrom p (totalIn s.peers p) r.2 = some (totalIn r.1.peers p))
    (fun _ _ _ => rfl) ?_ s hw
  intro s s1 e r hw _ hl ih
  rcases loopStep_views hp hw hl with ⟨np, hd, rest, _, _, he, ht, _⟩ | ⟨he, ht, _⟩
  · rw [he]; simp only [List.cons_append, List.nil_append, replayFrom]
    rw [ht p] at ih
    by_cases hq : np.id = p
    · simp only [hq, if_true] at ih ⊢; exact ih
    · have : ¬ p = np.id := fun e => hq e.symm
      simp only [hq, this, if_false] at ih ⊢; exact ih
  · rw [he, ht p] at *; exact ih

theorem processPending_fifo {s : State} (hw : WF s) (p : Nat) :
    resolved p (processPending pick s).2 ++ (pendingIn (processPending pick s).1.peers p).map (·.ticket)
      = (pendingIn s.peers p).map (·.ticket) := by
  refine processPending_rec hp
    (motive := fun s r => resolved p r.2 ++ (pendingIn r.1.peers p).map (·.ticket)
        = (pendingIn s.peers p).map (·.ticket))
    (fun _ _ _ => rfl) ?_ s hw
  intro s s1 e r hw _ hl ih
  rcases loopStep_views hp hw hl with ⟨np, hd, rest, _, hpe, he, _, hpn⟩ | ⟨he, _, hpn⟩
  · rw [he]; simp only [List.cons_append, List.nil_append, resolved]
    rw [hpn p] at ih
    by_cases hq : np.id = p
    · subst hq
      simp only [if_true] at ih ⊢
      rw [hpe, List.cons_append, ih]; rfl
    · have : ¬ p = np.id := fun e => hq e.symm
      simp only [hq, this, if_false] at ih ⊢; exact ih
  · rw [he, hpn p] at *; exact ih

end loop

/-! ## per-operation specifications (pointwise) -/

/-- Complete description of `alloc` on a well-formed state. -/
theorem alloc_spec {s : State} (hw : WF s) (p a t : Nat) :
    (pendingIn s.peers p = [] ∧ s.total + a ≤ s.maxTotal ∧ totalIn s.peers p + a ≤ s.maxPeer →
      (alloc s p a t).2 = [Event.granted p t a] ∧
      (alloc s p a t).1.total = s.total + a ∧
      (∀ q, totalIn (alloc s p a t).1.peers q = if q = p then totalIn s.peers p + a else totalIn s.peers q) ∧
      (∀ q, pendingIn (alloc s p a t).1.peers q = pendingIn s.peers q)) ∧
    (¬ (pendingIn s.peers p = [] ∧ s.total + a ≤ s.maxTotal ∧ totalIn s.peers p + a ≤ s.maxPeer) →
      (alloc s p a t).2 = [] ∧
      (alloc s p a t).1.total = s.total ∧
      (∀ q, totalIn (alloc s p a t).1.peers q = totalIn s.peers q) ∧
      (∀ q, pendingIn (alloc s p a t).1.peers q =
        if q = p then pendingIn s.peers p ++ [{ amount := a, idx := s.nextIdx, ticket := t }]
        else pendingIn s.peers q)) := by
  rw [alloc_eq]
  have he := ensured_spec hw p
  generalize ensured s p = s0 at he ⊢
  generalize (getOrNew s.peers p).1 = st at he ⊢
  have hst : st.id = p := he.id
  have htot : st.total = totalIn s.peers p := by
    rw [← he.totalIn p, ← hst]; exact (totalIn_of_mem he.wf.nodup he.mem).symm
  have hpen : st.pending = pendingIn s.peers p := by
    rw [← he.pendingIn p, ← hst]; exact (pendingIn_of_mem he.wf.nodup he.mem).symm
  have hc := allocAt_cases he.wf st p a t
  generalize allocAt s0 st p a t = r at hc ⊢
  cases hc with
  | grant h0 h1 h2 =>
    constructor
    · intro _
      refine ⟨rfl, ?_, ?_, ?_⟩
      · show s0.total + a = s.total + a
        rw [he.total]
      · intro q
        show totalIn (setPeer s0.peers _) q = _
        rw [totalIn_setPeer he.mem (by rfl)]
        simp only [hst, htot, he.totalIn]
      · intro q
        show pendingIn (setPeer s0.peers _) q = _
        rw [pendingIn_setPeer he.mem (by rfl)]
        simp only [hst, hpen, he.pendingIn]
        split
        · next h => rw [h]
        · rfl
    · intro hn
      exact absurd ⟨hpen ▸ h0, he.total ▸ he.maxTotal ▸ h1, htot ▸ he.maxPeer ▸ h2⟩ hn
  | defer hcond =>
    constructor
    · intro hyes
      exfalso; apply hcond
      rw [hpen, htot, he.total, he.maxTotal, he.maxPeer]; exact hyes
    · intro _
      refine ⟨rfl, he.total, ?_, ?_⟩
      · intro q
        show totalIn (setPeer s0.peers _) q = _
        rw [totalIn_setPeer he.mem (by rfl)]
        simp only [hst, htot, he.totalIn]
        split
        · next h => rw [h]
        · rfl
      · intro q
        show pendingIn (setPeer s0.peers _) q = _
        rw [pendingIn_setPeer he.mem (by rfl)]
        simp only [hst, hpen, he.pendingIn, he.nextIdx]

/-- Complete description of `release` on a well-formed state. -/
theorem release_spec (pick : Pick) {s : State} (hw : WF s) (p a : Nat) :
    (findPeer s.peers p = none ∧ release pick s p a = (s, [Event.errNoPeer])) ∨
    (∃ st s1, findPeer s.peers p = some st ∧ WF s1 ∧
      release pick s p a = ((processPending pick s1).1,
        Event.released p (min a (totalIn s.peers p)) :: (processPending pick s1).2) ∧
      s1.total = s.total - min a (totalIn s.peers p) ∧
      (s1.maxTotal = s.maxTotal ∧ s1.maxPeer = s.maxPeer ∧ s1.nextIdx = s.nextIdx) ∧
      (∀ q, totalIn s1.peers q = if q = p then totalIn s.peers p - min a (totalIn s.peers p)
                                 else totalIn s.peers q) ∧
      (∀ q, pendingIn s1.peers q = pendingIn s.peers q)) := by
  cases hf : findPeer s.peers p with
  | none =>
    left; refine ⟨rfl, ?_⟩
    unfold release releaseCore; simp [hf]
  | some st =>
    right
    have hmem := findPeer_some hf
    have htot : totalIn s.peers p = st.total := by unfold totalIn; rw [hf]
    have hpen : pendingIn s.peers p = st.pending := by unfold pendingIn; rw [hf]
    refine ⟨st, _, rfl, releaseCore_WF hw (a := a) hf, ?_, ?_, ⟨rfl, rfl, rfl⟩, ?_, ?_⟩
    · unfold release
      rw [(releaseCore_some hw (a := a) hf).1, htot]
    · rw [htot]
    · intro q
      show totalIn (setPeer s.peers _) q = _
      rw [totalIn_setPeer hmem.1 (by rfl)]
      simp only [hmem.2, htot]
    · intro q
      show pendingIn (setPeer s.peers _) q = _
      rw [pendingIn_setPeer hmem.1 (by rfl)]
      simp only [hmem.2]
      split
      · next h => rw [h, hpen]
      · rfl

/-- Complete description of `releasePeer` on a well-formed state. -/
theorem releasePeer_spec (pick : Pick) {s : State} (hw : WF s) (p : Nat) :
    (findPeer s.peers p = none ∧ releasePeer pick s p = (s, [Event.errNoPeer])) ∨
    (∃ st s1, findPeer s.peers p = some st ∧ WF s1 ∧
      releasePeer pick s p = ((processPending pick s1).1,
        (Event.released p (totalIn s.peers p) ::
          (pendingIn s.peers p).map (fun pa => Event.failed p pa.ticket)) ++ (processPending pick s1).2) ∧
      s1.total = s.total - totalIn s.peers p ∧
      (s1.maxTotal = s.maxTotal ∧ s1.maxPeer = s.maxPeer ∧ s1.nextIdx = s.nextIdx) ∧
      findPeer s1.peers p = none ∧
      (∀ q, totalIn s1.peers q = if q = p then 0 else totalIn s.peers q) ∧
      (∀ q, pendingIn s1.peers q = if q = p then [] else pendingIn s.peers q)) := by
  cases hf : findPeer s.peers p with
  | none =>
    left; refine ⟨rfl, ?_⟩
    unfold releasePeer releasePeerCore; simp [hf]
  | some st =>
    right
    have htot : totalIn s.peers p = st.total := by unfold totalIn; rw [hf]
    have hpen : pendingIn s.peers p = st.pending := by unfold pendingIn; rw [hf]
    refine ⟨st, _, rfl, releasePeerCore_WF hw hf, ?_, ?_, ⟨rfl, rfl, rfl⟩, ?_, ?_, ?_⟩
    · unfold releasePeer
      rw [releasePeerCore_some hw hf, htot, hpen]
    · rw [htot]
    · exact findPeer_erasePeer_same _ _
    · intro q; exact totalIn_erasePeer _ _ _
    · intro q; exact pendingIn_erasePeer _ _ _

end GS.Alloc
