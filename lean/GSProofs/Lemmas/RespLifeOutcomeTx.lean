import GSProofs.Lemmas.RespLifeOutcomeBase
/-!
Outcome accounting: allocator, transactions (`execTx`, `buildNow`), `terminate`.
-/
namespace GS.RespLife

theorem chg_updMQ (r : Id) (s : State) (p : Peer) (f : PeerMQ → PeerMQ) (hp : ∀ q, (f q).peer = q.peer)
    (hwf : WFQ (getMQ s p) → WFQ (f (getMQ s p))) :
    Chg r s (setMQ s (f (getMQ s p))) (mqW r (f (getMQ s p))) (mqW r (getMQ s p)) := by
  have := chg_setMQ r s (f (getMQ s p)) (fun h => hwf (wfq_getMQ h p))
  rw [hp, getMQ_peer] at this
  exact this

theorem chg_field {r : Id} {s s' : State} (he : s'.events = s.events) (ht : s'.table = s.table)
    (hp : s'.park = s.park) (hw : s'.workers = s.workers) (hm : s'.mailbox = s.mailbox) (hq : s'.mqs = s.mqs) :
    Chg r s s' 0 0 := Chg.of_eq he ht hp hw hm hq

-- ------------------------------------------------------------------ allocator
theorem chg_addAlloc (r : Id) (s : State) (p : Peer) (n : Nat) : Chg r s (addAlloc s p n) 0 0 :=
  (chg_updMQ r s p (fun q => { q with allocated := q.allocated + n }) (fun _ => rfl) (fun h => h)).weaken
    (by simp only [mqW]; omega)

theorem chg_grantTo (r : Id) (s : State) (party : Party) : Chg r s (grantTo s party) 0 0 := by
  cases party with
  | mgr =>
    intro h0
    refine ⟨?_, rfl, h0⟩
    show Pot r { s with park := _ } + 0 ≤ _
    rw [Pot_park]
    simp only [Pot, entW]
    cases s.park with
    | none => exact Nat.le_refl _
    | some pk => exact Nat.le_refl _
  | worker w =>
    apply chg_setWorker_same
    · intro x; split <;> rfl
    · intro x
      split
      · rename_i ops k g h
        rw [h]
        cases k <;> rfl
      · rfl

theorem chg_grantLoop (r : Id) (fuel : Nat) (s : State) (p : Peer) : Chg r s (grantLoop fuel s p) 0 0 := by
  induction fuel generalizing s with
  | zero => exact Chg.refl r s
  | succ n ih =>
    unfold grantLoop
    split
    · exact Chg.refl r s
    · rename_i w _
      split
      · have h1 : Chg r s { s with waiting := s.waiting.erase w } 0 0 := chg_field rfl rfl rfl rfl rfl rfl
        have h2 := chg_addAlloc r { s with waiting := s.waiting.erase w } p w.size
        have h3 := chg_grantTo r (addAlloc { s with waiting := s.waiting.erase w } p w.size) w.party
        exact ((h1.trans h2).trans h3).trans (ih _)
      · exact Chg.refl r s

theorem chg_release (r : Id) (s : State) (p : Peer) (n : Nat) : Chg r s (release s p n) 0 0 := by
  unfold release
  simp only
  have h1 : Chg r s { s with underflow := s.underflow || decide ((getMQ s p).allocated < n) } 0 0 :=
    chg_field rfl rfl rfl rfl rfl rfl
  have h2 := chg_updMQ r { s with underflow := s.underflow || decide ((getMQ s p).allocated < n) } p
    (fun q => { q with allocated := q.allocated - n }) (fun _ => rfl) (fun h => h)
  have h3 : Chg r { s with underflow := s.underflow || decide ((getMQ s p).allocated < n) }
      (setMQ { s with underflow := s.underflow || decide ((getMQ s p).allocated < n) }
        { (getMQ s p) with allocated := (getMQ s p).allocated - n }) 0 0 :=
    h2.weaken (by simp only [mqW]; omega)
  have h4 := (h1.trans h3).trans (chg_grantLoop r
    (setMQ { s with underflow := s.underflow || decide ((getMQ s p).allocated < n) }
        { (getMQ s p) with allocated := (getMQ s p).allocated - n }).waiting.length _ p)
  exact h4

theorem chg_tryAlloc (r : Id) (s : State) (party : Party) (p : Peer) (n : Nat) :
    Chg r s (tryAlloc s party p n).1 0 0 := by
  unfold tryAlloc
  split
  · exact chg_addAlloc r s p n
  · exact chg_field rfl rfl rfl rfl rfl rfl

-- ------------------------------------------------------------------ builders
theorem mem_putEntry {es : List Entry} {e y : Entry} (h : y ∈ putEntry es e) : y = e ∨ y ∈ es := by
  induction es with
  | nil => simp only [putEntry, List.mem_singleton] at h; exact Or.inl h
  | cons x xs ih =>
    unfold putEntry at h
    split at h
    · rcases List.mem_cons.1 h with h | h
      · exact Or.inl h
      · exact Or.inr (List.mem_cons_of_mem _ h)
    · split at h
      · rcases List.mem_cons.1 h with h | h
        · exact Or.inl h
        · exact Or.inr h
      · rcases List.mem_cons.1 h with h | h
        · exact Or.inr (h ▸ List.mem_cons_self)
        · rcases ih h with h | h
          · exact Or.inl h
          · exact Or.inr (List.mem_cons_of_mem _ h)

theorem sorted_putEntry (e : Entry) : ∀ es : List Entry, es.Pairwise (fun x y => x.id < y.id) →
    (putEntry es e).Pairwise (fun x y => x.id < y.id) := by
  intro es
  induction es with
  | nil => intro _; simp [putEntry]
  | cons x xs ih =>
    intro h
    rw [List.pairwise_cons] at h
    unfold putEntry
    split
    · rename_i hx
      have hx' : x.id = e.id := by simpa using hx
      rw [List.pairwise_cons]
      exact ⟨fun y hy => hx' ▸ h.1 y hy, h.2⟩
    · rename_i hx
      have hx' : x.id ≠ e.id := by simpa using hx
      split
      · rename_i hlt
        rw [List.pairwise_cons]
        refine ⟨?_, List.pairwise_cons.2 h⟩
        intro y hy
        rcases List.mem_cons.1 hy with hy | hy
        · rw [hy]; exact hlt
        · exact Nat.lt_trans hlt (h.1 y hy)
      · rename_i hlt
        rw [List.pairwise_cons]
        refine ⟨?_, ih h.2⟩
        intro y hy
        rcases mem_putEntry hy with hy | hy
        · rw [hy]; exact Nat.lt_of_le_of_ne (Nat.le_of_not_lt hlt) hx'
        · exact h.1 y hy

theorem getEntry_absent {es : List Entry} {id : Id} (h : ∀ y ∈ es, y.id ≠ id) : getEntry es id = { id } := by
  unfold getEntry
  cases hf : es.find? (·.id == id) with
  | none => rfl
  | some y =>
    have h1 := List.find?_some hf
    exact absurd (by simpa using h1) (h y (List.mem_of_find?_eq_some hf))

theorem putEntry_count (P : Entry → Bool) (e : Entry) (hd : P { id := e.id } = false) :
    ∀ es : List Entry, es.Pairwise (fun x y => x.id < y.id) →
      (putEntry es e).countP P + (if P (getEntry es e.id) then 1 else 0) ≤ es.countP P + (if P e then 1 else 0) := by
  intro es
  induction es with
  | nil =>
    intro _
    have : getEntry [] e.id = { id := e.id } := rfl
    simp [putEntry, this, hd, List.countP_cons]
  | cons x xs ih =>
    intro h
    rw [List.pairwise_cons] at h
    unfold putEntry
    split
    · rename_i hx
      have : getEntry (x :: xs) e.id = x := by simp [getEntry, List.find?_cons, hx]
      rw [this]
      simp only [List.countP_cons]
      omega
    · rename_i hx
      have hx' : x.id ≠ e.id := by simpa using hx
      have hx2 : (x.id == e.id) = false := by simpa using hx'
      split
      · rename_i hlt
        have : getEntry (x :: xs) e.id = { id := e.id } := by
          apply getEntry_absent
          intro y hy
          rcases List.mem_cons.1 hy with hy | hy
          · rw [hy]; exact hx'
          · exact Nat.ne_of_gt (Nat.lt_trans hlt (h.1 y hy))
        rw [this, hd]
        simp only [List.countP_cons, Bool.false_eq_true, if_false]
        omega
      · have : getEntry (x :: xs) e.id = getEntry xs e.id := by simp [getEntry, List.find?_cons, hx2]
        rw [this]
        have := ih h.2
        simp only [List.countP_cons]
        omega

theorem applyOp_id (n : Nat) (e : Entry) (op : TxOp) : (applyOp n e op).id = e.id := by cases op <;> rfl

theorem foldl_applyOp_id (n : Nat) (ops : List TxOp) (e : Entry) : (ops.foldl (applyOp n) e).id = e.id := by
  induction ops generalizing e with
  | nil => rfl
  | cons op ops ih => rw [List.foldl_cons, ih, applyOp_id]

theorem addCode_term (cur : Option Nat) (c : Nat) (h : isTerminal ((addCode cur c).getD stPartial) = true) :
    isTerminal (cur.getD stPartial) = true ∨ isTerminal c = true := by
  unfold addCode at h
  cases cur with
  | none => exact Or.inr h
  | some old =>
    simp only at h
    split at h
    · rename_i hc
      simp only [Bool.and_eq_true] at hc
      exact Or.inl hc.1
    · exact Or.inr h

theorem foldl_applyOp_term (n : Nat) (ops : List TxOp) (e : Entry) (h : entTerm (ops.foldl (applyOp n) e) = true) :
    entTerm e = true ∨ 1 ≤ termCount ops := by
  induction ops generalizing e with
  | nil => exact Or.inl h
  | cons op ops ih =>
    rw [List.foldl_cons] at h
    rcases ih _ h with h1 | h1
    · cases op with
      | block size present => exact Or.inl h1
      | ext => exact Or.inl h1
      | status c =>
        rcases addCode_term e.code c h1 with h2 | h2
        · exact Or.inl h2
        · right; simp [termCount, List.countP_cons, termOp, h2]
    · right
      simp only [termCount, List.countP_cons] at h1 ⊢
      omega

theorem getEntry_id (es : List Entry) (id : Id) : (getEntry es id).id = id := by
  unfold getEntry
  cases hf : es.find? (·.id == id) with
  | none => rfl
  | some y => simpa using List.find?_some hf

theorem tokB_buildInto (r : Id) (n : Nat) (b : Builder) (id : Id) (inc : Nat) (ops : List TxOp)
    (hs : SortedB (some b)) :
    tokB r (some (buildInto n b id inc ops)) ≤ tokB r (some b) + (if id == r then termCount ops else 0) ∧
      SortedB (some (buildInto n b id inc ops)) := by
  unfold buildInto
  simp only
  generalize he : ({ (ops.foldl (applyOp n) (getEntry b.entries id)) with sub := true, inc := inc } : Entry) = e'
  have hid : e'.id = id := by
    rw [← he]
    show (ops.foldl (applyOp n) (getEntry b.entries id)).id = id
    rw [foldl_applyOp_id, getEntry_id]
  have hterm : entTerm e' = true → entTerm (getEntry b.entries id) = true ∨ 1 ≤ termCount ops := by
    intro h
    apply foldl_applyOp_term n
    rw [← he] at h
    exact h
  refine ⟨?_, sorted_putEntry e' b.entries hs⟩
  have hc := putEntry_count (tokE r) e' (by simp [tokE, entTerm]; intro _; decide) b.entries hs
  show (putEntry b.entries e').countP (tokE r) ≤ b.entries.countP (tokE r) + _
  rw [hid] at hc
  by_cases hr : (id == r) = true
  · simp only [hr, if_true]
    by_cases ht : tokE r e' = true
    · have ht' : entTerm e' = true := by simp only [tokE, Bool.and_eq_true] at ht; exact ht.2
      rcases hterm ht' with h1 | h1
      · have : tokE r (getEntry b.entries id) = true := by
          simp only [tokE, Bool.and_eq_true]; exact ⟨by rw [getEntry_id]; exact hr, h1⟩
        simp only [this, ht, if_true] at hc
        omega
      · simp only [ht, if_true] at hc
        omega
    · simp only [ht] at hc
      simp only [Bool.false_eq_true, if_false] at hc
      omega
  · have ht : tokE r e' = false := by simp [tokE, hid, hr]
    simp only [ht, Bool.false_eq_true, if_false] at hc
    simp only [hr, if_false]
    omega

theorem chg_buildNow (r : Id) (s : State) (party : Party) (p : Peer) (id : Id) (ops : List TxOp) :
    Chg r s (buildNow s party p id ops) (if id == r then termCount ops else 0) 0 := by
  unfold buildNow
  simp only
  split
  · split
    · exact (chg_release r s p _).weaken (by omega)
    · exact (Chg.refl r s).weaken (by omega)
  · intro h0
    have hq := wfq_getMQ h0 p
    have hb : SortedB (some ((getMQ s p).next.getD {})) := by
      cases hn : (getMQ s p).next with
      | none => exact List.Pairwise.nil
      | some b => have := hq.2; rw [hn] at this; exact this
    obtain ⟨h1, h2⟩ := tokB_buildInto r s.extLen ((getMQ s p).next.getD {}) id (incOf s party id) ops hb
    have hc := chg_updMQ r s p
      (fun q => { q with next := some (buildInto s.extLen ((getMQ s p).next.getD {}) id (incOf s party id) ops) })
      (fun _ => rfl) (fun hq' => ⟨hq'.1, h2⟩)
    refine (hc.weaken ?_) h0
    simp only [mqW]
    have : tokB r ((getMQ s p).next) = tokB r (some ((getMQ s p).next.getD {})) := by
      cases (getMQ s p).next <;> rfl
    omega

theorem chg_execTx (r : Id) (s : State) (party : Party) (p : Peer) (id : Id) (ops : List TxOp) :
    Chg r s (execTx s party p id ops).1 (if id == r then termCount ops else 0) 0 := by
  unfold execTx
  split
  · exact (Chg.refl r s).weaken (by omega)
  · simp only
    split
    · exact chg_buildNow r s party p id ops
    · have h1 := chg_tryAlloc r s party p (txSize s.extLen ops)
      generalize tryAlloc s party p (txSize s.extLen ops) = pr at h1
      obtain ⟨s1, ok⟩ := pr
      simp only
      split
      · exact (h1.trans (chg_buildNow r s1 party p id ops)).weaken (by omega)
      · exact h1.weaken (by omega)

/-- sharper: a transaction that has to wait for its reservation has not queued anything yet -/
theorem chg_execTx' (r : Id) (s : State) (party : Party) (p : Peer) (id : Id) (ops : List TxOp) :
    Chg r s (execTx s party p id ops).1
      (if (execTx s party p id ops).2 then (if id == r then termCount ops else 0) else 0) 0 := by
  unfold execTx
  split
  · exact (Chg.refl r s).weaken (by omega)
  · simp only
    split
    · exact chg_buildNow r s party p id ops
    · have h1 := chg_tryAlloc r s party p (txSize s.extLen ops)
      generalize tryAlloc s party p (txSize s.extLen ops) = pr at h1
      obtain ⟨s1, ok⟩ := pr
      simp only
      split
      · exact (h1.trans (chg_buildNow r s1 party p id ops)).weaken (by simp)
      · exact h1.weaken (by simp)

-- ------------------------------------------------------------------ terminate
theorem chg_terminate (r : Id) (s : State) (id : Id) (hp : parkErr r s.park = false) :
    Chg r s (terminate s id) 0 (if id == r then stOf r s else 0) := by
  unfold terminate
  split
  · rename_i hl
    have : stOf r s = 0 ∨ id ≠ r := by
      by_cases h : id = r
      · left; subst h; unfold stOf; rw [entOf_lookup_none hl]; rfl
      · exact Or.inr h
    refine (Chg.refl r s).weaken ?_
    split <;> simp_all
  · rename_i x hl
    have h1 := chg_emit_other r s (.unprotect x.peer id) rfl rfl
    have h2 : Chg r (emit s (.unprotect x.peer id))
        (delResp { (emit s (.unprotect x.peer id)) with
          prot := (emit s (.unprotect x.peer id)).prot.filter (· != (x.peer, id)) } id) 0
        (if id == r then stOf r s else 0) := by
      refine chg_table (s := emit s (.unprotect x.peer id)) (s' := delResp _ id) rfl rfl rfl rfl rfl hp ?_
      rw [stOf_delResp]
      have e : stOf r (emit s (.unprotect x.peer id)) = stOf r s := rfl
      have e' : stOf r { (emit s (.unprotect x.peer id)) with
          prot := (emit s (.unprotect x.peer id)).prot.filter (· != (x.peer, id)) } = stOf r s := rfl
      rw [e, e']
      by_cases h : r = id
      · subst h; simp
      · have : (id == r) = false := by simpa using fun e => h e.symm
        simp [h, this]
    exact (h1.trans h2).weaken (by omega)

end GS.RespLife
