import GS.Generated.StatusCodes
import GS.Generated.ReqLifecycleSpec
/-
Model of the life cycle of ONE outgoing request in /repo/requestmanager (property C04), core Lean only.

Processes (one per goroutine of the real code) and what they mirror:

  manager   `RequestManager.run` (server.go): ONE atomic step per mailbox message -- justified by the single
            `run` goroutine that owns `inProgressRequestStatuses`.  The only place where a handler blocks on
            another process is `terminateRequest`'s `ipr.inProgressErr <- ipr.terminalError`
            (phase `MPhase.termSend`; completed by a rendezvous with a receiver).
  worker    `taskqueue.worker` + `executor.ExecuteTask` / `traverse` (phases `WPhase`): cut at every
            synchronisation: mailbox round trips (GetRequestTask / ReleaseRequestTask), the reconciled
            loader's `waitRemote`, the local storage read, the block hook, the peer handler, the error sends.
  traverser `ipldutil.traverser` goroutine: waits for a load result, then visits nodes (each visit is a
            rendezvous send on `inProgressChan`, performed while holding `stateMu`, so the executor's
            `IsComplete` waits for it), then asks for the next load or finishes.
  cp, ce    the two goroutines of `responseCollector.collectResponses` (unbounded buffers), `cp` including
            `cancelRequestAndClose` (send the cancel message, drain both channels).
  caller    reads the two returned channels (the deliver actions) and may cancel its context.

Channels: `inProgressChan` / `inProgressErr` are unbuffered: a send is a joint step of sender and receiver.
The two RETURNED channels are explicit event lists `retP`, `retE` (`send v` / `close`).  The mailbox
`rm.messages` (capacity 16 in Go) is an unbounded FIFO list: a full mailbox only delays a sender.

Nondeterminism that belongs to code outside the anchors (go-ipld-prime traversal shape, the reconciled
loader's verdict on a remote item, storage hits) is resolved by ACTION PARAMETERS: the theorems quantify
over all of them; the executable driver (GS/Driver/ReqLife.lean) computes them for block chains.
`tfuel` bounds the remaining traverser work (any finite traversal fits some `tfuel`); `efuel` bounds the
number of environment inputs still to come (any finite history fits some `efuel`).
-/
namespace GS.ReqLife
open GS.Generated.StatusCodes

/-- errors that can appear on the error channel -/
inductive Err where
  | cc                       -- graphsync.RequestClientCancelledErr
  | status (k : ErrKind)     -- ResponseStatusCode.AsError() of a failure status
  | missing                  -- graphsync.RemoteMissingBlockErr (not terminal)
  | fatal                    -- any other load / traversal error (e.g. RemoteIncorrectResponseError)
  | hook                     -- error returned by a response hook or block hook
  | other                    -- traversal completion error that is not one of the above (e.g. SkipMe at the root)
deriving DecidableEq, Repr

inductive ChanEv (α : Type) where
  | send (v : α)
  | close
deriving DecidableEq, Repr

inductive OutKind where | req | cancel
deriving DecidableEq, Repr

structure Out where
  kind : OutKind
  peer : Nat
deriving DecidableEq, Repr

inductive RState where | queued | running | paused
deriving DecidableEq, Repr

inductive Reg where | none | live | gone
deriving DecidableEq, Repr

/-- the `err` argument of ReleaseRequestTask, as far as releaseRequestTask looks at it -/
inductive RelErr where | nil | paused | ctx | other
deriving DecidableEq, Repr

inductive Msg where
  | newReq
  | cancel (api : Bool)            -- api: CancelRequest (terminalError = ClientCancelled, onTerminated); else cancelRequestAndClose
  | responses (peer status items : Nat) (hookErr : Bool)
  | pause
  | unpause
  | getTask
  | release (e : RelErr)
deriving DecidableEq, Repr

inductive ApiRes where
  | cancelOk | cancelNotFound | pauseOk | pauseNotFound | pauseAlready
  | unpauseOk | unpauseNotFound | unpauseNotPaused
deriving DecidableEq, Repr

/-- manager: idle, or blocked inside terminateRequest on `inProgressErr <- terminalError`
    (`replyWorker`: the handler is releaseRequestTask, whose `done` reply follows the termination) -/
inductive MPhase where
  | idle
  | termSend (e : Err) (replyWorker : Bool)
deriving DecidableEq, Repr

/-- how `traverse` ended with a non-context error -/
inductive FinKind where
  | paused
  | err (e : Err)
deriving DecidableEq, Repr

inductive WPhase where
  | idle
  | popped                    -- task popped, ExecuteTask not yet entered              [gate work]
  | waitTask                  -- GetRequestTask sent, waiting for the manager's reply
  | top                       -- traverse loop: IsComplete / CurrentRequest
  | wait                      -- BlockReadOpener: waitRemote
  | read                      -- loadLocal: StorageReadOpener                          [gate read]
  | hook                      -- processResult: block hook                             [gate hook]
  | errSend (fatal : Bool)    -- advanceTraversal: `InProgressErr <- result.Err` (select with Ctx.Done)
  | errSent (fatal : Bool)    -- error accepted: Traverser.Error, then the pause check
  | sendReq                   -- startRemoteRequest: peer handler                      [gate send]
  | fin1 (k : FinKind)        -- ExecuteTask tail: cancel message to the peer          [gate send]
  | finErr (e : Err)          -- ExecuteTask tail: `InProgressErr <- err` (select with Ctx.Done)
  | waitDone                  -- ReleaseRequestTask sent, waiting for `done`
deriving DecidableEq, Repr

inductive TPhase where
  | none
  | waitLoad
  | visiting (left : Nat) (more : Bool)     -- `left` ≥ 1 visits still to send, then next load (`more`) or done
  | done (err : Option Err)                 -- traversal finished; `err` = its completion error
deriving DecidableEq, Repr

/-- what Traverser.Error(SkipMe) leads to: the walk goes on (`v` visits, then another load or the end),
    or -- when the skipped link was the root -- the traversal itself ends with that error -/
inductive SkipOut where
  | cont (v : Nat) (more : Bool)
  | rootErr
deriving DecidableEq, Repr

inductive CPPhase where
  | none
  | run (buf : Nat) (inOpen : Bool)
  | cancelling (sent pOpen eOpen : Bool)    -- cancelRequestAndClose
  | done
deriving DecidableEq, Repr

inductive CEPhase where
  | none
  | run (buf : List Err) (inOpen : Bool)
  | sendCC (exit : Bool) (buf : List Err)   -- blocked on `returnedErrors <- RequestClientCancelledErr{}`
  | done
deriving DecidableEq, Repr

structure State where
  peer : Nat := 0
  -- manager (inProgressRequestStatus of the request)
  reg : Reg := .none
  rstate : RState := .queued
  termErr : Option Err := none
  ctxDone : Bool := false          -- ipr.ctx cancelled (cancelFn)
  pauseMsg : Bool := false         -- ipr.pauseMessages (capacity 1) holds a message
  hasLoader : Bool := false        -- traverser / reconciledLoader created (first requestTask)
  online : Bool := false           -- reconciledLoader.open
  rq : Nat := 0                    -- reconciledLoader.remoteQueue length
  waiters : Nat := 0               -- len(onTerminated)
  mbox : List Msg := []
  mphase : MPhase := .idle
  tqPending : Nat := 0
  tqActive : Nat := 0
  -- worker / executor
  w : WPhase := .idle
  reqSent : Bool := false          -- `requestSent` of the current traverse()
  -- traverser
  t : TPhase := .none
  tfuel : Nat := 0
  -- internal channels
  chanPClosed : Bool := false
  chanEClosed : Bool := false
  panicked : Bool := false         -- send on / close of a closed internal channel
  -- collectors and caller
  cp : CPPhase := .none
  ce : CEPhase := .none
  callerCtx : Bool := false        -- caller context cancelled
  retP : List (ChanEv Unit) := []
  retE : List (ChanEv Err) := []
  outbox : List Out := []
  apiLog : List ApiRes := []
  -- ghost
  newSent : Bool := false
  efuel : Nat := 0
  apiCancelled : Bool := false     -- CancelRequest was called (after the request was created)
  ctxWhileOpen : Bool := false     -- the caller context was cancelled before the error collector saw `inProgressErr` closed
  termSent : Bool := false         -- the request's own peer sent a terminal status (response hook ok)
  owed : Bool := false             -- a request message went out after the last own-peer terminal status
  lastTerm : Nat := 0
deriving Repr

inductive HookRes where | ok | err | pause
deriving DecidableEq, Repr

inductive Action where
  -- environment (never forced; each consumes `efuel`)
  | envNew
  | envCtxCancel
  | envCancelApi
  | envPause
  | envUnpause
  | envResp (peer status items : Nat) (hookErr : Bool)
  -- environment obligations of the liveness clause (fair, not budgeted):
  | oblUnpause                        -- the user resumes a request that is paused (and not cancelled)
  | oblAnswer                         -- a responder that has sent a terminal status answers a re-issued request likewise
  -- manager
  | mgr
  -- worker / executor
  | wPop
  | wGet
  | xTop
  | xConsume (c : Nat)
  | xWaitRemote (data : Bool) (v : Nat) (more : Bool)
  | xWaitLocal
  | xRead (hit : Bool) (v : Nat) (more : Bool)
  | xHook (r : HookRes)
  | xErrCtx                           -- errSend: the select takes `<-rt.Ctx.Done()`
  | xAfterErr (o : SkipOut)           -- Traverser.Error(..), then the pause check
  | xSendReq
  | xFin1
  | xFinCtx                           -- finErr: the select takes `<-requestTask.Ctx.Done()`
  -- rendezvous on inProgressErr / inProgressChan
  | ceRecv
  | cpDrainE
  | cpRecv
  | cpDrainP
  -- collectors
  | cpSeeClose
  | cpDeliver
  | cpExit
  | cpSeeCtx
  | cpSendCancel
  | cpSeeCloseP
  | cpSeeCloseE
  | cpCancelExit
  | ceSeeClose
  | ceDeliver
  | ceExit
  | ceSeeCtx
  | ceDeliverCC
deriving DecidableEq, Repr

/-- process groups for weak fairness: manager loop, worker (executor), the two collectors (the deliver
    actions = a caller that keeps reading; the rendezvous with the traverser / the senders are counted
    with the receiving collector), and the two environment obligations.  `none` = environment input. -/
inductive Group where | mgr | worker | cp | ce | oblUnpause | oblAnswer
deriving DecidableEq, Repr

def Action.group : Action → Option Group
  | .envNew | .envCtxCancel | .envCancelApi | .envPause | .envUnpause | .envResp .. => none
  | .oblUnpause => some .oblUnpause
  | .oblAnswer => some .oblAnswer
  | .mgr => some .mgr
  | .wPop | .wGet | .xTop | .xConsume _ | .xWaitRemote .. | .xWaitLocal | .xRead .. | .xHook _
  | .xErrCtx | .xAfterErr _ | .xSendReq | .xFin1 | .xFinCtx => some .worker
  | .cpRecv | .cpDrainP | .cpDrainE | .cpSeeClose | .cpDeliver | .cpExit | .cpSeeCtx | .cpSendCancel
  | .cpSeeCloseP | .cpSeeCloseE | .cpCancelExit => some .cp
  | .ceRecv | .ceSeeClose | .ceDeliver | .ceExit | .ceSeeCtx | .ceDeliverCC => some .ce

/-- the internal ("fair") actions: everything but the environment inputs. -/
def Action.fair (a : Action) : Bool := a.group.isSome

/-! ### manager handlers (server.go) -/

def pushMsg (s : State) (m : Msg) : State := { s with mbox := s.mbox ++ [m] }

/-- terminateRequest after the terminal error (if any) has been handed over. -/
def finishTerminate (s : State) (replyWorker : Bool) : State :=
  { s with
    reg := .gone
    ctxDone := true
    rq := 0
    t := if s.hasLoader then .done none else s.t
    panicked := s.panicked || s.chanPClosed || s.chanEClosed
    chanPClosed := true
    chanEClosed := true
    apiLog := s.apiLog ++ List.replicate s.waiters ApiRes.cancelOk
    waiters := 0
    mphase := .idle
    w := if replyWorker then .idle else s.w }

/-- terminateRequest: `if ipr.terminalError != nil { ipr.inProgressErr <- ipr.terminalError }` first. -/
def terminate (s : State) (replyWorker : Bool) : State :=
  match s.termErr with
  | some e => { s with mphase := .termSend e replyWorker }
  | none => finishTerminate s replyWorker

/-- cancelOnError. -/
def cancelOnError (s : State) (e : Option Err) : State :=
  let s := if s.termErr.isNone then { s with termErr := e } else s
  if s.rstate != .running then terminate s false
  else { s with ctxDone := true, online := false }

/-- releaseRequestTask's test `if _, ok := err.(hooks.ErrPaused); ok [&& ipr.ctx.Err() == nil]`:
    the second conjunct is present iff the generated `releasePauseGuardChecksCtx` says so. -/
def releaseKeepsPaused (s : State) (e : RelErr) : Bool :=
  e == .paused && (!GS.Generated.ReqLifecycleSpec.releasePauseGuardChecksCtx || !s.ctxDone)

/-- what `terminate` / `finishTerminate` below rely on in the stage order of terminateRequest (the generated
    `terminateStages`): the terminal error is handed over before the error channel is closed; the request's
    context is cancelled and the traverser stopped before the progress channel is closed (otherwise the
    visitor could send on a closed channel); each channel is closed exactly once; the CancelRequest callers
    are notified after both closes.  Independent statements may be reordered freely.
    `GS.C04.terminate_stages_ok` checks it on the generated list. -/
def stagesOk (l : List String) : Bool :=
  let idx := fun x => l.idxOf x
  l.count "sendTerminalError" == 1 && l.count "closeProgress" == 1 && l.count "closeErrors" == 1 &&
  l.contains "delete" && l.contains "cancelFn" && l.contains "traverserShutdown" && l.contains "notifyTerminated" &&
  idx "sendTerminalError" < idx "closeErrors" &&
  idx "cancelFn" < idx "closeProgress" && idx "traverserShutdown" < idx "closeProgress" &&
  idx "closeProgress" < idx "notifyTerminated" && idx "closeErrors" < idx "notifyTerminated"

/-- does the response hook run for a response of peer `p` carrying this request's id? -/
def hookRunsFor (s : State) (p : Nat) : Bool :=
  match GS.Generated.ReqLifecycleSpec.hookScope with
  | .all => true
  | .notForeign => !(s.reg == .live && p != s.peer)
  | .tracked => s.reg == .live && p == s.peer

/-- cancelRequest on a tracked request: remember the CancelRequest caller, cancel message to the
    request's peer, cancelOnError -/
def cancelLive (s : State) (api : Bool) : State :=
  let s := if api then { s with waiters := s.waiters + 1 } else s
  let s := { s with outbox := s.outbox ++ [{ kind := .cancel, peer := s.peer }] }
  cancelOnError s (if api then some Err.cc else none)

/-- a response hook returned an error: cancel message to the request's peer, cancelOnError -/
def hookCancel (s : State) : State :=
  cancelOnError { s with outbox := s.outbox ++ [{ kind := .cancel, peer := s.peer }] } (some Err.hook)

/-- IngestResponse (refused while the loader is offline) -/
def ingest (s : State) (items : Nat) : State :=
  if s.hasLoader && s.online then { s with rq := s.rq + items } else s

/-- processTerminations for one response with status `st` -/
def procTerminations (s : State) (st : Nat) : State :=
  if isTerminal st then
    let s := if isFailure st then cancelOnError s ((asError st).map Err.status) else s
    if s.reg == .live && s.hasLoader then { s with online := false } else s
  else s

def handle (s : State) (m : Msg) : State :=
  match m with
  | .newReq =>
    if s.reg != .none then s     -- (request ids are fresh: a second newRequest for this id cannot arrive)
    else
    { s with reg := .live, rstate := .queued, tqPending := s.tqPending + 1,
             cp := .run 0 true, ce := .run [] true }
  | .cancel api =>
    if s.reg != .live then
      if api then { s with apiLog := s.apiLog ++ [ApiRes.cancelNotFound] } else s
    else cancelLive s api
  | .responses p st items hk =>
    -- processResponses: which responses reach the response hooks is taken from the source (generated
    -- `hookScope`); a hook error cancels the request (if tracked) and drops the response; what survives
    -- filterResponsesForPeer (request tracked, sent to the sending peer) is ingested
    let passesFilter := s.reg == .live && p == s.peer
    let hookRuns := hookRunsFor s p
    if hookRuns && hk then
      if s.reg != .live then s else hookCancel s
    else if !passesFilter then s
    else procTerminations (ingest s items) st
  | .pause =>
    if s.reg != .live then { s with apiLog := s.apiLog ++ [ApiRes.pauseNotFound] }
    else if s.rstate == .paused then { s with apiLog := s.apiLog ++ [ApiRes.pauseAlready] }
    else { s with pauseMsg := true, apiLog := s.apiLog ++ [ApiRes.pauseOk] }
  | .unpause =>
    if s.reg != .live then { s with apiLog := s.apiLog ++ [ApiRes.unpauseNotFound] }
    else if s.rstate != .paused then { s with apiLog := s.apiLog ++ [ApiRes.unpauseNotPaused] }
    else { s with rstate := .queued, tqPending := s.tqPending + 1, apiLog := s.apiLog ++ [ApiRes.unpauseOk] }
  | .getTask =>
    if s.reg != .live then { s with tqActive := s.tqActive - 1, w := .idle }   -- Empty task: TaskDone
    else
      let s := if s.hasLoader then s else { s with hasLoader := true, t := .waitLoad }
      { s with rstate := .running, w := .top, reqSent := false }
  | .release e =>
    let s := { s with tqActive := s.tqActive - 1 }
    if s.reg != .live then { s with w := .idle }
    else if releaseKeepsPaused s e then { s with rstate := .paused, w := .idle }
    else terminate s true

/-! ### rendezvous senders on inProgressErr -/

/-- traverser state after `v` visits are announced and then either another load (`more`) or the end. -/
def afterVisit (v : Nat) (more : Bool) : TPhase :=
  if v = 0 then (if more then .waitLoad else .done none) else .visiting v more

/-- release message + wait for `done` -/
def sendRelease (s : State) (e : RelErr) : State :=
  { pushMsg s (.release e) with w := .waitDone }

/-- the process currently offering a value on inProgressErr, with the state after the hand-over
    (the receiving action records a panic if the channel was already closed). -/
def errSender (s : State) : Option (Err × State) :=
  match s.mphase with
  | .termSend e rw => some (e, finishTerminate s rw)
  | .idle =>
    match s.w with
    | .errSend fatal => some (if fatal then Err.fatal else Err.missing, { s with w := .errSent fatal })
    | .finErr e => some (e, sendRelease s .other)
    | _ => none

/-- the pause check at the end of processResult (`select { case <-rt.PauseMessages: ... default: }`). -/
def pauseCheck (s : State) : State :=
  if s.pauseMsg then { s with pauseMsg := false, w := .fin1 .paused } else { s with w := .top }

/-- a block was loaded: Traverser.Advance, then processResult's hook. -/
def dataLoaded (s : State) (v : Nat) (more : Bool) : Option State :=
  if s.t == .waitLoad && v + 1 ≤ s.tfuel then
    some { s with t := afterVisit v more, tfuel := s.tfuel - (v + 1), w := .hook }
  else none

/-- a load failed: advanceTraversal checks the context first, then offers the error. -/
def loadFailed (s : State) (fatal : Bool) : State :=
  if s.ctxDone then sendRelease s .ctx else { s with w := .errSend fatal }

def env (s : State) (cost : Nat) : Option State :=
  if s.newSent && cost ≤ s.efuel then some { s with efuel := s.efuel - cost } else none

/-! ### the transition relation -/

def step (s : State) : Action → Option State
  | .envNew =>
    if !s.newSent && 1 ≤ s.efuel then
      some { pushMsg s .newReq with newSent := true, efuel := s.efuel - 1 }
    else none
  | .envCtxCancel =>
    (env s 1).map fun s =>
      let open_ := match s.ce with
        | .none => true
        | .run _ io => io
        | .sendCC .. => true
        | .done => false
      { s with callerCtx := true, ctxWhileOpen := s.ctxWhileOpen || open_ }
  | .envCancelApi =>
    (env s 1).map fun s => { pushMsg s (.cancel true) with apiCancelled := true }
  | .envPause => (env s 1).map fun s => pushMsg s .pause
  | .envUnpause => (env s 1).map fun s => pushMsg s .unpause
  | .envResp p st items hk =>
    (env s (items + 1)).map fun s =>
      let s := pushMsg s (.responses p st items hk)
      if p == s.peer && !hk && isTerminal st then { s with termSent := true, owed := false, lastTerm := st } else s
  | .oblUnpause =>
    if s.reg == .live && s.rstate == .paused && !s.apiCancelled && !s.callerCtx && !s.mbox.contains .unpause then
      some (pushMsg s .unpause)
    else none
  | .oblAnswer =>
    if s.termSent && s.owed then
      some { pushMsg s (.responses s.peer s.lastTerm 0 false) with owed := false }
    else none
  | .mgr =>
    match s.mphase, s.mbox with
    | .idle, m :: rest => some (handle { s with mbox := rest } m)
    | _, _ => none
  | .wPop =>
    if s.w == .idle && 0 < s.tqPending then
      some { s with tqPending := s.tqPending - 1, tqActive := s.tqActive + 1, w := .popped }
    else none
  | .wGet =>
    if s.w == .popped then some { pushMsg s .getTask with w := .waitTask } else none
  | .xTop =>
    if s.w == .top then
      match s.t with
      | .waitLoad => some { s with w := .wait }
      | .done (some e) => some { s with w := .fin1 (.err e) }
      | .done none => some (sendRelease s .nil)
      | _ => none                              -- IsComplete blocks on stateMu while the traverser visits
    else none
  | .xConsume c =>
    -- waitRemote: queued items consumed by the verifier while catching up
    if s.w == .wait && 1 ≤ c && c ≤ s.rq then some { s with rq := s.rq - c } else none
  | .xWaitRemote data v more =>
    if s.w == .wait && 1 ≤ s.rq then
      let s := { s with rq := s.rq - 1 }
      if data then dataLoaded s v more else some (loadFailed s true)
    else none
  | .xWaitLocal =>
    if s.w == .wait && s.rq = 0 && !s.online then some { s with w := .read } else none
  | .xRead hit v more =>
    if s.w == .read then
      if hit then dataLoaded s v more
      else if !s.reqSent then
        -- first local miss of this run: SetRemoteOnline(true), [context re-check], startRemoteRequest
        if GS.Generated.ReqLifecycleSpec.goOnlineChecksCtx && s.ctxDone then
          some (sendRelease { s with reqSent := true } .ctx)
        else some { s with reqSent := true, online := true, w := .sendReq }
      else some (loadFailed s false)
    else none
  | .xHook r =>
    if s.w == .hook then
      match r with
      | .ok => some (pauseCheck s)
      | .err => some { s with pauseMsg := false, w := .fin1 (.err Err.hook) }
      | .pause => some { s with pauseMsg := false, w := .fin1 .paused }
    else none
  | .xErrCtx =>
    match s.w with
    | .errSend _ => if s.ctxDone then some (sendRelease s .ctx) else none
    | _ => none
  | .xAfterErr o =>
    match s.w with
    | .errSent fatal =>
      if s.t == .waitLoad then
        if fatal then some (pauseCheck { s with t := .done (some Err.fatal) })
        else match o with
          | .rootErr => some (pauseCheck { s with t := .done (some Err.other) })
          | .cont v more =>
            if v + 1 ≤ s.tfuel then some (pauseCheck { s with t := afterVisit v more, tfuel := s.tfuel - (v + 1) })
            else none
      else none
    | _ => none
  | .xSendReq =>
    if s.w == .sendReq then
      some { s with outbox := s.outbox ++ [{ kind := .req, peer := s.peer }], owed := true, w := .wait }
    else none
  | .xFin1 =>
    match s.w with
    | .fin1 k =>
      let s := { s with outbox := s.outbox ++ [{ kind := .cancel, peer := s.peer }], online := false }
      match k with
      | .paused => some (sendRelease s .paused)
      | .err e => some { s with w := .finErr e }
    | _ => none
  | .xFinCtx =>
    match s.w with
    | .finErr _ => if s.ctxDone then some (sendRelease s .other) else none
    | _ => none
  | .ceRecv =>
    match s.ce, errSender s with
    | .run buf true, some (e, s') =>
      some { s' with ce := .run (buf ++ [e]) true, panicked := s'.panicked || s.chanEClosed }
    | _, _ => none
  | .cpDrainE =>
    match s.cp, errSender s with
    | .cancelling sent pO true, some (_, s') =>
      some { s' with cp := .cancelling sent pO true, panicked := s'.panicked || s.chanEClosed }
    | _, _ => none
  | .cpRecv =>
    match s.cp, s.t with
    | .run buf true, .visiting (left + 1) more =>
      some { s with cp := .run (buf + 1) true, t := afterVisit left more,
                    panicked := s.panicked || s.chanPClosed }
    | _, _ => none
  | .cpDrainP =>
    match s.cp, s.t with
    | .cancelling sent true eO, .visiting (left + 1) more =>
      some { s with cp := .cancelling sent true eO, t := afterVisit left more,
                    panicked := s.panicked || s.chanPClosed }
    | _, _ => none
  | .cpSeeClose =>
    match s.cp with
    | .run buf true => if s.chanPClosed then some { s with cp := .run buf false } else none
    | _ => none
  | .cpDeliver =>
    match s.cp with
    | .run (buf + 1) io => some { s with cp := .run buf io, retP := s.retP ++ [ChanEv.send ()] }
    | _ => none
  | .cpExit =>
    match s.cp with
    | .run 0 false => some { s with cp := .done, retP := s.retP ++ [ChanEv.close] }
    | _ => none
  | .cpSeeCtx =>
    match s.cp with
    | .run _ io =>
      if s.callerCtx then
        if io then some { s with cp := .cancelling false true true }
        else some { s with cp := .done, retP := s.retP ++ [ChanEv.close] }
      else none
    | _ => none
  | .cpSendCancel =>
    match s.cp with
    | .cancelling false pO eO => some { pushMsg s (.cancel false) with cp := .cancelling true pO eO }
    | _ => none
  | .cpSeeCloseP =>
    match s.cp with
    | .cancelling sent true eO => if s.chanPClosed then some { s with cp := .cancelling sent false eO } else none
    | _ => none
  | .cpSeeCloseE =>
    match s.cp with
    | .cancelling sent pO true => if s.chanEClosed then some { s with cp := .cancelling sent pO false } else none
    | _ => none
  | .cpCancelExit =>
    match s.cp with
    | .cancelling true false false => some { s with cp := .done, retP := s.retP ++ [ChanEv.close] }
    | _ => none
  | .ceSeeClose =>
    match s.ce with
    | .run buf true =>
      if s.chanEClosed then
        if s.callerCtx then some { s with ce := .sendCC false buf } else some { s with ce := .run buf false }
      else none
    | _ => none
  | .ceDeliver =>
    match s.ce with
    | .run (e :: buf) io => some { s with ce := .run buf io, retE := s.retE ++ [ChanEv.send e] }
    | _ => none
  | .ceExit =>
    match s.ce with
    | .run [] false => some { s with ce := .done, retE := s.retE ++ [ChanEv.close] }
    | _ => none
  | .ceSeeCtx =>
    match s.ce with
    | .run buf _ => if s.callerCtx then some { s with ce := .sendCC true buf } else none
    | _ => none
  | .ceDeliverCC =>
    match s.ce with
    | .sendCC true _ => some { s with ce := .done, retE := (s.retE ++ [ChanEv.send Err.cc]) ++ [ChanEv.close] }
    | .sendCC false buf => some { s with ce := .run buf false, retE := s.retE ++ [ChanEv.send Err.cc] }
    | _ => none

def init (peer efuel tfuel : Nat) : State := { peer, efuel, tfuel }

/-- run a list of actions; `none` if one of them is not enabled -/
def run (s : State) : List Action → Option State
  | [] => some s
  | a :: as => (step s a).bind fun s' => run s' as

def bothClosed (s : State) : Bool := s.cp == .done && s.ce == .done

end GS.ReqLife
