/-
Model of /repo/allocator/allocator.go (core Lean only).

Mirrors the Go code function by function:
  AllocateBlockMemory  -> alloc
  ReleaseBlockMemory   -> release
  ReleasePeerMemory    -> releasePeer
  processPendingAllocations / processNextPendingAllocationForPeer -> processPending
  makePeerStatusCompare -> PeerSt.lt   (the priority queue is modelled as "peek returns
                           a comparator-minimal element"; see `pickMin`)
  Stats / AllocatedForPeer -> stats / allocatedFor

uint64 arithmetic: every `+` that can wrap in Go goes through `add64`.
-/
namespace GS.Alloc

def W : Nat := 2 ^ 64

/-- Go's `uint64 + uint64`. -/
def add64 (a b : Nat) : Nat := (a + b) % W

structure Pending where
  amount : Nat
  idx    : Nat      -- allocIndex
  ticket : Nat      -- identity of the response channel (harness-assigned)
deriving Repr, DecidableEq

structure PeerSt where
  id      : Nat
  total   : Nat
  pending : List Pending
deriving Repr, DecidableEq

structure State where
  maxTotal : Nat
  maxPeer  : Nat
  total    : Nat := 0
  nextIdx  : Nat := 0
  peers    : List PeerSt := []     -- the map peerStatuses (ids unique)
deriving Repr

inductive Event where
  | granted (peer ticket amount : Nat)
  | failed  (peer ticket : Nat)
  | released (peer actual : Nat)         -- bytes actually subtracted from the peer
  | errNoPeer
deriving Repr, DecidableEq

def init (maxTotal maxPeer : Nat) : State := { maxTotal, maxPeer }

def findPeer (ps : List PeerSt) (p : Nat) : Option PeerSt := ps.find? (·.id == p)

def setPeer (ps : List PeerSt) (st : PeerSt) : List PeerSt :=
  ps.map fun q => if q.id == st.id then st else q

def erasePeer (ps : List PeerSt) (p : Nat) : List PeerSt := ps.filter (·.id != p)

def allocatedFor (s : State) (p : Nat) : Nat :=
  match findPeer s.peers p with
  | some st => st.total
  | none => 0

/-- Go `fits(current, amount, max)`: `current <= max && amount <= max-current`
    (overflow-free form of `current+amount <= max`). -/
def fits (current amount max : Nat) : Bool := decide (current ≤ max) && decide (amount ≤ max - current)

/-- head allocation of a peer fits its own per-peer limit. -/
def headFitsPeer (maxPeer : Nat) (st : PeerSt) : Bool :=
  match st.pending with
  | [] => false
  | h :: _ => fits st.total h.amount maxPeer

/-- makePeerStatusCompare: `lt a b` = "a sorts strictly before b". -/
def PeerSt.lt (maxPeer : Nat) (a b : PeerSt) : Bool :=
  match a.pending, b.pending with
  | [], [] => decide (a.total < b.total)
  | [], _ :: _ => false
  | _ :: _, [] => true
  | ha :: _, hb :: _ =>
    if !fits a.total ha.amount maxPeer then false
    else if !fits b.total hb.amount maxPeer then true
    else decide (ha.idx < hb.idx)

/-- Peek: a comparator-minimal element (first minimal in list order). -/
def pickMin (maxPeer : Nat) : List PeerSt → Option PeerSt
  | [] => none
  | a :: rest =>
    match pickMin maxPeer rest with
    | none => some a
    | some b => if PeerSt.lt maxPeer b a then some b else some a

def alloc (s : State) (p amount ticket : Nat) : State × List Event :=
  let (st, peers) :=
    match findPeer s.peers p with
    | some st => (st, s.peers)
    | none =>
      let st : PeerSt := { id := p, total := 0, pending := [] }
      (st, s.peers ++ [st])
  if fits s.total amount s.maxTotal ∧ fits st.total amount s.maxPeer ∧ st.pending = [] then
    let st' := { st with total := add64 st.total amount }
    ({ s with total := add64 s.total amount, peers := setPeer peers st' },
     [Event.granted p ticket amount])
  else
    let st' := { st with pending := st.pending ++ [{ amount, idx := s.nextIdx, ticket }] }
    ({ s with nextIdx := s.nextIdx + 1, peers := setPeer peers st' }, [])

/-- processPendingAllocations, with explicit fuel. -/
def processPendingFuel : Nat → State → State × List Event
  | 0, s => (s, [])
  | fuel + 1, s =>
    match pickMin s.maxPeer s.peers with
    | none => (s, [])
    | some np =>
      match np.pending with
      | h :: rest =>
        if !fits s.total h.amount s.maxTotal then (s, [])
        else if !fits np.total h.amount s.maxPeer then (s, [])
        else
          let np' := { np with total := add64 np.total h.amount, pending := rest }
          let s' := { s with total := add64 s.total h.amount, peers := setPeer s.peers np' }
          let (s'', evs) := processPendingFuel fuel s'
          (s'', Event.granted np.id h.ticket h.amount :: evs)
      | [] =>
        if np.total > 0 then (s, [])
        else processPendingFuel fuel { s with peers := erasePeer s.peers np.id }

def pendingCount (ps : List PeerSt) : Nat := (ps.map (·.pending.length)).sum

/-- every iteration either grants one pending allocation or removes one peer. -/
def fuelFor (s : State) : Nat := pendingCount s.peers + s.peers.length + 1

def processPending (s : State) : State × List Event := processPendingFuel (fuelFor s) s

def release (s : State) (p amount : Nat) : State × List Event :=
  match findPeer s.peers p with
  | none => (s, [Event.errNoPeer])
  | some st =>
    let actual := if st.total ≥ amount then amount else st.total
    let st' := { st with total := st.total - actual }
    let total' := if s.total ≥ actual then s.total - actual else 0
    let s1 := { s with total := total', peers := setPeer s.peers st' }
    let (s2, evs) := processPending s1
    (s2, Event.released p actual :: evs)

def releasePeer (s : State) (p : Nat) : State × List Event :=
  match findPeer s.peers p with
  | none => (s, [Event.errNoPeer])
  | some st =>
    let fails := st.pending.map fun pa => Event.failed p pa.ticket
    let total' := if s.total ≥ st.total then s.total - st.total else 0
    let s1 := { s with total := total', peers := erasePeer s.peers p }
    let (s2, evs) := processPending s1
    (s2, Event.released p st.total :: fails ++ evs)

structure Stats where
  totalAllocated : Nat
  totalPending   : Nat
  peersPending   : Nat
deriving Repr, DecidableEq

def peerPendingBytes (st : PeerSt) : Nat := (st.pending.map (·.amount)).foldl add64 0

def stats (s : State) : Stats :=
  let withPending := s.peers.filter fun st => peerPendingBytes st > 0
  { totalAllocated := s.total
    totalPending := (withPending.map peerPendingBytes).foldl add64 0
    peersPending := withPending.length }

inductive Op where
  | alloc (p amount ticket : Nat)
  | release (p amount : Nat)
  | releasePeer (p : Nat)
deriving Repr, DecidableEq

def step (s : State) : Op → State × List Event
  | .alloc p a t => alloc s p a t
  | .release p a => release s p a
  | .releasePeer p => releasePeer s p

/-- run a whole history, collecting events. -/
def run (s : State) : List Op → State × List Event
  | [] => (s, [])
  | op :: ops =>
    let (s1, e1) := step s op
    let (s2, e2) := run s1 ops
    (s2, e1 ++ e2)

end GS.Alloc
