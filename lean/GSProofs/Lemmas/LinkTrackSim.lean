import GSProofs.Lemmas.LinkTrackAList
/-!
The bare `LinkTracker` simulates two flat ledgers of `(request, link)` pairs:
`wb` = with-block traversals of requests not yet finished, `ms` = missing-block traversals of
requests not yet finished.  `Sim T wb ms` is preserved by `record` / `finishRequest`.
-/
set_option linter.unusedSimpArgs false
namespace GS.LinkTrack

abbrev Ledger := List (Req × Link)

/-- the with-block traversal list of request `r` (in recording order). -/
def linksOf (wb : Ledger) (r : Req) : List Link := (wb.filter (fun e => e.1 == r)).map (·.2)

/-- how many ledger entries name link `l`. -/
def cntOf (wb : Ledger) (l : Link) : Nat := wb.countP (fun e => e.2 == l)

/-- drop every entry of request `r` (it finished). -/
def dropReq (wb : Ledger) (r : Req) : Ledger := wb.filter (fun e => e.1 != r)

/-- Go map entry for a count: absent when zero. -/
def enc (n : Nat) : Option Nat := if n = 0 then none else some n
/-- Go map entry for a list: absent when empty. -/
def encL (ls : List Link) : Option (List Link) := if ls.isEmpty then none else some ls

structure Sim (T : LinkTracker) (wb ms : Ledger) : Prop where
  links : ∀ r, aget T.linksByReq r = encL (linksOf wb r)
  refs : ∀ l, aget T.refcount l = enc (cntOf wb l)
  missSome : ∀ r, (aget T.missing r).isSome = ms.any (fun e => e.1 == r)
  missMem : ∀ r l, l ∈ (aget T.missing r).getD [] ↔ (r, l) ∈ ms

theorem linksOf_append_single (wb : Ledger) (r : Req) (l : Link) (r' : Req) :
    linksOf (wb ++ [(r, l)]) r' = if r = r' then linksOf wb r' ++ [l] else linksOf wb r' := by
  unfold linksOf
  by_cases h : r = r' <;> simp [List.filter_append, List.filter_cons, h]

theorem cntOf_append_single (wb : Ledger) (r : Req) (l : Link) (l' : Link) :
    cntOf (wb ++ [(r, l)]) l' = cntOf wb l' + if l = l' then 1 else 0 := by
  unfold cntOf
  by_cases h : l = l' <;> simp [List.countP_append, List.countP_cons, h]

theorem linksOf_dropReq (wb : Ledger) (r r' : Req) :
    linksOf (dropReq wb r) r' = if r = r' then [] else linksOf wb r' := by
  unfold linksOf dropReq
  rw [List.filter_filter]
  by_cases h : r = r'
  · subst h
    simp only [if_true, List.map_eq_nil_iff, List.filter_eq_nil_iff]
    intro e _; simp
  · simp only [h, if_false]
    congr 1
    apply List.filter_congr
    intro e _
    by_cases he : e.1 = r' <;> simp [he]
    intro h2; exact h (h2 ▸ rfl)

theorem count_linksOf_le (wb : Ledger) (r : Req) (l : Link) : (linksOf wb r).count l ≤ cntOf wb l := by
  unfold cntOf linksOf
  induction wb with
  | nil => simp
  | cons e t ih =>
    obtain ⟨a, b⟩ := e
    by_cases h1 : a = r <;> by_cases h2 : b = l <;>
      simp [List.filter_cons, List.countP_cons, h1, h2, List.count_cons] at ih ⊢ <;> omega

theorem cntOf_dropReq (wb : Ledger) (r : Req) (l : Link) :
    cntOf (dropReq wb r) l = cntOf wb l - (linksOf wb r).count l := by
  induction wb with
  | nil => simp [cntOf, dropReq, linksOf]
  | cons e t ih =>
    obtain ⟨a, b⟩ := e
    have hle := count_linksOf_le t r l
    unfold cntOf linksOf at hle
    unfold cntOf dropReq linksOf at ih ⊢
    by_cases h1 : a = r <;> by_cases h2 : b = l <;>
      simp [List.filter_cons, List.countP_cons, h1, h2, List.count_cons] at ih hle ⊢ <;> omega

theorem linksOf_eq_nil_iff (wb : Ledger) (r : Req) : linksOf wb r = [] ↔ ∀ e ∈ wb, e.1 ≠ r := by
  unfold linksOf
  simp [List.filter_eq_nil_iff]

theorem dropReq_eq_self {wb : Ledger} {r : Req} (h : ∀ e ∈ wb, e.1 ≠ r) : dropReq wb r = wb := by
  unfold dropReq
  apply List.filter_eq_self.2
  intro e he; simp [h e he]

theorem any_dropReq (ms : Ledger) (r r' : Req) :
    (dropReq ms r).any (fun e => e.1 == r') = (if r = r' then false else ms.any (fun e => e.1 == r')) := by
  unfold dropReq
  by_cases h : r = r'
  · subst h; simp
  · simp only [h, if_false]
    rw [Bool.eq_iff_iff]
    simp only [List.any_eq_true, List.mem_filter]
    constructor
    · rintro ⟨e, ⟨he, _⟩, h2⟩; exact ⟨e, he, h2⟩
    · rintro ⟨e, he, h2⟩
      refine ⟨e, ⟨he, ?_⟩, h2⟩
      have : e.1 = r' := by simpa using h2
      simp [this]; intro h3; exact h h3.symm

theorem mem_dropReq (ms : Ledger) (r : Req) (e : Req × Link) : e ∈ dropReq ms r ↔ e ∈ ms ∧ e.1 ≠ r := by
  unfold dropReq; simp

/-! ### the empty tracker -/

theorem sim_empty : Sim {} [] [] := by
  constructor <;> intros <;> simp [linksOf, cntOf, enc, encL]

theorem sim_empty_inv {wb ms : Ledger} (h : Sim {} wb ms) : wb = [] ∧ ms = [] := by
  constructor
  · cases wb with
    | nil => rfl
    | cons e t =>
      have := h.links e.1
      simp [encL, linksOf, List.filter_cons] at this
  · cases ms with
    | nil => rfl
    | cons e t =>
      have := h.missSome e.1
      simp at this

/-! ### RecordLinkTraversal -/

theorem Sim.blockRefCount {T : LinkTracker} {wb ms : Ledger} (h : Sim T wb ms) (l : Link) :
    T.blockRefCount l = cntOf wb l := by
  unfold LinkTracker.blockRefCount
  rw [h.refs l]; unfold enc
  by_cases h0 : cntOf wb l = 0 <;> simp [h0]

theorem encL_getD (ls : List Link) : (encL ls).getD [] = ls := by
  unfold encL; cases ls <;> simp

theorem sim_record_true {T : LinkTracker} {wb ms : Ledger} (h : Sim T wb ms) (r : Req) (l : Link) :
    Sim (T.record r l true) (wb ++ [(r, l)]) ms := by
  constructor
  · intro r'
    simp only [LinkTracker.record, if_true, aget_aset, linksOf_append_single]
    by_cases hr : r = r'
    · subst hr; rw [if_pos rfl, if_pos rfl, h.links r, encL_getD]; simp [encL]
    · simp [hr, h.links r']
  · intro l'
    simp only [LinkTracker.record, if_true, aget_aset, cntOf_append_single, h.blockRefCount]
    by_cases hl : l = l'
    · subst hl; simp [enc]
    · simp [hl, h.refs l']
  · intro r'; simpa [LinkTracker.record] using h.missSome r'
  · intro r' l'; simpa [LinkTracker.record] using h.missMem r' l'

theorem sim_record_false {T : LinkTracker} {wb ms : Ledger} (h : Sim T wb ms) (r : Req) (l : Link) :
    Sim (T.record r l false) wb (ms ++ [(r, l)]) := by
  constructor
  · intro r'; simpa [LinkTracker.record] using h.links r'
  · intro l'; simpa [LinkTracker.record] using h.refs l'
  · intro r'
    simp only [LinkTracker.record, Bool.false_eq_true, if_false, aget_aset, List.any_append]
    by_cases hr : r = r'
    · subst hr; simp
    · simp [hr, h.missSome r']
  · intro r' l'
    simp only [LinkTracker.record, Bool.false_eq_true, if_false, aget_aset, List.mem_append]
    by_cases hr : r = r'
    · subst hr
      have := h.missMem r l'
      by_cases hc : ((aget T.missing r).getD []).contains l = true
      · have hl : l ∈ (aget T.missing r).getD [] := by simpa using hc
        simp only [hc, if_true, Option.getD_some, this]
        constructor
        · intro h1; exact Or.inl h1
        · rintro (h1 | h1)
          · exact h1
          · simp at h1; rw [h1]; exact (h.missMem r l).1 hl
      · have hc' : ((aget T.missing r).getD []).contains l = false := by simpa using hc
        simp only [hc', if_true, Bool.false_eq_true, if_false, Option.getD_some, List.mem_append,
          List.mem_singleton, Prod.mk.injEq, true_and]
        rw [this]
    · have : ¬ r' = r := fun h2 => hr h2.symm
      simp [hr, this, h.missMem r' l']

/-! ### FinishRequest -/

theorem decRef_spec (m : List (Link × Nat)) (f : Link → Nat) (hm : ∀ l, aget m l = enc (f l)) (l0 : Link) :
    ∀ l, aget (LinkTracker.decRef m l0) l = enc (if l0 = l then f l - 1 else f l) := by
  intro l
  unfold LinkTracker.decRef
  have h0 : (aget m l0).getD 0 = f l0 := by
    rw [hm l0]; unfold enc; by_cases h : f l0 = 0 <;> simp [h]
  simp only [h0]
  by_cases hz : f l0 - 1 = 0
  · simp only [hz, if_true, aget_aerase]
    by_cases hl : l0 = l
    · subst hl; simp [enc, hz]
    · simp [hl, hm l]
  · simp only [hz, if_false, aget_aset]
    by_cases hl : l0 = l
    · subst hl; simp [enc, hz]
    · simp [hl, hm l]

theorem foldl_decRef_spec (ls : List Link) (m : List (Link × Nat)) (f : Link → Nat)
    (hm : ∀ l, aget m l = enc (f l)) :
    ∀ l, aget (ls.foldl LinkTracker.decRef m) l = enc (f l - ls.count l) := by
  induction ls generalizing m f with
  | nil => simpa using hm
  | cons a t ih =>
    intro l
    rw [List.foldl_cons]
    rw [ih _ _ (decRef_spec m f hm a) l]
    congr 1
    by_cases h : a = l
    · subst h; simp [List.count_cons]; omega
    · have : (a == l) = false := by simp [h]
      simp [h, List.count_cons, this]

theorem sim_finish {T : LinkTracker} {wb ms : Ledger} (h : Sim T wb ms) (r : Req) :
    Sim (T.finishRequest r).1 (dropReq wb r) (dropReq ms r) ∧
    (T.finishRequest r).2 = !ms.any (fun e => e.1 == r) := by
  have hflag : (aget T.missing r).isNone = !ms.any (fun e => e.1 == r) := by
    rw [← h.missSome r]; cases aget T.missing r <;> simp
  have hmissSome : ∀ r', (aget (aerase T.missing r) r').isSome = (dropReq ms r).any (fun e => e.1 == r') := by
    intro r'
    rw [aget_aerase, any_dropReq]
    by_cases hr : r = r' <;> simp [hr, h.missSome r']
  have hmissMem : ∀ r' l, l ∈ (aget (aerase T.missing r) r').getD [] ↔ (r', l) ∈ dropReq ms r := by
    intro r' l
    rw [aget_aerase, mem_dropReq]
    by_cases hr : r = r'
    · subst hr; simp
    · simp [hr, h.missMem r' l]; intro _ h2; exact hr h2.symm
  unfold LinkTracker.finishRequest
  simp only
  cases hl : aget T.linksByReq r with
  | none =>
    have hnil : linksOf wb r = [] := by
      have := h.links r; rw [hl] at this
      unfold encL at this
      by_cases he : (linksOf wb r).isEmpty
      · simpa using he
      · simp [he] at this
    have hself : dropReq wb r = wb := dropReq_eq_self ((linksOf_eq_nil_iff wb r).1 hnil)
    refine ⟨?_, hflag⟩
    rw [hself]
    exact ⟨h.links, h.refs, hmissSome, hmissMem⟩
  | some links =>
    have hlinks : links = linksOf wb r := by
      have := h.links r; rw [hl] at this
      unfold encL at this
      by_cases he : (linksOf wb r).isEmpty
      · simp [he] at this
      · simp [he] at this; exact this
    refine ⟨?_, hflag⟩
    constructor
    · intro r'
      simp only [aget_aerase, linksOf_dropReq]
      by_cases hr : r = r'
      · simp [hr, encL]
      · simp [hr, h.links r']
    · intro l
      simp only
      rw [foldl_decRef_spec links T.refcount (cntOf wb) h.refs l, cntOf_dropReq, hlinks]
    · exact hmissSome
    · exact hmissMem


/-! ### the missing ledger only matters as a set -/

theorem Sim.congr_ms {T : LinkTracker} {wb ms ms' : Ledger} (h : Sim T wb ms) (hm : ∀ e, e ∈ ms ↔ e ∈ ms') :
    Sim T wb ms' := by
  refine ⟨h.links, h.refs, ?_, ?_⟩
  · intro r
    rw [h.missSome r, Bool.eq_iff_iff]
    simp only [List.any_eq_true]
    constructor
    · rintro ⟨e, he, h2⟩; exact ⟨e, (hm e).1 he, h2⟩
    · rintro ⟨e, he, h2⟩; exact ⟨e, (hm e).2 he, h2⟩
  · intro r l; rw [h.missMem r l]; exact hm (r, l)

theorem sim_foldl_record_true {T : LinkTracker} {wb ms : Ledger} (h : Sim T wb ms) (r : Req) (ls : List Link) :
    Sim (ls.foldl (fun t l => t.record r l true) T) (wb ++ ls.map (fun l => (r, l))) ms := by
  induction ls generalizing T wb with
  | nil => simpa using h
  | cons a t ih =>
    rw [List.foldl_cons, List.map_cons]
    have := ih (sim_record_true h r a)
    simpa [List.append_assoc] using this

theorem sim_foldl_record_false {T : LinkTracker} {wb ms : Ledger} (h : Sim T wb ms) (r : Req) (ls : List Link) :
    Sim (ls.foldl (fun t l => t.record r l false) T) wb (ms ++ ls.map (fun l => (r, l))) := by
  induction ls generalizing T ms with
  | nil => simpa using h
  | cons a t ih =>
    rw [List.foldl_cons, List.map_cons]
    have := ih (sim_record_false h r a)
    simpa [List.append_assoc] using this

/-! ### Empty -/

theorem Sim.refcount_pos {T : LinkTracker} {wb ms : Ledger} (h : Sim T wb ms) :
    T.refcount = [] ↔ ∀ l, cntOf wb l = 0 := by
  constructor
  · intro h0 l
    have := h.refs l
    rw [h0] at this
    unfold enc at this
    by_cases hz : cntOf wb l = 0
    · exact hz
    · simp [hz] at this
  · intro h0
    apply eq_nil_of_aget_none
    intro l; rw [h.refs l, h0 l]; rfl

theorem cntOf_zero_iff (wb : Ledger) : (∀ l, cntOf wb l = 0) ↔ wb = [] := by
  constructor
  · intro h
    cases wb with
    | nil => rfl
    | cons e t =>
      have := h e.2
      simp [cntOf, List.countP_cons] at this
  · rintro rfl l; rfl

theorem Sim.missing_nil {T : LinkTracker} {wb ms : Ledger} (h : Sim T wb ms) : T.missing = [] ↔ ms = [] := by
  constructor
  · intro h0
    cases ms with
    | nil => rfl
    | cons e t =>
      have := h.missSome e.1
      rw [h0] at this
      simp at this
  · rintro rfl
    apply eq_nil_of_aget_isSome_false
    intro r; simpa using h.missSome r

theorem Sim.linksByReq_nil {T : LinkTracker} {wb ms : Ledger} (h : Sim T wb ms) (hw : wb = []) :
    T.linksByReq = [] := by
  apply eq_nil_of_aget_none
  intro r; rw [h.links r, hw]; rfl

/-- `Empty()` says exactly that no unfinished request has recorded anything. -/
theorem Sim.isEmpty {T : LinkTracker} {wb ms : Ledger} (h : Sim T wb ms) :
    T.isEmpty = true ↔ wb = [] ∧ ms = [] := by
  unfold LinkTracker.isEmpty
  simp only [Bool.and_eq_true, List.isEmpty_iff]
  rw [h.missing_nil, h.refcount_pos, cntOf_zero_iff]
  exact And.comm

/-- with both ledgers empty the tracker is literally the fresh tracker. -/
theorem Sim.eq_empty {T : LinkTracker} (h : Sim T [] []) : T = {} := by
  have h1 := h.linksByReq_nil rfl
  have h2 := h.missing_nil.2 rfl
  have h3 := h.refcount_pos.2 ((cntOf_zero_iff []).2 rfl)
  cases T; simp_all

end GS.LinkTrack
