import GS.Model.Wire
import GSProofs.Lemmas.WireBasic
/-!
# C11 — Wire encoding round-trips every well-formed message

Property sentence: "Any well-formed message (new, cancel and update requests; responses with any
defined status, link metadata and extension data; blocks with any CID version, codec and hash)
decodes from its encoding to an equivalent message, and a stream of length-prefixed messages decodes
back one by one in order. Extension payloads for do-not-send-cids, do-not-send-first-blocks and
dedup-by-key decode to the values encoded."
-/
namespace GS.C11
open GS.Cbor GS.Wire

/-! ## extension codecs (value level: `Encode*` then `Decode*`) -/

/-- dedup-by-key: "decode to the values encoded" -/
theorem ext_dedupkey (key : Bytes) : decodeDedupKey (encodeDedupKey key) = some key := rfl

/-- do-not-send-first-blocks, for every int64 -/
theorem ext_firstblocks (n : Int) (hlo : -9223372036854775808 ≤ n) (hhi : n ≤ 9223372036854775807) :
    decodeFirstBlocks (encodeFirstBlocks n) = some n := by
  unfold encodeFirstBlocks intToVal
  split
  · rename_i h
    simp only [decodeFirstBlocks]
    have : n.toNat < 9223372036854775808 := by omega
    simp [this]
    omega
  · rename_i h
    simp only [decodeFirstBlocks]
    congr 1
    have : Int.ofNat (-n - 1).toNat = -n - 1 := Int.toNat_of_nonneg (by omega)
    rw [this]; omega

theorem mem_dedup (c : Bytes) : ∀ (cs : List Bytes), c ∈ dedup cs ↔ c ∈ cs
  | [] => by simp [dedup]
  | x :: xs => by
    unfold dedup
    split
    · rename_i h
      have hx : x ∈ xs := by simpa using h
      rw [mem_dedup c xs]
      constructor
      · exact List.mem_cons_of_mem _
      · intro h'
        rcases List.mem_cons.1 h' with h' | h'
        · subst h'; exact hx
        · exact h'
    · simp [mem_dedup c xs]

theorem nodup_dedup : ∀ (cs : List Bytes), (dedup cs).Nodup
  | [] => by simp [dedup]
  | x :: xs => by
    unfold dedup
    split
    · exact nodup_dedup xs
    · rename_i h
      have hx : x ∉ xs := by simpa using h
      exact List.nodup_cons.2 ⟨fun hm => hx ((mem_dedup x xs).1 hm), nodup_dedup xs⟩

theorem decodeCidSet_encode (cs : List Bytes) : decodeCidSet (encodeCidSet cs) = some (dedup cs) := by
  unfold decodeCidSet encodeCidSet
  have : (cs.map Val.link).map valToLink = cs.map some := by
    simp [List.map_map, Function.comp_def, valToLink]
  simp only [this, allSome_map_some]

/-- do-not-send-cids: decoding the encoded set gives the same SET (a duplicate-free list with the
same members), whatever order the Go map iteration produced -/
theorem ext_cidset (cs : List Bytes) :
    ∃ ds, decodeCidSet (encodeCidSet cs) = some ds ∧ ds.Nodup ∧ ∀ c, c ∈ ds ↔ c ∈ cs :=
  ⟨dedup cs, decodeCidSet_encode cs, nodup_dedup cs, fun c => mem_dedup c cs⟩

end GS.C11
