import GSProofs.Lemmas.RespLifeOutcomePWorker
/-!
Outcome accounting, part 3: `Places` under the publisher, task pops, the environment and the manager handlers.
-/
namespace GS.RespLife

variable {r : Id} {okP : Peer → Prop} {okI : Nat → Prop}

-- ------------------------------------------------------------------ publisher
theorem pl_pubStep {s s' : State} {p : Peer} (h : Places r okP okI s) (hs : pubStep s p = some s') :
    Places r okP okI s' := by
  unfold pubStep at hs
  simp only at hs
  split at hs
  · cases hs
  · split at hs
    · cases hs
    · rename_i st rest hq
      have hset : ∀ pw : Bool, Places r okP okI (setMQ s { (getMQ s p) with pubQ := rest, pubWait := pw }) := by
        intro pw
        apply h.onSetMQ
        · intro e he hid
          show okP (getMQ s p).peer ∧ _
          rw [getMQ_peer]
          exact h.bld p e he hid
        · intro st' hst' hid
          show okP (getMQ s p).peer ∧ _
          rw [getMQ_peer]
          exact h.pub p st' (by rw [hq]; exact List.mem_cons_of_mem _ hst') hid
      have hset' : Places r okP okI (setMQ s { (getMQ s p) with pubQ := rest }) := hset (getMQ s p).pubWait
      have hhead := h.pub p st (by rw [hq]; exact List.mem_cons_self)
      cases st with
      | emitBs id n =>
        simp only at hs; cases hs
        exact hset'.of_same rfl rfl rfl rfl rfl rfl
      | emitDone id code =>
        simp only at hs; cases hs
        exact hset'.of_same rfl rfl rfl rfl rfl rfl
      | emitNerr id =>
        simp only at hs; cases hs
        exact hset'.of_same rfl rfl rfl rfl rfl rfl
      | callClose id inc =>
        simp only at hs; cases hs
        apply (hset true).onSendMsg
        constructor
        · intro i q e
          simp only [Msg.closeNetErr.injEq] at e
          obtain ⟨e1, e2, e3⟩ := e
          subst e1; subst e2; subst e3
          have := hhead rfl
          exact ⟨this.1, this.2 inc rfl⟩
        · intro i q e; cases e
      | callTerminate id inc =>
        simp only at hs; cases hs
        apply (hset true).onSendMsg
        constructor
        · intro i q e; cases e
        · intro i q e
          simp only [Msg.terminate.injEq] at e
          obtain ⟨e1, e2, e3⟩ := e
          subst e1; subst e2; subst e3
          have := hhead rfl
          exact ⟨this.1, this.2 inc rfl⟩

-- ------------------------------------------------------------------ task queue, environment
theorem pl_popTask {s s' : State} {p : Peer} {id : Id} (h : Places r okP okI s) (hs : popTask s p id = some s') :
    Places r okP okI s' := by
  obtain ⟨hacc, hmem⟩ := acc_popTask hs
  have hpend : ∀ p', pendOf s' p' = ((acc s).pop p id).pend p' := fun p' => congrFun (congrArg Acc.pend hacc) p'
  have hact : ∀ p', actOf s' p' = ((acc s).pop p id).act p' := fun p' => congrFun (congrArg Acc.act hacc) p'
  have hokp : id = r → okP p := fun e => h.qs p (Or.inl (by rw [← e]; exact hmem))
  have hq : ∀ p', (r ∈ pendOf s' p' ∨ r ∈ actOf s' p') → okP p' := by
    intro p' hp'
    rw [hpend, hact] at hp'
    simp only [Acc.pop, fupd] at hp'
    by_cases hpp : p' = p
    · subst hpp
      simp only [if_true] at hp'
      rcases hp' with hp' | hp'
      · exact h.qs p' (Or.inl (List.mem_filter.1 hp').1)
      · rcases List.mem_append.1 hp' with hp' | hp'
        · exact h.qs p' (Or.inr hp')
        · simp only [List.mem_singleton] at hp'; exact hokp hp'.symm
    · simp only [hpp, if_false] at hp'
      exact h.qs p' hp'
  unfold popTask at hs
  simp only at hs
  split at hs
  · cases hs
    have h1 : Places r okP okI (setQ s _) := h.queues rfl rfl rfl rfl rfl (fun p' hp' => hq p' hp')
    exact ((h1.addWorker { peer := p, id, phase := .waitStart } hokp rfl).onSendMsg _
      (msgPlace_other r okP okI _ rfl))
  · cases hs

theorem pl_reap {s s' : State} {p : Peer} (h : Places r okP okI s) (hs : reap s p = some s') :
    Places r okP okI s' := by
  have hacc := acc_reap hs
  have hpend : ∀ p', pendOf s' p' = pendOf s p' := fun p' => congrFun (congrArg Acc.pend hacc) p'
  have hact : ∀ p', actOf s' p' = actOf s p' := fun p' => congrFun (congrArg Acc.act hacc) p'
  unfold reap at hs
  split at hs
  · split at hs
    · cases hs
      refine Places.queues (s' := { s with queues := _ }) h rfl rfl rfl rfl rfl ?_
      intro p' hp'
      have e1 := hpend p'
      have e2 := hact p'
      rw [e1, e2] at hp'
      exact h.qs p' hp'
    · cases hs
  · cases hs

theorem pl_thawAll {s : State} (h : Places r okP okI s) : Places r okP okI (thawAll s) := by
  have hab := ab_of_li (li_thawAll s)
  refine Places.queues (s' := thawAll s) h rfl rfl rfl rfl rfl ?_
  intro p' hp'
  have e1 : pendOf (thawAll s) p' = pendOf s p' := congrFun (congrArg Ab.pend hab) p'
  have e2 : actOf (thawAll s) p' = actOf s p' := congrFun (congrArg Ab.act hab) p'
  rw [e1, e2] at hp'
  exact h.qs p' hp'

-- ------------------------------------------------------------------ queue operations of the manager
theorem fields_pushTask (s : State) (p : Peer) (id : Id) (pri : Nat) :
    (pushTask s p id pri).workers = s.workers ∧ (pushTask s p id pri).mqs = s.mqs ∧
    (pushTask s p id pri).mailbox = s.mailbox ∧ (pushTask s p id pri).nextInc = s.nextInc := by
  unfold pushTask; simp only; split
  · exact ⟨rfl, rfl, rfl, rfl⟩
  · split <;> exact ⟨rfl, rfl, rfl, rfl⟩

theorem fields_removeTask (s : State) (p : Peer) (id : Id) :
    (removeTask s p id).workers = s.workers ∧ (removeTask s p id).mqs = s.mqs ∧
    (removeTask s p id).mailbox = s.mailbox ∧ (removeTask s p id).nextInc = s.nextInc := by
  unfold removeTask; simp only; split <;> exact ⟨rfl, rfl, rfl, rfl⟩

theorem fields_taskDone (s : State) (p : Peer) (id : Id) :
    (taskDone s p id).mqs = s.mqs ∧ (taskDone s p id).mailbox = s.mailbox ∧ (taskDone s p id).nextInc = s.nextInc := by
  unfold taskDone; split <;> exact ⟨rfl, rfl, rfl⟩

theorem pl_pushTask {s : State} (h : Places r okP okI s) (p : Peer) (id : Id) (pri : Nat) (hp : id = r → okP p) :
    Places r okP okI (pushTask s p id pri) := by
  obtain ⟨f1, f2, f3, f4⟩ := fields_pushTask s p id pri
  refine Places.queues h (table_pushTask s p id pri) f1 f2 f3 (park_pushTask s p id pri) ?_ f4
  intro p' hp'
  rw [pend_pushTask, act_pushTask] at hp'
  rcases hp' with hp' | hp'
  · split at hp'
    · rename_i hc
      rcases List.mem_append.1 hp' with h1 | h1
      · rw [hc.1]; exact h.qs p (Or.inl h1)
      · simp only [List.mem_singleton] at h1
        rw [hc.1]; exact hp h1.symm
    · exact h.qs p' (Or.inl hp')
  · exact h.qs p' (Or.inr hp')

theorem pl_removeTask {s : State} (h : Places r okP okI s) (p : Peer) (id : Id) :
    Places r okP okI (removeTask s p id) := by
  obtain ⟨f1, f2, f3, f4⟩ := fields_removeTask s p id
  refine Places.queues h (table_removeTask s p id) f1 f2 f3 (park_removeTask s p id) ?_ f4
  intro p' hp'
  rw [pend_removeTask, act_removeTask] at hp'
  rcases hp' with hp' | hp'
  · split at hp'
    · rename_i hc; rw [hc]; exact h.qs p (Or.inl (List.mem_filter.1 hp').1)
    · exact h.qs p' (Or.inl hp')
  · exact h.qs p' (Or.inr hp')

theorem pl_taskDone {s : State} (h : Places r okP okI s) (p : Peer) (id : Id) :
    Places r okP okI (taskDone s p id) := by
  obtain ⟨f2, f3, f4⟩ := fields_taskDone s p id
  refine Places.queues h (table_taskDone s p id) (workers_taskDone s p id) f2 f3 (park_taskDone s p id) ?_ f4
  intro p' hp'
  rw [pend_taskDone, act_taskDone] at hp'
  rcases hp' with hp' | hp'
  · exact h.qs p' (Or.inl hp')
  · split at hp'
    · rename_i hc; rw [hc]; exact h.qs p (Or.inr (List.mem_filter.1 hp').1)
    · exact h.qs p' (Or.inr hp')

-- ------------------------------------------------------------------ handlers
theorem pl_emit {s : State} (h : Places r okP okI s) (e : Event) : Places r okP okI (emit s e) :=
  h.of_same rfl rfl rfl rfl rfl rfl

theorem pl_terminate {s : State} (h : Places r okP okI s) (id : Id) (hp : s.park = none) :
    Places r okP okI (terminate s id) := by
  unfold terminate
  split
  · exact h
  · rename_i x hl
    have h1 : Places r okP okI { (emit s (.unprotect x.peer id)) with
        prot := (emit s (.unprotect x.peer id)).prot.filter (· != (x.peer, id)) } := h.of_same rfl rfl rfl rfl rfl rfl
    exact h1.onDelResp id hp

theorem okP_of_lookup {s : State} (h : Places r okP okI s) {id : Id} {x : Resp} (hl : lookup s id = some x)
    (hid : id = r) : okP x.peer ∧ okI x.inc := by
  subst hid; exact h.tbl x hl

/-- a manager transaction for a response that is in the table -/
theorem pl_execMgr {s : State} (h : Places r okP okI s) {id : Id} {x : Resp} (hl : lookup s id = some x)
    (ops : List TxOp) : Places r okP okI (execTx s .mgr x.peer id ops).1 :=
  h.execTx _ _ _ _ (fun hid => by rw [incOf_mgr_some hl]; exact okP_of_lookup h hl hid)

theorem pl_abortRequest {s : State} (h : Places r okP okI s) (id : Id) (err : Sig) (hp : s.park = none) :
    Places r okP okI (abortRequest s id err).1 := by
  unfold abortRequest
  split
  · exact h
  · rename_i x hl
    simp only
    have hrm := pl_removeTask h x.peer id
    have hpr : (removeTask s x.peer id).park = none := by rw [park_removeTask]; exact hp
    have hlr : lookup (removeTask s x.peer id) id = some x := by
      rw [lookup_of_table (table_removeTask s x.peer id)]; exact hl
    split
    · exact hrm
    · split
      · cases err with
        | ctxCancel => exact pl_emit (pl_terminate hrm id hpr) _
        | network => exact pl_terminate hrm id hpr
        | cancelCmd =>
          simp only
          have hls : lookup (setState (removeTask s x.peer id) id .completing) id =
              some { x with state := .completing } := by
            rw [lookup_setState, hlr]
            have : x.id = id := (lookup_some hl).2
            simp [this]
          exact pl_execMgr (x := { x with state := .completing }) (hrm.onSetState id .completing) hls _
      · dsimp only
        exact hrm.onModAux id _

theorem pl_pauseRequest {s : State} (h : Places r okP okI s) (id : Id) : Places r okP okI (pauseRequest s id).1 := by
  unfold pauseRequest
  split
  · exact h
  · split
    · exact h
    · split
      · exact h
      · dsimp only; exact h.onModAux id _

theorem pl_unpauseFinish {s : State} (h : Places r okP okI s) (id : Id) : Places r okP okI (unpauseFinish s id) := by
  unfold unpauseFinish
  split
  · exact h
  · rename_i x hl
    exact pl_pushTask h x.peer id _ (fun hid => (okP_of_lookup h hl hid).1)

theorem lookup_requeue {s : State} {id : Id} {x : Resp} (hl : lookup s id = some x) (f : Aux → Aux) (st : RState) :
    lookup (setState (modAux s id f) id st) id = some { x with aux := f x.aux, state := st } := by
  have hx : x.id = id := (lookup_some hl).2
  rw [lookup_setState, lookup_modAux, hl]
  simp [hx]

theorem pl_unpauseRequest {s : State} (h : Places r okP okI s) (id : Id) (ext : Bool) (hp : s.park = none) :
    Places r okP okI (unpauseRequest s id ext).1 := by
  unfold unpauseRequest
  split
  · exact h
  · rename_i x hl
    split
    · exact h
    · simp only
      have h1 : Places r okP okI (setState (modAux s id fun a => { a with sigPause := false }) id .queued) :=
        (h.onModAux id _).onSetState id .queued
      have hl1 := lookup_requeue hl (fun a => { a with sigPause := false }) .queued
      split
      · have hx := pl_execMgr (x := { x with aux := { x.aux with sigPause := false }, state := .queued }) h1 hl1 [.ext]
        have htx := table_execTx (setState (modAux s id fun a => { a with sigPause := false }) id .queued) .mgr
          x.peer id [.ext]
        generalize execTx (setState (modAux s id fun a => { a with sigPause := false }) id .queued) .mgr
          x.peer id [.ext] = pr at hx htx
        obtain ⟨s2, ok⟩ := pr
        simp only at hx htx ⊢
        have hl2 : lookup s2 id = some { x with aux := { x.aux with sigPause := false }, state := .queued } := by
          rw [lookup_of_table htx]; exact hl1
        split
        · exact pl_unpauseFinish hx id
        · apply hx.onParkMgr
          · intro hid _
            subst hid
            exact ⟨(h.tbl x hl).1, by rw [hl2]; rfl⟩
          · intro p' cfg e; cases e
      · exact pl_unpauseFinish h1 id

theorem pl_updateRequest {s : State} (h : Places r okP okI s) (id : Id) (ext : Bool) :
    Places r okP okI (updateRequest s id ext).1 := by
  unfold updateRequest
  split
  · exact h
  · rename_i x hl
    simp only
    have hx := pl_execMgr h hl ((if ext = true then [TxOp.ext] else []) ++ [TxOp.status stPartial])
    have htx := table_execTx s .mgr x.peer id ((if ext = true then [TxOp.ext] else []) ++ [TxOp.status stPartial])
    generalize execTx s .mgr x.peer id ((if ext = true then [TxOp.ext] else []) ++ [TxOp.status stPartial]) = pr
      at hx htx
    obtain ⟨s1, ok⟩ := pr
    simp only at hx htx ⊢
    split
    · exact hx
    · apply hx.onParkMgr
      · intro hid _
        subst hid
        exact ⟨(h.tbl x hl).1, by rw [lookup_of_table htx, hl]; rfl⟩
      · intro p' cfg e; cases e

theorem pl_procUpdateFinish {s : State} (h : Places r okP okI s) (id : Id) (plan : UP) (hp : s.park = none) :
    Places r okP okI (procUpdateFinish s id plan) := by
  unfold procUpdateFinish
  split
  · exact h
  · split
    · exact h.onSetState _ _
    · split
      · exact pl_unpauseRequest h id false hp
      · exact h

theorem pl_processUpdate {s : State} (h : Places r okP okI s) (id : Id) (plan : UP) (hp : s.park = none) :
    Places r okP okI (processUpdate s id plan) := by
  unfold processUpdate
  split
  · exact h
  · rename_i x hl
    split
    · exact h
    · split
      · exact h.onModAux id _
      · simp only
        generalize ((if (plan == .ext || plan == .unpauseExt) = true then [TxOp.ext] else []) ++
          (if (plan == .err) = true then [TxOp.status stFailedUnknown] else [])) = ops
        have hx := pl_execMgr h hl ops
        have hpx : (execTx s .mgr x.peer id ops).1.park = none := park_execTx_none hp _ _ _ _
        have htx := table_execTx s .mgr x.peer id ops
        generalize execTx s .mgr x.peer id ops = pr at hx hpx htx
        obtain ⟨s1, ok⟩ := pr
        simp only at hx hpx htx ⊢
        split
        · exact pl_procUpdateFinish hx id plan hpx
        · apply hx.onParkMgr
          · intro hid _
            subst hid
            exact ⟨(h.tbl x hl).1, by rw [lookup_of_table htx, hl]; rfl⟩
          · intro p' cfg e; cases e

end GS.RespLife
