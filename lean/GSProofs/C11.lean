import GS.Model.Wire
import GSProofs.Lemmas.WireBasic
import GSProofs.Lemmas.WireMsg
/-!
# C11 — Wire encoding round-trips every well-formed message

Property sentence: "Any well-formed message (new, cancel and update requests; responses with any
defined status, link metadata and extension data; blocks with any CID version, codec and hash)
decodes from its encoding to an equivalent message, and a stream of length-prefixed messages decodes
back one by one in order. Extension payloads for do-not-send-cids, do-not-send-first-blocks and
dedup-by-key decode to the values encoded."
-/
namespace GS.C11
open GS.Cbor GS.Wire

/-! ## extension codecs (value level: `Encode*` then `Decode*`) -/

/-- dedup-by-key: "decode to the values encoded" -/
theorem ext_dedupkey (key : Bytes) : decodeDedupKey (encodeDedupKey key) = some key := rfl

/-- do-not-send-first-blocks, for every int64 -/
theorem ext_firstblocks (n : Int) (hlo : -9223372036854775808 ≤ n) (hhi : n ≤ 9223372036854775807) :
    decodeFirstBlocks (encodeFirstBlocks n) = some n := by
  unfold encodeFirstBlocks intToVal
  split
  · rename_i h
    simp only [decodeFirstBlocks]
    have : n.toNat < 9223372036854775808 := by omega
    simp [this]
    omega
  · rename_i h
    simp only [decodeFirstBlocks]
    congr 1
    have : Int.ofNat (-n - 1).toNat = -n - 1 := Int.toNat_of_nonneg (by omega)
    rw [this]; omega

theorem mem_dedup (c : Bytes) : ∀ (cs : List Bytes), c ∈ dedup cs ↔ c ∈ cs
  | [] => by simp [dedup]
  | x :: xs => by
    unfold dedup
    split
    · rename_i h
      have hx : x ∈ xs := by simpa using h
      rw [mem_dedup c xs]
      constructor
      · exact List.mem_cons_of_mem _
      · intro h'
        rcases List.mem_cons.1 h' with h' | h'
        · subst h'; exact hx
        · exact h'
    · simp [mem_dedup c xs]

theorem nodup_dedup : ∀ (cs : List Bytes), (dedup cs).Nodup
  | [] => by simp [dedup]
  | x :: xs => by
    unfold dedup
    split
    · exact nodup_dedup xs
    · rename_i h
      have hx : x ∉ xs := by simpa using h
      exact List.nodup_cons.2 ⟨fun hm => hx ((mem_dedup x xs).1 hm), nodup_dedup xs⟩

theorem decodeCidSet_encode (cs : List Bytes) : decodeCidSet (encodeCidSet cs) = some (dedup cs) := by
  unfold decodeCidSet encodeCidSet
  have : (cs.map Val.link).map valToLink = cs.map some := by
    simp [List.map_map, Function.comp_def, valToLink]
  simp only [this, allSome_map_some]

/-- do-not-send-cids: decoding the encoded set gives the same SET (a duplicate-free list with the
same members), whatever order the Go map iteration produced -/
theorem ext_cidset (cs : List Bytes) :
    ∃ ds, decodeCidSet (encodeCidSet cs) = some ds ∧ ds.Nodup ∧ ∀ c, c ∈ ds ↔ c ∈ cs :=
  ⟨dedup cs, decodeCidSet_encode cs, nodup_dedup cs, fun c => mem_dedup c cs⟩

/-- members of a cid set are FULL binary CIDs: the CIDv0, CIDv1/dag-pb and CIDv1/raw spellings of one
multihash are three different members, and all three survive (a test of concrete values; the
general statement is `ext_cidset`) -/
example :
    let mh : Bytes := 0x12 :: 0x20 :: List.replicate 32 7
    decodeCidSet (encodeCidSet [mh, 1 :: 0x70 :: mh, 1 :: 0x55 :: mh]) = some [mh, 1 :: 0x70 :: mh, 1 :: 0x55 :: mh] := by
  decide +kernel

/-! ## the codec: DAG-CBOR round trip -/

/-- canonical = well-formed (`wfVal`), nested at most 1024 deep, and every map already in the
encoder's key order (so sorting changes nothing) -/
def canonical (v : Val) : Prop := wfVal v = true ∧ depthVal v ≤ maxDepth ∧ sortVal v = v

/-- **cbor_roundtrip** — for canonical values, and followed by arbitrary further bytes. -/
theorem cbor_roundtrip (v : Val) (rest : Bytes) (h : canonical v) :
    decodeVal (encodeVal v ++ rest) = some (v, rest) := by
  have := decodeVal_encodeVal v rest h.1 h.2.1
  rwa [h.2.2] at this

/-- the general form: any key order in, the encoder's order out (`sortVal`). -/
theorem cbor_roundtrip_sorted (v : Val) (rest : Bytes) (hw : wfVal v = true) (hd : depthVal v ≤ maxDepth) :
    decodeVal (encodeVal v ++ rest) = some (sortVal v, rest) :=
  decodeVal_encodeVal v rest hw hd

/-- floats that are not finite do not round-trip: the encoder writes them, the decoder rejects them
(checked on the real codec by the `rtx` cases of the `wire` stream) -/
theorem cbor_roundtrip_nan_counterexample :
    (decodeVal (encodeVal (.float 0x7ff8000000000000))).isNone = true := by decide +kernel

/-! ### extension payloads through the codec -/

theorem ext_dedupkey_wire (key rest : Bytes) (h : key.length ≤ maxStrLen) :
    (decodeVal (encodeVal (encodeDedupKey key) ++ rest)).map (fun r => (decodeDedupKey r.1, r.2))
      = some (some key, rest) := by
  rw [decodeVal_encodeVal _ rest (by simp [encodeDedupKey, wfVal, h]) (by simp [encodeDedupKey, depthVal])]
  simp [encodeDedupKey, sortVal, decodeDedupKey]

theorem ext_firstblocks_wire (n : Int) (rest : Bytes) (hlo : -9223372036854775808 ≤ n) (hhi : n ≤ 9223372036854775807) :
    (decodeVal (encodeVal (encodeFirstBlocks n) ++ rest)).map (fun r => (decodeFirstBlocks r.1, r.2))
      = some (some n, rest) := by
  have hw : wfVal (encodeFirstBlocks n) = true := by
    unfold encodeFirstBlocks intToVal
    split <;> simp [wfVal] <;> omega
  have hd : depthVal (encodeFirstBlocks n) ≤ maxDepth := by
    unfold encodeFirstBlocks intToVal
    split <;> simp [depthVal]
  rw [decodeVal_encodeVal _ rest hw hd]
  have : sortVal (encodeFirstBlocks n) = encodeFirstBlocks n := sortVal_intToVal n
  simp [this, ext_firstblocks n hlo hhi]

/-! ## messages -/

theorem allSome_inverse {α β : Type} {f : α → Option β} {g : β → Option α} : ∀ {xs : List α} {ys : List β},
    allSome (xs.map f) = some ys → (∀ x ∈ xs, ∀ y, f x = some y → g y = some x) →
    allSome (ys.map g) = some xs
  | [], ys, h, _ => by
    simp only [List.map_nil, allSome, Option.some.injEq] at h
    subst h; rfl
  | x :: xs, ys, h, hall => by
    simp only [List.map_cons] at h
    cases hfx : f x with
    | none => rw [hfx] at h; simp [allSome] at h
    | some y =>
      rw [hfx] at h
      simp only [allSome] at h
      cases hr : allSome (xs.map f) with
      | none => rw [hr] at h; cases h
      | some ys' =>
        rw [hr] at h
        simp only [Option.some.injEq] at h
        subst h
        have h1 := hall x List.mem_cons_self y hfx
        have h2 := allSome_inverse (g := g) hr (fun x' hx' => hall x' (List.mem_cons_of_mem _ hx'))
        simp only [List.map_cons, allSome, h1, h2]

theorem normReq_id (r : Request) : (normReq r).id = r.id := by
  unfold normReq; cases r.type <;> rfl

theorem encodeRaw_nonempty (v : Val) : 0 < (encodeRaw v).length := by
  have := need_le v
  have := need_pos v
  omega

/-- decoding the front of a stream that starts with the encoding of a well-formed message -/
theorem decodeOne_encode (hash : Hash) (m : Msg) (rest : Bytes) (h : wf hash m = true) :
    ∃ bs, encodeMsg m = some bs ∧ 0 < bs.length ∧ decodeOne hash (bs ++ rest) = .ok (norm m) rest := by
  simp only [wf, Bool.and_eq_true] at h
  obtain ⟨⟨⟨⟨⟨⟨hdq, hwq⟩, hds⟩, hws⟩, hdb⟩, hwb⟩, hv⟩ := h
  cases hmv : msgVal m with
  | none => rw [hmv] at hv; cases hv
  | some v =>
    rw [hmv] at hv
    simp only [Bool.and_eq_true, decide_eq_true_eq] at hv
    obtain ⟨⟨⟨hwf, hdepth⟩, hsize⟩, hcost⟩ := hv
    unfold msgVal at hmv
    cases hti : toIPLD m with
    | none => rw [hti] at hmv; cases hmv
    | some b =>
      rw [hti] at hmv
      simp only at hmv
      refine ⟨frame (encodeVal v), by simp [encodeMsg, hti, hmv], frame_length_pos _, ?_⟩
      have hpos : 0 < (encodeVal v).length := encodeRaw_nonempty _
      -- the shape of `b`
      unfold toIPLD at hti
      cases hbl : allSome (m.blocks.map blkToB) with
      | none => rw [hbl] at hti; cases hti
      | some bbs =>
        rw [hbl] at hti
        simp only [Option.some.injEq] at hti
        subst hti
        -- frame
        unfold decodeOne
        rw [readFrame_frame _ rest hpos hsize]
        simp only
        -- codec + schema layer
        have hsel : ∀ rs, (Option.map (fun x => List.map reqToB x) (nonEmpty m.requests)) = some rs →
            ∀ r ∈ rs, r.sel ≠ some .null := by
          intro rs hrs r hr
          unfold nonEmpty at hrs
          split at hrs
          · cases hrs
          · simp only [Option.map_some, Option.some.injEq] at hrs
            subst hrs
            obtain ⟨q, hq, rfl⟩ := List.mem_map.1 hr
            have := List.all_eq_true.1 hwq q hq
            simp only [wfReq, Bool.and_eq_true] at this
            intro e
            simp only [reqToB] at e
            rw [e] at this
            simp [selNotNull] at this
        have hdec : decodePayload hash (encodeVal v) = some (norm m) := by
          unfold decodePayload
          rw [decodeBlock_encodeVal v hwf hdepth hcost]
          simp only
          rw [valToBMsg_sort _ v hmv hsel]
          simp only
          -- fromIPLD
          unfold fromIPLD
          have hreq : allSome (((normB ⟨(nonEmpty m.requests).map (·.map reqToB),
              (nonEmpty m.responses).map (·.map rspToB), nonEmpty bbs⟩).req.getD []).map reqFromB)
              = some (m.requests.map normReq) := by
            have : (normB ⟨(nonEmpty m.requests).map (·.map reqToB),
              (nonEmpty m.responses).map (·.map rspToB), nonEmpty bbs⟩).req.getD []
                = m.requests.map (fun r => normBReq (reqToB r)) := by
              simp only [normB, nonEmpty]
              cases m.requests <;> simp
            rw [this, List.map_map]
            exact allSome_map_eq (fun r hr => reqFromB_norm r (List.all_eq_true.1 hwq r hr))
          have hrsp : allSome (((normB ⟨(nonEmpty m.requests).map (·.map reqToB),
              (nonEmpty m.responses).map (·.map rspToB), nonEmpty bbs⟩).rsp.getD []).map rspFromB)
              = some (m.responses.map normRsp) := by
            have : (normB ⟨(nonEmpty m.requests).map (·.map reqToB),
              (nonEmpty m.responses).map (·.map rspToB), nonEmpty bbs⟩).rsp.getD []
                = m.responses.map (fun r => normBRsp (rspToB r)) := by
              simp only [normB, nonEmpty]
              cases m.responses <;> simp
            rw [this, List.map_map]
            exact allSome_map_eq (fun r hr => rspFromB_norm r (List.all_eq_true.1 hws r hr))
          have hblk : allSome (((normB ⟨(nonEmpty m.requests).map (·.map reqToB),
              (nonEmpty m.responses).map (·.map rspToB), nonEmpty bbs⟩).blk.getD []).map (blkFromB hash))
              = some m.blocks := by
            have : (normB ⟨(nonEmpty m.requests).map (·.map reqToB),
              (nonEmpty m.responses).map (·.map rspToB), nonEmpty bbs⟩).blk.getD [] = bbs := by
              simp only [normB]
              exact nonEmpty_getD bbs
            rw [this]
            refine allSome_inverse hbl ?_
            intro x hx y hy
            obtain ⟨bb, hbb, hfrom⟩ := blkFromB_blkToB hash x (List.all_eq_true.1 hwb x hx)
            rw [hbb] at hy
            simp only [Option.some.injEq] at hy
            subst hy
            exact hfrom
          rw [hreq, hrsp, hblk]
          simp only
          have d1 : dedupLast (·.id) (m.requests.map normReq) = m.requests.map normReq :=
            dedupLast_of_distinct _ (by rw [distinctBy_map _ _ normReq_id]; exact hdq)
          have d2 : dedupLast (·.id) (m.responses.map normRsp) = m.responses.map normRsp :=
            dedupLast_of_distinct _ (by rw [distinctBy_map (·.id) normRsp (fun _ => rfl)]; exact hds)
          have d3 : dedupLast (·.cid) m.blocks = m.blocks := dedupLast_of_distinct _ hdb
          rw [d1, d2, d3]
          rfl
        rw [hdec]

/-- **C11.roundtrip** — "Any well-formed message … decodes from its encoding to an equivalent
message": for every hash function and every well-formed `m` (`wf`), `ToNet` succeeds and `FromNet`
of its output is `norm m` — the same requests by ID (a cancel reduced to its ID, an update to ID +
extensions), responses (status, metadata in order), extensions by name with their data re-sorted into
canonical map order and a null payload read back as nil, and blocks by CID. -/
theorem roundtrip (hash : Hash) (m : Msg) (h : wf hash m = true) :
    ∃ bs, encodeMsg m = some bs ∧ decodeMsg hash bs = some (norm m) := by
  obtain ⟨bs, he, _, hd⟩ := decodeOne_encode hash m [] h
  refine ⟨bs, he, ?_⟩
  rw [List.append_nil] at hd
  simp [decodeMsg, hd]

theorem decodeStreamFuel_encode (hash : Hash) : ∀ (ms : List Msg) (fuel : Nat),
    (∀ m ∈ ms, wf hash m = true) → ms.length < fuel →
    ∃ frames, allSome (ms.map encodeMsg) = some frames ∧
      decodeStreamFuel hash fuel frames.flatten = (ms.map norm, true)
  | [], fuel, _, hf => by
    refine ⟨[], rfl, ?_⟩
    obtain ⟨f, rfl⟩ : ∃ f, fuel = f + 1 := ⟨fuel - 1, by simp at hf; omega⟩
    simp [decodeStreamFuel, decodeOne, readFrame]
  | m :: ms, fuel, hall, hf => by
    obtain ⟨f, rfl⟩ : ∃ f, fuel = f + 1 := ⟨fuel - 1, by simp at hf; omega⟩
    obtain ⟨frames, hfr, hdec⟩ := decodeStreamFuel_encode hash ms f
      (fun m' hm' => hall m' (List.mem_cons_of_mem _ hm')) (by simp at hf; omega)
    obtain ⟨bs, he, _, hd⟩ := decodeOne_encode hash m frames.flatten (hall m List.mem_cons_self)
    refine ⟨bs :: frames, by simp [allSome, he, hfr], ?_⟩
    simp only [List.flatten_cons, decodeStreamFuel, hd, hdec, List.map_cons]

/-- **C11.stream** — "a stream of length-prefixed messages decodes back one by one in order": the
concatenated encodings of well-formed messages decode, with one reader, to the normal forms in the
same order, and the stream then ends cleanly. -/
theorem stream (hash : Hash) (ms : List Msg) (h : ∀ m ∈ ms, wf hash m = true) :
    ∃ frames, allSome (ms.map encodeMsg) = some frames ∧
      decodeStream hash frames.flatten = (ms.map norm, true) := by
  obtain ⟨frames, hfr, _⟩ := decodeStreamFuel_encode hash ms (ms.length + 1) h (by omega)
  refine ⟨frames, hfr, ?_⟩
  unfold decodeStream
  -- every frame has at least one byte, so the fuel `length + 1` exceeds the number of messages
  have hlen : ms.length ≤ frames.flatten.length := by
    have key : ∀ (ms : List Msg) (frames : List Bytes), (∀ m ∈ ms, wf hash m = true) →
        allSome (ms.map encodeMsg) = some frames → ms.length ≤ frames.flatten.length := by
      intro ms
      induction ms with
      | nil => intro frames _ _; simp
      | cons m ms ih =>
        intro frames hall hfr
        obtain ⟨bs, he, hpos, _⟩ := decodeOne_encode hash m [] (hall m List.mem_cons_self)
        simp only [List.map_cons, he, allSome] at hfr
        cases hr : allSome (ms.map encodeMsg) with
        | none => rw [hr] at hfr; cases hfr
        | some fr' =>
          rw [hr] at hfr
          simp only [Option.some.injEq] at hfr
          subst hfr
          have := ih fr' (fun m' hm' => hall m' (List.mem_cons_of_mem _ hm')) hr
          simp only [List.length_cons, List.flatten_cons, List.length_append]
          omega
    exact key ms frames h hfr
  obtain ⟨frames', hfr', hdec⟩ := decodeStreamFuel_encode hash ms (frames.flatten.length + 1) h (by omega)
  rw [hfr] at hfr'
  simp only [Option.some.injEq] at hfr'
  subst hfr'
  exact hdec

/-! ## "any defined status", "new, cancel and update", the four link actions

`wf` asks that the message can be encoded (`msgVal m` exists). These theorems show that this is no
restriction for the values the Go API defines: every `ResponseStatusCode` constant of
responsecode.go, every request type and every `LinkAction` constant of graphsync.go has a wire
form in schema.ipldsch (and the schema defines no status the Go side lacks). They are statements
about the regenerated tables, so editing a constant or the schema re-checks them. -/

theorem defined_status_encodable :
    ∀ s ∈ GS.Generated.Schema.goStatusCodes, (statusToVal (Int.ofNat s)).isSome = true := by decide

theorem schema_status_defined :
    ∀ s ∈ GS.Generated.Schema.statusEnum, GS.Generated.Schema.goStatusCodes.contains s = true := by decide

theorem request_types_encodable (t : ReqType) :
    (enumEncode GS.Generated.Schema.requestTypeEnum t.goName).isSome = true := by
  cases t <;> decide

theorem link_actions_encodable :
    ∀ a ∈ goLinkActions, (enumEncode GS.Generated.Schema.linkActionEnum a).isSome = true := by decide

/-! ## what the hypotheses exclude (each checked on the real code by the `rtx` cases) -/

/-- a frame above 4 MiB is rejected by the reader, whatever it contains: `ToNet` has no size check,
so a message whose encoding is larger does not round-trip (hence `wf` demands the size bound) -/
theorem oversize_frame_rejected (p rest : Bytes) (h : maxMsgSize < p.length) (h2 : p.length < 2 ^ 63) :
    readFrame (frame p ++ rest) = .err := by
  unfold readFrame frame
  have hv : uvarint (putUvarint p.length ++ (p ++ rest)) = some (p.length, p ++ rest) :=
    uvarint_put p.length (p ++ rest) h2
  cases hbs : putUvarint p.length ++ p ++ rest with
  | nil =>
    have := putUvarint_ne_nil p.length
    cases hq : putUvarint p.length with
    | nil => exact absurd hq this
    | cons a b => rw [hq] at hbs; simp at hbs
  | cons a b =>
    simp only
    rw [← hbs, List.append_assoc, hv]
    have h0 : ¬ (p.length = 0) := by
      have : maxMsgSize = 4194304 := rfl
      omega
    simp [h0, h]

def noHash : Hash := fun _ _ _ => none
def id16 : Bytes := [0, 1, 2, 3, 4, 5, 6, 7, 8, 9, 10, 11, 12, 13, 14, 15]

/-- a request whose selector is the null node encodes, but the result does not decode
(`optional Any` is not nullable): the full statement without `selNotNull` is false -/
theorem roundtrip_null_selector_counterexample :
    (encodeMsg { requests := [{ id := id16, type := .new, selector := some .null }] }).isSome = true ∧
    ((encodeMsg { requests := [{ id := id16, type := .new, selector := some .null }] }).bind
      (decodeMsg noHash)).isNone = true := by
  constructor <;> decide +kernel

/-- non-vacuity: a message with a new request (priority, root, selector, two extensions one of them
nil), an update, a cancel, a response with metadata, and an identity-hash block is well-formed -/
def idHash : Hash := fun code _ data => if code = 0 then some data else none
def sampleCid : Bytes := [1, 0x55, 0, 3, 0x61, 0x62, 0x63]
def sampleMsg : Msg :=
  { requests := [
      { id := id16, type := .new, priority := -5, root := some sampleCid,
        selector := some (.map [([0x7a], .uint 1), ([0x61], .array [.null, .bool true])]),
        exts := [([0x62, 0x62], some (.text [0x78])), ([0x61], none)] },
      { id := id16.map (· + 16), type := .update, exts := [([0x6b], some (.link sampleCid))] },
      { id := id16.map (· + 32), type := .cancel }],
    responses := [{ id := id16, status := 20, metadata := [(sampleCid, GS.Generated.Schema.goLinkActionPresent)] }],
    blocks := [{ cid := sampleCid, data := [0x61, 0x62, 0x63] }] }

example : wf idHash sampleMsg = true := by decide +kernel

end GS.C11
