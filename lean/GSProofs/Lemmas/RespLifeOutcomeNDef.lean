import GSProofs.Lemmas.RespLifeOutcomeMgr2
/-!
Outcome accounting, part 2: requestor-cancelled vs network-error notifications (/repo e842a00).

`nerr r` is emitted by a publisher from an `emitNerr r` step.  Such a step is queued together with a
`callClose r inc` step in front of it (`errSteps`); the publisher first asks the manager
(`closeNetErr`), and the manager erases the `emitNerr` again when the response no longer exists.  An
`emitNerr r` is CONFIRMED when no `callClose r` / pending `closeNetErr r` of the same publisher is in
front of it.  The second potential counts: cancelled events, "a network error is confirmed or
reported" (0/1), "the response is alive and not failed" (0/1), a parked newRequest.
-/
namespace GS.RespLife

def cancEv (r : Id) : Event → Bool
  | .canc id => id == r
  | _ => false

def nerrEv (r : Id) : Event → Bool
  | .nerr id => id == r
  | _ => false

def cancC (r : Id) (s : State) : Nat := s.events.countP (cancEv r)
def nerrC (r : Id) (s : State) : Nat := s.events.countP (nerrEv r)

/-- a CloseWithNetworkError call for `r` by publisher `p` that the manager has not handled yet -/
def closeFrom (r : Id) (p : Peer) : Msg → Bool
  | .closeNetErr id _ pub => id == r && pub == p
  | _ => false

/-- a synchronous call of publisher `p` (the publisher waits for the manager: `pubWait`) -/
def anyFrom (p : Peer) : Msg → Bool
  | .closeNetErr _ _ pub => pub == p
  | .terminate _ _ pub => pub == p
  | _ => false

def pend (r : Id) (p : Peer) (mb : List Msg) : Bool := mb.any (closeFrom r p)
def fromN (p : Peer) (mb : List Msg) : Nat := mb.countP (anyFrom p)

/-- well-formed publisher queue w.r.t. `r`: a `callClose r` only when no other is open, every open one
    is closed by an `emitNerr r`; `st` = a call is open at the start -/
def wfQ (r : Id) : Bool → List PStep → Bool
  | st, [] => !st
  | st, .callClose id _ :: q => if id == r then (!st && wfQ r true q) else wfQ r st q
  | st, .emitNerr id :: q => if id == r then wfQ r false q else wfQ r st q
  | st, .emitBs _ _ :: q => wfQ r st q
  | st, .callTerminate _ _ :: q => wfQ r st q
  | st, .emitDone _ _ :: q => wfQ r st q

/-- number of confirmed `emitNerr r` steps -/
def cnfQ (r : Id) : Bool → List PStep → Nat
  | _, [] => 0
  | st, .callClose id _ :: q => if id == r then cnfQ r true q else cnfQ r st q
  | st, .emitNerr id :: q => if id == r then (if st then 0 else 1) + cnfQ r false q else cnfQ r st q
  | st, .emitBs _ _ :: q => cnfQ r st q
  | st, .callTerminate _ _ :: q => cnfQ r st q
  | st, .emitDone _ _ :: q => cnfQ r st q

/-- steps that the automaton ignores -/
def neutral (r : Id) : PStep → Bool
  | .callClose id _ => id != r
  | .emitNerr id => id != r
  | _ => true

theorem wfQ_cons_neutral (r : Id) (st : Bool) (x : PStep) (q : List PStep) (h : neutral r x = true) :
    wfQ r st (x :: q) = wfQ r st q ∧ cnfQ r st (x :: q) = cnfQ r st q := by
  cases x with
  | callClose id inc =>
    have : (id == r) = false := by simpa [neutral] using h
    simp [wfQ, cnfQ, this]
  | emitNerr id =>
    have : (id == r) = false := by simpa [neutral] using h
    simp [wfQ, cnfQ, this]
  | emitBs _ _ => exact ⟨rfl, rfl⟩
  | callTerminate _ _ => exact ⟨rfl, rfl⟩
  | emitDone _ _ => exact ⟨rfl, rfl⟩

/-- appending to a well-formed queue: it ends idle -/
theorem wfQ_append (r : Id) (b : List PStep) : ∀ (a : List PStep) (st : Bool), wfQ r st a = true →
    wfQ r st (a ++ b) = wfQ r false b ∧ cnfQ r st (a ++ b) = cnfQ r st a + cnfQ r false b := by
  intro a
  induction a with
  | nil =>
    intro st h
    have : st = false := by simpa [wfQ] using h
    subst this
    simp [cnfQ]
  | cons x a ih =>
    intro st h
    cases x with
    | callClose id inc =>
      simp only [List.cons_append, wfQ, cnfQ] at h ⊢
      by_cases hid : (id == r) = true
      · simp only [hid, if_true, Bool.and_eq_true, Bool.not_eq_true'] at h ⊢
        obtain ⟨h1, h2⟩ := ih true h.2
        rw [h1, h2, h.1]
        simp
      · simp only [hid, Bool.false_eq_true, if_false] at h ⊢
        exact ih st h
    | emitNerr id =>
      simp only [List.cons_append, wfQ, cnfQ] at h ⊢
      by_cases hid : (id == r) = true
      · simp only [hid, if_true] at h ⊢
        obtain ⟨h1, h2⟩ := ih false h
        rw [h1, h2]
        exact ⟨rfl, by omega⟩
      · simp only [hid, Bool.false_eq_true, if_false] at h ⊢
        exact ih st h
    | emitBs _ _ => exact ih st h
    | callTerminate _ _ => exact ih st h
    | emitDone _ _ => exact ih st h

theorem wfQ_neutral_list (r : Id) (l : List PStep) (h : ∀ x ∈ l, neutral r x = true) :
    wfQ r false l = true ∧ cnfQ r false l = 0 := by
  induction l with
  | nil => exact ⟨rfl, rfl⟩
  | cons x l ih =>
    obtain ⟨h1, h2⟩ := wfQ_cons_neutral r false x l (h x List.mem_cons_self)
    rw [h1, h2]
    exact ih fun y hy => h y (List.mem_cons_of_mem _ hy)

/-- the open call is answered "response exists": its `emitNerr` becomes confirmed -/
theorem wfQ_confirm (r : Id) : ∀ q : List PStep, wfQ r true q = true →
    wfQ r false q = true ∧ cnfQ r false q = cnfQ r true q + 1 := by
  intro q
  induction q with
  | nil => intro h; simp [wfQ] at h
  | cons x q ih =>
    intro h
    cases x with
    | callClose id inc =>
      simp only [wfQ, cnfQ] at h ⊢
      by_cases hid : (id == r) = true
      · simp [hid] at h
      · simp only [hid, Bool.false_eq_true, if_false] at h ⊢
        exact ih h
    | emitNerr id =>
      simp only [wfQ, cnfQ] at h ⊢
      by_cases hid : (id == r) = true
      · simp only [hid, if_true] at h ⊢
        exact ⟨h, by simp; omega⟩
      · simp only [hid, Bool.false_eq_true, if_false] at h ⊢
        exact ih h
    | emitBs _ _ => exact ih h
    | callTerminate _ _ => exact ih h
    | emitDone _ _ => exact ih h

/-- the open call is answered "no such response": its `emitNerr` is erased -/
theorem wfQ_erase_open (r : Id) : ∀ q : List PStep, wfQ r true q = true →
    wfQ r false (q.erase (.emitNerr r)) = true ∧ cnfQ r false (q.erase (.emitNerr r)) = cnfQ r true q := by
  intro q
  induction q with
  | nil => intro h; simp [wfQ] at h
  | cons x q ih =>
    intro h
    rw [List.erase_cons]
    cases x with
    | callClose id inc =>
      have hne : (PStep.callClose id inc == PStep.emitNerr r) = false := by simp
      simp only [hne, Bool.false_eq_true, if_false]
      simp only [wfQ, cnfQ] at h ⊢
      by_cases hid : (id == r) = true
      · simp [hid] at h
      · simp only [hid, Bool.false_eq_true, if_false] at h ⊢
        exact ih h
    | emitNerr id =>
      by_cases hid : id = r
      · subst hid
        simp only [beq_self_eq_true, if_true]
        simp only [wfQ, cnfQ, beq_self_eq_true, if_true] at h ⊢
        exact ⟨h, by omega⟩
      · have hne : (PStep.emitNerr id == PStep.emitNerr r) = false := by simpa using hid
        have hid' : (id == r) = false := by simpa using hid
        simp only [hne, Bool.false_eq_true, if_false]
        simp only [wfQ, cnfQ, hid', Bool.false_eq_true, if_false] at h ⊢
        exact ih h
    | emitBs a b =>
      have hne : (PStep.emitBs a b == PStep.emitNerr r) = false := by simp
      simp only [hne, Bool.false_eq_true, if_false]
      exact ih h
    | callTerminate a b =>
      have hne : (PStep.callTerminate a b == PStep.emitNerr r) = false := by simp
      simp only [hne, Bool.false_eq_true, if_false]
      exact ih h
    | emitDone a b =>
      have hne : (PStep.emitDone a b == PStep.emitNerr r) = false := by simp
      simp only [hne, Bool.false_eq_true, if_false]
      exact ih h

/-- erasing the `emitNerr` of another request changes nothing -/
theorem wfQ_erase_other (r : Id) {id : Id} (hid : id ≠ r) : ∀ (q : List PStep) (st : Bool),
    wfQ r st (q.erase (.emitNerr id)) = wfQ r st q ∧ cnfQ r st (q.erase (.emitNerr id)) = cnfQ r st q := by
  intro q
  induction q with
  | nil => intro st; exact ⟨rfl, rfl⟩
  | cons x q ih =>
    intro st
    rw [List.erase_cons]
    split
    · rename_i h
      have hx : x = .emitNerr id := by simpa using h
      subst hx
      have := wfQ_cons_neutral r st (.emitNerr id) q (by simpa [neutral] using hid)
      exact ⟨this.1.symm, this.2.symm⟩
    · cases x with
      | callClose i inc =>
        simp only [wfQ, cnfQ]
        split
        · rw [(ih true).1, (ih true).2]; exact ⟨rfl, rfl⟩
        · exact ih st
      | emitNerr i =>
        simp only [wfQ, cnfQ]
        split
        · rw [(ih false).1, (ih false).2]; exact ⟨rfl, rfl⟩
        · exact ih st
      | emitBs _ _ => exact ih st
      | callTerminate _ _ => exact ih st
      | emitDone _ _ => exact ih st

-- ------------------------------------------------------------------ queued steps of a resolved message
theorem neutral_sentSteps (r : Id) (e : Entry) : ∀ x ∈ sentSteps e, neutral r x = true := by
  intro x hx
  have h1 : ∀ id inc, PStep.callClose id inc ∉ sentSteps e := by
    intro id inc h
    unfold sentSteps at h
    simp only [List.mem_append] at h
    rcases h with h | h <;> split at h <;> simp at h
  have h2 : ∀ id, PStep.emitNerr id ∉ sentSteps e := by
    intro id h
    unfold sentSteps at h
    simp only [List.mem_append] at h
    rcases h with h | h <;> split at h <;> simp at h
  cases x with
  | callClose id inc => exact absurd hx (h1 id inc)
  | emitNerr id => exact absurd hx (h2 id)
  | emitBs _ _ => rfl
  | callTerminate _ _ => rfl
  | emitDone _ _ => rfl

theorem wfQ_errSteps (r : Id) (e : Entry) : wfQ r false (errSteps e) = true ∧ cnfQ r false (errSteps e) = 0 := by
  unfold errSteps
  simp only [List.append_assoc, List.singleton_append]
  by_cases hid : (e.id == r) = true
  · by_cases ht : isTerminal (if e.inResp then e.code.getD stPartial else 0) = true
    · simp [ht, wfQ, cnfQ, hid]
    · simp [ht, wfQ, cnfQ, hid]
  · have hid' : (e.id == r) = false := by simpa using hid
    by_cases ht : isTerminal (if e.inResp then e.code.getD stPartial else 0) = true
    · simp [ht, wfQ, cnfQ, hid']
    · simp [ht, wfQ, cnfQ, hid']

theorem wfQ_flat_err (r : Id) (l : List Entry) :
    wfQ r false (l.map errSteps).flatten = true ∧ cnfQ r false (l.map errSteps).flatten = 0 := by
  induction l with
  | nil => exact ⟨rfl, rfl⟩
  | cons e l ih =>
    simp only [List.map_cons, List.flatten_cons]
    obtain ⟨h1, h2⟩ := wfQ_errSteps r e
    obtain ⟨h3, h4⟩ := wfQ_append r (l.map errSteps).flatten (errSteps e) false h1
    rw [h3, h4, h2, ih.1, ih.2]
    exact ⟨rfl, rfl⟩

theorem neutral_flat_sent (r : Id) (l : List Entry) : ∀ x ∈ (l.map sentSteps).flatten, neutral r x = true := by
  intro x hx
  simp only [List.mem_flatten, List.mem_map] at hx
  obtain ⟨ys, ⟨e, _, rfl⟩, hx⟩ := hx
  exact neutral_sentSteps r e x hx

end GS.RespLife
