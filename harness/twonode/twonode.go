// Package twonode: shared machinery of the components `pauseres` (C06) and `concur` (C20).
//
// Two complete, real graphsync nodes (impl.New: request manager, executor, reconciled loader,
// response manager, query executor, response assembler, real message queues, real allocator) in one
// process, joined by a GATED in-process network: every message goes through the real wire codec and
// is appended to a per-direction FIFO; the harness decides when the head of a FIFO is delivered.
// Stores, block hooks and the sender can park the calling goroutine on a gate until the harness's
// scheduler releases it.  The scheduler acts only at globally quiescent points (package quiesce),
// so a run is a function of the case (schedule seed included), not of timing.
//
// Everything observable is appended to one event log with a global sequence number; the oracles
// and the known-finding predicates work from that log only.
package twonode

import (
	"bytes"
	"context"
	"errors"
	"fmt"
	"io"
	"math/rand"
	"sort"
	"strconv"
	"strings"
	"sync"

	"github.com/ipfs/go-cid"
	logging "github.com/ipfs/go-log/v2"
	"github.com/ipld/go-ipld-prime/datamodel"
	"github.com/ipld/go-ipld-prime/linking"
	cidlink "github.com/ipld/go-ipld-prime/linking/cid"
	"github.com/libp2p/go-libp2p/core/peer"

	"github.com/ipfs/go-graphsync"
	"github.com/ipfs/go-graphsync/donotsendfirstblocks"
	gsimpl "github.com/ipfs/go-graphsync/impl"
	gsmsg "github.com/ipfs/go-graphsync/message"
	gsmsgv2 "github.com/ipfs/go-graphsync/message/v2"
	gsnet "github.com/ipfs/go-graphsync/network"

	"verifharness/dag"
	"verifharness/quiesce"
)

func QuietLogs() { _ = logging.SetLogLevel("*", "fatal") }

var codec = gsmsgv2.NewMessageHandler()

var (
	ReqPeer  = peer.ID("peer-requestor")
	RespPeer = peer.ID("peer-responder")
	ReqPeerB = peer.ID("peer-requestor-b") // optional second requestor (node 2)
)

// node indices
const (
	NodeA    = 0 // requestor
	NodeResp = 1 // responder
	NodeB    = 2 // second requestor (only with NewSimB)
)

func peerOfNode(n int) peer.ID {
	switch n {
	case NodeA:
		return ReqPeer
	case NodeResp:
		return RespPeer
	}
	return ReqPeerB
}

// message directions: 0 A->responder, 1 responder->A, 2 B->responder, 3 responder->B
func dirOf(from int, to peer.ID) int {
	switch from {
	case NodeA:
		return 0
	case NodeB:
		return 2
	}
	if to == ReqPeerB {
		return 3
	}
	return 1
}

func dirEnds(dir int) (from, to int) {
	switch dir {
	case 0:
		return NodeA, NodeResp
	case 1:
		return NodeResp, NodeA
	case 2:
		return NodeB, NodeResp
	}
	return NodeResp, NodeB
}

// ---------------------------------------------------------------- the case's DAG

// World: one generated DAG; requests are (root block, selector) pairs over it.
type World struct {
	D     *dag.DAG
	names map[cid.Cid]int
}

// Query is one (root, selector) pair with its reference link tree (full store).
type Query struct {
	W       *World
	Root    int
	SelName string
	Sel     datamodel.Node
	LT      []dag.Load // pre-order link tree of the traversal over the complete DAG
	view    *dag.DAG
}

func NewWorld(seed int64, maxBlocks int) (*World, *rand.Rand) {
	r := rand.New(rand.NewSource(seed))
	o := dag.DefaultOpts()
	o.MaxBlocks = maxBlocks
	d := dag.Gen(r, o)
	w := &World{D: d, names: map[cid.Cid]int{}}
	for i, c := range d.Cids {
		w.names[c] = i
	}
	return w, r
}

// NewWorldOf: a world over a DAG built by the caller (directed shapes, e.g. dag.GenTwin).
func NewWorldOf(d *dag.DAG) *World {
	w := &World{D: d, names: map[cid.Cid]int{}}
	for i, c := range d.Cids {
		w.names[c] = i
	}
	return w
}

func (w *World) Name(c cid.Cid) string {
	if i, ok := w.names[c]; ok {
		return strconv.Itoa(i)
	}
	return "?"
}

func (w *World) LinkName(l datamodel.Link) string {
	if cl, ok := l.(cidlink.Link); ok {
		return w.Name(cl.Cid)
	}
	return "?"
}

// NewQuery builds the query (root block index, selector) and its reference link tree.
func (w *World) NewQuery(root int, selName string, sel datamodel.Node) (*Query, error) {
	view := *w.D
	view.Root = w.D.Cids[root]
	loads, _, _, err := dag.WalkAnswering(&view, sel, nil)
	if err != nil {
		return nil, err
	}
	return &Query{W: w, Root: root, SelName: selName, Sel: sel, LT: loads, view: &view}, nil
}

// LTLine: the query's link tree with visit counts in the line-protocol format of the requestor model
// ("<n> block:parent:path:vData:vSkip …", path segments interned per query).
func (q *Query) LTLine() (string, error) {
	lt, vd, vs, err := dag.VisitTable(q.view, q.Sel)
	if err != nil {
		return "", err
	}
	return lt.FormatV(dag.NewSegInterner().Name, vd, vs), nil
}

// Selectors offered by name (deterministic, so that a case file can name them).
var SelNames = []string{"all", "depth1", "depth2", "depth3", "field-a", "field-b", "union", "range"}

func SelectorByName(name string) (datamodel.Node, bool) {
	// the shared generator draws the selector kind from its rand; find a seed per kind once
	selOnce.Do(func() {
		selTable = map[string]datamodel.Node{}
		want := map[string]string{
			"all": "all-recursive", "depth1": "all-depth1", "depth2": "all-depth2", "depth3": "all-depth3",
			"field-a": "field-a-then-all", "field-b": "field-b-then-all", "union": "union-a-b", "range": "range-0-2-then-all",
		}
		for s := int64(0); s < 4000 && len(selTable) < len(want); s++ {
			n, sel := dag.GenSelector(rand.New(rand.NewSource(s)))
			for k, v := range want {
				if v == n {
					if _, ok := selTable[k]; !ok {
						selTable[k] = sel
					}
				}
			}
		}
	})
	s, ok := selTable[name]
	return s, ok
}

var (
	selOnce  sync.Once
	selTable map[string]datamodel.Node
)

// IsDesc: j is i or a descendant of i in the link tree.
func (q *Query) IsDesc(j, i int) bool {
	for j > i {
		j = q.LT[j].Parent
	}
	return j == i
}

func (q *Query) SkipSubtree(i int) int {
	j := i + 1
	for j < len(q.LT) && q.IsDesc(j, i) {
		j++
	}
	return j
}

func PathKey(segs []string) string { return strings.Join(segs, "/") }

// RefStep is one load of the reference semantics of a single exchange.
type RefStep struct {
	Node    int  // link-tree index
	Avail   bool // answered with data
	Fetched bool // the block came from the responder (was not held locally at that moment)
}

// Reference semantics of property C02 (the result both C06 and C20 compare "alone" runs with is the
// real code's own solo run; this reference is only used to decide known-finding input classes):
// a link is available if the requestor holds it (initially or fetched earlier) or the responder
// holds it and followed every ancestor.
func (q *Query) RefTrav(loc, rem map[int]bool) []RefStep {
	have := map[int]bool{}
	for k, v := range loc {
		if v {
			have[k] = true
		}
	}
	var out []RefStep
	for i := 0; i < len(q.LT); {
		b := q.LT[i].Block
		av, fetched := have[b], false
		if !av {
			av = true
			for j := i; j >= 0; j = q.LT[j].Parent {
				if !rem[q.LT[j].Block] {
					av = false
				}
			}
			if av {
				have[b] = true
				fetched = true
			}
		}
		out = append(out, RefStep{i, av, fetched})
		if av {
			i++
		} else {
			i = q.SkipSubtree(i)
		}
	}
	return out
}

// ResponderStream: link-tree nodes the responder's own traversal visits, in order, with "holds it".
func (q *Query) ResponderStream(rem map[int]bool) (nodes []int, present []bool) {
	for i := 0; i < len(q.LT); {
		b := q.LT[i].Block
		nodes = append(nodes, i)
		present = append(present, rem[b])
		if rem[b] {
			i++
		} else {
			i = q.SkipSubtree(i)
		}
	}
	return
}

// ---------------------------------------------------------------- event log

type Kind int

const (
	EvSend      Kind = iota // a message was handed to the network (SendMsg returned)
	EvDeliver               // a message was handed to the destination's ReceiveMessage
	EvReqHook               // requestor incoming-block hook
	EvRespHook              // responder outgoing-block hook
	EvRead                  // store read (Side, Cid, OK)
	EvWriteOpen             // requestor StorageWriteOpener called
	EvWrite                 // requestor store write committed
	EvAPI                   // harness called Pause / Unpause / SendUpdate (Note)
	EvState                 // harness observation (Note)
	EvSentListener          // responder block-sent listener
)

type Event struct {
	Seq    int
	Kind   Kind
	Side   int // 0 requestor, 1 responder
	Req    int // request index (-1 unknown)
	Cid    int
	Index  int64
	OnWire bool
	OK     bool
	Pkt    *Packet
	Note   string
}

// Packet is one wire message (after encode+decode through the real codec).
type Packet struct {
	Dir       int // 0 requestor->responder, 1 responder->requestor
	N         int // per-direction sequence number
	Msg       gsmsg.GraphSyncMessage
	SentSeq   int
	DelivSeq  int // 0 = not delivered yet
	Reqs      []PktReq
	Resps     []PktResp
	BlockCids []int
}

type PktReq struct {
	Req  int
	Type graphsync.RequestType
	Skip int64
}

type PktResp struct {
	Req    int
	Status graphsync.ResponseStatusCode
	Items  []PktItem
}

type PktItem struct {
	Cid    int
	Action graphsync.LinkAction
}

// ---------------------------------------------------------------- gates

// Gate parks goroutines until the scheduler releases them, one at a time.
type Gate struct {
	Name    string
	mu      sync.Mutex
	enabled bool
	waiting []chan struct{}
}

func (g *Gate) Enable(b bool) {
	g.mu.Lock()
	g.enabled = b
	var w []chan struct{}
	if !b {
		w, g.waiting = g.waiting, nil
	}
	g.mu.Unlock()
	for _, c := range w {
		close(c)
	}
}

// Pass is called by the system under test; it parks while the gate is enabled.
func (g *Gate) Pass() {
	g.mu.Lock()
	if !g.enabled {
		g.mu.Unlock()
		return
	}
	c := make(chan struct{})
	g.waiting = append(g.waiting, c)
	g.mu.Unlock()
	<-c
}

func (g *Gate) Waiting() int {
	g.mu.Lock()
	defer g.mu.Unlock()
	return len(g.waiting)
}

// Release lets the longest-waiting goroutine continue.
func (g *Gate) Release() bool {
	g.mu.Lock()
	if len(g.waiting) == 0 {
		g.mu.Unlock()
		return false
	}
	c := g.waiting[0]
	g.waiting = g.waiting[1:]
	g.mu.Unlock()
	close(c)
	return true
}

// ---------------------------------------------------------------- network

type endpoint struct {
	s    *Sim
	side int
	recv gsnet.Receiver
}

func (e *endpoint) send(to peer.ID, m gsmsg.GraphSyncMessage) error {
	s := e.s
	self := peerOfNode(e.side)
	var buf bytes.Buffer
	if err := codec.ToNet(self, m, &buf); err != nil {
		s.netErr("encode: " + err.Error())
		return err
	}
	dm, err := codec.FromNet(self, &buf)
	if err != nil {
		s.netErr("decode: " + err.Error())
		return err
	}
	s.SendGate[e.side].Pass()
	dir := dirOf(e.side, to)
	s.mu.Lock()
	p := &Packet{Dir: dir, N: s.sent[dir], Msg: dm}
	s.sent[dir]++
	s.summarise(p)
	p.SentSeq = s.logLocked(Event{Kind: EvSend, Side: e.side, Req: -1, Pkt: p})
	s.fifo[dir] = append(s.fifo[dir], p)
	s.Packets = append(s.Packets, p)
	s.mu.Unlock()
	return nil
}

func (e *endpoint) SendMessage(ctx context.Context, p peer.ID, m gsmsg.GraphSyncMessage) error {
	return e.send(p, m)
}
func (e *endpoint) SetDelegate(r gsnet.Receiver)              { e.recv = r }
func (e *endpoint) ConnectTo(context.Context, peer.ID) error { return nil }
func (e *endpoint) NewMessageSender(_ context.Context, p peer.ID, _ gsnet.MessageSenderOpts) (gsnet.MessageSender, error) {
	return &sender{e, p}, nil
}
func (e *endpoint) ConnectionManager() gsnet.ConnManager { return nopConnManager{} }

type sender struct {
	e  *endpoint
	to peer.ID
}

func (s *sender) SendMsg(ctx context.Context, m gsmsg.GraphSyncMessage) error { return s.e.send(s.to, m) }
func (s *sender) Close() error                                                { return nil }
func (s *sender) Reset() error                                                { return nil }

type nopConnManager struct{}

func (nopConnManager) Protect(peer.ID, string)        {}
func (nopConnManager) Unprotect(peer.ID, string) bool { return false }

// ---------------------------------------------------------------- stores

type store struct {
	s      *Sim
	side   int
	blocks map[cid.Cid][]byte
}

type ctxReqKey struct{}

func (st *store) linkSystem() linking.LinkSystem {
	s := st.s
	ls := cidlink.DefaultLinkSystem()
	ls.StorageReadOpener = func(lc linking.LinkContext, l datamodel.Link) (io.Reader, error) {
		c := l.(cidlink.Link).Cid
		req := -1
		if lc.Ctx != nil {
			if v, ok := lc.Ctx.Value(ctxReqKey{}).(int); ok {
				req = v
			}
		}
		if st.side == 1 {
			if req >= 0 && req < len(s.RespReadGate) {
				s.RespReadGate[req].Pass()
			}
		}
		s.mu.Lock()
		b, ok := st.blocks[c]
		s.logLocked(Event{Kind: EvRead, Side: st.side, Req: req, Cid: s.W.names[c], OK: ok, Note: pathOf(lc)})
		s.mu.Unlock()
		if !ok {
			return nil, fmt.Errorf("not found")
		}
		return bytes.NewReader(b), nil
	}
	ls.StorageWriteOpener = func(lc linking.LinkContext) (io.Writer, linking.BlockWriteCommitter, error) {
		var buf bytes.Buffer
		s.mu.Lock()
		s.logLocked(Event{Kind: EvWriteOpen, Side: st.side, Req: -1, Cid: -1, Note: pathOf(lc)})
		s.mu.Unlock()
		return &buf, func(l datamodel.Link) error {
			c := l.(cidlink.Link).Cid
			data := append([]byte{}, buf.Bytes()...)
			if st.side != NodeResp {
				if g, ok := s.WriteGate[s.W.names[c]]; ok {
					g.Pass()
				}
			}
			h, _ := c.Prefix().Sum(data)
			s.mu.Lock()
			st.blocks[c] = data
			s.logLocked(Event{Kind: EvWrite, Side: st.side, Req: -1, Cid: s.W.names[c], OK: h.Equals(c), Note: pathOf(lc)})
			s.mu.Unlock()
			return nil
		}, nil
	}
	return ls
}

func pathOf(lc linking.LinkContext) string {
	var ss []string
	for _, sg := range lc.LinkPath.Segments() {
		ss = append(ss, sg.String())
	}
	return strings.Join(ss, "/")
}

// ---------------------------------------------------------------- the simulation

type ReqRun struct {
	Idx      int
	Node     int // issuing node: NodeA or NodeB
	PO       string // persistence option the request uses on the requestor ("" = the node's default store)
	Q        *Query
	ID       graphsync.RequestID
	Prog     []graphsync.ResponseProgress
	Errs     []error
	PDone    bool
	EDone    bool
	Started  bool
	Exts     []graphsync.ExtensionData
	cancelFn context.CancelFunc
}

func (r *ReqRun) Closed() bool { return r.PDone && r.EDone }

// CancelByCaller cancels the context the request was issued with
func (r *ReqRun) CancelByCaller() {
	if r.cancelFn != nil {
		r.cancelFn()
	}
}

type Sim struct {
	W      *World
	Ctx    context.Context
	Cancel context.CancelFunc

	mu      sync.Mutex
	seq     int
	Log     []Event
	Packets []*Packet
	fifo    [4][]*Packet
	sent    [4]int
	NetErrs []string

	eps   [3]*endpoint
	Nodes [3]graphsync.GraphExchange
	st    [3]*store
	HasB  bool

	Reqs []*ReqRun
	ids  map[graphsync.RequestID]int

	// gates (disabled unless the case enables them)
	SendGate     [3]*Gate      // SendMsg of node i parks (backpressure of the network)
	RespReadGate []*Gate       // responder store read of request i parks
	ReqHookGate  []*Gate       // requestor incoming-block hook of request i parks (after the block was loaded)
	WriteGate    map[int]*Gate // requestor store-write commit of block c parks

	// user hooks (called on the goroutine of the system under test, without the lock)
	OnReqBlock  func(r *ReqRun, nth int, bd graphsync.BlockData, ha graphsync.IncomingBlockHookActions)
	OnRespBlock func(r int, nth int, bd graphsync.BlockData, ha graphsync.OutgoingBlockHookActions)
	OnUpdate    func(r int, upd graphsync.RequestData, ha graphsync.RequestUpdatedHookActions)
	OnIncoming  func(r int, rd graphsync.RequestData, ha graphsync.IncomingRequestHookActions)
	nReqBlock   map[int]int
	nRespBlock  map[int]int
}

func (s *Sim) netErr(e string) {
	s.mu.Lock()
	s.NetErrs = append(s.NetErrs, e)
	s.mu.Unlock()
}

func (s *Sim) logLocked(e Event) int {
	s.seq++
	e.Seq = s.seq
	s.Log = append(s.Log, e)
	return s.seq
}

func (s *Sim) LogEvent(e Event) int {
	s.mu.Lock()
	defer s.mu.Unlock()
	return s.logLocked(e)
}

func (s *Sim) Seq() int {
	s.mu.Lock()
	defer s.mu.Unlock()
	return s.seq
}

func (s *Sim) reqIndex(id graphsync.RequestID) int {
	if i, ok := s.ids[id]; ok {
		return i
	}
	return -1
}

func (s *Sim) summarise(p *Packet) {
	for _, q := range p.Msg.Requests() {
		pr := PktReq{Req: s.reqIndex(q.ID()), Type: q.Type()}
		if d, ok := q.Extension(graphsync.ExtensionsDoNotSendFirstBlocks); ok {
			pr.Skip, _ = donotsendfirstblocks.DecodeDoNotSendFirstBlocks(d)
		}
		p.Reqs = append(p.Reqs, pr)
	}
	sort.Slice(p.Reqs, func(i, j int) bool { return p.Reqs[i].Req < p.Reqs[j].Req })
	for _, r := range p.Msg.Responses() {
		pr := PktResp{Req: s.reqIndex(r.RequestID()), Status: r.Status()}
		r.Metadata().Iterate(func(c cid.Cid, a graphsync.LinkAction) {
			pr.Items = append(pr.Items, PktItem{s.W.names[c], a})
		})
		p.Resps = append(p.Resps, pr)
	}
	sort.Slice(p.Resps, func(i, j int) bool { return p.Resps[i].Req < p.Resps[j].Req })
	for _, b := range p.Msg.Blocks() {
		p.BlockCids = append(p.BlockCids, s.W.names[b.Cid()])
	}
}

// NewSim creates the two nodes.  loc / rem: block indices held by requestor / responder.
// nReq = number of request slots (gates are per slot).
func NewSim(w *World, loc, rem []int, nReq int, opts ...gsimpl.Option) *Sim {
	return NewSimB(w, loc, rem, nil, false, nReq, opts...)
}

// NewSimB: as NewSim, optionally with a second requestor node (NodeB) holding the blocks locB.
func NewSimB(w *World, loc, rem, locB []int, withB bool, nReq int, opts ...gsimpl.Option) *Sim {
	s := &Sim{W: w, ids: map[graphsync.RequestID]int{}, WriteGate: map[int]*Gate{}, nReqBlock: map[int]int{}, nRespBlock: map[int]int{}, HasB: withB}
	s.Ctx, s.Cancel = context.WithCancel(context.Background())
	for i := 0; i < 3; i++ {
		s.eps[i] = &endpoint{s: s, side: i}
		s.st[i] = &store{s: s, side: i, blocks: map[cid.Cid][]byte{}}
		s.SendGate[i] = &Gate{Name: fmt.Sprintf("send%d", i)}
	}
	for i := 0; i < nReq; i++ {
		s.RespReadGate = append(s.RespReadGate, &Gate{Name: fmt.Sprintf("s%d", i)})
		s.ReqHookGate = append(s.ReqHookGate, &Gate{Name: fmt.Sprintf("r%d", i)})
	}
	for _, i := range loc {
		s.st[NodeA].blocks[w.D.Cids[i]] = w.D.Data[w.D.Cids[i]]
	}
	for _, i := range rem {
		s.st[NodeResp].blocks[w.D.Cids[i]] = w.D.Data[w.D.Cids[i]]
	}
	for _, i := range locB {
		s.st[NodeB].blocks[w.D.Cids[i]] = w.D.Data[w.D.Cids[i]]
	}
	s.Nodes[NodeA] = gsimpl.New(s.Ctx, s.eps[NodeA], s.st[NodeA].linkSystem(), opts...)
	s.Nodes[NodeResp] = gsimpl.New(s.Ctx, s.eps[NodeResp], s.st[NodeResp].linkSystem(), opts...)
	if withB {
		s.Nodes[NodeB] = gsimpl.New(s.Ctx, s.eps[NodeB], s.st[NodeB].linkSystem(), opts...)
	}
	// the cooperative responder accepts every request; the request index travels in the response's
	// context so that the responder's store reads can be attributed (and gated) per request
	s.Nodes[NodeResp].RegisterIncomingRequestHook(func(p peer.ID, r graphsync.RequestData, ha graphsync.IncomingRequestHookActions) {
		ha.ValidateRequest()
		s.mu.Lock()
		idx := s.reqIndex(r.ID())
		s.mu.Unlock()
		ha.AugmentContext(func(c context.Context) context.Context { return context.WithValue(c, ctxReqKey{}, idx) })
		if s.OnIncoming != nil {
			s.OnIncoming(idx, r, ha)
		}
	})
	s.Nodes[NodeResp].RegisterOutgoingBlockHook(func(p peer.ID, r graphsync.RequestData, bd graphsync.BlockData, ha graphsync.OutgoingBlockHookActions) {
		s.mu.Lock()
		idx := s.reqIndex(r.ID())
		s.nRespBlock[idx]++
		nth := s.nRespBlock[idx]
		s.logLocked(Event{Kind: EvRespHook, Side: 1, Req: idx, Cid: s.W.names[bd.Link().(cidlink.Link).Cid], Index: bd.Index(), OnWire: bd.BlockSizeOnWire() > 0})
		s.mu.Unlock()
		if s.OnRespBlock != nil {
			s.OnRespBlock(idx, nth, bd, ha)
		}
	})
	s.Nodes[NodeResp].RegisterRequestUpdatedHook(func(p peer.ID, r graphsync.RequestData, upd graphsync.RequestData, ha graphsync.RequestUpdatedHookActions) {
		s.mu.Lock()
		idx := s.reqIndex(r.ID())
		s.mu.Unlock()
		if s.OnUpdate != nil {
			s.OnUpdate(idx, upd, ha)
		}
	})
	s.Nodes[NodeResp].RegisterBlockSentListener(func(p peer.ID, r graphsync.RequestData, bd graphsync.BlockData) {
		s.mu.Lock()
		s.logLocked(Event{Kind: EvSentListener, Side: 1, Req: s.reqIndex(r.ID()), Cid: s.W.names[bd.Link().(cidlink.Link).Cid], Index: bd.Index(), OnWire: bd.BlockSizeOnWire() > 0})
		s.mu.Unlock()
	})
	for _, node := range []int{NodeA, NodeB} {
		node := node
		if s.Nodes[node] == nil {
			continue
		}
		s.Nodes[node].RegisterOutgoingRequestHook(func(p peer.ID, rd graphsync.RequestData, ha graphsync.OutgoingRequestHookActions) {
			s.mu.Lock()
			po := ""
			if idx := s.reqIndex(rd.ID()); idx >= 0 {
				po = s.Reqs[idx].PO
			}
			s.mu.Unlock()
			if po != "" {
				ha.UsePersistenceOption(po)
			}
		})
		s.Nodes[node].RegisterIncomingBlockHook(func(p peer.ID, rd graphsync.ResponseData, bd graphsync.BlockData, ha graphsync.IncomingBlockHookActions) {
			s.mu.Lock()
			idx := s.reqIndex(rd.RequestID())
			s.nReqBlock[idx]++
			nth := s.nReqBlock[idx]
			s.logLocked(Event{Kind: EvReqHook, Side: node, Req: idx, Cid: s.W.names[bd.Link().(cidlink.Link).Cid], Index: bd.Index(), OnWire: bd.BlockSizeOnWire() > 0})
			var rr *ReqRun
			if idx >= 0 {
				rr = s.Reqs[idx]
			}
			s.mu.Unlock()
			if s.OnReqBlock != nil && rr != nil {
				s.OnReqBlock(rr, nth, bd, ha)
			}
			if idx >= 0 && idx < len(s.ReqHookGate) {
				s.ReqHookGate[idx].Pass()
			}
		})
	}
	return s
}

// AddAltStore registers a persistence option `name` on requestor node `node`: a separate block store
// holding `blocks`.  Requests with ReqRun.PO = name load from / store into it (and automatically carry
// the dedup-by-key extension `name`).
func (s *Sim) AddAltStore(node int, name string, blocks []int) error {
	st := &store{s: s, side: node, blocks: map[cid.Cid][]byte{}}
	for _, i := range blocks {
		st.blocks[s.W.D.Cids[i]] = s.W.D.Data[s.W.D.Cids[i]]
	}
	return s.Nodes[node].RegisterPersistenceOption(name, st.linkSystem())
}

// AddRequest registers a request slot (so that its ID is known to the log) without starting it.
func (s *Sim) AddRequest(q *Query, exts ...graphsync.ExtensionData) *ReqRun {
	return s.AddRequestAt(NodeA, q, exts...)
}

// AddRequestAt: the request will be issued by node (NodeA or NodeB).
func (s *Sim) AddRequestAt(node int, q *Query, exts ...graphsync.ExtensionData) *ReqRun {
	s.mu.Lock()
	defer s.mu.Unlock()
	r := &ReqRun{Idx: len(s.Reqs), Node: node, Q: q, ID: graphsync.NewRequestID(), Exts: exts}
	s.Reqs = append(s.Reqs, r)
	s.ids[r.ID] = r.Idx
	return r
}

// Start issues the request through the public API (GraphExchange.Request).
func (s *Sim) Start(r *ReqRun) {
	ctx, cancel := context.WithCancel(context.WithValue(s.Ctx, graphsync.RequestIDContextKey{}, r.ID))
	r.cancelFn = cancel
	r.Started = true
	pc, ec := s.Nodes[r.Node].Request(ctx, RespPeer, cidlink.Link{Cid: s.W.D.Cids[r.Q.Root]}, r.Q.Sel, r.Exts...)
	go func() {
		for p := range pc {
			s.mu.Lock()
			r.Prog = append(r.Prog, p)
			s.mu.Unlock()
		}
		s.mu.Lock()
		r.PDone = true
		s.mu.Unlock()
	}()
	go func() {
		for e := range ec {
			s.mu.Lock()
			r.Errs = append(r.Errs, e)
			s.mu.Unlock()
		}
		s.mu.Lock()
		r.EDone = true
		s.mu.Unlock()
	}()
}

func (s *Sim) Quiesce() { quiesce.Wait(nil) }

func (s *Sim) Close() {
	for _, g := range s.SendGate {
		g.Enable(false)
	}
	for _, g := range s.RespReadGate {
		g.Enable(false)
	}
	for _, g := range s.ReqHookGate {
		g.Enable(false)
	}
	for _, g := range s.WriteGate {
		g.Enable(false)
	}
	s.Cancel()
	quiesce.Wait(nil)
}

// InFlight: number of undelivered messages in direction dir.
func (s *Sim) InFlight(dir int) int {
	s.mu.Lock()
	defer s.mu.Unlock()
	return len(s.fifo[dir])
}

func (s *Sim) Head(dir int) *Packet {
	s.mu.Lock()
	defer s.mu.Unlock()
	if len(s.fifo[dir]) == 0 {
		return nil
	}
	return s.fifo[dir][0]
}

// Deliver hands the head of the FIFO of direction dir to the destination node.
func (s *Sim) Deliver(dir int) *Packet {
	s.mu.Lock()
	if len(s.fifo[dir]) == 0 {
		s.mu.Unlock()
		return nil
	}
	p := s.fifo[dir][0]
	s.fifo[dir] = s.fifo[dir][1:]
	from, to := dirEnds(dir)
	p.DelivSeq = s.logLocked(Event{Kind: EvDeliver, Side: to, Req: -1, Pkt: p})
	s.mu.Unlock()
	s.eps[to].recv.ReceiveMessage(s.Ctx, peerOfNode(from), p.Msg)
	return p
}

// Locked runs f with the simulation's lock held (for reading Reqs / Log consistently).
func (s *Sim) Locked(f func()) {
	s.mu.Lock()
	defer s.mu.Unlock()
	f()
}

func (s *Sim) Impl(side int) *gsimpl.GraphSync { return s.Nodes[side].(*gsimpl.GraphSync) }

// RequestorState of request r as the request manager reports it (-1 = not tracked).
func (s *Sim) RequestorState(r *ReqRun) int {
	ps := s.Impl(r.Node).PeerState(RespPeer)
	if st, ok := ps.OutgoingState.RequestStates[r.ID]; ok {
		return int(st)
	}
	return -1
}

// ResponderState of request r as the response manager reports it (-1 = not tracked); active = its
// task is executing on a worker.
func (s *Sim) ResponderState(r *ReqRun) (state int, active bool) {
	ps := s.Impl(NodeResp).PeerState(peerOfNode(r.Node))
	state = -1
	if st, ok := ps.IncomingState.RequestStates[r.ID]; ok {
		state = int(st)
	}
	for _, id := range ps.IncomingState.TaskQueueState.Active {
		if id == r.ID {
			active = true
		}
	}
	return
}

// StoreKeys: sorted block indices held by side.
func (s *Sim) StoreKeys(side int) []int {
	s.mu.Lock()
	defer s.mu.Unlock()
	var out []int
	for c := range s.st[side].blocks {
		out = append(out, s.W.names[c])
	}
	sort.Ints(out)
	return out
}

func (s *Sim) Has(side int, blk int) bool {
	s.mu.Lock()
	defer s.mu.Unlock()
	_, ok := s.st[side].blocks[s.W.D.Cids[blk]]
	return ok
}

// ---------------------------------------------------------------- results

// Result is what property C06 / C20 compare between two runs of a request.
type Result struct {
	Nodes   []string // delivered nodes in order: path=<hex of dag-cbor encoding>
	Missing []string // missing-block errors (link:path), sorted
	Hard    []string // verification failures (incorrect response, extra data, nothing left), sorted
	Errs    []string // every error, canonical names, sorted (Missing and Hard included)
	Closed  bool
}

func ErrName(w *World, e error) string {
	var miss graphsync.RemoteMissingBlockErr
	var inc graphsync.RemoteIncorrectResponseError
	switch {
	case errors.As(e, &miss):
		return fmt.Sprintf("missing:%s:%s", w.LinkName(miss.Link), dagPath(miss.Path))
	case errors.As(e, &inc):
		return fmt.Sprintf("incorrect:%s:%s:%s", w.LinkName(inc.LocalLink), w.LinkName(inc.RemoteLink), dagPath(inc.Path))
	}
	for code := graphsync.ResponseStatusCode(30); code <= 37; code++ {
		if se := code.AsError(); se != nil && errors.Is(e, se) {
			return fmt.Sprintf("status:%d", code)
		}
	}
	m := e.Error()
	switch {
	case strings.Contains(m, "additional data"):
		return "extra-data"
	case strings.Contains(m, "nothing left to verify"):
		return "nothing-left"
	case strings.Contains(m, "context cancel"):
		return "ctxcancel"
	case strings.Contains(m, "unknown response status code"):
		return "status:unknown"
	}
	return "other:" + strings.ReplaceAll(m, " ", "_")
}

func dagPath(p datamodel.Path) string {
	ss := make([]string, 0, p.Len())
	for _, s := range p.Segments() {
		ss = append(ss, s.String())
	}
	return strings.Join(ss, "/")
}

func (s *Sim) ResultOf(r *ReqRun) Result {
	s.mu.Lock()
	defer s.mu.Unlock()
	var res Result
	for _, p := range r.Prog {
		res.Nodes = append(res.Nodes, fmt.Sprintf("%s=%x", dagPath(p.Path), dag.EncodeNode(p.Node)))
	}
	for _, e := range r.Errs {
		n := ErrName(s.W, e)
		res.Errs = append(res.Errs, n)
		switch {
		case strings.HasPrefix(n, "missing:"):
			res.Missing = append(res.Missing, n)
		case strings.HasPrefix(n, "incorrect:"), n == "extra-data", n == "nothing-left":
			res.Hard = append(res.Hard, n)
		}
	}
	sort.Strings(res.Errs)
	sort.Strings(res.Missing)
	sort.Strings(res.Hard)
	res.Closed = r.Closed()
	return res
}

// Diff describes the first difference between two results ("" = equal).
func (a Result) Diff(b Result) string {
	if len(a.Nodes) != len(b.Nodes) {
		return fmt.Sprintf("%d nodes delivered vs %d", len(a.Nodes), len(b.Nodes))
	}
	for i := range a.Nodes {
		if a.Nodes[i] != b.Nodes[i] {
			pa, pb := a.Nodes[i], b.Nodes[i]
			if k := strings.IndexByte(pa, '='); k >= 0 {
				pa = pa[:k]
			}
			if k := strings.IndexByte(pb, '='); k >= 0 {
				pb = pb[:k]
			}
			return fmt.Sprintf("delivered node #%d differs (path %q vs %q)", i, pa, pb)
		}
	}
	if strings.Join(a.Missing, " ") != strings.Join(b.Missing, " ") {
		return fmt.Sprintf("missing-block errors [%s] vs [%s]", strings.Join(a.Missing, " "), strings.Join(b.Missing, " "))
	}
	if strings.Join(a.Hard, " ") != strings.Join(b.Hard, " ") {
		return fmt.Sprintf("verification errors [%s] vs [%s]", strings.Join(a.Hard, " "), strings.Join(b.Hard, " "))
	}
	if a.Closed != b.Closed {
		return fmt.Sprintf("channels closed %v vs %v", a.Closed, b.Closed)
	}
	return ""
}

func FmtInts(l []int) string {
	if len(l) == 0 {
		return "-"
	}
	ss := make([]string, len(l))
	for i, x := range l {
		ss[i] = strconv.Itoa(x)
	}
	return strings.Join(ss, ",")
}

func ParseInts(s string) ([]int, bool) {
	if s == "-" {
		return nil, true
	}
	var out []int
	for _, t := range strings.Split(s, ",") {
		n, err := strconv.Atoi(t)
		if err != nil || n < 0 {
			return nil, false
		}
		out = append(out, n)
	}
	return out, true
}

func SetOf(l []int) map[int]bool {
	m := map[int]bool{}
	for _, x := range l {
		m[x] = true
	}
	return m
}

// Dump renders the event log (debugging aid: GS_TRACE=1 prints it as `#trace` lines).
func (s *Sim) Dump() []string {
	s.mu.Lock()
	defer s.mu.Unlock()
	var out []string
	for _, e := range s.Log {
		var d string
		switch e.Kind {
		case EvSend, EvDeliver:
			k := "send"
			if e.Kind == EvDeliver {
				k = "deliver"
			}
			d = fmt.Sprintf("%s dir=%d #%d %s", k, e.Pkt.Dir, e.Pkt.N, e.Pkt.String())
		case EvReqHook:
			d = fmt.Sprintf("req-hook r%d blk=%d idx=%d wire=%v", e.Req, e.Cid, e.Index, e.OnWire)
		case EvRespHook:
			d = fmt.Sprintf("resp-hook r%d blk=%d idx=%d wire=%v", e.Req, e.Cid, e.Index, e.OnWire)
		case EvRead:
			d = fmt.Sprintf("read side=%d r%d blk=%d ok=%v path=%s", e.Side, e.Req, e.Cid, e.OK, e.Note)
		case EvWriteOpen:
			d = fmt.Sprintf("write-open side=%d path=%s", e.Side, e.Note)
		case EvWrite:
			d = fmt.Sprintf("write side=%d blk=%d path=%s", e.Side, e.Cid, e.Note)
		case EvAPI:
			d = "api " + e.Note
		case EvState:
			d = "state " + e.Note
		case EvSentListener:
			d = fmt.Sprintf("sent-listener r%d blk=%d idx=%d wire=%v", e.Req, e.Cid, e.Index, e.OnWire)
		}
		out = append(out, fmt.Sprintf("%d %s", e.Seq, d))
	}
	return out
}

func (p *Packet) String() string {
	var sb strings.Builder
	for _, q := range p.Reqs {
		fmt.Fprintf(&sb, "[req r%d %s skip=%d]", q.Req, q.Type, q.Skip)
	}
	for _, r := range p.Resps {
		fmt.Fprintf(&sb, "[resp r%d st=%d", r.Req, r.Status)
		for _, it := range r.Items {
			fmt.Fprintf(&sb, " %d%s", it.Cid, string(it.Action)[:1])
		}
		sb.WriteString("]")
	}
	if len(p.BlockCids) > 0 {
		fmt.Fprintf(&sb, "[blocks %s]", FmtInts(p.BlockCids))
	}
	return sb.String()
}
