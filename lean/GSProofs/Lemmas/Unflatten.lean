import GSProofs.Lemmas.LoaderReplaySpec
/-!
The bridge asked for in AUDIT_4 item 4: WHICH flat link trees (`Requestor.LT`, pre-order lists of
nodes with depths) are flattenings `FlatT t 0 lt` of a labelled tree `Responder.LT`?

`FlatT` constrains cids and depths only (paths and visit counts are arbitrary), and `WF`
(`Lemmas/LoaderComplete.lean`) constrains paths relative to the depth structure only.  So `WF` is
neither sufficient (`wf_not_flat_counterexample`: root at depth 0 followed by a node at depth 2 whose
path lies below the root's) nor necessary.  The exact condition is on the depths alone:

  `DepthPre lt`: `lt` is not empty, its first node has depth 0, every other node has depth > 0, and
  the depth increases by at most one from a node to the next (`DSteps`).

`flat_iff_depthPre : (∃ t, FlatT t 0 lt) ↔ DepthPre lt`, with the witness `unflatten lt` computed by
recursion on the depth structure (`exists_tree_of_depthPre : DepthPre lt → FlatT (unflatten lt) 0 lt`).
-/
namespace GS.Loader
open GS.Requestor (LNode LT)

/-! ### pre-order depth sequences -/

/-- from one node to the next the depth grows by at most one -/
def DSteps : LT → Prop
  | [] => True
  | [_] => True
  | a :: b :: r => b.depth ≤ a.depth + 1 ∧ DSteps (b :: r)

/-- `l` is the depth sequence of a forest whose roots sit at depth `d`: it starts (if not empty) at
    depth `d`, never goes above `d`, and descends one level at a time -/
def PreD (d : Nat) (l : LT) : Prop :=
  (∀ x r, l = x :: r → x.depth = d) ∧ (∀ x ∈ l, d ≤ x.depth) ∧ DSteps l

/-- the depth condition under which a flat link tree is the flattening of a tree rooted at depth 0 -/
def DepthPre : LT → Prop
  | [] => False
  | root :: rest => root.depth = 0 ∧ (∀ m ∈ rest, 0 < m.depth) ∧ DSteps (root :: rest)

theorem DSteps.tail {a : LNode} {l : LT} (h : DSteps (a :: l)) : DSteps l := by
  cases l with
  | nil => trivial
  | cons b r => exact h.2

theorem DSteps.right : ∀ (l1 l2 : LT), DSteps (l1 ++ l2) → DSteps l2
  | [], _, h => h
  | _ :: l1, l2, h => DSteps.right l1 l2 (DSteps.tail h)

theorem DSteps.left : ∀ (l1 l2 : LT), DSteps (l1 ++ l2) → DSteps l1
  | [], _, _ => trivial
  | [_], _, _ => trivial
  | a :: b :: r, l2, h => by
    have h' : b.depth ≤ a.depth + 1 ∧ DSteps (b :: (r ++ l2)) := h
    exact ⟨h'.1, DSteps.left (b :: r) l2 h'.2⟩

theorem DSteps.append : ∀ (l1 l2 : LT), DSteps l1 → DSteps l2 →
    (∀ x ∈ l1, ∀ y r, l2 = y :: r → y.depth ≤ x.depth + 1) → DSteps (l1 ++ l2)
  | [], _, _, h2, _ => h2
  | [a], l2, _, h2, h => by
    cases l2 with
    | nil => trivial
    | cons y r => exact ⟨h a (List.mem_cons_self ..) y r rfl, h2⟩
  | a :: b :: r, l2, h1, h2, h => by
    have h1' : b.depth ≤ a.depth + 1 ∧ DSteps (b :: r) := h1
    exact ⟨h1'.1, DSteps.append (b :: r) l2 h1'.2 h2 (fun x hx => h x (List.mem_cons_of_mem _ hx))⟩

theorem dropWhile_head_false (p : LNode → Bool) : ∀ (l : LT) (x : LNode) (r : LT), l.dropWhile p = x :: r → p x = false
  | [], _, _, h => by simp at h
  | a :: l, x, r, h => by
    by_cases hp : p a = true
    · simp only [List.dropWhile_cons, hp, if_true] at h
      exact dropWhile_head_false p l x r h
    · simp only [List.dropWhile_cons, hp] at h
      simp only [Bool.false_eq_true, if_false, List.cons.injEq] at h
      rw [← h.1]; simpa using hp

/-- the descendants of the first node of a `PreD d` list form a `PreD (d+1)` list -/
theorem PreD.sub {d : Nat} {n : LNode} {rest : LT} (h : PreD d (n :: rest)) : PreD (d + 1) (subOf n rest) := by
  obtain ⟨hh, _, hs⟩ := h
  have hn : n.depth = d := hh n rest rfl
  refine ⟨?_, ?_, ?_⟩
  · intro x r hx
    cases rest with
    | nil => simp [subOf] at hx
    | cons y r' =>
      have hy : y.depth ≤ n.depth + 1 := hs.1
      unfold subOf at hx
      rw [List.takeWhile_cons] at hx
      split at hx
      · rename_i hp
        simp only [List.cons.injEq] at hx
        rw [← hx.1]
        simp at hp
        omega
      · cases hx
  · intro x hx
    have := mem_takeWhile_pos _ rest x hx
    simp at this
    omega
  · have := DSteps.tail hs
    rw [← sub_skip n rest] at this
    exact DSteps.left _ _ this

/-- what follows the descendants of the first node is again a `PreD d` list -/
theorem PreD.skip {d : Nat} {n : LNode} {rest : LT} (h : PreD d (n :: rest)) : PreD d (skipSub n rest) := by
  obtain ⟨hh, hge, hs⟩ := h
  have hn : n.depth = d := hh n rest rfl
  have hmem : ∀ x ∈ skipSub n rest, d ≤ x.depth := by
    intro x hx
    exact hge x (List.mem_cons_of_mem _ ((List.dropWhile_sublist _).subset hx))
  refine ⟨?_, hmem, ?_⟩
  · intro x r hx
    have h1 := dropWhile_head_false _ rest x r hx
    have h2 := hmem x (by rw [hx]; exact List.mem_cons_self ..)
    simp at h1
    omega
  · have := DSteps.tail hs
    rw [← sub_skip n rest] at this
    exact DSteps.right _ _ this

/-! ### the tree of a flat link tree -/

/-- the forest listed by `l` (fuel ≥ `l.length`): the first node with its descendants (the following
    deeper nodes) is the first tree, the remainder lists the other trees -/
def forest : Nat → LT → List GS.Responder.LT
  | 0, _ => []
  | _ + 1, [] => []
  | f + 1, n :: rest => .node n.cid (forest f (subOf n rest)) :: forest f (skipSub n rest)

/-- the labelled tree of a flat link tree (the value at `[]` is irrelevant) -/
def unflatten : LT → GS.Responder.LT
  | [] => .node 0 []
  | n :: rest => .node n.cid (forest rest.length (subOf n rest))

theorem subOf_length (n : LNode) (rest : LT) : (subOf n rest).length ≤ rest.length := by
  unfold subOf
  exact List.Sublist.length_le (List.takeWhile_sublist _)

theorem forest_flat : ∀ (f : Nat) (l : LT) (d : Nat), l.length ≤ f → PreD d l → FlatL (forest f l) d l := by
  intro f
  induction f with
  | zero =>
    intro l d hl _
    cases l with
    | nil => simp [forest, FlatL]
    | cons n rest => simp at hl
  | succ f ih =>
    intro l d hl hp
    cases l with
    | nil => simp [forest, FlatL]
    | cons n rest =>
      simp only [List.length_cons] at hl
      simp only [forest, FlatL, FlatT]
      refine ⟨n :: subOf n rest, skipSub n rest, ?_, ⟨n, subOf n rest, rfl, rfl, hp.1 n rest rfl, ?_⟩, ?_⟩
      · rw [List.cons_append, sub_skip]
      · exact ih _ _ (by have := subOf_length n rest; omega) hp.sub
      · exact ih _ _ (by have := skipSub_length n rest; omega) hp.skip

/-- **every flat link tree with a pre-order depth sequence is the flattening of a labelled tree**,
    namely of `unflatten lt` -/
theorem exists_tree_of_depthPre (lt : LT) (h : DepthPre lt) : FlatT (unflatten lt) 0 lt := by
  cases lt with
  | nil => exact h.elim
  | cons n rest =>
    obtain ⟨h0, hpos, hs⟩ := h
    have hp : PreD 0 (n :: rest) := ⟨fun x r hx => by cases hx; exact h0, fun x _ => Nat.zero_le _, hs⟩
    simp only [unflatten, FlatT]
    exact ⟨n, rest, rfl, rfl, h0, by
      have hsub : subOf n rest = rest := by
        unfold subOf
        apply takeWhile_all
        intro x hx
        have := hpos x hx
        simp; omega
      rw [hsub]
      have := forest_flat rest.length (subOf n rest) 1 (by rw [hsub]; exact Nat.le_refl _) hp.sub
      rwa [hsub] at this⟩

/-! ### the condition is exact -/

theorem FlatL.head_depth (ts : List GS.Responder.LT) (d : Nat) (l : LT) (h : FlatL ts d l) :
    ∀ x r, l = x :: r → x.depth = d := by
  intro x r hx
  have h1 := FlatL.headLe ts d l [] h (by intro y r' hy; cases hy) x r (by rw [List.append_nil]; exact hx)
  have h2 := FlatL.depth_ge ts d l h x (by rw [hx]; exact List.mem_cons_self ..)
  omega

mutual
  theorem FlatT.steps : ∀ (t : GS.Responder.LT) (d : Nat) (l : LT), FlatT t d l → DSteps l
    | .node c kids, d, l, h => by
      rw [FlatT] at h
      obtain ⟨n, sub, rfl, _, hd, hs⟩ := h
      have h1 := FlatL.steps kids (d + 1) sub hs
      cases sub with
      | nil => trivial
      | cons y r =>
        have := FlatL.head_depth kids (d + 1) (y :: r) hs y r rfl
        exact ⟨by omega, h1⟩
  theorem FlatL.steps : ∀ (ts : List GS.Responder.LT) (d : Nat) (l : LT), FlatL ts d l → DSteps l
    | [], d, l, h => by rw [FlatL] at h; subst h; trivial
    | t :: ts, d, l, h => by
      rw [FlatL] at h
      obtain ⟨l1, l2, rfl, h1, h2⟩ := h
      refine DSteps.append l1 l2 (FlatT.steps t d l1 h1) (FlatL.steps ts d l2 h2) ?_
      intro x hx y r hy
      have a := FlatT.depth_ge t d l1 h1 x hx
      have b := FlatL.head_depth ts d l2 h2 y r hy
      omega
end

/-- a flattening of a tree rooted at depth 0 has a pre-order depth sequence -/
theorem depthPre_of_flat (t : GS.Responder.LT) (lt : LT) (h : FlatT t 0 lt) : DepthPre lt := by
  have hs := FlatT.steps t 0 lt h
  cases t with
  | node c kids =>
    rw [FlatT] at h
    obtain ⟨n, sub, rfl, _, hd, hk⟩ := h
    exact ⟨hd, fun m hm => by have := FlatL.depth_ge kids 1 sub hk m hm; omega, hs⟩

/-- **exact characterisation**: a flat link tree is the flattening of some labelled tree iff its
    depths form a pre-order depth sequence starting at 0 -/
theorem flat_iff_depthPre (lt : LT) : (∃ t, FlatT t 0 lt) ↔ DepthPre lt :=
  ⟨fun ⟨t, h⟩ => depthPre_of_flat t lt h, fun h => ⟨unflatten lt, exists_tree_of_depthPre lt h⟩⟩

/-- **`WF` does not imply the existence of a tree**: a root with empty path at depth 0 followed by one
    node at depth 2 with path `[0]` is well formed (and meets the path side conditions of
    `complete_prefix` / `exchange_complete_prefix`: root path empty, other paths non-empty, other
    depths non-zero, all paths in depth-first order `PathsDFS`), but
    no labelled tree flattens to it: the child of a depth-0 root has depth 1. -/
theorem wf_not_flat_counterexample :
    let lt : LT := [⟨9, [], 0, 0, 0⟩, ⟨1, [0], 2, 0, 0⟩]
    WF lt ∧ lt.head?.map (·.path) = some [] ∧ (∀ m ∈ lt.tail, m.path ≠ []) ∧ (∀ m ∈ lt.tail, m.depth ≠ 0) ∧
    PathsDFS (lt.map (·.path)) ∧ ¬ ∃ t, FlatT t 0 lt := by
  intro lt
  refine ⟨?_, by decide, by decide, by decide, by decide, ?_⟩
  · simp only [lt, WF, subOf, skipSub]
    decide
  · rw [flat_iff_depthPre]
    simp [lt, DepthPre, DSteps]

/-- evaluation (test): `unflatten` on the link tree of the `complete_prefix` example -/
example :
    unflatten [⟨9, [], 0, 0, 0⟩, ⟨1, [0, 1], 1, 0, 0⟩, ⟨3, [0, 1, 0], 2, 0, 0⟩, ⟨4, [0, 1, 1], 2, 0, 0⟩,
       ⟨2, [0, 2], 1, 0, 0⟩, ⟨5, [1], 1, 0, 0⟩] =
      .node 9 [.node 1 [.node 3 [], .node 4 []], .node 2 [], .node 5 []] := by
  simp [unflatten, forest, subOf, skipSub]

end GS.Loader
