import GSProofs.Lemmas.MsgQueueShape
/-!
# Message queue: the ledger invariant is preserved by every step
-/
namespace GS.MQ
open GS.Alloc

/-- the ledger invariant (while the queue goroutine has not exited) -/
structure LInv (s : State) : Prop where
  led : Led s (hb s.builders + heldInFlight s)
  binv : ∀ b ∈ s.builders, BInv b

theorem LInv.ledger {s : State} (h : LInv s) : tot s.alloc s.peer = held s := h.led.2

section ops
variable {pick : Pick} (hp : Admissible pick)
include hp

theorem publishSent_led {s : State} {m : InFlight} (h : Led s (hb s.builders + m.size)) :
    Led (s.publishSent pick m) (hb s.builders) ∧ QFrame s (s.publishSent pick m) := by
  unfold State.publishSent
  have f := publish_frame s m.topic Kind.sent
  have l1 := h.frame f
  have l2 := l1.release hp m.size (by omega)
  rw [show hb s.builders + m.size - m.size = hb s.builders by omega] at l2
  exact ⟨l2, f.q.trans (release_qframe _ _ _)⟩

omit hp in
theorem finish_spec (s : State) (m : InFlight) :
    (s.finish m).pc = .idle ∧ (s.finish m).builders = s.builders ∧
    (∀ X, Led s X → Led (s.finish m) X) := by
  have f := closeTopic_frame s m.topic
  refine ⟨rfl, f.builders, ?_⟩
  intro X h
  have := h.frame f
  exact ⟨⟨this.1.ainv, this.1.pend, this.1.nodupW, this.1.fresh, this.1.wsize⟩, this.2⟩

omit hp in
theorem heldInFlight_idle {s : State} (h : s.pc = .idle) : heldInFlight s = 0 := by
  unfold heldInFlight Pc.inflight; rw [h]

/-- after `publishError` + `finish` -/
theorem error_finish_linv {s : State} {m : InFlight} (h : Led s (hb s.builders + m.size))
    (hbi : ∀ b ∈ s.builders, BInv b) : LInv ((s.publishError pick m).finish m) := by
  obtain ⟨l, b, _⟩ := publishError_led hp h hbi
  obtain ⟨f1, f2, f3⟩ := finish_spec (s.publishError pick m) m
  refine ⟨?_, by rw [f2]; exact b⟩
  rw [f2, heldInFlight_idle f1, Nat.add_zero]
  exact f3 _ l

theorem attempt_linv {s : State} {m : InFlight} (i : Nat) (h : Led s (hb s.builders + m.size))
    (hbi : ∀ b ∈ s.builders, BInv b) : LInv (s.attempt pick m i) := by
  unfold State.attempt
  split
  · have f := emit_frame s [Event.wire m.topic i]
    have l := h.frame f
    refine ⟨?_, ?_⟩
    · show Led _ (hb (s.emit [Event.wire m.topic i]).builders + m.size)
      rw [f.builders]
      exact ⟨⟨l.1.ainv, l.1.pend, l.1.nodupW, l.1.fresh, l.1.wsize⟩, l.2⟩
    · show ∀ b ∈ (s.emit [Event.wire m.topic i]).builders, BInv b
      rw [f.builders]; exact hbi
  · exact error_finish_linv hp h hbi

omit hp in
/-- `extractOutgoingMessage` -/
theorem extract_spec {s : State} (hbi : ∀ b ∈ s.builders, BInv b) :
    (∀ s', s.extract = (s', none) →
      hb s.builders = 0 ∧ s'.builders = [] ∧ (∀ X, Led s X → Led s' X) ∧ s'.pc = s.pc ∧
      s'.maxRetries = s.maxRetries ∧ s'.sender = s.sender ∧ s'.done = s.done) ∧
    (∀ s' m, s.extract = (s', some m) →
      hb s.builders = hb s'.builders + m.size ∧ (∀ b ∈ s'.builders, BInv b) ∧
      (∀ X, Led s X → Led s' X) ∧ s'.pc = s.pc ∧ s'.maxRetries = s.maxRetries ∧ s'.sender = s.sender ∧
      s'.done = s.done) := by
  obtain ⟨d1, d2, _⟩ := dropEmpty_spec s.builders hbi
  unfold State.extract
  cases hd : dropEmpty s.builders with
  | nil =>
    simp only
    constructor
    · intro s' he
      cases he
      rw [hd] at d1
      refine ⟨d1.symm, rfl, ?_, rfl, rfl, rfl, rfl⟩
      intro X h
      exact ⟨⟨h.1.ainv, h.1.pend, h.1.nodupW, h.1.fresh, h.1.wsize⟩, h.2⟩
    · intro s' m he; cases he
  | cons b rest =>
    simp only
    constructor
    · intro s' he; cases he
    · intro s' m he
      simp only [Prod.mk.injEq, Option.some.injEq] at he
      obtain ⟨he1, he2⟩ := he
      subst he1 he2
      have f := subscribe_frame ({ s with builders := rest, token := s.token || !rest.isEmpty }) b.topic (dedupSubs b.subs)
      rw [hd] at d1 d2
      refine ⟨?_, ?_, ?_, f.pc, f.maxRetries, f.sender, f.done⟩
      · rw [f.builders]; show hb s.builders = hb rest + b.accounted
        rw [← d1, hb_cons]; omega
      · rw [f.builders]; intro x hx; exact hbi x (d2 x (List.mem_cons_of_mem _ hx))
      · intro X h
        have h0 : Led ({ s with builders := rest, token := s.token || !rest.isEmpty }) X :=
          ⟨⟨h.1.ainv, h.1.pend, h.1.nodupW, h.1.fresh, h.1.wsize⟩, h.2⟩
        exact h0.frame f

/-- the drain loop -/
theorem drain_led : ∀ (fuel : Nat) (s : State), Led s (hb s.builders) → (∀ b ∈ s.builders, BInv b) →
    Led (State.drain pick fuel s) (hb (State.drain pick fuel s).builders) ∧
    (∀ b ∈ (State.drain pick fuel s).builders, BInv b) ∧ (State.drain pick fuel s).pc = s.pc
  | 0, s, h, hbi => ⟨h, hbi, rfl⟩
  | fuel + 1, s, h, hbi => by
    obtain ⟨e1, e2⟩ := extract_spec hbi
    unfold State.drain
    cases he : s.extract with
    | mk s' om =>
      cases om with
      | none =>
        obtain ⟨a1, a2, a3, a4, _⟩ := e1 s' he
        simp only
        refine ⟨?_, ?_, a4⟩
        · rw [a2]; have := a3 _ h; rw [a1] at this; exact this
        · intro b hb'; rw [a2] at hb'; cases hb'
      | some m =>
        obtain ⟨a1, a2, a3, a4, _⟩ := e2 s' m he
        simp only
        have l1 : Led s' (hb s'.builders + m.size) := by have := a3 _ h; rw [a1] at this; exact this
        obtain ⟨p1, p2, p3, _⟩ := publishError_led hp l1 a2
        have f := closeTopic_frame (s'.publishError pick m) m.topic
        have l2 : Led ((s'.publishError pick m).closeTopic m.topic) (hb ((s'.publishError pick m).closeTopic m.topic).builders) := by
          rw [f.builders]; exact p1.frame f
        obtain ⟨i1, i2, i3⟩ := drain_led fuel _ l2 (by rw [f.builders]; exact p2)
        exact ⟨i1, i2, i3.trans (f.pc.trans (p3.trans a4))⟩

omit hp in
/-- leaving the loop: `sender.Close()`, then the deferred calls -/
theorem exiting_linv {s1 : State} (l1 : Led s1 (hb s1.builders)) (b1 : ∀ b ∈ s1.builders, BInv b) :
    LInv { (if s1.sender = true then s1.emit [Event.senderClosed] else s1) with pc := .exiting } := by
  have f2 : Frame s1 (if s1.sender = true then s1.emit [Event.senderClosed] else s1) := by
    split
    · exact emit_frame _ _
    · exact Frame.refl _
  have l2 := l1.frame f2
  refine ⟨?_, ?_⟩
  · show Led _ (hb (if s1.sender = true then s1.emit [Event.senderClosed] else s1).builders + 0)
    rw [Nat.add_zero, f2.builders]
    exact ⟨⟨l2.1.ainv, l2.1.pend, l2.1.nodupW, l2.1.fresh, l2.1.wsize⟩, l2.2⟩
  · show ∀ b ∈ (if s1.sender = true then s1.emit [Event.senderClosed] else s1).builders, BInv b
    rw [f2.builders]; exact b1

/-- one iteration of the select loop -/
theorem run_linv {s : State} (h : LInv s) (pw : Bool) : LInv (s.run pick pw) := by
  obtain ⟨peer, maxRetries, builders, nextTopic, token, done, sender, pc, closedStreams, waiters,
    nextTicket, topics, pubClosed, alloc, log⟩ := s
  cases pc with
  | idle =>
    have hl : Led (⟨peer, maxRetries, builders, nextTopic, token, done, sender, .idle, closedStreams, waiters,
        nextTicket, topics, pubClosed, alloc, log⟩ : State) (hb builders) := by
      have := h.led; simpa [heldInFlight, Pc.inflight] using this
    have hbi : ∀ b ∈ builders, BInv b := h.binv
    unfold State.run
    simp only
    split
    · -- work
      have hl0 : Led (⟨peer, maxRetries, builders, nextTopic, false, done, sender, .idle, closedStreams, waiters,
          nextTicket, topics, pubClosed, alloc, log⟩ : State) (hb builders) :=
        ⟨⟨hl.1.ainv, hl.1.pend, hl.1.nodupW, hl.1.fresh, hl.1.wsize⟩, hl.2⟩
      obtain ⟨e1, e2⟩ := extract_spec (s := ⟨peer, maxRetries, builders, nextTopic, false, done, sender, .idle,
        closedStreams, waiters, nextTicket, topics, pubClosed, alloc, log⟩) hbi
      cases he : (⟨peer, maxRetries, builders, nextTopic, false, done, sender, .idle, closedStreams, waiters,
          nextTicket, topics, pubClosed, alloc, log⟩ : State).extract with
      | mk s' om =>
        cases om with
        | none =>
          obtain ⟨a1, a2, a3, a4, _⟩ := e1 s' he
          have hpc' : s'.pc = .idle := a4
          refine ⟨?_, by intro b hb'; rw [a2] at hb'; cases hb'⟩
          show Led s' (hb s'.builders + heldInFlight s')
          rw [a2, heldInFlight_idle hpc']
          have := a3 _ hl0
          rw [show hb builders = 0 from a1] at this
          exact this
        | some m =>
          obtain ⟨a1, a2, a3, a4, _⟩ := e2 s' m he
          have l1 : Led s' (hb s'.builders + m.size) := by
            have := a3 _ hl0
            rw [← show hb builders = hb s'.builders + m.size from a1]; exact this
          have f := publish_frame s' m.topic Kind.queued
          have l2 : Led (s'.publish m.topic Kind.queued) (hb (s'.publish m.topic Kind.queued).builders + m.size) := by
            rw [f.builders]; exact l1.frame f
          have b2 : ∀ b ∈ (s'.publish m.topic Kind.queued).builders, BInv b := by rw [f.builders]; exact a2
          show LInv (if (s'.publish m.topic Kind.queued).sender = true then _ else _)
          split
          · exact attempt_linv hp 0 l2 b2
          · refine ⟨?_, b2⟩
            show Led _ (hb (s'.publish m.topic Kind.queued).builders + m.size)
            exact ⟨⟨l2.1.ainv, l2.1.pend, l2.1.nodupW, l2.1.fresh, l2.1.wsize⟩, l2.2⟩
    · split
      · -- done branch
        obtain ⟨d1, d2, _⟩ := drain_led hp builders.length _ hl hbi
        exact exiting_linv d1 d2
      · exact h
  | opening m r => exact h
  | sending m i => exact h
  | resetting m i => exact h
  | exiting => exact h
  | exited => exact h

end ops

end GS.MQ
