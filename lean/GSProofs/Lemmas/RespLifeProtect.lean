import GSProofs.Lemmas.RespLifeFrame
/-!
The registry invariant of the responder model (used by C05.protect_balanced and the outcome
theorems): with fresh request ids, a (peer, id) key is protected exactly while it is in the table
(or its `newRequest` step is parked), and its Protect/Unprotect log is `[]`, `[+]` or `[+,-]`.

`RStep` abstracts every model step to its effect on the projection `pi`; `PInv` is preserved by
every `RStep`.
-/
namespace GS.RespLife

def evKey : Event → Option (Peer × Id)
  | .protect p id => some (p, id)
  | .unprotect p id => some (p, id)
  | _ => none

def evPlus : Event → Bool
  | .protect _ _ => true
  | _ => false

/-- Protect (= true) / Unprotect (= false) calls for one (peer, tag), in order -/
def klog (l : List Event) (k : Peer × Id) : List Bool :=
  (l.filter fun e => evKey e == some k).map evPlus

theorem klog_append (l : List Event) (e : Event) (k : Peer × Id) :
    klog (l ++ [e]) k = klog l k ++ (if evKey e == some k then [evPlus e] else []) := by
  unfold klog
  rw [List.filter_append, List.map_append]
  congr 1
  by_cases h : (evKey e == some k) = true <;> simp [h]

def Pi.protect (x : Pi) (p : Peer) (id : Id) : Pi :=
  { x with prot := if x.prot.contains (p, id) then x.prot else x.prot ++ [(p, id)],
           plog := x.plog ++ [Event.protect p id] }

def Pi.insert (x : Pi) (p : Peer) (id : Id) : Pi :=
  { x with keys := x.keys.filter (fun k => k.2 != id) ++ [(p, id)] }

/-- effect of one model step on the registry projection -/
inductive RStep : Pi → Pi → Prop
  | same (x : Pi) : RStep x x
  | term (x : Pi) (p : Peer) (id : Id) : (p, id) ∈ x.keys → RStep x (x.term p id)
  | recvNew (x : Pi) (id : Id) : id ∉ x.seen →
      RStep x { x with seen := x.seen ++ [id], news := x.news ++ [id] }
  | newOk (x : Pi) (p : Peer) (id : Id) (rest : List Id) : x.news = id :: rest → x.pnew = none →
      RStep x (({ x with news := rest }.protect p id).insert p id)
  | newPark (x : Pi) (p : Peer) (id : Id) (rest : List Id) (c : MgrCont × Peer × Id × List TxOp) :
      x.news = id :: rest → x.pnew = none →
      RStep x { ({ x with news := rest }.protect p id) with pnew := some (p, id), pcore := some c }
  | resumeNew (x : Pi) (p : Peer) (id : Id) : x.pnew = some (p, id) →
      RStep x ({ x with pnew := none, pcore := none }.insert p id)
  | setPcore (x : Pi) (c : Option (MgrCont × Peer × Id × List TxOp)) : RStep x { x with pcore := c }
  | dropNew (x : Pi) (id : Id) (rest : List Id) : x.news = id :: rest → RStep x { x with news := rest }

structure PInv (x : Pi) : Prop where
  nodupIds : (x.keys.map Prod.snd).Nodup
  protIff : ∀ k, k ∈ x.prot ↔ (k ∈ x.keys ∨ x.pnew = some k)
  pnewFresh : ∀ k, x.pnew = some k → k.2 ∉ x.keys.map Prod.snd
  shape : ∀ k, (klog x.plog k = [] ∨ klog x.plog k = [true] ∨ klog x.plog k = [true, false]) ∧
               (k ∈ x.prot ↔ klog x.plog k = [true])
  seenKeys : ∀ k ∈ x.keys, k.2 ∈ x.seen
  seenLog : ∀ e ∈ x.plog, ∀ k, evKey e = some k → k.2 ∈ x.seen
  seenNews : ∀ i ∈ x.news, i ∈ x.seen
  seenPnew : ∀ k, x.pnew = some k → k.2 ∈ x.seen
  newsNodup : x.news.Nodup
  newsFresh : ∀ i ∈ x.news, (∀ e ∈ x.plog, ∀ k, evKey e = some k → k.2 ≠ i) ∧
                             i ∉ x.keys.map Prod.snd ∧ (∀ k, x.pnew = some k → k.2 ≠ i)

theorem klog_nil_of_fresh {l : List Event} {k : Peer × Id}
    (h : ∀ e ∈ l, ∀ k', evKey e = some k' → k'.2 ≠ k.2) : klog l k = [] := by
  unfold klog
  rw [List.map_eq_nil_iff, List.filter_eq_nil_iff]
  intro e he hk
  have : evKey e = some k := by simpa using hk
  exact h e he k this rfl

theorem pinv_init (c : Cfg) : PInv (pi (GS.RespLife.init c)) := by
  have e : pi (GS.RespLife.init c) = ⟨[], [], [], [], [], none, none⟩ := rfl
  rw [e]
  refine ⟨by simp, ?_, ?_, ?_, ?_, ?_, ?_, ?_, by simp, ?_⟩ <;> simp [klog]

theorem nodup_snd_inj {l : List (Peer × Id)} (h : (l.map Prod.snd).Nodup) {a b : Peer × Id}
    (ha : a ∈ l) (hb : b ∈ l) (hab : a.2 = b.2) : a = b := by
  induction l with
  | nil => cases ha
  | cons x xs ih =>
    rw [List.map_cons, List.nodup_cons] at h
    rcases List.mem_cons.1 ha with ha1 | ha1
    · rcases List.mem_cons.1 hb with hb1 | hb1
      · rw [ha1, hb1]
      · exfalso
        apply h.1
        rw [← ha1, hab]
        exact List.mem_map.2 ⟨b, hb1, rfl⟩
    · rcases List.mem_cons.1 hb with hb1 | hb1
      · exfalso
        apply h.1
        rw [← hb1, ← hab]
        exact List.mem_map.2 ⟨a, ha1, rfl⟩
      · exact ih h.2 ha1 hb1

theorem key_unique {x : Pi} (h : (x.keys.map Prod.snd).Nodup) {a b : Peer × Id}
    (ha : a ∈ x.keys) (hb : b ∈ x.keys) (hab : a.2 = b.2) : a = b := nodup_snd_inj h ha hb hab

theorem PInv.term {x : Pi} (h : PInv x) {p : Peer} {id : Id} (hk : (p, id) ∈ x.keys) : PInv (x.term p id) := by
  have hprot : (p, id) ∈ x.prot := (h.protIff _).2 (Or.inl hk)
  have hlog : klog x.plog (p, id) = [true] := ((h.shape _).2).1 hprot
  have hkeys : ∀ k, k ∈ (x.term p id).keys ↔ (k ∈ x.keys ∧ k ≠ (p, id)) := by
    intro k
    simp only [Pi.term, List.mem_filter]
    constructor
    · rintro ⟨h1, h2⟩
      refine ⟨h1, ?_⟩
      intro heq; subst heq; simp at h2
    · rintro ⟨h1, h2⟩
      refine ⟨h1, ?_⟩
      simp only [bne_iff_ne, ne_eq]
      intro heq
      exact h2 (key_unique h.nodupIds h1 hk heq)
  have hpn : ∀ k, x.pnew = some k → k ≠ (p, id) := by
    intro k hk' heq; subst heq
    exact h.pnewFresh _ hk' (List.mem_map.2 ⟨_, hk, rfl⟩)
  refine ⟨?_, ?_, ?_, ?_, ?_, ?_, h.seenNews, h.seenPnew, h.newsNodup, ?_⟩
  · have : ((x.term p id).keys.map Prod.snd).Sublist (x.keys.map Prod.snd) :=
      List.Sublist.map _ List.filter_sublist
    exact List.Nodup.sublist this h.nodupIds
  · intro k
    rw [hkeys]
    show k ∈ x.prot.filter (· != (p, id)) ↔ _
    rw [List.mem_filter, h.protIff]
    constructor
    · rintro ⟨h1 | h1, h2⟩
      · exact Or.inl ⟨h1, by simpa using h2⟩
      · exact Or.inr h1
    · rintro (⟨h1, h2⟩ | h1)
      · exact ⟨Or.inl h1, by simpa using h2⟩
      · exact ⟨Or.inr h1, by simpa using hpn k h1⟩
  · intro k hk' hmem
    obtain ⟨a, ha, hak⟩ := List.mem_map.1 hmem
    have := (hkeys a).1 ha
    exact h.pnewFresh k hk' (List.mem_map.2 ⟨a, this.1, hak⟩)
  · intro k
    have hpl : (x.term p id).plog = x.plog ++ [Event.unprotect p id] := rfl
    have hpr : (x.term p id).prot = x.prot.filter (· != (p, id)) := rfl
    rw [hpl, hpr, klog_append]
    by_cases hkk : k = (p, id)
    · subst hkk
      have e1 : (evKey (Event.unprotect p id) == some (p, id)) = true := by simp [evKey]
      rw [e1, hlog]
      simp [evPlus]
    · have e1 : (evKey (Event.unprotect p id) == some k) = false := by
        simp only [evKey, beq_eq_false_iff_ne, ne_eq, Option.some.injEq]
        exact fun h => hkk h.symm
      rw [e1]
      simp only [Bool.false_eq_true, if_false, List.append_nil, List.mem_filter]
      refine ⟨(h.shape k).1, ?_⟩
      rw [← (h.shape k).2]
      constructor
      · exact fun h => h.1
      · exact fun h => ⟨h, by simpa using hkk⟩
  · intro k hk'
    exact h.seenKeys k ((hkeys k).1 hk').1
  · intro e he k hk'
    rcases List.mem_append.1 he with he | he
    · exact h.seenLog e he k hk'
    · simp only [List.mem_singleton] at he
      subst he
      simp only [evKey, Option.some.injEq] at hk'
      subst hk'
      exact h.seenKeys _ hk
  · intro i hi
    obtain ⟨h1, h2, h3⟩ := h.newsFresh i hi
    refine ⟨?_, ?_, h3⟩
    · intro e he k hk'
      rcases List.mem_append.1 he with he | he
      · exact h1 e he k hk'
      · simp only [List.mem_singleton] at he
        subst he
        simp only [evKey, Option.some.injEq] at hk'
        subst hk'
        intro heq
        exact h2 (List.mem_map.2 ⟨_, hk, heq⟩)
    · intro hmem
      obtain ⟨a, ha, hai⟩ := List.mem_map.1 hmem
      exact h2 (List.mem_map.2 ⟨a, ((hkeys a).1 ha).1, hai⟩)

theorem PInv.recvNew {x : Pi} (h : PInv x) {id : Id} (hid : id ∉ x.seen) :
    PInv { x with seen := x.seen ++ [id], news := x.news ++ [id] } := by
  refine ⟨h.nodupIds, h.protIff, h.pnewFresh, h.shape, ?_, ?_, ?_, ?_, ?_, ?_⟩
  · intro k hk; exact List.mem_append_left _ (h.seenKeys k hk)
  · intro e he k hk; exact List.mem_append_left _ (h.seenLog e he k hk)
  · intro i hi
    rcases List.mem_append.1 hi with hi | hi
    · exact List.mem_append_left _ (h.seenNews i hi)
    · exact List.mem_append_right _ hi
  · intro k hk; exact List.mem_append_left _ (h.seenPnew k hk)
  · show (x.news ++ [id]).Nodup
    rw [List.nodup_append]
    refine ⟨h.newsNodup, by simp, ?_⟩
    intro a ha b hb
    simp only [List.mem_singleton] at hb
    subst hb
    intro heq; subst heq
    exact hid (h.seenNews _ ha)
  · intro i hi
    rcases List.mem_append.1 hi with hi | hi
    · exact h.newsFresh i hi
    · simp only [List.mem_singleton] at hi
      subst hi
      refine ⟨?_, ?_, ?_⟩
      · intro e he k hk heq
        exact hid (heq ▸ h.seenLog e he k hk)
      · intro hmem
        obtain ⟨a, ha, hai⟩ := List.mem_map.1 hmem
        exact hid (hai ▸ h.seenKeys a ha)
      · intro k hk heq
        exact hid (heq ▸ h.seenPnew k hk)

theorem mem_insert_keys {x : Pi} {p : Peer} {id : Id} (hfresh : id ∉ x.keys.map Prod.snd) (k : Peer × Id) :
    k ∈ (x.insert p id).keys ↔ (k ∈ x.keys ∨ k = (p, id)) := by
  simp only [Pi.insert, List.mem_append, List.mem_filter, List.mem_singleton]
  constructor
  · rintro (⟨h1, _⟩ | h1)
    · exact Or.inl h1
    · exact Or.inr h1
  · rintro (h1 | h1)
    · refine Or.inl ⟨h1, ?_⟩
      simp only [bne_iff_ne, ne_eq]
      intro heq
      exact hfresh (List.mem_map.2 ⟨k, h1, heq⟩)
    · exact Or.inr h1

theorem nodup_insert_keys {x : Pi} (p : Peer) (id : Id) (h : (x.keys.map Prod.snd).Nodup) :
    ((x.insert p id).keys.map Prod.snd).Nodup := by
  simp only [Pi.insert, List.map_append, List.map_cons, List.map_nil]
  rw [List.nodup_append]
  refine ⟨List.Nodup.sublist (List.Sublist.map _ List.filter_sublist) h, by simp, ?_⟩
  intro a ha b hb
  simp only [List.mem_singleton] at hb
  subst hb
  obtain ⟨k, hk, hka⟩ := List.mem_map.1 ha
  have := (List.mem_filter.1 hk).2
  simp only [bne_iff_ne, ne_eq] at this
  intro heq
  exact this (hka.trans heq)

/-- the facts about `id` available when its `new` message is at the head of the mailbox -/
theorem PInv.headFresh {x : Pi} (h : PInv x) {id : Id} {rest : List Id} (hn : x.news = id :: rest)
    (hp : x.pnew = none) (p : Peer) :
    (∀ e ∈ x.plog, ∀ k, evKey e = some k → k.2 ≠ id) ∧ id ∉ x.keys.map Prod.snd ∧ (p, id) ∉ x.prot ∧
      id ∈ x.seen ∧ id ∉ rest ∧ rest.Nodup := by
  have hmem : id ∈ x.news := by rw [hn]; exact List.mem_cons_self
  obtain ⟨h1, h2, _⟩ := h.newsFresh id hmem
  have hnd := h.newsNodup
  rw [hn, List.nodup_cons] at hnd
  refine ⟨h1, h2, ?_, h.seenNews id hmem, hnd.1, hnd.2⟩
  intro hin
  rcases (h.protIff _).1 hin with hk | hk
  · exact h2 (List.mem_map.2 ⟨_, hk, rfl⟩)
  · rw [hp] at hk; cases hk

/-- shared part of newOk / newPark: the registry after `Protect` -/
theorem shape_protect {x : Pi} (h : PInv x) {p : Peer} {id : Id}
    (hlog : ∀ e ∈ x.plog, ∀ k, evKey e = some k → k.2 ≠ id) (hprot : (p, id) ∉ x.prot) (k : Peer × Id) :
    (klog (x.plog ++ [Event.protect p id]) k = [] ∨ klog (x.plog ++ [Event.protect p id]) k = [true] ∨
        klog (x.plog ++ [Event.protect p id]) k = [true, false]) ∧
      (k ∈ x.prot ++ [(p, id)] ↔ klog (x.plog ++ [Event.protect p id]) k = [true]) := by
  rw [klog_append]
  by_cases hkk : k = (p, id)
  · subst hkk
    have e1 : (evKey (Event.protect p id) == some (p, id)) = true := by simp [evKey]
    have e2 : klog x.plog (p, id) = [] := klog_nil_of_fresh (k := (p, id)) hlog
    rw [e1, e2]
    simp [evPlus]
  · have e1 : (evKey (Event.protect p id) == some k) = false := by
      simp only [evKey, beq_eq_false_iff_ne, ne_eq, Option.some.injEq]
      exact fun h => hkk h.symm
    rw [e1]
    simp only [Bool.false_eq_true, if_false, List.append_nil, List.mem_append, List.mem_singleton]
    refine ⟨(h.shape k).1, ?_⟩
    rw [← (h.shape k).2]
    constructor
    · rintro (h1 | h1)
      · exact h1
      · exact absurd h1 hkk
    · exact fun h1 => Or.inl h1

theorem protect_prot {x : Pi} {p : Peer} {id : Id} (h : (p, id) ∉ x.prot) :
    (x.protect p id).prot = x.prot ++ [(p, id)] := by
  simp only [Pi.protect]
  rw [if_neg]
  simpa using h

theorem PInv.newOk {x : Pi} (h : PInv x) {p : Peer} {id : Id} {rest : List Id} (hn : x.news = id :: rest)
    (hp : x.pnew = none) : PInv (({ x with news := rest }.protect p id).insert p id) := by
  obtain ⟨f1, f2, f3, f4, f5, f6⟩ := h.headFresh hn hp p
  have hkeys := mem_insert_keys (x := ({ x with news := rest } : Pi).protect p id) (p := p) (id := id) f2
  have hprot : (({ x with news := rest } : Pi).protect p id).prot = x.prot ++ [(p, id)] := protect_prot f3
  refine ⟨nodup_insert_keys p id h.nodupIds, ?_, ?_, ?_, ?_, ?_, ?_, ?_, f6, ?_⟩
  · intro k
    rw [hkeys]
    show k ∈ (({ x with news := rest } : Pi).protect p id).prot ↔ _
    rw [hprot, List.mem_append, List.mem_singleton, h.protIff, hp]
    simp only [Pi.protect]
    constructor
    · rintro ((h1 | h1) | h1)
      · exact Or.inl (Or.inl h1)
      · cases h1
      · exact Or.inl (Or.inr h1)
    · rintro ((h1 | h1) | h1)
      · exact Or.inl (Or.inl h1)
      · exact Or.inr h1
      · exact absurd h1 (by simp [Pi.insert])
  · intro k hk
    have : (x.pnew) = some k := hk
    rw [hp] at this; cases this
  · intro k
    show (klog (x.plog ++ [Event.protect p id]) k = [] ∨ _ ∨ _) ∧
      (k ∈ (({ x with news := rest } : Pi).protect p id).prot ↔ _)
    rw [hprot]
    exact shape_protect h f1 f3 k
  · intro k hk
    rcases (hkeys k).1 hk with hk | hk
    · exact h.seenKeys k hk
    · subst hk; exact f4
  · intro e he k hk
    rcases List.mem_append.1 he with he | he
    · exact h.seenLog e he k hk
    · simp only [List.mem_singleton] at he
      subst he
      simp only [evKey, Option.some.injEq] at hk
      subst hk; exact f4
  · intro i hi
    exact h.seenNews i (by rw [hn]; exact List.mem_cons_of_mem _ hi)
  · intro k hk
    have : (x.pnew) = some k := hk
    rw [hp] at this; cases this
  · intro i hi
    have hi' : i ∈ x.news := by rw [hn]; exact List.mem_cons_of_mem _ hi
    obtain ⟨g1, g2, g3⟩ := h.newsFresh i hi'
    have hne : id ≠ i := fun heq => f5 (heq ▸ hi)
    refine ⟨?_, ?_, ?_⟩
    · intro e he k hk
      rcases List.mem_append.1 he with he | he
      · exact g1 e he k hk
      · simp only [List.mem_singleton] at he
        subst he
        simp only [evKey, Option.some.injEq] at hk
        subst hk; exact hne
    · intro hmem
      obtain ⟨a, ha, hai⟩ := List.mem_map.1 hmem
      rcases (hkeys a).1 ha with ha | ha
      · exact g2 (List.mem_map.2 ⟨a, ha, hai⟩)
      · subst ha; exact hne hai
    · intro k hk
      have : (x.pnew) = some k := hk
      rw [hp] at this; cases this

theorem PInv.newPark {x : Pi} (h : PInv x) {p : Peer} {id : Id} {rest : List Id} (hn : x.news = id :: rest)
    (hp : x.pnew = none) : PInv { ({ x with news := rest }.protect p id) with pnew := some (p, id) } := by
  obtain ⟨f1, f2, f3, f4, f5, f6⟩ := h.headFresh hn hp p
  have hprot : (({ x with news := rest } : Pi).protect p id).prot = x.prot ++ [(p, id)] := protect_prot f3
  refine ⟨h.nodupIds, ?_, ?_, ?_, h.seenKeys, ?_, ?_, ?_, f6, ?_⟩
  · intro k
    show k ∈ (({ x with news := rest } : Pi).protect p id).prot ↔ (k ∈ x.keys ∨ some (p, id) = some k)
    rw [hprot, List.mem_append, List.mem_singleton, h.protIff, hp]
    constructor
    · rintro ((h1 | h1) | h1)
      · exact Or.inl h1
      · cases h1
      · exact Or.inr (by rw [h1])
    · rintro (h1 | h1)
      · exact Or.inl (Or.inl h1)
      · exact Or.inr (by cases h1; rfl)
  · intro k hk
    have : some (p, id) = some k := hk
    cases this
    exact f2
  · intro k
    show (klog (x.plog ++ [Event.protect p id]) k = [] ∨ _ ∨ _) ∧
      (k ∈ (({ x with news := rest } : Pi).protect p id).prot ↔ _)
    rw [hprot]
    exact shape_protect h f1 f3 k
  · intro e he k hk
    rcases List.mem_append.1 he with he | he
    · exact h.seenLog e he k hk
    · simp only [List.mem_singleton] at he
      subst he
      simp only [evKey, Option.some.injEq] at hk
      subst hk; exact f4
  · intro i hi
    exact h.seenNews i (by rw [hn]; exact List.mem_cons_of_mem _ hi)
  · intro k hk
    have : some (p, id) = some k := hk
    cases this
    exact f4
  · intro i hi
    have hi' : i ∈ x.news := by rw [hn]; exact List.mem_cons_of_mem _ hi
    obtain ⟨g1, g2, _⟩ := h.newsFresh i hi'
    have hne : id ≠ i := fun heq => f5 (heq ▸ hi)
    refine ⟨?_, g2, ?_⟩
    · intro e he k hk
      rcases List.mem_append.1 he with he | he
      · exact g1 e he k hk
      · simp only [List.mem_singleton] at he
        subst he
        simp only [evKey, Option.some.injEq] at hk
        subst hk; exact hne
    · intro k hk
      have : some (p, id) = some k := hk
      cases this
      exact hne

theorem PInv.resumeNew {x : Pi} (h : PInv x) {p : Peer} {id : Id} (hp : x.pnew = some (p, id)) :
    PInv ({ x with pnew := none }.insert p id) := by
  have f2 : id ∉ x.keys.map Prod.snd := h.pnewFresh _ hp
  have hkeys := mem_insert_keys (x := ({ x with pnew := none } : Pi)) (p := p) (id := id) f2
  refine ⟨nodup_insert_keys p id h.nodupIds, ?_, ?_, h.shape, ?_, h.seenLog, h.seenNews, ?_, h.newsNodup, ?_⟩
  · intro k
    rw [hkeys]
    show k ∈ x.prot ↔ _
    rw [h.protIff, hp]
    constructor
    · rintro (h1 | h1)
      · exact Or.inl (Or.inl h1)
      · exact Or.inl (Or.inr (by cases h1; rfl))
    · rintro ((h1 | h1) | h1)
      · exact Or.inl h1
      · exact Or.inr (by rw [h1])
      · cases h1
  · intro k hk; cases hk
  · intro k hk
    rcases (hkeys k).1 hk with hk | hk
    · exact h.seenKeys k hk
    · subst hk; exact h.seenPnew _ hp
  · intro k hk; cases hk
  · intro i hi
    obtain ⟨g1, g2, g3⟩ := h.newsFresh i hi
    refine ⟨g1, ?_, ?_⟩
    · intro hmem
      obtain ⟨a, ha, hai⟩ := List.mem_map.1 hmem
      rcases (hkeys a).1 ha with ha | ha
      · exact g2 (List.mem_map.2 ⟨a, ha, hai⟩)
      · subst ha; exact g3 _ hp hai
    · intro k hk; cases hk

/-- `PInv` does not look at the parked continuation -/
theorem PInv.setPcore {x : Pi} (h : PInv x) (c : Option (MgrCont × Peer × Id × List TxOp)) :
    PInv { x with pcore := c } :=
  ⟨h.nodupIds, h.protIff, h.pnewFresh, h.shape, h.seenKeys, h.seenLog, h.seenNews, h.seenPnew, h.newsNodup,
   h.newsFresh⟩

/-- a `new` message that the manager ignores -/
theorem PInv.dropNew {x : Pi} (h : PInv x) {id : Id} {rest : List Id} (hn : x.news = id :: rest) :
    PInv { x with news := rest } := by
  have hsub : ∀ i ∈ rest, i ∈ x.news := by intro i hi; rw [hn]; exact List.mem_cons_of_mem _ hi
  have hnd := h.newsNodup
  rw [hn, List.nodup_cons] at hnd
  exact ⟨h.nodupIds, h.protIff, h.pnewFresh, h.shape, h.seenKeys, h.seenLog, fun i hi => h.seenNews i (hsub i hi),
    h.seenPnew, hnd.2, fun i hi => h.newsFresh i (hsub i hi)⟩

theorem PInv.step {x x' : Pi} (h : PInv x) (st : RStep x x') : PInv x' := by
  cases st with
  | same => exact h
  | term p id hk => exact h.term hk
  | recvNew id hid => exact h.recvNew hid
  | newOk p id rest hn hp => exact h.newOk hn hp
  | newPark p id rest c hn hp => exact (h.newPark hn hp).setPcore (some c)
  | resumeNew p id hp => exact (h.setPcore none).resumeNew hp
  | setPcore c => exact h.setPcore c
  | dropNew id rest hn => exact h.dropNew hn

end GS.RespLife
