package requestor

// Component "exchange": one request between two complete, real graphsync nodes (impl.New: request
// manager, executor, reconciled loader, response manager, query executor, response assembler, real
// message queues) joined by an in-process network that pushes every message through the real wire
// codec and delivers in order.  Oracle-only stream (no Lean-side comparison): properties C02 / C24
// (and the C01 checks) against the reference traversal.
//
//	case <id> dag=<seed>:<maxblocks>
//	put <cid> …          requestor's store            remote <cids|->    responder's store
//	req <userskip> [dns=<cids>] [key=<k>]   run the request (optionally with do-not-send-cids /
//	                     dedup-by-key extensions) to completion -> one summary line

import (
	"bufio"
	"bytes"
	"context"
	"fmt"
	"io"
	"math/rand"
	"os"
	"runtime"
	"sort"
	"strconv"
	"strings"
	"sync"

	"github.com/ipfs/go-cid"
	logging "github.com/ipfs/go-log/v2"
	"github.com/ipld/go-ipld-prime/datamodel"
	"github.com/ipld/go-ipld-prime/linking"
	cidlink "github.com/ipld/go-ipld-prime/linking/cid"
	"github.com/libp2p/go-libp2p/core/peer"

	"github.com/ipfs/go-graphsync"
	"github.com/ipfs/go-graphsync/cidset"
	"github.com/ipfs/go-graphsync/dedupkey"
	"github.com/ipfs/go-graphsync/donotsendfirstblocks"
	gsimpl "github.com/ipfs/go-graphsync/impl"
	gsmsg "github.com/ipfs/go-graphsync/message"
	gsmsgv2 "github.com/ipfs/go-graphsync/message/v2"
	gsnet "github.com/ipfs/go-graphsync/network"

	"verifharness/quiesce"
	"verifharness/reg"
)

func init() {
	reg.Register(&reg.Component{Name: "exchange", Gen: GenExchange, Run: RunExchange})
}

func quietLogs() { _ = logging.SetLogLevel("*", "fatal") }

var codec = gsmsgv2.NewMessageHandler()

type wireRec struct {
	from peer.ID
	msg  gsmsg.GraphSyncMessage
}

type xnet struct {
	self  peer.ID
	other *xnet
	recv  gsnet.Receiver
	mu    *sync.Mutex
	log   *[]wireRec
	errs  *[]string
}

func (n *xnet) deliver(ctx context.Context, m gsmsg.GraphSyncMessage) error {
	var buf bytes.Buffer
	if err := codec.ToNet(n.self, m, &buf); err != nil {
		n.mu.Lock()
		*n.errs = append(*n.errs, "encode: "+err.Error())
		n.mu.Unlock()
		return err
	}
	dm, err := codec.FromNet(n.self, &buf)
	if err != nil {
		n.mu.Lock()
		*n.errs = append(*n.errs, "decode: "+err.Error())
		n.mu.Unlock()
		return err
	}
	n.mu.Lock()
	*n.log = append(*n.log, wireRec{n.self, dm})
	n.mu.Unlock()
	n.other.recv.ReceiveMessage(ctx, n.self, dm)
	return nil
}

func (n *xnet) SendMessage(ctx context.Context, p peer.ID, m gsmsg.GraphSyncMessage) error {
	return n.deliver(ctx, m)
}
func (n *xnet) SetDelegate(r gsnet.Receiver)              { n.recv = r }
func (n *xnet) ConnectTo(context.Context, peer.ID) error { return nil }
func (n *xnet) NewMessageSender(context.Context, peer.ID, gsnet.MessageSenderOpts) (gsnet.MessageSender, error) {
	return &xsender{n}, nil
}
func (n *xnet) ConnectionManager() gsnet.ConnManager { return nopConnManager{} }

type xsender struct{ n *xnet }

func (s *xsender) SendMsg(ctx context.Context, m gsmsg.GraphSyncMessage) error {
	return s.n.deliver(ctx, m)
}
func (s *xsender) Close() error { return nil }
func (s *xsender) Reset() error { return nil }

type memStore struct {
	mu     *sync.Mutex
	blocks map[cid.Cid][]byte
	writes *[]storeWrite
}

func (ms *memStore) linkSystem() linking.LinkSystem {
	ls := cidlink.DefaultLinkSystem()
	ls.StorageReadOpener = func(lc linking.LinkContext, l datamodel.Link) (io.Reader, error) {
		ms.mu.Lock()
		defer ms.mu.Unlock()
		b, ok := ms.blocks[l.(cidlink.Link).Cid]
		if !ok {
			return nil, fmt.Errorf("not found")
		}
		return bytes.NewReader(b), nil
	}
	ls.StorageWriteOpener = func(lc linking.LinkContext) (io.Writer, linking.BlockWriteCommitter, error) {
		var buf bytes.Buffer
		return &buf, func(l datamodel.Link) error {
			c := l.(cidlink.Link).Cid
			data := append([]byte{}, buf.Bytes()...)
			h, _ := c.Prefix().Sum(data)
			ms.mu.Lock()
			ms.blocks[c] = data
			if ms.writes != nil {
				*ms.writes = append(*ms.writes, storeWrite{c, data, h.Equals(c)})
			}
			ms.mu.Unlock()
			return nil
		}, nil
	}
	return ls
}

var reqPeer = peer.ID("peer-requestor")

// runExchange performs one request between two fresh nodes and returns what was observed.
func runExchange(w *World, loc, rem []int, user int64, dns []int, key string) (Events, []wireRec, map[cid.Cid][]byte, []string) {
	ctx, cancel := context.WithCancel(context.Background())
	var mu sync.Mutex
	var log []wireRec
	var nerrs []string
	var writes []storeWrite
	rn := &xnet{self: reqPeer, mu: &mu, log: &log, errs: &nerrs}
	sn := &xnet{self: Peer(0), mu: &mu, log: &log, errs: &nerrs}
	rn.other, sn.other = sn, rn
	rs := &memStore{mu: &mu, blocks: map[cid.Cid][]byte{}, writes: &writes}
	ss := &memStore{mu: &mu, blocks: map[cid.Cid][]byte{}}
	for _, i := range loc {
		rs.blocks[w.D.Cids[i]] = w.D.Data[w.D.Cids[i]]
	}
	for _, i := range rem {
		ss.blocks[w.D.Cids[i]] = w.D.Data[w.D.Cids[i]]
	}
	requestor := gsimpl.New(ctx, rn, rs.linkSystem())
	responder := gsimpl.New(ctx, sn, ss.linkSystem())
	// a responder serves nothing unless a hook validates the request (the default validator only
	// admits depth-limited recursion); the cooperative responder accepts every request
	responder.RegisterIncomingRequestHook(func(p peer.ID, r graphsync.RequestData, ha graphsync.IncomingRequestHookActions) {
		ha.ValidateRequest()
	})
	var exts []graphsync.ExtensionData
	if user > 0 {
		exts = append(exts, graphsync.ExtensionData{Name: graphsync.ExtensionsDoNotSendFirstBlocks, Data: donotsendfirstblocks.EncodeDoNotSendFirstBlocks(user)})
	}
	if len(dns) > 0 {
		set := cid.NewSet()
		for _, i := range dns {
			set.Add(w.D.Cids[i])
		}
		exts = append(exts, graphsync.ExtensionData{Name: graphsync.ExtensionDoNotSendCIDs, Data: cidset.EncodeCidSet(set)})
	}
	if key != "" {
		kd, _ := dedupkey.EncodeDedupKey(key)
		exts = append(exts, graphsync.ExtensionData{Name: graphsync.ExtensionDeDupByKey, Data: kd})
	}
	var ev Events
	requestor.RegisterIncomingBlockHook(func(p peer.ID, rd graphsync.ResponseData, bd graphsync.BlockData, ha graphsync.IncomingBlockHookActions) {
		mu.Lock()
		ev.Blks = append(ev.Blks, blockSeen{bd.Link().(cidlink.Link).Cid, bd.BlockSizeOnWire(), bd.Index()})
		mu.Unlock()
	})
	pc, ec := requestor.Request(ctx, Peer(0), cidlink.Link{Cid: w.D.Root}, w.Sel, exts...)
	pdone, edone := false, false
	go func() {
		for p := range pc {
			mu.Lock()
			ev.Prog = append(ev.Prog, p)
			mu.Unlock()
		}
		mu.Lock()
		pdone = true
		mu.Unlock()
	}()
	go func() {
		for e := range ec {
			mu.Lock()
			ev.Errs = append(ev.Errs, e)
			mu.Unlock()
		}
		mu.Lock()
		edone = true
		mu.Unlock()
	}()
	quiesce.Wait(nil)
	mu.Lock()
	ev.Closed = pdone && edone
	ev.Writes = writes
	for _, r := range log {
		if r.from == reqPeer {
			for _, q := range r.msg.Requests() {
				ev.Sent = append(ev.Sent, sentReq{Peer(0), q})
			}
		}
	}
	wire := append([]wireRec{}, log...)
	store := map[cid.Cid][]byte{}
	for k, v := range rs.blocks {
		store[k] = v
	}
	errs := append([]string{}, nerrs...)
	mu.Unlock()
	cancel()
	quiesce.Wait(nil)
	return ev, wire, store, errs
}

func RunExchange(cases []reg.Case, out *reg.Out) {
	runtime.GOMAXPROCS(1)
	quietLogs()
	cur := ""
	quiesce.OnStuck = func(dump string) {
		fmt.Fprintf(os.Stderr, "exchange: case %s does not become quiescent\n%s\n", cur, dump)
		out.Fail("hang", "the two nodes do not become quiescent in case %s", cur)
		out.Finish()
		os.Exit(3)
	}
	for _, c := range cases {
		cur = c.ID
		out.BeginCase(c)
		runExchangeCase(c, out)
	}
}

func runExchangeCase(c reg.Case, out *reg.Out) {
	seed, mb, ok := headerDag(c.Header)
	var w *World
	if ok {
		var err error
		w, err = NewWorld(seed, mb)
		ok = err == nil
	}
	if !ok {
		for range c.Ops {
			out.Line("bad-case")
		}
		return
	}
	for _, e := range w.LT.Shape() {
		out.Fail("harness-lt-shape", "link tree of the reference traversal violates a hypothesis of the Lean theorems: %s", e)
	}
	var loc, rem []int
	done := false
	for _, op := range c.Ops {
		switch op[0] {
		case "lt", "note":
			out.Line("-")
		case "put", "remote":
			var l []int
			good := !done
			if op[0] == "put" {
				for _, t := range op[1:] {
					n, err := strconv.Atoi(t)
					if err != nil {
						good = false
					}
					l = append(l, n)
				}
			} else if len(op) == 2 {
				l, good = ParseInts(op[1])
				good = good && !done
			} else {
				good = false
			}
			for _, n := range l {
				if n < 0 || n >= len(w.D.Cids) {
					good = false
				}
			}
			if !good {
				out.Line("bad-op")
				continue
			}
			if op[0] == "put" {
				loc = append(loc, l...)
			} else {
				rem = append(rem, l...)
			}
			out.Line("ok")
		case "req":
			// req <userskip> [dns=<cids the requestor declares to have: do-not-send-cids>] [key=<dedup key>]
			us, err := strconv.ParseInt(opArg(op, 1), 10, 64)
			good := len(op) >= 2 && len(op) <= 4 && err == nil && us >= 0 && !done
			var dns []int
			key := ""
			for _, t := range op[min(2, len(op)):] {
				switch {
				case strings.HasPrefix(t, "dns="):
					var ok2 bool
					dns, ok2 = ParseInts(t[4:])
					good = good && ok2
				case strings.HasPrefix(t, "key="):
					key = t[4:]
				default:
					good = false
				}
			}
			for _, n := range dns {
				if n < 0 || n >= len(w.D.Cids) {
					good = false
				}
			}
			if !good {
				out.Line("bad-op")
				continue
			}
			done = true
			ev, wire, store, nerrs := runExchange(w, loc, rem, us, dns, key)
			or := newOracle(out, w)
			or.realResponder = true
			for _, n := range loc {
				or.put(n)
			}
			or.setRemote(rem)
			or.request(us)
			or.events(ev)
			s := &Sys{W: w, store: store}
			or.finish(s)
			judgeWire(out, w, or, wire, nerrs)
			// C24: a block the requestor listed in do-not-send-cids is never transmitted
			if len(dns) > 0 {
				out.Cov("c24.dns")
				told := map[cid.Cid]bool{}
				for _, n := range dns {
					told[w.D.Cids[n]] = true
				}
				for _, r := range wire {
					if r.from == reqPeer {
						continue
					}
					for _, b := range r.msg.Blocks() {
						if told[b.Cid()] {
							out.Fail("resend-donotsend", "responder transmitted block %s although the request lists it in do-not-send-cids (dedup key %q)", w.cidName(b.Cid()), key)
						}
					}
				}
			}
			nb := 0
			for _, r := range wire {
				if r.from != reqPeer {
					nb += len(r.msg.Blocks())
				}
			}
			out.Line("%s msgs=%d blocks=%d", w.render(ev), len(wire), nb)
		default:
			out.Line("bad-op")
		}
	}
}

func opArg(op []string, i int) string {
	if i < len(op) {
		return op[i]
	}
	return ""
}

// judgeWire: C24 on the responder side.  The responder was told to skip the first `skip` blocks of
// its traversal; it must transmit none of them, and no block twice within the request.
func judgeWire(out *reg.Out, w *World, or *oracle, wire []wireRec, nerrs []string) {
	for _, e := range nerrs {
		out.Fail("wire-codec", "%s", e)
	}
	// Known finding skip-prefix-mismatch-resend is attributed only to its failure mode: a block of the
	// requestor's local prefix, predicted from the case alone (prefixBlocksResent), transmitted beyond
	// the window.  resend-skipped / resend-twice are never relabelled (C24.attach_window / attach_nodup
	// hold unconditionally).
	resent := or.prefixBlocksResent()
	if len(or.sentNew) != 1 {
		return
	}
	skip := int(or.sentNew[0])
	idx := 0
	told := map[cid.Cid]bool{}
	sentOnce := map[cid.Cid]bool{}
	for _, r := range wire {
		if r.from == reqPeer {
			continue
		}
		for _, resp := range r.msg.Responses() {
			resp.Metadata().Iterate(func(c cid.Cid, a graphsync.LinkAction) {
				idx++
				if idx <= skip && a == graphsync.LinkActionPresent {
					told[c] = true
				}
			})
		}
		for _, b := range r.msg.Blocks() {
			if told[b.Cid()] {
				out.Fail("resend-skipped", "responder transmitted block %s although it is among the first %d blocks it was told not to send", w.cidName(b.Cid()), skip)
			}
			if sentOnce[b.Cid()] {
				out.Fail("resend-twice", "responder transmitted block %s twice within the request", w.cidName(b.Cid()))
			}
			sentOnce[b.Cid()] = true
		}
	}
	// "exactly as many leading blocks as it has already loaded locally": nothing the requestor
	// already held before the request may be transmitted when the two traversals agree on the prefix
	for c := range sentOnce {
		if i := w.D.Index(c); i >= 0 && or.loc0[i] && or.user == 0 {
			// a locally held block may legitimately be re-sent only if it is NOT within the loaded prefix
			for k := 0; k < or.prefix; k++ {
				if w.LT.Loads[k].Block == i {
					c := "resend-local-prefix"
					if resent[i] {
						c = "skip-prefix-mismatch-resend"
					}
					out.Fail(c, "responder transmitted block %d which the requestor had loaded locally before the request (skip=%d)", i, skip)
					break
				}
			}
		}
	}
}

func (o *oracle) lacksPrefix() bool {
	if o.prefix >= len(o.w.LT.Loads) {
		return false
	}
	for i := 0; i < o.prefix; i++ {
		if !o.rem[o.w.LT.Loads[i].Block] {
			return true
		}
	}
	return false
}

// ---------------------------------------------------------------- generator

func emitExchangeCase(wr *bufio.Writer, id string, seed int64, mb int, w *World, loc, rem []int, user int, extra ...string) {
	fmt.Fprintf(wr, "case %s dag=%d:%d\n", id, seed, mb)
	fmt.Fprintln(wr, w.LTLine)
	fmt.Fprintln(wr, "remote", FmtInts(rem))
	if len(loc) > 0 {
		ss := make([]string, len(loc))
		for i, x := range loc {
			ss[i] = strconv.Itoa(x)
		}
		fmt.Fprintln(wr, "put", strings.Join(ss, " "))
	}
	fmt.Fprintln(wr, strings.TrimSpace(fmt.Sprintf("req %d %s", user, strings.Join(extra, " "))))
}

func pickWorld(r *rand.Rand, mb int, maxLoads int) (*World, int64) {
	for {
		seed := r.Int63n(1 << 40)
		w, err := NewWorld(seed, mb)
		if err == nil && len(w.LT.Loads) <= maxLoads {
			return w, seed
		}
	}
}

func GenExchange(seed int64, n int, tier string, wr *bufio.Writer) {
	runtime.GOMAXPROCS(1)
	r := rand.New(rand.NewSource(seed))
	ps := []float64{0, 0.3, 0.6, 0.85, 1}
	for i := 0; i < n; i++ {
		mb := 2 + r.Intn(7)
		if i%7 == 3 {
			mb = 0 // fan family (independent sub-DAGs), used for the two-gap shape below
		}
		w, ws := pickWorld(r, mb, 30)
		var loc, rem []int
		nb := len(w.D.Cids)
		switch i % 4 {
		case 0: // independent random stores
			pl, pr := ps[r.Intn(len(ps))], ps[r.Intn(len(ps))]
			for k := 0; k < nb; k++ {
				if r.Float64() < pl {
					loc = append(loc, k)
				}
				if r.Float64() < pr {
					rem = append(rem, k)
				}
			}
		case 1: // 2-colouring: every block on exactly one side
			for k := 0; k < nb; k++ {
				if r.Intn(2) == 0 {
					loc = append(loc, k)
				} else {
					rem = append(rem, k)
				}
			}
		case 2: // resumed download: the requestor holds a DFS prefix, the responder (almost) everything
			k := r.Intn(len(w.LT.Loads) + 1)
			seen := map[int]bool{}
			for j := 0; j < k; j++ {
				if b := w.LT.Loads[j].Block; !seen[b] {
					seen[b] = true
					loc = append(loc, b)
				}
			}
			drop := map[int]bool{}
			if r.Intn(2) == 0 {
				drop[r.Intn(nb)] = true
			}
			for j := 0; j < nb; j++ {
				if !drop[j] {
					rem = append(rem, j)
				}
			}
		default: // requestor has a random part, responder everything / nearly everything
			for k := 0; k < nb; k++ {
				if r.Intn(3) == 0 {
					loc = append(loc, k)
				}
				if r.Intn(8) != 0 {
					rem = append(rem, k)
				}
			}
		}
		if i%7 == 3 { // local start over two subtrees the responder lacks
			if l2, r2, ok := twoGapStores(r, w); ok {
				loc, rem = nil, nil
				for k := range l2 {
					loc = append(loc, k)
				}
				for k := range r2 {
					rem = append(rem, k)
				}
				sort.Ints(rem)
			}
		}
		sort.Ints(loc)
		user := 0
		if r.Intn(8) == 0 {
			user = r.Intn(len(w.LT.Loads) + 2)
		}
		var extra []string
		if len(loc) > 0 && r.Intn(6) == 0 {
			// the requestor declares some blocks it holds (do-not-send-cids), with or without a dedup key
			var dns []int
			for _, k := range loc {
				if r.Intn(2) == 0 {
					dns = append(dns, k)
				}
			}
			if len(dns) > 0 {
				extra = append(extra, "dns="+FmtInts(dns))
			}
			if r.Intn(2) == 0 {
				extra = append(extra, "key=k1")
			}
		}
		emitExchangeCase(wr, fmt.Sprintf("x%d", i), ws, mb, w, loc, rem, user, extra...)
	}
	if tier == "thorough" {
		// every 2-colouring of the blocks of small DAGs
		for d := 0; d < n/40+3; d++ {
			mb := 2 + r.Intn(5)
			w, ws := pickWorld(r, mb, 24)
			nb := len(w.D.Cids)
			if nb > 6 {
				continue
			}
			for m := 0; m < 1<<uint(nb); m++ {
				var loc, rem []int
				for k := 0; k < nb; k++ {
					if m&(1<<uint(k)) != 0 {
						loc = append(loc, k)
					} else {
						rem = append(rem, k)
					}
				}
				emitExchangeCase(wr, fmt.Sprintf("c%d-%d", d, m), ws, mb, w, loc, rem, 0)
			}
		}
	}
}
