import GSProofs.Lemmas.RespDispatchOwnDef
/-!
`Inv` under the handlers reached from the dispatch loop (abortRequest, unpauseRequest, processUpdate,
newRequest) and under `processRequests` for reuse-free messages.
-/
namespace GS.C10
open GS.RespMgr GS.Generated

/-- every table entry points to an existing object -/
def TableOk (s : State) : Prop := ∀ id k, s.table.get id = some k → k < s.objs.length

theorem quiet_after_erase {ex : Option (Peer × ReqId)} {s : State} (hi : Inv ex s) {id : ReqId} {k : Serial} {o : Obj}
    (hl : s.lookup id = some (k, o)) (hs : o.state ≠ .running) :
    Quiet { s with pending := eraseFirst s.pending (o.peer, id) } id := by
  refine ⟨?_, no_exec_of_state hi hl hs⟩
  intro t ht h2
  have hsub := (eraseFirst_sublist s.pending (o.peer, id)).subset ht
  obtain ⟨k', o', hl', hp, _⟩ := hi.pend t hsub
  rw [h2, hl] at hl'
  cases hl'
  have : t = (o.peer, id) := by
    obtain ⟨a, b⟩ := t
    simp at hp h2
    simp [hp, h2]
  rw [this] at ht
  exact not_mem_eraseFirst hi.pnodup _ ht

theorem abortRequest_inv {ex : Option (Peer × ReqId)} {s : State} (hi : Inv ex s) (id : ReqId) (err : ErrK) :
    Inv ex (abortRequest s id err).1 := by
  unfold abortRequest
  cases hl : s.lookup id with
  | none => simpa using hi
  | some ko =>
    obtain ⟨k, o⟩ := ko
    have h1 : Inv ex { s with pending := eraseFirst s.pending (o.peer, id) } :=
      inv_pending_sub hi _ (eraseFirst_sublist _ _)
    have hl1 : ({ s with pending := eraseFirst s.pending (o.peer, id) } : State).lookup id = some (k, o) := hl
    simp only []
    split
    · exact h1
    · split
      · rename_i hnr
        have hq := quiet_after_erase hi hl (by simpa using hnr)
        cases err <;> simp only []
        · exact inv_terminate h1 id hq
        · exact inv_terminate h1 id hq
        · exact inv_setObj_quiet h1 id k o _ hl1 hq rfl rfl (by intro _; left; rfl)
        · exact inv_setObj_quiet h1 id k o _ hl1 hq rfl rfl (by intro _; left; rfl)
      · apply inv_setObj h1 k o _ (lookup_some hl1).2
        · split <;> rfl
        · split <;> rfl
        · split <;> rfl
        · left; split <;> rfl

theorem abortRequest_execs (s : State) (id : ReqId) (err : ErrK) : (abortRequest s id err).1.execs = s.execs := by
  unfold abortRequest
  cases hl : s.lookup id with
  | none => rfl
  | some ko =>
    obtain ⟨k, o⟩ := ko
    simp only []
    split
    · rfl
    · split
      · cases err <;> simp only [terminate] <;> (try split) <;> rfl
      · rfl

theorem terminate_pending (s : State) (id : ReqId) : (terminate s id).1.pending = s.pending := by
  unfold terminate
  split <;> rfl

theorem abortRequest_pending (s : State) (id : ReqId) (err : ErrK) :
    (abortRequest s id err).1.pending.Sublist s.pending := by
  unfold abortRequest
  cases hl : s.lookup id with
  | none => exact List.Sublist.refl _
  | some ko =>
    obtain ⟨k, o⟩ := ko
    simp only []
    split
    · exact eraseFirst_sublist _ _
    · split
      · cases err <;> simp only [terminate_pending] <;> exact eraseFirst_sublist _ _
      · exact eraseFirst_sublist _ _

/-- pushing a task for a queued response that is not yet queued -/
theorem inv_push {ex : Option (Peer × ReqId)} {s : State} (hi : Inv ex s) (p : Peer) (id : ReqId) (k : Serial) (o : Obj)
    (hl : s.lookup id = some (k, o)) (hp : o.peer = p) (hs : o.state = .queued) (hn : (p, id) ∉ s.pending) :
    Inv ex { s with pending := s.pending ++ [(p, id)] } where
  ids := hi.ids
  pend := by
    intro t ht
    rcases List.mem_append.mp ht with h | h
    · exact hi.pend t h
    · simp at h; subst h; exact ⟨k, o, hl, hp, hs⟩
  pnodup := by
    show (s.pending ++ [(p, id)]).Nodup
    refine List.nodup_append.mpr ⟨hi.pnodup, by simp, ?_⟩
    intro a ha b hb
    simp at hb; subst hb
    intro h; subst h; exact hn ha
  fin := hi.fin
  exec := hi.exec
  enodup := hi.enodup

theorem unpauseRequest_inv {ex : Option (Peer × ReqId)} {s : State} (hi : Inv ex s) (id : ReqId) :
    Inv ex (unpauseRequest s id).1 := by
  unfold unpauseRequest
  cases hl : s.lookup id with
  | none => simpa using hi
  | some ko =>
    obtain ⟨k, o⟩ := ko
    simp only []
    split
    · exact hi
    · rename_i hp
      have hp : o.state = .paused := by simpa using hp
      have hqp := no_pending_of_state hi hl (by rw [hp]; decide)
      have hqe := no_exec_of_state hi hl (by rw [hp]; decide)
      have hfc : o.finCode = none := by
        cases hf : o.finCode with
        | none => rfl
        | some c =>
          have := hi.fin id k o hl (by rw [hf]; simp)
          rw [hp] at this
          rcases this with h | h <;> cases h
      have h1 : Inv ex (s.setObj k { o with state := .queued, sigPause := false }) :=
        inv_setObj_quiet hi id k o _ hl ⟨hqp, hqe⟩ rfl rfl (by intro h; exact absurd hfc h)
      have hl1 : (s.setObj k { o with state := .queued, sigPause := false }).lookup id
          = some (k, { o with state := .queued, sigPause := false }) := by
        rw [lookup_setObj s k o _ (lookup_some hl).2 id, hl]; simp
      exact inv_push h1 o.peer id k _ hl1 rfl rfl (fun hm => hqp _ hm rfl)

theorem processUpdate_inv {ex : Option (Peer × ReqId)} {s : State} (hi : Inv ex s) (id : ReqId) (uh : UpdHook) :
    Inv ex (processUpdate s id uh).1 := by
  unfold processUpdate
  cases hl : s.lookup id with
  | none => simpa using hi
  | some ko =>
    obtain ⟨k, o⟩ := ko
    simp only []
    split
    · exact hi
    · split
      · exact inv_setObj hi k o _ (lookup_some hl).2 rfl rfl rfl (Or.inl rfl)
      · rename_i _ hp
        have hp : o.state = .paused := by simpa using hp
        have hqp := no_pending_of_state hi hl (by rw [hp]; decide)
        have hqe := no_exec_of_state hi hl (by rw [hp]; decide)
        cases uh <;> simp only []
        · exact hi
        · exact hi
        · exact inv_setObj_quiet hi id k o _ hl ⟨hqp, hqe⟩ rfl rfl (by intro _; left; rfl)
        · exact unpauseRequest_inv hi id

/-! ### `TableOk` under the handlers -/

theorem tbl_del_self' (t : Table) (id : ReqId) : (Table.del t id).get id = none := by
  induction t with
  | nil => rfl
  | cons a rest ih =>
    obtain ⟨k', v⟩ := a
    rw [Table.del_cons]
    by_cases h : k' = id
    · simp [h, ih]
    · simp [h, Table.get_cons, ih]

theorem tbl_del_some {t : Table} {r id : ReqId} {k : Serial} (h : (Table.del t r).get id = some k) : t.get id = some k := by
  by_cases hr : r = id
  · subst hr; rw [tbl_del_self'] at h; cases h
  · rwa [Table.get_del_ne t hr] at h

theorem tableOk_setObj {s : State} (ht : TableOk s) (k : Serial) (o : Obj) : TableOk (s.setObj k o) := by
  intro id k' h
  have := ht id k' h
  simpa [State.setObj] using this

theorem tableOk_terminate {s : State} (ht : TableOk s) (id : ReqId) : TableOk (terminate s id).1 := by
  unfold terminate
  split
  · exact ht
  · intro id' k' h
    have h' : (Table.del s.table id).get id' = some k' := h
    have := ht id' k' (tbl_del_some h')
    simpa [State.setObj] using this

theorem tableOk_abort {s : State} (ht : TableOk s) (id : ReqId) (err : ErrK) : TableOk (abortRequest s id err).1 := by
  unfold abortRequest
  cases hl : s.lookup id with
  | none => simpa using ht
  | some ko =>
    obtain ⟨k, o⟩ := ko
    have h1 : TableOk { s with pending := eraseFirst s.pending (o.peer, id) } := ht
    simp only []
    split
    · exact h1
    · split
      · cases err <;> simp only []
        · exact tableOk_terminate h1 id
        · exact tableOk_terminate h1 id
        · exact tableOk_setObj h1 _ _
        · exact tableOk_setObj h1 _ _
      · exact tableOk_setObj h1 _ _

theorem tableOk_unpause {s : State} (ht : TableOk s) (id : ReqId) : TableOk (unpauseRequest s id).1 := by
  unfold unpauseRequest
  cases hl : s.lookup id with
  | none => simpa using ht
  | some ko =>
    obtain ⟨k, o⟩ := ko
    simp only []
    split
    · exact ht
    · exact tableOk_setObj ht k _

theorem tableOk_update {s : State} (ht : TableOk s) (id : ReqId) (uh : UpdHook) : TableOk (processUpdate s id uh).1 := by
  unfold processUpdate
  cases hl : s.lookup id with
  | none => simpa using ht
  | some ko =>
    obtain ⟨k, o⟩ := ko
    simp only []
    split
    · exact ht
    · split
      · exact tableOk_setObj ht k _
      · cases uh <;> simp only []
        · exact ht
        · exact ht
        · exact tableOk_setObj ht k _
        · exact tableOk_unpause ht id

theorem tableOk_new {s : State} (ht : TableOk s) (q : Peer) (x : Request) : TableOk (newRequest s q x).1 := by
  intro id k h
  have h' : (Table.set s.table x.id s.objs.length).get id = some k := h
  have hlen : (newRequest s q x).1.objs.length = s.objs.length + 1 := by simp [newRequest]
  rw [hlen]
  by_cases hx : x.id = id
  · subst hx
    simp [Table.set, Table.get] at h'
    rw [← h']; exact Nat.lt_succ_self _
  · rw [Table.get_set_ne _ _ hx] at h'
    exact Nat.lt_succ_of_lt (ht id k h')

/-! ### a new response -/

theorem lookup_new_ne {s : State} (ht : TableOk s) (ob : Obj) (nid : ReqId) (l : List (Peer × ReqId)) {id : ReqId}
    (h : id ≠ nid) :
    ({ s with objs := s.objs ++ [ob], table := s.table.set nid s.objs.length, pending := l } : State).lookup id
      = s.lookup id := by
  unfold State.lookup
  simp only [Table.get_set_ne s.table _ (Ne.symm h)]
  cases hg : s.table.get id with
  | none => rfl
  | some k =>
    have := ht id k hg
    simp [State.obj, List.getElem?_append_left this]

theorem lookup_new_self (s : State) (ob : Obj) (nid : ReqId) (l : List (Peer × ReqId)) :
    ({ s with objs := s.objs ++ [ob], table := s.table.set nid s.objs.length, pending := l } : State).lookup nid
      = some (s.objs.length, ob) := by
  simp [State.lookup, Table.set, Table.get, State.obj]

theorem inv_new {ex : Option (Peer × ReqId)} {s : State} (hi : Inv ex s) (ht : TableOk s) (ob : Obj)
    (l : List (Peer × ReqId)) (hn : s.lookup ob.id = none)
    (hf : ob.finCode ≠ none → ob.state = .completing)
    (hlq : l = [] ∨ (l = [(ob.peer, ob.id)] ∧ ob.state = .queued)) :
    Inv ex { s with objs := s.objs ++ [ob], table := s.table.set ob.id s.objs.length, pending := s.pending ++ l } := by
  have hq := no_pending_of_none hi hn
  refine ⟨?_, ?_, ?_, ?_, ?_, hi.enodup⟩
  · intro id k o h
    by_cases hid : id = ob.id
    · subst hid; rw [lookup_new_self] at h; cases h; rfl
    · rw [lookup_new_ne ht _ _ _ hid] at h; exact hi.ids id k o h
  · intro t htm
    rcases List.mem_append.mp htm with h | h
    · have hne : t.2 ≠ ob.id := hq.1 t h
      rw [lookup_new_ne ht _ _ _ hne]; exact hi.pend t h
    · rcases hlq with h0 | ⟨h1, hs⟩
      · rw [h0] at h; cases h
      · rw [h1] at h; simp at h; subst h
        exact ⟨_, ob, lookup_new_self _ _ _ _, rfl, hs⟩
  · show (s.pending ++ l).Nodup
    rcases hlq with h0 | ⟨h1, hs⟩
    · rw [h0]; simpa using hi.pnodup
    · rw [h1]
      refine List.nodup_append.mpr ⟨hi.pnodup, by simp, ?_⟩
      intro a ha b hb
      simp at hb; subst hb
      intro h; subst h; exact hq.1 _ ha rfl
  · intro id k o h
    by_cases hid : id = ob.id
    · subst hid; rw [lookup_new_self] at h; cases h
      intro hfc; exact Or.inl (hf hfc)
    · rw [lookup_new_ne ht _ _ _ hid] at h; exact hi.fin id k o h
  · intro e he
    have hne : e.task.2 ≠ ob.id := hq.2 e he
    rw [lookup_new_ne ht _ _ _ hne]; exact hi.exec e he

theorem newRequest_inv {ex : Option (Peer × ReqId)} {s : State} (hi : Inv ex s) (ht : TableOk s) (q : Peer) (x : Request)
    (hn : s.lookup x.id = none) : Inv ex (newRequest s q x).1 := by
  unfold newRequest
  cases hrh : x.rh <;> simp only []
  · exact inv_new hi ht _ _ hn (by simp) (Or.inr ⟨rfl, rfl⟩)
  · exact inv_new hi ht _ _ hn (by simp) (Or.inl rfl)
  · exact inv_new hi ht _ _ hn (by simp) (Or.inl rfl)
  · exact inv_new hi ht _ _ hn (by simp) (Or.inl rfl)

/-! ### the dispatch loop -/

theorem handler_new_typ {t : ReqType} {c : DispatchCase} (hc : dispatchCase RespDispatch.dispatch t = some c)
    (hh : c.handler = .new) : t = .new := by
  cases t <;> simp [dispatchCase, RespDispatch.dispatch] at hc <;> subst hc <;> simp at hh ⊢

theorem handleOne_inv {s : State} (hi : Inv none s) (ht : TableOk s) (q : Peer) (x : Request)
    (hr : (x.typ == .new && liveFor s q x.id) = false) :
    Inv none (handleOne RespDispatch.dispatch q s x).1 ∧ TableOk (handleOne RespDispatch.dispatch q s x).1 := by
  unfold handleOne
  split
  · exact ⟨hi, ht⟩
  · rename_i c hc
    obtain ⟨g, hcg, hgood⟩ := guard_of_case dispatch_guarded hc
    by_cases hf : foreign s q x = true
    · simp only [hcg, guardSkips_good g hgood, hf, if_true]
      exact ⟨hi, ht⟩
    · have hf' : foreign s q x = false := by simpa using hf
      simp only [hcg, guardSkips_good g hgood, hf', Bool.false_eq_true, if_false]
      cases hh : c.handler with
      | new =>
        have htyp := handler_new_typ hc hh
        have hlv : liveFor s q x.id = false := by simpa [htyp] using hr
        have hn : s.lookup x.id = none := by
          cases hl : s.lookup x.id with
          | none => rfl
          | some ko =>
            obtain ⟨k, o⟩ := ko
            have hp := foreign_false hf' hl
            unfold liveFor at hlv
            rw [hl] at hlv
            simp [hp] at hlv
        exact ⟨newRequest_inv hi ht q x hn, tableOk_new ht q x⟩
      | abort => exact ⟨abortRequest_inv hi _ _, tableOk_abort ht _ _⟩
      | update => exact ⟨processUpdate_inv hi _ _, tableOk_update ht _ _⟩

theorem processRequests_inv' {s : State} (hi : Inv none s) (ht : TableOk s) (q : Peer) (reqs : List Request)
    (hr : reqsReuseFree q s reqs = true) :
    Inv none (processRequests RespDispatch.dispatch q s reqs).1
      ∧ TableOk (processRequests RespDispatch.dispatch q s reqs).1 := by
  induction reqs generalizing s with
  | nil => exact ⟨hi, ht⟩
  | cons x xs ih =>
    unfold reqsReuseFree at hr
    simp only [Bool.and_eq_true, Bool.not_eq_true'] at hr
    obtain ⟨h1, h2⟩ := hr
    obtain ⟨hi1, ht1⟩ := handleOne_inv hi ht q x h1
    unfold processRequests
    exact ih hi1 ht1 h2

theorem processRequests_inv {s : State} (hi : Inv none s) (ht : TableOk s) (q : Peer) (reqs : List Request)
    (hr : reqsReuseFree q s reqs = true) : Inv none (processRequests RespDispatch.dispatch q s reqs).1 :=
  (processRequests_inv' hi ht q reqs hr).1

theorem processRequests_tableOk {s : State} (hi : Inv none s) (ht : TableOk s) (q : Peer) (reqs : List Request)
    (hr : reqsReuseFree q s reqs = true) : TableOk (processRequests RespDispatch.dispatch q s reqs).1 :=
  (processRequests_inv' hi ht q reqs hr).2

end GS.C10
