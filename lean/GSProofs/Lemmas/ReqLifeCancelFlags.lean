import GSProofs.Lemmas.ReqLifeCancel
/-!
The model's OWN records of "CancelRequest was handled for a tracked request" and the cancel message:
`CancelRecorded s` := terminal error is RequestClientCancelledErr ∨ a CancelRequest caller is waiting
(`waiters`) ∨ a CancelRequest call returned ok (`cancelOk ∈ apiLog`).  Each of them is only ever set by
`cancelLive _ true` (directly, or later from `waiters` by `finishTerminate`), which also appends the cancel
message: `step_recorded`.
-/
namespace GS.ReqLife

def CancelRecorded (s : State) : Prop :=
  s.termErr = some Err.cc ∨ 0 < s.waiters ∨ ApiRes.cancelOk ∈ s.apiLog

theorem finishTerminate_rec (s : State) (r : Bool) : CancelRecorded (finishTerminate s r) → CancelRecorded s := by
  simp only [CancelRecorded, finishTerminate]
  intro h
  rcases h with h | h | h
  · exact Or.inl h
  · simp at h
  · simp only [List.mem_append, List.mem_replicate] at h
    rcases h with h | ⟨h, _⟩
    · exact Or.inr (Or.inr h)
    · exact Or.inr (Or.inl (Nat.pos_of_ne_zero h))

theorem terminate_rec (s : State) (r : Bool) : CancelRecorded (terminate s r) → CancelRecorded s := by
  unfold terminate
  split
  · exact id
  · exact finishTerminate_rec s r

theorem cancelOnError_rec (s : State) (e : Option Err) :
    CancelRecorded (cancelOnError s e) → CancelRecorded s ∨ e = some Err.cc := by
  unfold cancelOnError
  simp only
  split <;> split
  · intro h
    have := terminate_rec _ _ h
    simp only [CancelRecorded] at this ⊢
    rcases this with h | h | h
    · exact Or.inr h
    · exact Or.inl (Or.inr (Or.inl h))
    · exact Or.inl (Or.inr (Or.inr h))
  · intro h
    simp only [CancelRecorded] at h ⊢
    rcases h with h | h | h
    · exact Or.inr h
    · exact Or.inl (Or.inr (Or.inl h))
    · exact Or.inl (Or.inr (Or.inr h))
  · intro h; exact Or.inl (terminate_rec _ _ h)
  · intro h; exact Or.inl h

theorem handle_rec (s : State) (m : Msg) :
    CancelRecorded (handle s m) → CancelRecorded s ∨ msgCause s m = some (.callerCancel true) := by
  cases m with
  | newReq => simp only [handle]; split <;> exact fun h => Or.inl h
  | cancel api =>
    simp only [handle, msgCause]
    split
    next hl => split <;> (intro h; left; simpa [CancelRecorded] using h)
    next hl =>
      have hl' : s.reg = .live := by simpa using hl
      cases api
      · intro h
        rcases cancelOnError_rec _ _ (by simpa [cancelLive] using h) with h | h
        · left; simpa [CancelRecorded] using h
        · simp at h
      · intro _; right; simp [hl']
  | responses p st items hk =>
    simp only [handle, hookCancel, ingest, procTerminations]
    intro h
    left
    (repeat' split at h) <;>
      first
        | exact h
        | (rcases cancelOnError_rec _ _ h with h | h
           · simpa [CancelRecorded] using h
           · simp at h)
        | (have h2 : CancelRecorded (cancelOnError _ _) := by simpa [CancelRecorded] using h
           rcases cancelOnError_rec _ _ h2 with h | h
           · simpa [CancelRecorded] using h
           · simp at h)
  | pause => simp only [handle]; (repeat' split) <;> (intro h; left; simpa [CancelRecorded] using h)
  | unpause => simp only [handle]; (repeat' split) <;> (intro h; left; simpa [CancelRecorded] using h)
  | getTask => simp only [handle]; (repeat' split) <;> (intro h; left; simpa [CancelRecorded] using h)
  | release e =>
    simp only [handle]
    (repeat' split) <;> intro h <;> left
    · simpa [CancelRecorded] using h
    · simpa [CancelRecorded] using h
    · simpa [CancelRecorded] using terminate_rec _ _ h

theorem errSender_rec {s s1 : State} {e : Err} (h : errSender s = some (e, s1)) :
    CancelRecorded s1 → CancelRecorded s := by
  simp only [errSender] at h
  split at h
  · cases h; exact finishTerminate_rec _ _
  · split at h
    · cases h; exact id
    · cases h; exact id
    · cases h

/-- a record of a handled CancelRequest appears only by the cause event `callerCancel true`. -/
theorem step_recorded {s s' : State} {a : Action} (hs : step s a = some s') :
    CancelRecorded s' → CancelRecorded s ∨ cause s a = some (.callerCancel true) := by
  cases a
  case mgr =>
    simp only [step] at hs
    split at hs
    next m rest hm hb =>
      cases hs
      intro h
      rcases handle_rec _ m h with h | h
      · left; simpa [CancelRecorded] using h
      · right; rw [msgCause_mbox] at h; simp [cause, hm, hb, h]
    next => cases hs
  case ceRecv =>
    simp only [step] at hs
    split at hs
    next buf e s1 hce hsnd =>
      cases hs
      intro h; left
      exact errSender_rec hsnd (by simpa [CancelRecorded] using h)
    next => cases hs
  case cpDrainE =>
    simp only [step] at hs
    split at hs
    next sent pO e s1 hcp hsnd =>
      cases hs
      intro h; left
      exact errSender_rec hsnd (by simpa [CancelRecorded] using h)
    next => cases hs
  all_goals
    intro h; left
    simp only [step, env, pushMsg, sendRelease, pauseCheck, dataLoaded, loadFailed, afterVisit,
      Option.map_eq_some_iff] at hs
    (repeat' split at hs) <;>
      (first
        | (cases hs; done)
        | (obtain ⟨_, hs1, hs2⟩ := hs; simp at hs1; done)
        | (obtain ⟨_, hs1, hs2⟩ := hs; simp at hs1; subst hs2; simp only [CancelRecorded] at h ⊢; grind)
        | (cases hs; simp only [CancelRecorded] at h ⊢; grind))

/-- invariant: whenever the model records a handled CancelRequest, the cancel message to the request's own
    peer is in the outbox. -/
def InvCF (s : State) : Prop := CancelRecorded s → cancelTo s.peer ∈ s.outbox

theorem invCF_init (p e t : Nat) : InvCF (init p e t) := by
  simp [InvCF, CancelRecorded, init]

theorem invCF_step {s s' : State} {a : Action} (hi : InvCF s) (hs : step s a = some s') : InvCF s' := by
  intro h
  obtain ⟨hp, ho⟩ := step_outbox hs
  rw [hp, ho]
  rcases step_recorded hs h with h | h
  · exact List.mem_append_left _ (hi h)
  · exact List.mem_append_right _ (by simp [emit, h])

theorem invCF_reachable {s : State} (h : Reachable s) : InvCF s := by
  induction h with
  | init p e t => exact invCF_init p e t
  | step _ hs ih => exact invCF_step ih hs

/-! ### the terminal error, once set, never changes (first cause wins) -/

theorem terminate_termErr (s : State) (r : Bool) : (terminate s r).termErr = s.termErr := by
  unfold terminate; split <;> simp [finishTerminate]

theorem cancelOnError_termErr_keep (s : State) (e : Option Err) {x : Err} (h : s.termErr = some x) :
    (cancelOnError s e).termErr = some x := by
  unfold cancelOnError
  simp only
  split <;> split <;> simp_all [terminate_termErr]

theorem handle_termErr_keep (s : State) (m : Msg) {x : Err} (h : s.termErr = some x) :
    (handle s m).termErr = some x := by
  cases m <;> simp only [handle, cancelLive, hookCancel, ingest, procTerminations]
  · split <;> simp [h]
  · (repeat' split) <;> (first | exact h | (apply cancelOnError_termErr_keep; simpa using h))
  · (repeat' split) <;> (first | exact h | (apply cancelOnError_termErr_keep; simpa using h) |
      (simp only []; first | exact h | (apply cancelOnError_termErr_keep; simpa using h)))
  · (repeat' split) <;> simp [h]
  · (repeat' split) <;> simp [h]
  · (repeat' split) <;> simp [h]
  · (repeat' split) <;> simp [h, terminate_termErr]

theorem errSender_termErr {s s1 : State} {e : Err} (h : errSender s = some (e, s1)) : s1.termErr = s.termErr := by
  simp only [errSender] at h
  split at h
  · cases h; simp [finishTerminate]
  · split at h
    · cases h; simp
    · cases h; simp [sendRelease, pushMsg]
    · cases h

theorem step_termErr_keep {s s' : State} {a : Action} {x : Err} (hs : step s a = some s')
    (h : s.termErr = some x) : s'.termErr = some x := by
  cases a
  case mgr =>
    simp only [step] at hs
    split at hs
    next m rest hm hb => cases hs; exact handle_termErr_keep _ m (by simpa using h)
    next => cases hs
  case ceRecv =>
    simp only [step] at hs
    split at hs
    next buf e s1 hce hsnd => cases hs; simpa [errSender_termErr hsnd] using h
    next => cases hs
  case cpDrainE =>
    simp only [step] at hs
    split at hs
    next sent pO e s1 hcp hsnd => cases hs; simpa [errSender_termErr hsnd] using h
    next => cases hs
  all_goals
    simp only [step, env, pushMsg, sendRelease, pauseCheck, dataLoaded, loadFailed, afterVisit,
      Option.map_eq_some_iff] at hs
    (repeat' split at hs) <;>
      (first
        | (cases hs; done)
        | (obtain ⟨_, hs1, hs2⟩ := hs; simp at hs1; done)
        | (obtain ⟨_, hs1, hs2⟩ := hs; simp at hs1; subst hs2; grind)
        | (cases hs; grind))

end GS.ReqLife
