import GSProofs.Lemmas.RespLifeOutcomeNFrame
/-!
Outcome accounting, part 2: worker segments, the message-queue goroutine, task pops and the environment
leave the second potential alone (`MStep`).
-/
namespace GS.RespLife

theorem mstep_after_modAux {r : Id} {s s' : State} {id : Id} {f : Aux → Aux} (h : MStep r (modAux s id f) s')
    (hf : ∀ a, (f a).netErr = a.netErr) : MStep r s s' := (mstep_modAux r s id f hf).trans h

theorem mstep_sendFinishNow (r : Id) (s : State) (w : Nat) (err : Option WErr) : MStep r s (sendFinishNow s w err) := by
  unfold sendFinishNow
  exact (mstep_sendMsg r s _ (fun _ => rfl)).trans (mstep_setPhase r _ w _)

theorem mstep_sendFinish (r : Id) (s : State) (w : Nat) (err : Option WErr) : MStep r s (sendFinish s w err) := by
  unfold sendFinish
  split
  · exact mstep_setWorker r s w _
  · exact mstep_sendFinishNow r s w err

theorem mstep_executeQuery (r : Id) (s : State) (w : Nat) (wk : Worker) (err : Option WErr) :
    MStep r s (executeQuery s w wk err) := by
  unfold executeQuery
  split
  · exact mstep_sendFinish r s w _
  · exact mstep_sendFinish r s w _
  · exact mstep_sendFinish r s w _
  · simp only
    have hx := mstep_execTx r s (.worker w) wk.peer wk.id [TxOp.status (finalStatus (lookup s wk.id) err)]
    generalize execTx s (.worker w) wk.peer wk.id [TxOp.status (finalStatus (lookup s wk.id) err)] = pr at hx
    obtain ⟨s1, ok⟩ := pr
    simp only at hx ⊢
    split
    · exact hx.trans (mstep_sendFinish r s1 w err)
    · exact hx.trans (mstep_setPhase r s1 w _)

theorem mstep_loopTop (r : Id) (s : State) (w : Nat) (wk : Worker) : MStep r s (loopTop s w wk) := by
  unfold loopTop
  split
  · exact mstep_sendFinish r s w _
  · split
    · exact mstep_executeQuery r s w wk _
    · exact mstep_setPhase r s w _

theorem mstep_afterBlock (r : Id) (s : State) (w : Nat) (wk : Worker) (err : Option WErr) :
    MStep r s (afterBlock s w wk err) := by
  unfold afterBlock
  split
  · exact mstep_executeQuery r s w wk _
  · exact mstep_loopTop r s w wk

theorem mstep_runTx (r : Id) (s : State) (w : Nat) (wk : Worker) (ops : List TxOp) (k : AfterTx) :
    MStep r s (runTx s w wk ops k) := by
  unfold runTx
  have hx := mstep_execTx r s (.worker w) wk.peer wk.id ops
  generalize execTx s (.worker w) wk.peer wk.id ops = pr at hx
  obtain ⟨s1, ok⟩ := pr
  simp only at hx ⊢
  split
  · cases k with
    | afterBlock err pr => exact hx.trans (mstep_afterBlock r s1 w wk err)
    | afterFinal err => exact hx.trans (mstep_sendFinish r s1 w err)
  · exact hx.trans (mstep_setPhase r s1 w _)

theorem mstep_blockPart (r : Id) (s : State) (w : Nat) (wk : Worker) (ops : List TxOp) (cfu : Option WErr)
    (present : Bool) : MStep r s (blockPart s w wk ops cfu present) := by
  unfold blockPart
  split
  · exact mstep_sendFinish r s w _
  · rename_i x hl
    simp only
    split
    · exact mstep_after_modAux (mstep_runTx r _ w wk _ _) (fun _ => rfl)
    · split
      · exact mstep_after_modAux (mstep_runTx r _ w wk _ _) (fun _ => rfl)
      · exact mstep_after_modAux (mstep_runTx r _ w wk _ _) (fun _ => rfl)
      · exact mstep_after_modAux (mstep_runTx r _ w wk _ _) (fun _ => rfl)
      · exact mstep_after_modAux (mstep_runTx r _ w wk _ _) (fun _ => rfl)
      · exact mstep_after_modAux (mstep_setPhase r _ w _) (fun _ => rfl)

theorem mstep_checkForUpdates (r : Id) (s : State) (w : Nat) (wk : Worker) (ops : List TxOp) (present : Bool)
    (pick : Nat) : MStep r s (checkForUpdates s w wk ops present pick) := by
  unfold checkForUpdates
  split
  · exact mstep_sendFinish r s w _
  · rename_i x hl
    simp only
    split
    · exact mstep_blockPart r s w wk ops none present
    · exact mstep_after_modAux (mstep_blockPart r _ w wk _ _ present) (fun _ => rfl)
    · exact mstep_after_modAux (mstep_runTx r _ w wk ops _) (fun _ => rfl)
    · exact mstep_after_modAux ((mstep_sendMsg r _ (.getUpdates w) (fun _ => rfl)).trans (mstep_setPhase r _ w _))
        (fun _ => rfl)

theorem mstep_applyUpdates (r : Id) (s : State) (w : Nat) (wk : Worker) (ups : List UP) (ops : List TxOp)
    (present : Bool) (pick : Nat) : MStep r s (applyUpdates s w wk ups ops present pick) := by
  induction ups generalizing ops with
  | nil => exact mstep_checkForUpdates r s w wk ops present pick
  | cons u us ih =>
    unfold applyUpdates
    simp only
    split
    · exact mstep_runTx r s w wk _ _
    · exact ih _

theorem mstep_wstep (r : Id) {s s' : State} {w pick : Nat} (h : wstep s w pick = some s') : MStep r s s' := by
  unfold wstep at h
  split at h
  · cases h
  · rename_i wk hw
    split at h
    · cases h; exact mstep_loopTop r s w wk
    · split at h
      · cases h; exact mstep_sendFinish r s w _
      · rename_i x hl
        cases h
        exact mstep_after_modAux (mstep_checkForUpdates r _ w wk [] _ pick) (fun _ => rfl)
    · cases h; exact mstep_applyUpdates r s w wk _ _ _ pick
    · cases h; exact mstep_runTx r s w wk _ _
    · cases h; exact mstep_sendFinishNow r s w _
    · rename_i ops k hph
      have hb := mstep_buildNow r s (.worker w) wk.peer wk.id ops
      cases k with
      | afterBlock err pr =>
        simp only at h; cases h
        exact hb.trans (mstep_afterBlock r _ w wk err)
      | afterFinal err =>
        simp only at h; cases h
        exact hb.trans (mstep_sendFinish r _ w err)
    · cases h

-- ------------------------------------------------------------------ queue goroutine, pops, environment
theorem mstep_extract (r : Id) {s s' : State} {p : Peer} (h : extract s p = some s') : MStep r s s' := by
  unfold extract at h
  simp only at h
  split at h
  · rename_i b hi hn
    split at h
    · cases h
    · cases h
      exact mstep_updMQ r s p (fun q => { q with inflight := some b, next := none }) (fun _ => rfl) (fun _ => rfl)
        (fun _ => rfl)
  · cases h

theorem mstep_primer (r : Id) (s : State) (p : Peer) : MStep r s (primer s p) := by
  unfold primer
  simp only
  exact mstep_updMQ r s p (fun q => { q with next := some { (q.next.getD {}) with hasReq := true } }) (fun _ => rfl)
    (fun _ => rfl) (fun _ => rfl)

theorem mstep_popTask (r : Id) {s s' : State} {p : Peer} {id : Id} (h : popTask s p id = some s') : MStep r s s' := by
  unfold popTask at h
  simp only at h
  split at h
  · cases h
    refine MStep.trans ?_ (mstep_sendMsg r _ _ ?_)
    · exact mstep_field rfl rfl rfl rfl rfl
    · intro _; rfl
  · cases h

theorem mstep_reap (r : Id) {s s' : State} {p : Peer} (h : reap s p = some s') : MStep r s s' := by
  unfold reap at h
  split at h
  · split at h
    · cases h; exact mstep_field rfl rfl rfl rfl rfl
    · cases h
  · cases h

theorem mstep_thawAll (r : Id) (s : State) : MStep r s (thawAll s) := mstep_field rfl rfl rfl rfl rfl

theorem mstep_recv (r : Id) (s : State) (p : Peer) (q : ReqMsg) (seen : List Id) :
    MStep r s (sendMsg { s with seenIds := seen } (.processRequests p q)) := by
  refine MStep.trans ?_ (mstep_sendMsg r _ _ ?_)
  · exact mstep_field rfl rfl rfl rfl rfl
  · intro _; rfl

theorem mstep_api (r : Id) (s : State) (c : ApiCall) : MStep r s (sendMsg s (.api c)) :=
  mstep_sendMsg r s _ (fun _ => rfl)

end GS.RespLife
