import GSProofs.Lemmas.LoaderReplay
import GS.Model.Responder
/-!
The honest response used by the completeness theorems (`respItems`, `respItemsW`: recursion over the
pre-order link tree `Requestor.LT` with depths) IS the responder specification
`Responder.respondSpec` (recursion over the labelled tree `Responder.LT`), for every link tree:
`respItemsW_spec`, `respItems_spec`.  `FlatT t d l`: the pre-order list `l` is a flattening of the
tree `t` whose root sits at depth `d` (paths and visit counts of the nodes are arbitrary).
-/
namespace GS.Loader
open GS.Requestor (LNode LT)

/-! ### flattenings -/

mutual
  /-- `l` lists the links of `t` in pre-order, the root at depth `d` -/
  def FlatT : GS.Responder.LT → Nat → LT → Prop
    | .node c kids, d, l => ∃ n sub, l = n :: sub ∧ n.cid = c ∧ n.depth = d ∧ FlatL kids (d + 1) sub
  /-- `l` lists the links of the forest `ts` in pre-order, the roots at depth `d` -/
  def FlatL : List GS.Responder.LT → Nat → LT → Prop
    | [], _, l => l = []
    | t :: ts, d, l => ∃ l1 l2, l = l1 ++ l2 ∧ FlatT t d l1 ∧ FlatL ts d l2
end

mutual
  theorem FlatT.depth_ge : ∀ (t : GS.Responder.LT) (d : Nat) (l : LT), FlatT t d l → ∀ x ∈ l, d ≤ x.depth
    | .node c kids, d, l, h => by
      rw [FlatT] at h
      obtain ⟨n, sub, rfl, _, hd, hs⟩ := h
      intro x hx
      simp only [List.mem_cons] at hx
      rcases hx with rfl | hx
      · omega
      · have := FlatL.depth_ge kids (d + 1) sub hs x hx; omega
  theorem FlatL.depth_ge : ∀ (ts : List GS.Responder.LT) (d : Nat) (l : LT), FlatL ts d l → ∀ x ∈ l, d ≤ x.depth
    | [], d, l, h => by
      rw [FlatL] at h; subst h; intro x hx; simp at hx
    | t :: ts, d, l, h => by
      rw [FlatL] at h
      obtain ⟨l1, l2, rfl, h1, h2⟩ := h
      intro x hx
      simp only [List.mem_append] at hx
      rcases hx with hx | hx
      · exact FlatT.depth_ge t d l1 h1 x hx
      · exact FlatL.depth_ge ts d l2 h2 x hx
end

/-- the first node of `rest` (if any) is not deeper than `d` -/
def HeadLe (d : Nat) (rest : LT) : Prop := ∀ x r, rest = x :: r → x.depth ≤ d

theorem FlatT.head (t : GS.Responder.LT) (d : Nat) (l : LT) (h : FlatT t d l) : ∃ n sub, l = n :: sub ∧ n.depth = d := by
  cases t with
  | node c kids =>
    rw [FlatT] at h
    obtain ⟨n, sub, hl, _, hd, _⟩ := h
    exact ⟨n, sub, hl, hd⟩

theorem FlatL.headLe (ts : List GS.Responder.LT) (d : Nat) (l rest : LT) (h : FlatL ts d l) (hr : HeadLe d rest) :
    HeadLe d (l ++ rest) := by
  cases ts with
  | nil => rw [FlatL] at h; subst h; simpa using hr
  | cons t ts =>
    rw [FlatL] at h
    obtain ⟨l1, l2, rfl, h1, _⟩ := h
    obtain ⟨n, sub, rfl, hd⟩ := FlatT.head t d l1 h1
    intro x r hx
    simp only [List.cons_append, List.cons.injEq] at hx
    rw [← hx.1]; omega

theorem skipSub_subtree (n : LNode) (sub rest : LT) (hs : ∀ x ∈ sub, n.depth + 1 ≤ x.depth) (hr : HeadLe n.depth rest) :
    skipSub n (sub ++ rest) = rest := by
  unfold skipSub
  rw [List.dropWhile_append_of_pos (by intro x hx; have := hs x hx; simp; omega)]
  cases rest with
  | nil => rfl
  | cons x r =>
    have := hr x r rfl
    simp [List.dropWhile_cons]; omega

/-! ### the specification's block attachment without integers -/

/-- `Responder.attach` for a request without do-not-send-cids and no competing request, as a
    countdown of the skip window -/
def attachN : Nat → List Cid → List (Cid × Bool) → List GS.Responder.Item
  | _, _, [] => []
  | w, seen, (c, pres) :: es =>
    ⟨c, pres, pres && !decide (0 < w) && !seen.contains c⟩ :: attachN (w - 1) (if pres then c :: seen else seen) es

theorem attach_eq_attachN (sk : Nat) : ∀ (es : List (Cid × Bool)) (i : Nat) (seen : List Cid),
    GS.Responder.attach (sk : Int) (fun _ => false) i seen es = attachN (sk - i) seen es
  | [], _, _ => by simp [GS.Responder.attach, attachN]
  | (c, pres) :: es, i, seen => by
    simp only [GS.Responder.attach, attachN]
    rw [attach_eq_attachN sk es (i + 1)]
    have h1 : decide ((sk : Int) < ((i + 1 : Nat) : Int)) = !decide (0 < sk - i) := by
      by_cases h : 0 < sk - i
      · rw [decide_eq_false (by omega : ¬ ((sk : Int) < ((i + 1 : Nat) : Int))), decide_eq_true h]; rfl
      · rw [decide_eq_true (by omega : ((sk : Int) < ((i + 1 : Nat) : Int))), decide_eq_false h]; rfl
    have h2 : sk - (i + 1) = sk - i - 1 := by omega
    rw [h1, h2]
    simp

/-- the cids traversed with their block present, accumulated by `attach` -/
def seenAfter (seen : List Cid) (es : List (Cid × Bool)) : List Cid :=
  es.foldl (fun sn e => if e.2 then e.1 :: sn else sn) seen

theorem attachN_append : ∀ (es1 es2 : List (Cid × Bool)) (w : Nat) (seen : List Cid),
    attachN w seen (es1 ++ es2) = attachN w seen es1 ++ attachN (w - es1.length) (seenAfter seen es1) es2
  | [], es2, w, seen => by simp [attachN, seenAfter]
  | (c, pres) :: es1, es2, w, seen => by
    simp only [List.cons_append, attachN, List.length_cons, seenAfter, List.foldl_cons]
    rw [attachN_append es1 es2]
    have : w - 1 - es1.length = w - (es1.length + 1) := by omega
    rw [this]
    rfl

/-! ### `respItemsW` = the specification -/

/-- what the comparison looks at: link, present?, block attached? -/
def viewL (it : Item) : Cid × Bool × Bool := (it.link, it.action == .present, it.block.isSome)
def viewR (it : GS.Responder.Item) : Cid × Bool × Bool := (it.cid, it.present, it.block)

mutual
  theorem specT (rem : Cid → Bool) : ∀ (t : GS.Responder.LT) (d : Nat) (l : LT), FlatT t d l →
      ∀ (rest : LT) (seen : List Cid) (w : Nat), HeadLe d rest →
      (respItemsW rem (l ++ rest) seen w).map viewL =
        (attachN w seen (t.visit rem)).map viewR ++
        (respItemsW rem rest (seenAfter seen (t.visit rem)) (w - (t.visit rem).length)).map viewL
    | .node c kids, d, l, h => by
      intro rest seen w hr
      rw [FlatT] at h
      obtain ⟨n, sub, rfl, hc, hd, hs⟩ := h
      rw [List.cons_append, respItemsW, GS.Responder.LT.visit, hc]
      cases hrem : rem c with
      | true =>
        simp only [if_true]
        have ih := specL rem kids (d + 1) sub hs rest (c :: seen) (w - 1) (fun x r hx => by have := hr x r hx; omega)
        simp only [List.map_cons, attachN, List.length_cons, seenAfter, List.foldl_cons, if_true]
        rw [ih]
        have hw : w - 1 - (GS.Responder.visitAll rem kids).length = w - ((GS.Responder.visitAll rem kids).length + 1) := by omega
        rw [hw]
        simp only [List.cons_append, List.cons.injEq, and_true, seenAfter]
        unfold viewL viewR
        by_cases h1 : 0 < w <;> cases seen.contains c <;> simp [h1]
      | false =>
        simp only [Bool.false_eq_true, if_false]
        have hsk : skipSub n (sub ++ rest) = rest :=
          skipSub_subtree n sub rest (fun x hx => by have := FlatL.depth_ge kids (d + 1) sub hs x hx; omega)
            (by rw [hd]; exact hr)
        rw [hsk]
        simp [attachN, seenAfter, viewL, viewR]
  theorem specL (rem : Cid → Bool) : ∀ (ts : List GS.Responder.LT) (d : Nat) (l : LT), FlatL ts d l →
      ∀ (rest : LT) (seen : List Cid) (w : Nat), HeadLe d rest →
      (respItemsW rem (l ++ rest) seen w).map viewL =
        (attachN w seen (GS.Responder.visitAll rem ts)).map viewR ++
        (respItemsW rem rest (seenAfter seen (GS.Responder.visitAll rem ts)) (w - (GS.Responder.visitAll rem ts).length)).map viewL
    | [], d, l, h => by
      intro rest seen w _
      rw [FlatL] at h; subst h
      simp [GS.Responder.visitAll, attachN, seenAfter]
    | t :: ts, d, l, h => by
      intro rest seen w hr
      rw [FlatL] at h
      obtain ⟨l1, l2, rfl, h1, h2⟩ := h
      rw [List.append_assoc, specT rem t d l1 h1 (l2 ++ rest) seen w (FlatL.headLe ts d l2 rest h2 hr),
        specL rem ts d l2 h2 rest _ _ hr]
      rw [GS.Responder.visitAll, attachN_append, List.map_append, List.append_assoc]
      simp only [seenAfter, List.foldl_append, List.length_append]
      have : w - (t.visit rem).length - (GS.Responder.visitAll rem ts).length =
          w - ((t.visit rem).length + (GS.Responder.visitAll rem ts).length) := by omega
      rw [this]
end

/-- **the honest response of the completeness theorems is the responder specification**: for every
    labelled link tree `t`, every pre-order flattening `lt` of it, every responder store and every
    requested do-not-send-first-blocks value `w` (no do-not-send-cids, no competing request), the
    entries of `respItemsW rem lt [] w` and of `respondSpec t rem {skip := w}` agree in link, present
    flag and block attachment. -/
theorem respItemsW_spec (rem : Cid → Bool) (t : GS.Responder.LT) (lt : LT) (h : FlatT t 0 lt) (w : Nat) :
    (respItemsW rem lt [] w).map viewL =
      (GS.Responder.respondSpec t rem { skip := (w : Int) } (fun _ => false)).1.map viewR := by
  have := specT rem t 0 lt h [] [] w (by intro x r hx; cases hx)
  rw [List.append_nil] at this
  rw [this]
  have hnil : ∀ seen w', respItemsW rem [] seen w' = [] := by intro seen w'; rw [respItemsW]
  rw [hnil]
  simp only [List.map_nil, List.append_nil, GS.Responder.respondSpec]
  have hex : (fun c => ([] : List Cid).contains c || false) = (fun _ => false) := by funext c; simp
  rw [hex, attach_eq_attachN w (t.visit rem) 0 []]
  simp

/-- the same for a request without skip extension (`complete_remote_start`) -/
theorem respItems_spec (rem : Cid → Bool) (t : GS.Responder.LT) (lt : LT) (h : FlatT t 0 lt) :
    (respItems rem lt []).map viewL = (GS.Responder.respondSpec t rem {} (fun _ => false)).1.map viewR := by
  rw [← respItemsW_zero rem lt.length lt (Nat.le_refl _) []]
  exact respItemsW_spec rem t lt h 0

end GS.Loader
