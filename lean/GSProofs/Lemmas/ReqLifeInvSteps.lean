import GSProofs.Lemmas.ReqLifeInv
/-! Preservation of `GS.ReqLife.Inv` by every action except the manager step (see ReqLifeInvMgr.lean). -/
namespace GS.ReqLife
open GS.Generated

macro "inv_close" : tactic =>
  `(tactic| (constructor <;> grind [execActive, needsLoad, replyPending, tQuiet, tVisitOk, cpNeedsGone, ceNeedsGone,
      cpNeedsCtx, ceNeedsCtx, cpCancelSent, pendingTerm, isGet, isRel, finishTerminate, → needsLoad_exec]))

macro "inv_destruct" h:ident : tactic =>
  `(tactic| obtain ⟨a1, a2, p0, b, k3, k4, c, c1, c2, tv, tw, j, j2, k1, k2, t1, l, f0, f1, n1, n2, n2e, n3, n3d, n3c, o1, o2, o3, o4, pz, zApi, zCtx, zTerm, ts, ac, cx⟩ := $h)

/-- uniform script: unfold the step, split every condition, close each surviving branch -/
macro "inv_step" : tactic =>
  `(tactic| (
    rename_i h hs
    inv_destruct h
    simp only [step, env, pushMsg, sendRelease, pauseCheck, dataLoaded, loadFailed, afterVisit,
      Option.map_eq_some_iff] at hs
    (repeat' split at hs) <;> (first | (cases hs; done) | (obtain ⟨_, hs1, hs2⟩ := hs; simp at hs1; subst hs2; inv_close) | (cases hs; inv_close))))

theorem inv_envNew {s s' : State}  (h : Inv s) (hs : step s .envNew = some s') : Inv s' := by inv_step
theorem inv_envCtxCancel {s s' : State}  (h : Inv s) (hs : step s .envCtxCancel = some s') : Inv s' := by inv_step
theorem inv_envCancelApi {s s' : State}  (h : Inv s) (hs : step s .envCancelApi = some s') : Inv s' := by inv_step
theorem inv_envPause {s s' : State}  (h : Inv s) (hs : step s .envPause = some s') : Inv s' := by inv_step
theorem inv_envUnpause {s s' : State}  (h : Inv s) (hs : step s .envUnpause = some s') : Inv s' := by inv_step
theorem inv_envResp {s s' : State} {p : Nat} {st : Nat} {it : Nat} {hk : Bool} (h : Inv s) (hs : step s (.envResp p st it hk) = some s') : Inv s' := by inv_step
theorem inv_oblUnpause {s s' : State}  (h : Inv s) (hs : step s .oblUnpause = some s') : Inv s' := by inv_step
theorem inv_oblAnswer {s s' : State}  (h : Inv s) (hs : step s .oblAnswer = some s') : Inv s' := by inv_step
theorem inv_wPop {s s' : State}  (h : Inv s) (hs : step s .wPop = some s') : Inv s' := by inv_step
theorem inv_wGet {s s' : State}  (h : Inv s) (hs : step s .wGet = some s') : Inv s' := by inv_step
theorem inv_xTop {s s' : State}  (h : Inv s) (hs : step s .xTop = some s') : Inv s' := by inv_step
theorem inv_xConsume {s s' : State} {c : Nat} (h : Inv s) (hs : step s (.xConsume c) = some s') : Inv s' := by inv_step
theorem inv_xWaitRemote {s s' : State} {d : Bool} {v : Nat} {m : Bool} (h : Inv s) (hs : step s (.xWaitRemote d v m) = some s') : Inv s' := by inv_step
theorem inv_xWaitLocal {s s' : State}  (h : Inv s) (hs : step s .xWaitLocal = some s') : Inv s' := by inv_step
theorem inv_xRead {s s' : State} {hit : Bool} {v : Nat} {m : Bool} (hf2 : ReqLifecycleSpec.goOnlineChecksCtx = true) (h : Inv s) (hs : step s (.xRead hit v m) = some s') : Inv s' := by inv_step
theorem inv_xHook {s s' : State} {r : HookRes} (h : Inv s) (hs : step s (.xHook r) = some s') : Inv s' := by inv_step
theorem inv_xErrCtx {s s' : State}  (h : Inv s) (hs : step s .xErrCtx = some s') : Inv s' := by inv_step
theorem inv_xSendReq {s s' : State}  (h : Inv s) (hs : step s .xSendReq = some s') : Inv s' := by inv_step
theorem inv_xFin1 {s s' : State}  (h : Inv s) (hs : step s .xFin1 = some s') : Inv s' := by inv_step
theorem inv_xFinCtx {s s' : State}  (h : Inv s) (hs : step s .xFinCtx = some s') : Inv s' := by inv_step
theorem inv_cpRecv {s s' : State}  (h : Inv s) (hs : step s .cpRecv = some s') : Inv s' := by inv_step
theorem inv_cpDrainP {s s' : State}  (h : Inv s) (hs : step s .cpDrainP = some s') : Inv s' := by inv_step
theorem inv_cpSeeClose {s s' : State}  (h : Inv s) (hs : step s .cpSeeClose = some s') : Inv s' := by inv_step
theorem inv_cpDeliver {s s' : State}  (h : Inv s) (hs : step s .cpDeliver = some s') : Inv s' := by inv_step
theorem inv_cpExit {s s' : State}  (h : Inv s) (hs : step s .cpExit = some s') : Inv s' := by inv_step
theorem inv_cpSeeCtx {s s' : State}  (h : Inv s) (hs : step s .cpSeeCtx = some s') : Inv s' := by inv_step
theorem inv_cpSendCancel {s s' : State}  (h : Inv s) (hs : step s .cpSendCancel = some s') : Inv s' := by inv_step
theorem inv_cpSeeCloseP {s s' : State}  (h : Inv s) (hs : step s .cpSeeCloseP = some s') : Inv s' := by inv_step
theorem inv_cpSeeCloseE {s s' : State}  (h : Inv s) (hs : step s .cpSeeCloseE = some s') : Inv s' := by inv_step
theorem inv_cpCancelExit {s s' : State}  (h : Inv s) (hs : step s .cpCancelExit = some s') : Inv s' := by inv_step
theorem inv_ceSeeClose {s s' : State}  (h : Inv s) (hs : step s .ceSeeClose = some s') : Inv s' := by inv_step
theorem inv_ceDeliver {s s' : State}  (h : Inv s) (hs : step s .ceDeliver = some s') : Inv s' := by inv_step
theorem inv_ceExit {s s' : State}  (h : Inv s) (hs : step s .ceExit = some s') : Inv s' := by inv_step
theorem inv_ceSeeCtx {s s' : State}  (h : Inv s) (hs : step s .ceSeeCtx = some s') : Inv s' := by inv_step
theorem inv_ceDeliverCC {s s' : State}  (h : Inv s) (hs : step s .ceDeliverCC = some s') : Inv s' := by inv_step

theorem inv_pauseCheck_done {s : State} {fatal : Bool} {e : Err} (h : Inv s) (hw : s.w = .errSent fatal)
    (ht : s.t = .waitLoad) : Inv (pauseCheck { s with t := .done (some e) }) := by
  inv_destruct h
  simp only [pauseCheck]
  split <;> inv_close

theorem inv_pauseCheck_cont0 {s : State} {fatal more : Bool} {f : Nat} (h : Inv s) (hw : s.w = .errSent fatal)
    (ht : s.t = .waitLoad) :
    Inv (pauseCheck { s with t := (if more then .waitLoad else .done none), tfuel := f }) := by
  inv_destruct h
  simp only [pauseCheck]
  (repeat' split) <;> inv_close

theorem inv_pauseCheck_contv {s : State} {fatal more : Bool} {v f : Nat} (h : Inv s) (hw : s.w = .errSent fatal)
    (ht : s.t = .waitLoad) (hv : ¬ v = 0) :
    Inv (pauseCheck { s with t := .visiting v more, tfuel := f }) := by
  inv_destruct h
  simp only [pauseCheck]
  split <;> inv_close

theorem inv_xAfterErr {s s' : State} {o : SkipOut} (h : Inv s) (hs : step s (.xAfterErr o) = some s') : Inv s' := by
  simp only [step] at hs
  split at hs
  next fatal hw =>
    split at hs
    next ht =>
      have ht' : s.t = .waitLoad := by simpa using ht
      cases fatal
      · cases o
        · simp only [Bool.false_eq_true, if_false] at hs
          split at hs
          · cases hs
            simp only [afterVisit]
            split
            · exact inv_pauseCheck_cont0 h hw ht'
            · rename_i hv; exact inv_pauseCheck_contv h hw ht' hv
          · cases hs
        · simp only [Bool.false_eq_true, if_false] at hs
          cases hs
          exact inv_pauseCheck_done h hw ht'
      · simp only [if_true] at hs
        cases hs
        exact inv_pauseCheck_done h hw ht'
    · cases hs
  next => cases hs

/-- the sender side of a rendezvous on `inProgressErr` keeps the invariant; the channel is open. -/
theorem inv_errSender {s s1 : State} {e : Err} (h : Inv s) (hs : errSender s = some (e, s1)) :
    Inv s1 ∧ s1.cp = s.cp ∧ s1.ce = s.ce ∧ s1.callerCtx = s.callerCtx ∧ s.chanEClosed = false ∧
      s1.panicked = false := by
  inv_destruct h
  simp only [errSender] at hs
  split at hs
  next e' rw hm =>
    cases hs
    refine ⟨?_, rfl, rfl, rfl, ?_, ?_⟩
    · inv_close
    · grind
    · simp only [finishTerminate]; grind
  next hm =>
    split at hs
    next fatal hw =>
      cases hs
      refine ⟨?_, rfl, rfl, rfl, ?_, ?_⟩
      · inv_close
      · grind [execActive]
      · grind
    next e' hw =>
      cases hs
      refine ⟨?_, rfl, rfl, rfl, ?_, ?_⟩
      · simp only [sendRelease, pushMsg]; inv_close
      · grind [execActive]
      · simp only [sendRelease, pushMsg]; grind
    next => cases hs

theorem inv_ceRecv {s s' : State} (h : Inv s) (hs : step s .ceRecv = some s') : Inv s' := by
  simp only [step] at hs
  split at hs
  next buf e s1 hce hsnd =>
    cases hs
    obtain ⟨h1, hcp, hce1, hctx, hcl, hp⟩ := inv_errSender h hsnd
    have hce0 := h.n2e
    inv_destruct h1
    inv_close
  next => cases hs

theorem inv_cpDrainE {s s' : State} (h : Inv s) (hs : step s .cpDrainE = some s') : Inv s' := by
  simp only [step] at hs
  split at hs
  next sent pO e s1 hcp hsnd =>
    cases hs
    obtain ⟨h1, hcp1, hce1, hctx, hcl, hp⟩ := inv_errSender h hsnd
    have hz := h.zCtx
    have hn := h.n3c
    inv_destruct h1
    inv_close
  next => cases hs

end GS.ReqLife
