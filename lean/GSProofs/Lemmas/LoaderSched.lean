import GS.Model.Loader
import GSProofs.Lemmas.LoaderKahn
/-!
Order independence over whole interleavings (C02.kahn): a traversal client (a deterministic
function from the results so far to the next load) runs against a loader while response messages
arrive; any valid schedule of message deliveries and client steps ends in the same configuration
as "deliver all messages first, then let the client take its steps".
-/
namespace GS.Loader

/-! ### congruence of the loader operations for `Sim` -/

theorem push_setL (rq : RQ) (l : Option Item) (b : Bool) (it : Item) :
    RQ.push { rq with last := l, lastLinked := b } it = { RQ.push rq it with last := l, lastLinked := b } := by
  obtain ⟨q, l0, b0, tO⟩ := rq
  unfold RQ.push
  cases q with
  | nil => rfl
  | cons x xs =>
    simp only
    split <;> rfl

theorem queue_setL (items : List Item) (rq : RQ) (l : Option Item) (b : Bool) :
    RQ.queue { rq with last := l, lastLinked := b } items = { RQ.queue rq items with last := l, lastLinked := b } := by
  unfold RQ.queue
  induction items generalizing rq with
  | nil => rfl
  | cons it rest ih => simp only [List.foldl_cons]; rw [push_setL, ih]

theorem ingest_setL (s : State) (l : Option Item) (b : Bool) (pd : Option (Path × Cid))
    (md : List (Cid × Action)) (bl : List (Cid × Blk)) :
    ingest (setL s l b pd) md bl = setL (ingest s md bl) l b pd := by
  unfold ingest
  split
  · rfl
  · have : (setL s l b pd).isOpen = s.isOpen := rfl
    rw [this]
    split
    · rfl
    · simp only [setL]
      rw [queue_setL]

theorem load_sim (s t : State) (p : Path) (c : Cid) (h : Sim s t) :
    Sim (load s p c).1 (load t p c).1 ∧ (load t p c).2 = (load s p c).2 := by
  obtain ⟨l, b, pd, rfl⟩ := h
  unfold load
  dsimp only
  have hm : (setL s l b pd).mra = s.mra := rfl
  rw [hm]
  split
  · rename_i a _
    exact run_sim _ _ p c ⟨l, b, pd, rfl⟩
  · exact run_sim _ _ p c ⟨l, b, pd, rfl⟩

/-- the bookkeeping prologue of `BlockReadOpener` -/
def prologue (s : State) : State :=
  match s.mra with
  | some a => { s with record := s.record.record a.path a.link a.successful, mra := none }
  | none => s

theorem load_eq (s : State) (p : Path) (c : Cid) : load s p c = run (prologue s) p c := by
  unfold load prologue
  cases s.mra <;> rfl

theorem prologue_ingest (s : State) (md : List (Cid × Action)) (bl : List (Cid × Blk)) :
    prologue (ingest s md bl) = ingest (prologue s) md bl := by
  unfold prologue ingest
  split <;> split <;> (try split) <;> simp_all

theorem prologue_frame (s : State) :
    (prologue s).isOpen = s.isOpen ∧ (prologue s).rq = s.rq ∧ (prologue s).pending = s.pending := by
  unfold prologue; split <;> exact ⟨rfl, rfl, rfl⟩

/-! ### a closed loader never parks a load -/

theorem waitRemote_closed (f : Nat) (s : State) (h : s.isOpen = false) (hf : s.rq.q.length + 1 ≤ f) :
    (waitRemote f s).2 ≠ .blocked := by
  induction f generalizing s with
  | zero => omega
  | succ n ih =>
    obtain ⟨store, rec, mra, unf, op, ver, ⟨q, l0, b0, tO⟩, pend⟩ := s
    simp only at h
    subst h
    cases q with
    | nil => simp [waitRemote]
    | cons head tl =>
      simp only [List.length_cons] at hf
      simp only [waitRemote]
      split
      · simp
      · split
        · simp
        · apply ih
          · rw [recordRemoteAttempt_isOpen]
          · rw [recordRemoteAttempt_q]; simp [RQ.consume]; omega

theorem run_closed (s : State) (p : Path) (c : Cid) (h : s.isOpen = false) : (run s p c).2 ≠ .blocked := by
  rw [run_eq_post]
  have := waitRemote_closed (s.rq.q.length + 1) s h (Nat.le_refl _)
  generalize waitRemote (s.rq.q.length + 1) s = ws at this
  obtain ⟨s1, w⟩ := ws
  cases w with
  | blocked => exact absurd rfl this
  | err e => simp [post]
  | offline => simp [post]
  | remote =>
    simp only [post]
    generalize stillOnUnfollowed s1 p = su
    obtain ⟨s2, still⟩ := su
    dsimp only
    split
    · simp
    · split
      · simp
      · split
        · simp
        · split <;> simp


/-! ### clients, events, schedules -/

/-- a traversal client: from the results of its loads so far to its next load (or `none`: finished) -/
abbrev Client := List Result → Option (Path × Cid)

structure Cfg where
  L   : State
  res : List Result

inductive Evt where
  | msg (md : List (Cid × Action)) (bl : List (Cid × Blk))   -- IngestResponse (wakes a parked load)
  | tick                                                      -- the client issues its next load

/-- client step; only scheduled while no load is parked (`Valid`) -/
def tick (next : Client) (c : Cfg) : Cfg :=
  match next c.res with
  | none => c
  | some (p, cid) =>
    match load c.L p cid with
    | (l, .done r) => ⟨l, c.res ++ [r]⟩
    | (l, .blocked) => ⟨l, c.res⟩

def deliver (c : Cfg) (md : List (Cid × Action)) (bl : List (Cid × Blk)) : Cfg :=
  match wake (ingest c.L md bl) with
  | (l, some r) => ⟨l, c.res ++ [r]⟩
  | (l, none) => ⟨l, c.res⟩

def stepE (next : Client) (c : Cfg) : Evt → Cfg
  | .msg md bl => deliver c md bl
  | .tick => tick next c

def runE (next : Client) (c : Cfg) : List Evt → Cfg
  | [] => c
  | e :: rest => runE next (stepE next c e) rest

/-- the client thread is inside a load while one is parked: no tick then -/
def Valid (next : Client) (c : Cfg) : List Evt → Prop
  | [] => True
  | .tick :: rest => c.L.pending = none ∧ Valid next (tick next c) rest
  | .msg md bl :: rest => Valid next (deliver c md bl) rest

/-- same configuration up to the retry bookkeeping of the queue -/
def Eqv (a b : Cfg) : Prop := Sim a.L b.L ∧ b.L.pending = a.L.pending ∧ b.res = a.res

theorem Eqv.refl (a : Cfg) : Eqv a a := ⟨Sim.refl _, rfl, rfl⟩
theorem Eqv.symm {a b : Cfg} (h : Eqv a b) : Eqv b a := ⟨h.1.symm, h.2.1.symm, h.2.2.symm⟩
theorem Eqv.trans {a b c : Cfg} (h1 : Eqv a b) (h2 : Eqv b c) : Eqv a c :=
  ⟨h1.1.trans h2.1, h2.2.1.trans h1.2.1, h2.2.2.trans h1.2.2⟩

/-- pending marker after a load, as a function of its outcome -/
theorem load_pending_eq (s : State) (p : Path) (c : Cid) :
    (load s p c).1.pending = match (load s p c).2 with
      | .blocked => some (p, c)
      | .done _ => none := by
  have := load_pending s p c
  generalize load s p c = ld at this
  obtain ⟨l, out⟩ := ld
  cases out with
  | blocked => exact this.1 rfl
  | done r => exact (this.2 r rfl).1

theorem run_pending_eq (s : State) (p : Path) (c : Cid) :
    (run s p c).1.pending = match (run s p c).2 with
      | .blocked => some (p, c)
      | .done _ => none := by
  have := run_pending s p c
  generalize run s p c = ld at this
  obtain ⟨l, out⟩ := ld
  cases out with
  | blocked => exact this.1 rfl
  | done r => exact (this.2 r rfl).1

theorem tick_eqv (next : Client) (a b : Cfg) (h : Eqv a b) : Eqv (tick next a) (tick next b) := by
  obtain ⟨hs, hp, hr⟩ := h
  unfold tick
  rw [hr]
  cases hn : next a.res with
  | none => exact ⟨hs, hp, hr⟩
  | some pc =>
    obtain ⟨p, cid⟩ := pc
    dsimp only
    have hl := load_sim a.L b.L p cid hs
    have hpa := load_pending_eq a.L p cid
    have hpb := load_pending_eq b.L p cid
    generalize load a.L p cid = la at hl hpa
    generalize load b.L p cid = lb at hl hpb
    obtain ⟨l1, o1⟩ := la
    obtain ⟨l2, o2⟩ := lb
    simp only at hl hpa hpb
    obtain ⟨hs', ho⟩ := hl
    subst ho
    cases o2 with
    | blocked => exact ⟨hs', by rw [hpa, hpb], rfl⟩
    | done r => exact ⟨hs', by rw [hpa, hpb], rfl⟩

theorem wake_eqv (s t : State) (h : Sim s t) (hp : t.pending = s.pending) :
    Sim (wake s).1 (wake t).1 ∧ (wake t).1.pending = (wake s).1.pending ∧ (wake t).2 = (wake s).2 := by
  cases hpd : s.pending with
  | none =>
    rw [wake_none s hpd, wake_none t (by rw [hp, hpd])]
    exact ⟨h, hp, rfl⟩
  | some pc =>
    obtain ⟨p, c⟩ := pc
    have hws := wake_some s p c hpd
    have hwt := wake_some t p c (by rw [hp, hpd])
    have hr := run_sim s t p c h
    have hpa := run_pending_eq s p c
    have hpb := run_pending_eq t p c
    cases hrs : run s p c with
    | mk l1 o1 =>
      cases hrt : run t p c with
      | mk l2 o2 =>
        rw [hrs, hrt] at hr
        rw [hrs] at hpa
        rw [hrt] at hpb
        simp only at hr hpa hpb
        obtain ⟨hs', ho⟩ := hr
        subst ho
        cases o2 with
        | blocked =>
          rw [hws.2 l1 hrs, hwt.2 l2 hrt]
          exact ⟨hs', by rw [hpa, hpb], rfl⟩
        | done r =>
          rw [hws.1 r l1 hrs, hwt.1 r l2 hrt]
          exact ⟨hs', by rw [hpa, hpb], rfl⟩

theorem ingest_sim (s t : State) (h : Sim s t) (md : List (Cid × Action)) (bl : List (Cid × Blk)) :
    Sim (ingest s md bl) (ingest t md bl) := by
  obtain ⟨l, b, pd, rfl⟩ := h
  rw [ingest_setL]
  exact ⟨l, b, pd, rfl⟩

theorem deliver_eqv (a b : Cfg) (h : Eqv a b) (md : List (Cid × Action)) (bl : List (Cid × Blk)) :
    Eqv (deliver a md bl) (deliver b md bl) := by
  obtain ⟨hs, hp, hr⟩ := h
  have hi := ingest_sim a.L b.L hs md bl
  have hpi : (ingest b.L md bl).pending = (ingest a.L md bl).pending := by
    rw [(ingest_frame b.L md bl).1, (ingest_frame a.L md bl).1, hp]
  have hw := wake_eqv _ _ hi hpi
  unfold deliver
  generalize wake (ingest a.L md bl) = wa at hw
  generalize wake (ingest b.L md bl) = wb at hw
  obtain ⟨l1, r1⟩ := wa
  obtain ⟨l2, r2⟩ := wb
  simp only at hw
  obtain ⟨hs', hp', hrr⟩ := hw
  subst hrr
  cases r2 with
  | none => exact ⟨hs', hp', hr⟩
  | some r => exact ⟨hs', hp', by simp [hr]⟩

theorem stepE_eqv (next : Client) (a b : Cfg) (h : Eqv a b) (e : Evt) :
    Eqv (stepE next a e) (stepE next b e) := by
  cases e with
  | msg md bl => exact deliver_eqv a b h md bl
  | tick => exact tick_eqv next a b h

theorem runE_eqv (next : Client) (evs : List Evt) (a b : Cfg) (h : Eqv a b) :
    Eqv (runE next a evs) (runE next b evs) := by
  induction evs generalizing a b with
  | nil => exact h
  | cons e rest ih => exact ih _ _ (stepE_eqv next a b h e)

theorem valid_eqv (next : Client) (evs : List Evt) (a b : Cfg) (h : Eqv a b) (hv : Valid next a evs) :
    Valid next b evs := by
  induction evs generalizing a b with
  | nil => trivial
  | cons e rest ih =>
    cases e with
    | msg md bl => exact ih _ _ (deliver_eqv a b h md bl) hv
    | tick => exact ⟨by rw [h.2.1]; exact hv.1, ih _ _ (tick_eqv next a b h) hv.2⟩


/-! ### the two local diamonds in terms of `ingest` -/

theorem run_ingest_done (s : State) (hopen : s.isOpen = true) (htail : s.rq.tailOn = true)
    (md : List (Cid × Action)) (bl : List (Cid × Blk)) (p : Path) (c : Cid) (r : Result)
    (hr : (run s p c).2 = .done r) :
    Sim (ingest (run s p c).1 md bl) (run (ingest s md bl) p c).1 ∧
    (run (ingest s md bl) p c).2 = .done r := by
  have hto := run_tail_open s p c
  rw [ingest_eq_addQ s md bl hopen htail,
      ingest_eq_addQ (run s p c).1 md bl (by rw [hto.2]; exact hopen) (by rw [hto.1]; exact htail)]
  exact (run_addQ s hopen _ p c).1 r hr

theorem run_ingest_parked (s : State) (hopen : s.isOpen = true) (htail : s.rq.tailOn = true)
    (md : List (Cid × Action)) (bl : List (Cid × Blk)) (p : Path) (c : Cid)
    (hb : (run s p c).2 = .blocked) :
    Sim (run (ingest (run s p c).1 md bl) p c).1 (run (ingest s md bl) p c).1 ∧
    (run (ingest s md bl) p c).2 = (run (ingest (run s p c).1 md bl) p c).2 := by
  have hto := run_tail_open s p c
  rw [ingest_eq_addQ s md bl hopen htail,
      ingest_eq_addQ (run s p c).1 md bl (by rw [hto.2]; exact hopen) (by rw [hto.1]; exact htail)]
  exact (run_addQ s hopen _ p c).2 hb

theorem ingest_closed (s : State) (md : List (Cid × Action)) (bl : List (Cid × Blk)) (h : s.isOpen = false) :
    ingest s md bl = s := by
  unfold ingest; split
  · rfl
  · simp [h]

/-! ### invariant: the queue tail is intact (no `RetryLastLoad` in these schedules) -/

def Good (c : Cfg) : Prop := c.L.rq.tailOn = true

theorem ingest_tail (s : State) (md : List (Cid × Action)) (bl : List (Cid × Blk)) (h : s.rq.tailOn = true) :
    (ingest s md bl).rq.tailOn = true := by
  unfold ingest
  split
  · exact h
  · split
    · exact h
    · simp only; rw [queue_tailOn _ _ h]; exact h

theorem load_tail (s : State) (p : Path) (c : Cid) (h : s.rq.tailOn = true) :
    (load s p c).1.rq.tailOn = true := by
  rw [load_eq, (run_tail_open _ p c).1, (prologue_frame s).2.1]; exact h

theorem wake_tail (s : State) (h : s.rq.tailOn = true) : (wake s).1.rq.tailOn = true := by
  cases hpd : s.pending with
  | none => rw [wake_none s hpd]; exact h
  | some pc =>
    obtain ⟨p, c⟩ := pc
    have hws := wake_some s p c hpd
    have ht := (run_tail_open s p c).1
    cases hrs : run s p c with
    | mk l1 o1 =>
      rw [hrs] at ht
      cases o1 with
      | blocked => rw [hws.2 l1 hrs]; exact ht.trans h
      | done r => rw [hws.1 r l1 hrs]; exact ht.trans h

theorem tick_good (next : Client) (c : Cfg) (h : Good c) : Good (tick next c) := by
  unfold tick Good
  cases hn : next c.res with
  | none => exact h
  | some pc =>
    obtain ⟨p, cid⟩ := pc
    dsimp only
    have := load_tail c.L p cid h
    generalize load c.L p cid = ld at this
    obtain ⟨l, o⟩ := ld
    cases o <;> exact this

theorem deliver_good (c : Cfg) (md : List (Cid × Action)) (bl : List (Cid × Blk)) (h : Good c) :
    Good (deliver c md bl) := by
  unfold deliver Good
  have := wake_tail _ (ingest_tail c.L md bl h)
  generalize wake (ingest c.L md bl) = w at this
  obtain ⟨l, r⟩ := w
  cases r <;> exact this

theorem stepE_good (next : Client) (c : Cfg) (e : Evt) (h : Good c) : Good (stepE next c e) := by
  cases e with
  | msg md bl => exact deliver_good c md bl h
  | tick => exact tick_good next c h

/-! ### the diamond: a client step that can be taken commutes with the delivery of a message -/

theorem deliver_idle (c : Cfg) (md : List (Cid × Action)) (bl : List (Cid × Blk)) (hp : c.L.pending = none) :
    deliver c md bl = ⟨ingest c.L md bl, c.res⟩ := by
  unfold deliver
  rw [wake_none _ (by rw [(ingest_frame c.L md bl).1]; exact hp)]

theorem diamond (next : Client) (c : Cfg) (hg : Good c) (hp : c.L.pending = none)
    (md : List (Cid × Action)) (bl : List (Cid × Blk)) :
    Eqv (deliver (tick next c) md bl) (tick next (deliver c md bl)) := by
  rw [deliver_idle c md bl hp]
  unfold tick
  dsimp only
  cases hn : next c.res with
  | none =>
    dsimp only
    rw [deliver_idle c md bl hp]
    exact Eqv.refl _
  | some pc =>
    obtain ⟨p, cid⟩ := pc
    dsimp only
    rw [load_eq, load_eq, prologue_ingest]
    have hpf := prologue_frame c.L
    have htail : (prologue c.L).rq.tailOn = true := by rw [hpf.2.1]; exact hg
    generalize prologue c.L = s at htail
    cases hopen : s.isOpen with
    | false =>
      rw [ingest_closed s md bl hopen]
      have hnb := run_closed s p cid hopen
      have hpe := run_pending_eq s p cid
      have hio := (run_tail_open s p cid).2
      generalize run s p cid = rr at hnb hpe hio
      obtain ⟨l1, o⟩ := rr
      cases o with
      | blocked => exact absurd rfl hnb
      | done r =>
        simp only at hpe hio
        dsimp only
        rw [deliver_idle ⟨l1, c.res ++ [r]⟩ md bl hpe, ingest_closed l1 md bl (by rw [hio]; exact hopen)]
        exact Eqv.refl _
    | true =>
      have hpe := run_pending_eq s p cid
      have hpe2 := run_pending_eq (ingest s md bl) p cid
      cases hrs : run s p cid with
      | mk l1 o =>
        rw [hrs] at hpe
        simp only at hpe
        cases o with
        | done r =>
          have hk := run_ingest_done s hopen htail md bl p cid r (by rw [hrs])
          rw [hrs] at hk
          dsimp only
          rw [deliver_idle ⟨l1, c.res ++ [r]⟩ md bl hpe]
          obtain ⟨hsim, hout⟩ := hk
          generalize run (ingest s md bl) p cid = rb at hsim hout hpe2
          obtain ⟨l2, o2⟩ := rb
          simp only at hsim hout hpe2
          subst hout
          dsimp only
          refine ⟨hsim, ?_, rfl⟩
          simp only [hpe2]
          rw [(ingest_frame l1 md bl).1, hpe]
        | blocked =>
          have hk := run_ingest_parked s hopen htail md bl p cid (by rw [hrs])
          rw [hrs] at hk
          dsimp only
          -- the parked load is woken by the delivery
          have hpi : (ingest l1 md bl).pending = some (p, cid) := by rw [(ingest_frame l1 md bl).1]; exact hpe
          have hws := wake_some (ingest l1 md bl) p cid hpi
          have hpe3 := run_pending_eq (ingest l1 md bl) p cid
          obtain ⟨hsim, hout⟩ := hk
          unfold deliver
          dsimp only
          cases hra : run (ingest l1 md bl) p cid with
          | mk la oa =>
            rw [hra] at hsim hout hpe3
            simp only at hsim hout hpe3
            generalize run (ingest s md bl) p cid = rb at hsim hout hpe2
            obtain ⟨l2, o2⟩ := rb
            simp only at hsim hout hpe2
            subst hout
            cases o2 with
            | blocked =>
              rw [hws.2 la hra]
              exact ⟨hsim, by simp only [hpe2, hpe3], rfl⟩
            | done r =>
              rw [hws.1 r la hra]
              exact ⟨hsim, by simp only [hpe2, hpe3], rfl⟩


/-! ### whole interleavings -/

def msgsOf : List Evt → List Evt
  | [] => []
  | .msg md bl :: rest => .msg md bl :: msgsOf rest
  | .tick :: rest => msgsOf rest

def ticksOf : List Evt → Nat
  | [] => 0
  | .tick :: rest => ticksOf rest + 1
  | .msg _ _ :: rest => ticksOf rest

def isMsgs : List Evt → Prop
  | [] => True
  | .msg _ _ :: rest => isMsgs rest
  | .tick :: _ => False

theorem isMsgs_msgsOf (evs : List Evt) : isMsgs (msgsOf evs) := by
  induction evs with
  | nil => trivial
  | cons e rest ih => cases e <;> simpa [msgsOf, isMsgs] using ih

theorem runE_append (next : Client) (c : Cfg) (a b : List Evt) :
    runE next c (a ++ b) = runE next (runE next c a) b := by
  induction a generalizing c with
  | nil => rfl
  | cons e rest ih => simp [runE, ih]

theorem valid_append (next : Client) (c : Cfg) (a b : List Evt) :
    Valid next c (a ++ b) ↔ Valid next c a ∧ Valid next (runE next c a) b := by
  induction a generalizing c with
  | nil => simp [Valid, runE]
  | cons e rest ih =>
    cases e with
    | msg md bl => simp [Valid, runE, stepE, ih]
    | tick => simp [Valid, runE, stepE, ih, and_assoc]

/-- one client step that can be taken now can just as well be taken after any further deliveries -/
theorem tick_through_msgs (next : Client) (ms : List Evt) (hm : isMsgs ms) (c : Cfg) (hg : Good c)
    (hp : c.L.pending = none) :
    Eqv (runE next c (.tick :: ms)) (runE next c (ms ++ [.tick])) ∧
    (runE next c ms).L.pending = none := by
  induction ms generalizing c with
  | nil => exact ⟨Eqv.refl _, hp⟩
  | cons e rest ih =>
    cases e with
    | tick => exact absurd hm (by simp [isMsgs])
    | msg md bl =>
      have hd := diamond next c hg hp md bl
      have hp' : (deliver c md bl).L.pending = none := by
        rw [deliver_idle c md bl hp]; simp only; rw [(ingest_frame c.L md bl).1]; exact hp
      have hih := ih (by simpa [isMsgs] using hm) (deliver c md bl) (deliver_good c md bl hg) hp'
      refine ⟨?_, hih.2⟩
      -- tick; msg; rest  ~  msg; tick; rest  ~  msg; rest; tick
      have h1 : Eqv (runE next c (.tick :: .msg md bl :: rest)) (runE next c (.msg md bl :: .tick :: rest)) := by
        simp only [runE, stepE]
        exact runE_eqv next rest _ _ hd
      have h2 : Eqv (runE next c (.msg md bl :: .tick :: rest)) (runE next c (.msg md bl :: (rest ++ [.tick]))) := by
        simp only [runE, stepE] at hih ⊢
        exact hih.1
      exact Eqv.trans h1 h2

theorem runE_ticks_succ (next : Client) (c : Cfg) (k : Nat) :
    runE next c (List.replicate (k + 1) .tick) = runE next c (List.replicate k .tick ++ [.tick]) := by
  rw [← List.replicate_succ']

/-- **C02.kahn over whole interleavings.**  Any valid schedule (the client only steps while no load
    is parked) of message deliveries and client steps ends — up to the retry bookkeeping — in the
    same configuration (loader state and list of load results) as delivering all its messages first,
    in the same order, and letting the client take the same number of steps afterwards.  Hence the
    results depend only on the sequence of remote messages. -/
theorem kahn_schedule (next : Client) (evs : List Evt) (c : Cfg) (hg : Good c) (hv : Valid next c evs) :
    Eqv (runE next c evs) (runE next c (msgsOf evs ++ List.replicate (ticksOf evs) .tick)) := by
  induction evs generalizing c with
  | nil => exact Eqv.refl _
  | cons e rest ih =>
    cases e with
    | msg md bl =>
      simp only [msgsOf, ticksOf, List.cons_append, runE, stepE]
      exact ih (deliver c md bl) (deliver_good c md bl hg) hv
    | tick =>
      obtain ⟨hp, hv'⟩ := hv
      have hih := ih (tick next c) (tick_good next c hg) hv'
      simp only [msgsOf, ticksOf]
      -- tick; rest ~ tick; msgs; ticks^k ~ msgs; tick; ticks^k = msgs; ticks^(k+1)
      have h1 : Eqv (runE next c (.tick :: rest))
          (runE next c (.tick :: (msgsOf rest ++ List.replicate (ticksOf rest) .tick))) := by
        simp only [runE, stepE]; exact hih
      have h2 := tick_through_msgs next (msgsOf rest) (isMsgs_msgsOf rest) c hg hp
      have h3 : Eqv (runE next c (.tick :: (msgsOf rest ++ List.replicate (ticksOf rest) .tick)))
          (runE next c ((msgsOf rest ++ [.tick]) ++ List.replicate (ticksOf rest) .tick)) := by
        have : (Evt.tick :: (msgsOf rest ++ List.replicate (ticksOf rest) .tick)) =
            (Evt.tick :: msgsOf rest) ++ List.replicate (ticksOf rest) .tick := rfl
        rw [this, runE_append, runE_append]
        exact runE_eqv next _ _ _ h2.1
      have h4 : (msgsOf rest ++ [Evt.tick]) ++ List.replicate (ticksOf rest) Evt.tick =
          msgsOf rest ++ List.replicate (ticksOf rest + 1) Evt.tick := by
        rw [List.append_assoc]
        congr 1
      rw [h4] at h3
      exact Eqv.trans h1 h3

end GS.Loader
