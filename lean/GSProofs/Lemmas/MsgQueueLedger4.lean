import GSProofs.Lemmas.MsgQueueLedger3
/-!
# Message queue ledger: `wake`, `ack`, other peers, and every schedule
-/
namespace GS.MQ
open GS.Alloc

theorem unanswered_cons (x : Waiter) (l : List Waiter) :
    unanswered (x :: l) = if x.answer == none then (x.ticket, x.size) :: unanswered l else unanswered l := by
  unfold unanswered; rw [List.filter_cons]; split <;> simp

/-- removing an answered waiter -/
theorem remove_answered : ∀ (ws : List Waiter) (w : Waiter), (ws.map (·.ticket)).Nodup → w ∈ ws →
    w.answer ≠ none →
    unanswered (ws.filter (·.ticket != w.ticket)) = unanswered ws ∧
    grantedBytes (ws.filter (·.ticket != w.ticket)) + (if w.answer = some true then w.size else 0) = grantedBytes ws ∧
    (∀ x ∈ ws.filter (·.ticket != w.ticket), x ∈ ws)
  | [], _, _, h, _ => by cases h
  | x :: r, w, hn, hm, ha => by
    simp only [List.map_cons, List.nodup_cons] at hn
    rcases List.mem_cons.mp hm with rfl | hm'
    · -- w is the head; nobody else has its ticket
      have habs : r.filter (·.ticket != w.ticket) = r := by
        apply List.filter_eq_self.mpr
        intro y hy
        have : y.ticket ≠ w.ticket := by
          intro he; apply hn.1; rw [← he]; exact List.mem_map.mpr ⟨y, hy, rfl⟩
        simp [this]
      have hf : (w :: r).filter (·.ticket != w.ticket) = r := by
        simp [List.filter_cons, habs]
      rw [hf]
      refine ⟨?_, ?_, fun y hy => List.mem_cons_of_mem _ hy⟩
      · cases hw : w.answer with
        | none => exact absurd hw ha
        | some b => simp [unanswered, List.filter_cons, hw]
      · cases hw : w.answer with
        | none => exact absurd hw ha
        | some b =>
          cases b with
          | true => simp [grantedBytes, List.filter_cons, hw, sumNat_cons]; omega
          | false => simp [grantedBytes, List.filter_cons, hw]
    · have hne : x.ticket ≠ w.ticket := by
        intro he; apply hn.1; rw [he]; exact List.mem_map.mpr ⟨w, hm', rfl⟩
      obtain ⟨i1, i2, i3⟩ := remove_answered r w hn.2 hm' ha
      have hf : (x :: r).filter (·.ticket != w.ticket) = x :: r.filter (·.ticket != w.ticket) := by
        simp [List.filter_cons, hne]
      rw [hf]
      refine ⟨?_, ?_, ?_⟩
      · rw [unanswered_cons, unanswered_cons, i1]
      · rw [grantedBytes_cons, grantedBytes_cons]; omega
      · intro y hy
        rcases List.mem_cons.mp hy with rfl | hy
        · simp
        · exact List.mem_cons_of_mem _ (i3 y hy)

section ops
variable {pick : Pick} (hp : Admissible pick)
include hp

/-- a waiting caller continues -/
theorem wake_linv {s : State} (h : LInv s) (t : Nat) : LInv (s.wake pick t) ∧ (s.wake pick t).pc = s.pc := by
  unfold State.wake
  cases hf : s.waiters.find? (fun w => w.ticket == t && w.answer.isSome) with
  | none => exact ⟨h, rfl⟩
  | some w =>
    simp only
    have hwm : w ∈ s.waiters := List.mem_of_find?_eq_some hf
    have hwa : w.answer ≠ none := by
      have := List.find?_some hf
      simp only [Bool.and_eq_true] at this
      intro hn; rw [hn] at this; simp at this
    obtain ⟨r1, r2, r3⟩ := remove_answered s.waiters w h.led.1.nodupW hwm hwa
    have c1 : Coupled ({ s with waiters := s.waiters.filter (·.ticket != w.ticket) } : State) := by
      refine ⟨h.led.1.ainv, ?_, ?_, ?_, ?_⟩
      · show pendTA s.alloc s.peer = unanswered (s.waiters.filter _)
        rw [r1]; exact h.led.1.pend
      · exact (List.filter_sublist.map _).nodup h.led.1.nodupW
      · intro x hx; exact h.led.1.fresh x (r3 x hx)
      · intro x hx; exact h.led.1.wsize x (r3 x hx)
    cases hw : w.answer with
    | none => exact absurd hw hwa
    | some b =>
      cases b with
      | true =>
        rw [hw] at r2
        simp only [if_true] at r2
        simp only [beq_self_eq_true, if_true]
        apply buildMsg_linv hp
        · refine ⟨c1, ?_⟩
          show tot s.alloc s.peer = hb s.builders + heldInFlight s + w.size + grantedBytes (s.waiters.filter _)
          have := h.led.2
          omega
        · exact h.binv
        · obtain ⟨q1, q2⟩ := h.led.1.wsize w hwm
          exact ⟨fun _ => q2, fun hw => by rw [q1] at hw; cases hw⟩
      | false =>
        rw [hw] at r2
        have hne : ((some false : Option Bool) == some true) = false := rfl
        simp only [hne, Bool.false_eq_true, if_false]
        have hne' : ((some false : Option Bool) = some true) = False := by simp
        simp only [hne', if_false, Nat.add_zero] at r2
        refine ⟨?_, rfl⟩
        have l0 : Led ({ s with waiters := s.waiters.filter (·.ticket != w.ticket) } : State) (hb s.builders + heldInFlight s) := by
          refine ⟨c1, ?_⟩
          show tot s.alloc s.peer = hb s.builders + heldInFlight s + grantedBytes (s.waiters.filter _)
          have := h.led.2
          omega
        exact ⟨l0.frame (emit_frame _ _), h.binv⟩

/-- another peer uses the allocator -/
theorem env_linv {s : State} (h : LInv s) (op : Alloc.Op) (hq : opPeer op ≠ s.peer) :
    LInv (s.allocStep pick op).1 ∧ (s.allocStep pick op).1.pc = s.pc := by
  have hview : grantsOf s.peer (Alloc.step pick s.alloc op).2 ++ pendTA (Alloc.step pick s.alloc op).1 s.peer
        = pendTA s.alloc s.peer ∧ failsOf s.peer (Alloc.step pick s.alloc op).2 = [] ∧
        releasedSum s.peer (Alloc.step pick s.alloc op).2 = 0 := by
    cases op with
    | alloc q n t =>
      have hq' : q ≠ s.peer := hq
      obtain ⟨a1, a2, a3⟩ := alloc_other (pick := pick) h.led.1.ainv hq' n t
      refine ⟨by rw [a1, a3]; rfl, a2, ?_⟩
      have := (view hp h.led.1.ainv (.alloc q n t) s.peer).ledger
      -- an allocation releases nothing
      show releasedSum s.peer (alloc s.alloc q n t).2 = 0
      have hs := alloc_spec h.led.1.ainv.wf q n t
      by_cases hc : pendingIn s.alloc.peers q = [] ∧ s.alloc.total + n ≤ s.alloc.maxTotal ∧ totalIn s.alloc.peers q + n ≤ s.alloc.maxPeer
      · rw [(hs.1 hc).1]; rfl
      · rw [(hs.2 hc).1]; rfl
    | release q n =>
      obtain ⟨a1, a2, a3⟩ := release_view hp h.led.1.ainv s.peer q n
      have : q ≠ s.peer := hq
      exact ⟨a1, a2, by rw [a3]; simp [this]⟩
    | releasePeer q =>
      exact releasePeer_other hp h.led.1.ainv hq
  obtain ⟨c1, c2⟩ := allocStep_coupled hp h.led.1 op ⟨hview.1, hview.2.1⟩
  rw [hview.2.2, Nat.add_zero] at c2
  refine ⟨⟨⟨c1, ?_⟩, h.binv⟩, rfl⟩
  show tot (s.allocStep pick op).1.alloc s.peer = hb s.builders + heldInFlight s + grantedBytes (s.allocStep pick op).1.waiters
  have := h.led.2
  omega

/-- the blocked call returns -/
theorem ack_linv {s : State} (h : LInv s) (hcn : s.closed = true → s.builders = [])
    (hclean : s.pc = .exiting → heldGranted s = 0) (ok : Bool) : LInv (s.ack pick ok) := by
  obtain ⟨peer, maxRetries, builders, nextTopic, token, done, sender, pc, closedStreams, waiters,
    nextTicket, topics, pubClosed, alloc, log⟩ := s
  have hbi : ∀ b ∈ builders, BInv b := h.binv
  cases pc with
  | idle => exact h
  | exited => exact h
  | exiting =>
    have hb0 : builders = [] := hcn rfl
    subst hb0
    obtain ⟨c1, c2, c3⟩ := releasePeer_coupled hp h.led.1 (hclean rfl)
    unfold State.ack
    simp only
    generalize hs1 : (State.allocStep pick (⟨peer, maxRetries, [], nextTopic, token, done, sender, .exiting, closedStreams, waiters,
        nextTicket, topics, pubClosed, alloc, log⟩ : State) (.releasePeer peer)).1 = s1 at c1 c2 c3
    have hb1 : s1.builders = [] := by subst hs1; rfl
    have hp1 : s1.peer = peer := by subst hs1; rfl
    have l1 : Led s1 0 := ⟨c1, by rw [hp1, c3]; exact c2⟩
    have l2 := l1.frame (emit_frame s1 [Event.exitCallback])
    refine ⟨?_, ?_⟩
    · show Led _ (hb s1.builders + 0)
      rw [hb1]
      exact ⟨⟨l2.1.ainv, l2.1.pend, l2.1.nodupW, l2.1.fresh, l2.1.wsize⟩, l2.2⟩
    · show ∀ b ∈ s1.builders, BInv b
      rw [hb1]; intro b hb'; cases hb'
  | opening m r =>
    have hl : Led (⟨peer, maxRetries, builders, nextTopic, token, done, sender, .opening m r, closedStreams, waiters,
        nextTicket, topics, pubClosed, alloc, log⟩ : State) (hb builders + m.size) := h.led
    cases r with
    | none =>
      unfold State.ack
      simp only
      split
      · exact (attempt_linv hp 0 (s := ⟨peer, maxRetries, builders, nextTopic, token, done, true, .opening m none,
          closedStreams, waiters, nextTicket, topics, pubClosed, alloc, log⟩)
          ⟨⟨hl.1.ainv, hl.1.pend, hl.1.nodupW, hl.1.fresh, hl.1.wsize⟩, hl.2⟩ hbi)
      · obtain ⟨l, b, _⟩ := publishError_led hp hl hbi
        generalize State.publishError pick _ m = s1 at l b
        obtain ⟨f1, f2, f3⟩ := finish_spec ({ s1 with done := true }) m
        refine ⟨?_, by rw [f2]; exact b⟩
        rw [f2, heldInFlight_idle f1, Nat.add_zero]
        exact f3 _ ⟨⟨l.1.ainv, l.1.pend, l.1.nodupW, l.1.fresh, l.1.wsize⟩, l.2⟩
    | some i =>
      unfold State.ack
      simp only
      split
      · exact (attempt_linv hp (i + 1) (s := ⟨peer, maxRetries, builders, nextTopic, token, done, true, .opening m (some i),
          closedStreams, waiters, nextTicket, topics, pubClosed, alloc, log⟩)
          ⟨⟨hl.1.ainv, hl.1.pend, hl.1.nodupW, hl.1.fresh, hl.1.wsize⟩, hl.2⟩ hbi)
      · exact (error_finish_linv hp hl hbi)
  | sending m i =>
    have hl : Led (⟨peer, maxRetries, builders, nextTopic, token, done, sender, .sending m i, closedStreams, waiters,
        nextTicket, topics, pubClosed, alloc, log⟩ : State) (hb builders + m.size) := h.led
    unfold State.ack
    simp only
    split
    · obtain ⟨l, q⟩ := publishSent_led hp hl
      generalize State.publishSent pick _ m = s1 at l q
      obtain ⟨f1, f2, f3⟩ := finish_spec s1 m
      refine ⟨?_, by rw [f2, q.builders]; exact hbi⟩
      rw [f2, heldInFlight_idle f1, Nat.add_zero, q.builders]
      exact f3 _ l
    · exact ⟨⟨⟨hl.1.ainv, hl.1.pend, hl.1.nodupW, hl.1.fresh, hl.1.wsize⟩, hl.2⟩, hbi⟩
  | resetting m i =>
    have hl : Led (⟨peer, maxRetries, builders, nextTopic, token, done, sender, .resetting m i, closedStreams, waiters,
        nextTicket, topics, pubClosed, alloc, log⟩ : State) (hb builders + m.size) := h.led
    unfold State.ack
    simp only
    split
    · exact (error_finish_linv hp hl hbi)
    · exact ⟨⟨⟨hl.1.ainv, hl.1.pend, hl.1.nodupW, hl.1.fresh, hl.1.wsize⟩, hl.2⟩, hbi⟩

end ops

/-! ## a closed queue has no queued builder -/

/-- `mq.closed → len(mq.builders) == 0` -/
def CN (s : State) : Prop := s.closed = true → s.builders = []

theorem attempt_pc (pick : Pick) (s : State) (m : InFlight) (i : Nat) :
    (s.attempt pick m i).pc = .sending m i ∨ (s.attempt pick m i).pc = .idle := by
  unfold State.attempt
  split
  · exact Or.inl rfl
  · exact Or.inr rfl

theorem attempt_open (pick : Pick) (s : State) (m : InFlight) (i : Nat) : (s.attempt pick m i).closed = false := by
  unfold State.closed
  rcases attempt_pc pick s m i with h | h <;> rw [h] <;> rfl

theorem buildWith_cn (pick : Pick) {s : State} (h : CN s) (tx : Tx) (size : Nat) : CN (buildWith pick s tx size) := by
  intro hc
  have hpc : (buildWith pick s tx size).pc = s.pc := by
    unfold buildWith
    simp only
    split
    · exact buildMsg_pc _ _ _ _ _
    · split
      · rw [buildMsg_pc]; rfl
      · rfl
  have hc0 : s.closed = true := by rw [← closed_pc hpc]; exact hc
  have hb0 := h hc0
  unfold buildWith
  simp only
  split
  · exact buildMsg_closed_nil _ _ _ _ _ hc0 hb0
  · split
    · exact buildMsg_closed_nil _ _ _ _ _ hc0 hb0
    · exact hb0

theorem step_cn (pick : Pick) {s : State} (h : CN s) (a : Act) : CN (step pick s a) := by
  cases a with
  | build tx =>
    show CN (s.build pick tx)
    rw [build_eq]; split
    · exact h
    · exact buildWith_cn pick h tx _
  | wake t =>
    show CN (s.wake pick t)
    unfold State.wake
    split
    · exact h
    · simp only
      split
      · intro hc
        have hc0 : s.closed = true := by
          rw [closed_pc (buildMsg_pc _ _ _ _ _)] at hc; exact hc
        exact buildMsg_closed_nil _ _ _ _ _ hc0 (h hc0)
      · exact h
  | run pw =>
    show CN (s.run pick pw)
    obtain ⟨peer, maxRetries, builders, nextTopic, token, done, sender, pc, closedStreams, waiters,
      nextTicket, topics, pubClosed, alloc, log⟩ := s
    cases pc with
    | idle =>
      unfold State.run
      simp only
      split
      · cases he : (⟨peer, maxRetries, builders, nextTopic, false, done, sender, .idle, closedStreams, waiters,
            nextTicket, topics, pubClosed, alloc, log⟩ : State).extract with
        | mk s' om =>
          cases om with
          | none =>
            obtain ⟨_, _, _, a4, _⟩ := (extract_shape _).1 s' he
            intro hc
            have : s'.closed = false := by unfold State.closed; rw [a4]; rfl
            rw [this] at hc; cases hc
          | some m =>
            simp only
            split
            · intro hc; rw [attempt_open] at hc; cases hc
            · intro hc; cases hc
      · split
        · intro _
          have := drain_builders_nil pick builders.length (⟨peer, maxRetries, builders, nextTopic, token, done, sender, .idle,
            closedStreams, waiters, nextTicket, topics, pubClosed, alloc, log⟩ : State) (Nat.le_refl _)
          generalize State.drain pick builders.length _ = s1 at this
          show (if s1.sender = true then s1.emit [Event.senderClosed] else s1).builders = []
          split
          · exact this
          · exact this
        · exact h
    | opening m r => exact h
    | sending m i => exact h
    | resetting m i => exact h
    | exiting => exact h
    | exited => exact h
  | ack ok =>
    show CN (s.ack pick ok)
    obtain ⟨peer, maxRetries, builders, nextTopic, token, done, sender, pc, closedStreams, waiters,
      nextTicket, topics, pubClosed, alloc, log⟩ := s
    cases pc with
    | idle => exact h
    | exited => exact h
    | exiting => intro _; exact h rfl
    | opening m r =>
      cases r with
      | none =>
        unfold State.ack; simp only
        split
        · intro hc; rw [attempt_open] at hc; cases hc
        · intro hc; cases hc
      | some i =>
        unfold State.ack; simp only
        split
        · intro hc; rw [attempt_open] at hc; cases hc
        · intro hc; cases hc
    | sending m i =>
      unfold State.ack; simp only
      split
      · intro hc; cases hc
      · intro hc; cases hc
    | resetting m i =>
      unfold State.ack; simp only
      split
      · intro hc; cases hc
      · intro hc; cases hc
  | shutdown => exact h
  | env op => exact h

end GS.MQ
