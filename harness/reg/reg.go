// Package reg is the registry of harness components and the shared line-protocol helpers.
//
// A component drives one part of the real go-graphsync code in-process:
//
//	Gen  writes generated cases in the line protocol (seeded, reproducible);
//	Run  reads cases, executes them against the real code, and prints one output line per
//	     operation (compared verbatim with the Lean model's output) plus `#`-prefixed lines:
//	       #oracle case=<k> FAIL class=<class> <message>   independent property-oracle verdict
//	       #cov <key> <count>                              generator / branch distribution
package reg

import (
	"bufio"
	"flag"
	"fmt"
	"io"
	"os"
	"sort"
	"strings"
)

type Component struct {
	Name string
	Gen  func(seed int64, n int, tier string, w *bufio.Writer)
	Run  func(cases []Case, out *Out)
}

var components = map[string]*Component{}

func Register(c *Component)      { components[c.Name] = c }
func Get(name string) *Component { return components[name] }
func Names() []string {
	var ns []string
	for n := range components {
		ns = append(ns, n)
	}
	sort.Strings(ns)
	return ns
}

// Case is one case of the line protocol.
type Case struct {
	Header string     // the full `case ...` line
	ID     string     // second token of the header
	Ops    [][]string // tokenised op lines
}

func ReadCases(r io.Reader) ([]Case, error) {
	sc := bufio.NewScanner(r)
	sc.Buffer(make([]byte, 1<<20), 1<<28)
	var cases []Case
	var cur *Case
	for sc.Scan() {
		line := sc.Text()
		t := strings.Fields(line)
		if len(t) == 0 {
			continue
		}
		if t[0] == "case" {
			if cur != nil {
				cases = append(cases, *cur)
			}
			id := "0"
			if len(t) > 1 {
				id = t[1]
			}
			cur = &Case{Header: line, ID: id}
			continue
		}
		if cur == nil {
			cur = &Case{Header: "case 0", ID: "0"}
		}
		cur.Ops = append(cur.Ops, t)
	}
	if cur != nil {
		cases = append(cases, *cur)
	}
	return cases, sc.Err()
}

// Out collects output lines, oracle verdicts and coverage counters.
type Out struct {
	W       *bufio.Writer
	cov     map[string]int
	curCase string
}

func NewOut(w *bufio.Writer) *Out { return &Out{W: w, cov: map[string]int{}} }

func (o *Out) BeginCase(c Case) {
	o.curCase = c.ID
	fmt.Fprintln(o.W, c.Header)
}
func (o *Out) Line(format string, a ...interface{}) {
	fmt.Fprintf(o.W, format, a...)
	fmt.Fprintln(o.W)
}

// Fail records an oracle failure for the current case.
func (o *Out) Fail(class string, format string, a ...interface{}) {
	fmt.Fprintf(o.W, "#oracle case=%s FAIL class=%s %s\n", o.curCase, class, fmt.Sprintf(format, a...))
}
func (o *Out) Cov(key string)         { o.cov[key]++ }
func (o *Out) CovN(key string, n int) { o.cov[key] += n }
func (o *Out) Finish() {
	keys := make([]string, 0, len(o.cov))
	for k := range o.cov {
		keys = append(keys, k)
	}
	sort.Strings(keys)
	for _, k := range keys {
		fmt.Fprintf(o.W, "#cov %s %d\n", k, o.cov[k])
	}
	o.W.Flush()
}

// Main is the command line of every per-component driver binary (harness/cmd/gs-<component>):
//
//	gs-<component> gen -seed S -n N -tier quick|thorough   > cases.txt
//	gs-<component> run < cases.txt                          > impl.out
func Main(component string) {
	c := Get(component)
	if c == nil || len(os.Args) < 2 {
		fmt.Fprintf(os.Stderr, "usage: gs-%s gen|run [flags]\n", component)
		os.Exit(2)
	}
	w := bufio.NewWriterSize(os.Stdout, 1<<20)
	defer w.Flush()
	switch os.Args[1] {
	case "gen":
		fs := flag.NewFlagSet("gen", flag.ExitOnError)
		seed := fs.Int64("seed", 1, "PRNG seed")
		n := fs.Int("n", 100, "number of random cases")
		tier := fs.String("tier", "quick", "quick|thorough")
		fs.Parse(os.Args[2:])
		c.Gen(*seed, *n, *tier, w)
	case "run":
		cases, err := ReadCases(bufio.NewReaderSize(os.Stdin, 1<<20))
		if err != nil {
			fmt.Fprintln(os.Stderr, "read:", err)
			os.Exit(2)
		}
		out := NewOut(w)
		c.Run(cases, out)
		out.Finish()
	default:
		fmt.Fprintln(os.Stderr, "unknown mode", os.Args[1])
		os.Exit(2)
	}
}
