package main

import (
	_ "verifharness/ptq"
	"verifharness/reg"
)

func main() { reg.Main("ptq") }
