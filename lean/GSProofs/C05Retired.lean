import GSProofs.C05Outcome
import GSProofs.Lemmas.RespLifeRetiredPark
/-!
# C05 — "afterwards no state": the response has left the table once an outcome is logged

`retired_holds_no_state_partial` (C05Outcome.lean) takes `hgone : lookup s r = none` as a hypothesis.  Here it is
DERIVED from the logged outcome, for an id registered at most once:

* `cancelled_after_retired_reachable` / `cancelled_after_retired` — the cancel listeners are only told after
  (model: in the same atomic manager step as) the response left the table.  In the model `.canc r` is logged in
  exactly two places, `abortRequest … .ctxCancel` (`emit (terminate s1 id) (.canc id)`) and `finishTask … (some
  .ctxCancel)` (`terminate (emit s1 (.canc r.id)) r.id`); both are one atomic step together with `terminate`, so at
  step boundaries the response is gone; what remains to exclude is a LATER response under the same id, which is the
  accounting of the second invariant `Inv2` (`cancC + EP + PN ≤ regs`, `NF → … + 1 ≤ regs`, `netErr ⇒ NF`).
  `Inv2` holds for every `Reachable` state, so the cancelled half needs NO hypothesis on ids (`ReachableDrained` is
  not needed), only `registrations s r ≤ 1`.
* `cancelled_no_parked_request` — same accounting: after a cancelled outcome of an id registered once no
  `newRequest` of that id is parked before registration (for any peer), and the manager is not parked in an
  update-hook error of it.
* `outcome_after_retired` — completed or cancelled ⇒ `lookup s r = none` (completed half: `completed_after_retired`,
  invariant `Inv3.core.d1`, drained ids).
* `retired_holds_no_state_of_outcome` — `retired_holds_no_state_partial` without `hgone`.
* `cancelled_holds_no_state` — for a cancelled outcome also without `hpark`.
* `reregistered_after_cancelled_example` — the hypothesis `registrations s r ≤ 1` cannot be dropped: after the id is
  drained and sent again, `1 ≤ cancelledCount` and the NEW response is in the table (2 registrations).

* `outcome_no_parked_request`, `outcome_holds_no_state` — `hpark` derived for BOTH outcomes (new invariant `PWF`,
  Lemmas/RespLifeRetiredPark.lean: a parked `newRequest` holds exactly the transaction `newRequest` built, which
  always carries an outcome source of its id); the final statement has only `hreg`, `hout`, `hw`.

NOT derived: `hw` (the task workers of `r` have returned).  It is not a consequence of the outcome: `abortRequest`
on a Queued response whose task a worker has popped logs `canc r` while that worker is still in `waitStart`
(weight 0 in `wkSum`; its StartTask will find no response) — `cancelled_worker_not_done_example`. 
-/
namespace GS.C05
open GS.RespLife

/-- **C05.cancelled_after_retired_reachable** (EVERY reachable state, no hypothesis on ids): once the cancel
    listeners were told about an id registered at most once, no response with that id is in the table. -/
theorem cancelled_after_retired_reachable {c : Cfg} {s : State} (h : Reachable c s) (r : Id)
    (hreg : registrations s r ≤ 1) (hc : 1 ≤ cancelledCount s r) : lookup s r = none := by
  have hi := inv2_reachable h r
  rw [← regs_eq] at hreg
  rw [← cancC_eq] at hc
  have hnf : ¬ NF r s := fun hn => by have := hi.potF hn; omega
  have hp := hi.pot0
  have hep : EP r s = 0 := by omega
  unfold EP at hep
  split at hep
  · omega
  · cases hl : lookup s r with
    | none => rfl
    | some x =>
      have hri : rinfo r s = some (x.state, x.aux.netErr) := by simp [rinfo, hl]
      rw [hri] at hep
      cases hne : x.aux.netErr with
      | true => exact absurd (hi.ne x.state (by rw [hri, hne])) hnf
      | false =>
        rw [hne] at hep
        cases hst : x.state <;> rw [hst] at hep <;> simp [aliveW] at hep

/-- **C05.cancelled_after_retired**: the form asked for (drained ids). -/
theorem cancelled_after_retired {c : Cfg} {s : State} (h : ReachableDrained c s) (r : Id)
    (hreg : registrations s r ≤ 1) (hc : 1 ≤ cancelledCount s r) : lookup s r = none :=
  cancelled_after_retired_reachable (reachable_of_drained h) r hreg hc

/-- **C05.cancelled_no_parked_request** (every reachable state): after a cancelled outcome of an id registered at
    most once, no `newRequest` of that id is parked before its registration — for any peer — and the manager is not
    parked in an update-hook error of it. -/
theorem cancelled_no_parked_request {c : Cfg} {s : State} (h : Reachable c s) (r : Id)
    (hreg : registrations s r ≤ 1) (hc : 1 ≤ cancelledCount s r) :
    (∀ p, parkNew s.park ≠ some (p, r)) ∧ parkErr r s.park = false := by
  have hi := inv2_reachable h r
  rw [← regs_eq] at hreg
  rw [← cancC_eq] at hc
  have hp := hi.pot0
  have hpn : PN r s.park = 0 := by omega
  have hep : EP r s = 0 := by omega
  constructor
  · intro p hpk
    unfold parkNew at hpk
    unfold PN at hpn
    cases hk : s.park with
    | none => rw [hk] at hpk; simp at hpk
    | some k =>
      rw [hk] at hpk hpn
      dsimp only at hpk hpn
      cases hcont : k.cont <;> rw [hcont] at hpk hpn <;> simp at hpk hpn
      exact hpn hpk.2
  · unfold EP at hep
    cases hpe : parkErr r s.park with
    | false => rfl
    | true => rw [hpe] at hep; simp at hep

/-- **C05.outcome_after_retired**: an id registered at most once (drained ids) that was reported to the completed
    or to the cancel listeners has no response in the table. -/
theorem outcome_after_retired {c : Cfg} {s : State} (h : ReachableDrained c s) (r : Id)
    (hreg : registrations s r ≤ 1) (hout : 1 ≤ completedCount s r + cancelledCount s r) : lookup s r = none := by
  by_cases hd : 1 ≤ completedCount s r
  · exact completed_after_retired h r hreg hd
  · exact cancelled_after_retired h r hreg (by omega)

/-- **C05.retired_holds_no_state_of_outcome**: `retired_holds_no_state_partial` with `lookup s r = none` derived from
    the logged outcome instead of assumed.  Drained ids; `r` registered once, reported completed or cancelled, its
    newRequest not parked, its task workers returned.  Then no table entry has its id, the connection is not
    protected for it, no task queue has an active topic for it, no builder / publisher queue / parked transaction /
    task worker / FinishTask message holds a terminal status or a pending outcome for it. -/
theorem retired_holds_no_state_of_outcome {c : Cfg} {s : State} (h : ReachableDrained c s) (p : Peer) (r : Id)
    (hreg : registrations s r ≤ 1) (hout : 1 ≤ completedCount s r + cancelledCount s r)
    (hpark : parkNew s.park ≠ some (p, r))
    (hw : ∀ w ∈ s.workers, w.id = r → w.phase = .done) :
    lookup s r = none ∧ (p, r) ∉ s.prot ∧ (∀ x ∈ s.table, x.id ≠ r) ∧ (∀ q, r ∉ (getQ s q).active) ∧
      (∀ q ∈ s.mqs, tokB r q.inflight = 0 ∧ tokB r q.next = 0 ∧ tokQ r q.pubQ = 0) ∧
      parkW r s.park = 0 ∧ wkSum r s.workers = 0 ∧ mbSum r s.workers s.mailbox = 0 :=
  have hgone := outcome_after_retired h r hreg hout
  ⟨hgone, retired_holds_no_state_partial h p r hreg hout hgone hpark hw⟩

/-- **C05.cancelled_holds_no_state**: for the cancelled outcome `hpark` is derived as well; the conclusion holds
    for EVERY peer. -/
theorem cancelled_holds_no_state {c : Cfg} {s : State} (h : ReachableDrained c s) (r : Id)
    (hreg : registrations s r ≤ 1) (hc : 1 ≤ cancelledCount s r)
    (hw : ∀ w ∈ s.workers, w.id = r → w.phase = .done) :
    lookup s r = none ∧ (∀ p, (p, r) ∉ s.prot) ∧ (∀ x ∈ s.table, x.id ≠ r) ∧ (∀ q, r ∉ (getQ s q).active) ∧
      (∀ q ∈ s.mqs, tokB r q.inflight = 0 ∧ tokB r q.next = 0 ∧ tokQ r q.pubQ = 0) ∧
      parkW r s.park = 0 ∧ wkSum r s.workers = 0 ∧ mbSum r s.workers s.mailbox = 0 := by
  have hpk := (cancelled_no_parked_request (reachable_of_drained h) r hreg hc).1
  have h0 := retired_holds_no_state_of_outcome h 0 r hreg (by omega) (hpk 0) hw
  refine ⟨h0.1, fun p => ?_, h0.2.2⟩
  exact (retired_holds_no_state_of_outcome h p r hreg (by omega) (hpk p) hw).2.1

-- ------------------------------------------------------------------ `hpark` derived for BOTH outcomes
/-- the transaction `newRequest` parks always carries an outcome source of its id: the registration to come
    (accept / pause hook) or the terminal status of a rejecting / failing hook -/
theorem termCount_prepareOps_add_contW (r : Id) (p : Peer) (cfg : ReqCfg) :
    1 ≤ termCount (prepareOps cfg.hook) + contW r (.newReq p r cfg) := by
  unfold contW
  simp only [beq_self_eq_true, Bool.true_and]
  generalize cfg.hook = hk
  obtain ⟨k, e⟩ := hk
  cases k <;> cases e <;> decide

theorem parkW_pos_of_parkNew {s : State} (hi : PWF s) {p : Peer} {r : Id} (h : parkNew s.park = some (p, r)) :
    1 ≤ parkW r s.park := by
  unfold parkNew at h
  cases hk : s.park with
  | none => rw [hk] at h; simp at h
  | some pk =>
    rw [hk] at h
    dsimp only at h
    cases hc : pk.cont with
    | newReq p' i cfg =>
      rw [hc] at h
      simp only [Option.some.injEq, Prod.mk.injEq] at h
      obtain ⟨hp, hid⟩ := h
      subst hp hid
      obtain ⟨h1, h2⟩ := hi p' i cfg pk.peer pk.id pk.ops (by simp [parkCore, hk, hc])
      simp only [parkW, h1, h2, hc, beq_self_eq_true, if_true]
      exact termCount_prepareOps_add_contW i p' cfg
    | procUpdate _ _ => rw [hc] at h; simp at h
    | unpause _ _ => rw [hc] at h; simp at h
    | update _ _ => rw [hc] at h; simp at h

/-- **C05.outcome_no_parked_request**: after a completed OR cancelled outcome of an id registered at most once
    (drained ids) no `newRequest` of that id is parked, for any peer.  (`newRequest` logs its `Protect` BEFORE its
    transaction can park, and the parked transaction is an outcome source — `PWF`, Lemmas/RespLifeRetiredPark —
    so the accounting `outcome_sources_le_registrations` excludes it.) -/
theorem outcome_no_parked_request {c : Cfg} {s : State} (h : ReachableDrained c s) (r : Id)
    (hreg : registrations s r ≤ 1) (hout : 1 ≤ completedCount s r + cancelledCount s r) (p : Peer) :
    parkNew s.park ≠ some (p, r) := by
  intro hpk
  have h1 := parkW_pos_of_parkNew (pwf_reachable (reachable_of_drained h)) hpk
  have h2 := outcome_sources_le_registrations h r
  omega

/-- **C05.outcome_holds_no_state**: `retired_holds_no_state_partial` with BOTH `hgone` and `hpark` derived from the
    logged outcome; the only remaining hypothesis besides "registered once" is that the task workers of `r` have
    returned (`hw`, not a consequence of the outcome: `cancelled_worker_not_done_example`).  Holds for every peer. -/
theorem outcome_holds_no_state {c : Cfg} {s : State} (h : ReachableDrained c s) (r : Id)
    (hreg : registrations s r ≤ 1) (hout : 1 ≤ completedCount s r + cancelledCount s r)
    (hw : ∀ w ∈ s.workers, w.id = r → w.phase = .done) :
    lookup s r = none ∧ (∀ p, parkNew s.park ≠ some (p, r)) ∧ (∀ p, (p, r) ∉ s.prot) ∧ (∀ x ∈ s.table, x.id ≠ r) ∧
      (∀ q, r ∉ (getQ s q).active) ∧
      (∀ q ∈ s.mqs, tokB r q.inflight = 0 ∧ tokB r q.next = 0 ∧ tokQ r q.pubQ = 0) ∧
      parkW r s.park = 0 ∧ wkSum r s.workers = 0 ∧ mbSum r s.workers s.mailbox = 0 := by
  have hpk := outcome_no_parked_request h r hreg hout
  have h0 := retired_holds_no_state_of_outcome h 0 r hreg hout (hpk 0) hw
  refine ⟨h0.1, hpk, fun p => ?_, h0.2.2⟩
  exact (retired_holds_no_state_of_outcome h p r hreg hout (hpk p) hw).2.1

-- ------------------------------------------------------------------ non-vacuity and limits
/-- cancel of a Queued response (requestor cancel, `abortRequest … .ctxCancel`) -/
def cancelScript : List Action :=
  [.recv 0 (.new 0 (cfgA 1)), .mgr, .recv 0 (.cancel 0), .mgr]

/-- cancel of a Running response: the executor sees the signal, `finishTask … (some .ctxCancel)` logs `canc` -/
def cancelRunningScript : List Action :=
  [.recv 0 (.new 0 (cfgA 1)), .mgr, .pop 0 0, .mgr, .recv 0 (.cancel 0), .mgr, .wstep 0 0, .wstep 0 0, .wstep 0 0,
   .mgr]

/-- non-vacuity (a test, not a theorem): all hypotheses of `cancelled_after_retired`, `outcome_after_retired`,
    `retired_holds_no_state_of_outcome` and `cancelled_holds_no_state` hold in the state after a requestor cancel
    of a queued request; the conclusion `lookup = none` is re-checked by evaluation. -/
example : ∃ s, ReachableDrained {} s ∧ registrations s 0 ≤ 1 ∧ 1 ≤ cancelledCount s 0 ∧ completedCount s 0 = 0 ∧
    1 ≤ completedCount s 0 + cancelledCount s 0 ∧ parkNew s.park ≠ some (0, 0) ∧
    (∀ w ∈ s.workers, w.id = 0 → w.phase = .done) ∧ lookup s 0 = none :=
  ⟨run (init {}) cancelScript, reachableDrained_run ReachableDrained.init _ (by decide), by decide, by decide,
   by decide, by decide, by decide, by decide, by decide⟩

/-- non-vacuity, second shape (a test): cancel of a RUNNING response — the executor sees the signal and
    `finishTask … (some .ctxCancel)` logs `canc`; all task workers have returned -/
example : ∃ s, ReachableDrained {} s ∧ registrations s 0 ≤ 1 ∧ 1 ≤ cancelledCount s 0 ∧ completedCount s 0 = 0 ∧
    (∀ w ∈ s.workers, w.id = 0 → w.phase = .done) ∧ s.workers ≠ [] ∧ lookup s 0 = none :=
  ⟨run (init {}) cancelRunningScript, reachableDrained_run ReachableDrained.init _ (by decide), by decide, by decide,
   by decide, by decide, by decide, by decide⟩

/-- non-vacuity of `outcome_holds_no_state` for the completed outcome (a test) -/
example : ∃ s, ReachableDrained {} s ∧ registrations s 0 ≤ 1 ∧ 1 ≤ completedCount s 0 + cancelledCount s 0 ∧
    completedCount s 0 = 1 ∧ (∀ w ∈ s.workers, w.id = 0 → w.phase = .done) :=
  ⟨run (init {}) doneScript, reachableDrained_run ReachableDrained.init _ (by decide), by decide, by decide,
   by decide, by decide⟩

/-- **C05.reregistered_after_cancelled_example**: `registrations s r ≤ 1` cannot be dropped — the id is drained,
    sent and registered again: cancelled is logged and a (new) response with that id is in the table. -/
theorem reregistered_after_cancelled_example :
    ∃ s, ReachableDrained {} s ∧ registrations s 0 = 2 ∧ cancelledCount s 0 = 1 ∧ (lookup s 0).isSome = true :=
  ⟨run (init {}) (cancelScript ++ [.thaw, .recv 0 (.new 0 (cfgA 1)), .mgr]),
   reachableDrained_run ReachableDrained.init _ (by decide), by decide, by decide, by decide⟩

/-- **C05.cancelled_worker_not_done_example**: `hw` is NOT a consequence of the outcome — a worker popped the task,
    then the requestor's cancel retires the Queued response and logs `canc` while the worker's StartTask is still
    in the mailbox (the worker is not `done`; it holds no outcome source: `wkSum = 0`). -/
theorem cancelled_worker_not_done_example :
    ∃ s, ReachableDrained {} s ∧ registrations s 0 = 1 ∧ cancelledCount s 0 = 1 ∧ lookup s 0 = none ∧
      (∃ w ∈ s.workers, w.id = 0 ∧ w.phase ≠ .done) ∧ wkSum 0 s.workers = 0 :=
  ⟨run (init {}) [.recv 0 (.new 0 (cfgA 1)), .mgr, .recv 0 (.cancel 0), .pop 0 0, .mgr],
   reachableDrained_run ReachableDrained.init _ (by decide), by decide, by decide, by decide, by decide, by decide⟩

end GS.C05
