import GSProofs.Lemmas.ResponderEnv
/-!
Lemmas for C03, part 7: a request whose link loads are interleaved with operations of other
requests of the same peer (`threadEnv`), and the life of a request as a sequence of phases
(`runPhases`, `runRequest`) separated by pauses during which the rest of the responder acts.
-/
namespace GS.C03L
open GS.LinkTrack GS.Responder

/-- the request's link loads, each preceded by operations of the environment (other requests). -/
def threadEnv (r : Req) : PeerTracker → List (List Op × (Cid × Bool)) → PeerTracker × List ROp
  | p, [] => (p, [])
  | p, (env, (c, b)) :: rest =>
    let res := (runFrom p env).1.traverse r c b
    let tl := threadEnv r res.1 rest
    (tl.1, .block c b res.2.1 res.2.2 :: tl.2)

theorem threadEnv_quiet (r : Req) (es : List (Cid × Bool)) : ∀ p : PeerTracker,
    threadEnv r p (es.map (fun e => ([], e))) = ((thread r p es).1, (thread r p es).2.flatten) := by
  induction es with
  | nil => intro p; rfl
  | cons e es ih => intro p; obtain ⟨c, b⟩ := e; simp [threadEnv, thread, ih, runFrom]

theorem threadEnv_append (r : Req) (a b : List (List Op × (Cid × Bool))) : ∀ p : PeerTracker,
    threadEnv r p (a ++ b)
      = ((threadEnv r (threadEnv r p a).1 b).1, (threadEnv r p a).2 ++ (threadEnv r (threadEnv r p a).1 b).2) := by
  induction a with
  | nil => intro p; simp [threadEnv]
  | cons x xs ih => intro p; obtain ⟨env, c, bb⟩ := x; simp [threadEnv, ih]

/-- attach a pending environment to the first of a list of links. -/
def withEnv (pend : List Op) : List (Cid × Bool) → List (List Op × (Cid × Bool))
  | [] => []
  | e :: es => (pend, e) :: es.map (fun e => ([], e))

theorem withEnv_map (pend : List Op) (es : List (Cid × Bool)) : (withEnv pend es).map (·.2) = es := by
  cases es <;> simp [withEnv, Function.comp_def]

theorem withEnv_envs (pend : List Op) (es : List (Cid × Bool)) (h : es ≠ []) :
    (withEnv pend es).flatMap (·.1) = pend := by
  cases es with
  | nil => exact absurd rfl h
  | cons e es =>
    simp only [withEnv, List.flatMap_cons]
    have : List.flatMap (fun x => x.1) (List.map (fun e => (([] : List Op), e)) es) = [] := by
      induction es with
      | nil => rfl
      | cons x xs ih => simp [ih]
    rw [this]; simp

theorem threadEnv_withEnv (r : Req) (pend : List Op) (es : List (Cid × Bool)) (h : es ≠ []) (q : PeerTracker) :
    threadEnv r q (withEnv pend es)
      = ((thread r (runFrom q pend).1 es).1, (thread r (runFrom q pend).1 es).2.flatten) := by
  cases es with
  | nil => exact absurd rfl h
  | cons e es =>
    obtain ⟨c, b⟩ := e
    simp [withEnv, threadEnv, thread, threadEnv_quiet]

/-! ### T-env-1: the send rule against the tracker state of the moment -/

/-- `ops` are the block operations of the links of `sch`, in order, numbered `i+1, i+2, …`; the block
of a link is attached iff it is present, its number exceeds `skip`, and at the moment of the load no
request in progress in the scope (this one included) has traversed the cid with its block. -/
def SendRule (r : Req) (skip : Int) : PeerTracker → Nat → List (List Op × (Cid × Bool)) → List ROp → Prop
  | _, _, [], ops => ops = []
  | p, i, (env, (c, b)) :: rest, ops =>
    ∃ tl, ops = .block c b (b && decide (skip < ((i + 1 : Nat) : Int)) && (rcOf (runFrom p env).1 r c == 0)) (i + 1) :: tl ∧
      SendRule r skip ((runFrom p env).1.traverse r c b).1 (i + 1) rest tl

theorem threadEnv_sendRule (r : Req) (sch : List (List Op × (Cid × Bool))) :
    ∀ p : PeerTracker, NotMine r (sch.flatMap (·.1)) →
      SendRule r (skipOf p r) p (cnt p r) sch (threadEnv r p sch).2 := by
  induction sch with
  | nil => intro p _; rfl
  | cons x xs ih =>
    intro p hn
    obtain ⟨env, c, b⟩ := x
    have hn1 : NotMine r env := fun o ho => hn o (by simp [List.flatMap_cons, ho])
    have hn2 : NotMine r (xs.flatMap (·.1)) := fun o ho => hn o (by simp only [List.flatMap_cons, List.mem_append]; exact Or.inr ho)
    obtain ⟨e1, e2, _, _⟩ := env_view r env hn1 p
    refine ⟨(threadEnv r ((runFrom p env).1.traverse r c b).1 xs).2, ?_, ?_⟩
    · simp only [threadEnv]
      rw [traverse_send, traverse_idx, e1, e2]
    · have := ih ((runFrom p env).1.traverse r c b).1 hn2
      rw [traverse_skip, traverse_cnt, e1, e2] at this
      exact this

/-! ### T-env-2: an environment in other dedup scopes changes nothing -/

theorem threadEnv_other (r : Req) (key : Option Key) (sch : List (List Op × (Cid × Bool))) :
    ∀ (q : PeerTracker) (dk : List (Req × Key)), aget q.dedupKeys r = key → Agree q dk r →
      EnvScopes r key dk (sch.flatMap (·.1)) →
      (threadEnv r q sch).2
        = (mkTxns (cnt q r) (attach (skipOf q r) (fun c => rcOf q r c != 0) (cnt q r) [] (sch.map (·.2)))).flatten := by
  induction sch with
  | nil => intro q dk _ _ _; simp [threadEnv, attach, mkTxns]
  | cons x xs ih =>
    intro q dk hk ha hs
    obtain ⟨env, c, b⟩ := x
    simp only [List.flatMap_cons] at hs
    have hs1 := EnvScopes_append hs
    have hs2 := EnvScopes_drop hs
    obtain ⟨e1, e2, _, _⟩ := env_view r env (EnvScopes_notMine hs1) q
    obtain ⟨o1, o2, o3⟩ := env_other r key env q dk hk ha hs1
    have hrc : ∀ c', rcOf (runFrom q env).1 r c' = rcOf q r c' := fun c' => by simp [rcOf, o1]
    have hk' : aget ((runFrom q env).1.traverse r c b).1.dedupKeys r = key := by rw [traverse_dedupKeys, o2]
    have ha' : Agree ((runFrom q env).1.traverse r c b).1 (env.foldl dkStep dk) r := by
      intro y hy; rw [traverse_dedupKeys]; exact o3 y hy
    simp only [threadEnv, List.map_cons, attach, mkTxns, List.flatten_cons, List.cons_append, List.nil_append]
    rw [ih _ _ hk' ha' hs2, traverse_cnt, traverse_skip, traverse_send, traverse_idx, e1, e2, hrc]
    congr 1
    · congr 1
      cases h : rcOf q r c == 0 <;> simp [bne, h]
    · congr 2
      apply attach_congr
      intro c'
      rw [traverse_rc, hrc]
      cases b with
      | false => simp
      | true =>
        by_cases hcc : c' = c
        · subst hcc; simp
        · have hne : (c' == c) = false := by simp [hcc]
          simp [hne, hcc]

/-! ### the life of a request as phases -/

/-- phases of a paused request: each entry is the stop condition of the next phase and the
operations the environment performs on the peer's tracker if that phase ends in a pause.
Result: final tracker, all transactions, and whether the request has finished. -/
def runPhases (s : Store) (r : Req) : List (Stop × List Op) → PeerTracker → Run → PeerTracker × List Txn × Bool
  | [], p, _ => (p, [], false)
  | (stop, env) :: rest, p, run =>
    match resumeRequest s p r stop run with
    | (p1, txns, .done) => (p1, txns, true)
    | (p1, txns, .paused run') =>
      let tl := runPhases s r rest (runFrom p1 env).1 run'
      (tl.1, txns ++ tl.2.1, tl.2.2)

/-- the final status operation: by the root flag and the missing-record. -/
def finalOp (rm miss : Bool) : Txn :=
  [.status (if rm then firstBlockStatus else if miss then .completedPartial else .completedFull)]

theorem resume_paused (s : Store) (r : Req) (stop : Stop) (p : PeerTracker) (run : Run)
    (h : (runTraversal s stop r (sizeAll run.trav.todo + 1) p run).2.2.2 = .paused) :
    resumeRequest s p r stop run
      = ((runTraversal s stop r (sizeAll run.trav.todo + 1) p run).1,
         (runTraversal s stop r (sizeAll run.trav.todo + 1) p run).2.2.1,
         .paused (runTraversal s stop r (sizeAll run.trav.todo + 1) p run).2.1) := by
  simp only [resumeRequest, executeQuery, h, finishQuery]
  simp

theorem resume_done (s : Store) (r : Req) (stop : Stop) (p : PeerTracker) (run : Run) (rm : Bool)
    (h : (runTraversal s stop r (sizeAll run.trav.todo + 1) p run).2.2.2 = (if rm then Exit.firstBlock else Exit.complete)) :
    resumeRequest s p r stop run
      = (((runTraversal s stop r (sizeAll run.trav.todo + 1) p run).1.finishTracking r).1,
         (runTraversal s stop r (sizeAll run.trav.todo + 1) p run).2.2.1
           ++ [finalOp rm (missOf (runTraversal s stop r (sizeAll run.trav.todo + 1) p run).1 r)],
         .done) := by
  cases rm with
  | true =>
    simp only [if_true] at h
    simp only [resumeRequest, executeQuery, h, finishQuery, finishWithError, finalOp, if_true]
    simp
  | false =>
    simp only [Bool.false_eq_true, if_false] at h
    simp only [resumeRequest, executeQuery, h, finishQuery, finalOp, finishTracking_all, Bool.false_eq_true, if_false]
    cases missOf (runTraversal s stop r (sizeAll run.trav.todo + 1) p run).1 r <;> simp

theorem any_append_miss (a b : List (Cid × Bool)) :
    (a ++ b).any (fun e => !e.2) = (a.any (fun e => !e.2) || b.any (fun e => !e.2)) := by
  simp

/-- G: the operations of a paused-and-resumed request are those of its links interleaved with the
environment (`threadEnv`), followed by the final status. -/
theorem phases_ops (s : Store) (hs : s.corrupt = []) (r : Req) :
    ∀ (sched : List (Stop × List Op)) (q : PeerTracker) (pend : List Op) (run : Run)
      (es : List (Cid × Bool)) (rm : Bool),
      St s run es rm → (∀ x ∈ sched, isCancel x.1 = false) → NotMine r pend → NotMine r (sched.flatMap (·.2)) →
      (runPhases s r sched (runFrom q pend).1 run).2.2 = true →
      ∃ sch rest pre,
        sch.map (·.2) = es ∧ sch.flatMap (·.1) ++ rest = pend ++ sched.flatMap (·.2) ∧
        (runPhases s r sched (runFrom q pend).1 run).2.1
          = pre ++ [finalOp rm (missOf q r || es.any (fun e => !e.2))] ∧
        strip pre = (threadEnv r q sch).2 := by
  intro sched
  induction sched with
  | nil => intro q pend run es rm _ _ _ _ hd; simp [runPhases] at hd
  | cons x rest ih =>
    intro q pend run es rm hst hstops hpend henv hd
    obtain ⟨stop, env⟩ := x
    have hstop : isCancel stop = false := hstops (stop, env) List.mem_cons_self
    have hstops' : ∀ x ∈ rest, isCancel x.1 = false := fun x hx => hstops x (List.mem_cons_of_mem _ hx)
    have henv1 : NotMine r env := fun o ho => henv o (by simp [List.flatMap_cons, ho])
    have henv2 : NotMine r (rest.flatMap (·.2)) := fun o ho => henv o (by
      simp only [List.flatMap_cons, List.mem_append]; exact Or.inr ho)
    obtain ⟨_, _, hmq, _⟩ := env_view r pend hpend q
    obtain ⟨es1, es2, hes, hp1, hstrip, hcase⟩ := phase s hs r stop hstop (runFrom q pend).1 run es rm hst
    rcases hcase with ⟨hex, hst2⟩ | ⟨hex, hes2⟩
    · -- the phase ends in a pause
      have hres := resume_paused s r stop (runFrom q pend).1 run hex
      simp only [runPhases, hres] at hd ⊢
      by_cases he1 : es1 = []
      · subst he1
        simp only [thread] at hp1 hstrip
        rw [hp1, ← runFrom_fst_append] at hd ⊢
        simp only [List.nil_append] at hes
        subst hes
        have hpe : NotMine r (pend ++ env) := fun o ho => by
          rcases List.mem_append.mp ho with h | h
          · exact hpend o h
          · exact henv1 o h
        obtain ⟨sch, rest', pre, h1, h2, h3, h4⟩ := ih q (pend ++ env) _ _ rm hst2 hstops' hpe henv2 hd
        refine ⟨sch, rest', (runTraversal s stop r (sizeAll run.trav.todo + 1) (runFrom q pend).1 run).2.2.1 ++ pre, h1, by simpa [List.flatMap_cons, List.append_assoc] using h2, ?_, ?_⟩
        · rw [h3, List.append_assoc]
        · rw [strip_append, hstrip, h4]; simp
      · rw [hp1] at hd ⊢
        obtain ⟨sch, rest', pre, h1, h2, h3, h4⟩ :=
          ih (thread r (runFrom q pend).1 es1).1 env _ es2 rm hst2 hstops' henv1 henv2 hd
        refine ⟨withEnv pend es1 ++ sch, rest', (runTraversal s stop r (sizeAll run.trav.todo + 1) (runFrom q pend).1 run).2.2.1 ++ pre, ?_, ?_, ?_, ?_⟩
        · rw [List.map_append, withEnv_map, h1, hes]
        · rw [List.flatMap_append, withEnv_envs pend es1 he1, List.append_assoc, h2]
          simp [List.flatMap_cons]
        · rw [h3, List.append_assoc, thread_miss, hmq, hes, any_append_miss, Bool.or_assoc]
        · rw [strip_append, hstrip, h4, threadEnv_append, threadEnv_withEnv r pend es1 he1]
    · -- the phase ends the request
      subst hes2
      simp only [List.append_nil] at hes
      subst hes
      have hres := resume_done s r stop (runFrom q pend).1 run rm hex
      simp only [runPhases, hres]
      refine ⟨withEnv pend es, (if es = [] then pend else []) ++ (env ++ rest.flatMap (·.2)), (runTraversal s stop r (sizeAll run.trav.todo + 1) (runFrom q pend).1 run).2.2.1, withEnv_map _ _, ?_, ?_, ?_⟩
      · by_cases he : es = []
        · subst he; simp [withEnv, List.flatMap_cons]
        · rw [withEnv_envs pend es he]; simp [he, List.flatMap_cons]
      · rw [hp1, thread_miss, hmq]
      · rw [hstrip]
        by_cases he : es = []
        · subst he; simp [withEnv, threadEnv, thread]
        · rw [threadEnv_withEnv r pend es he]

/-! ### paused statuses are invisible to the item reader -/

theorem itemsOf_filter (ops : List ROp) : itemsOf (ops.filter notPaused) = itemsOf ops := by
  induction ops with
  | nil => rfl
  | cons op ops ih =>
    cases op with
    | block c b sd i => simp [List.filter_cons, itemsOf, ih]
    | status st => cases st <;> simp [List.filter_cons, notPaused, itemsOf, ih]

theorem Good_of_filter (ops : List ROp) (h : Good (ops.filter notPaused)) : Good ops := by
  induction ops with
  | nil => trivial
  | cons op ops ih =>
    cases op with
    | status st =>
      cases st <;> simp only [List.filter_cons, notPaused] at h <;> first | exact ih h | exact ih h
    | block c b sd i =>
      simp only [List.filter_cons, notPaused_block, if_true] at h
      obtain ⟨h1, h2, h3⟩ := h
      refine ⟨h1, ?_, ih h3⟩
      intro hb op hop
      cases op with
      | status st => rfl
      | block c' b' s' i' => exact h2 hb _ (List.mem_filter.mpr ⟨hop, rfl⟩)

/-! ### the whole request -/

/-- an accepted request from arrival to its end: `hp` = the request hook paused it at once;
`stop0` = what interrupts its first phase; `env0` / `sched` = what the other requests of the peer do
to the link tracker during each pause, and what interrupts each further phase. -/
def runRequest (s : Store) (lt : LT) (p : PeerTracker) (r : Req) (hp : Bool) (e : Ext)
    (stop0 : Stop) (env0 : List Op) (sched : List (Stop × List Op)) : PeerTracker × List Txn × Bool :=
  match startRequest s lt p r { paused := hp } e stop0 with
  | (p1, txns, .done) => (p1, txns, true)
  | (p1, txns, .paused run) =>
    let tl := runPhases s r sched (runFrom p1 env0).1 run
    (tl.1, txns ++ tl.2.1, tl.2.2)

theorem runRequest_queued (s : Store) (lt : LT) (p p1 : PeerTracker) (r : Req) (e : Ext) (stop0 : Stop)
    (env0 : List Op) (sched : List (Stop × List Op))
    (h : prepareQuery p r { paused := false } e = (p1, [[]], .queued)) :
    runRequest s lt p r false e stop0 env0 sched
      = ((runPhases s r ((stop0, env0) :: sched) p1 { trav := { todo := [lt] } }).1,
         [[]] ++ (runPhases s r ((stop0, env0) :: sched) p1 { trav := { todo := [lt] } }).2.1,
         (runPhases s r ((stop0, env0) :: sched) p1 { trav := { todo := [lt] } }).2.2) := by
  simp only [runRequest, startRequest, h, runPhases, resumeRequest]
  generalize executeQuery s stop0 r p1 { trav := { todo := [lt] } } = R
  obtain ⟨a, b, c, d⟩ := R
  by_cases hd : d = Exit.paused
  · subst hd; simp
  · have : (d == Exit.paused) = false := by simpa using hd
    simp [this]

theorem runRequest_hookPaused (s : Store) (lt : LT) (p p1 : PeerTracker) (r : Req) (e : Ext) (stop0 : Stop)
    (env0 : List Op) (sched : List (Stop × List Op))
    (h : prepareQuery p r { paused := true } e = (p1, [[.status .paused]], .paused)) :
    runRequest s lt p r true e stop0 env0 sched
      = ((runPhases s r sched (runFrom p1 env0).1 { trav := { todo := [lt] } }).1,
         [[.status .paused]] ++ (runPhases s r sched (runFrom p1 env0).1 { trav := { todo := [lt] } }).2.1,
         (runPhases s r sched (runFrom p1 env0).1 { trav := { todo := [lt] } }).2.2) := by
  simp [runRequest, startRequest, h]

end GS.C03L
