import GSProofs.Lemmas.ResponderPrepare
/-!
Lemmas for C03, part 5: a response that is paused (by a block hook or a `PauseResponse` command, at
any block) and resumed, any number of times.  One phase = one call of `runTraversal`; it performs
the `RecordLinkTraversal` + block operation of a prefix of the remaining links (`thread`), plus
`RequestPaused` status operations, and leaves a run state whose remaining links are the suffix.
-/
namespace GS.C03L
open GS.LinkTrack GS.Responder

def isCancel : Stop → Bool
  | .cancel _ => true
  | _ => false

theorem not_cancel {stop : Stop} (h : isCancel stop = false) (k : Nat) : (stop == Stop.cancel k) = false := by
  cases stop <;> simp_all [isCancel]

/-- every operation except the `RequestPaused` status. -/
def notPaused : ROp → Bool
  | .status .paused => false
  | _ => true

/-- the operations of a list of transactions without the `RequestPaused` statuses. -/
def strip (txns : List Txn) : List ROp := txns.flatten.filter notPaused

@[simp] theorem notPaused_block (c : Cid) (b sd : Bool) (i : Nat) : notPaused (.block c b sd i) = true := rfl
@[simp] theorem notPaused_paused : notPaused (.status .paused) = false := rfl

theorem strip_append (a b : List Txn) : strip (a ++ b) = strip a ++ strip b := by
  simp [strip]

theorem strip_cons (t : Txn) (ts : List Txn) : strip (t :: ts) = t.filter notPaused ++ strip ts := by
  simp [strip]

/-- what is left of a request between two phases: the links still to visit, and whether the root
turned out to be missing. -/
inductive St (s : Store) : Run → List (Cid × Bool) → Bool → Prop
  | fresh (c : Cid) (kids : List LT) (loads hooks : Nat) :
      St s { trav := { todo := [.node c kids] }, loads := loads, hooks := hooks }
        ((LT.node c kids).visit s.has) (!s.has c)
  | mid (todo : List LT) (nb loads hooks : Nat) :
      St s { trav := { todo := todo, nBlocks := nb, started := true, err := none }, loads := loads, hooks := hooks }
        (visitAll s.has todo) false
  | rootFailed (todo : List LT) (loads hooks : Nat) :
      St s { trav := { todo := todo, nBlocks := 0, started := true, err := some .skipRoot }, loads := loads, hooks := hooks }
        [] true

theorem filter_txn (sp hp : Bool) (op : ROp) (hop : notPaused op = true) :
    ((if sp then [ROp.status .paused] else []) ++ [op] ++ (if hp then [ROp.status .paused] else [])).filter notPaused
      = [op] := by
  have hpz : notPaused (ROp.status .paused) = false := rfl
  cases sp <;> cases hp <;> simp [List.filter_cons, hop, hpz]

/-- one phase from a state after the root. -/
theorem phase_mid (s : Store) (hs : s.corrupt = []) (r : Req) (stop : Stop) (hst : isCancel stop = false) :
    ∀ (fuel : Nat) (p : PeerTracker) (todo : List LT) (nb loads hooks : Nat), sizeAll todo < fuel →
      ∃ es1 es2,
        visitAll s.has todo = es1 ++ es2 ∧
        (runTraversal s stop r fuel p
          { trav := { todo := todo, nBlocks := nb, started := true, err := none }, loads := loads, hooks := hooks }).1
          = (thread r p es1).1 ∧
        strip (runTraversal s stop r fuel p
          { trav := { todo := todo, nBlocks := nb, started := true, err := none }, loads := loads, hooks := hooks }).2.2.1
          = (thread r p es1).2.flatten ∧
        (((runTraversal s stop r fuel p
            { trav := { todo := todo, nBlocks := nb, started := true, err := none }, loads := loads, hooks := hooks }).2.2.2 = .paused ∧
          St s (runTraversal s stop r fuel p
            { trav := { todo := todo, nBlocks := nb, started := true, err := none }, loads := loads, hooks := hooks }).2.1 es2 false)
         ∨ ((runTraversal s stop r fuel p
            { trav := { todo := todo, nBlocks := nb, started := true, err := none }, loads := loads, hooks := hooks }).2.2.2 = .complete ∧
          es2 = [])) := by
  intro fuel
  induction fuel with
  | zero => intro p todo nb loads hooks h; omega
  | succ fuel ih =>
    intro p todo nb loads hooks hsz
    cases todo with
    | nil =>
      exact ⟨[], [], by simp [visitAll], by simp [runTraversal, thread], by simp [runTraversal, thread, strip],
        Or.inr ⟨by simp [runTraversal], rfl⟩⟩
    | cons t rest =>
      obtain ⟨c, kids⟩ := t
      have hcor : s.isCorrupt c = false := by simp [Store.isCorrupt, hs]
      have hnc := not_cancel hst (loads + 1)
      simp only [sizeAll, LT.size] at hsz
      simp only [runTraversal, Trav.answer, hcor, hnc, Bool.false_eq_true, if_false]
      -- name the pieces of this iteration
      generalize hhk : (if (s.has c && !s.isEmpty c) = true then hooks + 1 else hooks) = hooks'
      generalize hhp : (s.has c && !s.isEmpty c && stop == Stop.hookPause hooks') = hp
      generalize hsp : (stop == Stop.sigPause (loads + 1)) = sp
      by_cases hc : s.has c = true
      · simp only [hc, if_true]
        have hv : visitAll s.has (LT.node c kids :: rest) = (c, true) :: visitAll s.has (kids ++ rest) := by
          simp [visitAll, LT.visit, hc, visitAll_append]
        by_cases hpz : (hp || sp) = true
        · simp only [hpz, if_true]
          refine ⟨[(c, true)], visitAll s.has (kids ++ rest), by rw [hv]; rfl, by simp [thread], ?_, Or.inl ⟨trivial, St.mid _ _ _ _⟩⟩
          simp only [strip, List.flatten_cons, List.flatten_nil, List.append_nil, thread]
          exact filter_txn sp hp _ rfl
        · have hpz' : (hp || sp) = false := by simpa using hpz
          have hsp' : sp = false := by cases sp <;> simp_all
          have hhp' : hp = false := by cases hp <;> simp_all
          simp only [hpz', Bool.false_eq_true, if_false]
          obtain ⟨es1, es2, h1, h2, h3, h4⟩ := ih (p.traverse r c true).1 (kids ++ rest) (nb + 1) (loads + 1) hooks'
            (by rw [sizeAll_append]; omega)
          refine ⟨(c, true) :: es1, es2, by rw [hv, h1]; rfl, by simpa [thread] using h2, ?_, ?_⟩
          · rw [strip_cons, h3]
            simp [thread, hsp', hhp', List.filter_cons]
          · exact h4
      · have hc' : s.has c = false := by simpa using hc
        simp only [hc', Bool.false_eq_true, if_false, Bool.false_and, if_true] at hhk hhp ⊢
        subst hhk hhp
        have hv : visitAll s.has (LT.node c kids :: rest) = (c, false) :: visitAll s.has rest := by
          simp [visitAll, LT.visit, hc']
        by_cases hpz : sp = true
        · simp only [hpz, Bool.false_or, if_true]
          refine ⟨[(c, false)], visitAll s.has rest, by rw [hv]; rfl, by simp [thread], ?_, Or.inl ⟨trivial, St.mid _ _ _ _⟩⟩
          simp [strip, thread, List.filter_cons]
        · have hsp' : sp = false := by simpa using hpz
          simp only [hsp', Bool.false_or, Bool.false_eq_true, if_false]
          obtain ⟨es1, es2, h1, h2, h3, h4⟩ := ih (p.traverse r c false).1 rest nb (loads + 1) hooks (by omega)
          refine ⟨(c, false) :: es1, es2, by rw [hv, h1]; rfl, by simpa [thread] using h2, ?_, h4⟩
          rw [strip_cons, h3]
          simp [thread, List.filter_cons]

/-- one phase from any state between phases (fuel as `executeQuery` supplies it). -/
theorem phase (s : Store) (hs : s.corrupt = []) (r : Req) (stop : Stop) (hst : isCancel stop = false)
    (p : PeerTracker) (run : Run) (es : List (Cid × Bool)) (rm : Bool) (h : St s run es rm) :
    ∃ es1 es2,
      es = es1 ++ es2 ∧
      (runTraversal s stop r (sizeAll run.trav.todo + 1) p run).1 = (thread r p es1).1 ∧
      strip (runTraversal s stop r (sizeAll run.trav.todo + 1) p run).2.2.1 = (thread r p es1).2.flatten ∧
      (((runTraversal s stop r (sizeAll run.trav.todo + 1) p run).2.2.2 = .paused ∧
          St s (runTraversal s stop r (sizeAll run.trav.todo + 1) p run).2.1 es2 rm)
        ∨ ((runTraversal s stop r (sizeAll run.trav.todo + 1) p run).2.2.2
              = (if rm then Exit.firstBlock else Exit.complete) ∧ es2 = [])) := by
  cases h with
  | mid todo nb loads hooks =>
    obtain ⟨es1, es2, h1, h2, h3, h4⟩ := phase_mid s hs r stop hst (sizeAll todo + 1) p todo nb loads hooks (by omega)
    exact ⟨es1, es2, h1, h2, h3, by simpa using h4⟩
  | rootFailed todo loads hooks =>
    exact ⟨[], [], rfl, by simp [runTraversal, thread], by simp [runTraversal, thread, strip],
      Or.inr ⟨by simp [runTraversal], rfl⟩⟩
  | fresh c kids loads hooks =>
    have hcor : s.isCorrupt c = false := by simp [Store.isCorrupt, hs]
    have hnc := not_cancel hst (loads + 1)
    have hf : sizeAll [LT.node c kids] + 1 = (sizeAll kids + 1) + 1 := by
      simp only [sizeAll, LT.size]; omega
    by_cases hc : s.has c = true
    · -- a present root is answered exactly like any other link
      have heq : runTraversal s stop r (sizeAll [LT.node c kids] + 1) p
            { trav := { todo := [LT.node c kids] }, loads := loads, hooks := hooks }
          = runTraversal s stop r (sizeAll [LT.node c kids] + 1) p
            { trav := { todo := [LT.node c kids], nBlocks := 0, started := true, err := none }, loads := loads, hooks := hooks } := by
        rw [hf]
        generalize sizeAll kids + 1 = f
        simp only [runTraversal, Trav.answer, hc, hcor, if_true]
      obtain ⟨es1, es2, h1, h2, h3, h4⟩ := phase_mid s hs r stop hst (sizeAll [LT.node c kids] + 1) p [LT.node c kids] 0 loads hooks (by omega)
      simp only [heq, hc, Bool.not_true, Bool.false_eq_true, if_false]
      refine ⟨es1, es2, ?_, h2, h3, h4⟩
      rw [← h1]; simp [visitAll]
    · have hc' : s.has c = false := by simpa using hc
      simp only [hc', Bool.not_false, if_true]
      rw [hf]
      generalize hfu : sizeAll kids + 1 = f
      simp only [runTraversal, Trav.answer, hc', hnc, Bool.false_eq_true, if_false, Bool.false_and, Bool.false_or]
      by_cases hsp : (stop == Stop.sigPause (loads + 1)) = true
      · simp only [hsp, if_true]
        refine ⟨[(c, false)], [], by simp [LT.visit, hc'], by simp [thread], ?_, Or.inl ⟨trivial, St.rootFailed _ _ _⟩⟩
        simp [strip, thread, List.filter_cons]
      · have hsp' : (stop == Stop.sigPause (loads + 1)) = false := by simpa using hsp
        subst hfu
        simp only [hsp', Bool.false_eq_true, if_false, runTraversal]
        refine ⟨[(c, false)], [], by simp [LT.visit, hc'], by simp [thread], ?_, Or.inr ⟨by simp, rfl⟩⟩
        simp [strip, thread, List.filter_cons]

end GS.C03L
